import Tuc.Model.Space2
import Tuc.Props.ReadLoops
import Tuc.Props.Space
import Tuc.Lemmas.Total
import Tuc.Lemmas.RegexSpec
import Tuc.Props.C12
/-!
# Tuc.Props.Space2 — C17 for the GENERAL engine, by ghost instrumentation of the literal functions

C17: "… with `-f` or `-c` (no `-M`) [peak memory] is bounded in terms of the longest record, not the
number of records …".  `Tuc.Props.Space` proves this for `-l` forward-only, the fast lane and `-M` and
leaves out the general engine — `read_and_cut_str` / `cut_str`: `-f` off the fast lane (`-g`, `-p`,
`-r`, `-m`, `-t`, `-e`, multi-byte delimiters, format strings …), `-c`, `--json`.  `Tuc.Model.Space2`
copies the statement-level functions of that path (`Tuc.Model.ReadLoops`: bstr's
`for_byte_record[_with_terminator]`, std's `read_until`; `Tuc.Model.CutStrLit`: `cut_str` and its
helpers; `Tuc.Model.WholeLit`: the closure and `read_and_cut_str`) and adds ghost results: the largest
length of bstr's record-assembly buffer `bytes` (`Peak.bytes`), of the two scratch vectors `fields` /
`compressed_line_buf` that live across records, and of the per-record temporaries `line_holder`, the
complemented / unpacked bounds lists, an owned `field_to_print` (`RecPeak`; the table in the header of
the model file says where each is taken).  This file proves:

(a) ERASURE — dropping the ghost components gives exactly the frozen functions, for all arguments,
    all fuel, every reader (no hypothesis at all):
    `readUntilLoopI_erase`, `outerLoopI_erase`, `forByteRecordWithTerminatorLoopI_erase`,
    `forByteRecordLoopI_erase`; `maybeReplaceDelimiterLitI_erase`, `fieldToPrintI_erase`,
    `outputClosureI_erase`, `tryForEachI_erase`, `compressStageI_erase`, `fieldsStageI_erase`,
    `emitStageI_erase`, `cutStrLitI_erase`; `cutStrLitClosureI_sim` (the instrumented closure is the
    frozen one with a ghost next to its captured state) and `outerLoop_sim` / `whileFindByte_sim` (the
    frozen loops do not see such a component) give `readAndCutStrWholeI_erase :
    (readAndCutStrWholeI opt stdin).1 = WholeLit.readAndCutStrWhole opt stdin`.

(b) BOUNDS, for every option record, every input, every segmentation into non-empty reads.
    * CLOSED FORM — `readAndCutStrWholeI_peak`: the `cut_str` part of the ghost is
      `execSup (recPeak opt) (recOk opt) (records eol input)`: the componentwise maximum of a PER-RECORD
      peak (a function of the option record and of that record alone) over the EXECUTED records (all up
      to and including the first whose call returns `Err`); it does not depend on the chunking; and
      `bytes ≤ longestLine`.  From `outerLoopI_spec` (the `'outer` loop: the captured state after the
      loop is `foldState` over bstr's records, `bytes` never exceeds the longest of them),
      `foldState_trimmed`, `foldState_closure`.
    * `readAndCutStrWholeI_bytes_le`: `bytes ≤ longest record + 1` (the terminator).  `bytes` holds the
      record that straddles two reads, the FIRST record of every read after the first one (io.rs:336
      `read_until` is called with an empty fragment too) and the fragment after the last terminator of
      a read; with a single read that ends with the terminator it stays EMPTY
      (`readAndCutStrWholeI_bytes_single`); complete records are otherwise lent as slices of the
      `BufReader`'s buffer.
    * `readAndCutStrWholeI_cut_le`: `cut ≤ recBound opt (longest record)`, i.e. with
      `len` = the longest record, `r` = the length of the replacement (`-r`; 0 without), `B` = the number
      of entries of the bounds list of the option record, `w = len + (len + 1) · r` (`wide`):
        - `fields` ≤ `w + 2` entries (`…_fields_le`) — one range per field; `+ 2`: with the empty
          delimiter (`-c`) a match at every position, both ends included, gives `len + 2` ranges, the two
          boundary ones are popped at l.353-354; REACHED (`#guard`: `-c` on `abcde`: 7).  Without `-r`:
          `≤ len + 2` (`…_fields_le_record`) — C17's statement.  (`w` instead of `len` only because with
          `-e -p -r R` the vector is filled from the REPLACED line, l.317-346.)
        - `compressed_line_buf` ≤ `len` bytes (`…_compressedLineBuf_le`; `compress_delimiter` never
          writes more than it reads: `compressAux_length_le`),
        - `line_holder`, an owned `field_to_print` ≤ `w` bytes (`…_cow_le`; `replaceMatches_length_le`:
          the unmatched bytes once + one replacement per match, at most `len + 1` matches; REACHED with
          the empty delimiter: `-d '' -r '<=>'` on `ab` gives 11 = `wide 3 2` bytes),
        - the complemented list ≤ `2 · B` entries WHATEVER the input, the unpacked list ≤ `2 · B · (w + 2)`
          entries (`…_bounds_le`: at most one entry per field for each (complemented) bound; both lists
          are alive while `unpack` runs).
      Each bound is INDEPENDENT of the number of records; `r` and `B` come from the option record only.

(c) MORE RECORDS, SAME PEAK — `readAndCutStrWholeI_replicate`: `k + 1` copies of a block that ends with
    the terminator, read in ANY non-empty pieces, have exactly the `cut` peaks of one copy (read in any
    pieces), and `bytes` stays under the longest line of ONE copy.  (`bytes` itself is not an invariant
    of "the same input, more often": it depends on where the reads fall — `#guard`.)

(d) NOTHING ACCUMULATES — `cutStrLitI_scratch`: with ANY content in `fields` / `compressed_line_buf` on
    entry, `cut_str` makes the same run, its ghost is the one from empty vectors plus the two lengths on
    arrival, and afterwards each vector is either UNTOUCHED (early return: refused options, record empty
    after trimming; `compressed_line_buf` also whenever l.327 is not reached) or holds what THIS record
    put there; `cutStrLitI_vectors_after`: in the second case at most `w + 2` ranges resp. `len` bytes for
    the length `len` of this very record, however long the previous ones were; `foldState_closure`: over
    the loop the vectors always fit under the accumulator.  A vector that is not cleared (or cleared
    down to a stale prefix only) contradicts the second alternative.

HYPOTHESES
* `∀ s ∈ segs, s ≠ []` (closed form, bounds, replicate) — the `BufRead` contract: an empty `fill_buf()`
  IS end of input for the loops (io.rs:305, mod.rs:2266), `List.flatten` does not see an empty chunk.
  Cannot be dropped for the closed form (`#guard`: `["a-b\n", "", "c-d-e\n"]`); the real program
  cannot reach such a state (`BufReader::fill_buf` is empty only at EOF) — as in `Tuc.Props.ReadLoops`.
* `OptBagOK opt` (bounds of `cut`; not needed for erasure, closed form, replicate, `bytes`) — for the regex
  bag of the option record, if there is one: `RegexBag.OK` (matches in order, in range, not overlapping:
  the hypothesis of the safety theorems) and AT MOST ONE MATCH PER POSITION (`≤ len + 1` matches on a
  haystack of `len` bytes).  Decidable per haystack, a statement about the regex crate in general; it
  holds for no bag (no `-e`: `optBagOK_of_none`), for the bag of `-c` (`bagOK_chars`) and for every bag of
  the executable matcher (`bagOK_of_re`): `optBagOK_of_program`.  Cannot be dropped: `bagMany` reports 50
  empty matches at offset 0 (`RegexBag.OK` holds) and a 1-byte record leaves 51 ranges (`#guard`).  The
  real program cannot reach such a state as long as `regex::bytes::Regex::find_iter` keeps its
  documented behaviour (successive non-overlapping matches; an empty match is not reported twice at
  the same offset nor adjacent to the end of the previous match).
* replicate: `block.getLast? = some eol` — it only says which inputs are "the same records, more often"
  (two copies of `a-b` are ONE record of three fields: `#guard`).

No bound failed: no buffer of this path grows across records.  Things one may want to know although
they are within C17's wording: the peaks are in ENTRIES — a `Range<usize>` is 16 bytes, so `-c` on a
record of `len` ASCII bytes holds `16 · (len + 2)` bytes of ranges; `--json -f 1:,1:` allocates, PER
RECORD, a list of two entries per field; bstr copies the first record of every read after the first
one (performance, not space).

NOT covered: the allocator; the growth policy of `Vec` (capacity < 2 × peak length); the payload of
the `BoundOrFiller`s that `complement` / `unpack` build (clones of filler / fallback strings of the
OPTION record); the `BufReader` / `BufWriter` of `main` (fixed capacities); the regex crate's
internals (caches, iterators); `serde_json::to_string`'s `String` per printed field (≤ 6 × field + 2
bytes, one at a time); the per-bound `Vec`s inside `flat_map`; the stack; `fill_with_fields_locations*`
and `compress_delimiter` are entered through their normal-form models, as in `Tuc.Model.CutStrLit`
(`clear`, then only `push` / `extend`: the peak during the call is the larger of the lengths on entry
and on exit, both taken).  Those stay with the measurements of C17 (counting allocator).
-/
set_option linter.unusedSimpArgs false
namespace Tuc
namespace Space2
open StreamLoop (fillBuf consume memchr totalBytes fuelFor)
open ReadLoops (Closure WhileOut whileFindByte stripSuffix trimRecordSlice readUntilLoop outerLoop
  forByteRecordWithTerminatorLoop forByteRecordLoop splitWT)
open CutStrLit
open BoundsLit
open Space (maxLen rawLines rawLinesAux longestLine longestRecord)

/-! ## 1. erasure -/

/-- **erasure, `read_until`**: all fuel, every reader, every value of the accumulator -/
theorem readUntilLoopI_erase (d : UInt8) : ∀ (fuel : Nat) (r : List Bytes) (buf : Bytes) (read p : Nat),
    (readUntilLoopI d fuel r buf read p).1 = readUntilLoop d fuel r buf read := by
  intro fuel
  induction fuel with
  | zero => intro r buf read p; rfl
  | succ fuel ih =>
    intro r buf read p
    simp only [readUntilLoopI, readUntilLoop]
    cases memchr d (fillBuf r) with
    | none =>
      simp only []
      split
      · rfl
      · exact ih _ _ _ _
    | some i =>
      simp only []
      by_cases hi : i < (fillBuf r).length
      · simp only [hi, if_true]
        split
        · rfl
        · exact ih _ _ _ _
      · simp only [hi, if_false]

/-- **erasure, the `'outer` loop of `for_byte_record_with_terminator`**: for every closure, all fuel,
    every reader, every content of `bytes`, every value of the accumulator -/
theorem outerLoopI_erase {σ : Type} (t : UInt8) (f : Closure σ) :
    ∀ (fuel : Nat) (stdin : List Bytes) (bytes : Bytes) (consumed : Nat) (st : σ) (p : Nat),
    ((outerLoopI t f fuel stdin bytes consumed st p).1, (outerLoopI t f fuel stdin bytes consumed st p).2.1) =
      outerLoop t f fuel stdin bytes consumed st := by
  intro fuel
  induction fuel with
  | zero => intro stdin bytes consumed st p; rfl
  | succ fuel ih =>
    intro stdin bytes consumed st p
    simp only [outerLoopI, outerLoop]
    split
    · rfl
    · split
      · rfl
      · rw [← readUntilLoopI_erase t _ _ _ _ (max p (bytesSpace (bytes ++ (whileFindByte t f ((fillBuf stdin).length + 1) (fillBuf stdin) consumed st).buf)))]
        generalize readUntilLoopI t _ _ _ _ _ = x
        obtain ⟨o, q⟩ := x
        cases o with
        | hang => rfl
        | panic => rfl
        | ok v =>
          obtain ⟨a, b, c⟩ := v
          simp only []
          split
          · rfl
          · split
            · split
              · rfl
              · rw [← ih]
            · rfl

/-- **erasure, `for_byte_record_with_terminator`** -/
theorem forByteRecordWithTerminatorLoopI_erase {σ : Type} (t : UInt8) (f : Closure σ) (stdin : List Bytes)
    (st : σ) :
    ((forByteRecordWithTerminatorLoopI t f stdin st).1, (forByteRecordWithTerminatorLoopI t f stdin st).2.1) =
      forByteRecordWithTerminatorLoop t f stdin st :=
  outerLoopI_erase t f _ _ _ _ _ _

/-- **erasure, `for_byte_record`** -/
theorem forByteRecordLoopI_erase {σ : Type} (t : UInt8) (f : Closure σ) (stdin : List Bytes) (st : σ) :
    ((forByteRecordLoopI t f stdin st).1, (forByteRecordLoopI t f stdin st).2.1) =
      forByteRecordLoop t f stdin st :=
  outerLoopI_erase t _ _ _ _ _ _ _

/-- `fI` is the closure `f` with a ghost component next to its captured state -/
def Sim {σ γ : Type} (fI : Closure (σ × γ)) (f : Closure σ) : Prop :=
  ∀ (record : Bytes) (st : σ) (g : γ),
    (fI record (st, g)).1 = (f record st).1 ∧ (fI record (st, g)).2.1 = (f record st).2.1 ∧
      (fI record (st, g)).2.2.1 = (f record st).2.2

/-- io.rs:308-320 (the frozen function) does not see a ghost component of the captured state -/
theorem whileFindByte_sim {σ γ : Type} (t : UInt8) (fI : Closure (σ × γ)) (f : Closure σ) (h : Sim fI f) :
    ∀ (fuel : Nat) (buf : Bytes) (consumed : Nat) (st : σ) (g : γ),
      (whileFindByte t fI fuel buf consumed (st, g)).run = (whileFindByte t f fuel buf consumed st).run ∧
      (whileFindByte t fI fuel buf consumed (st, g)).breakOuter = (whileFindByte t f fuel buf consumed st).breakOuter ∧
      (whileFindByte t fI fuel buf consumed (st, g)).buf = (whileFindByte t f fuel buf consumed st).buf ∧
      (whileFindByte t fI fuel buf consumed (st, g)).consumed = (whileFindByte t f fuel buf consumed st).consumed ∧
      (whileFindByte t fI fuel buf consumed (st, g)).st.1 = (whileFindByte t f fuel buf consumed st).st := by
  intro fuel
  induction fuel with
  | zero => intro buf consumed st g; exact ⟨rfl, rfl, rfl, rfl, rfl⟩
  | succ fuel ih =>
    intro buf consumed st g
    rw [ReadLoops.whileFindByte_succ, ReadLoops.whileFindByte_succ]
    cases memchr t buf with
    | none => exact ⟨rfl, rfl, rfl, rfl, rfl⟩
    | some index =>
      simp only []
      cases ReadLoops.splitAt? buf (index + 1) with
      | none => exact ⟨rfl, rfl, rfl, rfl, rfl⟩
      | some rr =>
        obtain ⟨record, rest⟩ := rr
        simp only []
        obtain ⟨h1, h2, h3⟩ := h record st g
        generalize fI record (st, g) = x at h1 h2 h3
        obtain ⟨xr, xb, xs, xg⟩ := x
        simp only at h1 h2 h3
        subst h1 h2 h3
        by_cases hok : (f record st).1.status = .ok
        · simp only [hok, if_true]
          by_cases hk : (f record st).2.1 = true
          · simp only [hk, if_true]
            obtain ⟨i1, i2, i3, i4, i5⟩ := ih rest (consumed + record.length) (f record st).2.2 xg
            exact ⟨by rw [i1], i2, i3, i4, i5⟩
          · simp [hk]
        · simp [hok]


/-- the frozen `'outer` loop does not see a ghost component of the captured state -/
theorem outerLoop_sim {σ γ : Type} (t : UInt8) (fI : Closure (σ × γ)) (f : Closure σ) (h : Sim fI f) :
    ∀ (fuel : Nat) (stdin : List Bytes) (bytes : Bytes) (consumed : Nat) (st : σ) (g : γ),
      outerLoop t fI fuel stdin bytes consumed (st, g) = outerLoop t f fuel stdin bytes consumed st := by
  intro fuel
  induction fuel with
  | zero => intro stdin bytes consumed st g; rfl
  | succ fuel ih =>
    intro stdin bytes consumed st g
    rw [ReadLoops.outerLoop_succ, ReadLoops.outerLoop_succ]
    by_cases he : (fillBuf stdin).isEmpty = true
    · simp only [he, if_true]
    · simp only [he, if_false]
      obtain ⟨w1, w2, w3, w4, w5⟩ :=
        whileFindByte_sim t fI f h ((fillBuf stdin).length + 1) (fillBuf stdin) consumed st g
      generalize whileFindByte t fI ((fillBuf stdin).length + 1) (fillBuf stdin) consumed (st, g) = wI
        at w1 w2 w3 w4 w5
      generalize whileFindByte t f ((fillBuf stdin).length + 1) (fillBuf stdin) consumed st = w
        at w1 w2 w3 w4 w5
      obtain ⟨r, b, bf, c, s⟩ := w
      obtain ⟨rI, bI, bfI, cI, sI, gI⟩ := wI
      simp only at w1 w2 w3 w4 w5
      subst w1 w2 w3 w4 w5
      by_cases hb : bI = true
      · simp only [hb, if_true]
      · simp only [hb, if_false]
        unfold ReadLoops.afterWhile
        simp only []
        generalize readUntilLoop t _ _ _ _ = x
        cases x with
        | hang => rfl
        | panic => rfl
        | ok v =>
          obtain ⟨a, bytes', stdin'⟩ := v
          simp only []
          by_cases hbe : bytes'.isEmpty = true
          · simp only [hbe, if_true]
          · simp only [hbe, if_false]
            obtain ⟨h1, h2, h3⟩ := h bytes' sI gI
            generalize fI bytes' (sI, gI) = y at h1 h2 h3
            obtain ⟨yr, yb, ys, yg⟩ := y
            simp only at h1 h2 h3
            subst h1 h2 h3
            simp only [ih]


/-- **erasure, `maybe_replace_delimiter`** -/
theorem maybeReplaceDelimiterLitI_erase (text : Bytes) (opt : Opt) :
    (maybeReplaceDelimiterLitI text opt).1 = maybeReplaceDelimiterLit text opt := by
  unfold maybeReplaceDelimiterLitI maybeReplaceDelimiterLit
  split
  · rfl
  · cases opt.replaceDelimiter with
    | none => rfl
    | some nd => cases opt.regexBag <;> rfl

/-- **erasure, l.416-434** (stated for a variable bound: `resolve` is never unfolded) -/
theorem fieldToPrintI_erase (line : Bytes) (fields : List Range) (n : Nat) (opt : Opt) (dar : Bool)
    (b : UserBounds) :
    (fieldToPrintI line fields n opt dar b).1 = fieldToPrint line fields n opt dar b := by
  unfold fieldToPrintI fieldToPrint
  generalize resolve b n = r
  cases r with
  | panic => rfl
  | fail =>
    simp only []
    split
    · rfl
    · cases opt.fallbackOob <;> rfl
  | ok r =>
    simp only []
    cases indexRange fields r.1 with
    | fail => rfl
    | panic => rfl
    | ok fStart =>
      simp only [Res.bind]
      cases usizeSub r.2 1 with
      | fail => rfl
      | panic => rfl
      | ok m =>
        simp only []
        cases indexRange fields m with
        | fail => rfl
        | panic => rfl
        | ok fEnd =>
          simp only []
          cases sliceBytes line fStart.start fEnd.stop with
          | fail => rfl
          | panic => rfl
          | ok s =>
            simp only []
            split
            · rfl
            · rw [maybeReplaceDelimiterLitI_erase]

/-- **erasure, the closure of `try_for_each`** (l.407-446) -/
theorem outputClosureI_erase (line : Bytes) (fields : List Range) (n : Nat) (opt : Opt) (dar : Bool)
    (bof : BoF) :
    (outputClosureI line fields n opt dar bof).1 = outputClosure line fields n opt dar bof := by
  cases bof with
  | filler f => rfl
  | bound b =>
    simp only [outputClosureI, outputClosure, fieldToPrintI_erase]

/-- **erasure, `try_for_each`** -/
theorem tryForEachI_erase (line : Bytes) (fields : List Range) (n : Nat) (opt : Opt) (dar : Bool) :
    ∀ l : List BoF, (tryForEachI line fields n opt dar l).1 = tryForEach line fields n opt dar l := by
  intro l
  induction l with
  | nil => rfl
  | cons bof rest ih => simp only [tryForEachI, tryForEach, ih, outputClosureI_erase]

/-- **erasure, l.300-330** -/
theorem compressStageI_erase (line : Bytes) (opt : Opt) (buf : Bytes) :
    (compressStageI line opt buf).1 = CutStrLit.compressStage line opt buf := by
  simp only [compressStageI, CutStrLit.compressStage]
  by_cases h1 : (opt.compressDelimiter &&
      (decide (opt.boundsType = BoundsType.fields) || decide (opt.boundsType = BoundsType.lines))) = true
  · simp only [h1, if_true]
    by_cases h2 : (opt.regexBag.isSome && true) = true
    · simp only [h2, if_true]
      cases unwrap opt.replaceDelimiter with
      | fail => rfl
      | panic => rfl
      | ok d =>
        simp only [Res.bind]
        cases unwrap opt.regexBag <;> rfl
    · simp only [h2, Bool.false_eq_true, if_false]
  · simp only [h1, Bool.false_eq_true, if_false]

/-- **erasure, l.332-355** -/
theorem fieldsStageI_erase (loc : Locals) (opt : Opt) (fields : List Range) :
    (fieldsStageI loc opt fields).1 = CutStrLit.fieldsStage loc opt fields := by
  unfold fieldsStageI CutStrLit.fieldsStage
  generalize (if loc.shouldBuildRangesUsingRegex = true then
      (unwrap opt.regexBag).bind fun bag =>
        Res.ok (fillWithFieldsLocationsUsingRegex fields loc.line
          ((if opt.greedyDelimiter = true then bag.greedy else bag.normal) loc.line))
    else if opt.greedyDelimiter = true then Res.ok (fillWithFieldsLocationsGreedy fields loc.line loc.delimiter)
    else Res.ok (fillWithFieldsLocations fields loc.line loc.delimiter)) = x
  cases x with
  | fail => rfl
  | panic => rfl
  | ok f =>
    simp only [Res.bind]
    split <;> rfl


/-- **erasure, l.357-455** -/
theorem emitStageI_erase (line : Bytes) (fields : List Range) (opt : Opt) (dar : Bool) (eol : Bytes) :
    (emitStageI line fields opt dar eol).1 = CutStrLit.emitStage line fields opt dar eol := by
  simp only [emitStageI, CutStrLit.emitStage]
  by_cases h1 : (opt.onlyDelimited && fields.length == 1) = true
  · simp only [h1, if_true]
  · simp only [h1, Bool.false_eq_true, if_false]
    generalize (if opt.complement = true then complementList opt.bounds.list fields.length
      else Res.ok opt.bounds) = c
    cases c with
    | fail => rfl
    | panic => rfl
    | ok bounds =>
      simp only [orStop]
      by_cases h2 : (opt.complement && bounds.list.isEmpty) = true
      · simp only [h2, if_true]
      · simp only [h2, Bool.false_eq_true, if_false]
        generalize (if ((opt.json || decide (opt.boundsType = BoundsType.characters) && opt.replaceDelimiter.isSome) &&
            bounds.list.any needsUnpack) = true then unpackList bounds.list fields.length
          else Res.ok bounds) = u
        cases u with
        | fail => rfl
        | panic => rfl
        | ok bounds' => simp only [tryForEachI_erase]

/-- **erasure, `cut_str`**: the run and the two vectors as the function leaves them, for every record,
    every option record, any content of the vectors -/
theorem cutStrLitI_erase (line : Bytes) (opt : Opt) (fields : List Range) (buf eol : Bytes) :
    ((cutStrLitI line opt fields buf eol).1, (cutStrLitI line opt fields buf eol).2.1,
      (cutStrLitI line opt fields buf eol).2.2.1) = CutStrLit.cutStrLit line opt fields buf eol := by
  simp only [cutStrLitI, CutStrLit.cutStrLit]
  by_cases h1 : (opt.regexBag.isSome && (opt.compressDelimiter && opt.replaceDelimiter.isNone)) = true
  · simp only [h1, if_true]
  · simp only [h1, Bool.false_eq_true, if_false]
    by_cases h2 : (opt.regexBag.isSome && (opt.join && opt.replaceDelimiter.isNone)) = true
    · simp only [h2, if_true]
    · simp only [h2, Bool.false_eq_true, if_false]
      cases CutStrLit.trimStage line opt with
      | fail => rfl
      | panic => rfl
      | ok line' =>
        simp only []
        by_cases h3 : line'.isEmpty = true
        · simp only [h3, if_true]
        · simp only [h3, Bool.false_eq_true, if_false]
          rw [← compressStageI_erase]
          generalize compressStageI line' opt buf = x
          obtain ⟨c, g1⟩ := x
          cases c with
          | fail => rfl
          | panic => rfl
          | ok loc =>
            simp only []
            rw [← fieldsStageI_erase]
            generalize fieldsStageI loc opt fields = y
            obtain ⟨f, g2⟩ := y
            cases f with
            | fail => rfl
            | panic => rfl
            | ok fields' => simp only [emitStageI_erase]

/-- the instrumented closure of `read_and_cut_str` is the frozen one with a ghost next to its state -/
theorem cutStrLitClosureI_sim (opt : Opt) : Sim (cutStrLitClosureI opt) (WholeLit.cutStrLitClosure opt) := by
  intro record st g
  simp [cutStrLitClosureI, WholeLit.cutStrLitClosure, ← cutStrLitI_erase]


/-- the wrapper of `for_byte_record` (io.rs:195-197) keeps the simulation -/
theorem trimmed_sim {σ γ : Type} (t : UInt8) (fI : Closure (σ × γ)) (f : Closure σ) (h : Sim fI f) :
    Sim (ReadLoops.trimmed t fI) (ReadLoops.trimmed t f) := by
  intro record st g
  unfold ReadLoops.trimmed
  cases trimRecordSlice record t with
  | none => exact ⟨rfl, rfl, rfl⟩
  | some r => exact h r st g

/-- **erasure, `read_and_cut_str`**: the run of the instrumented function is the run of the frozen
    statement-level function, for every option record and every reader (every list of chunks, empty
    ones included) -/
theorem readAndCutStrWholeI_erase (opt : Opt) (stdin : List Bytes) :
    (readAndCutStrWholeI opt stdin).1 = WholeLit.readAndCutStrWhole opt stdin := by
  unfold readAndCutStrWholeI WholeLit.readAndCutStrWhole
  simp only []
  have h1 := forByteRecordLoopI_erase opt.eol.byte (cutStrLitClosureI opt) stdin (([], []), {})
  have h2 : forByteRecordLoop opt.eol.byte (cutStrLitClosureI opt) stdin (([], []), {}) =
      forByteRecordLoop opt.eol.byte (WholeLit.cutStrLitClosure opt) stdin ([], []) := by
    rw [ReadLoops.forByteRecordLoop_eq, ReadLoops.forByteRecordLoop_eq]
    exact outerLoop_sim _ _ _ (trimmed_sim _ _ _ (cutStrLitClosureI_sim opt)) _ _ _ _ _ _
  rw [← h2, ← h1]
  rfl

/-! ## 2. the reader -/

/-- the captured state after the closure has been called on the records in order, until a call
    returns `Ok(false)` or `Err(_)` (the companion of `ReadLoops.foldRecords`, which gives the run) -/
def foldState {σ : Type} (f : Closure σ) : List Bytes → σ → σ
  | [], st => st
  | r :: t, st =>
    if (f r st).1.status = .ok ∧ (f r st).2.1 = true then foldState f t (f r st).2.2 else (f r st).2.2

theorem splitWT_eq_rawLinesAux (t : UInt8) : ∀ (input cur : Bytes),
    splitWT t cur input = rawLinesAux t cur.reverse input := by
  intro input
  induction input with
  | nil => intro cur; simp [splitWT, rawLinesAux]
  | cons c tl ih =>
    intro cur
    simp only [splitWT, rawLinesAux]
    split
    · rw [ih []]; simp
    · rw [ih (cur ++ [c])]; simp

/-- the records WITH their terminator that bstr hands to the closure are the `rawLines` of
    `Tuc.Props.Space` -/
theorem splitWT_eq_rawLines (t : UInt8) (input : Bytes) : splitWT t [] input = rawLines t input :=
  splitWT_eq_rawLinesAux t input []

theorem foldState_cons {σ : Type} (f : Closure σ) (r : Bytes) (t : List Bytes) (st : σ) :
    foldState f (r :: t) st =
      if (f r st).1.status = .ok ∧ (f r st).2.1 = true then foldState f t (f r st).2.2 else (f r st).2.2 := rfl

/-- io.rs:308-320 at the level of the record list: the loop serves a prefix `served` of the
    records of `buf ++ rest` and leaves the fragment `w.buf` pending; the state of the closure
    follows -/
theorem whileFindByte_state {σ : Type} (t : UInt8) (f : Closure σ) (rest : Bytes) :
    ∀ (fuel : Nat) (buf : Bytes) (consumed : Nat) (st : σ), buf.length < fuel →
    ((whileFindByte t f fuel buf consumed st).breakOuter = true →
        foldState f (splitWT t [] (buf ++ rest)) st = (whileFindByte t f fuel buf consumed st).st) ∧
    ((whileFindByte t f fuel buf consumed st).breakOuter = false →
        foldState f (splitWT t [] (buf ++ rest)) st =
          foldState f (splitWT t (whileFindByte t f fuel buf consumed st).buf rest)
            (whileFindByte t f fuel buf consumed st).st ∧
        ∃ served, splitWT t [] (buf ++ rest) =
          served ++ splitWT t (whileFindByte t f fuel buf consumed st).buf rest) := by
  intro fuel
  induction fuel with
  | zero => intro buf consumed st h; omega
  | succ fuel ih =>
    intro buf consumed st hfuel
    rw [ReadLoops.whileFindByte_succ]
    cases hm : memchr t buf with
    | none =>
      rw [ReadLoops.splitWT_memchr_none t rest buf [] hm]
      refine ⟨fun h => ?_, fun _ => ⟨?_, [], ?_⟩⟩
      · exact absurd h (by simp)
      · simp
      · simp
    | some index =>
      have hlt := ReadLoops.memchr_some_lt t buf index hm
      simp only
      rw [ReadLoops.splitAt?_of_le buf (index + 1) (by omega),
        ReadLoops.splitWT_memchr_some t rest buf [] index hm]
      simp only [List.nil_append]
      have hdl : (buf.drop (index + 1)).length < fuel := by simp; omega
      obtain ⟨ih1, ih2⟩ := ih (buf.drop (index + 1)) (consumed + (buf.take (index + 1)).length)
        (f (buf.take (index + 1)) st).2.2 hdl
      rw [foldState_cons]
      by_cases hok : (f (buf.take (index + 1)) st).1.status = .ok
      · by_cases hk : (f (buf.take (index + 1)) st).2.1 = true
        · simp only [hok, hk, and_self, if_true]
          refine ⟨ih1, fun hb => ?_⟩
          obtain ⟨i1, served, i2⟩ := ih2 hb
          exact ⟨i1, buf.take (index + 1) :: served, by rw [i2]; rfl⟩
        · simp [hok, hk]
      · simp [hok]

/-- `read_until`: the accumulator ends as the larger of what it was and of the length of the buffer
    handed back, which only grew -/
theorem readUntilLoopI_peak (d : UInt8) : ∀ (fuel : Nat) (r : List Bytes) (buf : Bytes) (read p : Nat)
    (read' : Nat) (buf' : Bytes) (r' : List Bytes),
    (readUntilLoopI d fuel r buf read p).1 = .ok (read', buf', r') →
    (readUntilLoopI d fuel r buf read p).2 = max p buf'.length ∧ buf.length ≤ buf'.length := by
  intro fuel
  induction fuel with
  | zero => intro r buf read p read' buf' r' h; cases h
  | succ fuel ih =>
    intro r buf read p read' buf' r' h
    simp only [readUntilLoopI] at h ⊢
    cases hm : memchr d (fillBuf r) with
    | none =>
      simp only [hm] at h ⊢
      split at h
      · rename_i hd
        simp only [hd, if_true]
        injection h with h; injection h with _ h; injection h with h _
        subst h
        simp [bytesSpace]
      · rename_i hd
        simp only [hd, Bool.false_eq_true, if_false]
        obtain ⟨i1, i2⟩ := ih _ _ _ _ _ _ _ h
        rw [i1]
        simp only [bytesSpace, List.length_append] at i1 i2 ⊢
        omega
    | some i =>
      simp only [hm] at h ⊢
      by_cases hi : i < (fillBuf r).length
      · simp only [hi, if_true] at h ⊢
        split at h
        · rename_i hd
          simp only [hd, if_true]
          injection h with h; injection h with _ h; injection h with h _
          subst h
          simp [bytesSpace]
        · rename_i hd
          simp only [hd, Bool.false_eq_true, if_false]
          obtain ⟨i1, i2⟩ := ih _ _ _ _ _ _ _ h
          rw [i1]
          simp only [bytesSpace, List.length_append] at i1 i2 ⊢
          omega
      · simp only [hi, if_false] at h
        cases h

/-- io.rs:325-343 for a chunk on which the `while` loop ended normally (the companion of
    `ReadLoops.afterWhile`) -/
def afterWhileI {σ : Type} (t : UInt8) (f : Closure σ) (fuel : Nat) (stdin : List Bytes) (bytes : Bytes)
    (w : WhileOut σ) (p : Nat) : Run × List Bytes × σ × Nat :=
  match readUntilLoopI t (totalBytes (consume (w.consumed + w.buf.length) stdin) + 1)
      (consume (w.consumed + w.buf.length) stdin) (bytes ++ w.buf) 0 (max p (bytesSpace (bytes ++ w.buf))) with
  | (.hang, peak) => (w.run.seq Run.hang, consume (w.consumed + w.buf.length) stdin, w.st, peak)
  | (.panic, peak) => (w.run.seq Run.panic, consume (w.consumed + w.buf.length) stdin, w.st, peak)
  | (.ok (_, bytes, stdin), peak) =>
    if bytes.isEmpty then (w.run, consume 0 stdin, w.st, peak)
    else
      if (f bytes w.st).1.status = .ok then
        if !(f bytes w.st).2.1 then (w.run.seq (f bytes w.st).1, consume 0 stdin, (f bytes w.st).2.2, peak)
        else
          ((w.run.seq (f bytes w.st).1).seq
             (outerLoopI t f fuel stdin (TextLoops.clear bytes) 0 (f bytes w.st).2.2
               (max peak (bytesSpace (TextLoops.clear bytes)))).1,
           (outerLoopI t f fuel stdin (TextLoops.clear bytes) 0 (f bytes w.st).2.2
               (max peak (bytesSpace (TextLoops.clear bytes)))).2.1,
           (outerLoopI t f fuel stdin (TextLoops.clear bytes) 0 (f bytes w.st).2.2
               (max peak (bytesSpace (TextLoops.clear bytes)))).2.2.1,
           (outerLoopI t f fuel stdin (TextLoops.clear bytes) 0 (f bytes w.st).2.2
               (max peak (bytesSpace (TextLoops.clear bytes)))).2.2.2)
      else (w.run.seq (f bytes w.st).1, stdin, (f bytes w.st).2.2, peak)

theorem outerLoopI_succ {σ : Type} (t : UInt8) (f : Closure σ) (fuel : Nat) (stdin : List Bytes) (bytes : Bytes)
    (consumed : Nat) (st : σ) (p : Nat) :
    outerLoopI t f (fuel + 1) stdin bytes consumed st p =
      if (fillBuf stdin).isEmpty then (Run.empty, consume consumed stdin, st, p)
      else
        if (whileFindByte t f ((fillBuf stdin).length + 1) (fillBuf stdin) consumed st).breakOuter then
          ((whileFindByte t f ((fillBuf stdin).length + 1) (fillBuf stdin) consumed st).run,
           consume (whileFindByte t f ((fillBuf stdin).length + 1) (fillBuf stdin) consumed st).consumed stdin,
           (whileFindByte t f ((fillBuf stdin).length + 1) (fillBuf stdin) consumed st).st, p)
        else afterWhileI t f fuel stdin bytes
          (whileFindByte t f ((fillBuf stdin).length + 1) (fillBuf stdin) consumed st) p := rfl

theorem maxLen_append (a b : List Bytes) : maxLen (a ++ b) = max (maxLen a) (maxLen b) :=
  Space.maxLen_append a b

/-- **the `'outer` loop** (io.rs:301-343) from the top of an iteration (`bytes` empty, `consumed = 0`),
    on a reader without empty chunk, for any fuel above the number of bytes left: the captured
    state after the loop is the state after the fold over the records (terminators included) of the
    concatenated input, and `bytes` never held more than the longest of them. -/
theorem outerLoopI_spec {σ : Type} (t : UInt8) (f : Closure σ) :
    ∀ (fuel : Nat) (stdin : List Bytes) (st : σ) (p : Nat),
    (∀ s ∈ stdin, s ≠ []) → totalBytes stdin < fuel →
    (outerLoopI t f fuel stdin [] 0 st p).2.2.1 = foldState f (splitWT t [] stdin.flatten) st ∧
    (outerLoopI t f fuel stdin [] 0 st p).2.2.2 ≤ max p (maxLen (splitWT t [] stdin.flatten)) := by
  intro fuel
  induction fuel with
  | zero => intro stdin st p _ h; omega
  | succ fuel ih =>
    intro stdin st p hne hfuel
    rw [outerLoopI_succ]
    cases stdin with
    | nil => simp [fillBuf, splitWT, foldState]; exact Nat.le_max_left _ _
    | cons chunk more =>
      have hc : chunk ≠ [] := hne chunk (List.mem_cons_self ..)
      have hclen : 0 < chunk.length := List.length_pos_iff.mpr hc
      have hmore : ∀ s ∈ more, s ≠ [] := fun s hs => hne s (List.mem_cons_of_mem _ hs)
      have htb : totalBytes (chunk :: more) = chunk.length + totalBytes more := rfl
      have hfb : fillBuf (chunk :: more) = chunk := rfl
      have hce : chunk.isEmpty = false := by
        cases chunk with
        | nil => exact absurd rfl hc
        | cons _ _ => rfl
      rw [hfb, hce]
      simp only [Bool.false_eq_true, if_false]
      obtain ⟨_, hw2⟩ := ReadLoops.whileFindByte_spec t f more.flatten (chunk.length + 1) chunk 0 st (by omega)
      obtain ⟨hs1, hs2⟩ := whileFindByte_state t f more.flatten (chunk.length + 1) chunk 0 st (by omega)
      rw [List.flatten_cons]
      generalize whileFindByte t f (chunk.length + 1) chunk 0 st = w at hw2 hs1 hs2 ⊢
      cases hb : w.breakOuter with
      | true =>
        simp only [if_true]
        exact ⟨(hs1 hb).symm, Nat.le_max_left _ _⟩
      | false =>
        simp only [Bool.false_eq_true, if_false]
        have hcons := hw2 hb
        obtain ⟨hst, served, hsv⟩ := hs2 hb
        unfold afterWhileI
        rw [hcons, Nat.zero_add, StreamLoop.consume_all, List.nil_append]
        obtain ⟨read', bytes', stdin', h1, h2, h3, h4⟩ :=
          ReadLoops.readUntilLoop_spec t (totalBytes more + 1) more w.buf 0 hmore (by omega)
        have he := readUntilLoopI_erase t (totalBytes more + 1) more w.buf 0 (max p (bytesSpace w.buf))
        rw [h1] at he
        obtain ⟨hp1, hp2⟩ := readUntilLoopI_peak t _ _ _ _ _ _ _ _ he
        generalize readUntilLoopI t (totalBytes more + 1) more w.buf 0 (max p (bytesSpace w.buf)) = x
          at he hp1 hp2
        obtain ⟨o, q⟩ := x
        simp only at he hp1 hp2
        subst he hp1
        simp only
        rw [hst, hsv, maxLen_append, h4]
        by_cases hbe : bytes'.isEmpty = true
        · simp only [hbe, if_true, foldState, bytesSpace]
          refine ⟨trivial, ?_⟩
          have : bytes'.length = 0 := by simpa using hbe
          omega
        · simp only [hbe, Bool.false_eq_true, if_false, foldState_cons]
          have hmx : maxLen (bytes' :: splitWT t [] stdin'.flatten) =
              max bytes'.length (maxLen (splitWT t [] stdin'.flatten)) := rfl
          rw [hmx]
          simp only [bytesSpace] at hp2 ⊢
          by_cases hok : (f bytes' w.st).1.status = .ok
          · simp only [hok, if_true, true_and]
            cases hk : (f bytes' w.st).2.1 with
            | true =>
              simp only [Bool.not_true, Bool.false_eq_true, if_false, if_true]
              have hcl : TextLoops.clear bytes' = ([] : Bytes) := rfl
              rw [hcl]
              obtain ⟨i1, i2⟩ := ih stdin' (f bytes' w.st).2.2
                (max (max (max p w.buf.length) bytes'.length) ([] : Bytes).length) h2 (by omega)
              refine ⟨i1, ?_⟩
              simp only [List.length_nil] at i2 ⊢
              omega
            | false =>
              simp only [Bool.not_false, if_true, Bool.false_eq_true, if_false]
              refine ⟨trivial, ?_⟩
              omega
          · simp only [hok, if_false, false_and]
            refine ⟨trivial, ?_⟩
            omega

/-! ## 3. how long the per-record buffers get -/

/-- `find_iter` reports at most one offset per position, the end included -/
theorem findIterAux_length_le (d : Bytes) : ∀ (l : Bytes) (skip pos : Nat),
    (findIterAux d skip pos l).length ≤ l.length + 1 := by
  intro l
  induction l with
  | nil => intro skip pos; simp only [findIterAux]; split <;> simp
  | cons c t ih =>
    intro skip pos
    cases skip with
    | succ k => simp only [findIterAux, List.length_cons]; have := ih k (pos + 1); omega
    | zero =>
      simp only [findIterAux, List.length_cons]
      split
      · simp only [List.length_cons]; have := ih (d.length - 1) (pos + 1); omega
      · have := ih 0 (pos + 1); omega

theorem findIter_length_le (d line : Bytes) : (findIter d line).length ≤ line.length + 1 :=
  findIterAux_length_le d line 0 0

theorem rangesBetween_length (dlen n : Nat) : ∀ (ms : List Nat) (prev : Nat),
    (rangesBetween dlen n prev ms).length = ms.length + 1 := by
  intro ms
  induction ms with
  | nil => intro prev; rfl
  | cons i t ih => intro prev; simp [rangesBetween, ih]

theorem rangesBetweenGreedy_length_le (dlen n : Nat) : ∀ (ms : List Nat) (am : Bool) (prev : Nat),
    (rangesBetweenGreedy dlen n am prev ms).length ≤ ms.length + 1 := by
  intro ms
  induction ms with
  | nil => intro am prev; simp [rangesBetweenGreedy]
  | cons i t ih =>
    intro am prev
    simp only [rangesBetweenGreedy]
    split
    · have := ih true (i + dlen); simp only [List.length_cons]; omega
    · have := ih true (i + dlen); simp only [List.length_cons]; omega

/-- the literal splitters leave at most `len + 2` ranges (the empty delimiter matches at every
    position, the end included: `len + 1` matches) -/
theorem fillWithFieldsLocations_length_le (buf : List Range) (line d : Bytes) :
    (fillWithFieldsLocations buf line d).length ≤ line.length + 2 := by
  unfold fillWithFieldsLocations
  split
  · simp
  · rw [rangesBetween_length]; have := findIter_length_le d line; omega

theorem fillWithFieldsLocationsGreedy_length_le (buf : List Range) (line d : Bytes) :
    (fillWithFieldsLocationsGreedy buf line d).length ≤ line.length + 2 := by
  unfold fillWithFieldsLocationsGreedy
  split
  · exact fillWithFieldsLocations_length_le buf line d
  · split
    · simp
    · have := rangesBetweenGreedy_length_le d.length line.length (findIter d line) false 0
      have := findIter_length_le d line
      omega

theorem fillWithFieldsLocationsUsingRegex_length_le (buf : List Range) (line : Bytes) (ms : List (Nat × Nat)) :
    (fillWithFieldsLocationsUsingRegex buf line ms).length ≤ ms.length + 1 := by
  unfold fillWithFieldsLocationsUsingRegex
  split
  · simp
  · rw [rangesBetweenMatches_length]; exact Nat.le_refl _

/-- `compress_delimiter` never writes more than it reads -/
theorem compressAux_length_le (line d : Bytes) : ∀ (ms : List Nat) (prev : Nat),
    MatchesIn d.length line.length prev ms → prev ≤ line.length →
    (compressAux line d prev ms).length ≤ line.length - prev := by
  intro ms
  induction ms with
  | nil =>
    intro prev _ hp
    simp only [compressAux]
    split <;> simp
  | cons idx t ih =>
    intro prev hm hp
    obtain ⟨h1, h2, h3⟩ := hm
    have := ih (idx + d.length) h3 h2
    simp only [compressAux, List.length_append]
    split
    · omega
    · split
      · simp only [List.length_append, slice_length]; omega
      · simp only [List.length_nil]; omega

theorem compressDelimiter_length_le (line d buf : Bytes) :
    (compressDelimiter line d buf).length ≤ line.length := by
  have := compressAux_length_le line d (findIter d line) 0 (findIter_in d line) (Nat.zero_le _)
  simpa [compressDelimiter] using this

/-- `replace_all` / bstr `replace`: what is not matched is copied once, every match costs one
    replacement -/
theorem replaceMatches_length_le (text r : Bytes) : ∀ (ms : List (Nat × Nat)) (prev : Nat),
    SortedMatches text.length prev ms → prev ≤ text.length →
    (replaceMatches text r prev ms).length ≤ (text.length - prev) + ms.length * r.length := by
  intro ms
  induction ms with
  | nil => intro prev _ _; simp [replaceMatches]
  | cons m t ih =>
    intro prev hm hp
    obtain ⟨s, e⟩ := m
    obtain ⟨h1, h2, h3, h4⟩ := hm
    have := ih e h4 h3
    simp only [replaceMatches, List.length_append, slice_length, List.length_cons, Nat.succ_mul]
    omega

theorem sortedMatches_of_matchesIn (dlen n : Nat) : ∀ (ms : List Nat) (lo : Nat), MatchesIn dlen n lo ms →
    SortedMatches n lo (ms.map fun i => (i, i + dlen)) := by
  intro ms
  induction ms with
  | nil => intro lo _; trivial
  | cons i t ih =>
    intro lo h
    obtain ⟨h1, h2, h3⟩ := h
    exact ⟨h1, by omega, h2, ih _ h3⟩

/-- the widened length: `len` bytes with a replacement of `r` bytes at each of the at most
    `len + 1` places a match can be reported at -/
def wide (r len : Nat) : Nat := len + (len + 1) * r

theorem le_wide (r len : Nat) : len ≤ wide r len := Nat.le_add_right _ _

theorem wide_mono (r : Nat) {a b : Nat} (h : a ≤ b) : wide r a ≤ wide r b := by
  unfold wide
  have := Nat.mul_le_mul_right r (Nat.add_le_add_right h 1)
  omega

theorem wide_zero (len : Nat) : wide 0 len = len := by simp [wide]

theorem replaceAll_length_le (text d r : Bytes) : (replaceAll text d r).length ≤ wide r.length text.length := by
  unfold replaceAll wide
  have h := replaceMatches_length_le text r _ 0
    (sortedMatches_of_matchesIn _ _ _ _ (findIter_in d text)) (Nat.zero_le _)
  have hl := findIter_length_le d text
  simp only [List.length_map, Nat.sub_zero] at h
  have := Nat.mul_le_mul_right r.length hl
  omega

theorem trimStartFuel_length_le (d : Bytes) : ∀ (f : Nat) (l : Bytes), (trimStartFuel d f l).length ≤ l.length := by
  intro f
  induction f with
  | zero => intro l; exact Nat.le_refl _
  | succ f ih =>
    intro l
    simp only [trimStartFuel]
    split
    · have := ih (l.drop d.length); simp only [List.length_drop] at this; omega
    · exact Nat.le_refl _

theorem trimStart_length_le (d l : Bytes) : (trimStart d l).length ≤ l.length :=
  trimStartFuel_length_le d _ l

theorem trimEnd_length_le (d l : Bytes) : (trimEnd d l).length ≤ l.length := by
  unfold trimEnd
  have := trimStart_length_le d.reverse l.reverse
  simpa using this

theorem trimLiteral_length_le (l : Bytes) (k : TrimKind) (d : Bytes) : (trimLiteral l k d).length ≤ l.length := by
  unfold trimLiteral
  split
  · exact Nat.le_refl _
  · cases k with
    | both => exact Nat.le_trans (trimEnd_length_le _ _) (trimStart_length_le _ _)
    | left => exact trimStart_length_le _ _
    | right => exact trimEnd_length_le _ _

theorem trimRegex_length_le (l : Bytes) (k : TrimKind) (ms : List (Nat × Nat)) :
    (trimRegex l k ms).length ≤ l.length := by
  unfold trimRegex
  simp only [slice_length]
  omega

/-- l.280-291: the trimmed line is a sub-slice of the record -/
theorem trimStage_length_le (line : Bytes) (opt : Opt) (l' : Bytes)
    (h : CutStrLit.trimStage line opt = .ok l') : l'.length ≤ line.length := by
  unfold CutStrLit.trimStage at h
  split at h
  · split at h
    · cases hu : unwrap opt.regexBag with
      | fail => rw [hu] at h; cases h
      | panic => rw [hu] at h; cases h
      | ok bag =>
        rw [hu] at h
        simp only [Res.bind] at h
        injection h with h
        subst h
        exact trimRegex_length_le _ _ _
    · injection h with h
      subst h
      exact trimLiteral_length_le _ _ _
  · injection h with h
    subst h
    exact Nat.le_refl _

/-! ### the hypothesis on the regex engine -/

/-- what the space bounds need of `Regex::find_iter`: the matches are reported in order, do not
    overlap, lie within the haystack (`RegexBag.OK`, the hypothesis of the safety theorems), and
    there is at most one match per position, the end of the haystack included -/
def BagOK (bag : RegexBag) : Prop :=
  bag.OK ∧ ∀ line : Bytes, (bag.normal line).length ≤ line.length + 1 ∧ (bag.greedy line).length ≤ line.length + 1

/-- every regex bag of the option record (there is at most one) is `BagOK`; no condition when
    there is none (no `-e`) -/
def OptBagOK (opt : Opt) : Prop := ∀ bag, opt.regexBag = some bag → BagOK bag

theorem optBagOK_of_none (opt : Opt) (h : opt.regexBag = none) : OptBagOK opt := by
  intro bag hb; rw [h] at hb; cases hb

theorem strictMatches_length_le (n : Nat) : ∀ (ms : List (Nat × Nat)) (lo : Nat), StrictMatches n lo ms →
    ms.length ≤ n - lo := by
  intro ms
  induction ms with
  | nil => intro lo _; exact Nat.zero_le _
  | cons m t ih =>
    intro lo h
    obtain ⟨s, e⟩ := m
    obtain ⟨h1, h2, h3, h4⟩ := h
    have := ih e h4
    simp only [List.length_cons]
    omega

/-- the executable matcher of `Tuc.Model.Regex` (the bag `parse_args` builds for the expressions
    C16 names) meets the hypothesis -/
theorem bagOK_of_re (r : Re) : BagOK (Re.bag r) := by
  refine ⟨Re.bag_ok r, fun line => ?_⟩
  obtain ⟨h1, h2⟩ := Re.bag_strict r line
  have := strictMatches_length_le _ _ _ h1
  have := strictMatches_length_le _ _ _ h2
  omega

/-- the length of the replacement (`-r`), 0 when there is none -/
def replLen (opt : Opt) : Nat := (opt.replaceDelimiter.getD []).length

theorem replaceMatches_bag_le (text r : Bytes) (ms : List (Nat × Nat))
    (h1 : SortedMatches text.length 0 ms) (h2 : ms.length ≤ text.length + 1) :
    (replaceMatches text r 0 ms).length ≤ wide r.length text.length := by
  have h := replaceMatches_length_le text r ms 0 h1 (Nat.zero_le _)
  have := Nat.mul_le_mul_right r.length h2
  unfold wide
  omega

/-! ### the stages -/

theorem maybeReplaceDelimiterLitI_le (text : Bytes) (opt : Opt) (hb : OptBagOK opt) :
    (maybeReplaceDelimiterLitI text opt).2 ≤ wide (replLen opt) text.length := by
  unfold maybeReplaceDelimiterLitI replLen
  split
  · exact Nat.zero_le _
  · cases hr : opt.replaceDelimiter with
    | none => exact Nat.zero_le _
    | some nd =>
      cases hg : opt.regexBag with
      | none => exact replaceAll_length_le _ _ _
      | some bag =>
        obtain ⟨h1, h2⟩ := hb bag hg
        exact replaceMatches_bag_le _ _ _ (h1 text).1 (h2 text).1

theorem sliceBytes_length_le (l : Bytes) (a b : Nat) (s : Bytes) (h : sliceBytes l a b = .ok s) :
    s.length ≤ l.length := by
  unfold sliceBytes at h
  split at h
  · injection h with h; subst h; simp only [slice_length]; omega
  · cases h

theorem fieldToPrintI_le (line : Bytes) (fields : List Range) (n : Nat) (opt : Opt) (dar : Bool)
    (b : UserBounds) (hb : OptBagOK opt) :
    (fieldToPrintI line fields n opt dar b).2 ≤ if dar then 0 else wide (replLen opt) line.length := by
  unfold fieldToPrintI
  generalize resolve b n = r
  cases r with
  | panic => exact Nat.zero_le _
  | fail =>
    simp only []
    split
    · exact Nat.zero_le _
    · cases opt.fallbackOob <;> exact Nat.zero_le _
  | ok r =>
    simp only []
    cases indexRange fields r.1 with
    | fail => exact Nat.zero_le _
    | panic => exact Nat.zero_le _
    | ok fStart =>
      simp only []
      cases usizeSub r.2 1 with
      | fail => exact Nat.zero_le _
      | panic => exact Nat.zero_le _
      | ok m =>
        simp only []
        cases indexRange fields m with
        | fail => exact Nat.zero_le _
        | panic => exact Nat.zero_le _
        | ok fEnd =>
          simp only []
          cases hs : sliceBytes line fStart.start fEnd.stop with
          | fail => exact Nat.zero_le _
          | panic => exact Nat.zero_le _
          | ok s =>
            simp only []
            cases dar with
            | true => exact Nat.le_refl _
            | false =>
              simp only [Bool.false_eq_true, if_false]
              exact Nat.le_trans (maybeReplaceDelimiterLitI_le s opt hb)
                (wide_mono _ (sliceBytes_length_le _ _ _ _ hs))

theorem tryForEachI_le (line : Bytes) (fields : List Range) (n : Nat) (opt : Opt) (dar : Bool)
    (hb : OptBagOK opt) : ∀ l : List BoF,
    (tryForEachI line fields n opt dar l).2 ≤ if dar then 0 else wide (replLen opt) line.length := by
  intro l
  induction l with
  | nil => exact Nat.zero_le _
  | cons bof rest ih =>
    simp only [tryForEachI]
    have hc : (outputClosureI line fields n opt dar bof).2 ≤
        if dar then 0 else wide (replLen opt) line.length := by
      cases bof with
      | filler f => exact Nat.zero_le _
      | bound b => exact fieldToPrintI_le line fields n opt dar b hb
    split <;> omega

/-- componentwise `≤` -/
def RecPeak.le (a b : RecPeak) : Prop :=
  a.fields ≤ b.fields ∧ a.compressedLineBuf ≤ b.compressedLineBuf ∧ a.lineHolder ≤ b.lineHolder ∧
    a.complemented ≤ b.complemented ∧ a.unpacked ≤ b.unpacked ∧ a.fieldToPrint ≤ b.fieldToPrint

instance : LE RecPeak := ⟨RecPeak.le⟩

instance (a b : RecPeak) : Decidable (a ≤ b) := by
  show Decidable (RecPeak.le a b); unfold RecPeak.le; exact inferInstance

theorem RecPeak.le_def (a b : RecPeak) : a ≤ b ↔
    a.fields ≤ b.fields ∧ a.compressedLineBuf ≤ b.compressedLineBuf ∧ a.lineHolder ≤ b.lineHolder ∧
      a.complemented ≤ b.complemented ∧ a.unpacked ≤ b.unpacked ∧ a.fieldToPrint ≤ b.fieldToPrint := Iff.rfl

theorem RecPeak.ext' {a b : RecPeak} (h1 : a.fields = b.fields) (h2 : a.compressedLineBuf = b.compressedLineBuf)
    (h3 : a.lineHolder = b.lineHolder) (h4 : a.complemented = b.complemented) (h5 : a.unpacked = b.unpacked)
    (h6 : a.fieldToPrint = b.fieldToPrint) : a = b := by
  cases a; cases b; simp only at h1 h2 h3 h4 h5 h6; subst h1 h2 h3 h4 h5 h6; rfl

@[simp] theorem RecPeak.sup_fields (a b : RecPeak) : (a.sup b).fields = max a.fields b.fields := rfl
@[simp] theorem RecPeak.sup_compressedLineBuf (a b : RecPeak) :
    (a.sup b).compressedLineBuf = max a.compressedLineBuf b.compressedLineBuf := rfl
@[simp] theorem RecPeak.sup_lineHolder (a b : RecPeak) : (a.sup b).lineHolder = max a.lineHolder b.lineHolder := rfl
@[simp] theorem RecPeak.sup_complemented (a b : RecPeak) :
    (a.sup b).complemented = max a.complemented b.complemented := rfl
@[simp] theorem RecPeak.sup_unpacked (a b : RecPeak) : (a.sup b).unpacked = max a.unpacked b.unpacked := rfl
@[simp] theorem RecPeak.sup_fieldToPrint (a b : RecPeak) :
    (a.sup b).fieldToPrint = max a.fieldToPrint b.fieldToPrint := rfl

theorem RecPeak.zero_sup (a : RecPeak) : ({} : RecPeak).sup a = a := by
  apply RecPeak.ext' <;> simp
theorem RecPeak.sup_zero (a : RecPeak) : a.sup {} = a := by
  apply RecPeak.ext' <;> simp
theorem RecPeak.sup_assoc (a b c : RecPeak) : (a.sup b).sup c = a.sup (b.sup c) := by
  apply RecPeak.ext' <;> simp [Nat.max_assoc]
theorem RecPeak.sup_comm (a b : RecPeak) : a.sup b = b.sup a := by
  apply RecPeak.ext' <;> simp [Nat.max_comm]
theorem RecPeak.sup_le {a b c : RecPeak} (h1 : a ≤ c) (h2 : b ≤ c) : a.sup b ≤ c := by
  rw [RecPeak.le_def] at *
  simp only [RecPeak.sup_fields, RecPeak.sup_compressedLineBuf, RecPeak.sup_lineHolder, RecPeak.sup_complemented,
    RecPeak.sup_unpacked, RecPeak.sup_fieldToPrint]
  omega
theorem RecPeak.le_sup_left (a b : RecPeak) : a ≤ a.sup b := by
  rw [RecPeak.le_def]; simp only [RecPeak.sup_fields, RecPeak.sup_compressedLineBuf, RecPeak.sup_lineHolder,
    RecPeak.sup_complemented, RecPeak.sup_unpacked, RecPeak.sup_fieldToPrint]; omega
theorem RecPeak.le_sup_right (a b : RecPeak) : b ≤ a.sup b := by
  rw [RecPeak.le_def]; simp only [RecPeak.sup_fields, RecPeak.sup_compressedLineBuf, RecPeak.sup_lineHolder,
    RecPeak.sup_complemented, RecPeak.sup_unpacked, RecPeak.sup_fieldToPrint]; omega
theorem RecPeak.le_refl (a : RecPeak) : a ≤ a := by rw [RecPeak.le_def]; omega
theorem RecPeak.le_trans {a b c : RecPeak} (h1 : a ≤ b) (h2 : b ≤ c) : a ≤ c := by
  rw [RecPeak.le_def] at *; omega
theorem RecPeak.zero_le (a : RecPeak) : ({} : RecPeak) ≤ a := by
  rw [RecPeak.le_def]; simp
theorem RecPeak.sup_eq_left {a b : RecPeak} (h : b ≤ a) : a.sup b = a := by
  rw [RecPeak.le_def] at h
  apply RecPeak.ext' <;> simp <;> omega

/-- **the bound for one record of `len` bytes**: `w = len + (len + 1) · |replacement|` is the length
    the line can have after `compress_delimiter_with_regex` / a field after `maybe_replace_delimiter`
    (`w = len` without `-r`); the rest counts entries: one range per field, at most two complemented
    bounds per bound of the option record, at most one unpacked bound per field and per (complemented)
    bound.  Only `len` comes from the input. -/
def recBound (opt : Opt) (len : Nat) : RecPeak :=
  { fields := wide (replLen opt) len + 2,
    compressedLineBuf := len,
    lineHolder := wide (replLen opt) len,
    complemented := 2 * opt.bounds.list.length,
    unpacked := 2 * opt.bounds.list.length * (wide (replLen opt) len + 2),
    fieldToPrint := wide (replLen opt) len }

theorem recBound_mono (opt : Opt) {a b : Nat} (h : a ≤ b) : recBound opt a ≤ recBound opt b := by
  have hw := wide_mono (replLen opt) h
  have hm := Nat.mul_le_mul_left (2 * opt.bounds.list.length) (Nat.add_le_add_right hw 2)
  rw [RecPeak.le_def]
  simp only [recBound]
  omega

/-- l.300-330: what the stage holds and how long the line it hands on is -/
theorem compressStageI_le (line : Bytes) (opt : Opt) (buf : Bytes) (hb : OptBagOK opt) :
    (compressStageI line opt buf).2 ≤
        { compressedLineBuf := line.length, lineHolder := wide (replLen opt) line.length } ∧
    ∀ loc, (compressStageI line opt buf).1 = .ok loc →
      loc.line.length ≤ wide (replLen opt) line.length ∧
      (loc.delimiterAlreadyReplaced = false → loc.line.length ≤ line.length) := by
  simp only [compressStageI]
  by_cases h1 : (opt.compressDelimiter &&
      (decide (opt.boundsType = BoundsType.fields) || decide (opt.boundsType = BoundsType.lines))) = true
  · simp only [h1, if_true]
    by_cases h2 : (opt.regexBag.isSome && true) = true
    · simp only [h2, if_true]
      cases hr : opt.replaceDelimiter with
      | none => exact ⟨RecPeak.zero_le _, fun loc h => by cases h⟩
      | some d =>
        simp only [unwrap]
        cases hg : opt.regexBag with
        | none => exact ⟨RecPeak.zero_le _, fun loc h => by cases h⟩
        | some bag =>
          simp only []
          obtain ⟨b1, b2⟩ := hb bag hg
          have hl := replaceMatches_bag_le line d (bag.greedy line) (b1 line).2 (b2 line).2
          have hrl : replLen opt = d.length := by simp [replLen, hr]
          rw [hrl]
          refine ⟨?_, fun loc h => ?_⟩
          · rw [RecPeak.le_def]; simp; exact hl
          · injection h with h; subst h
            exact ⟨hl, fun h => by cases h⟩
    · simp only [h2, Bool.false_eq_true, if_false]
      have hl := compressDelimiter_length_le line opt.delimiter buf
      refine ⟨?_, fun loc h => ?_⟩
      · rw [RecPeak.le_def]; simp; exact hl
      · injection h with h; subst h
        exact ⟨Nat.le_trans hl (le_wide _ _), fun _ => hl⟩
  · simp only [h1, Bool.false_eq_true, if_false]
    refine ⟨RecPeak.zero_le _, fun loc h => ?_⟩
    injection h with h; subst h
    exact ⟨le_wide _ _, fun _ => Nat.le_refl _⟩

theorem drainTo_length_le (v : List Range) (k : Nat) (v' : List Range) (h : drainTo v k = .ok v') :
    v'.length ≤ v.length := by
  unfold drainTo at h
  split at h
  · injection h with h; subst h; simp
  · cases h

/-- l.332-355: at most `len + 2` ranges, and what is left after the pop / drain is not more -/
theorem fieldsStageI_le (loc : Locals) (opt : Opt) (fields : List Range) (hb : OptBagOK opt) :
    (fieldsStageI loc opt fields).2 ≤ { fields := loc.line.length + 2 } ∧
    ∀ fields', (fieldsStageI loc opt fields).1 = .ok fields' →
      fields'.length ≤ (fieldsStageI loc opt fields).2.fields := by
  have key : ∀ filled : Res (List Range),
      (∀ f, filled = .ok f → f.length ≤ loc.line.length + 2) →
      ((match filled with
        | .fail => (.fail, {}) | .panic => (.panic, {})
        | .ok fields =>
          if opt.boundsType = .characters && decide (fields.length > 2) then
            (drainTo fields.dropLast 1, ({ fields := fields.length } : RecPeak))
          else (.ok fields, { fields := fields.length }) : Res (List Range) × RecPeak).2 ≤
          { fields := loc.line.length + 2 }) ∧
      ∀ fields', (match filled with
        | .fail => (.fail, {}) | .panic => (.panic, {})
        | .ok fields =>
          if opt.boundsType = .characters && decide (fields.length > 2) then
            (drainTo fields.dropLast 1, ({ fields := fields.length } : RecPeak))
          else (.ok fields, { fields := fields.length }) : Res (List Range) × RecPeak).1 = .ok fields' →
        fields'.length ≤ (match filled with
        | .fail => (.fail, {}) | .panic => (.panic, {})
        | .ok fields =>
          if opt.boundsType = .characters && decide (fields.length > 2) then
            (drainTo fields.dropLast 1, ({ fields := fields.length } : RecPeak))
          else (.ok fields, { fields := fields.length }) : Res (List Range) × RecPeak).2.fields := by
    intro filled hf
    cases filled with
    | fail => exact ⟨RecPeak.zero_le _, fun f h => by cases h⟩
    | panic => exact ⟨RecPeak.zero_le _, fun f h => by cases h⟩
    | ok f =>
      have := hf f rfl
      simp only []
      split
      · refine ⟨?_, fun f' h => ?_⟩
        · rw [RecPeak.le_def]; simp; exact this
        · have := drainTo_length_le _ _ _ h
          simp only [List.length_dropLast] at this
          show f'.length ≤ f.length
          omega
      · refine ⟨?_, fun f' h => ?_⟩
        · rw [RecPeak.le_def]; simp; exact this
        · injection h with h; subst h; exact Nat.le_refl _
  unfold fieldsStageI
  apply key
  intro f hf
  split at hf
  · cases hg : opt.regexBag with
    | none => simp [unwrap, hg, Res.bind] at hf
    | some bag =>
      simp only [unwrap, hg, Res.bind] at hf
      injection hf with hf
      subst hf
      obtain ⟨_, b2⟩ := hb bag hg
      have h3 := b2 loc.line
      by_cases hgd : opt.greedyDelimiter = true
      · simp only [hgd, if_true]
        have := fillWithFieldsLocationsUsingRegex_length_le fields loc.line (bag.greedy loc.line)
        omega
      · simp only [hgd, Bool.false_eq_true, if_false]
        have := fillWithFieldsLocationsUsingRegex_length_le fields loc.line (bag.normal loc.line)
        omega
  · split at hf
    · injection hf with hf; subst hf; exact fillWithFieldsLocationsGreedy_length_le _ _ _
    · injection hf with hf; subst hf; exact fillWithFieldsLocations_length_le _ _ _

theorem markLast_length : ∀ (l l' : List BoF), markLast l = some l' → l'.length = l.length := by
  intro l
  induction l with
  | nil => intro l' h; cases h
  | cons x t ih =>
    intro l' h
    cases x with
    | filler f =>
      simp only [markLast, Option.map_eq_some_iff] at h
      obtain ⟨t', ht, rfl⟩ := h
      simp [ih t' ht]
    | bound b =>
      simp only [markLast] at h
      cases hm : markLast t with
      | none => rw [hm] at h; injection h with h; subst h; rfl
      | some t' => rw [hm] at h; injection h with h; subst h; simp [ih t' hm]

theorem fromVec_length (l : List BoF) (u : UserBoundsList) (h : fromVec l = .ok u) : u.list.length = l.length := by
  unfold fromVec at h
  cases hm : markLast l with
  | none => rw [hm] at h; cases h
  | some l' =>
    rw [hm] at h
    injection h with h
    subst h
    exact markLast_length l l' hm

theorem complementFlat_length_le (n : Nat) (l : List BoF) :
    (l.flatMap (complementBof n)).length ≤ 2 * l.length := by
  induction l with
  | nil => simp
  | cons x t ih =>
    simp only [List.flatMap_cons, List.length_append, List.length_cons]
    have := complementBof_length_le n x
    omega

/-- the bound of `emitStageI` -/
def emitBound (opt : Opt) (numFields : Nat) (dar : Bool) (len : Nat) : RecPeak :=
  { complemented := 2 * opt.bounds.list.length,
    unpacked := 2 * opt.bounds.list.length * max 1 numFields,
    fieldToPrint := if dar then 0 else wide (replLen opt) len }

/-- l.357-455: the lists `complement` / `unpack` build and the owned `field_to_print`s -/
theorem emitStageI_le (line : Bytes) (fields : List Range) (opt : Opt) (dar : Bool) (eol : Bytes)
    (hb : OptBagOK opt) :
    (emitStageI line fields opt dar eol).2 ≤ emitBound opt fields.length dar line.length := by
  simp only [emitStageI]
  by_cases h1 : (opt.onlyDelimited && fields.length == 1) = true
  · simp only [h1, if_true]; exact RecPeak.zero_le _
  · simp only [h1, Bool.false_eq_true, if_false]
    have hg1 : (if opt.complement = true then
          ({ complemented := (opt.bounds.list.flatMap (complementBof fields.length)).length } : RecPeak)
        else {}) ≤ emitBound opt fields.length dar line.length := by
      split
      · have := complementFlat_length_le fields.length opt.bounds.list
        rw [RecPeak.le_def]; simp only [emitBound]; omega
      · exact RecPeak.zero_le _
    generalize (if opt.complement = true then
          ({ complemented := (opt.bounds.list.flatMap (complementBof fields.length)).length } : RecPeak)
        else {}) = g1 at hg1
    have hc : ∀ u, (if opt.complement = true then complementList opt.bounds.list fields.length
        else Res.ok opt.bounds) = .ok u → u.list.length ≤ 2 * opt.bounds.list.length := by
      intro u hu
      split at hu
      · unfold complementList at hu
        simp only [] at hu
        split at hu
        · cases hu
        · rw [fromVec_length _ _ hu]; exact complementFlat_length_le _ _
      · injection hu with hu; subst hu; omega
    generalize (if opt.complement = true then complementList opt.bounds.list fields.length
        else Res.ok opt.bounds) = c at hc
    cases c with
    | fail => exact hg1
    | panic => exact hg1
    | ok bounds =>
      simp only []
      have hbl := hc bounds rfl
      by_cases h2 : (opt.complement && bounds.list.isEmpty) = true
      · simp only [h2, if_true]; exact hg1
      · simp only [h2, Bool.false_eq_true, if_false]
        have hg2 : (if ((opt.json || decide (opt.boundsType = BoundsType.characters) && opt.replaceDelimiter.isSome) &&
              bounds.list.any needsUnpack) = true then
            ({ unpacked := (bounds.list.flatMap (unpackBof fields.length)).length } : RecPeak)
          else {}) ≤ emitBound opt fields.length dar line.length := by
          split
          · have := unpackList_length_le fields.length bounds.list
            have := Nat.mul_le_mul_right (max 1 fields.length) hbl
            rw [RecPeak.le_def]; simp only [emitBound]
            omega
          · exact RecPeak.zero_le _
        generalize (if ((opt.json || decide (opt.boundsType = BoundsType.characters) && opt.replaceDelimiter.isSome) &&
              bounds.list.any needsUnpack) = true then
            ({ unpacked := (bounds.list.flatMap (unpackBof fields.length)).length } : RecPeak)
          else {}) = g2 at hg2
        have w2 := RecPeak.sup_le hg1 hg2
        generalize (if ((opt.json || decide (opt.boundsType = BoundsType.characters) && opt.replaceDelimiter.isSome) &&
              bounds.list.any needsUnpack) = true then unpackList bounds.list fields.length
            else Res.ok bounds) = u
        cases u with
        | fail => exact w2
        | panic => exact w2
        | ok bounds' =>
          simp only []
          apply RecPeak.sup_le w2
          have := tryForEachI_le line fields fields.length opt dar hb bounds'.list
          rw [RecPeak.le_def]; simp only [emitBound]
          omega

/-! ### `cut_str` does not read what its two vectors held -/

/-- the two vectors as they arrive -/
def incoming (fields : List Range) (buf : Bytes) : RecPeak :=
  { fields := fields.length, compressedLineBuf := buf.length }

theorem incoming_nil : incoming [] [] = {} := rfl

/-- the part of `Locals` that the later stages read -/
def locCore (loc : Locals) : Bytes × Bytes × Bool × Bool :=
  (loc.line, loc.delimiter, loc.shouldBuildRangesUsingRegex, loc.delimiterAlreadyReplaced)

/-- `should_compress_delimiter` (l.306-307) -/
def shouldCompress (opt : Opt) : Bool :=
  opt.compressDelimiter && (decide (opt.boundsType = BoundsType.fields) || decide (opt.boundsType = BoundsType.lines))

theorem compressStageI_none (line : Bytes) (opt : Opt) (buf : Bytes) (h1 : shouldCompress opt = false) :
    compressStageI line opt buf =
      (.ok { line := line, delimiter := opt.delimiter,
             shouldBuildRangesUsingRegex := opt.regexBag.isSome && true,
             delimiterAlreadyReplaced := false, compressedLineBuf := buf }, {}) := by
  unfold shouldCompress at h1
  simp only [compressStageI, h1, Bool.false_eq_true, if_false]

theorem compressStageI_literal (line : Bytes) (opt : Opt) (buf : Bytes) (h1 : shouldCompress opt = true)
    (h2 : (opt.regexBag.isSome && true) = false) :
    compressStageI line opt buf =
      (.ok { line := compressDelimiter line opt.delimiter buf, delimiter := opt.delimiter,
             shouldBuildRangesUsingRegex := opt.regexBag.isSome && true,
             delimiterAlreadyReplaced := false,
             compressedLineBuf := compressDelimiter line opt.delimiter buf },
       { compressedLineBuf := (compressDelimiter line opt.delimiter buf).length }) := by
  unfold shouldCompress at h1
  simp only [compressStageI, h1, h2, if_true, Bool.false_eq_true, if_false]

theorem compressStageI_regex (line : Bytes) (opt : Opt) (buf : Bytes) (h1 : shouldCompress opt = true)
    (h2 : (opt.regexBag.isSome && true) = true) :
    compressStageI line opt buf =
      match unwrap opt.replaceDelimiter with
      | .fail => (.fail, {}) | .panic => (.panic, {})
      | .ok delimiter =>
      match unwrap opt.regexBag with
      | .fail => (.fail, {}) | .panic => (.panic, {})
      | .ok bag =>
      (.ok { line := replaceMatches line delimiter 0 (bag.greedy line), delimiter := delimiter,
             shouldBuildRangesUsingRegex := false, delimiterAlreadyReplaced := true,
             compressedLineBuf := buf },
       { lineHolder := (replaceMatches line delimiter 0 (bag.greedy line)).length }) := by
  unfold shouldCompress at h1
  simp only [compressStageI, h1, h2, if_true]
  cases unwrap opt.replaceDelimiter with
  | fail => rfl
  | panic => rfl
  | ok d => simp only []; cases unwrap opt.regexBag <;> rfl

/-- l.300-330 with some content in `compressed_line_buf`: same ghost, same `Locals` up to the
    buffer, which is either untouched or rebuilt from scratch (and then has the length the ghost saw) -/
theorem compressStageI_scratch (line : Bytes) (opt : Opt) (buf : Bytes) :
    (compressStageI line opt buf).2 = (compressStageI line opt []).2 ∧
    ((compressStageI line opt buf).1 = .fail ∧ (compressStageI line opt []).1 = .fail ∨
     (compressStageI line opt buf).1 = .panic ∧ (compressStageI line opt []).1 = .panic ∨
     ∃ loc loc0, (compressStageI line opt buf).1 = .ok loc ∧ (compressStageI line opt []).1 = .ok loc0 ∧
       locCore loc = locCore loc0 ∧
       (loc.compressedLineBuf = buf ∧ loc0.compressedLineBuf = [] ∨
        loc.compressedLineBuf = loc0.compressedLineBuf ∧
          loc.compressedLineBuf.length = (compressStageI line opt []).2.compressedLineBuf)) := by
  cases h1 : shouldCompress opt with
  | false =>
    rw [compressStageI_none _ _ _ h1, compressStageI_none _ _ _ h1]
    exact ⟨rfl, Or.inr (Or.inr ⟨_, _, rfl, rfl, rfl, Or.inl ⟨rfl, rfl⟩⟩)⟩
  | true =>
    cases h2 : (opt.regexBag.isSome && true) with
    | false =>
      rw [compressStageI_literal _ _ _ h1 h2, compressStageI_literal _ _ _ h1 h2]
      exact ⟨rfl, Or.inr (Or.inr ⟨_, _, rfl, rfl, rfl, Or.inr ⟨rfl, rfl⟩⟩)⟩
    | true =>
      rw [compressStageI_regex _ _ _ h1 h2, compressStageI_regex _ _ _ h1 h2]
      cases unwrap opt.replaceDelimiter with
      | fail => exact ⟨rfl, Or.inl ⟨rfl, rfl⟩⟩
      | panic => exact ⟨rfl, Or.inr (Or.inl ⟨rfl, rfl⟩)⟩
      | ok d =>
        cases unwrap opt.regexBag with
        | fail => exact ⟨rfl, Or.inl ⟨rfl, rfl⟩⟩
        | panic => exact ⟨rfl, Or.inr (Or.inl ⟨rfl, rfl⟩)⟩
        | ok bag => exact ⟨rfl, Or.inr (Or.inr ⟨_, _, rfl, rfl, rfl, Or.inl ⟨rfl, rfl⟩⟩)⟩

/-- l.332-355 read `line`, `delimiter`, `should_build_ranges_using_regex` — not the content of
    `fields` (cleared first) -/
theorem fieldsStageI_scratch (loc loc0 : Locals) (opt : Opt) (fields : List Range) (h : locCore loc = locCore loc0) :
    fieldsStageI loc opt fields = fieldsStageI loc0 opt [] := by
  simp only [locCore, Prod.mk.injEq] at h
  obtain ⟨h1, h2, h3, _⟩ := h
  simp only [fieldsStageI, h1, h2, h3, fillWithFieldsLocationsUsingRegex, fillWithFieldsLocationsGreedy,
    fillWithFieldsLocations]

/-- what is left in `fields` after l.332-355 is not more than the ghost saw -/
theorem fieldsStageI_out_le (loc : Locals) (opt : Opt) (fields : List Range) :
    ∀ fields', (fieldsStageI loc opt fields).1 = .ok fields' →
      fields'.length ≤ (fieldsStageI loc opt fields).2.fields := by
  unfold fieldsStageI
  simp only []
  generalize (if loc.shouldBuildRangesUsingRegex = true then
      (unwrap opt.regexBag).bind fun bag =>
        Res.ok (fillWithFieldsLocationsUsingRegex fields loc.line
          ((if opt.greedyDelimiter = true then bag.greedy else bag.normal) loc.line))
    else if opt.greedyDelimiter = true then Res.ok (fillWithFieldsLocationsGreedy fields loc.line loc.delimiter)
    else Res.ok (fillWithFieldsLocations fields loc.line loc.delimiter)) = filled
  cases filled with
  | fail => intro f h; cases h
  | panic => intro f h; cases h
  | ok f =>
    simp only []
    split
    · intro f' h
      have := drainTo_length_le _ _ _ h
      simp only [List.length_dropLast] at this
      show f'.length ≤ f.length
      omega
    · intro f' h
      injection h with h; subst h; exact Nat.le_refl _

/-- l.268-297: either `cut_str` returns before it touches anything (`inl`: the run it returns) or it
    goes on with the trimmed, non-empty line (`inr`) -/
def early (line : Bytes) (opt : Opt) (eol : Bytes) : Run ⊕ Bytes :=
  if opt.regexBag.isSome && (opt.compressDelimiter && opt.replaceDelimiter.isNone) then .inl Run.fail
  else if opt.regexBag.isSome && (opt.join && opt.replaceDelimiter.isNone) then .inl Run.fail
  else
    match CutStrLit.trimStage line opt with
    | .fail => .inl Run.fail
    | .panic => .inl Run.panic
    | .ok line =>
      if line.isEmpty then .inl ((if !opt.onlyDelimited then Run.ok eol else Run.empty).seq Run.empty)
      else .inr line

/-- l.300-455 -/
def coreI (line : Bytes) (opt : Opt) (fields : List Range) (buf eol : Bytes) :
    Run × List Range × Bytes × RecPeak :=
  match compressStageI line opt buf with
  | (.fail, g1) => (Run.fail, fields, buf, (incoming fields buf).sup g1)
  | (.panic, g1) => (Run.panic, fields, buf, (incoming fields buf).sup g1)
  | (.ok loc, g1) =>
    match fieldsStageI loc opt fields with
    | (.fail, g2) => (Run.fail, fields, buf, ((incoming fields buf).sup g1).sup g2)
    | (.panic, g2) => (Run.panic, fields, buf, ((incoming fields buf).sup g1).sup g2)
    | (.ok fields', g2) =>
      ((emitStageI loc.line fields' opt loc.delimiterAlreadyReplaced eol).1, fields', loc.compressedLineBuf,
        (((incoming fields buf).sup g1).sup g2).sup
          (emitStageI loc.line fields' opt loc.delimiterAlreadyReplaced eol).2)

theorem cutStrLitI_eq (line : Bytes) (opt : Opt) (fields : List Range) (buf eol : Bytes) :
    cutStrLitI line opt fields buf eol =
      match early line opt eol with
      | .inl r => (r, fields, buf, incoming fields buf)
      | .inr line' => coreI line' opt fields buf eol := by
  simp only [cutStrLitI, early, coreI, incoming]
  by_cases h1 : (opt.regexBag.isSome && (opt.compressDelimiter && opt.replaceDelimiter.isNone)) = true
  · simp only [h1, if_true]
  · simp only [h1, Bool.false_eq_true, if_false]
    by_cases h2 : (opt.regexBag.isSome && (opt.join && opt.replaceDelimiter.isNone)) = true
    · simp only [h2, if_true]
    · simp only [h2, Bool.false_eq_true, if_false]
      cases CutStrLit.trimStage line opt with
      | fail => rfl
      | panic => rfl
      | ok line' =>
        simp only []
        by_cases h3 : line'.isEmpty = true
        · simp only [h3, if_true]
        · simp only [h3, Bool.false_eq_true, if_false]
          generalize compressStageI line' opt buf = x
          obtain ⟨c, g1⟩ := x
          cases c with
          | fail => rfl
          | panic => rfl
          | ok loc =>
            simp only []
            generalize fieldsStageI loc opt fields = y
            obtain ⟨f, g2⟩ := y
            cases f <;> rfl

theorem coreI_scratch (line : Bytes) (opt : Opt) (fields : List Range) (buf eol : Bytes) :
    (coreI line opt fields buf eol).1 = (coreI line opt [] [] eol).1 ∧
    (coreI line opt fields buf eol).2.2.2 = (incoming fields buf).sup (coreI line opt [] [] eol).2.2.2 ∧
    ((coreI line opt fields buf eol).2.1 = fields ∨
      (coreI line opt fields buf eol).2.1.length ≤ (coreI line opt [] [] eol).2.2.2.fields) ∧
    ((coreI line opt fields buf eol).2.2.1 = buf ∨
      (coreI line opt fields buf eol).2.2.1.length ≤ (coreI line opt [] [] eol).2.2.2.compressedLineBuf) := by
  obtain ⟨hg, hc⟩ := compressStageI_scratch line opt buf
  unfold coreI
  generalize compressStageI line opt buf = x at hg hc
  generalize compressStageI line opt [] = x0 at hg hc
  obtain ⟨c, g1⟩ := x
  obtain ⟨c0, g10⟩ := x0
  simp only at hg hc
  subst hg
  rcases hc with ⟨rfl, rfl⟩ | ⟨rfl, rfl⟩ | ⟨loc, loc0, rfl, rfl, hcore, hbuf⟩
  · exact ⟨rfl, by simp only [incoming_nil, RecPeak.zero_sup], Or.inl rfl, Or.inl rfl⟩
  · exact ⟨rfl, by simp only [incoming_nil, RecPeak.zero_sup], Or.inl rfl, Or.inl rfl⟩
  · simp only []
    rw [fieldsStageI_scratch loc loc0 opt fields hcore]
    have hout := fieldsStageI_out_le loc0 opt []
    generalize fieldsStageI loc0 opt [] = y at hout
    obtain ⟨f, g2⟩ := y
    cases f with
    | fail => exact ⟨rfl, by simp only [incoming_nil, RecPeak.zero_sup, RecPeak.sup_assoc], Or.inl rfl, Or.inl rfl⟩
    | panic => exact ⟨rfl, by simp only [incoming_nil, RecPeak.zero_sup, RecPeak.sup_assoc], Or.inl rfl, Or.inl rfl⟩
    | ok fields' =>
      have hout' := hout fields' rfl
      simp only [locCore, Prod.mk.injEq] at hcore
      obtain ⟨e1, _, _, e4⟩ := hcore
      rw [e1, e4]
      refine ⟨rfl, by simp only [incoming_nil, RecPeak.zero_sup, RecPeak.sup_assoc], Or.inr ?_, ?_⟩
      · simp only [RecPeak.sup_fields] at hout' ⊢
        omega
      · rcases hbuf with ⟨hb1, _⟩ | ⟨hb1, hb2⟩
        · exact Or.inl hb1
        · right
          simp only [RecPeak.sup_compressedLineBuf]
          have hb2' : loc.compressedLineBuf.length = g1.compressedLineBuf := hb2
          omega

/-- **`cut_str` does not read what its two vectors held**: with any content in `fields` and
    `compressed_line_buf` the run is the same, the ghost is the same plus the lengths on arrival,
    and each vector is afterwards either UNTOUCHED or holds what this record alone put there (not
    more than the ghost of the call from empty vectors saw) -/
theorem cutStrLitI_scratch (line : Bytes) (opt : Opt) (fields : List Range) (buf eol : Bytes) :
    (cutStrLitI line opt fields buf eol).1 = (cutStrLitI line opt [] [] eol).1 ∧
    (cutStrLitI line opt fields buf eol).2.2.2 =
      (incoming fields buf).sup (cutStrLitI line opt [] [] eol).2.2.2 ∧
    ((cutStrLitI line opt fields buf eol).2.1 = fields ∨
      (cutStrLitI line opt fields buf eol).2.1.length ≤ (cutStrLitI line opt [] [] eol).2.2.2.fields) ∧
    ((cutStrLitI line opt fields buf eol).2.2.1 = buf ∨
      (cutStrLitI line opt fields buf eol).2.2.1.length ≤
        (cutStrLitI line opt [] [] eol).2.2.2.compressedLineBuf) := by
  rw [cutStrLitI_eq, cutStrLitI_eq line opt [] []]
  cases early line opt eol with
  | inl r => exact ⟨rfl, by simp only [incoming_nil, RecPeak.sup_zero], Or.inl rfl, Or.inl rfl⟩
  | inr line' => exact coreI_scratch line' opt fields buf eol

/-! ### the bound for one record -/

theorem emitBound_le (opt : Opt) (n : Nat) (dar : Bool) (len len' : Nat)
    (hn : n ≤ len' + 2) (h1 : len' ≤ wide (replLen opt) len) (h2 : dar = false → len' ≤ len) :
    emitBound opt n dar len' ≤ recBound opt len := by
  have hm := Nat.mul_le_mul_left (2 * opt.bounds.list.length)
    (show max 1 n ≤ wide (replLen opt) len + 2 by omega)
  rw [RecPeak.le_def]
  simp only [emitBound, recBound]
  refine ⟨Nat.zero_le _, Nat.zero_le _, Nat.zero_le _, Nat.le_refl _, hm, ?_⟩
  cases dar with
  | true => exact Nat.zero_le _
  | false => exact wide_mono _ (h2 rfl)

theorem coreI_le (line : Bytes) (opt : Opt) (eol : Bytes) (hb : OptBagOK opt) :
    (coreI line opt [] [] eol).2.2.2 ≤ recBound opt line.length := by
  obtain ⟨hg1, hloc⟩ := compressStageI_le line opt [] hb
  have hg1' : (compressStageI line opt []).2 ≤ recBound opt line.length := by
    refine RecPeak.le_trans hg1 ?_
    rw [RecPeak.le_def]; simp only [recBound]
    have := le_wide (replLen opt) line.length
    omega
  unfold coreI
  generalize compressStageI line opt [] = x at hg1' hloc
  obtain ⟨c, g1⟩ := x
  simp only [incoming_nil, RecPeak.zero_sup]
  cases c with
  | fail => exact hg1'
  | panic => exact hg1'
  | ok loc =>
    simp only []
    obtain ⟨hl1, hl2⟩ := hloc loc rfl
    obtain ⟨hg2, _⟩ := fieldsStageI_le loc opt [] hb
    have hout := fieldsStageI_out_le loc opt []
    have hg2' : (fieldsStageI loc opt []).2 ≤ recBound opt line.length := by
      refine RecPeak.le_trans hg2 ?_
      rw [RecPeak.le_def]; simp only [recBound]
      omega
    have hg2f : (fieldsStageI loc opt []).2.fields ≤ loc.line.length + 2 := by
      rw [RecPeak.le_def] at hg2; exact hg2.1
    generalize fieldsStageI loc opt [] = y at hg2' hg2f hout
    obtain ⟨f, g2⟩ := y
    cases f with
    | fail => exact RecPeak.sup_le hg1' hg2'
    | panic => exact RecPeak.sup_le hg1' hg2'
    | ok fields' =>
      simp only []
      have hn := hout fields' rfl
      simp only at hn hg2f
      refine RecPeak.sup_le (RecPeak.sup_le hg1' hg2') ?_
      exact RecPeak.le_trans (emitStageI_le loc.line fields' opt loc.delimiterAlreadyReplaced eol hb)
        (emitBound_le opt _ _ _ _ (by omega) hl1 hl2)

theorem early_inr_length_le (line : Bytes) (opt : Opt) (eol line' : Bytes) (h : early line opt eol = .inr line') :
    line'.length ≤ line.length := by
  unfold early at h
  split at h
  · cases h
  · split at h
    · cases h
    · cases ht : CutStrLit.trimStage line opt with
      | fail => rw [ht] at h; cases h
      | panic => rw [ht] at h; cases h
      | ok l =>
        rw [ht] at h
        simp only [] at h
        split at h
        · cases h
        · injection h with h
          subst h
          exact trimStage_length_le _ _ _ ht

/-- **one call of `cut_str` from empty vectors**: every component of the ghost is under `recBound`
    for the length of the record — whatever the option record, whatever the record -/
theorem cutStrLitI_peak_le (line : Bytes) (opt : Opt) (eol : Bytes) (hb : OptBagOK opt) :
    (cutStrLitI line opt [] [] eol).2.2.2 ≤ recBound opt line.length := by
  rw [cutStrLitI_eq]
  cases he : early line opt eol with
  | inl r => simp only [incoming_nil]; exact RecPeak.zero_le _
  | inr line' =>
    simp only []
    exact RecPeak.le_trans (coreI_le line' opt eol hb)
      (recBound_mono opt (early_inr_length_le _ _ _ _ he))

/-! ## 4. the loop over the records -/

/-- trimming the terminated records (`trim_record_slice`, io.rs:196) gives the records of
    `Tuc.Model.Text`; the companion of `ReadLoops.foldRecords_trimmed` for the captured state -/
theorem foldState_trimmed {σ : Type} (t : UInt8) (f : Closure σ) : ∀ (input cur : Bytes) (st : σ),
    t ∉ cur →
    foldState (ReadLoops.trimmed t f) (splitWT t cur input) st = foldState f (splitRecords t cur.reverse input) st := by
  intro input
  induction input with
  | nil =>
    intro cur st h
    by_cases hc : cur = []
    · subst hc; rfl
    · have hce : cur.isEmpty = false := by cases cur <;> simp_all
      simp only [splitWT, splitRecords, hce, List.isEmpty_reverse, Bool.false_eq_true, if_false, foldState,
        List.reverse_reverse]
      simp only [ReadLoops.trimmed, ReadLoops.trimRecordSlice_not_mem cur t h]
  | cons c tl ih =>
    intro cur st h
    by_cases hc : c = t
    · subst hc
      simp only [splitWT, splitRecords, if_true, foldState, List.reverse_reverse]
      have ht : ∀ st, ReadLoops.trimmed c f (cur ++ [c]) st = f cur st := by
        intro st; simp only [ReadLoops.trimmed, ReadLoops.trimRecordSlice_snoc]
      simp only [ht]
      rw [ih [] _ (by simp)]
      rfl
    · simp only [splitWT, splitRecords, if_neg hc]
      have := ih (cur ++ [c]) st (by simp; exact ⟨h, fun e => hc e.symm⟩)
      simpa using this

/-- the peak of `cut_str` on one record, from empty vectors: a function of the option record and
    of THIS record alone -/
def recPeak (opt : Opt) (line : Bytes) : RecPeak := (cutStrLitI line opt [] [] [opt.eol.byte]).2.2.2

/-- the call for this record returns `Ok` (so `for_byte_record` goes on) -/
def recOk (opt : Opt) (line : Bytes) : Bool :=
  decide ((cutStrLitI line opt [] [] [opt.eol.byte]).1.status = .ok)

/-- the componentwise maximum of `m` over the records that are EXECUTED: all up to and including
    the first one whose call fails -/
def execSup (m : Bytes → RecPeak) (ok : Bytes → Bool) : List Bytes → RecPeak
  | [] => {}
  | r :: t => if ok r then (m r).sup (execSup m ok t) else m r

theorem cutStrLitClosureI_not_mem (opt : Opt) (r : Bytes) (st : (List Range × Bytes) × RecPeak)
    (h : opt.eol.byte ∉ r) :
    cutStrLitClosureI opt r st =
      ((cutStrLitI r opt st.1.1 st.1.2 [opt.eol.byte]).1, true,
       (((cutStrLitI r opt st.1.1 st.1.2 [opt.eol.byte]).2.1,
         (cutStrLitI r opt st.1.1 st.1.2 [opt.eol.byte]).2.2.1),
        st.2.sup (cutStrLitI r opt st.1.1 st.1.2 [opt.eol.byte]).2.2.2)) := by
  simp only [cutStrLitClosureI, ReadLoops.stripSuffix_not_mem r _ h, Option.getD_none]

theorem RecPeak.sup_absorb {g i p : RecPeak} (h : i ≤ g) : g.sup (i.sup p) = g.sup p := by
  rw [← RecPeak.sup_assoc, RecPeak.sup_eq_left h]

/-- **the ghost of the record loop in closed form**: started with vectors that fit under the
    accumulator, the accumulator ends as the larger of what it was and of the per-record peaks of
    the executed records — and the vectors still fit under it -/
theorem foldState_closure (opt : Opt) : ∀ (recs : List Bytes) (f : List Range) (b : Bytes) (g : RecPeak),
    (∀ r ∈ recs, opt.eol.byte ∉ r) → incoming f b ≤ g →
    (foldState (cutStrLitClosureI opt) recs ((f, b), g)).2 =
        g.sup (execSup (recPeak opt) (recOk opt) recs) ∧
    incoming (foldState (cutStrLitClosureI opt) recs ((f, b), g)).1.1
        (foldState (cutStrLitClosureI opt) recs ((f, b), g)).1.2 ≤
      (foldState (cutStrLitClosureI opt) recs ((f, b), g)).2 := by
  intro recs
  induction recs with
  | nil => intro f b g _ hi; exact ⟨(RecPeak.sup_zero g).symm, hi⟩
  | cons r t ih =>
    intro f b g hne hi
    have hr := hne r (List.mem_cons_self ..)
    have ht : ∀ r' ∈ t, opt.eol.byte ∉ r' := fun r' hr' => hne r' (List.mem_cons_of_mem _ hr')
    obtain ⟨s1, s2, s3, s4⟩ := cutStrLitI_scratch r opt f b [opt.eol.byte]
    rw [foldState_cons, cutStrLitClosureI_not_mem opt r _ hr]
    simp only [and_true]
    have hg' : g.sup (cutStrLitI r opt f b [opt.eol.byte]).2.2.2 = g.sup (recPeak opt r) := by
      rw [s2]; exact RecPeak.sup_absorb hi
    have hinv : incoming (cutStrLitI r opt f b [opt.eol.byte]).2.1 (cutStrLitI r opt f b [opt.eol.byte]).2.2.1 ≤
        g.sup (recPeak opt r) := by
      rw [RecPeak.le_def] at hi ⊢
      simp only [incoming, RecPeak.sup_fields, RecPeak.sup_compressedLineBuf, RecPeak.sup_lineHolder,
        RecPeak.sup_complemented, RecPeak.sup_unpacked, RecPeak.sup_fieldToPrint] at hi ⊢
      refine ⟨?_, ?_, Nat.zero_le _, Nat.zero_le _, Nat.zero_le _, Nat.zero_le _⟩
      · rcases s3 with s3 | s3
        · rw [s3]; omega
        · unfold recPeak; omega
      · rcases s4 with s4 | s4
        · rw [s4]; omega
        · unfold recPeak; omega
    rw [hg', s1]
    by_cases hok : (cutStrLitI r opt [] [] [opt.eol.byte]).1.status = .ok
    · simp only [hok, if_true, execSup, recOk, decide_true]
      obtain ⟨i1, i2⟩ := ih _ _ _ ht hinv
      exact ⟨by rw [i1, RecPeak.sup_assoc], i2⟩
    · simp only [hok, if_false, execSup, recOk, decide_false, Bool.false_eq_true]
      exact ⟨trivial, hinv⟩

/-- **the ghost state of `read_and_cut_str` in closed form**, for every option record and every
    list of non-empty reads: `cut_str`'s part is the componentwise maximum of the per-record peaks
    over the executed records of the concatenated input — nothing depends on the chunking, nothing
    accumulates —; bstr's `bytes` never holds more than the longest line, terminator included. -/
theorem readAndCutStrWholeI_peak (opt : Opt) (segs : List Bytes) (h : ∀ s ∈ segs, s ≠ []) :
    (readAndCutStrWholeI opt segs).2.cut =
        execSup (recPeak opt) (recOk opt) (records opt.eol.byte segs.flatten) ∧
    (readAndCutStrWholeI opt segs).2.bytes ≤ longestLine opt.eol.byte segs.flatten := by
  obtain ⟨h1, h2⟩ := outerLoopI_spec opt.eol.byte (ReadLoops.trimmed opt.eol.byte (cutStrLitClosureI opt))
    (fuelFor segs) segs ((([] : List Range), ([] : Bytes)), ({} : RecPeak)) 0 h
    (ReadLoops.totalBytes_lt_fuelFor segs)
  have e : (readAndCutStrWholeI opt segs).2 =
      { bytes := (outerLoopI opt.eol.byte (ReadLoops.trimmed opt.eol.byte (cutStrLitClosureI opt))
          (fuelFor segs) segs [] 0 ((([] : List Range), ([] : Bytes)), ({} : RecPeak)) 0).2.2.2,
        cut := (outerLoopI opt.eol.byte (ReadLoops.trimmed opt.eol.byte (cutStrLitClosureI opt))
          (fuelFor segs) segs [] 0 ((([] : List Range), ([] : Bytes)), ({} : RecPeak)) 0).2.2.1.2 } := rfl
  rw [e]
  simp only []
  constructor
  · rw [h1, foldState_trimmed opt.eol.byte _ segs.flatten [] _ (by simp)]
    have := (foldState_closure opt (records opt.eol.byte segs.flatten) [] [] {}
      (ReadLoops.records_not_mem opt.eol.byte segs.flatten) (RecPeak.zero_le _)).1
    rw [RecPeak.zero_sup] at this
    exact this
  · rw [Nat.zero_max, splitWT_eq_rawLines] at h2
    exact h2

/-! ## 5. the bounds -/

theorem execSup_le (m : Bytes → RecPeak) (ok : Bytes → Bool) (bound : RecPeak) :
    ∀ rs : List Bytes, (∀ r ∈ rs, m r ≤ bound) → execSup m ok rs ≤ bound := by
  intro rs
  induction rs with
  | nil => intro _; exact RecPeak.zero_le _
  | cons r t ih =>
    intro h
    simp only [execSup]
    have h1 := h r (List.mem_cons_self ..)
    split
    · exact RecPeak.sup_le h1 (ih fun x hx => h x (List.mem_cons_of_mem _ hx))
    · exact h1

theorem length_le_maxLen : ∀ (rs : List Bytes) (r : Bytes), r ∈ rs → r.length ≤ maxLen rs := by
  intro rs
  induction rs with
  | nil => intro r h; cases h
  | cons x t ih =>
    intro r h
    simp only [maxLen]
    rcases List.mem_cons.mp h with rfl | h
    · omega
    · have := ih r h; omega

/-- the per-record peak is under the bound for the length of the record -/
theorem recPeak_le (opt : Opt) (hb : OptBagOK opt) (line : Bytes) : recPeak opt line ≤ recBound opt line.length :=
  cutStrLitI_peak_le line opt _ hb

/-- **general engine, `cut_str`'s vectors and temporaries: every component of the ghost is under
    `recBound opt (longest record)`** — every option record (whose regex, if any, honours the
    contract of `find_iter`), every input, every segmentation into non-empty reads.  The number of
    records does not enter; what comes from the option record (the length of the replacement, the
    number of bounds) is a factor that does not depend on the input. -/
theorem readAndCutStrWholeI_cut_le (opt : Opt) (segs : List Bytes) (h : ∀ s ∈ segs, s ≠ [])
    (hb : OptBagOK opt) :
    (readAndCutStrWholeI opt segs).2.cut ≤ recBound opt (longestRecord opt.eol.byte segs.flatten) := by
  rw [(readAndCutStrWholeI_peak opt segs h).1]
  apply execSup_le
  intro r hr
  exact RecPeak.le_trans (recPeak_le opt hb r) (recBound_mono opt (length_le_maxLen _ r hr))

/-- **bstr's `bytes` holds at most the longest record and its terminator** -/
theorem readAndCutStrWholeI_bytes_le (opt : Opt) (segs : List Bytes) (h : ∀ s ∈ segs, s ≠ []) :
    (readAndCutStrWholeI opt segs).2.bytes ≤ longestRecord opt.eol.byte segs.flatten + 1 :=
  Nat.le_trans (readAndCutStrWholeI_peak opt segs h).2 (Space.longestLine_le_longestRecord _ _)

/-- `fields` (one `Range<usize>` per field, plus the two boundary ranges that `-c` pops): at most
    `w + 2` entries, `w` = the longest record widened by the replacement -/
theorem readAndCutStrWholeI_fields_le (opt : Opt) (segs : List Bytes) (h : ∀ s ∈ segs, s ≠ [])
    (hb : OptBagOK opt) :
    (readAndCutStrWholeI opt segs).2.cut.fields ≤
      wide (replLen opt) (longestRecord opt.eol.byte segs.flatten) + 2 :=
  ((RecPeak.le_def _ _).1 (readAndCutStrWholeI_cut_le opt segs h hb)).1

/-- … without `-r`: at most (longest record) + 2 entries — C17's "in terms of the longest record, not
    the number of records" -/
theorem readAndCutStrWholeI_fields_le_record (opt : Opt) (segs : List Bytes) (h : ∀ s ∈ segs, s ≠ [])
    (hb : OptBagOK opt) (hr : opt.replaceDelimiter = none) :
    (readAndCutStrWholeI opt segs).2.cut.fields ≤ longestRecord opt.eol.byte segs.flatten + 2 := by
  have := readAndCutStrWholeI_fields_le opt segs h hb
  have e : replLen opt = 0 := by simp [replLen, hr]
  rwa [e, wide_zero] at this

/-- `compressed_line_buf`: at most the longest record, with or without `-r` -/
theorem readAndCutStrWholeI_compressedLineBuf_le (opt : Opt) (segs : List Bytes) (h : ∀ s ∈ segs, s ≠ [])
    (hb : OptBagOK opt) :
    (readAndCutStrWholeI opt segs).2.cut.compressedLineBuf ≤ longestRecord opt.eol.byte segs.flatten :=
  ((RecPeak.le_def _ _).1 (readAndCutStrWholeI_cut_le opt segs h hb)).2.1

/-- `line_holder` and an owned `field_to_print`: at most `len + (len + 1) · |replacement|` bytes -/
theorem readAndCutStrWholeI_cow_le (opt : Opt) (segs : List Bytes) (h : ∀ s ∈ segs, s ≠ [])
    (hb : OptBagOK opt) :
    (readAndCutStrWholeI opt segs).2.cut.lineHolder ≤
        wide (replLen opt) (longestRecord opt.eol.byte segs.flatten) ∧
    (readAndCutStrWholeI opt segs).2.cut.fieldToPrint ≤
        wide (replLen opt) (longestRecord opt.eol.byte segs.flatten) :=
  ⟨((RecPeak.le_def _ _).1 (readAndCutStrWholeI_cut_le opt segs h hb)).2.2.1,
   ((RecPeak.le_def _ _).1 (readAndCutStrWholeI_cut_le opt segs h hb)).2.2.2.2.2⟩

/-- the complemented list: at most two entries per bound of the option record, WHATEVER the input;
    the unpacked list: at most one entry per field for each of those -/
theorem readAndCutStrWholeI_bounds_le (opt : Opt) (segs : List Bytes) (h : ∀ s ∈ segs, s ≠ [])
    (hb : OptBagOK opt) :
    (readAndCutStrWholeI opt segs).2.cut.complemented ≤ 2 * opt.bounds.list.length ∧
    (readAndCutStrWholeI opt segs).2.cut.unpacked ≤
      2 * opt.bounds.list.length * (wide (replLen opt) (longestRecord opt.eol.byte segs.flatten) + 2) :=
  ⟨((RecPeak.le_def _ _).1 (readAndCutStrWholeI_cut_le opt segs h hb)).2.2.2.1,
   ((RecPeak.le_def _ _).1 (readAndCutStrWholeI_cut_le opt segs h hb)).2.2.2.2.1⟩

/-! ## 6. more records, same peak -/

theorem execSup_append (m : Bytes → RecPeak) (ok : Bytes → Bool) : ∀ a b : List Bytes,
    execSup m ok (a ++ b) =
      if a.all ok then (execSup m ok a).sup (execSup m ok b) else execSup m ok a := by
  intro a b
  induction a with
  | nil => simp [execSup, RecPeak.zero_sup]
  | cons r t ih =>
    simp only [List.cons_append, execSup, List.all_cons]
    by_cases hr : ok r = true
    · simp only [hr, if_true, Bool.true_and, ih]
      split
      · rw [RecPeak.sup_assoc]
      · rfl
    · simp only [hr, Bool.false_eq_true, if_false, Bool.false_and]

theorem execSup_replicate_le (m : Bytes → RecPeak) (ok : Bytes → Bool) (a : List Bytes) : ∀ k : Nat,
    execSup m ok (List.replicate k a).flatten ≤ execSup m ok a := by
  intro k
  induction k with
  | zero => exact RecPeak.zero_le _
  | succ k ih =>
    rw [List.replicate_succ, List.flatten_cons, execSup_append]
    split
    · exact RecPeak.sup_le (RecPeak.le_refl _) ih
    · exact RecPeak.le_refl _

theorem execSup_replicate (m : Bytes → RecPeak) (ok : Bytes → Bool) (a : List Bytes) (k : Nat) :
    execSup m ok (List.replicate (k + 1) a).flatten = execSup m ok a := by
  rw [List.replicate_succ, List.flatten_cons, execSup_append]
  split
  · exact RecPeak.sup_eq_left (execSup_replicate_le m ok a k)
  · rfl

/-- **general engine: repeating the input does not move the peaks** — `k + 1` copies of a block
    that ends with the terminator, read in ANY pieces, need exactly the `fields`, `compressed_line_buf`
    and temporaries that one copy (read in any pieces) needs; bstr's `bytes` stays under the longest
    line of ONE copy. -/
theorem readAndCutStrWholeI_replicate (opt : Opt) (block : Bytes)
    (hend : block.getLast? = some opt.eol.byte) (k : Nat) (segs segs' : List Bytes)
    (h : ∀ s ∈ segs, s ≠ []) (h' : ∀ s ∈ segs', s ≠ [])
    (e : segs.flatten = block) (e' : segs'.flatten = (List.replicate (k + 1) block).flatten) :
    (readAndCutStrWholeI opt segs').2.cut = (readAndCutStrWholeI opt segs).2.cut ∧
    (readAndCutStrWholeI opt segs').2.bytes ≤ longestLine opt.eol.byte block := by
  obtain ⟨p1, _⟩ := readAndCutStrWholeI_peak opt segs h
  obtain ⟨p1', p2'⟩ := readAndCutStrWholeI_peak opt segs' h'
  constructor
  · rw [p1, p1', e, e', Space.records_replicate _ _ (Or.inr hend), execSup_replicate]
  · rw [e'] at p2'
    exact Nat.le_trans p2' (Space.longestLine_replicate_le _ _ (Or.inr hend) _)

/-! ## 7. nothing accumulates in the scratch vectors -/

/-- **after a call of `cut_str`, whatever the two vectors held before**: each of them is either
    untouched (the call returned before l.327 resp. l.332: refused options, a record that is empty
    after trimming — then it holds what an EARLIER record left, which is under that record's bound)
    or holds what THIS record put there: at most `w + 2` ranges resp. at most `len` bytes, `len` the
    length of this record.  (A vector that is not cleared, or cleared only down to some stale
    prefix, breaks the second alternative: its length would carry the previous content.) -/
theorem cutStrLitI_vectors_after (line : Bytes) (opt : Opt) (fields : List Range) (buf eol : Bytes)
    (hb : OptBagOK opt) :
    ((cutStrLitI line opt fields buf eol).2.1 = fields ∨
      (cutStrLitI line opt fields buf eol).2.1.length ≤ wide (replLen opt) line.length + 2) ∧
    ((cutStrLitI line opt fields buf eol).2.2.1 = buf ∨
      (cutStrLitI line opt fields buf eol).2.2.1.length ≤ line.length) := by
  obtain ⟨_, _, s3, s4⟩ := cutStrLitI_scratch line opt fields buf eol
  have hp := (RecPeak.le_def _ _).1 (cutStrLitI_peak_le line opt eol hb)
  simp only [recBound] at hp
  constructor
  · rcases s3 with s3 | s3
    · exact Or.inl s3
    · right; omega
  · rcases s4 with s4 | s4
    · exact Or.inl s4
    · right; omega

/-! ## 8. the regex bags the program builds meet the hypothesis -/

theorem boundariesFrom_length : ∀ (cs : List Bytes) (pos : Nat), (boundariesFrom pos cs).length = cs.length + 1 := by
  intro cs
  induction cs with
  | nil => intro pos; rfl
  | cons c t ih => intro pos; simp [boundariesFrom, ih]

theorem length_le_flatten_length : ∀ (cs : List Bytes), (∀ c ∈ cs, 1 ≤ c.length) → cs.length ≤ cs.flatten.length := by
  intro cs
  induction cs with
  | nil => intro _; exact Nat.le_refl _
  | cons c t ih =>
    intro h
    have h1 := h c (List.mem_cons_self ..)
    have h2 := ih fun x hx => h x (List.mem_cons_of_mem _ hx)
    simp only [List.length_cons, List.flatten_cons, List.length_append]
    omega

theorem charMatches_length_le (line : Bytes) : (charMatches line).length ≤ line.length + 1 := by
  unfold charMatches
  cases hcs : utf8Chars line with
  | none => simp
  | some cs =>
    simp only [List.length_map, boundariesFrom_length]
    have h1 := utf8Chars_flatten line cs hcs
    have h2 := utf8Chars_each line cs hcs
    have := length_le_flatten_length cs fun c hc => (charLen_bounds c c.length (h2 c hc)).1
    rw [h1] at this
    omega

/-- the bag of `-c` (`\b|\B`: one empty match per scalar-value boundary) meets the hypothesis -/
theorem bagOK_chars : BagOK charsBag :=
  ⟨charsBag_ok, fun line => ⟨charMatches_length_le line, charMatches_length_le line⟩⟩

/-- **the option records without `-e`** (no bag, or the bag of `-c`) **and those with a modelled
    regex meet `OptBagOK`** -/
theorem optBagOK_of_program (opt : Opt)
    (h : opt.regexBag = none ∨ opt.regexBag = some charsBag ∨ ∃ r : Re, opt.regexBag = some (Re.bag r)) :
    OptBagOK opt := by
  intro bag hbag
  rcases h with h | h | ⟨r, h⟩
  · rw [h] at hbag; cases hbag
  · rw [h] at hbag; injection hbag with hbag; subst hbag; exact bagOK_chars
  · rw [h] at hbag; injection hbag with hbag; subst hbag; exact bagOK_of_re r

/-! ## 9. when `bytes` is used at all -/

theorem memchr_none_not_mem (t : UInt8) : ∀ l : Bytes, memchr t l = none → t ∉ l := by
  intro l
  induction l with
  | nil => intro _ h; cases h
  | cons c tl ih =>
    intro h
    unfold memchr at h
    by_cases hc : c = t
    · rw [if_pos hc] at h; cases h
    · rw [if_neg hc] at h
      cases hm : memchr t tl with
      | some j => rw [hm] at h; cases h
      | none =>
        intro hmem
        rcases List.mem_cons.mp hmem with e | e
        · exact hc e.symm
        · exact ih hm e

/-- io.rs:308-320: what the loop leaves in `buf` is a suffix of the chunk without terminator -/
theorem whileFindByte_leftover {σ : Type} (t : UInt8) (f : Closure σ) :
    ∀ (fuel : Nat) (buf : Bytes) (consumed : Nat) (st : σ), buf.length < fuel →
    (whileFindByte t f fuel buf consumed st).breakOuter = false →
    t ∉ (whileFindByte t f fuel buf consumed st).buf ∧
      ∃ pre, buf = pre ++ (whileFindByte t f fuel buf consumed st).buf := by
  intro fuel
  induction fuel with
  | zero => intro buf consumed st h; omega
  | succ fuel ih =>
    intro buf consumed st hfuel
    rw [ReadLoops.whileFindByte_succ]
    cases hm : memchr t buf with
    | none =>
      intro _
      exact ⟨memchr_none_not_mem t buf hm, [], rfl⟩
    | some index =>
      have hlt := ReadLoops.memchr_some_lt t buf index hm
      simp only
      rw [ReadLoops.splitAt?_of_le buf (index + 1) (by omega)]
      simp only
      have hdl : (buf.drop (index + 1)).length < fuel := by simp; omega
      by_cases hok : (f (buf.take (index + 1)) st).1.status = .ok
      · by_cases hk : (f (buf.take (index + 1)) st).2.1 = true
        · simp only [hok, hk, if_true]
          intro hb
          obtain ⟨i1, pre, i2⟩ := ih (buf.drop (index + 1)) _ _ hdl hb
          refine ⟨i1, buf.take (index + 1) ++ pre, ?_⟩
          rw [List.append_assoc, ← i2, List.take_append_drop]
        · simp [hok, hk]
      · simp [hok]

/-- **a single read that ends with the terminator** (the whole input fits into the `BufReader`, or
    a reader that hands out whole lines): every record is lent as a slice of the reader's buffer,
    bstr's `bytes` stays EMPTY.  It is used for the record that straddles two reads, for the first
    record of every read after the first one (l.336 is reached with an empty fragment), and for the
    fragment after the last terminator of a read (l.325) — `#guard`s in section 10. -/
theorem readAndCutStrWholeI_bytes_single (opt : Opt) (input : Bytes) (hne : input ≠ [])
    (hend : input.getLast? = some opt.eol.byte) :
    (readAndCutStrWholeI opt [input]).2.bytes = 0 := by
  have e : (readAndCutStrWholeI opt [input]).2.bytes =
      (outerLoopI opt.eol.byte (ReadLoops.trimmed opt.eol.byte (cutStrLitClosureI opt))
        (fuelFor [input]) [input] [] 0 ((([] : List Range), ([] : Bytes)), ({} : RecPeak)) 0).2.2.2 := rfl
  rw [e]
  have hf : fuelFor [input] = (2 * totalBytes [input] + 1) + 1 := rfl
  rw [hf, outerLoopI_succ]
  have hfb : fillBuf [input] = input := rfl
  have hce : input.isEmpty = false := by
    cases input with
    | nil => exact absurd rfl hne
    | cons _ _ => rfl
  rw [hfb, hce]
  simp only [Bool.false_eq_true, if_false]
  obtain ⟨_, hw2⟩ := ReadLoops.whileFindByte_spec opt.eol.byte
    (ReadLoops.trimmed opt.eol.byte (cutStrLitClosureI opt)) [] (input.length + 1) input 0
    ((([] : List Range), ([] : Bytes)), ({} : RecPeak)) (by omega)
  have hl := whileFindByte_leftover opt.eol.byte
    (ReadLoops.trimmed opt.eol.byte (cutStrLitClosureI opt)) (input.length + 1) input 0
    ((([] : List Range), ([] : Bytes)), ({} : RecPeak)) (by omega)
  generalize whileFindByte opt.eol.byte (ReadLoops.trimmed opt.eol.byte (cutStrLitClosureI opt))
    (input.length + 1) input 0 ((([] : List Range), ([] : Bytes)), ({} : RecPeak)) = w at hw2 hl ⊢
  cases hb : w.breakOuter with
  | true => simp only [if_true]
  | false =>
    simp only [Bool.false_eq_true, if_false]
    obtain ⟨hnot, pre, hpre⟩ := hl hb
    have hbuf : w.buf = [] := by
      cases hwb : w.buf with
      | nil => rfl
      | cons c tl =>
        exfalso
        apply hnot
        rw [hpre, hwb, List.getLast?_append] at hend
        have : (c :: tl).getLast? = some opt.eol.byte := by
          cases hg : (c :: tl).getLast? with
          | none => simp at hg
          | some x => rw [hg] at hend; simpa using hend
        rw [hwb]
        exact List.mem_of_getLast? this
    have hcons := hw2 hb
    unfold afterWhileI
    rw [hcons, Nat.zero_add, StreamLoop.consume_all, hbuf]
    simp [readUntilLoopI, fillBuf, memchr, consume, bytesSpace, totalBytes]

/-! ## 10. by evaluation

The instrumented functions are executable.  Options as `main` builds them (`ReadLoops.mkOpt`:
parsed bounds, delimiter `-`).  Bytes: `a` = 97, `-` = 45, LF = 10. -/

section Guards
open ReadLoops (mkOpt bytesOf)

/-- how the run ends, the peak of `bytes`, and the six components of `RecPeak` in the order
    fields, compressed_line_buf, line_holder, complemented, unpacked, field_to_print -/
def peakOf (o : Opt) (reads : List String) : Status × Nat × List Nat :=
  let p := (readAndCutStrWholeI o (reads.map bytesOf)).2
  ((readAndCutStrWholeI o (reads.map bytesOf)).1.status, p.bytes,
   [p.cut.fields, p.cut.compressedLineBuf, p.cut.lineHolder, p.cut.complemented, p.cut.unpacked,
    p.cut.fieldToPrint])

def optS : Opt := mkOpt "2" fun o => { o with compressDelimiter := true }
def optX : Opt := mkOpt "2" fun o => { o with complement := true }
def optJ : Opt := mkOpt "2:" fun o => { o with json := true }
def optXJ : Opt := mkOpt "2,4" fun o => { o with complement := true, json := true, fallbackOob := some [70] }
def optR : Opt := mkOpt "1:2" fun o => { o with replaceDelimiter := some (bytesOf "<=>"), join := true }
def optC : Opt :=
  mkOpt "2:3" fun o => { o with delimiter := [], boundsType := .characters, regexBag := some charsBag }
def optE : Opt :=
  mkOpt "2" fun o => { o with regexBag := some (Re.bag (Re.cls [0x2d, 0x2c])),
                              replaceDelimiter := some (bytesOf "::"), compressDelimiter := true }

-- `bytes` (bstr): one read that ends with the terminator — every record is lent as a slice of the
-- reader's buffer, `bytes` stays empty …
#guard peakOf (mkOpt "2") ["a-b-c\nd-e\n"] == (.ok, 0, [3, 0, 0, 0, 0, 0])
-- … two reads that both end with the terminator: the first record of the SECOND read goes
-- through `bytes` (l.336 `read_until`), 4 bytes with its terminator …
#guard peakOf (mkOpt "2") ["a-b-c\n", "d-e\n"] == (.ok, 4, [3, 0, 0, 0, 0, 0])
-- … a record that straddles the reads is assembled there: `a-b-c` LF, 6 bytes = longest record + 1
#guard peakOf (mkOpt "2") ["a-b", "-c\nd-e\n"] == (.ok, 6, [3, 0, 0, 0, 0, 0])
#guard longestRecord 10 (bytesOf "a-b-c\nd-e\n") == 5
-- … the fragment after the last terminator of a read (l.325), here the final `d-e` without LF
#guard peakOf (mkOpt "2") ["a-b-c\nd-e"] == (.ok, 3, [3, 0, 0, 0, 0, 0])
-- `fields`: one range per field (`a-b-c`: 3); `compressed_line_buf` (`-p`): `a-b-c`, 5 bytes of the 8
#guard peakOf optS ["a--b---c\nd-e\n"] == (.ok, 0, [3, 5, 0, 0, 0, 0])
-- `-m`: the complement of `2` on 3 fields is `1,3:3`: two entries, whatever the record
#guard peakOf optX ["a-b-c\nd-e\n"] == (.ok, 0, [3, 0, 0, 2, 0, 0])
-- `--json -f 2:` on 5 fields: unpacked into `2,3,4,5`
#guard peakOf optJ ["a-b-c-d-e\nd-e\n"] == (.ok, 0, [5, 0, 0, 0, 4, 0])
-- `--json -m -f 2,4`: 2 + 2 complemented entries, unpacked into 1 + 3 + 3 + 1 (both lists alive)
#guard peakOf optXJ ["a-b-c-d-e\nd-e\n"] == (.ok, 0, [5, 0, 0, 4, 8, 0])
-- `-r '<=>'`: the field `a-b` is printed as the owned `a<=>b`
#guard peakOf optR ["a-b-c\nd-e\n"] == (.ok, 0, [3, 0, 0, 0, 0, 5])
-- `-c`: `héllo` has 5 characters: 5 + the two boundary ranges that l.353-354 pop
#guard peakOf optC ["héllo\nabc\n"] == (.ok, 0, [7, 0, 0, 0, 0, 0])
-- `-e '[-,]' -p -r '::'`: `a-,-b,c` becomes the `line_holder` `a::b::c` (7 bytes)
#guard peakOf optE ["a-,-b,c\nd-e\n"] == (.ok, 0, [3, 0, 7, 0, 0, 0])
-- the first record fails (no field 3, no fallback): the second one is never cut
#guard peakOf (mkOpt "3") ["x\na-b-c-d-e\n"] == (.fail, 0, [1, 0, 0, 0, 0, 0])
#guard peakOf (mkOpt "3" fun o => { o with fallbackOob := some [70] }) ["x\na-b-c-d-e\n"] ==
  (.ok, 0, [5, 0, 0, 0, 0, 0])

/-! ### non-vacuity of the main theorems -/

/-- `readAndCutStrWholeI_cut_le`, `_bytes_le`, `_peak` apply: reads without an empty chunk, an option
    record without `-e` -/
example : (readAndCutStrWholeI optXJ [[97, 45, 98, 45, 99, 45, 100], [45, 101, 10, 100, 45, 101, 10]]).2.cut ≤
    recBound optXJ (longestRecord optXJ.eol.byte
      [[97, 45, 98, 45, 99, 45, 100], [45, 101, 10, 100, 45, 101, 10]].flatten) :=
  readAndCutStrWholeI_cut_le optXJ _ (by decide) (optBagOK_of_program optXJ (Or.inl rfl))

/-- … the option record of `-c` (the bag `\b|\B`) … -/
example : (readAndCutStrWholeI optC [[104, 195, 169, 108, 108, 111, 10, 97, 98, 99, 10]]).2.cut ≤
    recBound optC (longestRecord optC.eol.byte [[104, 195, 169, 108, 108, 111, 10, 97, 98, 99, 10]].flatten) :=
  readAndCutStrWholeI_cut_le optC _ (by decide) (optBagOK_of_program optC (Or.inr (Or.inl rfl)))

/-- … and one with `-e` -/
example : (readAndCutStrWholeI optE [[97, 45, 44, 45, 98, 44, 99, 10, 100, 45, 101, 10]]).2.cut ≤
    recBound optE (longestRecord optE.eol.byte [[97, 45, 44, 45, 98, 44, 99, 10, 100, 45, 101, 10]].flatten) :=
  readAndCutStrWholeI_cut_le optE _ (by decide) (optBagOK_of_program optE (Or.inr (Or.inr ⟨_, rfl⟩)))

-- the numbers: `recBound` for the longest record (9 bytes) of the `--json -m` example: w = 9 (no `-r`)
#guard recBound optXJ 9 ==
  { fields := 11, compressedLineBuf := 9, lineHolder := 9, complemented := 4, unpacked := 44, fieldToPrint := 9 }
-- with `-r '<=>'` (3 bytes) and a longest record of 5 bytes: w = 5 + 6 · 3 = 23
#guard recBound optR 5 ==
  { fields := 25, compressedLineBuf := 5, lineHolder := 23, complemented := 2, unpacked := 50, fieldToPrint := 23 }
-- the `fields` bound `len + 2` is reached (`-c` on ASCII: one range per character + 2) …
#guard peakOf optC ["abcde\n"] == (.ok, 0, [7, 0, 0, 0, 0, 0])
-- … and so is `wide` for an owned field with the EMPTY delimiter: `-d '' -r '<=>' -f 1:` turns the
-- 2-byte record into `<=>a<=>b<=>` = 2 + 3 · 3 bytes
#guard peakOf (mkOpt "1:" fun o => { o with delimiter := [], replaceDelimiter := some (bytesOf "<=>") })
  ["ab\n"] == (.ok, 0, [4, 0, 0, 0, 0, 11])
#guard wide 3 2 == 11

/-- `readAndCutStrWholeI_replicate`: a block its hypothesis holds for -/
example : ([97, 45, 98, 45, 99, 10, 100, 45, 101, 10] : Bytes).getLast? = some EOL.newline.byte := by decide

-- three copies, read in other pieces: the same `cut` peaks; `bytes` moves with the pieces but stays
-- under the longest line (6) of one copy
#guard peakOf optXJ ["a-b-c-d-e\nd-e\n"] == (.ok, 0, [5, 0, 0, 4, 8, 0])
#guard peakOf optXJ ["a-b-c-d-e\nd-", "e\na-b-c-d-e\nd-e\na-b", "-c-d-e\nd-e\n"] == (.ok, 10, [5, 0, 0, 4, 8, 0])
#guard longestLine 10 (bytesOf "a-b-c-d-e\nd-e\n") == 10
-- `bytes` is NOT the same for "the same reads, three times": the first record of each later read is
-- copied (equality holds for the `cut` part only)
#guard peakOf (mkOpt "1") ["ab\n"] == (.ok, 0, [1, 0, 0, 0, 0, 0])
#guard peakOf (mkOpt "1") ["ab\n", "ab\n", "ab\n"] == (.ok, 3, [1, 0, 0, 0, 0, 0])
-- the block has to end with the terminator: two copies of `a-b` are ONE record of three fields
#guard peakOf (mkOpt "1") ["a-b"] == (.ok, 3, [2, 0, 0, 0, 0, 0])
#guard peakOf (mkOpt "1") ["a-ba-b"] == (.ok, 6, [3, 0, 0, 0, 0, 0])
-- 300 records of 2 fields in reads of 7 bytes
#guard (readAndCutStrWholeI optXJ
    (StreamLoop.segsOf (List.replicate 300 [97, 45, 97, 10]).flatten (List.replicate 200 7))).2 ==
  { bytes := 4, cut := { fields := 2, complemented := 2 } }

/-! ### the hypotheses cannot be dropped -/

-- `∀ s ∈ segs, s ≠ []` (closed form, hence replicate): an empty read is EOF for the loops
-- (io.rs:305), invisible to `flatten` — the record `c-d-e` is never cut
#guard peakOf (mkOpt "2") ["a-b\n", "", "c-d-e\n"] == (.ok, 0, [2, 0, 0, 0, 0, 0])
#guard (execSup (recPeak (mkOpt "2")) (recOk (mkOpt "2")) (records 10 (bytesOf "a-b\nc-d-e\n"))).fields == 3

/-- a "regex" that reports 50 empty matches at offset 0: in order, in range, not overlapping
    (`RegexBag.OK` holds) — but not "at most one match per position" -/
def bagMany : RegexBag := { normal := fun _ => List.replicate 50 (0, 0), greedy := fun _ => List.replicate 50 (0, 0) }

-- `OptBagOK`: with `bagMany` a record of ONE byte leaves 51 ranges in `fields` (bound: 1 + 2)
#guard peakOf (mkOpt "1" fun o => { o with regexBag := some bagMany }) ["a\n"] == (.ok, 0, [51, 0, 0, 0, 0, 0])

/-! ### nothing accumulates (`cutStrLitI_vectors_after`, `cutStrLitI_scratch`) -/

/-- what a long previous record may have left behind -/
def dirtyFields : List Range := List.replicate 100 ⟨0, 0⟩
def dirtyBuf : Bytes := List.replicate 1000 120

-- a record of two fields after that: `fields` holds 2 ranges, `compressed_line_buf` 3 bytes; the ghost
-- of the call saw the 100 / 1000 on arrival
#guard (cutStrLitI (bytesOf "a--b") optS dirtyFields dirtyBuf [10]).2.1.length == 2
#guard (cutStrLitI (bytesOf "a--b") optS dirtyFields dirtyBuf [10]).2.2.1 == bytesOf "a-b"
#guard (cutStrLitI (bytesOf "a--b") optS dirtyFields dirtyBuf [10]).2.2.2 ==
  { fields := 100, compressedLineBuf := 1000 }
#guard (cutStrLitI (bytesOf "a--b") optS [] [] [10]).2.2.2 == { fields := 2, compressedLineBuf := 3 }
-- a record that is empty after trimming: `cut_str` returns at l.297, both vectors untouched
#guard (cutStrLitI (bytesOf "--") { optS with trim := some .both } dirtyFields dirtyBuf [10]).2.1.length == 100
-- without `-p` `compressed_line_buf` is never touched
#guard (cutStrLitI (bytesOf "a--b") (mkOpt "2") dirtyFields dirtyBuf [10]).2.2.1.length == 1000
-- over a whole input: a record of 9 fields, then 200 records of 2 fields — the peak is the 9
#guard (readAndCutStrWholeI optS [bytesOf "a-b-c-d-e-f-g-h-i\n" ++ (List.replicate 200 [97, 45, 97, 10]).flatten]).2.cut ==
  { fields := 9, compressedLineBuf := 17 }

/-! ### erasure, closed form and bounds on every input of at most 4 bytes over `{a, -, LF}` × every
    segmentation × 9 option records (5 bytes for two of them) -/

def testOpts : List Opt :=
  [mkOpt "2", optS, optX, optJ, optXJ, optR, optE,
   mkOpt "-1" fun o => { o with greedyDelimiter := true, trim := some .both },
   mkOpt "1:" fun o => { o with delimiter := [], replaceDelimiter := some (bytesOf "<=>"), onlyDelimited := true }]

/-- erasure, closed form, `recBound`, `bytes ≤ longest line` on every segmentation of `w` -/
def checkAll (o : Opt) (w : Bytes) : Bool :=
  (StreamLoop.segmentations w).all fun segs =>
    let r := readAndCutStrWholeI o segs
    r.1 == WholeLit.readAndCutStrWhole o segs &&
      r.2.cut == execSup (recPeak o) (recOk o) (records o.eol.byte w) &&
      decide (r.2.cut ≤ recBound o (longestRecord o.eol.byte w)) &&
      r.2.bytes ≤ longestLine o.eol.byte w

#guard testOpts.all fun o => (StreamLoop.wordsUpTo [0x61, 0x2d, 0x0a] 4).all (checkAll o)
#guard [optXJ, optE].all fun o => (StreamLoop.wordsN [0x61, 0x2d, 0x0a] 5).all (checkAll o)

end Guards
end Space2
end Tuc
