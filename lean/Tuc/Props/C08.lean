import Tuc.Spec.Json
import Tuc.Model.CutStr
import Tuc.Lemmas.Run
/-!
# C08 — `--json` prints one well-formed array of strings per record, and decoding it yields each
selected part exactly

The encoder is the model of `serde_json::to_string::<str>` (`jsonString`, `Tuc.Model.Utf8`); the
decoder is the independent strict RFC 8259 reader of `Tuc.Spec.Json`.

* (1) `jsonDecodeString_jsonString` — string round trip, for *every* byte string;
* (2) `json_array_roundtrip` (and `json_array_roundtrip_ws`: the line with its LF / CRLF still is
  that JSON text) — array round trip, for every list of parts;
* (3) `jsonString_no_raw_control`, `jsonString_quotes`, `jsonString_injective`;
* (4) `outputLoop_json`, `emitRecord_json`, `emitRecord_json_decodes` — the output loop of the
  model under `--json` writes exactly the text of (2).
-/
namespace Tuc
open Tuc.Spec

/-! ## brute force over the 256 bytes -/

private theorem forall_byte {P : UInt8 → Prop} (h : ∀ n, n < 256 → P (UInt8.ofNat n)) (b : UInt8) : P b := by
  have := h b.toNat b.toNat_lt
  simpa using this

/-! ## one string -/

theorem jsonDecodeBody_quote (t : Bytes) : jsonDecodeBody (0x22 :: t) = some ([], t) := by
  rw [jsonDecodeBody.eq_def]; simp

theorem jsonDecodeBody_raw (b : UInt8) (t : Bytes) (h1 : b ≠ 0x22) (h2 : b ≠ 0x5C) (h3 : ¬ b < 0x20) :
    jsonDecodeBody (b :: t) = jsonPrepend [b] (jsonDecodeBody t) := by
  rw [jsonDecodeBody.eq_def]; simp [h1, h2, h3]

theorem jsonDecodeBody_simple (e c : UInt8) (t : Bytes) (he : e ≠ 0x75)
    (h : jsonSimpleEscape e = some c) :
    jsonDecodeBody (0x5C :: e :: t) = jsonPrepend [c] (jsonDecodeBody t) := by
  rw [jsonDecodeBody.eq_def]; simp [he, h]

theorem jsonDecodeBody_u (h1 h2 h3 h4 : UInt8) (t : Bytes) (cp : Nat)
    (h : jsonHex4 h1 h2 h3 h4 = some cp) (hcp : cp < 0xD800) :
    jsonDecodeBody (0x5C :: 0x75 :: h1 :: h2 :: h3 :: h4 :: t) =
      jsonPrepend (utf8OfBmp cp) (jsonDecodeBody t) := by
  rw [jsonDecodeBody.eq_def]; simp [h, hcp]

theorem jsonHex4_lower (b : UInt8) : b < 0x20 →
    jsonHex4 0x30 0x30 (hexDigitLower (b.toNat / 16)) (hexDigitLower (b.toNat % 16)) = some b.toNat := by
  revert b
  apply forall_byte
  decide +kernel

theorem utf8OfBmp_ascii (b : UInt8) : b < 0x20 → utf8OfBmp b.toNat = [b] := by
  revert b
  apply forall_byte
  decide +kernel

theorem jsonDecodeBody_escape (b : UInt8) (more : Bytes) :
    jsonDecodeBody (jsonEscapeByte b ++ more) = jsonPrepend [b] (jsonDecodeBody more) := by
  unfold jsonEscapeByte
  split
  · subst_vars; exact jsonDecodeBody_simple _ _ _ (by decide) (by decide)
  split
  · subst_vars; exact jsonDecodeBody_simple _ _ _ (by decide) (by decide)
  split
  · subst_vars; exact jsonDecodeBody_simple _ _ _ (by decide) (by decide)
  split
  · subst_vars; exact jsonDecodeBody_simple _ _ _ (by decide) (by decide)
  split
  · subst_vars; exact jsonDecodeBody_simple _ _ _ (by decide) (by decide)
  split
  · subst_vars; exact jsonDecodeBody_simple _ _ _ (by decide) (by decide)
  split
  · subst_vars; exact jsonDecodeBody_simple _ _ _ (by decide) (by decide)
  split
  · rename_i hlt
    have hn : b.toNat < 0xD800 := by
      have := UInt8.lt_iff_toNat_lt.mp hlt
      simp at this; omega
    rw [← utf8OfBmp_ascii b hlt]
    exact jsonDecodeBody_u _ _ _ _ _ _ (jsonHex4_lower b hlt) hn
  · rename_i h1 h2 _ _ _ _ _ h3
    exact jsonDecodeBody_raw b more h1 h2 h3

theorem jsonDecodeBody_flatMap (s rest : Bytes) :
    jsonDecodeBody (s.flatMap jsonEscapeByte ++ 0x22 :: rest) = some (s, rest) := by
  induction s with
  | nil => exact jsonDecodeBody_quote rest
  | cons b s ih =>
    rw [List.flatMap_cons, List.append_assoc, jsonDecodeBody_escape, ih]
    rfl

/-- **C08 (1)** the strict reader decodes what serde_json writes, whatever the content -/
theorem jsonDecodeString_jsonString (s rest : Bytes) :
    jsonDecodeString (jsonString s ++ rest) = some (s, rest) := by
  have : jsonString s ++ rest = 0x22 :: (s.flatMap jsonEscapeByte ++ 0x22 :: rest) := by
    simp [jsonString]
  rw [this, jsonDecodeString]
  simp [jsonDecodeBody_flatMap]


/-- two different parts never print the same -/
theorem jsonString_injective (s s' : Bytes) (h : jsonString s = jsonString s') : s = s' := by
  have h1 := jsonDecodeString_jsonString s []
  have h2 := jsonDecodeString_jsonString s' []
  rw [h, h2] at h1
  simpa using h1.symm

/-! ## the array -/

theorem Spec.joinWith_cons (sep x : Bytes) (xs : List Bytes) :
    Spec.joinWith sep (x :: xs) = x ++ xs.flatMap (fun y => sep ++ y) := by
  induction xs generalizing x with
  | nil => simp [Spec.joinWith]
  | cons y ys ih => rw [Spec.joinWith, ih]; simp

/-- `Spec.joinWith` is `List.intercalate` (as is the `joinWith` of `Tuc.Lemmas.Split`) -/
theorem Spec.joinWith_eq_intercalate (sep : Bytes) (xs : List Bytes) :
    Spec.joinWith sep xs = List.intercalate sep xs := by
  induction xs with
  | nil => simp [Spec.joinWith, List.intercalate]
  | cons x xs ih =>
    cases xs with
    | nil => simp [Spec.joinWith, List.intercalate]
    | cons y ys => rw [Spec.joinWith, ih]; simp [List.intercalate]

theorem Spec.joinWith_comma_ge (xs : List Bytes) (h : ∀ x ∈ xs, ∀ b ∈ x, (0x20 : UInt8) ≤ b) :
    ∀ b ∈ Spec.joinWith [0x2C] xs, (0x20 : UInt8) ≤ b := by
  intro b hb
  cases xs with
  | nil => simp [Spec.joinWith] at hb
  | cons x xs =>
    rw [joinWith_cons] at hb
    simp only [List.mem_append, List.mem_flatMap, List.mem_singleton] at hb
    rcases hb with hb | ⟨y, hy, rfl | hb⟩
    · exact h x (by simp) b hb
    · decide
    · exact h y (by simp [hy]) b hb

theorem jsonSkipWs_of_not_ws (b : UInt8) (t : Bytes) (h : jsonIsWs b = false) :
    jsonSkipWs (b :: t) = b :: t := by
  simp [jsonSkipWs, h]

theorem jsonString_eq_cons (s : Bytes) : jsonString s = 0x22 :: (s.flatMap jsonEscapeByte ++ [0x22]) := by
  simp [jsonString]

theorem jsonSkipWs_jsonString (s rest : Bytes) :
    jsonSkipWs (jsonString s ++ rest) = jsonString s ++ rest := by
  rw [jsonString_eq_cons, List.cons_append]
  exact jsonSkipWs_of_not_ws _ _ (by decide)

theorem jsonDecodeElems_tail (ps : List Bytes) (trail : Bytes) (htrail : jsonSkipWs trail = [])
    (fuel : Nat) (h : ps.length < fuel) :
    jsonDecodeElems fuel (ps.flatMap (fun p => 0x2C :: jsonString p) ++ 0x5D :: trail) = some ps := by
  induction ps generalizing fuel with
  | nil =>
    obtain ⟨f, rfl⟩ : ∃ f, fuel = f + 1 := ⟨fuel - 1, by omega⟩
    rw [List.flatMap_nil, List.nil_append, jsonDecodeElems, jsonSkipWs_of_not_ws _ _ (by decide)]
    simp [htrail]
  | cons p ps ih =>
    obtain ⟨f, rfl⟩ : ∃ f, fuel = f + 1 := ⟨fuel - 1, by omega⟩
    have hf : ps.length < f := by simp at h; omega
    rw [List.flatMap_cons, List.append_assoc, List.cons_append,
      jsonDecodeElems, jsonSkipWs_of_not_ws _ _ (by decide)]
    simp [jsonSkipWs_jsonString, jsonDecodeString_jsonString, ih f hf]

theorem jsonDecodeArray_cons (p R : Bytes) :
    jsonDecodeArray (0x5B :: (jsonString p ++ R)) =
      (jsonDecodeElems (0x5B :: (jsonString p ++ R)).length R).map (p :: ·) := by
  rw [jsonDecodeArray, jsonSkipWs_of_not_ws _ _ (by decide)]
  generalize (0x5B :: (jsonString p ++ R)).length = n
  simp only [if_true]
  rw [jsonSkipWs_jsonString]
  have hd := jsonDecodeString_jsonString p R
  rw [jsonString_eq_cons, List.cons_append] at hd ⊢
  simp only []
  rw [if_neg (by decide), hd]

private theorem length_le_flatMap_length {α β : Type} (f : α → List β) (l : List α) (h : ∀ a, 1 ≤ (f a).length) :
    l.length ≤ (l.flatMap f).length := by
  induction l with
  | nil => simp
  | cons a l ih =>
    have := h a
    simp only [List.flatMap_cons, List.length_append, List.length_cons]; omega

/-- **C08 (2), with what follows the array on the line**: trailing JSON whitespace (the LF or
    CRLF that ends the record) does not change what the reader gets. -/
theorem json_array_roundtrip_ws (parts : List Bytes) (trail : Bytes) (htrail : jsonSkipWs trail = []) :
    jsonDecodeArray ([0x5B] ++ Spec.joinWith [0x2C] (parts.map jsonString) ++ [0x5D] ++ trail) =
      some parts := by
  cases parts with
  | nil =>
    simp only [List.map_nil, Spec.joinWith, List.append_nil, List.cons_append, List.nil_append]
    rw [jsonDecodeArray, jsonSkipWs_of_not_ws _ _ (by decide)]
    simp only [if_true]
    rw [jsonSkipWs_of_not_ws _ _ (by decide)]
    simp [htrail]
  | cons p ps =>
    have hlen := length_le_flatMap_length (fun q => 0x2C :: jsonString q) ps (by intro a; simp)
    rw [List.map_cons, joinWith_cons, List.flatMap_map, List.singleton_append, List.cons_append,
      List.append_assoc, List.cons_append, List.append_assoc, List.append_assoc]
    simp only [List.singleton_append]
    rw [jsonDecodeArray_cons, jsonDecodeElems_tail _ _ htrail]
    · rfl
    · simp only [List.length_append, List.length_cons]; omega

/-- **C08 (2)** one array per record: the reader gets back every part exactly — any number of
    parts (none included), any content (the empty string included). -/
theorem json_array_roundtrip (parts : List Bytes) :
    jsonDecodeArray ([0x5B] ++ Spec.joinWith [0x2C] (parts.map jsonString) ++ [0x5D]) = some parts := by
  have := json_array_roundtrip_ws parts [] rfl
  rwa [List.append_nil] at this

/-! ## one record = one line; where the quotes are -/

theorem jsonEscapeByte_ge (b : UInt8) : ∀ c ∈ jsonEscapeByte b, 0x20 ≤ c := by
  revert b
  apply forall_byte
  decide +kernel

/-- **C08 (3a)** no raw control byte (no LF, no NUL, …) in what `--json` prints for a part -/
theorem jsonString_no_raw_control (s : Bytes) : ∀ b ∈ jsonString s, 0x20 ≤ b := by
  intro b hb
  simp only [jsonString, List.mem_append, List.mem_flatMap, List.mem_singleton] at hb
  rcases hb with (rfl | ⟨a, _, hc⟩) | rfl
  · decide
  · exact jsonEscapeByte_ge a b hc
  · decide

theorem jsonFirstUnescapedQuote_quote (t : Bytes) : jsonFirstUnescapedQuote (0x22 :: t) = some 0 := by
  rw [jsonFirstUnescapedQuote.eq_def]; simp

theorem jsonFirstUnescapedQuote_esc (e : UInt8) (t : Bytes) :
    jsonFirstUnescapedQuote (0x5C :: e :: t) = (jsonFirstUnescapedQuote t).map (· + 2) := by
  rw [jsonFirstUnescapedQuote.eq_def]; simp

theorem jsonFirstUnescapedQuote_raw (b : UInt8) (t : Bytes) (h1 : b ≠ 0x22) (h2 : b ≠ 0x5C) :
    jsonFirstUnescapedQuote (b :: t) = (jsonFirstUnescapedQuote t).map (· + 1) := by
  rw [jsonFirstUnescapedQuote.eq_def]; simp [h1, h2]

private theorem hexDigitLower_ne (n : Nat) : n < 16 → hexDigitLower n ≠ 0x22 ∧ hexDigitLower n ≠ 0x5C := by
  revert n
  decide

theorem jsonFirstUnescapedQuote_escape (b : UInt8) (more : Bytes) :
    jsonFirstUnescapedQuote (jsonEscapeByte b ++ more) =
      (jsonFirstUnescapedQuote more).map (· + (jsonEscapeByte b).length) := by
  unfold jsonEscapeByte
  split
  · exact jsonFirstUnescapedQuote_esc _ _
  split
  · exact jsonFirstUnescapedQuote_esc _ _
  split
  · exact jsonFirstUnescapedQuote_esc _ _
  split
  · exact jsonFirstUnescapedQuote_esc _ _
  split
  · exact jsonFirstUnescapedQuote_esc _ _
  split
  · exact jsonFirstUnescapedQuote_esc _ _
  split
  · exact jsonFirstUnescapedQuote_esc _ _
  split
  · have hd1 := hexDigitLower_ne (b.toNat / 16) (by have := b.toNat_lt; omega)
    have hd2 := hexDigitLower_ne (b.toNat % 16) (by omega)
    simp only [List.cons_append, List.nil_append]
    rw [jsonFirstUnescapedQuote_esc,
      jsonFirstUnescapedQuote_raw _ _ (by decide) (by decide),
      jsonFirstUnescapedQuote_raw _ _ (by decide) (by decide),
      jsonFirstUnescapedQuote_raw _ _ hd1.1 hd1.2,
      jsonFirstUnescapedQuote_raw _ _ hd2.1 hd2.2]
    cases jsonFirstUnescapedQuote more <;> simp
  · rename_i h1 h2 _ _ _ _ _ _
    exact jsonFirstUnescapedQuote_raw b more h1 h2

theorem jsonFirstUnescapedQuote_flatMap (s rest : Bytes) :
    jsonFirstUnescapedQuote (s.flatMap jsonEscapeByte ++ 0x22 :: rest) =
      some (s.flatMap jsonEscapeByte).length := by
  induction s with
  | nil => exact jsonFirstUnescapedQuote_quote rest
  | cons b s ih =>
    rw [List.flatMap_cons, List.append_assoc, jsonFirstUnescapedQuote_escape, ih]
    simp [Nat.add_comm]

/-- **C08 (3b)** the first byte is a `"`, and a lexer that starts after it (a `\` hides the next
    byte) meets its first unescaped `"` exactly at the last byte of `jsonString s`, whatever
    follows: the only unescaped quotes of the literal are its first and its last byte. -/
theorem jsonString_quotes (s rest : Bytes) :
    (jsonString s).head? = some 0x22 ∧
    jsonFirstUnescapedQuote ((jsonString s).tail ++ rest) = some ((jsonString s).length - 2) := by
  rw [jsonString_eq_cons]
  refine ⟨rfl, ?_⟩
  simp only [List.tail_cons, List.append_assoc, List.singleton_append, List.length_cons,
    List.length_append, List.length_nil]
  rw [jsonFirstUnescapedQuote_flatMap]
  simp

/-! ## the output loop under `--json` -/

/-- The text the output loop prints for a bound: the slice of the record it selects (with the
    delimiters inside it replaced), else its own fallback, else the global fallback; `none`
    where the loop fails or panics. -/
def boundText (line : Bytes) (fields : List Range) (numFields : Nat) (opt : Opt)
    (compressedWithRegex : Bool) (b : UserBounds) : Option Bytes :=
  match b.tryIntoRange numFields with
  | some (s, e) =>
    match fields[s]?, fields[e - 1]? with
    | some fs, some fe =>
      if fs.start ≤ fe.stop ∧ fe.stop ≤ line.length then
        some (maybeReplaceDelimiter (slice line fs.start fe.stop) opt compressedWithRegex)
      else none
    | _, _ => none
  | none =>
    match b.fallback with
    | some f => some f
    | none => opt.fallbackOob

/-- one iteration: the JSON string of the bound's text, then the joiner unless the bound is the
    last one -/
theorem outputBof_json (line : Bytes) (fields : List Range) (numFields : Nat) (opt : Opt)
    (cwr : Bool) (b : UserBounds) (t : Bytes) (hjson : opt.json = true)
    (ht : boundText line fields numFields opt cwr b = some t) (hv : validUtf8 t = true) :
    outputBof line fields numFields opt cwr (.bound b) =
      (Run.ok (jsonString t)).seq
        (if opt.join && !b.isLast then Run.ok (opt.replaceDelimiter.getD opt.delimiter)
         else Run.empty) := by
  unfold boundText at ht
  unfold outputBof
  split at ht
  · rename_i s e hr
    simp only [hr]
    split at ht
    · rename_i fs fe hs he
      simp only [hs, he]
      split at ht
      · rename_i hc
        cases ht
        simp [hc, writeMaybeAsJson, hjson, hv]
      · cases ht
    · cases ht
  · rename_i hr
    simp only [hr]
    split at ht
    · rename_i f hf
      cases ht
      simp [hf, writeMaybeAsJson, hjson, hv]
    · rename_i hf
      simp [hf, ht, writeMaybeAsJson, hjson, hv]

/-- **C08 (4)** shape of the output loop under `--json` (which implies `-j` and `-r ,`): for a
    list of bounds (no fillers) in which exactly the last one is flagged `isLast`, each of which
    yields a valid UTF-8 text `tᵢ` (its slice of the record or a fallback), the loop ends well
    and has written the JSON strings of the texts separated by single commas. -/
theorem outputLoop_json (line : Bytes) (fields : List Range) (numFields : Nat) (opt : Opt)
    (cwr : Bool) (us : List UserBounds) (ts : List Bytes)
    (hjson : opt.json = true) (hjoin : opt.join = true) (hrep : opt.replaceDelimiter = some [0x2C])
    (hlast : ∀ pre b suf, us = pre ++ b :: suf → (b.isLast = true ↔ suf = []))
    (htext : us.map (boundText line fields numFields opt cwr) = ts.map some)
    (hvalid : ∀ t ∈ ts, validUtf8 t = true) :
    outputLoop line fields numFields opt cwr (us.map BoF.bound) =
      Run.ok (Spec.joinWith [0x2C] (ts.map jsonString)) := by
  induction us generalizing ts with
  | nil =>
    cases ts with
    | nil => rfl
    | cons t ts => simp at htext
  | cons u us ih =>
    cases ts with
    | nil => simp at htext
    | cons t ts =>
      simp only [List.map_cons, List.cons.injEq] at htext
      have hv := hvalid t (by simp)
      have hlast' : ∀ pre b suf, us = pre ++ b :: suf → (b.isLast = true ↔ suf = []) := by
        intro pre b suf h
        exact hlast (u :: pre) b suf (by rw [h]; rfl)
      have ih' := ih ts hlast' htext.2 (fun t' h' => hvalid t' (by simp [h']))
      have hu := hlast [] u us rfl
      rw [List.map_cons, outputLoop, outputBof_json _ _ _ _ _ _ t hjson htext.1 hv, ih',
        List.map_cons, joinWith_cons]
      cases us with
      | nil =>
        have : u.isLast = true := hu.mpr rfl
        cases ts with
        | nil => simp [this, Run.seq, Run.ok, Run.empty, Spec.joinWith]
        | cons _ _ => simp at htext
      | cons u' us' =>
        have : u.isLast = false := by
          cases h : u.isLast
          · rfl
          · exact absurd (hu.mp h) (by simp)
        cases ts with
        | nil => simp at htext
        | cons t' ts' =>
          simp [this, hjoin, hrep, Run.seq, Run.ok, joinWith_cons]

/-- **C08 (4), whole record**: with no complement and nothing left to unpack, `emitRecord` writes
    `[`, the parts as JSON strings separated by commas, `]`, and the end of line. -/
theorem emitRecord_json (line : Bytes) (fields : List Range) (opt : Opt) (cwr : Bool) (eol : Bytes)
    (us : List UserBounds) (ts : List Bytes)
    (hjson : opt.json = true) (hjoin : opt.join = true) (hrep : opt.replaceDelimiter = some [0x2C])
    (hod : (opt.onlyDelimited && fields.length == 1) = false)
    (hcompl : opt.complement = false)
    (hbounds : opt.bounds.list = us.map BoF.bound)
    (hunpacked : ∀ u ∈ us, needsUnpack (.bound u) = false)
    (hlast : ∀ pre b suf, us = pre ++ b :: suf → (b.isLast = true ↔ suf = []))
    (htext : us.map (boundText line fields fields.length opt cwr) = ts.map some)
    (hvalid : ∀ t ∈ ts, validUtf8 t = true) :
    emitRecord line fields opt cwr eol =
      Run.ok ([0x5B] ++ Spec.joinWith [0x2C] (ts.map jsonString) ++ [0x5D] ++ eol) := by
  have hany : opt.bounds.list.any needsUnpack = false := by
    rw [hbounds, List.any_eq_false]
    intro x hx
    obtain ⟨u, hu, rfl⟩ := List.mem_map.mp hx
    simp [hunpacked u hu]
  have hloop := outputLoop_json line fields fields.length opt cwr us ts hjson hjoin hrep hlast htext hvalid
  unfold emitRecord
  simp only [hod, hjson, hcompl, hany, Bool.true_or, Bool.true_and, Bool.false_eq_true, if_false,
    if_true]
  simp only [hbounds, hloop]
  simp [Run.seq, Run.ok]

/-- **C08, record level**: under the hypotheses of `emitRecord_json`, what the record prints
    before its end of line is one JSON text without any raw control byte (so: one line), and
    the strict reader decodes it to exactly the selected parts. -/
theorem emitRecord_json_decodes (line : Bytes) (fields : List Range) (opt : Opt) (cwr : Bool)
    (eol : Bytes) (us : List UserBounds) (ts : List Bytes)
    (hjson : opt.json = true) (hjoin : opt.join = true) (hrep : opt.replaceDelimiter = some [0x2C])
    (hod : (opt.onlyDelimited && fields.length == 1) = false)
    (hcompl : opt.complement = false)
    (hbounds : opt.bounds.list = us.map BoF.bound)
    (hunpacked : ∀ u ∈ us, needsUnpack (.bound u) = false)
    (hlast : ∀ pre b suf, us = pre ++ b :: suf → (b.isLast = true ↔ suf = []))
    (htext : us.map (boundText line fields fields.length opt cwr) = ts.map some)
    (hvalid : ∀ t ∈ ts, validUtf8 t = true) :
    ∃ text : Bytes, emitRecord line fields opt cwr eol = Run.ok (text ++ eol) ∧
      jsonDecodeArray text = some ts ∧ ∀ b ∈ text, 0x20 ≤ b := by
  refine ⟨[0x5B] ++ Spec.joinWith [0x2C] (ts.map jsonString) ++ [0x5D],
    emitRecord_json line fields opt cwr eol us ts hjson hjoin hrep hod hcompl hbounds hunpacked
      hlast htext hvalid,
    json_array_roundtrip ts, ?_⟩
  intro b hb
  simp only [List.mem_append, List.mem_singleton] at hb
  rcases hb with (rfl | hb) | rfl
  · decide
  · exact joinWith_comma_ge (ts.map jsonString)
      (by intro x hx; obtain ⟨t, _, rfl⟩ := List.mem_map.mp hx; exact jsonString_no_raw_control t)
      b hb
  · decide

/-! ## concrete instances -/

/-- `a"\` U+0001 LF `é` `😎` -/
def c08Sample : Bytes := [0x61, 0x22, 0x5C, 0x01, 0x0A, 0xC3, 0xA9, 0xF0, 0x9F, 0x98, 0x8E]

-- "a\"\\\u0001\né😎"
example : jsonString c08Sample =
    [0x22, 0x61, 0x5C, 0x22, 0x5C, 0x5C, 0x5C, 0x75, 0x30, 0x30, 0x30, 0x31, 0x5C, 0x6E,
     0xC3, 0xA9, 0xF0, 0x9F, 0x98, 0x8E, 0x22] := by decide
example : jsonDecodeString (jsonString c08Sample ++ [0x2C, 0x78]) = some (c08Sample, [0x2C, 0x78]) := by
  decide
example : jsonFirstUnescapedQuote ((jsonString c08Sample).tail ++ [0x22, 0x22]) = some 19 := by decide
-- every control byte, DEL, a lone continuation byte, 0xFF: the round trip does not look at UTF-8
example : jsonDecodeString (jsonString ((List.range 34).map UInt8.ofNat ++ [0x7F, 0x80, 0xFF])) =
    some ((List.range 34).map UInt8.ofNat ++ [0x7F, 0x80, 0xFF], []) := by decide
example :
    jsonDecodeArray ([0x5B] ++ Spec.joinWith [0x2C] ([c08Sample, [], [0x2C], [0x5D, 0x22], [0x00, 0x1F, 0x7F]].map jsonString)
      ++ [0x5D]) = some [c08Sample, [], [0x2C], [0x5D, 0x22], [0x00, 0x1F, 0x7F]] := by decide
-- the empty array and the array of one empty string are different texts
example : [0x5B] ++ Spec.joinWith [0x2C] (([] : List Bytes).map jsonString) ++ [0x5D] = [0x5B, 0x5D] := by decide
example : [0x5B] ++ Spec.joinWith [0x2C] ([[]].map jsonString) ++ [0x5D] = [0x5B, 0x22, 0x22, 0x5D] := by decide

/-! the reader alone: escapes the encoder never writes, and strictness -/

-- "\u00e9\u20AC\ud83d\ude0e\/"x  ↦  é € 😎 /   (rest: x)
example : jsonDecodeString
    [0x22, 0x5C, 0x75, 0x30, 0x30, 0x65, 0x39, 0x5C, 0x75, 0x32, 0x30, 0x41, 0x43, 0x5C, 0x75, 0x64,
     0x38, 0x33, 0x64, 0x5C, 0x75, 0x64, 0x65, 0x30, 0x65, 0x5C, 0x2F, 0x22, 0x78] =
    some ([0xC3, 0xA9, 0xE2, 0x82, 0xAC, 0xF0, 0x9F, 0x98, 0x8E, 0x2F], [0x78]) := by decide
-- "\u000A\u000a": hex digits of either case
example : jsonDecodeString [0x22, 0x5C, 0x75, 0x30, 0x30, 0x30, 0x41, 0x5C, 0x75, 0x30, 0x30, 0x30, 0x61, 0x22] =
    some ([0x0A, 0x0A], []) := by decide
-- "\ud83d"  lone high surrogate
example : jsonDecodeString [0x22, 0x5C, 0x75, 0x64, 0x38, 0x33, 0x64, 0x22] = none := by decide
-- "\ude0e"  lone low surrogate
example : jsonDecodeString [0x22, 0x5C, 0x75, 0x64, 0x65, 0x30, 0x65, 0x22] = none := by decide
-- "\ud83dx"  high surrogate followed by something else
example : jsonDecodeString [0x22, 0x5C, 0x75, 0x64, 0x38, 0x33, 0x64, 0x78, 0x22] = none := by decide
-- "\x"  unknown escape
example : jsonDecodeString [0x22, 0x5C, 0x78, 0x22] = none := by decide
-- "\u00G0" and "\u12": not four hex digits
example : jsonDecodeString [0x22, 0x5C, 0x75, 0x30, 0x30, 0x47, 0x30, 0x22] = none := by decide
example : jsonDecodeString [0x22, 0x5C, 0x75, 0x31, 0x32, 0x22] = none := by decide
-- "a<LF>b"  raw control byte
example : jsonDecodeString [0x22, 0x61, 0x0A, 0x62, 0x22] = none := by decide
-- "abc  unterminated;  abc"  no opening quote
example : jsonDecodeString [0x22, 0x61, 0x62, 0x63] = none := by decide
example : jsonDecodeString [0x61, 0x62, 0x63, 0x22] = none := by decide
-- ␠[␠"a"␠,␠"","b\n"␠]␠<LF>
example : jsonDecodeArray
    [0x20, 0x5B, 0x20, 0x22, 0x61, 0x22, 0x20, 0x2C, 0x20, 0x22, 0x22, 0x2C, 0x22, 0x62, 0x5C, 0x6E,
     0x22, 0x20, 0x5D, 0x20, 0x0A] = some [[0x61], [], [0x62, 0x0A]] := by decide
-- ␠[<TAB>]<CR><LF>
example : jsonDecodeArray [0x20, 0x5B, 0x09, 0x5D, 0x0D, 0x0A] = some [] := by decide
-- ["a",]   ["a"]x   ["a" "b"]   ["a"   "a"   [1]   [["a"]]   []<NUL>
example : jsonDecodeArray [0x5B, 0x22, 0x61, 0x22, 0x2C, 0x5D] = none := by decide
example : jsonDecodeArray [0x5B, 0x22, 0x61, 0x22, 0x5D, 0x78] = none := by decide
example : jsonDecodeArray [0x5B, 0x22, 0x61, 0x22, 0x20, 0x22, 0x62, 0x22, 0x5D] = none := by decide
example : jsonDecodeArray [0x5B, 0x22, 0x61, 0x22] = none := by decide
example : jsonDecodeArray [0x22, 0x61, 0x22] = none := by decide
example : jsonDecodeArray [0x5B, 0x31, 0x5D] = none := by decide
example : jsonDecodeArray [0x5B, 0x5B, 0x22, 0x61, 0x22, 0x5D, 0x5D] = none := by decide
example : jsonDecodeArray [0x5B, 0x5D, 0x00] = none := by decide

end Tuc
