import Tuc.Model.TextLoops
import Tuc.Lemmas.Split
import Tuc.Lemmas.Total
/-!
# Tuc.Props.TextLoops — the loops of `cut_str.rs` refine the normal-form model

`Tuc.Model.TextLoops` follows the Rust text of `fill_with_fields_locations`,
`fill_with_fields_locations_greedy`, `compress_delimiter` and `trim` statement by statement
(checked slicing → `Outcome.panic`, `while` loops with fuel → `Outcome.hang`).  This file proves
that each of them computes exactly what the normal-form model of `Tuc.Model.Text` says, for
EVERY line and EVERY delimiter — the empty one and self-overlapping ones (`--` in `---`, `aba` in
`ababa`) included — and any previous content of the reused buffers:

* `fillWithFieldsLocationsLoop_refines`
* `fillWithFieldsLocationsGreedyLoop_refines`
* `compressDelimiterLoop_refines`
* `trimLoop_refines`

"`= .ok …`" says in particular: no slice out of bounds, no `usize` underflow, no cursor crossing
another one (`r_idx` below `idx` in the `Both` arm of `trim`), and the fuel `len + 1` given to every
`while` loop is never used up (the loops terminate).

Also: `findIterLoop_eq_findIter` — the literal `memmem::FindIter::next` collected is `findIter`
(every needle); `scanFrom_of_findFrom_none/some`, `findAux_leftmost` — `find` against `find_iter`.

Section 0 compares each pair by evaluation on all 3280 lines of at most 7 bytes over `{a,b,c}` ×
the delimiters `a`, `aa`, `ab`, `aba`, empty (16400 cases per function, ×3 kinds for `trim`), with
dirty buffers.
-/

namespace Tuc
open TextLoops

/-! ## 0. exhaustive executable comparison -/

namespace TextLoops

/-- every byte string of length exactly `n` over the alphabet -/
def linesOfLength (alphabet : Bytes) : Nat → List Bytes
  | 0 => [[]]
  | n + 1 => (linesOfLength alphabet n).flatMap fun l => alphabet.map fun c => c :: l

def testAlphabet : Bytes := [97, 98, 99]
/-- all lines of at most 7 bytes over `{a, b, c}` -/
def testLines : List Bytes := (List.range 8).flatMap (linesOfLength testAlphabet)
/-- `a`, `aa`, `ab`, `aba`, and the empty delimiter -/
def testDelimiters : List Bytes := [[97], [97, 97], [97, 98], [97, 98, 97], []]
/-- previous contents of the reused buffers -/
def dirtyRanges : List Range := [⟨7, 9⟩, ⟨0, 0⟩]
def dirtyBytes : Bytes := [120, 121]

end TextLoops

#guard testLines.length == 3280

#guard testLines.all fun line => testDelimiters.all fun d =>
  fillWithFieldsLocationsLoop dirtyRanges line d == .ok (fillWithFieldsLocations dirtyRanges line d)

#guard testLines.all fun line => testDelimiters.all fun d =>
  fillWithFieldsLocationsGreedyLoop dirtyRanges line d ==
    .ok (fillWithFieldsLocationsGreedy dirtyRanges line d)

#guard testLines.all fun line => testDelimiters.all fun d =>
  compressDelimiterLoop line d dirtyBytes == .ok (compressDelimiter line d dirtyBytes)

#guard testLines.all fun line => testDelimiters.all fun d =>
  [TrimKind.left, .right, .both].all fun k => trimLoop line k d == .ok (trimLiteral line k d)

#guard testLines.all fun line => testDelimiters.all fun d =>
  findIterLoop d line (line.length + 2) 0 == findIter d line

/-! self-overlapping delimiters, concretely (`-` = 45, `a` = 97, `b` = 98) -/

-- `--` in `---`: one occurrence at 0, the field after it is the last `-`
#guard fillWithFieldsLocationsGreedyLoop [] [45, 45, 45] [45, 45] == .ok [⟨0, 0⟩, ⟨2, 3⟩]
-- `aba` in `ababa`: one occurrence at 0, then `ba`
#guard fillWithFieldsLocationsGreedyLoop [] [97, 98, 97, 98, 97] [97, 98, 97] == .ok [⟨0, 0⟩, ⟨3, 5⟩]
#guard trimLoop [97, 98, 97, 98, 97] .both [97, 98, 97] == .ok [98, 97]
#guard trimLoop [97, 98, 97, 98, 97] .right [97, 98, 97] == .ok [97, 98]
#guard compressDelimiterLoop [45, 45, 45, 45, 45, 120] [45, 45] [] == .ok [45, 45, 45, 120]

/-! why the guards for the empty delimiter (cut_str.rs:55-59 and 177-180) are there: without
    them the loops would not advance -/

#guard greedySkip [97] [] 0 100 0 == .hang
#guard trimLeftWhile [97] [] 100 0 == .hang
#guard trimRightWhile [97] [] 100 1 == .hang


namespace TextLoops

@[simp] theorem bind_ok {α β : Type} (a : α) (f : α → Outcome β) : (Outcome.ok a).bind f = f a := rfl

theorem sliceFrom_ok {α : Type} (l : List α) {a : Nat} (h : a ≤ l.length) :
    sliceFrom l a = .ok (l.drop a) := by
  unfold sliceFrom; rw [if_pos h]

theorem sliceRange_ok {α : Type} (l : List α) {a b : Nat} (h1 : a ≤ b) (h2 : b ≤ l.length) :
    sliceRange l a b = .ok (slice l a b) := by
  unfold sliceRange; rw [if_pos ⟨h1, h2⟩]

theorem checkedSub_ok {x y : Nat} (h : y ≤ x) : checkedSub x y = .ok (x - y) := by
  unfold checkedSub; rw [if_pos h]

/-! ## 1. `fill_with_fields_locations` -/

theorem fillFor_cons (dlen idx : Nat) (t : List Nat) (buffer : List Range) (prev : Nat) :
    fillFor dlen (idx :: t) buffer prev = fillFor dlen t (buffer ++ [⟨prev, idx⟩]) (idx + dlen) := rfl

theorem fillFor_eq (dlen len : Nat) :
    ∀ (ms : List Nat) (buffer : List Range) (prev : Nat),
      push (fillFor dlen ms buffer prev).1 ⟨(fillFor dlen ms buffer prev).2, len⟩ =
        buffer ++ rangesBetween dlen len prev ms := by
  intro ms
  induction ms with
  | nil => intro buffer prev; rfl
  | cons idx t ih =>
    intro buffer prev
    rw [fillFor_cons, ih]
    simp [rangesBetween]

end TextLoops

/-- **`fill_with_fields_locations`: the loop is the normal form**, for every line, every delimiter
    (the empty one included) and any previous content of the buffer; it cannot panic. -/
theorem fillWithFieldsLocationsLoop_refines (buffer : List Range) (line d : Bytes) :
    fillWithFieldsLocationsLoop buffer line d = .ok (fillWithFieldsLocations buffer line d) := by
  unfold fillWithFieldsLocationsLoop fillWithFieldsLocations
  by_cases hl : line.isEmpty = true
  · simp only [hl, if_true]; rfl
  · simp only [hl, Bool.false_eq_true, if_false]
    have := fillFor_eq d.length line.length (findIter d line) (clear buffer) 0
    simp only [clear, List.nil_append] at this
    rw [← this]
    rfl

namespace TextLoops

/-! ## 2. `compress_delimiter` -/

theorem compressFor_eq (line d : Bytes) :
    ∀ (ms : List Nat) (output : Bytes) (prev : Nat), MatchesIn d.length line.length prev ms →
      prev ≤ line.length →
      (compressFor line d ms output prev).bind (compressFinish line) =
        .ok (output ++ compressAux line d prev ms) := by
  intro ms
  induction ms with
  | nil =>
    intro output prev _ hp
    simp only [compressFor, bind_ok, compressFinish, compressAux]
    by_cases h : prev < line.length
    · rw [if_pos h, if_pos h, sliceFrom_ok line hp]; rfl
    · rw [if_neg h, if_neg h, List.append_nil]
  | cons idx t ih =>
    intro output prev hm hp
    obtain ⟨h1, h2, h3⟩ := hm
    have hidx : idx ≤ line.length := by omega
    simp only [compressFor, compressAux]
    rw [sliceRange_ok line h1 hidx, bind_ok, ih _ _ h3 h2]
    congr 1
    by_cases h0 : idx = 0
    · simp only [h0, if_true, extend, List.append_assoc]
    · simp only [h0, if_false]
      cases (slice line prev idx).isEmpty <;> simp [extend, List.append_assoc]

end TextLoops

/-- **`compress_delimiter`: the loop is the normal form**, for every line, every delimiter (the
    empty one included) and any previous content of the output buffer; the slicing
    `&line[prev_idx..idx]` cannot panic. -/
theorem compressDelimiterLoop_refines (line d output : Bytes) :
    compressDelimiterLoop line d output = .ok (compressDelimiter line d output) := by
  unfold compressDelimiterLoop compressDelimiter
  have := compressFor_eq line d (findIter d line) (clear output) 0 (findIter_in d line) (Nat.zero_le _)
  simpa [clear] using this

namespace TextLoops

/-! ## 3. `trim` -/

theorem trimStartFuel_of_not_prefix (d l : Bytes) (f : Nat) (h : ¬ d.isPrefixOf l = true) :
    trimStartFuel d f l = l := by
  cases f with
  | zero => rfl
  | succ f => simp only [trimStartFuel, if_neg h]

/-- the left loop: it stops at an `idx' ≤ len`, and what is left is `trimStartFuel` of what was
    there (any fuel `f'` of the normal form that covers the rest of the buffer) -/
theorem trimLeftWhile_spec (buffer d : Bytes) (hd : d ≠ []) :
    ∀ (n idx fuel f' : Nat), idx ≤ buffer.length → buffer.length - idx ≤ n → n < fuel → n ≤ f' →
      ∃ idx', trimLeftWhile buffer d fuel idx = .ok idx' ∧ idx ≤ idx' ∧ idx' ≤ buffer.length ∧
        buffer.drop idx' = trimStartFuel d f' (buffer.drop idx) := by
  have hdpos := length_pos_of_ne_nil hd
  intro n
  induction n with
  | zero =>
    intro idx fuel f' hidx hn hfuel _
    obtain ⟨fuel0, rfl⟩ : ∃ k, fuel = k + 1 := ⟨fuel - 1, by omega⟩
    have hnp : ¬ d.isPrefixOf (buffer.drop idx) = true := by
      intro hp
      have := (List.isPrefixOf_iff_prefix.mp hp).length_le
      simp only [List.length_drop] at this; omega
    refine ⟨idx, ?_, Nat.le_refl _, hidx, (trimStartFuel_of_not_prefix d _ f' hnp).symm⟩
    simp only [trimLeftWhile, sliceFrom_ok buffer hidx, bind_ok, if_neg hnp]
  | succ n ih =>
    intro idx fuel f' hidx hn hfuel hf'
    obtain ⟨fuel0, rfl⟩ : ∃ k, fuel = k + 1 := ⟨fuel - 1, by omega⟩
    by_cases hp : d.isPrefixOf (buffer.drop idx) = true
    · have hlen := (List.isPrefixOf_iff_prefix.mp hp).length_le
      simp only [List.length_drop] at hlen
      obtain ⟨f0, rfl⟩ : ∃ k, f' = k + 1 := ⟨f' - 1, by omega⟩
      obtain ⟨idx', h1, h2, h3, h4⟩ := ih (idx + d.length) fuel0 f0 (by omega) (by omega) (by omega)
        (by omega)
      refine ⟨idx', ?_, by omega, h3, ?_⟩
      · simp only [trimLeftWhile, sliceFrom_ok buffer hidx, bind_ok, if_pos hp]
        exact h1
      · rw [h4]
        simp only [trimStartFuel, if_pos hp, List.drop_drop]
    · refine ⟨idx, ?_, Nat.le_refl _, hidx, (trimStartFuel_of_not_prefix d _ f' hp).symm⟩
      simp only [trimLeftWhile, sliceFrom_ok buffer hidx, bind_ok, if_neg hp]

/-- the left loop from the start of the buffer, with the fuel the entry point gives -/
theorem trimLeftWhile_eq (buffer d : Bytes) (hd : d ≠ []) :
    ∃ idx, trimLeftWhile buffer d (buffer.length + 1) 0 = .ok idx ∧ idx ≤ buffer.length ∧
      buffer.drop idx = trimStart d buffer := by
  obtain ⟨idx, h1, _, h3, h4⟩ := trimLeftWhile_spec buffer d hd buffer.length 0 (buffer.length + 1)
    buffer.length (Nat.zero_le _) (by omega) (by omega) (Nat.le_refl _)
  exact ⟨idx, h1, h3, by simpa [trimStart] using h4⟩

theorem slice_take_sub {α : Type} (l : List α) {s e k : Nat} (h : k ≤ e - s) (he : e ≤ l.length) :
    (slice l s e).take ((slice l s e).length - k) = slice l s (e - k) := by
  unfold slice
  rw [List.take_take]
  congr 1
  simp only [List.length_take, List.length_drop]
  omega

/-- the right loop of the `Both` arm (the `Right` arm is the case `idx = 0`): `r_idx` never goes
    below `idx`, the subtraction never underflows, and what is left is the normal form -/
theorem trimBothRightWhile_spec (buffer d : Bytes) (hd : d ≠ []) (idx : Nat) :
    ∀ (n rIdx fuel f' : Nat), idx ≤ rIdx → rIdx ≤ buffer.length → rIdx - idx ≤ n → n < fuel →
      n ≤ f' →
      ∃ r', trimBothRightWhile buffer d idx fuel rIdx = .ok r' ∧ idx ≤ r' ∧ r' ≤ rIdx ∧
        (slice buffer idx r').reverse = trimStartFuel d.reverse f' (slice buffer idx rIdx).reverse := by
  have hdpos := length_pos_of_ne_nil hd
  intro n
  induction n with
  | zero =>
    intro rIdx fuel f' h1 h2 hn hfuel _
    obtain ⟨fuel0, rfl⟩ : ∃ k, fuel = k + 1 := ⟨fuel - 1, by omega⟩
    have hnp : ¬ d.isSuffixOf (slice buffer idx rIdx) = true := by
      intro hp
      have := (List.isSuffixOf_iff_suffix.mp hp).length_le
      rw [slice_length] at this; omega
    refine ⟨rIdx, ?_, h1, Nat.le_refl _, (trimStartFuel_of_not_prefix _ _ f' hnp).symm⟩
    simp only [trimBothRightWhile, sliceRange_ok buffer h1 h2, bind_ok, if_neg hnp]
  | succ n ih =>
    intro rIdx fuel f' h1 h2 hn hfuel hf'
    obtain ⟨fuel0, rfl⟩ : ∃ k, fuel = k + 1 := ⟨fuel - 1, by omega⟩
    by_cases hp : d.isSuffixOf (slice buffer idx rIdx) = true
    · have hlen := (List.isSuffixOf_iff_suffix.mp hp).length_le
      rw [slice_length] at hlen
      have hk : d.length ≤ rIdx - idx := by omega
      obtain ⟨f0, rfl⟩ : ∃ k, f' = k + 1 := ⟨f' - 1, by omega⟩
      obtain ⟨r', e1, e2, e3, e4⟩ := ih (rIdx - d.length) fuel0 f0 (by omega) (by omega) (by omega)
        (by omega) (by omega)
      refine ⟨r', ?_, e2, by omega, ?_⟩
      · simp only [trimBothRightWhile, sliceRange_ok buffer h1 h2, bind_ok, if_pos hp,
          checkedSub_ok (show d.length ≤ rIdx by omega)]
        exact e1
      · rw [e4]
        have hp' : d.reverse.isPrefixOf (slice buffer idx rIdx).reverse = true := hp
        simp only [trimStartFuel, if_pos hp', List.length_reverse, List.drop_reverse,
          slice_take_sub buffer hk h2]
    · refine ⟨rIdx, ?_, h1, Nat.le_refl _, (trimStartFuel_of_not_prefix _ _ f' hp).symm⟩
      simp only [trimBothRightWhile, sliceRange_ok buffer h1 h2, bind_ok, if_neg hp]

/-- the right loop from the end of the buffer, with the fuel the entry point gives -/
theorem trimBothRightWhile_eq (buffer d : Bytes) (hd : d ≠ []) (idx : Nat) (hidx : idx ≤ buffer.length) :
    ∃ r', trimBothRightWhile buffer d idx (buffer.length + 1) buffer.length = .ok r' ∧ idx ≤ r' ∧
      r' ≤ buffer.length ∧ slice buffer idx r' = trimEnd d (buffer.drop idx) := by
  obtain ⟨r', h1, h2, h3, h4⟩ := trimBothRightWhile_spec buffer d hd idx (buffer.length - idx)
    buffer.length (buffer.length + 1) (buffer.length - idx) hidx (Nat.le_refl _) (Nat.le_refl _)
    (by omega) (Nat.le_refl _)
  refine ⟨r', h1, h2, h3, ?_⟩
  rw [slice_to_end] at h4
  unfold trimEnd trimStart
  rw [← List.reverse_inj, List.reverse_reverse, h4]
  simp

theorem sliceTo_eq_sliceRange {α : Type} (l : List α) (b : Nat) : sliceTo l b = sliceRange l 0 b := by
  unfold sliceTo sliceRange slice
  simp

/-- the loop of the `Right` arm is the loop of the `Both` arm with `idx = 0` -/
theorem trimRightWhile_eq_both (buffer d : Bytes) :
    ∀ (fuel rIdx : Nat), trimRightWhile buffer d fuel rIdx = trimBothRightWhile buffer d 0 fuel rIdx := by
  intro fuel
  induction fuel with
  | zero => intro _; rfl
  | succ fuel ih =>
    intro rIdx
    simp only [trimRightWhile, trimBothRightWhile, sliceTo_eq_sliceRange, ih]

theorem trimBothArm_eq (buffer d : Bytes) (hd : d ≠ []) :
    trimBothArm buffer d = .ok (trimEnd d (trimStart d buffer)) := by
  obtain ⟨idx, h1, h2, h3⟩ := trimLeftWhile_eq buffer d hd
  obtain ⟨r', e1, e2, e3, e4⟩ := trimBothRightWhile_eq buffer d hd idx h2
  unfold trimBothArm
  simp only [h1, bind_ok, e1, sliceRange_ok buffer e2 e3, e4, h3]

theorem trimLeftArm_eq (buffer d : Bytes) (hd : d ≠ []) :
    trimLeftArm buffer d = .ok (trimStart d buffer) := by
  obtain ⟨idx, h1, h2, h3⟩ := trimLeftWhile_eq buffer d hd
  unfold trimLeftArm
  simp only [h1, bind_ok, sliceFrom_ok buffer h2, h3]

theorem trimRightArm_eq (buffer d : Bytes) (hd : d ≠ []) :
    trimRightArm buffer d = .ok (trimEnd d buffer) := by
  obtain ⟨r', e1, _, e3, e4⟩ := trimBothRightWhile_eq buffer d hd 0 (Nat.zero_le _)
  unfold trimRightArm
  simp only [trimRightWhile_eq_both, e1, bind_ok, sliceTo_eq_sliceRange,
    sliceRange_ok buffer (Nat.zero_le _) e3, e4, List.drop_zero]

end TextLoops

/-- **`trim`: the three arms are the normal form**, for every buffer and every delimiter (the
    empty one included); no slice is out of bounds, `r_idx -= delimiter.len()` never underflows
    and, in the `Both` arm, `r_idx` never crosses `idx`. -/
theorem trimLoop_refines (buffer : Bytes) (kind : TrimKind) (d : Bytes) :
    trimLoop buffer kind d = .ok (trimLiteral buffer kind d) := by
  unfold trimLoop trimLiteral
  by_cases hd : d = []
  · subst hd; rfl
  · simp only [isEmpty_eq_false_of_ne_nil hd, Bool.false_eq_true, if_false]
    cases kind with
    | left => exact trimLeftArm_eq buffer d hd
    | right => exact trimRightArm_eq buffer d hd
    | both => exact trimBothArm_eq buffer d hd

namespace TextLoops

/-! ## 4. `find` and `find_iter` -/

/-- stepping over `skip` bytes is scanning from `skip` bytes further on -/
theorem findIterAux_skip (d : Bytes) :
    ∀ (l : Bytes) (skip pos : Nat), skip ≤ l.length →
      findIterAux d skip pos l = findIterAux d 0 (pos + skip) (l.drop skip) := by
  intro l
  induction l with
  | nil =>
    intro skip pos h
    have : skip = 0 := by simpa using h
    subst this; rfl
  | cons c t ih =>
    intro skip pos h
    cases skip with
    | zero => rfl
    | succ k =>
      simp only [findIterAux, List.drop_succ_cons]
      rw [ih k (pos + 1) (by simpa using h)]
      have : pos + 1 + k = pos + (k + 1) := by omega
      rw [this]

/-- the scanner of `findIter`, started (outside a match) at offset `p` of `line` -/
def scanFrom (d line : Bytes) (p : Nat) : List Nat := findIterAux d 0 p (line.drop p)

theorem scanFrom_zero (d line : Bytes) : scanFrom d line 0 = findIter d line := rfl

theorem drop_succ_of_drop_cons {α : Type} {line t : List α} {c : α} {p : Nat}
    (h : line.drop p = c :: t) : line.drop (p + 1) = t := by
  have := congrArg (List.drop 1) h
  simpa [List.drop_drop] using this

/-- **`find` against `find_iter`**: when `find` (continued from offset `p`) finds nothing, the
    scanner reports nothing; when it finds `idx`, the needle is there, the scanner reports `idx`
    first and goes on from `idx + max(needle.len(), 1)` — if that is still inside the line. -/
theorem findAux_spec (d line : Bytes) :
    ∀ (l : Bytes) (p : Nat), line.drop p = l → p ≤ line.length →
      (findAux d p l = Option.none → findIterAux d 0 p l = []) ∧
      (∀ idx, findAux d p l = Option.some idx →
        p ≤ idx ∧ idx + d.length ≤ line.length ∧ d <+: line.drop idx ∧
        findIterAux d 0 p l = idx ::
          (if idx + max d.length 1 ≤ line.length then scanFrom d line (idx + max d.length 1) else [])) := by
  intro l
  induction l with
  | nil =>
    intro p hl hp
    have hlen : p = line.length := by
      have := List.drop_eq_nil_iff.mp hl; omega
    cases hd : d.isEmpty with
    | true =>
      have hd' : d = [] := by simpa using hd
      subst hd'
      refine ⟨by simp [findAux], ?_⟩
      intro idx h
      have : p = idx := by simpa [findAux] using h
      subst this
      refine ⟨Nat.le_refl _, by simp [hlen], List.nil_prefix, ?_⟩
      have : ¬ p + 1 ≤ line.length := by omega
      simp [findIterAux, this]
    | false =>
      refine ⟨by simp [findIterAux, hd], ?_⟩
      intro idx h
      simp [findAux, hd] at h
  | cons c t ih =>
    intro p hl hp
    have hlt : p < line.length := by
      have := congrArg List.length hl
      simp only [List.length_drop, List.length_cons] at this; omega
    have ht := drop_succ_of_drop_cons hl
    by_cases hpre : d.isPrefixOf (c :: t) = true
    · refine ⟨by simp [findAux, hpre], ?_⟩
      intro idx h
      have : p = idx := by simpa [findAux, hpre] using h
      subst this
      have hpf := List.isPrefixOf_iff_prefix.mp hpre
      have hdl : d.length ≤ t.length + 1 := by simpa using hpf.length_le
      have htl : t.length + 1 = line.length - p := by
        have := congrArg List.length hl
        simp only [List.length_drop, List.length_cons] at this; omega
      refine ⟨Nat.le_refl _, by omega, by rw [hl]; exact hpf, ?_⟩
      have hg : p + max d.length 1 ≤ line.length := by omega
      simp only [findIterAux, if_pos hpre, if_pos hg, scanFrom]
      rw [findIterAux_skip d t (d.length - 1) (p + 1) (by omega), ← ht, List.drop_drop]
      have : p + 1 + (d.length - 1) = p + max d.length 1 := by omega
      rw [this]
    · obtain ⟨ih1, ih2⟩ := ih (p + 1) ht (by omega)
      simp only [findAux, findIterAux, if_neg hpre]
      refine ⟨ih1, ?_⟩
      intro idx h
      obtain ⟨h1, h2, h3, h4⟩ := ih2 idx h
      exact ⟨by omega, h2, h3, h4⟩

/-- `find` reports the FIRST occurrence: none starts between `p` and what it reports, and none
    at all at or after `p` when it reports nothing -/
theorem findAux_leftmost (d line : Bytes) :
    ∀ (l : Bytes) (p : Nat), line.drop p = l →
      (∀ idx, findAux d p l = Option.some idx → ∀ j, p ≤ j → j < idx → ¬ d <+: line.drop j) ∧
      (findAux d p l = Option.none → ∀ j, p ≤ j → ¬ d <+: line.drop j) := by
  intro l
  induction l with
  | nil =>
    intro p hl
    refine ⟨?_, ?_⟩
    · intro idx h j h1 h2
      have : p = idx := by
        simp only [findAux] at h
        split at h
        · exact Option.some.inj h
        · cases h
      omega
    · intro h j hj hpre
      have hdj : line.drop j = [] := by
        have := List.drop_eq_nil_iff.mp hl
        exact List.drop_eq_nil_iff.mpr (by omega)
      rw [hdj] at hpre
      have : d = [] := List.prefix_nil.mp hpre
      subst this
      simp [findAux] at h
  | cons c t ih =>
    intro p hl
    have ht := drop_succ_of_drop_cons hl
    obtain ⟨ih1, ih2⟩ := ih (p + 1) ht
    by_cases hpre : d.isPrefixOf (c :: t) = true
    · refine ⟨?_, by simp [findAux, hpre]⟩
      intro idx h j h1 h2
      have : p = idx := by simpa [findAux, hpre] using h
      omega
    · have hnp : ¬ d <+: line.drop p := by
        rw [hl]; exact fun h => hpre (List.isPrefixOf_iff_prefix.mpr h)
      simp only [findAux, if_neg hpre]
      refine ⟨?_, ?_⟩
      · intro idx h j h1 h2
        by_cases hj : j = p
        · subst hj; exact hnp
        · exact ih1 idx h j (by omega) h2
      · intro h j h1
        by_cases hj : j = p
        · subst hj; exact hnp
        · exact ih2 h j (by omega)

theorem findAux_shift (d : Bytes) :
    ∀ (l : Bytes) (pos : Nat), findAux d pos l = (findAux d 0 l).map (· + pos) := by
  intro l
  induction l with
  | nil => intro pos; simp only [findAux]; split <;> simp
  | cons c t ih =>
    intro pos
    simp only [findAux]
    split
    · simp
    · rw [ih (pos + 1), ih (0 + 1), Option.map_map]
      congr 1
      funext x
      simp only [Function.comp]
      omega

theorem findFrom_eq (line d : Bytes) {p : Nat} (hp : p ≤ line.length) :
    findFrom line d p = findAux d p (line.drop p) := by
  unfold findFrom find
  rw [if_pos hp, findAux_shift d (line.drop p) p]

/-- `findFrom` against `findIter`, nothing found -/
theorem scanFrom_of_findFrom_none (d line : Bytes) {p : Nat} (hp : p ≤ line.length)
    (h : findFrom line d p = Option.none) : scanFrom d line p = [] := by
  rw [findFrom_eq line d hp] at h
  exact (findAux_spec d line _ p rfl hp).1 h

/-- `findFrom` against `findIter`, an occurrence found (any needle) -/
theorem scanFrom_of_findFrom_some (d line : Bytes) {p idx : Nat} (hp : p ≤ line.length)
    (h : findFrom line d p = Option.some idx) :
    p ≤ idx ∧ idx + d.length ≤ line.length ∧ d <+: line.drop idx ∧
      scanFrom d line p = idx ::
        (if idx + max d.length 1 ≤ line.length then scanFrom d line (idx + max d.length 1) else []) := by
  rw [findFrom_eq line d hp] at h
  exact (findAux_spec d line _ p rfl hp).2 idx h

/-- the same for a non-empty needle: the scanner goes on right after the occurrence -/
theorem scanFrom_of_findFrom_some' (d line : Bytes) (hd : d ≠ []) {p idx : Nat} (hp : p ≤ line.length)
    (h : findFrom line d p = Option.some idx) :
    p ≤ idx ∧ idx + d.length ≤ line.length ∧ d <+: line.drop idx ∧
      scanFrom d line p = idx :: scanFrom d line (idx + d.length) := by
  obtain ⟨h1, h2, h3, h4⟩ := scanFrom_of_findFrom_some d line hp h
  have hdpos := length_pos_of_ne_nil hd
  have hm : max d.length 1 = d.length := by omega
  rw [hm, if_pos h2] at h4
  exact ⟨h1, h2, h3, h4⟩

/-- an occurrence right at `p` is what `findFrom` finds -/
theorem findFrom_of_prefix (d line : Bytes) (hd : d ≠ []) {p : Nat} (hp : p ≤ line.length)
    (h : d.isPrefixOf (line.drop p) = true) : findFrom line d p = Option.some p := by
  rw [findFrom_eq line d hp]
  cases hl : line.drop p with
  | nil =>
    rw [hl] at h
    cases d with
    | nil => exact absurd rfl hd
    | cons _ _ => simp [List.isPrefixOf] at h
  | cons c t =>
    rw [hl] at h
    simp only [findAux, if_pos h]

/-- **the literal `memmem::FindIter` is `findIter`**, for every needle (the empty one included):
    with enough fuel for `len + 2` calls of `next`, the collected iterator is the list the
    normal-form model works with. -/
theorem findIterLoop_from (d line : Bytes) :
    ∀ (fuel p : Nat), p ≤ line.length → line.length - p + 2 ≤ fuel →
      findIterLoop d line fuel p = scanFrom d line p := by
  intro fuel
  induction fuel with
  | zero => intro p _ h; omega
  | succ fuel ih =>
    intro p hp hf
    simp only [findIterLoop, sliceFrom_ok line hp, Outcome.toOption]
    have hfe : findFrom line d p = (find (line.drop p) d).map (· + p) := by
      unfold findFrom; rw [if_pos hp]
    cases hfind : find (line.drop p) d with
    | none =>
      rw [hfind] at hfe
      exact (scanFrom_of_findFrom_none d line hp hfe).symm
    | some i =>
      rw [hfind] at hfe
      have hfe : findFrom line d p = Option.some (i + p) := hfe
      obtain ⟨h1, h2, _, h4⟩ := scanFrom_of_findFrom_some d line hp hfe
      simp only []
      rw [h4, Nat.add_comm p i]
      congr 1
      by_cases hg : i + p + max d.length 1 ≤ line.length
      · rw [if_pos hg]
        exact ih _ hg (by omega)
      · rw [if_neg hg]
        cases fuel with
        | zero => rfl
        | succ f =>
          simp only [findIterLoop, sliceFrom, if_neg hg, Outcome.toOption]

theorem findIterLoop_eq_findIter (d line : Bytes) :
    findIterLoop d line (line.length + 2) 0 = findIter d line :=
  findIterLoop_from d line _ 0 (Nat.zero_le _) (by omega)


/-! ## 5. `fill_with_fields_locations_greedy` -/

/-- an occurrence right at `p`: the scanner reports it and goes on after it -/
theorem scanFrom_of_prefix (d line : Bytes) (hd : d ≠ []) {p : Nat} (hp : p ≤ line.length)
    (h : d.isPrefixOf (line.drop p) = true) :
    p + d.length ≤ line.length ∧ scanFrom d line p = p :: scanFrom d line (p + d.length) := by
  obtain ⟨_, h2, _, h4⟩ := scanFrom_of_findFrom_some' d line hd hp (findFrom_of_prefix d line hd hp h)
  exact ⟨h2, h4⟩

/-- the inner loop (cut_str.rs:81-83): it stays inside the line, stops where no occurrence
    starts, and the occurrences it steps over are those the normal form merges -/
theorem greedySkip_spec (line d : Bytes) (hd : d ≠ []) :
    ∀ (fuel q : Nat), q ≤ line.length → line.length - q < fuel →
      ∃ q', greedySkip line d d.length fuel q = .ok q' ∧ q ≤ q' ∧ q' ≤ line.length ∧
        ¬ d.isPrefixOf (line.drop q') = true ∧
        rangesBetweenGreedy d.length line.length true q (scanFrom d line q) =
          rangesBetweenGreedy d.length line.length true q' (scanFrom d line q') := by
  have hdpos := length_pos_of_ne_nil hd
  intro fuel
  induction fuel with
  | zero => intro q _ h; omega
  | succ fuel ih =>
    intro q hq hf
    by_cases hp : d.isPrefixOf (line.drop q) = true
    · obtain ⟨h1, h2⟩ := scanFrom_of_prefix d line hd hq hp
      obtain ⟨q', e1, e2, e3, e4, e5⟩ := ih (q + d.length) h1 (by omega)
      refine ⟨q', ?_, by omega, e3, e4, ?_⟩
      · simp only [greedySkip, sliceFrom_ok line hq, bind_ok, if_pos hp]
        exact e1
      · rw [h2, ← e5]
        simp only [rangesBetweenGreedy, and_self, if_true]
    · refine ⟨q, ?_, Nat.le_refl _, hq, hp, rfl⟩
      simp only [greedySkip, sliceFrom_ok line hq, bind_ok, if_neg hp]

/-- the outer loop (cut_str.rs:70-84) and the final push (86-89): from a state
    `(buffer, prev_part_start)` where no occurrence starts at `prev_part_start` (or no occurrence
    has been seen yet), the ranges appended are those of the normal form -/
theorem greedyWhile_spec (line d : Bytes) (hd : d ≠ []) :
    ∀ (fuel p : Nat) (buffer : List Range) (am : Bool), p ≤ line.length → line.length - p < fuel →
      (am = true → ¬ d.isPrefixOf (line.drop p) = true) →
      (greedyWhile line d d.length fuel buffer p).bind (greedyFinish line) =
        .ok (buffer ++ rangesBetweenGreedy d.length line.length am p (scanFrom d line p)) := by
  have hdpos := length_pos_of_ne_nil hd
  intro fuel
  induction fuel with
  | zero => intro p _ _ _ h; omega
  | succ fuel ih =>
    intro p buffer am hp hf ham
    have hfe : findFrom line d p = (find (line.drop p) d).map (· + p) := by
      unfold findFrom; rw [if_pos hp]
    simp only [greedyWhile, sliceFrom_ok line hp, bind_ok]
    cases hfind : find (line.drop p) d with
    | none =>
      rw [hfind] at hfe
      rw [scanFrom_of_findFrom_none d line hp hfe]
      rfl
    | some i =>
      rw [hfind] at hfe
      have hfe : findFrom line d p = Option.some (i + p) := hfe
      obtain ⟨h1, h2, h3, h4⟩ := scanFrom_of_findFrom_some' d line hd hp hfe
      obtain ⟨q', e1, e2, e3, e4, e5⟩ := greedySkip_spec line d hd (line.length + 1) (i + p + d.length)
        h2 (by omega)
      have hne : ¬ (am = true ∧ i + p = p) := by
        intro ⟨ha, hi⟩
        apply ham ha
        rw [hi] at h3
        exact List.isPrefixOf_iff_prefix.mpr h3
      simp only [e1, bind_ok]
      rw [ih q' _ true e3 (by omega) (fun _ => e4), h4]
      simp only [rangesBetweenGreedy, if_neg hne, push, e5, List.append_assoc, List.singleton_append]

end TextLoops

/-- **`fill_with_fields_locations_greedy`: the loops are the normal form**, for every line, every
    delimiter (the empty one and self-overlapping ones included) and any previous content of the
    buffer; `line[prev_part_start..]` is never out of bounds and the loops terminate. -/
theorem fillWithFieldsLocationsGreedyLoop_refines (buffer : List Range) (line d : Bytes) :
    fillWithFieldsLocationsGreedyLoop buffer line d =
      .ok (fillWithFieldsLocationsGreedy buffer line d) := by
  unfold fillWithFieldsLocationsGreedyLoop fillWithFieldsLocationsGreedy
  by_cases hd : d = []
  · subst hd
    simp only [List.isEmpty_nil, if_true]
    exact fillWithFieldsLocationsLoop_refines buffer line []
  · simp only [isEmpty_eq_false_of_ne_nil hd, Bool.false_eq_true, if_false]
    by_cases hl : line.isEmpty = true
    · simp only [hl, if_true]; rfl
    · simp only [hl, Bool.false_eq_true, if_false]
      have := greedyWhile_spec line d hd (line.length + 1) 0 (clear buffer) false (Nat.zero_le _)
        (by omega) (by simp)
      simpa [clear, scanFrom_zero] using this

end Tuc
