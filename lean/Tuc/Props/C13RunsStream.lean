import Tuc.Props.C13Runs
import Tuc.Props.C03Parsed
/-!
# C13 at the level of runs — `-M` (fixed memory)

(Separate from `Tuc.Props.C13RunsFast` for historical reasons: `Tuc.Props.C02` and
`Tuc.Props.C03Refine` once declared the same name; `Tuc.AllProps` now imports everything together.)
-/
namespace Tuc
open Tuc.Spec

/-- **C13, `-M`, the run**, for parsed bounds, any read segmentation, and inputs all of whose
    records are admissible (no requested closed range straddles the end of a record): a bound
    that does not resolve on some record and has no fallback at all fails the run, after the
    output of the records before it and of what the failing record printed before that bound. -/
theorem stream_never_silent (opt : Opt) (so : StreamOpt) (hso : streamOptOf opt = some so)
    (f : List Char) (hparse : boundsListOfString f = .ok opt.bounds) (segs : List Bytes)
    (hadm : ∀ r ∈ records opt.eol.byte segs.flatten,
      Admissible opt.bounds.list (r.count so.delimiter + 1))
    (before after : List Bytes) (r : Bytes)
    (hrec : records opt.eol.byte segs.flatten = before ++ r :: after)
    (tok : Tok) (pre post : List BoF) (b : UserBounds) (ht : recordTok (cfgOf opt) r = some tok)
    (hs : (opt.onlyDelimited && tok.numFields == 1) = false)
    (hb : opt.bounds.list = pre ++ .bound b :: post)
    (h : resolve b tok.numFields = none) (hf : b.fallback = none) (hg : opt.fallbackOob = none) :
    (cutBytesStream so segs).status = .fail ∧
    ((specRunRecords (cfgOf opt) before).status = .ok →
      (cutBytesStream so segs).out =
        (specRunRecords (cfgOf opt) before).out ++
          (openBracket (cfgOf opt) ++
            (emitThen (cfgOf opt) tok (specSep (cfgOf opt)) (specJoiner (cfgOf opt))
              (rewriteList (cfgOf opt) tok.numFields pre)).out)) := by
  rw [stream_refines_spec_of_parsed opt so hso f hparse segs hadm]
  exact specRun_fails_at (cfgOf opt) segs.flatten before after r hrec tok pre post b ht hs hb h hf hg

end Tuc
