import Tuc.Props.C03Refine
import Tuc.Lemmas.CutStrSpec
import Tuc.Props.C18
/-!
# C03, end to end — `-M` equals the specification for everything the command line can build

`stream_refines_spec` (Tuc/Props/C03Refine.lean) takes three facts about the bounds as hypotheses:
no two literal texts in a row, well-formed ranges, `is_last` on the last bound.  Here they are
discharged for every bounds list that `UserBoundsList::from_str` (`boundsListOfString`) returns:
`boundsListOfString_noAdj` (C04), `boundsListOfString_good` (Lemmas/CutStrSpec: `LastMarked`),
and `accepted_wellformed` (C18) pushed through the scanner with the generic invariant lemma
`parseBoundsList_all` and through `fromVec` / `markLast`, which only touch `isLast`.
-/
namespace Tuc
open Tuc.Spec

/-- what `UserBounds::from_str` guarantees of the two sides of a bound (C18) -/
def RangeWF (b : UserBounds) : Prop :=
  b.l ≠ .some 0 ∧ b.r ≠ .some 0 ∧
    ∀ x y, b.l = .some x → b.r = .some y → sameSign x y = true → x ≤ y

theorem parseUserBounds_rangeWF (s : List Char) (b : UserBounds)
    (h : parseUserBounds s = some b) : RangeWF b := by
  obtain ⟨h1, h2, _, _, h5, _⟩ := accepted_wellformed s b h
  exact ⟨h1, h2, h5⟩

/-- `RangeWF` does not look at `isLast`, so it survives `markLast` -/
theorem rangeWF_of_eraseLast_eq {l l' : List BoF} (h : l'.map eraseLast = l.map eraseLast)
    (hl : AllBounds RangeWF l) : AllBounds RangeWF l' := by
  intro b hb
  have : eraseLast (.bound b) ∈ l.map eraseLast := by
    rw [← h]; exact List.mem_map_of_mem hb
  obtain ⟨x, hx, hxe⟩ := List.mem_map.mp this
  cases x with
  | filler f => simp [eraseLast] at hxe
  | bound b0 =>
    have h0 := hl b0 hx
    simp only [eraseLast, BoF.bound.injEq, UserBounds.mk.injEq] at hxe
    obtain ⟨e1, e2, _⟩ := hxe
    unfold RangeWF at h0 ⊢
    rw [← e1, ← e2]
    exact h0

/-- every bound of an accepted `-f` argument is a well-formed range -/
theorem boundsListOfString_rangeWF (s : List Char) (ubl : UserBoundsList)
    (h : boundsListOfString s = .ok ubl) : AllBounds RangeWF ubl.list := by
  unfold boundsListOfString at h
  split at h
  · cases h
  · split at h
    · cases h
    · rename_i l hl
      split at h
      · cases h
      · have hall := parseBoundsList_all RangeWF parseUserBounds_rangeWF s l hl
        unfold fromVec at h
        cases hm : markLast l with
        | none => simp [hm] at h
        | some l' =>
          simp only [hm, Res.ok.injEq] at h
          subst h
          exact rangeWF_of_eraseLast_eq (markLast_eraseLast l l' hm) hall

theorem boundWF_of_rangeWF {b : UserBounds} (h : RangeWF b) : BoundWF b := by
  refine ⟨h.1, h.2.1, ?_⟩
  intro l r hl hr h0l h0r
  refine h.2.2 l r hl hr ?_
  simp [sameSign, h0l, h0r]

theorem lastOK_of_lastMarked : ∀ l : List BoF, LastMarked l → LastOK l
  | [], _ => trivial
  | .filler _ :: t, h => by
    simp only [LastMarked] at h; simp only [LastOK]; exact lastOK_of_lastMarked t h
  | .bound b :: t, h => by
    simp only [LastMarked] at h
    simp only [LastOK]
    refine ⟨?_, lastOK_of_lastMarked t h.2⟩
    by_cases hc : countBounds t = 0
    · simp [hc, h.1.2 hc]
    · have : b.isLast = false := by
        cases hb : b.isLast with
        | false => rfl
        | true => exact absurd (h.1.1 hb) hc
      simp [hc, this]

/-- **C03, end to end.**  For every option set that `-M` accepts whose bounds are what
    `UserBoundsList::from_str` returned for some `-f` argument `f`, every read segmentation, and
    every input all of whose records are admissible (no requested closed range straddles the end
    of the record): bytes written and exit status are those of the specification. -/
theorem stream_refines_spec_of_parsed (opt : Opt) (so : StreamOpt) (h : streamOptOf opt = some so)
    (f : List Char) (hparse : boundsListOfString f = .ok opt.bounds) (segs : List Bytes)
    (hadm : ∀ r ∈ records opt.eol.byte segs.flatten,
      Admissible opt.bounds.list (r.count so.delimiter + 1)) :
    cutBytesStream so segs = specRun (cfgOf opt) segs.flatten :=
  stream_refines_spec opt so h (boundsListOfString_noAdj f _ hparse)
    (fun b hb => boundWF_of_rangeWF (boundsListOfString_rangeWF f _ hparse b hb))
    (lastOK_of_lastMarked _ (boundsListOfString_good f _ hparse).2) segs hadm

/-- **C03 at the level of `main`.**  With `-M`, what `main` dispatches to is the specification's
    run, for parsed bounds and admissible inputs. -/
theorem dispatch_fixedMemory_eq_spec (opt : Opt) (so : StreamOpt) (h : streamOptOf opt = some so)
    (f : List Char) (hparse : boundsListOfString f = .ok opt.bounds) (segs : List Bytes)
    (hadm : ∀ r ∈ records opt.eol.byte segs.flatten,
      Admissible opt.bounds.list (r.count so.delimiter + 1)) :
    dispatch opt true segs = some (specRun (cfgOf opt) segs.flatten) := by
  unfold dispatch
  simp only [if_true, h]
  rw [stream_refines_spec_of_parsed opt so h f hparse segs hadm]

end Tuc
