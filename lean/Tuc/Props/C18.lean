import Tuc.Spec.Grammar
/-!
# C18 — the bounds mini-language is accepted, rejected and rendered as documented

The model's parser (`parseI32`, `parseUserBounds`, the look-ahead scanner `scan`,
`boundsListOfString`) against the grammar of `Tuc.Spec.Grammar` (`specInt`, `specBound`, lexer +
token parser, `specParse`).
-/
namespace Tuc
open Tuc.Spec

/-! ## 1. integers and single bounds -/

theorem digitVal_eq (c : Char) :
    digitVal c = if isAsciiDigit c then Option.some (c.toNat - 48) else Option.none := by
  unfold digitVal isAsciiDigit
  have h0 : ('0' ≤ c) ↔ 48 ≤ c.toNat := by
    show (('0':Char).val ≤ c.val) ↔ _
    rw [UInt32.le_iff_toNat_le]; rfl
  have h9 : (c ≤ '9') ↔ c.toNat ≤ 57 := by
    show (c.val ≤ ('9':Char).val) ↔ _
    rw [UInt32.le_iff_toNat_le]; rfl
  simp only [h0, h9, Bool.and_eq_true, decide_eq_true_eq]

theorem parseDigits_eq (ds : List Char) (acc : Nat) :
    parseDigits ds acc =
      if ds.all isAsciiDigit then
        Option.some (ds.foldl (fun acc c => 10 * acc + (c.toNat - 48)) acc) else Option.none := by
  induction ds generalizing acc with
  | nil => simp [parseDigits]
  | cons c t ih =>
    simp only [parseDigits, digitVal_eq, List.all_cons, List.foldl_cons]
    by_cases hc : isAsciiDigit c = true
    · simp only [hc, if_true, Bool.true_and, ih, Nat.mul_comm]
    · simp [hc]

/-- the unsigned part of `parseI32` -/
def parseMag (neg : Bool) (ds : List Char) : Option Int :=
  if ds.isEmpty then none else
  match parseDigits ds 0 with
  | none => none
  | some n =>
    let v : Int := if neg then -(n : Int) else (n : Int)
    if i32Min ≤ v ∧ v ≤ i32Max then some v else none

theorem parseMag_eq (neg : Bool) (ds : List Char) :
    parseMag neg ds =
      match (specNat ds).map (fun (n : Nat) => if neg then -(n : Int) else (n : Int)) with
      | some v => if inI32 v then some v else none
      | none => none := by
  unfold parseMag specNat
  cases ds with
  | nil => simp
  | cons c t =>
    rw [parseDigits_eq]
    by_cases h : (c :: t).all isAsciiDigit = true
    · simp only [h, List.isEmpty_cons, Bool.false_eq_true, if_false, if_true, ne_eq, reduceCtorEq,
        not_false_eq_true, and_self, Option.map_some, decimalValue, inI32, i32Min, i32Max,
        Bool.and_eq_true, decide_eq_true_eq]
      first | rfl | congr
    · simp [h]

theorem parseI32_unfold (s : List Char) :
    parseI32 s =
      match s with
      | [] => none
      | c :: t => if c = '-' then parseMag true t else if c = '+' then parseMag false t
                  else parseMag false s := by
  unfold parseI32 parseMag
  cases s with
  | nil => rfl
  | cons c t =>
    by_cases h1 : c = '-'
    · subst h1; rfl
    · by_cases h2 : c = '+'
      · subst h2; rfl
      · simp only [if_neg h1, if_neg h2]
        split
        · rename_i heq; cases heq; exact absurd rfl h1
        · rename_i heq; cases heq; exact absurd rfl h2
        · rfl

theorem parseI32_eq_spec (s : List Char) : parseI32 s = specInt s := by
  rw [parseI32_unfold]
  unfold specInt
  cases s with
  | nil => rfl
  | cons c t =>
    by_cases h1 : c = '-'
    · simp only [if_pos h1, parseMag_eq, if_true]; rfl
    · by_cases h2 : c = '+'
      · simp only [if_neg h1, if_pos h2, parseMag_eq, Bool.false_eq_true, if_false]; rfl
      · simp only [if_neg h1, if_neg h2, parseMag_eq, Bool.false_eq_true, if_false]; rfl
/-! ### splitting -/

theorem splitOnce_none (c : Char) (s : List Char) (h : splitOnce c s = none) :
    s.takeWhile (fun x => x != c) = s ∧ s.dropWhile (fun x => x != c) = [] := by
  induction s with
  | nil => simp
  | cons x t ih =>
    by_cases hx : x = c
    · simp [splitOnce, hx] at h
    · simp only [splitOnce, if_neg hx] at h
      cases hs : splitOnce c t with
      | some p => rw [hs] at h; cases h
      | none =>
        have := ih hs
        simp [hx, this.1, this.2]

theorem splitOnce_some (c : Char) (s a b : List Char) (h : splitOnce c s = Option.some (a, b)) :
    s.takeWhile (fun x => x != c) = a ∧ s.dropWhile (fun x => x != c) = c :: b := by
  induction s generalizing a b with
  | nil => simp [splitOnce] at h
  | cons x t ih =>
    by_cases hx : x = c
    · simp only [splitOnce, if_pos hx, Option.some.injEq, Prod.mk.injEq] at h
      simp [hx, h.1, h.2]
    · simp only [splitOnce, if_neg hx] at h
      cases hs : splitOnce c t with
      | none => rw [hs] at h; cases h
      | some p =>
        obtain ⟨a', b'⟩ := p
        rw [hs] at h
        simp only [Option.some.injEq, Prod.mk.injEq] at h
        have := ih a' b' hs
        simp [hx, this.1, this.2, ← h.1, ← h.2]

theorem cutAtFirst_eq (c : Char) (s : List Char) :
    cutAtFirst c s =
      match splitOnce c s with
      | Option.some (a, b) => (a, Option.some b)
      | Option.none => (s, Option.none) := by
  unfold cutAtFirst
  cases hs : splitOnce c s with
  | none => have := splitOnce_none c s hs; simp [this.1, this.2]
  | some p =>
    obtain ⟨a, b⟩ := p
    have := splitOnce_some c s a b hs; simp [this.1, this.2]

theorem findChar_none_pieces (sep : Char) (cur s : List Char) (h : findChar sep s = none) :
    piecesFrom sep cur s = [cur ++ s] := by
  induction s generalizing cur with
  | nil => simp [piecesFrom]
  | cons x t ih =>
    by_cases hx : x = sep
    · simp [findChar, hx] at h
    · simp only [findChar, if_neg hx, Option.map_eq_none_iff] at h
      simp only [piecesFrom, if_neg hx, ih _ h, List.append_assoc, List.singleton_append]

theorem findChar_some_pieces (sep : Char) (cur s : List Char) (idx : Nat)
    (h : findChar sep s = some idx) :
    piecesFrom sep cur s = (cur ++ s.take idx) :: piecesFrom sep [] (s.drop (idx + 1)) := by
  induction s generalizing cur idx with
  | nil => simp [findChar] at h
  | cons x t ih =>
    by_cases hx : x = sep
    · simp only [findChar, if_pos hx, Option.some.injEq] at h
      subst h
      simp [piecesFrom, hx]
    · simp only [findChar, if_neg hx, Option.map_eq_some_iff] at h
      obtain ⟨j, hj, rfl⟩ := h
      simp only [piecesFrom, if_neg hx, ih _ _ hj, List.append_assoc, List.singleton_append,
        List.take_succ_cons, List.drop_succ_cons]

theorem piecesFrom_cons (sep : Char) (cur s : List Char) :
    ∃ h r, piecesFrom sep cur s = h :: r := by
  induction s generalizing cur with
  | nil => exact ⟨cur, [], rfl⟩
  | cons x t ih =>
    by_cases hx : x = sep
    · exact ⟨cur, piecesFrom sep [] t, by simp [piecesFrom, hx]⟩
    · obtain ⟨h, r, e⟩ := ih (cur ++ [x])
      exact ⟨h, r, by simp [piecesFrom, hx, e]⟩

theorem findChar_some_split (c : Char) (s : List Char) (idx : Nat) (h : findChar c s = some idx) :
    s = s.take idx ++ c :: s.drop (idx + 1) ∧ idx < s.length := by
  induction s generalizing idx with
  | nil => simp [findChar] at h
  | cons x t ih =>
    by_cases hx : x = c
    · simp only [findChar, if_pos hx, Option.some.injEq] at h
      subst h; simp [hx]
    · simp only [findChar, if_neg hx, Option.map_eq_some_iff] at h
      obtain ⟨j, hj, rfl⟩ := h
      have := ih _ hj
      simp only [List.take_succ_cons, List.drop_succ_cons, List.cons_append, List.length_cons]
      exact ⟨by rw [← this.1], by omega⟩

theorem findChar_some_mem (c : Char) (s : List Char) (idx : Nat) (h : findChar c s = some idx) :
    c ∈ s := by
  have := (findChar_some_split c s idx h).1
  rw [this]; simp

/-! ### one bound -/

theorem specNat_none_of_mem (ds : List Char) (h : ':' ∈ ds) : specNat ds = none := by
  unfold specNat
  rw [if_neg]
  rintro ⟨_, hall⟩
  have := List.all_eq_true.mp hall ':' h
  revert this; decide

theorem specInt_none_of_mem (s : List Char) (h : ':' ∈ s) : specInt s = none := by
  unfold specInt
  cases s with
  | nil => rfl
  | cons c t =>
    by_cases h1 : c = '-'
    · have ht : ':' ∈ t := by
        rcases List.mem_cons.mp h with h | h
        · subst h1; exact absurd h (by decide)
        · exact h
      simp [h1, specNat_none_of_mem t ht]
    · by_cases h2 : c = '+'
      · have ht : ':' ∈ t := by
          rcases List.mem_cons.mp h with h | h
          · subst h2; exact absurd h (by decide)
          · exact h
        simp [h2, specNat_none_of_mem t ht]
      · simp [h1, h2, specNat_none_of_mem _ h]

theorem parseI32_none_of_findChar (s : List Char) (i : Nat) (h : findChar ':' s = Option.some i) :
    parseI32 s = none := by
  rw [parseI32_eq_spec]; exact specInt_none_of_mem s (findChar_some_mem _ _ _ h)

theorem specIndex_eq (s : List Char) :
    specIndex s = match parseI32 s with
      | Option.some v => if v = 0 then Option.none else Option.some v
      | Option.none => Option.none := by
  rw [parseI32_eq_spec]; rfl

theorem parseSide_cons (c : Char) (t : List Char) :
    parseSide (c :: t) = (parseI32 (c :: t)).map Side.some := rfl

theorem parseSide_ne_nil (s : List Char) (h : s ≠ []) :
    parseSide s = (parseI32 s).map Side.some := by
  cases s with
  | nil => exact absurd rfl h
  | cons c t => rfl

def mkBound (fb : Option Bytes) (p : Side × Side) : UserBounds :=
  { l := p.1, r := p.2, isLast := false, fallback := fb }

def finishBound (fb : Option Bytes) (sides : Option (Side × Side)) : Option UserBounds :=
  match sides with
  | none => none
  | some (l, r) =>
    if l = .some 0 then none
    else if r = .some 0 then none
    else
      match l, r with
      | .some left, .some right =>
        if right < left ∧ sameSign right left then none
        else some { l := l, r := r, isLast := false, fallback := fb }
      | _, _ => some { l := l, r := r, isLast := false, fallback := fb }

def sidesOf (s : List Char) : Option (Side × Side) :=
  match findChar ':' s with
  | none => (parseSide s).map fun x => (x, x)
  | some idx =>
    if idx = 0 then (parseSide (s.drop 1)).map fun r => (.cont, r)
    else if idx = s.length - 1 then (parseSide (s.take idx)).map fun l => (l, .cont)
    else
      match parseSide (s.take idx), parseSide (s.drop (idx + 1)) with
      | some l, some r => some (l, r)
      | _, _ => none

def rangeOf (fb : Option Bytes) (s : List Char) : Option UserBounds :=
  if s.isEmpty then none
  else if s = [':'] then none
  else finishBound fb (sidesOf s)

theorem parseUserBounds_unfold (s : List Char) :
    parseUserBounds s =
      match splitOnce '=' s with
      | Option.some (r, f) => rangeOf (Option.some (utf8 f)) r
      | Option.none => rangeOf Option.none s := by
  unfold parseUserBounds
  cases splitOnce '=' s with
  | none => rfl
  | some p => rfl

theorem sameSign_eq (a b : Int) : sameSign a b = sameSignP b a := by
  unfold sameSign sameSignP
  by_cases h1 : a > 0 <;> by_cases h2 : b > 0 <;> by_cases h3 : a < 0 <;> by_cases h4 : b < 0 <;>
    simp [h1, h2, h3, h4] <;> omega

theorem finishBound_same (fb : Option Bytes) (v : Int) :
    finishBound fb (Option.some (Side.some v, Side.some v)) =
      if v = 0 then Option.none else Option.some (mkBound fb (Side.some v, Side.some v)) := by
  by_cases hv : v = 0
  · simp [finishBound, hv]
  · simp [finishBound, hv, mkBound]

theorem finishBound_contL (fb : Option Bytes) (m : Int) :
    finishBound fb (Option.some (Side.cont, Side.some m)) =
      if m = 0 then Option.none else Option.some (mkBound fb (Side.cont, Side.some m)) := by
  by_cases hv : m = 0
  · simp [finishBound, hv]
  · simp [finishBound, hv, mkBound]

theorem finishBound_contR (fb : Option Bytes) (n : Int) :
    finishBound fb (Option.some (Side.some n, Side.cont)) =
      if n = 0 then Option.none else Option.some (mkBound fb (Side.some n, Side.cont)) := by
  by_cases hv : n = 0
  · simp [finishBound, hv]
  · simp [finishBound, hv, mkBound]

theorem finishBound_both (fb : Option Bytes) (n m : Int) :
    finishBound fb (Option.some (Side.some n, Side.some m)) =
      if n = 0 then Option.none else if m = 0 then Option.none
      else if sameSignP n m ∧ ¬ n ≤ m then Option.none
      else Option.some (mkBound fb (Side.some n, Side.some m)) := by
  by_cases hn : n = 0
  · simp [finishBound, hn]
  · by_cases hm : m = 0
    · simp [finishBound, hn, hm]
    · simp only [finishBound, Side.some.injEq, hn, hm, if_false, sameSign_eq, mkBound]
      by_cases hs : sameSignP n m = true
      · by_cases hlt : m < n
        · have : ¬ n ≤ m := by omega
          simp [hs, hlt, this]
        · have : n ≤ m := by omega
          simp [hs, hlt, this]
      · simp [hs]

theorem rangeOf_eq (fb : Option Bytes) (s : List Char) :
    rangeOf fb s = (specRange s).map (mkBound fb) := by
  unfold rangeOf specRange pieces sidesOf
  cases hf : findChar ':' s with
  | none =>
    rw [findChar_none_pieces _ _ _ hf]
    simp only [List.nil_append]
    cases s with
    | nil => simp [specIndex, specInt]
    | cons c t =>
      have hne : (c :: t) ≠ [':'] := by
        intro h; rw [h] at hf; simp [findChar] at hf
      simp only [List.isEmpty_cons, Bool.false_eq_true, if_false, if_neg hne, parseSide_cons,
        specIndex_eq]
      cases parseI32 (c :: t) with
      | none => simp [finishBound]
      | some v =>
        simp only [Option.map_some, finishBound_same]
        by_cases hv : v = 0 <;> simp [hv]
  | some idx =>
    obtain ⟨hsplit, hlen⟩ := findChar_some_split _ _ _ hf
    rw [findChar_some_pieces _ _ _ _ hf]
    simp only [List.nil_append]
    have hne : s.isEmpty = false := by
      cases s with
      | nil => simp at hlen
      | cons _ _ => rfl
    simp only [hne, Bool.false_eq_true, if_false]
    cases hf2 : findChar ':' (s.drop (idx + 1)) with
    | some j =>
      -- a second colon: three pieces or more
      have hp := parseI32_none_of_findChar _ _ hf2
      have hrne : s.drop (idx + 1) ≠ [] := by
        intro h; rw [h] at hf2; simp [findChar] at hf2
      have hps : parseSide (s.drop (idx + 1)) = none := by
        rw [parseSide_ne_nil _ hrne, hp]; rfl
      rw [findChar_some_pieces _ _ _ _ hf2]
      have hsne : s ≠ [':'] := by
        intro h; rw [h] at hf2 hf
        simp only [findChar, if_true, Option.some.injEq] at hf
        subst hf
        simp [findChar] at hf2
      rw [if_neg hsne]
      have hlen2 : ¬ idx = s.length - 1 := by
        intro h
        apply hrne
        apply List.drop_eq_nil_of_le; omega
      by_cases h0 : idx = 0
      · subst h0
        simp only [if_true]
        simp only [Nat.zero_add] at hps
        rw [hps]
        obtain ⟨h3, r3, hpc⟩ := piecesFrom_cons ':' [] (List.drop (j + 1) (List.drop (0 + 1) s))
        rw [hpc]; simp [finishBound]
      · rw [if_neg h0, if_neg hlen2, hps]
        obtain ⟨h3, r3, hpc⟩ := piecesFrom_cons ':' [] (List.drop (j + 1) (List.drop (idx + 1) s))
        rw [hpc]
        cases parseSide (List.take idx s) <;> simp [finishBound]
    | none =>
      rw [findChar_none_pieces _ _ _ hf2]
      simp only [List.nil_append]
      have hLnil : List.take idx s = [] ↔ idx = 0 := by
        rw [List.take_eq_nil_iff]
        constructor
        · rintro (h | h)
          · exact h
          · subst h; simp at hlen
        · intro h; exact Or.inl h
      have hRnil : List.drop (idx + 1) s = [] ↔ idx = s.length - 1 := by
        rw [List.drop_eq_nil_iff]; omega
      have hs1 : s = [':'] ↔ (idx = 0 ∧ idx = s.length - 1) := by
        constructor
        · intro h; subst h
          simp only [findChar, if_true, Option.some.injEq] at hf
          subst hf; simp
        · rintro ⟨h0, h1⟩
          have hR := hRnil.mpr h1
          have hL := hLnil.mpr h0
          rw [hsplit, hR, hL]; rfl
      by_cases h0 : idx = 0
      · by_cases h1 : idx = s.length - 1
        · have hR := hRnil.mpr h1
          have hL := hLnil.mpr h0
          rw [if_pos (hs1.mpr ⟨h0, h1⟩), hL, hR]; simp
        · have hR : ¬ List.drop (idx + 1) s = [] := fun h => h1 (hRnil.mp h)
          have hL := hLnil.mpr h0
          have hsne : ¬ s = [':'] := fun h => h1 (hs1.mp h).2
          rw [if_neg hsne, if_pos h0, hL]
          subst h0
          simp only [Nat.zero_add] at hR ⊢
          simp only [hR, and_false, if_false, if_true, parseSide_ne_nil _ hR, specIndex_eq]
          cases parseI32 (List.drop 1 s) with
          | none => simp [finishBound]
          | some m =>
            simp only [Option.map_some, finishBound_contL]
            by_cases hm : m = 0 <;> simp [hm]
      · have hL : ¬ List.take idx s = [] := fun h => h0 (hLnil.mp h)
        have hsne : ¬ s = [':'] := fun h => h0 (hs1.mp h).1
        rw [if_neg hsne, if_neg h0]
        by_cases h1 : idx = s.length - 1
        · have hR := hRnil.mpr h1
          rw [if_pos h1, hR]
          simp only [hL, false_and, if_false, if_true, parseSide_ne_nil _ hL, specIndex_eq]
          cases parseI32 (List.take idx s) with
          | none => simp [finishBound]
          | some n =>
            simp only [Option.map_some, finishBound_contR]
            by_cases hn : n = 0 <;> simp [hn]
        · have hR : ¬ List.drop (idx + 1) s = [] := fun h => h1 (hRnil.mp h)
          rw [if_neg h1]
          simp only [hL, hR, false_and, if_false, parseSide_ne_nil _ hL, parseSide_ne_nil _ hR,
            specIndex_eq]
          cases parseI32 (List.take idx s) with
          | none => simp [finishBound]
          | some n =>
            cases parseI32 (List.drop (idx + 1) s) with
            | none => simp [finishBound]
            | some m =>
              simp only [Option.map_some, finishBound_both]
              by_cases hn : n = 0
              · simp [hn]
              · by_cases hm : m = 0
                · simp [hn, hm]
                · simp only [hn, hm, if_false]
                  by_cases hc : sameSignP n m = true ∧ ¬ n ≤ m
                  · simp [hc]
                  · rw [if_neg hc, if_neg hc]; rfl

theorem parseUserBounds_eq_spec (s : List Char) : parseUserBounds s = specBound s := by
  rw [parseUserBounds_unfold]
  unfold specBound
  rw [cutAtFirst_eq]
  cases splitOnce '=' s with
  | none =>
    simp only [rangeOf_eq]
    cases specRange s with
    | none => rfl
    | some p => rfl
  | some p =>
    obtain ⟨r, f⟩ := p
    simp only [rangeOf_eq]
    cases specRange r with
    | none => rfl
    | some p => rfl

/-! ## 2. what an accepted bound looks like -/

/-- a written side fits an `i32` -/
def Side.InI32 : Side → Prop
  | .some v => i32Min ≤ v ∧ v ≤ i32Max
  | .cont => True

theorem inI32_filter (o : Option Int) (v : Int)
    (h : (match o with
          | Option.some w => if inI32 w then Option.some w else Option.none
          | Option.none => Option.none) = Option.some v) :
    i32Min ≤ v ∧ v ≤ i32Max := by
  cases o with
  | none => cases h
  | some w =>
    simp only at h
    by_cases hw : inI32 w = true
    · rw [if_pos hw] at h
      cases h
      simpa [inI32, i32Min, i32Max] using hw
    · rw [if_neg hw] at h; cases h

theorem specInt_inI32 (s : List Char) (v : Int) (h : specInt s = Option.some v) :
    i32Min ≤ v ∧ v ≤ i32Max := inI32_filter _ v h

theorem specIndex_some (s : List Char) (v : Int) (h : specIndex s = Option.some v) :
    v ≠ 0 ∧ i32Min ≤ v ∧ v ≤ i32Max := by
  unfold specIndex at h
  split at h
  · rename_i w hw
    by_cases h0 : w = 0
    · rw [if_pos h0] at h; cases h
    · rw [if_neg h0] at h; cases h
      exact ⟨h0, specInt_inI32 s _ hw⟩
  · cases h

/-- the well-formedness of a pair of sides -/
def WfSides (l r : Side) : Prop :=
  l ≠ .some 0 ∧ r ≠ .some 0 ∧ l.InI32 ∧ r.InI32 ∧
  (∀ x y, l = .some x → r = .some y → sameSign x y = true → x ≤ y) ∧
  ¬ (l = .cont ∧ r = .cont)

theorem specRange_wf (s : List Char) (l r : Side) (h : specRange s = Option.some (l, r)) :
    WfSides l r := by
  unfold specRange at h
  split at h
  · -- N
    rename_i n _
    cases hn : specIndex n with
    | none => rw [hn] at h; cases h
    | some v =>
      rw [hn] at h
      simp only [Option.map_some, Option.some.injEq, Prod.mk.injEq] at h
      obtain ⟨rfl, rfl⟩ := h
      obtain ⟨h0, hr⟩ := specIndex_some _ _ hn
      refine ⟨?_, ?_, hr, hr, ?_, ?_⟩
      · intro h; cases h; exact h0 rfl
      · intro h; cases h; exact h0 rfl
      · intro x y hx hy _; cases hx; cases hy; exact Int.le_refl _
      · rintro ⟨h, _⟩; cases h
  · rename_i a b _
    by_cases h1 : a = [] ∧ b = []
    · rw [if_pos h1] at h; cases h
    · rw [if_neg h1] at h
      by_cases h2 : a = []
      · rw [if_pos h2] at h
        cases hn : specIndex b with
        | none => rw [hn] at h; cases h
        | some v =>
          rw [hn] at h
          simp only [Option.map_some, Option.some.injEq, Prod.mk.injEq] at h
          obtain ⟨rfl, rfl⟩ := h
          obtain ⟨h0, hr⟩ := specIndex_some _ _ hn
          refine ⟨?_, ?_, trivial, hr, ?_, ?_⟩
          · intro h; cases h
          · intro h; cases h; exact h0 rfl
          · intro x y hx; cases hx
          · rintro ⟨_, h⟩; cases h
      · rw [if_neg h2] at h
        by_cases h3 : b = []
        · rw [if_pos h3] at h
          cases hn : specIndex a with
          | none => rw [hn] at h; cases h
          | some v =>
            rw [hn] at h
            simp only [Option.map_some, Option.some.injEq, Prod.mk.injEq] at h
            obtain ⟨rfl, rfl⟩ := h
            obtain ⟨h0, hr⟩ := specIndex_some _ _ hn
            refine ⟨?_, ?_, hr, trivial, ?_, ?_⟩
            · intro h; cases h; exact h0 rfl
            · intro h; cases h
            · intro x y _ hy; cases hy
            · rintro ⟨h, _⟩; cases h
        · rw [if_neg h3] at h
          cases hn : specIndex a with
          | none => rw [hn] at h; cases h
          | some n =>
            cases hm : specIndex b with
            | none => rw [hn, hm] at h; cases h
            | some m =>
              rw [hn, hm] at h
              simp only at h
              by_cases hc : sameSignP n m = true ∧ ¬ n ≤ m
              · rw [if_pos hc] at h; cases h
              · rw [if_neg hc] at h
                simp only [Option.some.injEq, Prod.mk.injEq] at h
                obtain ⟨rfl, rfl⟩ := h
                obtain ⟨hn0, hnr⟩ := specIndex_some _ _ hn
                obtain ⟨hm0, hmr⟩ := specIndex_some _ _ hm
                refine ⟨?_, ?_, hnr, hmr, ?_, ?_⟩
                · intro h; cases h; exact hn0 rfl
                · intro h; cases h; exact hm0 rfl
                · intro x y hx hy hs; cases hx; cases hy
                  rw [sameSign_eq] at hs
                  have hs' : sameSignP n m = true := by
                    unfold sameSignP at hs ⊢
                    simp only [Bool.or_eq_true, Bool.and_eq_true, decide_eq_true_eq] at hs ⊢
                    omega
                  exact Decidable.byContradiction fun hle => hc ⟨hs', hle⟩
                · rintro ⟨h, _⟩; cases h
  · cases h

/-- **C18 (one bound, soundness).**  Whatever `UserBounds::from_str` accepts has non-zero sides
    inside `i32`, a same-sign range that does not decrease, and at least one written side. -/
theorem accepted_wellformed (s : List Char) (b : UserBounds) (h : parseUserBounds s = Option.some b) :
    b.l ≠ .some 0 ∧ b.r ≠ .some 0 ∧ b.l.InI32 ∧ b.r.InI32 ∧
    (∀ x y, b.l = .some x → b.r = .some y → sameSign x y = true → x ≤ y) ∧
    ¬ (b.l = .cont ∧ b.r = .cont) := by
  rw [parseUserBounds_eq_spec] at h
  unfold specBound at h
  cases hr : specRange (cutAtFirst '=' s).1 with
  | none => simp [hr] at h
  | some p =>
    obtain ⟨l, r⟩ := p
    simp only [hr, Option.some.injEq] at h
    subst h
    exact specRange_wf _ l r hr

theorem accepted_isLast_false (s : List Char) (b : UserBounds)
    (h : parseUserBounds s = Option.some b) : b.isLast = false := by
  rw [parseUserBounds_eq_spec] at h
  unfold specBound at h
  cases hr : specRange (cutAtFirst '=' s).1 with
  | none => simp [hr] at h
  | some p =>
    obtain ⟨l, r⟩ := p
    simp only [hr, Option.some.injEq] at h
    subst h; rfl
/-! ## 3. `from_str` never panics and always delivers a bound -/

theorem markLast_none (l : List BoF) : markLast l = none ↔ boundsOnly l = [] := by
  induction l with
  | nil => simp [markLast, boundsOnly]
  | cons x t ih =>
    cases x with
    | filler f => simp [markLast, boundsOnly, ih]
    | bound b =>
      simp only [markLast, boundsOnly]
      cases markLast t <;> simp

theorem markLast_some_bounds (l l' : List BoF) (h : markLast l = Option.some l') :
    boundsOnly l' ≠ [] := by
  induction l generalizing l' with
  | nil => simp [markLast] at h
  | cons x t ih =>
    cases x with
    | filler f =>
      simp only [markLast, Option.map_eq_some_iff] at h
      obtain ⟨t', ht, rfl⟩ := h
      simpa [boundsOnly] using ih t' ht
    | bound b =>
      simp only [markLast] at h
      cases hm : markLast t with
      | none => rw [hm] at h; cases h; simp [boundsOnly]
      | some t' => rw [hm] at h; cases h; simp [boundsOnly]

/-- **C18/C12.**  The `expect("… at least one UserBounds")` of `From<Vec<BoundOrFiller>>` is
    unreachable from `UserBoundsList::from_str`. -/
theorem boundsListOfString_never_panics (s : List Char) : boundsListOfString s ≠ .panic := by
  unfold boundsListOfString
  by_cases hw : s.all isWhitespace = true
  · rw [if_pos hw]; intro h; cases h
  · rw [if_neg hw]
    cases hp : parseBoundsList s with
    | none => intro h; cases h
    | some l =>
      simp only
      by_cases he : (boundsOnly l).isEmpty = true
      · rw [if_pos he]; intro h; cases h
      · rw [if_neg he]
        unfold fromVec
        cases hm : markLast l with
        | none =>
          have := (markLast_none l).mp hm
          rw [this] at he; exact absurd rfl he
        | some l' => intro h; cases h

/-- an accepted bounds argument contains at least one bound -/
theorem boundsListOfString_ok_has_bound (s : List Char) (l : UserBoundsList)
    (h : boundsListOfString s = .ok l) : boundsOnly l.list ≠ [] := by
  unfold boundsListOfString at h
  by_cases hw : s.all isWhitespace = true
  · rw [if_pos hw] at h; cases h
  · rw [if_neg hw] at h
    cases hp : parseBoundsList s with
    | none => rw [hp] at h; cases h
    | some l0 =>
      rw [hp] at h
      simp only at h
      by_cases he : (boundsOnly l0).isEmpty = true
      · rw [if_pos he] at h; cases h
      · rw [if_neg he] at h
        unfold fromVec at h
        cases hm : markLast l0 with
        | none => rw [hm] at h; cases h
        | some l' =>
          rw [hm] at h
          simp only [Res.ok.injEq] at h
          subst h
          exact markLast_some_bounds l0 l' hm
/-! ## 4. the whole argument: scanner with look-ahead = lexer + token parser -/

theorem isWhitespace_eq (c : Char) : isWhitespace c = isWs c := by
  unfold isWhitespace isWs
  generalize c.toNat = n
  rw [Bool.eq_iff_iff]
  simp only [List.contains_cons, List.contains_nil, Bool.or_eq_true, Bool.and_eq_true,
    decide_eq_true_eq, beq_iff_eq, Bool.or_false]
  omega

theorem all_isWhitespace_eq (s : List Char) : s.all isWhitespace = s.all isWs := by
  congr 1; funext c; exact isWhitespace_eq c

theorem hasBrace_eq (s : List Char) :
    (s.any fun c => decide (c = '{' ∨ c = '}')) = hasBrace s := by
  unfold hasBrace
  rw [Bool.eq_iff_iff]
  simp only [List.any_eq_true, decide_eq_true_eq, Bool.or_eq_true, List.contains_eq_mem]
  constructor
  · rintro ⟨y, hy, (h | h)⟩
    · subst h; exact Or.inl hy
    · subst h; exact Or.inr hy
  · rintro (h | h)
    · exact ⟨_, h, Or.inl rfl⟩
    · exact ⟨_, h, Or.inr rfl⟩

theorem boundsOnly_isEmpty (l : List BoF) : (boundsOnly l).isEmpty = !hasBound l := by
  induction l with
  | nil => rfl
  | cons x t ih => cases x <;> simp [boundsOnly, hasBound, ih]

theorem markLast_eq (l : List BoF) :
    markLast l = if hasBound l then Option.some (flagLast l) else Option.none := by
  induction l with
  | nil => rfl
  | cons x t ih =>
    cases x with
    | filler f =>
      simp only [markLast, hasBound, flagLast, ih]
      by_cases h : hasBound t = true <;> simp [h]
    | bound b =>
      simp only [markLast, hasBound, flagLast, ih, if_true]
      by_cases h : hasBound t = true <;> simp [h]

theorem splitOnChar_ne_nil (c : Char) (s : List Char) : splitOnChar c s ≠ [] := by
  induction s with
  | nil => simp [splitOnChar]
  | cons x t ih =>
    by_cases hx : x = c
    · simp [splitOnChar, hx]
    · simp only [splitOnChar, if_neg hx]
      cases splitOnChar c t <;> simp

theorem piecesFrom_eq (sep : Char) (cur s : List Char) :
    piecesFrom sep cur s =
      (cur ++ (splitOnChar sep s).headD []) :: (splitOnChar sep s).tail := by
  induction s generalizing cur with
  | nil => simp [piecesFrom, splitOnChar]
  | cons x t ih =>
    have hne := splitOnChar_ne_nil sep t
    by_cases hx : x = sep
    · simp only [piecesFrom, splitOnChar, if_pos hx, ih, List.nil_append, List.headD_cons,
        List.append_nil, List.tail_cons]
      cases hs : splitOnChar sep t with
      | nil => exact absurd hs hne
      | cons h r => rfl
    · simp only [piecesFrom, splitOnChar, if_neg hx, ih]
      cases hs : splitOnChar sep t with
      | nil => exact absurd hs hne
      | cons h r => simp

theorem pieces_eq (sep : Char) (s : List Char) : pieces sep s = splitOnChar sep s := by
  unfold pieces
  rw [piecesFrom_eq]
  have hne := splitOnChar_ne_nil sep s
  cases hs : splitOnChar sep s with
  | nil => exact absurd hs hne
  | cons h r => rfl

theorem parseAll_eq (l : List (List Char)) : parseAll l = allBounds l := by
  induction l with
  | nil => rfl
  | cons s t ih =>
    simp only [parseAll, allBounds, parseUserBounds_eq_spec, ih]
    cases specBound s with
    | none => rfl
    | some b => cases allBounds t <;> rfl

theorem specCommaList_eq (s : List Char) :
    specCommaList s = (parseAll (splitOnChar ',' s)).map (·.map BoF.bound) := by
  unfold specCommaList
  rw [pieces_eq, parseAll_eq]

/-! ### the scanner, token by token -/

/-- the model's scanner driven by the lexer's tokens instead of its own look-ahead -/
def scanT : List LexTok → ScanSt → Option (List BoF)
  | [], st => scanEnd st
  | .lbrace2 :: t, st => scanT t { st with part := '{' :: '{' :: st.part }
  | .rbrace2 :: t, st => scanT t { st with part := '}' :: '}' :: st.part }
  | .lbrace :: t, st =>
    match scanStep '{' st with
    | none => none
    | some st' => scanT t st'
  | .rbrace :: t, st =>
    match scanStep '}' st with
    | none => none
    | some st' => scanT t st'
  | .chr c :: t, st =>
    match scanStep c st with
    | none => none
    | some st' => scanT t st'

theorem scanT_tokOfChar (w : Char) (t : List LexTok) (st : ScanSt) :
    scanT (tokOfChar w :: t) st =
      match scanStep w st with
      | none => none
      | some st' => scanT t st' := by
  unfold tokOfChar
  by_cases h1 : w = '{'
  · subst h1; rfl
  · by_cases h2 : w = '}'
    · subst h2; rfl
    · rw [if_neg h1, if_neg h2]; rfl

/-- the look-ahead of `scan` is the maximal munch of `lex` -/
theorem scan_eq_scanT (cs : List Char) (st : ScanSt) : scan cs st = scanT (lex cs) st := by
  fun_induction scan cs st with
  | case1 st => rfl
  | case2 w0 st h => simp only [lex, scanT_tokOfChar, h]
  | case3 w0 st st' h => simp only [lex, scanT_tokOfChar, h]; rfl
  | case4 w0 w1 rest st h ih =>
    obtain ⟨h01, hb⟩ := h
    subst h01
    rcases hb with hb | hb
    · subst hb; simp only [lex, and_self, if_true, scanT]; exact ih
    · subst hb
      have : ¬ ('}' = '{' ∧ '}' = '{') := by decide
      simp only [lex, this, if_false, and_self, if_true, scanT]; exact ih
  | case5 w0 w1 rest st h hs =>
    have h1 : ¬ (w0 = '{' ∧ w1 = '{') := fun ⟨a, b⟩ => h ⟨a.trans b.symm, Or.inl a⟩
    have h2 : ¬ (w0 = '}' ∧ w1 = '}') := fun ⟨a, b⟩ => h ⟨a.trans b.symm, Or.inr a⟩
    simp only [lex, if_neg h1, if_neg h2, scanT_tokOfChar, hs]
  | case6 w0 w1 rest st h st' hs ih =>
    have h1 : ¬ (w0 = '{' ∧ w1 = '{') := fun ⟨a, b⟩ => h ⟨a.trans b.symm, Or.inl a⟩
    have h2 : ¬ (w0 = '}' ∧ w1 = '}') := fun ⟨a, b⟩ => h ⟨a.trans b.symm, Or.inr a⟩
    simp only [lex, if_neg h1, if_neg h2, scanT_tokOfChar, hs]; exact ih

/-! ### literal text: the four chained replacements = token-wise unescaping -/

/-- a token that can occur in literal text: an escaped brace or a non-brace character -/
def Spec.LexTok.IsLit : LexTok → Prop
  | .lbrace2 => True
  | .rbrace2 => True
  | .chr c => c ≠ '{' ∧ c ≠ '}'
  | .lbrace => False
  | .rbrace => False

/-- what the lexer produces: `chr` never carries a brace -/
def Spec.LexTok.Proper : LexTok → Prop
  | .chr c => c ≠ '{' ∧ c ≠ '}'
  | _ => True

/-- the characters a run of tokens was read from -/
def rawOf (ts : List LexTok) : List Char := ts.flatMap LexTok.raw

theorem tokOfChar_proper (c : Char) : (tokOfChar c).Proper := by
  unfold tokOfChar
  by_cases h1 : c = '{'
  · rw [if_pos h1]; trivial
  · by_cases h2 : c = '}'
    · rw [if_neg h1, if_pos h2]; trivial
    · rw [if_neg h1, if_neg h2]; exact ⟨h1, h2⟩

theorem lex_proper (cs : List Char) : ∀ t ∈ lex cs, t.Proper := by
  fun_induction lex cs with
  | case1 => intro t h; cases h
  | case2 c => intro t h; simp only [List.mem_singleton] at h; subst h; exact tokOfChar_proper c
  | case3 c d t h ih =>
    intro x hx; rcases List.mem_cons.mp hx with hx | hx
    · subst hx; trivial
    · exact ih x hx
  | case4 c d t h1 h2 ih =>
    intro x hx; rcases List.mem_cons.mp hx with hx | hx
    · subst hx; trivial
    · exact ih x hx
  | case5 c d t h1 h2 ih =>
    intro x hx; rcases List.mem_cons.mp hx with hx | hx
    · subst hx; exact tokOfChar_proper c
    · exact ih x hx

/-- the lexer loses nothing: the tokens spell the input -/
theorem rawOf_lex (cs : List Char) : rawOf (lex cs) = cs := by
  have htc : ∀ c, (tokOfChar c).raw = [c] := by
    intro c; unfold tokOfChar
    by_cases h1 : c = '{'
    · subst h1; rfl
    · by_cases h2 : c = '}'
      · subst h2; rfl
      · rw [if_neg h1, if_neg h2]; rfl
  fun_induction lex cs with
  | case1 => rfl
  | case2 c => simp [rawOf, htc]
  | case3 c d t h ih =>
    obtain ⟨rfl, rfl⟩ := h
    simp only [rawOf, List.flatMap_cons] at ih ⊢; rw [ih]; rfl
  | case4 c d t h1 h2 ih =>
    obtain ⟨rfl, rfl⟩ := h2
    simp only [rawOf, List.flatMap_cons] at ih ⊢; rw [ih]; rfl
  | case5 c d t h1 h2 ih =>
    simp only [rawOf, List.flatMap_cons, htc] at ih ⊢; rw [ih]; rfl

theorem replace2_cons_ne (a b r x : Char) (l : List Char) (h : x ≠ a) :
    replace2 a b r (x :: l) = x :: replace2 a b r l := by
  cases l with
  | nil => simp [replace2]
  | cons y t =>
    have : ¬ (x = a ∧ y = b) := fun hh => h hh.1
    simp only [replace2, if_neg this]

theorem replace2_eq_substEscape (e r : Char) (l : List Char) :
    replace2 '\\' e r l = substEscape e r l := by
  fun_induction replace2 '\\' e r l with
  | case1 => rfl
  | case2 x => rfl
  | case3 x y t h ih => simp only [substEscape, if_pos h, ih]
  | case4 x y t h ih => simp only [substEscape, if_neg h, ih]

/-- after the first replacement (`{{` → `{`) -/
def Spec.LexTok.raw1 : LexTok → List Char
  | .lbrace2 => ['{']
  | t => t.raw

theorem replace_lbrace2 (ts : List LexTok) (h : ∀ t ∈ ts, t.IsLit) :
    replace2 '{' '{' '{' (rawOf ts) = ts.flatMap LexTok.raw1 := by
  induction ts with
  | nil => rfl
  | cons t r ih =>
    have ih' := ih (fun x hx => h x (List.mem_cons_of_mem _ hx))
    have ht := h t List.mem_cons_self
    simp only [rawOf, List.flatMap_cons] at ih' ⊢
    cases t with
    | lbrace2 => simp only [LexTok.raw, LexTok.raw1, List.cons_append, List.nil_append, replace2, and_self,
        if_true, ih']
    | rbrace2 =>
      simp only [LexTok.raw, LexTok.raw1, List.cons_append, List.nil_append]
      rw [replace2_cons_ne _ _ _ _ _ (by decide), replace2_cons_ne _ _ _ _ _ (by decide), ih']
    | chr c =>
      simp only [LexTok.raw, LexTok.raw1, List.cons_append, List.nil_append]
      rw [replace2_cons_ne _ _ _ _ _ ht.1, ih']
    | lbrace => exact absurd ht id
    | rbrace => exact absurd ht id

theorem replace_rbrace2 (ts : List LexTok) (h : ∀ t ∈ ts, t.IsLit) :
    replace2 '}' '}' '}' (ts.flatMap LexTok.raw1) = ts.map LexTok.literal := by
  induction ts with
  | nil => rfl
  | cons t r ih =>
    have ih' := ih (fun x hx => h x (List.mem_cons_of_mem _ hx))
    have ht := h t List.mem_cons_self
    simp only [List.flatMap_cons, List.map_cons]
    cases t with
    | lbrace2 =>
      simp only [LexTok.raw1, LexTok.literal, List.cons_append, List.nil_append]
      rw [replace2_cons_ne _ _ _ _ _ (by decide), ih']
    | rbrace2 =>
      simp only [LexTok.raw, LexTok.raw1, LexTok.literal, List.cons_append, List.nil_append, replace2,
        and_self, if_true, ih']
    | chr c =>
      simp only [LexTok.raw, LexTok.raw1, LexTok.literal, List.cons_append, List.nil_append]
      rw [replace2_cons_ne _ _ _ _ _ ht.2, ih']
    | lbrace => exact absurd ht id
    | rbrace => exact absurd ht id

/-- **C18 (rendering).**  On literal text as the scanner collects it (escaped braces and
    non-brace characters: every brace run has even length) the four chained `str::replace`
    calls equal the token-wise unescaping of the specification. -/
theorem sequentialReplace_eq_unescape (ts : List LexTok) (h : ∀ t ∈ ts, t.IsLit) :
    unescapeFiller (rawOf ts) = unescapeLiteral ts := by
  unfold unescapeFiller unescapeLiteral
  rw [replace_lbrace2 ts h, replace_rbrace2 ts h, replace2_eq_substEscape, replace2_eq_substEscape]

/-! ### the token-driven scanner against the token parser -/

theorem rawOf_eq_nil (lit : List LexTok) : rawOf lit = [] ↔ lit = [] := by
  cases lit with
  | nil => simp [rawOf]
  | cons t r => cases t <;> simp [rawOf, LexTok.raw]

theorem rawOf_append (a b : List LexTok) : rawOf (a ++ b) = rawOf a ++ rawOf b := by
  simp [rawOf]

theorem isLit_append (lit : List LexTok) (t : LexTok) (hl : ∀ x ∈ lit, x.IsLit) (ht : t.IsLit) :
    ∀ x ∈ lit ++ [t], x.IsLit := by
  intro x hx
  rcases List.mem_append.mp hx with hx | hx
  · exact hl x hx
  · simp only [List.mem_singleton] at hx; subst hx; exact ht

theorem pushFiller_lit (lit : List LexTok) (hl : ∀ t ∈ lit, t.IsLit) (ins : Bool) (acc : List BoF) :
    (ScanSt.pushFiller { inside := ins, part := (rawOf lit).reverse, bof := acc }).reverse =
      acc.reverse ++ fillerOf lit := by
  unfold ScanSt.pushFiller fillerOf
  by_cases h : lit = []
  · subst h; simp [rawOf]
  · have hr : ¬ rawOf lit = [] := fun hh => h ((rawOf_eq_nil lit).mp hh)
    simp only [List.isEmpty_reverse, List.isEmpty_iff, hr, if_false, h, List.reverse_reverse,
      List.reverse_cons, sequentialReplace_eq_unescape lit hl]

theorem scanT_sim (toks : List LexTok) (hp : ∀ t ∈ toks, t.Proper) :
    (∀ lit acc, (∀ t ∈ lit, t.IsLit) →
      scanT toks { inside := false, part := (rawOf lit).reverse, bof := acc } =
        (parseOutside lit toks).map (acc.reverse ++ ·)) ∧
    (∀ body acc,
      scanT toks { inside := true, part := body.reverse, bof := acc } =
        (parseBody body toks).map (acc.reverse ++ ·)) := by
  induction toks with
  | nil =>
    constructor
    · intro lit acc hl
      simp only [scanT, scanEnd, parseOutside, Bool.false_eq_true, if_false, Option.map_some,
        pushFiller_lit lit hl]
    · intro body acc
      simp [scanT, scanEnd, parseBody]
  | cons tok t ih =>
    have hp' : ∀ x ∈ t, x.Proper := fun x hx => hp x (List.mem_cons_of_mem _ hx)
    have htok := hp tok List.mem_cons_self
    obtain ⟨ihO, ihB⟩ := ih hp'
    constructor
    · intro lit acc hl
      cases tok with
      | lbrace2 =>
        have := ihO (lit ++ [.lbrace2]) acc (isLit_append lit .lbrace2 hl trivial)
        simp only [rawOf_append, List.reverse_append] at this
        simp only [scanT, parseOutside]
        exact this
      | rbrace2 =>
        have := ihO (lit ++ [.rbrace2]) acc (isLit_append lit .rbrace2 hl trivial)
        simp only [rawOf_append, List.reverse_append] at this
        simp only [scanT, parseOutside]
        exact this
      | chr c =>
        have hc : c ≠ '{' ∧ c ≠ '}' := htok
        have := ihO (lit ++ [.chr c]) acc (isLit_append lit (.chr c) hl hc)
        simp only [rawOf_append, List.reverse_append] at this
        simp only [scanT, parseOutside, scanStep, hc.1, hc.2, false_and, if_false]
        exact this
      | rbrace =>
        simp [scanT, parseOutside, scanStep]
      | lbrace =>
        have hne : ¬ ('{' = '}') := by decide
        simp only [scanT, parseOutside, scanStep, hne, false_and, if_false, if_true,
          Bool.false_eq_true]
        have := ihB [] (ScanSt.pushFiller { inside := false, part := (rawOf lit).reverse, bof := acc })
        simp only [List.reverse_nil] at this
        rw [this, pushFiller_lit lit hl, Option.map_map]
        congr 1; funext r; simp
    · intro body acc
      cases tok with
      | lbrace2 =>
        have := ihB (body ++ ['{', '{']) acc
        simp only [List.reverse_append] at this
        simp only [scanT, parseBody]
        exact this
      | rbrace2 =>
        have := ihB (body ++ ['}', '}']) acc
        simp only [List.reverse_append] at this
        simp only [scanT, parseBody]
        exact this
      | chr c =>
        have hc : c ≠ '{' ∧ c ≠ '}' := htok
        have := ihB (body ++ [c]) acc
        simp only [List.reverse_append] at this
        simp only [scanT, parseBody, scanStep, hc.1, hc.2, false_and, if_false]
        exact this
      | lbrace =>
        simp [scanT, parseBody, scanStep]
      | rbrace =>
        have hne : ¬ ('}' = '{') := by decide
        simp only [scanT, parseBody, scanStep, hne, Bool.not_true, Bool.false_eq_true, and_false,
          if_false, if_true, List.reverse_reverse, specCommaList_eq]
        cases parseAll (splitOnChar ',' body) with
        | none => simp
        | some bs =>
          have := ihO [] ((bs.map BoF.bound).reverse ++ acc) (fun x hx => by cases hx)
          simp only [rawOf, List.flatMap_nil, List.reverse_nil] at this
          simp only [Option.map_some, this]
          cases parseOutside [] t <;> simp

theorem scan_eq_parseToks (s : List Char) :
    scan s { inside := false, part := [], bof := [] } = parseToks (lex s) := by
  rw [scan_eq_scanT]
  have := (scanT_sim (lex s) (lex_proper s)).1 [] [] (fun x hx => by cases hx)
  simp only [rawOf, List.flatMap_nil, List.reverse_nil, List.nil_append] at this
  rw [this]
  unfold parseToks
  cases parseOutside [] (lex s) <;> rfl

theorem parseBoundsList_eq (s : List Char) (hne : s ≠ []) : parseBoundsList s = specItems s := by
  unfold parseBoundsList specItems
  have he : s.isEmpty = false := by
    cases s with
    | nil => exact absurd rfl hne
    | cons _ _ => rfl
  rw [he, hasBrace_eq]
  simp only [Bool.false_eq_true, if_false]
  by_cases hb : hasBrace s = true
  · rw [if_pos hb, if_pos hb, scan_eq_parseToks]
  · rw [if_neg hb, if_neg hb, specCommaList_eq]

/-- **C18 (the language).**  For every argument string: `UserBoundsList::from_str` accepts it
    exactly when the grammar does, and then delivers the list the grammar describes (bounds,
    unescaped literal text, `is_last` on the last bound). -/
theorem parse_eq_spec (s : List Char) :
    (boundsListOfString s).toOption.map (·.list) = specParse s := by
  unfold boundsListOfString specParse
  rw [← all_isWhitespace_eq]
  by_cases hw : s.all isWhitespace = true
  · rw [if_pos hw, if_pos hw]; rfl
  · have hne : s ≠ [] := by
      intro h; subst h; exact hw rfl
    rw [if_neg hw, if_neg hw, parseBoundsList_eq s hne]
    cases specItems s with
    | none => rfl
    | some l =>
      simp only [boundsOnly_isEmpty]
      by_cases hb : hasBound l = true
      · simp [hb, fromVec, markLast_eq, Res.toOption]
      · simp [hb, Res.toOption]

/-- acceptance alone -/
theorem accepted_iff_spec (s : List Char) :
    (boundsListOfString s).isOk = (specParse s).isSome := by
  rw [← parse_eq_spec]
  cases boundsListOfString s <;> rfl

/-! ## 5. no two literal texts in a row -/

/-- no two `.filler` are adjacent -/
def NoAdj : List BoF → Prop
  | [] => True
  | .bound _ :: t => NoAdj t
  | .filler _ :: t => (match t with | .filler _ :: _ => False | _ => True) ∧ NoAdj t

theorem noAdj_bounds_append (bs : List UserBounds) (r : List BoF) (h : NoAdj r) :
    NoAdj (bs.map BoF.bound ++ r) := by
  induction bs with
  | nil => exact h
  | cons b t ih => exact ih

theorem noAdj_fillerOf_bound (lit : List LexTok) (b : UserBounds) (t : List BoF)
    (h : NoAdj (.bound b :: t)) : NoAdj (fillerOf lit ++ .bound b :: t) := by
  unfold fillerOf
  by_cases hl : lit = []
  · rw [if_pos hl]; exact h
  · rw [if_neg hl]; exact ⟨trivial, h⟩

theorem noAdj_fillerOf (lit : List LexTok) : NoAdj (fillerOf lit) := by
  unfold fillerOf
  by_cases hl : lit = []
  · rw [if_pos hl]; trivial
  · rw [if_neg hl]; exact ⟨trivial, trivial⟩

theorem allBounds_pieces_ne_nil (sep : Char) (s : List Char) (bs : List UserBounds)
    (h : allBounds (pieces sep s) = Option.some bs) : bs ≠ [] := by
  obtain ⟨p, r, hp⟩ := piecesFrom_cons sep [] s
  unfold pieces at h
  rw [hp] at h
  simp only [allBounds] at h
  cases hsb : specBound p with
  | none => rw [hsb] at h; cases h
  | some b =>
    rw [hsb] at h
    simp only [Option.map_eq_some_iff] at h
    obtain ⟨t, _, rfl⟩ := h
    exact List.cons_ne_nil _ _

theorem specCommaList_shape (s : List Char) (l : List BoF) (h : specCommaList s = Option.some l) :
    ∃ bs : List UserBounds, bs ≠ [] ∧ l = bs.map BoF.bound := by
  unfold specCommaList at h
  simp only [Option.map_eq_some_iff] at h
  obtain ⟨bs, hbs, rfl⟩ := h
  exact ⟨bs, allBounds_pieces_ne_nil _ _ _ hbs, rfl⟩

theorem parseToks_noAdj_aux (toks : List LexTok) :
    (∀ lit l, parseOutside lit toks = Option.some l → NoAdj l) ∧
    (∀ body l, parseBody body toks = Option.some l → NoAdj l ∧ ∃ b t, l = BoF.bound b :: t) := by
  induction toks with
  | nil =>
    constructor
    · intro lit l h
      simp only [parseOutside, Option.some.injEq] at h
      subst h; exact noAdj_fillerOf lit
    · intro body l h; simp [parseBody] at h
  | cons tok t ih =>
    obtain ⟨ihO, ihB⟩ := ih
    constructor
    · intro lit l h
      cases tok with
      | lbrace2 => exact ihO _ l (by simpa [parseOutside] using h)
      | rbrace2 => exact ihO _ l (by simpa [parseOutside] using h)
      | chr c => exact ihO _ l (by simpa [parseOutside] using h)
      | rbrace => simp [parseOutside] at h
      | lbrace =>
        simp only [parseOutside, Option.map_eq_some_iff] at h
        obtain ⟨rest, hrest, rfl⟩ := h
        obtain ⟨hna, b, t', rfl⟩ := ihB [] rest hrest
        exact noAdj_fillerOf_bound lit b t' hna
    · intro body l h
      cases tok with
      | lbrace2 => exact ihB _ l (by simpa [parseBody] using h)
      | rbrace2 => exact ihB _ l (by simpa [parseBody] using h)
      | chr c => exact ihB _ l (by simpa [parseBody] using h)
      | lbrace => simp [parseBody] at h
      | rbrace =>
        simp only [parseBody] at h
        cases hc : specCommaList body with
        | none => simp [hc] at h
        | some bl =>
          cases ho : parseOutside [] t with
          | none => simp [hc, ho] at h
          | some rest =>
            simp only [hc, ho, Option.some.injEq] at h
            subst h
            obtain ⟨bs, hne, rfl⟩ := specCommaList_shape body bl hc
            refine ⟨noAdj_bounds_append bs rest (ihO [] rest ho), ?_⟩
            cases bs with
            | nil => exact absurd rfl hne
            | cons b bt => exact ⟨b, _, rfl⟩

/-- **C18/C04.**  The parser never produces two literal texts in a row (the invariant the
    chunk-independence proof of C04 needs). -/
theorem parse_noAdjFillers (s : List Char) (l : List BoF) (h : parseBoundsList s = Option.some l) :
    NoAdj l := by
  by_cases hs : s = []
  · subst hs
    simp only [parseBoundsList, List.isEmpty_nil, if_true, Option.some.injEq] at h
    subst h; trivial
  · rw [parseBoundsList_eq s hs] at h
    unfold specItems at h
    by_cases hb : hasBrace s = true
    · rw [if_pos hb] at h
      exact (parseToks_noAdj_aux (lex s)).1 [] l h
    · rw [if_neg hb] at h
      obtain ⟨bs, _, rfl⟩ := specCommaList_shape s l h
      simpa using noAdj_bounds_append bs [] trivial

/-! ## examples (model and specification side by side) -/

example : boundsListOfString "1:3,5=x".toList =
    .ok { list := [.bound { l := .some 1, r := .some 3 },
                   .bound { l := .some 5, r := .some 5, isLast := true, fallback := Option.some [120] }],
          lastInteresting := .some 5 } := by decide
example : specParse "1:3,5=x".toList =
    Option.some [.bound { l := .some 1, r := .some 3 },
      .bound { l := .some 5, r := .some 5, isLast := true, fallback := Option.some [120] }] := by decide

example : (boundsListOfString "a{1}b{{".toList).toOption.map (·.list) =
    Option.some [.filler [97], .bound { l := .some 1, r := .some 1, isLast := true }, .filler [98, 123]] := by
  decide
example : specParse "a{1}b{{".toList =
    Option.some [.filler [97], .bound { l := .some 1, r := .some 1, isLast := true }, .filler [98, 123]] := by
  decide

example : boundsListOfString "-3:2".toList =
    .ok { list := [.bound { l := .some (-3), r := .some 2, isLast := true }],
          lastInteresting := .cont } := by decide

example : boundsListOfString "{1{2}".toList = .fail := by decide
example : boundsListOfString "=x".toList = .fail := by decide
example : boundsListOfString ":=x".toList = .fail := by decide
example : boundsListOfString "x{{y".toList = .fail := by decide
example : boundsListOfString "{1}}}".toList = .fail := by decide
example : boundsListOfString "0".toList = .fail := by decide
example : boundsListOfString "3:1".toList = .fail := by decide
example : boundsListOfString "2147483648".toList = .fail := by decide
example : boundsListOfString "2147483647".toList ≠ .fail := by decide
example : boundsListOfString "-2147483648".toList ≠ .fail := by decide
example : specParse "{1{2}".toList = none := by decide
example : specParse "=x".toList = none := by decide
example : specParse ":=x".toList = none := by decide
example : specParse "x{{y".toList = none := by decide
example : specParse "{1}}}".toList = none := by decide
example : specParse "0".toList = none := by decide
example : specParse "3:1".toList = none := by decide
example : specParse "2147483648".toList = none := by decide

end Tuc
