import Tuc.Model.CutStr
import Tuc.Spec.Record
import Tuc.Lemmas.Run
import Tuc.Lemmas.Bounds
/-!
# C01 — field mode emits exactly the requested fields, in request order

Target (DESIGN.md §C01): `readAndCutStr opt input = specRun (cfgOf opt) input` for every literal
delimiter `d ≠ []`, every option set of the lattice and every well-formed bounds list.
What is proved so far is listed below; the refinement of the splitter (`fields_reconstruct`,
`slice_eq_interleave`) is the part still open, so the end-to-end statement is not yet a theorem
and the direct oracle of the check (implementation against `specRun`, executed) carries it.
-/
namespace Tuc
open Tuc.Spec

/-- a record that is empty (possibly after `-t`) yields an empty record — nothing else, no
    filler, no fallback — unless `-s` drops it -/
theorem empty_record (opt : Opt) (f₀ : List Range) (b₀ eol : Bytes) (line : Bytes)
    (hre : opt.regexBag = none)
    (h : (match opt.trim with
          | some k => trimLiteral line k opt.delimiter
          | none => line) = []) :
    (cutStr line opt f₀ b₀ eol).1 = (if opt.onlyDelimited then Run.empty else Run.ok eol) := by
  unfold cutStr cutStrCore
  simp only [hre, Option.isSome_none, Bool.false_and, Bool.false_eq_true, if_false]
  cases ht : opt.trim with
  | none =>
    simp only [ht] at h
    subst h
    cases opt.onlyDelimited <;> simp
  | some k =>
    simp only [ht] at h
    simp only [h]
    cases opt.onlyDelimited <;> simp

/-- the specification says the same -/
theorem spec_empty_record (cfg : Cfg) (line : Bytes) (hc : cfg.chars = false)
    (h : (match cfg.trim with
          | some k => trimLiteral line k cfg.delimiter
          | none => line) = []) :
    specRecord cfg line = (if cfg.onlyDelimited then Run.empty else Run.ok [cfg.eol]) := by
  unfold specRecord
  cases ht : cfg.trim with
  | none =>
    simp only [ht] at h
    subst h
    cases cfg.onlyDelimited <;> simp
  | some k =>
    simp only [ht, hc] at h ⊢
    simp only [Bool.false_eq_true, if_false, h]
    cases cfg.onlyDelimited <;> simp

/-- `-s` drops a record with a single field (no delimiter after `-t`/`-p`) and prints nothing -/
theorem only_delimited_drops (line : Bytes) (r : Range) (opt : Opt) (c : Bool) (eol : Bytes)
    (hs : opt.onlyDelimited = true) :
    emitRecord line [r] opt c eol = Run.empty := by
  simp [emitRecord, hs]

/-- every record that is not dropped ends with the EOL, and the literal text and bounds come out
    in the order written: the loop is a left-to-right concatenation -/
theorem outputLoop_append (line : Bytes) (fields : List Range) (n : Nat) (opt : Opt) (c : Bool)
    (xs ys : List BoF) :
    outputLoop line fields n opt c (xs ++ ys) =
      (outputLoop line fields n opt c xs).seq (outputLoop line fields n opt c ys) := by
  induction xs with
  | nil => simp [outputLoop]
  | cons x t ih => simp only [List.cons_append, outputLoop, ih, Run.seq_assoc]

/-- literal format text is reproduced verbatim, whatever the record -/
theorem outputLoop_filler (line : Bytes) (fields : List Range) (n : Nat) (opt : Opt) (c : Bool)
    (f : Bytes) (t : List BoF) :
    outputLoop line fields n opt c (.filler f :: t) = Run.pre f (outputLoop line fields n opt c t) := by
  simp [outputLoop, outputBof, Run.seq_ok]

/-- the joiner follows every bound but the last, only under `-j`/`-r` -/
theorem joiner_rule (opt : Opt) (b : UserBounds) :
    (if opt.join && !b.isLast then Run.ok (opt.replaceDelimiter.getD opt.delimiter) else Run.empty) =
      if opt.join = true ∧ b.isLast = false then Run.ok (opt.replaceDelimiter.getD opt.delimiter)
      else Run.empty := by
  cases opt.join <;> cases b.isLast <;> simp

end Tuc
