import Tuc.Model.CutStr
import Tuc.Spec.Record
import Tuc.Lemmas.Run
import Tuc.Lemmas.Bounds
import Tuc.Lemmas.Split
import Tuc.Lemmas.CutStrSpec
/-!
# C01 — field mode emits exactly the requested fields, in request order

Target (DESIGN.md §C01): `readAndCutStr opt input = specRun (cfgOf opt) input` for every literal
delimiter `d ≠ []`, every option set of the lattice and every well-formed bounds list.

**Proved** (end of this file, proofs in `Tuc.Lemmas.Split` and `Tuc.Lemmas.CutStrSpec`): the
statement above for the general engine in field mode, every record, every subset of
`-g -p -t -s -j -r R -m`, own and generic fallbacks, format fillers, every delimiter (self-
overlapping ones included) — `general_engine_eq_spec`, and `general_engine_eq_spec_of_parsed` for
every bounds argument the parser accepts.  Not covered: `--json` (C08), regex delimiters (C16),
`-c`/`-b`/`-l` (their own engines).
-/
namespace Tuc
open Tuc.Spec

/-- a record that is empty (possibly after `-t`) yields an empty record — nothing else, no
    filler, no fallback — unless `-s` drops it -/
theorem empty_record (opt : Opt) (f₀ : List Range) (b₀ eol : Bytes) (line : Bytes)
    (hre : opt.regexBag = none)
    (h : (match opt.trim with
          | some k => trimLiteral line k opt.delimiter
          | none => line) = []) :
    (cutStr line opt f₀ b₀ eol).1 = (if opt.onlyDelimited then Run.empty else Run.ok eol) := by
  unfold cutStr cutStrCore
  simp only [hre, Option.isSome_none, Bool.false_and, Bool.false_eq_true, if_false]
  cases ht : opt.trim with
  | none =>
    simp only [ht] at h
    subst h
    cases opt.onlyDelimited <;> simp
  | some k =>
    simp only [ht] at h
    simp only [h]
    cases opt.onlyDelimited <;> simp

/-- the specification says the same -/
theorem spec_empty_record (cfg : Cfg) (line : Bytes) (hc : cfg.chars = false)
    (h : (match cfg.trim with
          | some k => trimLiteral line k cfg.delimiter
          | none => line) = []) :
    specRecord cfg line = (if cfg.onlyDelimited then Run.empty else Run.ok [cfg.eol]) := by
  unfold specRecord
  cases ht : cfg.trim with
  | none =>
    simp only [ht] at h
    subst h
    cases cfg.onlyDelimited <;> simp
  | some k =>
    simp only [ht, hc] at h ⊢
    simp only [Bool.false_eq_true, if_false, h]
    cases cfg.onlyDelimited <;> simp

/-- `-s` drops a record with a single field (no delimiter after `-t`/`-p`) and prints nothing -/
theorem only_delimited_drops (line : Bytes) (r : Range) (opt : Opt) (c : Bool) (eol : Bytes)
    (hs : opt.onlyDelimited = true) :
    emitRecord line [r] opt c eol = Run.empty := by
  simp [emitRecord, hs]

/-- every record that is not dropped ends with the EOL, and the literal text and bounds come out
    in the order written: the loop is a left-to-right concatenation -/
theorem outputLoop_append (line : Bytes) (fields : List Range) (n : Nat) (opt : Opt) (c : Bool)
    (xs ys : List BoF) :
    outputLoop line fields n opt c (xs ++ ys) =
      (outputLoop line fields n opt c xs).seq (outputLoop line fields n opt c ys) := by
  induction xs with
  | nil => simp [outputLoop]
  | cons x t ih => simp only [List.cons_append, outputLoop, ih, Run.seq_assoc]

/-- literal format text is reproduced verbatim, whatever the record -/
theorem outputLoop_filler (line : Bytes) (fields : List Range) (n : Nat) (opt : Opt) (c : Bool)
    (f : Bytes) (t : List BoF) :
    outputLoop line fields n opt c (.filler f :: t) = Run.pre f (outputLoop line fields n opt c t) := by
  simp [outputLoop, outputBof, Run.seq_ok]

/-- the joiner follows every bound but the last, only under `-j`/`-r` -/
theorem joiner_rule (opt : Opt) (b : UserBounds) :
    (if opt.join && !b.isLast then Run.ok (opt.replaceDelimiter.getD opt.delimiter) else Run.empty) =
      if opt.join = true ∧ b.isLast = false then Run.ok (opt.replaceDelimiter.getD opt.delimiter)
      else Run.empty := by
  cases opt.join <;> cases b.isLast <;> simp

/-- **The plain splitter, one bound.**  For a non-empty line split at a non-empty literal
    delimiter (no `-g`, `-p`, `-r`, `--json`), a bound that resolves to the fields `s … e-1`
    makes the engine write exactly those fields of the specification with one delimiter between
    neighbours, then the joiner (under `-j`, unless the bound is the last) — it never panics.
    `hz` (the parser never produces the index 0) is needed: for `0:0` `try_into_range` answers
    `(0, 0)` and the engine prints field 1 (see the `example` below). -/
theorem plain_bound_output (line d : Bytes) (opt : Opt) (b : UserBounds) (s e : Nat)
    (hline : line ≠ []) (hd : d ≠ [])
    (hjson : opt.json = false) (hrep : opt.replaceDelimiter = none)
    (hty : opt.boundsType = .fields) (hz : b.l ≠ .some 0)
    (hb : b.tryIntoRange (fillWithFieldsLocations [] line d).length = some (s, e)) :
    outputBof line (fillWithFieldsLocations [] line d) (fillWithFieldsLocations [] line d).length
        opt false (.bound b) =
      (Run.ok (joinWith d ((splitFields d line).extract s e))).seq
        (if opt.join = true ∧ b.isLast = false then Run.ok opt.delimiter else Run.empty) := by
  have hw := fields_wellformed d line hd hline
  obtain ⟨hse, hen⟩ := tryIntoRange_bounds b _ s e hz hb
  have hs : s < (fillWithFieldsLocations [] line d).length := by omega
  have he : e - 1 < (fillWithFieldsLocations [] line d).length := by omega
  have h1 := hw.start_le_stop s (e - 1) (by omega) he
  have h2 := (hw.getElem_bounds (e - 1) he).2.2
  have h3 := slice_eq_interleave d line hd hline s (e - 1) (by omega) he
  have e1 : e - 1 + 1 = e := by omega
  rw [e1] at h3
  unfold outputBof
  simp only [hb, List.getElem?_eq_getElem hs, List.getElem?_eq_getElem he]
  rw [if_pos ⟨h1, h2⟩, h3]
  simp only [maybeReplaceDelimiter, hty, hrep, writeMaybeAsJson, hjson, Option.getD_none]
  cases opt.join <;> cases b.isLast <;> simp

/-- **The greedy splitter (`-g`), one bound.**  Same statement in the specification's words:
    the engine writes `pieceText` of the greedy tokenisation, the separators being the runs of
    the delimiter actually found in the record. -/
theorem greedy_bound_output (line d : Bytes) (opt : Opt) (b : UserBounds) (s e : Nat)
    (hline : line ≠ []) (hd : d ≠ [])
    (hjson : opt.json = false) (hrep : opt.replaceDelimiter = none)
    (hty : opt.boundsType = .fields) (hz : b.l ≠ .some 0)
    (hb : b.tryIntoRange (fillWithFieldsLocationsGreedy [] line d).length = some (s, e)) :
    outputBof line (fillWithFieldsLocationsGreedy [] line d)
        (fillWithFieldsLocationsGreedy [] line d).length opt false (.bound b) =
      (Run.ok (pieceText (repeatBytes d) (tokenize d true false line) (s + 1) e)).seq
        (if opt.join = true ∧ b.isLast = false then Run.ok opt.delimiter else Run.empty) := by
  have hw := greedy_fields_tiling d line hd hline
  obtain ⟨hse, hen⟩ := tryIntoRange_bounds b _ s e hz hb
  have hs : s < (fillWithFieldsLocationsGreedy [] line d).length := by omega
  have he : e - 1 < (fillWithFieldsLocationsGreedy [] line d).length := by omega
  have h12 := hw.start_le_stop s (e - 1) (by omega) he
  have h3 := greedy_slice_eq_pieceText d line hd hline s (e - 1) (by omega) he
  have e1 : e - 1 + 1 = e := by omega
  rw [e1] at h3
  unfold outputBof
  simp only [hb, List.getElem?_eq_getElem hs, List.getElem?_eq_getElem he]
  rw [if_pos h12, h3]
  simp only [maybeReplaceDelimiter, hty, hrep, writeMaybeAsJson, hjson, Option.getD_none]
  cases opt.join <;> cases b.isLast <;> simp

/-- a self-overlapping delimiter: `a---b--c` split at `--` is `a`, `-b`, `c`; the bound `1:2`
    prints `a---b` (bytes: `a` = 97, `-` = 45, `b` = 98, `c` = 99) -/
example :
    let line : Bytes := [97, 45, 45, 45, 98, 45, 45, 99]
    let d : Bytes := [45, 45]
    let fields := fillWithFieldsLocations [] line d
    fields = [⟨0, 1⟩, ⟨3, 5⟩, ⟨7, 8⟩] ∧
    splitFields d line = [[97], [45, 98], [99]] ∧
    outputBof line fields fields.length { delimiter := d, bounds := ⟨[], .cont⟩ } false
        (.bound { l := .some 1, r := .some 2 }) = Run.ok [97, 45, 45, 45, 98] := by
  decide

/-- why `plain_bound_output` asks for `b.l ≠ .some 0`: the (unparsable) bound `0:0` resolves to
    the empty interval `(0, 0)` and yet the engine prints the first field -/
example :
    let line : Bytes := [97, 45, 45, 45, 98, 45, 45, 99]
    let d : Bytes := [45, 45]
    let fields := fillWithFieldsLocations [] line d
    let b : UserBounds := { l := .some 0, r := .some 0 }
    b.tryIntoRange fields.length = some (0, 0) ∧
    outputBof line fields fields.length { delimiter := d, bounds := ⟨[], .cont⟩ } false
        (.bound b) = Run.ok [97] := by
  decide

/-! ## the end-to-end refinement -/

/-- **C01, one record** (scratch buffers of any content): the engine's run on a record is the
    specification of the record.  `AllNonzero`: no written index is 0 (the parser rejects it);
    `LastMarked`: `is_last` is set on exactly the last bound (`fromVec`). -/
theorem general_record_eq_spec (opt : Opt) (line : Bytes) (f₀ : List Range) (b₀ : Bytes)
    (hd : opt.delimiter ≠ []) (hre : opt.regexBag = none) (hty : opt.boundsType = .fields)
    (hjson : opt.json = false) (hz : AllNonzero opt.bounds.list) (hL : LastMarked opt.bounds.list) :
    (cutStr line opt f₀ b₀ [opt.eol.byte]).1 = specRecord (cfgOf opt) line :=
  cutStr_eq_spec opt line hd hre hty hjson hz hL

/-- **C01.**  The general field engine is the specification. -/
theorem general_engine_eq_spec (opt : Opt) (input : Bytes)
    (hd : opt.delimiter ≠ []) (hre : opt.regexBag = none) (hty : opt.boundsType = .fields)
    (hjson : opt.json = false) (hz : AllNonzero opt.bounds.list) (hL : LastMarked opt.bounds.list) :
    readAndCutStr opt input = specRun (cfgOf opt) input :=
  readAndCutStr_eq_specRun opt input hd hre hty hjson hz hL

/-- the same when `boundsType = .lines` (`cut_lines` hands its single record to the same engine,
    which treats `.lines` exactly like `.fields`) -/
theorem general_engine_eq_spec_gen (opt : Opt) (input : Bytes)
    (hd : opt.delimiter ≠ []) (hre : opt.regexBag = none)
    (hty : opt.boundsType = .fields ∨ opt.boundsType = .lines)
    (hjson : opt.json = false) (hz : AllNonzero opt.bounds.list) (hL : LastMarked opt.bounds.list) :
    readAndCutStr opt input = specRun (cfgOf opt) input :=
  readAndCutStr_eq_specRun_gen opt input hd hre hty hjson hz hL

theorem general_record_eq_spec_gen (opt : Opt) (line : Bytes) (f₀ : List Range) (b₀ : Bytes)
    (hd : opt.delimiter ≠ []) (hre : opt.regexBag = none)
    (hty : opt.boundsType = .fields ∨ opt.boundsType = .lines)
    (hjson : opt.json = false) (hz : AllNonzero opt.bounds.list) (hL : LastMarked opt.bounds.list) :
    (cutStr line opt f₀ b₀ [opt.eol.byte]).1 = specRecord (cfgOf opt) line :=
  cutStr_eq_spec_gen opt line hd hre hty hjson hz hL

/-- **C01, for every `--fields` argument the parser accepts.** -/
theorem general_engine_eq_spec_of_parsed (opt : Opt) (input : Bytes) (fieldsArg : List Char)
    (hparse : boundsListOfString fieldsArg = .ok opt.bounds)
    (hd : opt.delimiter ≠ []) (hre : opt.regexBag = none) (hty : opt.boundsType = .fields)
    (hjson : opt.json = false) :
    readAndCutStr opt input = specRun (cfgOf opt) input :=
  readAndCutStr_eq_specRun_of_parsed opt input fieldsArg hparse hd hre hty hjson

/-- and therefore it ends with exit status 0 or 1, whatever the input: no panic, no hang -/
theorem general_engine_clean (opt : Opt) (input : Bytes)
    (hd : opt.delimiter ≠ []) (hre : opt.regexBag = none) (hty : opt.boundsType = .fields)
    (hjson : opt.json = false) (hz : AllNonzero opt.bounds.list) (hL : LastMarked opt.bounds.list) :
    (readAndCutStr opt input).status = .ok ∨ (readAndCutStr opt input).status = .fail :=
  readAndCutStr_clean opt input hd hre hty hjson hz hL

/-- the stage with no option at all, as a special case -/
theorem plain_record_eq_spec (d line : Bytes) (bounds : UserBoundsList) (hd : d ≠ [])
    (hz : AllNonzero bounds.list) (hL : LastMarked bounds.list) :
    (cutStrCore line { delimiter := d, bounds := bounds } [10]).1 =
      specRecord (cfgOf { delimiter := d, bounds := bounds }) line :=
  cutStr_eq_spec { delimiter := d, bounds := bounds } line hd rfl rfl rfl hz hL

/-- `-g -p -r X -j -t b` at once, a self-overlapping delimiter, a format filler and a negative
    index: `--a------b--c--` cut at `--` with `-f '{2}:{-1}'` -/
def demoOpt : Opt :=
  { delimiter := [45, 45], greedyDelimiter := true, compressDelimiter := true,
    replaceDelimiter := some [88], join := true, trim := some .both,
    bounds := ⟨[.bound { l := .some 2, r := .some 2 }, .filler [58],
                .bound { l := .some (-1), r := .some (-1), isLast := true }], .cont⟩ }

def demoLine : Bytes := [45, 45, 97, 45, 45, 45, 45, 45, 45, 98, 45, 45, 99, 45, 45]

/-- the engine and the specification, both executed: `bX:c` -/
example :
    (cutStrCore demoLine demoOpt [10]).1 = Run.ok [98, 88, 58, 99, 10] ∧
    specRecord (cfgOf demoOpt) demoLine = Run.ok [98, 88, 58, 99, 10] := by
  decide

end Tuc
