import Tuc.Model.StdioLit
import Tuc.Model.Args
import Tuc.Model.StreamLoop

/-!
# Tuc.Props.StdioLit — the std buffering under `main` does what `deliver` and the chunk-list readers say

`Tuc.Model.StdioLit` transcribes `BufWriter`, `LineWriterShim` / `LineWriter`, the default `write_all`,
`BufReader` (`fill_buf`, `consume`, `read_buf` with its bypass) statement by statement over an operating system
that is an ORACLE (a finite list of answers: short counts, `Ok(0)`, `EINTR`, transient and sticky errors; full
service once the list is used up).  Here the abstract behaviour that `Tuc.Model.Args.deliver` and the readers of
`Tuc.Model.StreamLoop` / `ReadLoops` / `WholeLit` ASSUME is proved for every oracle and all capacities.

## Method

A writer is observed through a `Snap` (`fd`: the bytes on the descriptor; `all`: everything accepted so far, in
order = `fd ++` the buffers; the unused `oracle`; the sticky-error flag).  `Adv s s' x` ("accepted `x`":
`all' = all ++ x`, `fd` only grows, the oracle only shrinks, a dead sink stays dead and moves nothing) is what
EVERY operation does; `WriteSpec` / `WriteAllSpec` / `FlushSpec` add what the result says.  `Spec W V` is the
`Write` contract.  Then, compositionally:

* `Sink.spec`  — fd 1 keeps it (`defaultWriteAll_spec`: the loop of io/mod.rs:1857-1869);
* `BufWriter.spec : Spec W V → Spec (BufWriter.writer W) (BufWriter.view V)` (`flushBufLoop_spec`, `flushBuf_spec`);
* `LineWriter.spec : Spec W V → Spec (LineWriter.writer W) (LineWriter.view V)` (`Shim.write_spec`,
  `Shim.writeAll_spec`, `tailOf_spec`);
* `stdout_spec` — `BufWriter<StdoutLock>` = `BufWriter` over `LineWriter` over fd 1.

Each spec contains: no checked operation fails and no retry loop runs out of the fuel `budget + len + 1`
(`safe`; `budget` = unused answers: an `EINTR` uses one up, a successful `write` makes progress — the fairness
hypothesis "finitely many `EINTR` in a row" is the finiteness of the oracle list, so it is structural);
`write_all` / `flush` never return `Interrupted`; with a fault-free OS (`benign`: short writes and `EINTR` only)
everything returns `Ok`; with sticky errors only (`hard`) an `Err` means the sink is dead and something that was
accepted or offered did not arrive.  Readers: `ReadSpec` / `RSpec` (an empty read into a non-empty destination
means END OF INPUT), `Src.spec`, `BufReader.spec`, `fillBuf_spec`.

## Headlines (all capacities, every oracle unless said otherwise; no `wf` hypothesis in the `main`-level ones)

* **W1** `W1_fault_free`, `W1_session`: fault-free OS ⇒ every `write_all` and the `flush` return `Ok`, both buffers
  are empty after `flush`, fd 1 holds exactly `x₁ ++ … ++ xₖ`.  Witness of the seeded defect "flush only if the
  `BufWriter` is not empty": `big_write_leaves_tail_in_LineWriter` (one `write_all ≥ capacity` ending in an
  unterminated tail shorter than the `LineWriter`: EMPTY `BufWriter`, tail in the `LineWriter`),
  `skipped_flush_silent_loss` (status 0, tail lost) vs `real_main_reports` (status 1), instantiated at 65536 / 1024;
  `skipped_flush_hidden_when_fault_free` (why differential tests without write faults cannot see it: the residue
  is written by `std::rt::cleanup`, whose errors are ignored).
* **W2** `mainWrites_spec`, `W2_prefix_and_no_silent_loss`: fd 1 holds a PREFIX of the output; status 0 or 1; anything
  missing ⇒ status 1.  `W2_deliver`: `∃ limit, fd = (deliver ⟨out, ok⟩ limit).out`, status 0 ⇒ `deliver` says `ok`,
  and for sticky errors the statuses are equal.  `mainWritesThenErr_spec`: the engine-error path (no `flush`, drops
  only): prefix, status 1, complete if the OS does not fail.
* **W3** `write_is_short` (+ the instance at 65536 / 1024: a 70001-byte slice, `write` returns 65536);
  `write_small_never_short`: below the capacity `write` returns `Ok(len)` or the `Err` of `flush_buf`, never a
  short count.
* **R1** `R1_fill_buf_empty_only_at_eof`; `capacity_zero_reads_nothing`; `R1_chunks` (the chunks of
  `fill_buf` / `consume(len)`: non-empty, concatenation = the file), `R1_chunks_any_oracle`; and the simulation
  `sim_fillBuf` / `sim_consume` / `R1_initial_segs`: the literal `BufReader<StdinLock>` and the chunk list
  `segsOf` answer `fill_buf` / `consume` alike (the `fillBuf` / `consume` of `Tuc.Model.StreamLoop`), `segsOf`
  has no empty chunk and its concatenation is the input — the hypothesis `∀ s ∈ segs, s ≠ []` of
  `Tuc.Props.StreamLoop` / `ReadLoops` / `WholeLit` is discharged from the `read(2)` contract.

## Hypotheses, and why they cannot be dropped

* `∀ a ∈ oracle, a.hard` in the last clause of `W2_deliver` (every error is sticky, no `Ok(0)`): with a TRANSIENT
  error `flush` fails, then `Drop for BufWriter` delivers: status 1 although fd 1 is complete —
  `#guard mainWrites 4 2 [.err false] … = (.fail, ⟨everything⟩)`, same for `[.zero]`.  `deliver` cannot express
  "complete and failed".  The real program can reach it (`EAGAIN` on a non-blocking stdout); it errs on the safe
  side (C14 is about status 0 ⇒ complete, which holds for every oracle).
* `buf.length < bw.cap` in `write_small_never_short`: `write_is_short`.
* `0 < capacity` in R1: `capacity_zero_reads_nothing` / `#guard drainLoop … (Stdin.new 0 8192 …) = ([], .ok)`.
  `main` passes the literal `64 * 1024`.
* `RAns.err ∉ oracle` in `R1_chunks` / the simulation: a read error ends the run (`R1_chunks_any_oracle`: prefix,
  status 1; `Tuc.Props.C14` `read_fault_*`).  `EINTR` is allowed when the caller retries (`fillBufRetry`, what
  `std::io::read_until` does).  NOTE: `fill_buf` itself does not retry (`buffer.rs:157 result?`), and
  `stream.rs:295` / bstr `for_byte_record_with_terminator` use `fill_buf()?`: an `EINTR` on fd 0 would end tuc with
  status 1.  tuc installs no signal handler, so `read(2)` is restarted by the kernel; not a defect, a dependency.
* `Filled` in `sim_consume` (`consume` only after a `fill_buf`, as the `BufRead` contract demands and every engine
  does): `#guard`s at the end of §13.
* `wf` (`buf.len() ≤ capacity`, `pos ≤ filled ≤ capacity`) in the state-level lemmas: an invariant (`Spec.write` …
  return it, `Stdout.new_wf`, `Stdin.new_wf`), not an input condition.
-/

namespace Tuc
namespace StdioLit

/-! ## 0. vocabulary of the specifications -/

/-- what can be observed of a writer: the bytes on the descriptor, everything accepted so far in order
    (`fd ++` what sits in the buffers), the unused answers of the OS, the sticky-error flag -/
structure Snap where
  fd : Bytes
  all : Bytes
  oracle : List WAns
  dead : Bool

def WAns.benign : WAns → Bool
  | .accept _ => true
  | .intr => true
  | _ => false

/-- neither `Ok(0)` nor a transient error -/
def WAns.hard : WAns → Bool
  | .zero => false
  | .err false => false
  | _ => true

/-- the OS never fails: short writes and `EINTR` only -/
def Snap.faultFree (s : Snap) : Prop := s.dead = false ∧ ∀ a ∈ s.oracle, a.benign = true

/-- the only faults are `EINTR` and STICKY errors -/
def Snap.sticky (s : Snap) : Prop := ∀ a ∈ s.oracle, a.hard = true

theorem Snap.faultFree.toSticky {s : Snap} (h : s.faultFree) : s.sticky := by
  intro a ha
  have := h.2 a ha
  cases a <;> simp_all [WAns.benign, WAns.hard]

/-- what EVERY operation does to the observable state: it accepts `x` -/
structure Adv (s s' : Snap) (x : Bytes) : Prop where
  all : s'.all = s.all ++ x
  fd : s.fd <+: s'.fd
  oracle : s'.oracle <:+ s.oracle
  dead : s.dead = true → s'.dead = true ∧ s'.fd = s.fd
  born : s'.dead = true → s.dead = true ∨ WAns.err true ∈ s.oracle

theorem Adv.refl (s : Snap) : Adv s s [] :=
  ⟨by simp, List.prefix_refl _, List.suffix_refl _, fun h => ⟨h, rfl⟩, fun h => .inl h⟩

theorem Adv.trans {s s' s'' : Snap} {x y : Bytes} (h : Adv s s' x) (h' : Adv s' s'' y) :
    Adv s s'' (x ++ y) where
  all := by rw [h'.all, h.all, List.append_assoc]
  fd := h.fd.trans h'.fd
  oracle := h'.oracle.trans h.oracle
  dead := fun hd => by
    obtain ⟨a, b⟩ := h.dead hd
    obtain ⟨c, d⟩ := h'.dead a
    exact ⟨c, d.trans b⟩
  born := fun hd => by
    rcases h'.born hd with a | a
    · exact h.born a
    · exact .inr (h.oracle.subset a)

theorem Adv.faultFree {s s' : Snap} {x : Bytes} (h : Adv s s' x) (hf : s.faultFree) : s'.faultFree := by
  refine ⟨?_, fun a ha => hf.2 a (h.oracle.subset ha)⟩
  cases hd : s'.dead
  · rfl
  · rcases h.born hd with a | a
    · simp [hf.1] at a
    · have := hf.2 _ a
      simp [WAns.benign] at this

theorem Adv.sticky {s s' : Snap} {x : Bytes} (h : Adv s s' x) (hf : s.sticky) : s'.sticky :=
  fun a ha => hf a (h.oracle.subset ha)

theorem Adv.oracle_le {s s' : Snap} {x : Bytes} (h : Adv s s' x) : s'.oracle.length ≤ s.oracle.length :=
  h.oracle.length_le

theorem Adv.cast {s s' : Snap} {x y : Bytes} (h : Adv s s' x) (e : x = y) : Adv s s' y := e ▸ h

def IoRes.count : IoRes Nat → Nat
  | .ok n => n
  | _ => 0

/-- `write(buf)` returned `r` -/
structure WriteSpec (s s' : Snap) (buf : Bytes) (r : IoRes Nat) : Prop where
  adv : Adv s s' (buf.take (IoRes.count r))
  le : IoRes.count r ≤ buf.length
  safe : r ≠ .panic ∧ r ≠ .hang
  intr : r = .err .interrupted → s'.oracle.length < s.oracle.length
  clean : s.faultFree → (∃ n, r = .ok n) ∨ r = .err .interrupted
  sticky : s.sticky → buf ≠ [] → (∀ n, r = .ok n → 1 ≤ n) ∧ (∀ e, r = .err e → e ≠ .interrupted → s'.dead = true)

/-- `write_all(buf)` returned `r` -/
structure WriteAllSpec (s s' : Snap) (buf : Bytes) (r : IoRes Unit) : Prop where
  adv : ∃ k, k ≤ buf.length ∧ Adv s s' (buf.take k) ∧ (r = .ok () → k = buf.length) ∧
    (s.sticky → ∀ e, r = .err e → s'.dead = true ∧ (s'.fd.length < s'.all.length ∨ k < buf.length))
  safe : r ≠ .panic ∧ r ≠ .hang
  noIntr : r ≠ .err .interrupted
  clean : s.faultFree → r = .ok ()

/-- `flush()` returned `r` -/
structure FlushSpec (s s' : Snap) (r : IoRes Unit) : Prop where
  adv : Adv s s' []
  safe : r ≠ .panic ∧ r ≠ .hang
  noIntr : r ≠ .err .interrupted
  clean : s.faultFree → r = .ok ()
  done : r = .ok () → s'.fd = s'.all
  sticky : s.sticky → ∀ e, r = .err e → s'.dead = true ∧ s'.fd.length < s'.all.length

structure View (ω : Type) where
  snap : ω → Snap
  wf : ω → Prop

/-- the contract of a `Write` implementation -/
structure Spec {ω : Type} (W : Writer ω) (V : View ω) : Prop where
  fdPrefix : ∀ w, V.wf w → (V.snap w).fd <+: (V.snap w).all
  budget : ∀ w, W.budget w = (V.snap w).oracle.length
  write : ∀ w buf r w', V.wf w → W.write w buf = (r, w') → V.wf w' ∧ WriteSpec (V.snap w) (V.snap w') buf r
  writeAll : ∀ w buf r w', V.wf w → W.writeAll w buf = (r, w') → V.wf w' ∧ WriteAllSpec (V.snap w) (V.snap w') buf r
  flush : ∀ w r w', V.wf w → W.flush w = (r, w') → V.wf w' ∧ FlushSpec (V.snap w) (V.snap w') r

/-! ## 1. fd 1 -/

def Sink.view : View Sink where
  snap := fun s => ⟨s.fd, s.fd, s.oracle, s.dead⟩
  wf := fun _ => True

theorem Sink.write_spec (s : Sink) (buf : Bytes) (r : IoRes Nat) (s' : Sink) (h : s.write buf = (r, s')) :
    WriteSpec (Sink.view.snap s) (Sink.view.snap s') buf r := by
  unfold Sink.write at h
  by_cases hd : s.dead = true
  · simp only [hd, if_true, Prod.mk.injEq] at h
    obtain ⟨rfl, rfl⟩ := h
    exact ⟨by simpa [IoRes.count] using Adv.refl _, by simp [IoRes.count], by simp, by simp,
      fun hf => by simp [Snap.faultFree, Sink.view, hd] at hf, fun _ _ => ⟨by simp, fun _ _ _ => hd⟩⟩
  · simp only [hd] at h
    rcases ho : s.oracle with _ | ⟨a, o⟩
    · simp only [ho, Bool.false_eq_true, if_false, Prod.mk.injEq] at h
      obtain ⟨rfl, rfl⟩ := h
      refine ⟨⟨by simp [IoRes.count, Sink.view], by simp [Sink.view], by simp [Sink.view],
        fun h => by simp [Sink.view] at h; simp [h] at hd, fun h => .inl (by simp [Sink.view] at h)⟩,
        by simp [IoRes.count], by simp, by simp, fun _ => .inl ⟨_, rfl⟩, fun _ hb => ⟨?_, by simp⟩⟩
      intro n hn
      cases hn
      cases buf with
      | nil => exact absurd rfl hb
      | cons => simp
    · have hsuf : o <:+ s.oracle := by rw [ho]; exact List.suffix_cons a o
      cases a with
      | accept n =>
        simp only [ho, Bool.false_eq_true, if_false, Prod.mk.injEq] at h
        obtain ⟨rfl, rfl⟩ := h
        refine ⟨⟨?_, by simp [Sink.view], by simpa [Sink.view] using hsuf,
          fun h => by simp [Sink.view] at h; simp [h] at hd, fun h => .inl (by simp [Sink.view] at h)⟩,
          by simp [IoRes.count]; omega, by simp, by simp, fun _ => .inl ⟨_, rfl⟩, fun _ hb => ⟨?_, by simp⟩⟩
        · simp only [IoRes.count, Sink.view, List.append_cancel_left_eq]
          rw [List.take_eq_take_iff]
          simp [Nat.min_assoc]
        · intro k hk
          cases hk
          cases buf with
          | nil => exact absurd rfl hb
          | cons => simp
      | zero =>
        simp only [ho, Bool.false_eq_true, if_false, Prod.mk.injEq] at h
        obtain ⟨rfl, rfl⟩ := h
        refine ⟨⟨by simp [IoRes.count, Sink.view], by simp [Sink.view], by simpa [Sink.view] using hsuf,
          fun h => by simp [Sink.view] at h; simp [h] at hd, fun h => .inl (by simp [Sink.view] at h)⟩,
          by simp [IoRes.count], by simp, by simp, fun hf => ?_, fun hs _ => ?_⟩
        · have := hf.2 WAns.zero (by simp [Sink.view, ho])
          simp [WAns.benign] at this
        · have := hs WAns.zero (by simp [Sink.view, ho])
          simp [WAns.hard] at this
      | intr =>
        simp only [ho, Bool.false_eq_true, if_false, Prod.mk.injEq] at h
        obtain ⟨rfl, rfl⟩ := h
        exact ⟨⟨by simp [IoRes.count, Sink.view], by simp [Sink.view], by simpa [Sink.view] using hsuf,
          fun h => by simp [Sink.view] at h; simp [h] at hd, fun h => .inl (by simp [Sink.view] at h)⟩,
          by simp [IoRes.count], by simp, fun _ => by simp [Sink.view, ho], fun _ => .inr rfl,
          fun _ _ => ⟨by simp, by simp⟩⟩
      | err sticky =>
        simp only [ho, Bool.false_eq_true, if_false, Prod.mk.injEq] at h
        obtain ⟨rfl, rfl⟩ := h
        refine ⟨⟨by simp [IoRes.count, Sink.view], by simp [Sink.view], by simpa [Sink.view] using hsuf,
          fun h => by simp [Sink.view] at h; simp [h] at hd, fun h => .inr ?_⟩,
          by simp [IoRes.count], by simp, by simp, fun hf => ?_, fun hs _ => ⟨by simp, fun _ _ _ => ?_⟩⟩
        · simp only [Sink.view] at h ⊢
          subst h
          simp [ho]
        · have := hf.2 (WAns.err sticky) (by simp [Sink.view, ho])
          simp [WAns.benign] at this
        · have := hs (WAns.err sticky) (by simp [Sink.view, ho])
          cases sticky
          · simp [WAns.hard] at this
          · simp [Sink.view]

theorem take_add' (l : Bytes) (m n : Nat) : l.take m ++ (l.drop m).take n = l.take (m + n) := by
  rw [List.take_add]

theorem sliceFrom_some {buf : Bytes} {n : Nat} (h : n ≤ buf.length) : sliceFrom buf n = some (buf.drop n) := by
  simp [sliceFrom, h]

theorem sliceTo_some {buf : Bytes} {n : Nat} (h : n ≤ buf.length) : sliceTo buf n = some (buf.take n) := by
  simp [sliceTo, h]

/-- the default `write_all` loop (io/mod.rs:1857-1869) over any `write` that keeps the `Write` contract -/
theorem defaultWriteAll_spec {ω : Type} (write : ω → Bytes → IoRes Nat × ω) (V : View ω)
    (hw : ∀ w buf r w', V.wf w → write w buf = (r, w') → V.wf w' ∧ WriteSpec (V.snap w) (V.snap w') buf r) :
    ∀ (fuel : Nat) (w : ω) (buf : Bytes) (r : IoRes Unit) (w' : ω), V.wf w →
      (V.snap w).oracle.length + buf.length < fuel → defaultWriteAll write fuel w buf = (r, w') →
      V.wf w' ∧ WriteAllSpec (V.snap w) (V.snap w') buf r := by
  intro fuel
  induction fuel with
  | zero => intro w buf r w' _ hf; omega
  | succ fuel ih =>
    intro w buf r w' hwf hfuel h
    unfold defaultWriteAll at h
    by_cases hb : buf = []
    · subst hb
      simp only [List.isEmpty_nil, if_true, Prod.mk.injEq] at h
      obtain ⟨rfl, rfl⟩ := h
      exact ⟨hwf, ⟨0, by simp, by simpa using Adv.refl _, by simp, by simp⟩, by simp, by simp, fun _ => rfl⟩
    · have hbe : buf.isEmpty = false := by cases buf <;> simp_all
      simp only [hbe, Bool.false_eq_true, if_false] at h
      generalize hp : write w buf = p at h
      obtain ⟨r1, w1⟩ := p
      obtain ⟨hwf1, sp⟩ := hw w buf r1 w1 hwf hp
      cases r1 with
      | ok n =>
        simp only at h
        by_cases hn : n = 0
        · subst hn
          simp only [if_true, Prod.mk.injEq] at h
          obtain ⟨rfl, rfl⟩ := h
          refine ⟨hwf1, ⟨0, by simp, by simpa [IoRes.count] using sp.adv, by simp, fun hs e _ => ?_⟩, by simp, by simp,
            fun hf => ?_⟩
          · have := (sp.sticky hs hb).1 0 rfl
            omega
          · have := (sp.sticky hf.toSticky hb).1 0 rfl
            omega
        · have hle : n ≤ buf.length := by simpa [IoRes.count] using sp.le
          simp only [hn, if_false, sliceFrom_some hle] at h
          have hadv : Adv (V.snap w) (V.snap w1) (buf.take n) := by simpa [IoRes.count] using sp.adv
          obtain ⟨hwf', sp'⟩ := ih w1 (buf.drop n) r w' hwf1 (by
            have := hadv.oracle_le
            simp only [List.length_drop]
            omega) h
          obtain ⟨k, hk, ha, hok, hst⟩ := sp'.adv
          simp only [List.length_drop] at hk hok hst
          refine ⟨hwf', ⟨n + k, by omega, (hadv.trans ha).cast (take_add' _ _ _), fun h => by have := hok h; omega,
            fun hs e he => ?_⟩, sp'.safe, sp'.noIntr, fun hf => sp'.clean (hadv.faultFree hf)⟩
          obtain ⟨a, b⟩ := hst (hadv.sticky hs) e he
          exact ⟨a, by omega⟩
      | err e =>
        simp only at h
        have hadv : Adv (V.snap w) (V.snap w1) [] := by simpa [IoRes.count] using sp.adv
        by_cases he : e = .interrupted
        · subst he
          simp only [if_true] at h
          obtain ⟨hwf', sp'⟩ := ih w1 buf r w' hwf1 (by have := sp.intr rfl; omega) h
          obtain ⟨k, hk, ha, hok, hst⟩ := sp'.adv
          exact ⟨hwf', ⟨k, hk, (hadv.trans ha).cast (by simp), hok, fun hs => hst (hadv.sticky hs)⟩, sp'.safe,
            sp'.noIntr, fun hf => sp'.clean (hadv.faultFree hf)⟩
        · simp only [he, if_false, Prod.mk.injEq] at h
          obtain ⟨rfl, rfl⟩ := h
          refine ⟨hwf1, ⟨0, by simp, by simpa using hadv, by simp, fun hs e' he' => ?_⟩, by simp, by simpa using he,
            fun hf => ?_⟩
          · cases he'
            exact ⟨(sp.sticky hs hb).2 e rfl he, .inr (List.length_pos_iff.mpr hb)⟩
          · rcases sp.clean hf with ⟨n, hn⟩ | hn
            · cases hn
            · cases hn; exact absurd rfl he
      | panic => exact absurd rfl sp.safe.1
      | hang => exact absurd rfl sp.safe.2

theorem Sink.spec : Spec Sink.writer Sink.view where
  fdPrefix := fun _ _ => List.prefix_refl _
  budget := fun _ => rfl
  write := fun w buf r w' _ h => ⟨trivial, Sink.write_spec w buf r w' h⟩
  writeAll := fun w buf r w' _ h =>
    defaultWriteAll_spec Sink.write Sink.view (fun w buf r w' _ h => ⟨trivial, Sink.write_spec w buf r w' h⟩)
      _ w buf r w' trivial (by simp [Sink.view]) h
  flush := fun w r w' _ h => by
    simp only [Sink.writer, Sink.flush, Prod.mk.injEq] at h
    obtain ⟨rfl, rfl⟩ := h
    exact ⟨trivial, Adv.refl _, by simp, by simp, fun _ => rfl, fun _ => rfl, fun _ e he => by cases he⟩

/-! ## 2. `BufWriter` -/

/-- a `BufWriter` adds its buffer to what has been accepted -/
def BufWriter.view {ω : Type} (V : View ω) : View (BufWriter ω) where
  snap := fun bw =>
    ⟨(V.snap bw.inner).fd, (V.snap bw.inner).all ++ bw.buf, (V.snap bw.inner).oracle, (V.snap bw.inner).dead⟩
  wf := fun bw => bw.buf.length ≤ bw.cap ∧ V.wf bw.inner

theorem Adv.lift {si si' : Snap} {x b b' y : Bytes} (h : Adv si si' x) (hb : x ++ b' = b ++ y) :
    Adv ⟨si.fd, si.all ++ b, si.oracle, si.dead⟩ ⟨si'.fd, si'.all ++ b', si'.oracle, si'.dead⟩ y where
  all := by simp only [h.all, List.append_assoc, hb]
  fd := h.fd
  oracle := h.oracle
  dead := h.dead
  born := h.born

section BufWriterProofs
variable {ω : Type} {W : Writer ω} {V : View ω}

theorem flushBufLoop_spec (hW : Spec W V) (buffer : Bytes) :
    ∀ (fuel written : Nat) (inner : ω) (r : IoRes Unit) (written' : Nat) (inner' : ω), V.wf inner →
      written ≤ buffer.length → (V.snap inner).oracle.length + (buffer.length - written) < fuel →
      BufWriter.flushBufLoop W buffer fuel written inner = (r, written', inner') →
      V.wf inner' ∧ written ≤ written' ∧ written' ≤ buffer.length ∧
      Adv (V.snap inner) (V.snap inner') ((buffer.drop written).take (written' - written)) ∧
      (r ≠ .panic ∧ r ≠ .hang) ∧ r ≠ .err .interrupted ∧
      (r = .ok () → written' = buffer.length) ∧
      ((V.snap inner).faultFree → r = .ok ()) ∧
      ((V.snap inner).sticky → ∀ e, r = .err e → (V.snap inner').dead = true ∧ written' < buffer.length) := by
  intro fuel
  induction fuel with
  | zero => intro written inner r written' inner' _ _ hf; omega
  | succ fuel ih =>
    intro written inner r written' inner' hwf hle hfuel h
    unfold BufWriter.flushBufLoop at h
    by_cases hdone : written ≥ buffer.length
    · simp only [hdone, if_true, Prod.mk.injEq] at h
      obtain ⟨rfl, rfl, rfl⟩ := h
      exact ⟨hwf, Nat.le_refl _, hle, by simpa using Adv.refl _, by simp, by simp, fun _ => by omega, fun _ => rfl,
        fun _ e he => by cases he⟩
    · simp only [hdone, if_false, sliceFrom_some hle] at h
      have hne : buffer.drop written ≠ [] := by
        intro h0
        have := congrArg List.length h0
        simp only [List.length_drop, List.length_nil] at this
        omega
      generalize hp : W.write inner (buffer.drop written) = p at h
      obtain ⟨r1, w1⟩ := p
      obtain ⟨hwf1, sp⟩ := hW.write inner _ r1 w1 hwf hp
      cases r1 with
      | ok n =>
        simp only at h
        have hadv : Adv (V.snap inner) (V.snap w1) ((buffer.drop written).take n) := by
          simpa [IoRes.count] using sp.adv
        by_cases hn : n = 0
        · subst hn
          simp only [if_true, Prod.mk.injEq] at h
          obtain ⟨rfl, rfl, rfl⟩ := h
          refine ⟨hwf1, Nat.le_refl _, hle, by simpa using hadv, by simp, by simp, by simp,
            fun hf => ?_, fun hs e _ => ?_⟩
          · have := (sp.sticky hf.toSticky hne).1 0 rfl
            omega
          · have := (sp.sticky hs hne).1 0 rfl
            omega
        · have hnle : n ≤ buffer.length - written := by simpa [IoRes.count] using sp.le
          simp only [hn, if_false] at h
          obtain ⟨hwf', h1, h2, ha, hsafe, hni, hok, hcl, hst⟩ :=
            ih (written + n) w1 r written' inner' hwf1 (by omega) (by have := hadv.oracle_le; omega) h
          refine ⟨hwf', by omega, h2, ?_, hsafe, hni, hok, fun hf => hcl (hadv.faultFree hf),
            fun hs => hst (hadv.sticky hs)⟩
          refine (hadv.trans ha).cast ?_
          rw [← List.drop_drop, take_add']
          congr 1
          omega
      | err e =>
        simp only at h
        have hadv : Adv (V.snap inner) (V.snap w1) [] := by simpa [IoRes.count] using sp.adv
        by_cases he : e = .interrupted
        · subst he
          simp only [if_true] at h
          obtain ⟨hwf', h1, h2, ha, hsafe, hni, hok, hcl, hst⟩ :=
            ih written w1 r written' inner' hwf1 hle (by have := sp.intr rfl; omega) h
          exact ⟨hwf', h1, h2, (hadv.trans ha).cast (by simp), hsafe, hni, hok, fun hf => hcl (hadv.faultFree hf),
            fun hs => hst (hadv.sticky hs)⟩
        · simp only [he, if_false, Prod.mk.injEq] at h
          obtain ⟨rfl, rfl, rfl⟩ := h
          refine ⟨hwf1, Nat.le_refl _, hle, by simpa using hadv, by simp, by simpa using he, by simp,
            fun hf => ?_, fun hs e' he' => ?_⟩
          · rcases sp.clean hf with ⟨n, hn⟩ | hn
            · cases hn
            · cases hn; exact absurd rfl he
          · cases he'
            exact ⟨(sp.sticky hs hne).2 e rfl he, by omega⟩
      | panic => exact absurd rfl sp.safe.1
      | hang => exact absurd rfl sp.safe.2

/-- what `flush_buf` guarantees -/
structure FlushBufSpec (V : View ω) (bw bw' : BufWriter ω) (r : IoRes Unit) : Prop where
  wf : (BufWriter.view V).wf bw'
  cap : bw'.cap = bw.cap
  adv : Adv ((BufWriter.view V).snap bw) ((BufWriter.view V).snap bw') []
  safe : r ≠ .panic ∧ r ≠ .hang
  noIntr : r ≠ .err .interrupted
  clean : ((BufWriter.view V).snap bw).faultFree → r = .ok ()
  done : r = .ok () → bw'.buf = []
  sticky : ((BufWriter.view V).snap bw).sticky → ∀ e, r = .err e →
    ((BufWriter.view V).snap bw').dead = true ∧ bw'.buf ≠ []

theorem flushBuf_spec (hW : Spec W V) (bw : BufWriter ω) (r : IoRes Unit) (bw' : BufWriter ω)
    (hwf : (BufWriter.view V).wf bw) (h : BufWriter.flushBuf W bw = (r, bw')) : FlushBufSpec V bw bw' r := by
  unfold BufWriter.flushBuf at h
  generalize hp : BufWriter.flushBufLoop W bw.buf (W.budget bw.inner + bw.buf.length + 1) 0 bw.inner = p at h
  obtain ⟨r1, written, inner⟩ := p
  obtain ⟨hwf', -, h2, ha, hsafe, hni, hok, hcl, hst⟩ :=
    flushBufLoop_spec hW bw.buf _ 0 bw.inner r1 written inner hwf.2 (Nat.zero_le _)
      (by rw [hW.budget]; omega) hp
  simp only [List.drop_zero, Nat.sub_zero] at ha
  have key : r = r1 ∧ bw' = { bw with buf := bw.buf.drop written, inner := inner } := by
    by_cases hw : written > 0
    · simp only [hw, if_true, sliceFrom_some h2, Prod.mk.injEq] at h
      exact ⟨h.1.symm, h.2.symm⟩
    · simp only [hw, if_false, Prod.mk.injEq] at h
      have : written = 0 := by omega
      subst this
      exact ⟨h.1.symm, by simpa using h.2.symm⟩
  obtain ⟨rfl, rfl⟩ := key
  refine ⟨⟨?_, hwf'⟩, rfl, ha.lift (by simp), hsafe, hni, hcl, fun h => ?_, fun hs e he => ⟨(hst hs e he).1, ?_⟩⟩
  · have := hwf.1
    simp only [List.length_drop]
    omega
  · have := hok h
    simp [this]
  · have := (hst hs e he).2
    intro h0
    have := congrArg List.length h0
    simp only [List.length_drop, List.length_nil] at this
    omega

theorem WriteSpec.after {s s0 s' : Snap} {buf : Bytes} {r : IoRes Nat} (h0 : Adv s s0 [])
    (h : WriteSpec s0 s' buf r) : WriteSpec s s' buf r where
  adv := (h0.trans h.adv).cast (by simp)
  le := h.le
  safe := h.safe
  intr := fun hr => by have := h.intr hr; have := h0.oracle_le; omega
  clean := fun hf => h.clean (h0.faultFree hf)
  sticky := fun hs => h.sticky (h0.sticky hs)

theorem WriteAllSpec.after {s s0 s' : Snap} {buf : Bytes} {r : IoRes Unit} (h0 : Adv s s0 [])
    (h : WriteAllSpec s0 s' buf r) : WriteAllSpec s s' buf r where
  adv := by
    obtain ⟨k, hk, ha, hok, hst⟩ := h.adv
    exact ⟨k, hk, (h0.trans ha).cast (by simp), hok, fun hs => hst (h0.sticky hs)⟩
  safe := h.safe
  noIntr := h.noIntr
  clean := fun hf => h.clean (h0.faultFree hf)

/-- bufwriter.rs:365-367 / 407-409 `if buf.len() > self.spare_capacity() { self.flush_buf()?; }` -/
structure PreSpec (V : View ω) (bw bw0 : BufWriter ω) (buf : Bytes) (r0 : IoRes Unit) : Prop where
  wf : (BufWriter.view V).wf bw0
  cap : bw0.cap = bw.cap
  adv : Adv ((BufWriter.view V).snap bw) ((BufWriter.view V).snap bw0) []
  safe : r0 ≠ .panic ∧ r0 ≠ .hang
  noIntr : r0 ≠ .err .interrupted
  clean : ((BufWriter.view V).snap bw).faultFree → r0 = .ok ()
  room : r0 = .ok () → buf.length ≤ bw0.cap - bw0.buf.length ∨ bw0.buf = []
  sticky : ((BufWriter.view V).snap bw).sticky → ∀ e, r0 = .err e →
    ((BufWriter.view V).snap bw0).dead = true ∧ buf ≠ []

theorem pre_spec (hW : Spec W V) (bw : BufWriter ω) (buf : Bytes) (r0 : IoRes Unit) (bw0 : BufWriter ω)
    (hwf : (BufWriter.view V).wf bw)
    (h : (if buf.length > bw.spareCapacity then BufWriter.flushBuf W bw else (.ok (), bw)) = (r0, bw0)) :
    PreSpec V bw bw0 buf r0 := by
  by_cases hc : buf.length > bw.spareCapacity
  · simp only [hc, if_true] at h
    have sp := flushBuf_spec hW bw r0 bw0 hwf h
    exact ⟨sp.wf, sp.cap, sp.adv, sp.safe, sp.noIntr, sp.clean, fun hr => .inr (sp.done hr),
      fun hs e he => ⟨(sp.sticky hs e he).1, by intro h0; subst h0; simp at hc⟩⟩
  · simp only [hc, if_false, Prod.mk.injEq] at h
    obtain ⟨rfl, rfl⟩ := h
    exact ⟨hwf, rfl, Adv.refl _, by simp, by simp, fun _ => rfl,
      fun _ => .inl (by simpa [BufWriter.spareCapacity] using hc), fun _ e he => by cases he⟩

theorem PreSpec.writeErr {bw bw0 : BufWriter ω} {buf : Bytes} {e : IoErr} (ps : PreSpec V bw bw0 buf (.err e)) :
    WriteSpec ((BufWriter.view V).snap bw) ((BufWriter.view V).snap bw0) buf (.err e) where
  adv := by simpa [IoRes.count] using ps.adv
  le := by simp [IoRes.count]
  safe := by simp
  intr := fun h => by cases h; exact absurd rfl ps.noIntr
  clean := fun hf => by have := ps.clean hf; cases this
  sticky := fun hs _ => ⟨by simp, fun e' he' _ => by cases he'; exact (ps.sticky hs e rfl).1⟩

theorem PreSpec.writeAllErr {bw bw0 : BufWriter ω} {buf : Bytes} {e : IoErr} (ps : PreSpec V bw bw0 buf (.err e)) :
    WriteAllSpec ((BufWriter.view V).snap bw) ((BufWriter.view V).snap bw0) buf (.err e) where
  adv := ⟨0, by simp, by simpa using ps.adv, by simp, fun hs e' he' => by
    cases he'
    exact ⟨(ps.sticky hs e rfl).1, .inr (List.length_pos_iff.mpr (ps.sticky hs e rfl).2)⟩⟩
  safe := by simp
  noIntr := ps.noIntr
  clean := fun hf => by have := ps.clean hf; cases this

/-- appending to the buffer -/
theorem buffered_adv (bw : BufWriter ω) (buf : Bytes) :
    Adv ((BufWriter.view V).snap bw) ((BufWriter.view V).snap { bw with buf := bw.buf ++ buf }) buf :=
  (Adv.refl (V.snap bw.inner)).lift (by simp)

theorem write_buffered (bw : BufWriter ω) (buf : Bytes) :
    WriteSpec ((BufWriter.view V).snap bw) ((BufWriter.view V).snap { bw with buf := bw.buf ++ buf }) buf
      (.ok buf.length) where
  adv := by simpa [IoRes.count] using buffered_adv (V := V) bw buf
  le := by simp [IoRes.count]
  safe := by simp
  intr := by simp
  clean := fun _ => .inl ⟨_, rfl⟩
  sticky := fun _ hb => ⟨fun n hn => by cases hn; exact List.length_pos_iff.mpr hb, by simp⟩

theorem writeAll_buffered (bw : BufWriter ω) (buf : Bytes) :
    WriteAllSpec ((BufWriter.view V).snap bw) ((BufWriter.view V).snap { bw with buf := bw.buf ++ buf }) buf
      (.ok ()) where
  adv := ⟨buf.length, Nat.le_refl _, by simpa using buffered_adv (V := V) bw buf, fun _ => rfl,
    fun _ e he => by cases he⟩
  safe := by simp
  noIntr := by simp
  clean := fun _ => rfl

theorem room_empty {bw0 : BufWriter ω} {buf : Bytes} (hwf : (BufWriter.view V).wf bw0)
    (hroom : buf.length ≤ bw0.cap - bw0.buf.length ∨ bw0.buf = []) (hc : buf.length ≥ bw0.cap) : bw0.buf = [] := by
  rcases hroom with h | h
  · have := hwf.1
    exact List.eq_nil_of_length_eq_zero (by omega)
  · exact h

theorem room_fits {bw0 : BufWriter ω} {buf : Bytes}
    (hroom : buf.length ≤ bw0.cap - bw0.buf.length ∨ bw0.buf = []) (hc : ¬ buf.length ≥ bw0.cap) :
    buf.length ≤ bw0.spareCapacity := by
  rcases hroom with h | h
  · exact h
  · simp only [BufWriter.spareCapacity, h, List.length_nil]; omega

theorem writeCold_spec (hW : Spec W V) (bw : BufWriter ω) (buf : Bytes) (r : IoRes Nat) (bw' : BufWriter ω)
    (hwf : (BufWriter.view V).wf bw) (h : BufWriter.writeCold W bw buf = (r, bw')) :
    (BufWriter.view V).wf bw' ∧ bw'.cap = bw.cap ∧
      WriteSpec ((BufWriter.view V).snap bw) ((BufWriter.view V).snap bw') buf r := by
  unfold BufWriter.writeCold at h
  generalize hp : (if buf.length > bw.spareCapacity then BufWriter.flushBuf W bw else (.ok (), bw)) = p at h
  obtain ⟨r0, bw0⟩ := p
  have ps := pre_spec hW bw buf r0 bw0 hwf hp
  cases r0 with
  | ok u =>
    simp only [andThen] at h
    have hroom := ps.room rfl
    by_cases hc : buf.length ≥ bw0.cap
    · have hemp := room_empty ps.wf hroom hc
      simp only [hc, if_true] at h
      generalize hq : W.write bw0.inner buf = q at h
      obtain ⟨r1, w1⟩ := q
      simp only [mapState, Prod.mk.injEq] at h
      obtain ⟨rfl, rfl⟩ := h
      obtain ⟨hwf1, sp⟩ := hW.write _ _ _ _ ps.wf.2 hq
      refine ⟨⟨by simpa using ps.wf.1, hwf1⟩, ps.cap, WriteSpec.after ps.adv ⟨?_, sp.le, sp.safe, sp.intr, sp.clean, sp.sticky⟩⟩
      have := sp.adv.lift (b := []) (b' := []) (y := buf.take (IoRes.count r1)) (by simp)
      simpa [BufWriter.view, hemp] using this
    · have hfit := room_fits hroom hc
      simp only [hc, if_false, BufWriter.writeToBufferUnchecked, hfit, if_true, Prod.mk.injEq] at h
      obtain ⟨rfl, rfl⟩ := h
      refine ⟨⟨?_, ps.wf.2⟩, ps.cap, WriteSpec.after ps.adv (write_buffered bw0 buf)⟩
      simp only [List.length_append, BufWriter.spareCapacity] at hfit ⊢
      have := ps.wf.1
      omega
  | err e =>
    simp only [andThen, id, Prod.mk.injEq] at h
    obtain ⟨rfl, rfl⟩ := h
    exact ⟨ps.wf, ps.cap, ps.writeErr⟩
  | panic => exact absurd rfl ps.safe.1
  | hang => exact absurd rfl ps.safe.2

theorem BufWriter.write_spec (hW : Spec W V) (bw : BufWriter ω) (buf : Bytes) (r : IoRes Nat) (bw' : BufWriter ω)
    (hwf : (BufWriter.view V).wf bw) (h : BufWriter.write W bw buf = (r, bw')) :
    (BufWriter.view V).wf bw' ∧ bw'.cap = bw.cap ∧
      WriteSpec ((BufWriter.view V).snap bw) ((BufWriter.view V).snap bw') buf r := by
  unfold BufWriter.write at h
  by_cases hc : buf.length < bw.spareCapacity
  · have hfit : buf.length ≤ bw.spareCapacity := Nat.le_of_lt hc
    simp only [hc, if_true, BufWriter.writeToBufferUnchecked, hfit, Prod.mk.injEq] at h
    obtain ⟨rfl, rfl⟩ := h
    refine ⟨⟨?_, hwf.2⟩, rfl, write_buffered bw buf⟩
    simp only [List.length_append, BufWriter.spareCapacity] at hfit ⊢
    have := hwf.1
    omega
  · simp only [hc, if_false] at h
    exact writeCold_spec hW bw buf r bw' hwf h

theorem writeAllCold_spec (hW : Spec W V) (bw : BufWriter ω) (buf : Bytes) (r : IoRes Unit) (bw' : BufWriter ω)
    (hwf : (BufWriter.view V).wf bw) (h : BufWriter.writeAllCold W bw buf = (r, bw')) :
    (BufWriter.view V).wf bw' ∧ bw'.cap = bw.cap ∧
      WriteAllSpec ((BufWriter.view V).snap bw) ((BufWriter.view V).snap bw') buf r := by
  unfold BufWriter.writeAllCold at h
  generalize hp : (if buf.length > bw.spareCapacity then BufWriter.flushBuf W bw else (.ok (), bw)) = p at h
  obtain ⟨r0, bw0⟩ := p
  have ps := pre_spec hW bw buf r0 bw0 hwf hp
  cases r0 with
  | ok u =>
    simp only [andThen] at h
    have hroom := ps.room rfl
    by_cases hc : buf.length ≥ bw0.cap
    · have hemp := room_empty ps.wf hroom hc
      simp only [hc, if_true] at h
      generalize hq : W.writeAll bw0.inner buf = q at h
      obtain ⟨r1, w1⟩ := q
      simp only [mapState, Prod.mk.injEq] at h
      obtain ⟨rfl, rfl⟩ := h
      obtain ⟨hwf1, sp⟩ := hW.writeAll _ _ _ _ ps.wf.2 hq
      refine ⟨⟨by simpa using ps.wf.1, hwf1⟩, ps.cap, WriteAllSpec.after ps.adv ⟨?_, sp.safe, sp.noIntr, sp.clean⟩⟩
      obtain ⟨k, hk, ha, hok, hst⟩ := sp.adv
      refine ⟨k, hk, ?_, hok, fun hs e he => ?_⟩
      · have := ha.lift (b := []) (b' := []) (y := buf.take k) (by simp)
        simpa [BufWriter.view, hemp] using this
      · obtain ⟨a, b⟩ := hst hs e he
        refine ⟨a, ?_⟩
        simpa [BufWriter.view, hemp] using b
    · have hfit := room_fits hroom hc
      simp only [hc, if_false, BufWriter.writeToBufferUnchecked, hfit, if_true, Prod.mk.injEq] at h
      obtain ⟨rfl, rfl⟩ := h
      refine ⟨⟨?_, ps.wf.2⟩, ps.cap, WriteAllSpec.after ps.adv (writeAll_buffered bw0 buf)⟩
      simp only [List.length_append, BufWriter.spareCapacity] at hfit ⊢
      have := ps.wf.1
      omega
  | err e =>
    simp only [andThen, id, Prod.mk.injEq] at h
    obtain ⟨rfl, rfl⟩ := h
    exact ⟨ps.wf, ps.cap, ps.writeAllErr⟩
  | panic => exact absurd rfl ps.safe.1
  | hang => exact absurd rfl ps.safe.2

theorem BufWriter.writeAll_spec (hW : Spec W V) (bw : BufWriter ω) (buf : Bytes) (r : IoRes Unit)
    (bw' : BufWriter ω) (hwf : (BufWriter.view V).wf bw) (h : BufWriter.writeAll W bw buf = (r, bw')) :
    (BufWriter.view V).wf bw' ∧ bw'.cap = bw.cap ∧
      WriteAllSpec ((BufWriter.view V).snap bw) ((BufWriter.view V).snap bw') buf r := by
  unfold BufWriter.writeAll at h
  by_cases hc : buf.length < bw.spareCapacity
  · have hfit : buf.length ≤ bw.spareCapacity := Nat.le_of_lt hc
    simp only [hc, if_true, BufWriter.writeToBufferUnchecked, hfit, Prod.mk.injEq] at h
    obtain ⟨rfl, rfl⟩ := h
    refine ⟨⟨?_, hwf.2⟩, rfl, writeAll_buffered bw buf⟩
    simp only [List.length_append, BufWriter.spareCapacity] at hfit ⊢
    have := hwf.1
    omega
  · simp only [hc, if_false] at h
    exact writeAllCold_spec hW bw buf r bw' hwf h

theorem fd_lt_all (hW : Spec W V) {bw : BufWriter ω} (hwf : (BufWriter.view V).wf bw) (hb : bw.buf ≠ []) :
    ((BufWriter.view V).snap bw).fd.length < ((BufWriter.view V).snap bw).all.length := by
  have := (hW.fdPrefix bw.inner hwf.2).length_le
  have := List.length_pos_iff.mpr hb
  simp only [BufWriter.view, List.length_append]
  omega

theorem BufWriter.flush_spec (hW : Spec W V) (bw : BufWriter ω) (r : IoRes Unit) (bw' : BufWriter ω)
    (hwf : (BufWriter.view V).wf bw) (h : BufWriter.flush W bw = (r, bw')) :
    (BufWriter.view V).wf bw' ∧ bw'.cap = bw.cap ∧
      FlushSpec ((BufWriter.view V).snap bw) ((BufWriter.view V).snap bw') r := by
  unfold BufWriter.flush at h
  generalize hp : BufWriter.flushBuf W bw = p at h
  obtain ⟨r0, bw0⟩ := p
  have ps := flushBuf_spec hW bw r0 bw0 hwf hp
  cases r0 with
  | ok u =>
    simp only [andThen] at h
    generalize hq : W.flush bw0.inner = q at h
    obtain ⟨r1, w1⟩ := q
    simp only [mapState, Prod.mk.injEq] at h
    obtain ⟨rfl, rfl⟩ := h
    obtain ⟨hwf1, sp⟩ := hW.flush _ _ _ ps.wf.2 hq
    have hemp := ps.done rfl
    have hadv : Adv ((BufWriter.view V).snap bw0) ((BufWriter.view V).snap { bw0 with inner := w1 }) [] := by
      have := sp.adv.lift (b := []) (b' := []) (y := []) (by simp)
      simpa [BufWriter.view, hemp] using this
    refine ⟨⟨by simpa using ps.wf.1, hwf1⟩, ps.cap, (ps.adv.trans hadv).cast (by simp), sp.safe, sp.noIntr,
      fun hf => sp.clean (ps.adv.faultFree hf), fun hr => ?_, fun hs e he => ?_⟩
    · simpa [BufWriter.view, hemp] using sp.done hr
    · obtain ⟨a, b⟩ := sp.sticky (ps.adv.sticky hs) e he
      refine ⟨a, ?_⟩
      simpa [BufWriter.view, hemp] using b
  | err e =>
    simp only [andThen, id, Prod.mk.injEq] at h
    obtain ⟨rfl, rfl⟩ := h
    refine ⟨ps.wf, ps.cap, ps.adv, by simp, ps.noIntr, fun hf => (by have := ps.clean hf; cases this), by simp,
      fun hs e' he' => ?_⟩
    cases he'
    exact ⟨(ps.sticky hs e rfl).1, fd_lt_all hW ps.wf (ps.sticky hs e rfl).2⟩
  | panic => exact absurd rfl ps.safe.1
  | hang => exact absurd rfl ps.safe.2

/-- **`BufWriter<W>` keeps the `Write` contract if `W` does** (any capacity) -/
theorem BufWriter.spec (hW : Spec W V) : Spec (BufWriter.writer W) (BufWriter.view V) where
  fdPrefix := fun bw hwf => (hW.fdPrefix bw.inner hwf.2).trans (List.prefix_append _ _)
  budget := fun bw => hW.budget bw.inner
  write := fun bw buf r bw' hwf h => by
    have := BufWriter.write_spec hW bw buf r bw' hwf h
    exact ⟨this.1, this.2.2⟩
  writeAll := fun bw buf r bw' hwf h => by
    have := BufWriter.writeAll_spec hW bw buf r bw' hwf h
    exact ⟨this.1, this.2.2⟩
  flush := fun bw r bw' hwf h => by
    have := BufWriter.flush_spec hW bw r bw' hwf h
    exact ⟨this.1, this.2.2⟩

/-! ## 3. `LineWriterShim` / `LineWriter` -/

/-- an operation that accepts nothing new (`flush_buf`, `flush_if_completed_line`) -/
structure StepSpec (s s' : Snap) (r : IoRes Unit) : Prop where
  adv : Adv s s' []
  safe : r ≠ .panic ∧ r ≠ .hang
  noIntr : r ≠ .err .interrupted
  clean : s.faultFree → r = .ok ()
  sticky : s.sticky → ∀ e, r = .err e → s'.dead = true ∧ s'.fd.length < s'.all.length

theorem FlushBufSpec.step (hW : Spec W V) {bw bw' : BufWriter ω} {r : IoRes Unit} (h : FlushBufSpec V bw bw' r) :
    StepSpec ((BufWriter.view V).snap bw) ((BufWriter.view V).snap bw') r :=
  ⟨h.adv, h.safe, h.noIntr, h.clean, fun hs e he => ⟨(h.sticky hs e he).1, fd_lt_all hW h.wf (h.sticky hs e he).2⟩⟩

theorem StepSpec.writeErr {s s' : Snap} {e : IoErr} (buf : Bytes) (h : StepSpec s s' (.err e)) :
    WriteSpec s s' buf (.err e) where
  adv := by simpa [IoRes.count] using h.adv
  le := by simp [IoRes.count]
  safe := by simp
  intr := fun hr => by cases hr; exact absurd rfl h.noIntr
  clean := fun hf => by have := h.clean hf; cases this
  sticky := fun hs _ => ⟨by simp, fun e' he' _ => by cases he'; exact (h.sticky hs e rfl).1⟩

theorem StepSpec.writeAllErr {s s' : Snap} {e : IoErr} (buf : Bytes) (h : StepSpec s s' (.err e)) :
    WriteAllSpec s s' buf (.err e) where
  adv := ⟨0, by simp, by simpa using h.adv, by simp, fun hs e' he' => by
    cases he'
    exact ⟨(h.sticky hs e rfl).1, .inl (h.sticky hs e rfl).2⟩⟩
  safe := by simp
  noIntr := h.noIntr
  clean := fun hf => by have := h.clean hf; cases this

theorem WriteAllSpec.append {s s1 s2 : Snap} {x y : Bytes} {r : IoRes Unit} (h1 : WriteAllSpec s s1 x (.ok ()))
    (h2 : WriteAllSpec s1 s2 y r) : WriteAllSpec s s2 (x ++ y) r where
  adv := by
    obtain ⟨k1, _, ha1, hok1, _⟩ := h1.adv
    obtain ⟨k, hk, ha, hok, hst⟩ := h2.adv
    have hk1 := hok1 rfl
    subst hk1
    simp only [List.take_length] at ha1
    refine ⟨x.length + k, by simp; omega, (ha1.trans ha).cast ?_, fun hr => by simp [hok hr],
      fun hs e he => ?_⟩
    · rw [List.take_length_add_append]
    · obtain ⟨a, b⟩ := hst (ha1.sticky hs) e he
      exact ⟨a, by simp only [List.length_append]; omega⟩
  safe := h2.safe
  noIntr := h2.noIntr
  clean := fun hf => by
    obtain ⟨k1, _, ha1, _, _⟩ := h1.adv
    exact h2.clean (ha1.faultFree hf)

theorem WriteAllSpec.errLeft {s s1 : Snap} {x : Bytes} {e : IoErr} (y : Bytes) (h1 : WriteAllSpec s s1 x (.err e)) :
    WriteAllSpec s s1 (x ++ y) (.err e) where
  adv := by
    obtain ⟨k, hk, ha, _, hst⟩ := h1.adv
    refine ⟨k, by simp; omega, ha.cast ?_, by simp, fun hs e' he' => ?_⟩
    · rw [List.take_append_of_le_length hk]
    · obtain ⟨a, b⟩ := hst hs e' he'
      exact ⟨a, by simp only [List.length_append]; omega⟩
  safe := by simp
  noIntr := h1.noIntr
  clean := h1.clean

theorem WriteAllSpec.thenStep {s s1 s2 : Snap} {x : Bytes} {r : IoRes Unit} (h1 : WriteAllSpec s s1 x (.ok ()))
    (h2 : StepSpec s1 s2 r) : WriteAllSpec s s2 x r where
  adv := by
    obtain ⟨k1, hk1, ha1, hok1, _⟩ := h1.adv
    refine ⟨k1, hk1, (ha1.trans h2.adv).cast (by simp), fun _ => hok1 rfl, fun hs e he => ?_⟩
    obtain ⟨a, b⟩ := h2.sticky (ha1.sticky hs) e he
    exact ⟨a, .inl b⟩
  safe := h2.safe
  noIntr := h2.noIntr
  clean := fun hf => by
    obtain ⟨k1, _, ha1, _, _⟩ := h1.adv
    exact h2.clean (ha1.faultFree hf)

/-- a call on the writer below a `BufWriter` whose buffer is empty, seen from above -/
theorem liftEmpty_adv {b : BufWriter ω} {w1 : ω} {x : Bytes} (hemp : b.buf = [])
    (ha : Adv (V.snap b.inner) (V.snap w1) x) :
    Adv ((BufWriter.view V).snap b) ((BufWriter.view V).snap { b with inner := w1 }) x := by
  have := ha.lift (b := []) (b' := []) (y := x) (by simp)
  simpa [BufWriter.view, hemp] using this

theorem liftEmpty_write {b : BufWriter ω} {w1 : ω} {x : Bytes} {r : IoRes Nat} (hemp : b.buf = [])
    (sp : WriteSpec (V.snap b.inner) (V.snap w1) x r) :
    WriteSpec ((BufWriter.view V).snap b) ((BufWriter.view V).snap { b with inner := w1 }) x r :=
  ⟨liftEmpty_adv hemp sp.adv, sp.le, sp.safe, sp.intr, sp.clean, sp.sticky⟩

theorem liftEmpty_writeAll {b : BufWriter ω} {w1 : ω} {x : Bytes} {r : IoRes Unit} (hemp : b.buf = [])
    (sp : WriteAllSpec (V.snap b.inner) (V.snap w1) x r) :
    WriteAllSpec ((BufWriter.view V).snap b) ((BufWriter.view V).snap { b with inner := w1 }) x r := by
  refine ⟨?_, sp.safe, sp.noIntr, sp.clean⟩
  obtain ⟨k, hk, ha, hok, hst⟩ := sp.adv
  refine ⟨k, hk, liftEmpty_adv hemp ha, hok, fun hs e he => ?_⟩
  obtain ⟨a, b⟩ := hst hs e he
  refine ⟨a, ?_⟩
  simpa [BufWriter.view, hemp] using b

theorem memrchr_lt (c : UInt8) : ∀ (buf : Bytes) (i : Nat), memrchr c buf = some i → i < buf.length
  | [], i, h => by simp [memrchr] at h
  | x :: t, i, h => by
    unfold memrchr at h
    cases ht : memrchr c t with
    | some j =>
      simp only [ht, Option.some.injEq] at h
      have := memrchr_lt c t j ht
      simp only [List.length_cons]
      omega
    | none =>
      simp only [ht] at h
      split at h
      · cases h; simp
      · cases h

theorem flushIfCompletedLine_spec (hW : Spec W V) (b : BufWriter ω) (r : IoRes Unit) (b' : BufWriter ω)
    (hwf : (BufWriter.view V).wf b) (h : Shim.flushIfCompletedLine W b = (r, b')) :
    (BufWriter.view V).wf b' ∧ b'.cap = b.cap ∧
      StepSpec ((BufWriter.view V).snap b) ((BufWriter.view V).snap b') r := by
  unfold Shim.flushIfCompletedLine at h
  split at h
  · have sp := flushBuf_spec hW b r b' hwf h
    exact ⟨sp.wf, sp.cap, sp.step hW⟩
  · simp only [Prod.mk.injEq] at h
    obtain ⟨rfl, rfl⟩ := h
    exact ⟨hwf, rfl, Adv.refl _, by simp, by simp, fun _ => rfl, fun _ e he => by cases he⟩

theorem writeToBuf_eq (b : BufWriter ω) (t : Bytes) :
    b.writeToBuf t = some (min b.spareCapacity t.length,
      { b with buf := b.buf ++ t.take (min b.spareCapacity t.length) }) := by
  unfold BufWriter.writeToBuf
  have h1 : min b.spareCapacity t.length ≤ t.length := Nat.min_le_right _ _
  simp only [sliceTo_some h1, BufWriter.writeToBufferUnchecked, List.length_take]
  rw [if_pos]
  omega

theorem tailOf_spec (cap : Nat) (buf : Bytes) (nl fl : Nat) (h1 : fl ≤ nl) (h2 : nl ≤ buf.length) :
    Shim.tailOf cap buf nl fl ≠ .panic ∧ ∀ t, Shim.tailOf cap buf nl fl = .tail t → t <+: buf.drop fl := by
  have hfl : fl ≤ buf.length := Nat.le_trans h1 h2
  unfold Shim.tailOf
  by_cases hc1 : fl ≥ nl
  · simp only [hc1, if_true, sliceFrom_some hfl]
    split
    · exact ⟨by simp, by simp⟩
    · exact ⟨by simp, fun t ht => by cases ht; exact List.prefix_refl _⟩
  · simp only [hc1, if_false]
    by_cases hc2 : nl - fl ≤ cap
    · have : fl ≤ nl ∧ nl ≤ buf.length := ⟨h1, h2⟩
      simp only [hc2, if_true, sliceRange, this, and_self, Shim.Tail.ofOption]
      exact ⟨by simp, fun t ht => by cases ht; exact List.take_prefix _ _⟩
    · have hcap : cap ≤ (buf.drop fl).length := by simp only [List.length_drop]; omega
      simp only [hc2, if_false, sliceFrom_some hfl, sliceTo_some hcap]
      cases hm : memrchr 0x0A ((buf.drop fl).take cap) with
      | none => exact ⟨by simp, fun t ht => by cases ht; exact List.take_prefix _ _⟩
      | some i =>
        have hi := memrchr_lt _ _ _ hm
        have : i + 1 ≤ ((buf.drop fl).take cap).length := hi
        simp only [sliceTo_some this, Shim.Tail.ofOption]
        exact ⟨by simp, fun t ht => by cases ht; exact (List.take_prefix _ _).trans (List.take_prefix _ _)⟩

theorem take_of_prefix {t l : Bytes} (h : t <+: l) {n : Nat} (hn : n ≤ t.length) : t.take n = l.take n := by
  obtain ⟨u, rfl⟩ := h
  rw [List.take_append_of_le_length hn]

theorem Shim.write_spec (hW : Spec W V) (b : BufWriter ω) (buf : Bytes) (r : IoRes Nat) (b' : BufWriter ω)
    (hwf : (BufWriter.view V).wf b) (h : Shim.write W b buf = (r, b')) :
    (BufWriter.view V).wf b' ∧ b'.cap = b.cap ∧
      WriteSpec ((BufWriter.view V).snap b) ((BufWriter.view V).snap b') buf r := by
  unfold Shim.write at h
  cases hm : memrchr 0x0A buf with
  | none =>
    simp only [hm] at h
    generalize hp : Shim.flushIfCompletedLine W b = p at h
    obtain ⟨r0, b0⟩ := p
    obtain ⟨hwf0, hcap0, sp0⟩ := flushIfCompletedLine_spec hW b r0 b0 hwf hp
    cases r0 with
    | ok u =>
      simp only [andThen] at h
      obtain ⟨hwf', hcap', sp⟩ := BufWriter.write_spec hW b0 buf r b' hwf0 h
      exact ⟨hwf', hcap'.trans hcap0, WriteSpec.after sp0.adv sp⟩
    | err e =>
      simp only [andThen, id, Prod.mk.injEq] at h
      obtain ⟨rfl, rfl⟩ := h
      exact ⟨hwf0, hcap0, sp0.writeErr buf⟩
    | panic => exact absurd rfl sp0.safe.1
    | hang => exact absurd rfl sp0.safe.2
  | some idx =>
    have hidx := memrchr_lt _ _ _ hm
    have hnl : idx + 1 ≤ buf.length := hidx
    simp only [hm] at h
    generalize hp : BufWriter.flushBuf W b = p at h
    obtain ⟨r0, b0⟩ := p
    have fs := flushBuf_spec hW b r0 b0 hwf hp
    have sp0 := fs.step hW
    cases r0 with
    | ok u =>
      have hemp := fs.done rfl
      simp only [andThen, sliceTo_some hnl] at h
      generalize hq : W.write b0.inner (buf.take (idx + 1)) = q at h
      obtain ⟨r1, w1⟩ := q
      obtain ⟨hwf1, sp⟩ := hW.write _ _ _ _ fs.wf.2 hq
      have hlines : buf.take (idx + 1) ≠ [] := by
        intro h0
        have := congrArg List.length h0
        simp only [List.length_take, List.length_nil] at this
        omega
      have hwfb : (BufWriter.view V).wf { b0 with inner := w1 } := ⟨fs.wf.1, hwf1⟩
      have sp1 := liftEmpty_write hemp sp
      cases r1 with
      | ok flushed =>
        have hfl : flushed ≤ idx + 1 := by
          have := sp.le
          simp only [IoRes.count, List.length_take] at this
          omega
        have htake : (buf.take (idx + 1)).take flushed = buf.take flushed := by
          rw [List.take_take, Nat.min_eq_left hfl]
        have hadv1 : Adv ((BufWriter.view V).snap b0) ((BufWriter.view V).snap { b0 with inner := w1 })
            (buf.take flushed) := by
          have := sp1.adv
          simp only [IoRes.count, htake] at this
          exact this
        simp only at h
        by_cases hz : flushed = 0
        · subst hz
          simp only [if_true, Prod.mk.injEq] at h
          obtain ⟨rfl, rfl⟩ := h
          refine ⟨hwfb, fs.cap, WriteSpec.after sp0.adv ⟨by simpa [IoRes.count] using hadv1, by simp [IoRes.count],
            by simp, by simp, fun _ => .inl ⟨_, rfl⟩, fun hs _ => ?_⟩⟩
          have := (sp.sticky hs hlines).1 0 rfl
          omega
        · simp only [hz, if_false] at h
          obtain ⟨hnp, htl⟩ := tailOf_spec b0.cap buf (idx + 1) flushed hfl hnl
          cases ht : Shim.tailOf b0.cap buf (idx + 1) flushed with
          | panic => exact absurd ht hnp
          | ret =>
            simp only [ht, Prod.mk.injEq] at h
            obtain ⟨rfl, rfl⟩ := h
            refine ⟨hwfb, fs.cap, WriteSpec.after sp0.adv ⟨by simpa [IoRes.count] using hadv1, ?_, by simp, by simp,
              fun _ => .inl ⟨_, rfl⟩, fun _ _ => ⟨fun n hn => by cases hn; omega, by simp⟩⟩⟩
            simp only [IoRes.count]
            omega
          | tail t =>
            have hpre := htl t ht
            simp only [ht, writeToBuf_eq, Prod.mk.injEq] at h
            obtain ⟨rfl, rfl⟩ := h
            have hamt : min (BufWriter.spareCapacity { b0 with inner := w1 }) t.length ≤ t.length :=
              Nat.min_le_right _ _
            have hamt2 : min (BufWriter.spareCapacity { b0 with inner := w1 }) t.length ≤ b0.cap :=
              Nat.le_trans (Nat.min_le_left _ _) (Nat.sub_le _ _)
            generalize min (BufWriter.spareCapacity { b0 with inner := w1 }) t.length = amt at hamt hamt2 ⊢
            have htlen : t.length ≤ buf.length - flushed := by
              have := hpre.length_le
              simpa using this
            refine ⟨⟨?_, hwf1⟩, fs.cap, WriteSpec.after sp0.adv ⟨?_, ?_, by simp, by simp,
              fun _ => .inl ⟨_, rfl⟩, fun _ _ => ⟨fun n hn => by cases hn; omega, by simp⟩⟩⟩
            · simp only [hemp, List.nil_append, List.length_take]
              omega
            · simp only [IoRes.count]
              have h2 := buffered_adv (V := V) { b0 with inner := w1 } (t.take amt)
              refine (hadv1.trans h2).cast ?_
              rw [take_of_prefix hpre hamt, take_add']
            · simp only [IoRes.count]
              omega
      | err e =>
        simp only [Prod.mk.injEq] at h
        obtain ⟨rfl, rfl⟩ := h
        exact ⟨hwfb, fs.cap, WriteSpec.after sp0.adv ⟨by simpa [IoRes.count] using sp1.adv, by simp [IoRes.count],
          by simp, sp1.intr, sp1.clean, fun hs _ => ⟨by simp, (sp1.sticky hs hlines).2⟩⟩⟩
      | panic => exact absurd rfl sp.safe.1
      | hang => exact absurd rfl sp.safe.2
    | err e =>
      simp only [andThen, id, Prod.mk.injEq] at h
      obtain ⟨rfl, rfl⟩ := h
      exact ⟨fs.wf, fs.cap, sp0.writeErr buf⟩
    | panic => exact absurd rfl fs.safe.1
    | hang => exact absurd rfl fs.safe.2

/-- linewritershim.rs:280-291 -/
theorem writeLines_spec (hW : Spec W V) (b : BufWriter ω) (lines : Bytes) (r : IoRes Unit) (b' : BufWriter ω)
    (hwf : (BufWriter.view V).wf b)
    (h : (if b.buf.isEmpty then mapState (fun inner => { b with inner := inner }) (W.writeAll b.inner lines)
          else andThen (BufWriter.writeAll W b lines) (fun _ b => BufWriter.flushBuf W b) id) = (r, b')) :
    (BufWriter.view V).wf b' ∧ b'.cap = b.cap ∧
      WriteAllSpec ((BufWriter.view V).snap b) ((BufWriter.view V).snap b') lines r := by
  by_cases hemp : b.buf = []
  · simp only [hemp, List.isEmpty_nil, if_true] at h
    generalize hq : W.writeAll b.inner lines = q at h
    obtain ⟨r1, w1⟩ := q
    simp only [mapState, Prod.mk.injEq] at h
    obtain ⟨rfl, rfl⟩ := h
    obtain ⟨hwf1, sp⟩ := hW.writeAll _ _ _ _ hwf.2 hq
    exact ⟨⟨by simp, hwf1⟩, rfl, by simpa [hemp] using liftEmpty_writeAll hemp sp⟩
  · have hne : b.buf.isEmpty = false := by cases hb : b.buf <;> simp_all
    simp only [hne, Bool.false_eq_true, if_false] at h
    generalize hp : BufWriter.writeAll W b lines = p at h
    obtain ⟨r0, b0⟩ := p
    obtain ⟨hwf0, hcap0, sp0⟩ := BufWriter.writeAll_spec hW b lines r0 b0 hwf hp
    cases r0 with
    | ok u =>
      simp only [andThen] at h
      have fs := flushBuf_spec hW b0 r b' hwf0 h
      exact ⟨fs.wf, fs.cap.trans hcap0, sp0.thenStep (fs.step hW)⟩
    | err e =>
      simp only [andThen, id, Prod.mk.injEq] at h
      obtain ⟨rfl, rfl⟩ := h
      exact ⟨hwf0, hcap0, sp0⟩
    | panic => exact absurd rfl sp0.safe.1
    | hang => exact absurd rfl sp0.safe.2

theorem Shim.writeAll_spec (hW : Spec W V) (b : BufWriter ω) (buf : Bytes) (r : IoRes Unit) (b' : BufWriter ω)
    (hwf : (BufWriter.view V).wf b) (h : Shim.writeAll W b buf = (r, b')) :
    (BufWriter.view V).wf b' ∧ b'.cap = b.cap ∧
      WriteAllSpec ((BufWriter.view V).snap b) ((BufWriter.view V).snap b') buf r := by
  unfold Shim.writeAll at h
  cases hm : memrchr 0x0A buf with
  | none =>
    simp only [hm] at h
    generalize hp : Shim.flushIfCompletedLine W b = p at h
    obtain ⟨r0, b0⟩ := p
    obtain ⟨hwf0, hcap0, sp0⟩ := flushIfCompletedLine_spec hW b r0 b0 hwf hp
    cases r0 with
    | ok u =>
      simp only [andThen] at h
      obtain ⟨hwf', hcap', sp⟩ := BufWriter.writeAll_spec hW b0 buf r b' hwf0 h
      exact ⟨hwf', hcap'.trans hcap0, WriteAllSpec.after sp0.adv sp⟩
    | err e =>
      simp only [andThen, id, Prod.mk.injEq] at h
      obtain ⟨rfl, rfl⟩ := h
      exact ⟨hwf0, hcap0, sp0.writeAllErr buf⟩
    | panic => exact absurd rfl sp0.safe.1
    | hang => exact absurd rfl sp0.safe.2
  | some idx =>
    have hidx := memrchr_lt _ _ _ hm
    have hnl : idx + 1 ≤ buf.length := hidx
    simp only [hm, sliceTo_some hnl, sliceFrom_some hnl] at h
    generalize hp : (if b.buf.isEmpty then
        mapState (fun inner => { b with inner := inner }) (W.writeAll b.inner (buf.take (idx + 1)))
      else andThen (BufWriter.writeAll W b (buf.take (idx + 1))) (fun _ b => BufWriter.flushBuf W b) id) = p at h
    obtain ⟨r0, b0⟩ := p
    obtain ⟨hwf0, hcap0, sp0⟩ := writeLines_spec hW b _ r0 b0 hwf hp
    have hsplit : buf.take (idx + 1) ++ buf.drop (idx + 1) = buf := List.take_append_drop _ _
    cases r0 with
    | ok u =>
      simp only [andThen] at h
      obtain ⟨hwf', hcap', sp⟩ := BufWriter.writeAll_spec hW b0 _ r b' hwf0 h
      exact ⟨hwf', hcap'.trans hcap0, hsplit ▸ sp0.append sp⟩
    | err e =>
      simp only [andThen, id, Prod.mk.injEq] at h
      obtain ⟨rfl, rfl⟩ := h
      exact ⟨hwf0, hcap0, hsplit ▸ sp0.errLeft (buf.drop (idx + 1))⟩
    | panic => exact absurd rfl sp0.safe.1
    | hang => exact absurd rfl sp0.safe.2

end BufWriterProofs

/-- a `LineWriter` is observed through its `BufWriter` -/
def LineWriter.view {ω : Type} (V : View ω) : View (LineWriter ω) where
  snap := fun lw => (BufWriter.view V).snap lw.inner
  wf := fun lw => (BufWriter.view V).wf lw.inner

/-- **`LineWriter<W>` keeps the `Write` contract if `W` does** (any capacity) -/
theorem LineWriter.spec {ω : Type} {W : Writer ω} {V : View ω} (hW : Spec W V) :
    Spec (LineWriter.writer W) (LineWriter.view V) where
  fdPrefix := fun lw hwf => (BufWriter.spec hW).fdPrefix lw.inner hwf
  budget := fun lw => hW.budget lw.inner.inner
  write := fun lw buf r lw' hwf h => by
    simp only [LineWriter.writer, LineWriter.write, mapState] at h
    generalize hp : Shim.write W lw.inner buf = p at h
    obtain ⟨r1, b1⟩ := p
    simp only [Prod.mk.injEq] at h
    obtain ⟨rfl, rfl⟩ := h
    have := Shim.write_spec hW lw.inner buf r1 b1 hwf hp
    exact ⟨this.1, this.2.2⟩
  writeAll := fun lw buf r lw' hwf h => by
    simp only [LineWriter.writer, LineWriter.writeAll, mapState] at h
    generalize hp : Shim.writeAll W lw.inner buf = p at h
    obtain ⟨r1, b1⟩ := p
    simp only [Prod.mk.injEq] at h
    obtain ⟨rfl, rfl⟩ := h
    have := Shim.writeAll_spec hW lw.inner buf r1 b1 hwf hp
    exact ⟨this.1, this.2.2⟩
  flush := fun lw r lw' hwf h => by
    simp only [LineWriter.writer, LineWriter.flush, mapState] at h
    generalize hp : BufWriter.flush W lw.inner = p at h
    obtain ⟨r1, b1⟩ := p
    simp only [Prod.mk.injEq] at h
    obtain ⟨rfl, rfl⟩ := h
    have := BufWriter.flush_spec hW lw.inner r1 b1 hwf hp
    exact ⟨this.1, this.2.2⟩

/-! ## 4. the stdout of `main` -/

def stdoutView : View Stdout := BufWriter.view (LineWriter.view Sink.view)

theorem lineWriter_spec : Spec lineWriter (LineWriter.view Sink.view) := LineWriter.spec Sink.spec

/-- `BufWriter<StdoutLock>` keeps the `Write` contract, whatever the two capacities and whatever the OS does -/
theorem stdout_spec : Spec stdoutWriter stdoutView := BufWriter.spec lineWriter_spec

/-! ## 5. sessions: `write_all(x₁)?; …; write_all(xₖ)?; flush()?` over ANY writer that keeps the contract -/

section Sessions
variable {ω : Type} {W : Writer ω} {V : View ω}

theorem writeAlls_spec (hW : Spec W V) : ∀ (xs : List Bytes) (w : ω) (r : IoRes Unit) (w' : ω), V.wf w →
    writeAlls W xs w = (r, w') → V.wf w' ∧ WriteAllSpec (V.snap w) (V.snap w') xs.flatten r
  | [], w, r, w', hwf, h => by
    simp only [writeAlls, Prod.mk.injEq] at h
    obtain ⟨rfl, rfl⟩ := h
    exact ⟨hwf, ⟨0, by simp, by simpa using Adv.refl _, by simp, fun _ e he => by cases he⟩, by simp, by simp,
      fun _ => rfl⟩
  | x :: xs, w, r, w', hwf, h => by
    unfold writeAlls at h
    generalize hp : W.writeAll w x = p at h
    obtain ⟨r0, w0⟩ := p
    obtain ⟨hwf0, sp0⟩ := hW.writeAll w x r0 w0 hwf hp
    cases r0 with
    | ok u =>
      simp only [andThen] at h
      obtain ⟨hwf', sp⟩ := writeAlls_spec hW xs w0 r w' hwf0 h
      exact ⟨hwf', by simpa using sp0.append sp⟩
    | err e =>
      simp only [andThen, id, Prod.mk.injEq] at h
      obtain ⟨rfl, rfl⟩ := h
      exact ⟨hwf0, by simpa using sp0.errLeft xs.flatten⟩
    | panic => exact absurd rfl sp0.safe.1
    | hang => exact absurd rfl sp0.safe.2

/-- what a whole session guarantees -/
structure SessionSpec (s s' : Snap) (out : Bytes) (r : IoRes Unit) : Prop where
  adv : ∃ k, Adv s s' (out.take k)
  safe : r ≠ .panic ∧ r ≠ .hang
  clean : s.faultFree → r = .ok ()
  done : r = .ok () → s'.all = s.all ++ out ∧ s'.fd = s'.all
  sticky : s.sticky → ∀ e, r = .err e → s'.dead = true ∧ s'.fd.length < s.all.length + out.length

theorem session_spec (hW : Spec W V) (xs : List Bytes) (w : ω) (r : IoRes Unit) (w' : ω) (hwf : V.wf w)
    (h : session W xs w = (r, w')) : V.wf w' ∧ SessionSpec (V.snap w) (V.snap w') xs.flatten r := by
  unfold session at h
  generalize hp : writeAlls W xs w = p at h
  obtain ⟨r0, w0⟩ := p
  obtain ⟨hwf0, sp0⟩ := writeAlls_spec hW xs w r0 w0 hwf hp
  obtain ⟨k, hk, ha, hok, hst⟩ := sp0.adv
  cases r0 with
  | ok u =>
    simp only [andThen] at h
    obtain ⟨hwf', sp⟩ := hW.flush w0 r w' hwf0 h
    have hk' := hok rfl
    subst hk'
    have hadv := (ha.trans sp.adv).cast (List.append_nil _)
    refine ⟨hwf', ⟨_, hadv⟩, sp.safe, fun hf => sp.clean (ha.faultFree hf), fun hr => ⟨?_, sp.done hr⟩,
      fun hs e he => ?_⟩
    · have := hadv.all
      rwa [List.take_length] at this
    · obtain ⟨a, b⟩ := sp.sticky (ha.sticky hs) e he
      refine ⟨a, ?_⟩
      have := congrArg List.length hadv.all
      simp only [List.length_append, List.take_length] at this
      omega
  | err e =>
    simp only [andThen, id, Prod.mk.injEq] at h
    obtain ⟨rfl, rfl⟩ := h
    refine ⟨hwf0, ⟨_, ha⟩, by simp, fun hf => (by have := sp0.clean hf; cases this), by simp, fun hs e' he' => ?_⟩
    obtain ⟨a, b⟩ := hst hs e' he'
    refine ⟨a, ?_⟩
    have h1 := congrArg List.length ha.all
    have h2 := (hW.fdPrefix w0 hwf0).length_le
    simp only [List.length_append, List.length_take] at h1
    omega
  | panic => exact absurd rfl sp0.safe.1
  | hang => exact absurd rfl sp0.safe.2

/-- `Drop for BufWriter`: whatever happens, what is below still holds a prefix of what was accepted, the
    descriptor only grows; nothing moves once the sink is dead; everything arrives when the OS does not fail -/
theorem BufWriter.drop_spec (hW : Spec W V) (bw : BufWriter ω) (hwf : (BufWriter.view V).wf bw) :
    V.wf (BufWriter.drop W bw) ∧
    (V.snap (BufWriter.drop W bw)).all <+: ((BufWriter.view V).snap bw).all ∧
    ((BufWriter.view V).snap bw).fd <+: (V.snap (BufWriter.drop W bw)).fd ∧
    (((BufWriter.view V).snap bw).dead = true →
      (V.snap (BufWriter.drop W bw)).fd = ((BufWriter.view V).snap bw).fd ∧
      (V.snap (BufWriter.drop W bw)).dead = true) ∧
    (((BufWriter.view V).snap bw).faultFree →
      (V.snap (BufWriter.drop W bw)).all = ((BufWriter.view V).snap bw).all ∧
      (V.snap (BufWriter.drop W bw)).faultFree) := by
  have fs := flushBuf_spec hW bw (BufWriter.flushBuf W bw).1 (BufWriter.flushBuf W bw).2 hwf rfl
  have hall := fs.adv.all
  simp only [List.append_nil] at hall
  refine ⟨fs.wf.2, ?_, fs.adv.fd, fun hd => ?_, fun hf => ⟨?_, ?_⟩⟩
  · rw [← hall]
    exact List.prefix_append _ _
  · obtain ⟨a, b⟩ := fs.adv.dead hd
    exact ⟨b, a⟩
  · have := fs.done (fs.clean hf)
    rw [← hall]
    simp [BufWriter.view, BufWriter.drop, this]
  · exact fs.adv.faultFree hf

end Sessions

/-! ## 6. `main`: W1, W2 -/

theorem Stdout.new_wf (c lc : Nat) (oracle : List WAns) : stdoutView.wf (Stdout.new c lc oracle) := by
  simp [stdoutView, BufWriter.view, LineWriter.view, Sink.view, Stdout.new, BufWriter.withCapacity,
    LineWriter.withCapacity]

theorem Stdout.new_snap (c lc : Nat) (oracle : List WAns) :
    stdoutView.snap (Stdout.new c lc oracle) = ⟨[], [], oracle, false⟩ := by
  simp [stdoutView, BufWriter.view, LineWriter.view, Sink.view, Stdout.new, BufWriter.withCapacity,
    LineWriter.withCapacity, Sink.new]

/-- the two drops at the end of the process, from any state of the `BufWriter<StdoutLock>` -/
def finalSink (stdout : Stdout) : Sink := LineWriter.drop Sink.writer (BufWriter.drop lineWriter stdout)

theorem finalSink_spec (st : Stdout) (hwf : stdoutView.wf st) :
    (finalSink st).fd <+: (stdoutView.snap st).all ∧
    (stdoutView.snap st).fd <+: (finalSink st).fd ∧
    ((stdoutView.snap st).dead = true → (finalSink st).fd = (stdoutView.snap st).fd) ∧
    ((stdoutView.snap st).faultFree → (finalSink st).fd = (stdoutView.snap st).all) := by
  obtain ⟨hwf1, hall1, hfd1, hdead1, hcl1⟩ := BufWriter.drop_spec lineWriter_spec st hwf
  obtain ⟨-, hall2, hfd2, hdead2, hcl2⟩ := BufWriter.drop_spec Sink.spec (BufWriter.drop lineWriter st).inner hwf1
  refine ⟨hall2.trans hall1, hfd1.trans hfd2, fun hd => ?_, fun hf => ?_⟩
  · obtain ⟨a, b⟩ := hdead1 hd
    obtain ⟨c, -⟩ := hdead2 b
    exact c.trans a
  · obtain ⟨a, b⟩ := hcl1 hf
    obtain ⟨c, -⟩ := hcl2 b
    exact c.trans a

theorem mainWrites_eq (c lc : Nat) (oracle : List WAns) (xs : List Bytes) :
    mainWrites c lc oracle xs =
      (IoRes.status (session stdoutWriter xs (Stdout.new c lc oracle)).1,
       finalSink (session stdoutWriter xs (Stdout.new c lc oracle)).2) := rfl

theorem prefix_eq_of_length_le {a b : Bytes} (h : a <+: b) (hl : b.length ≤ a.length) : a = b :=
  h.eq_of_length_le hl

/-- everything about `main`'s stdout in one statement, for EVERY behaviour of the OS, all capacities -/
theorem mainWrites_spec (c lc : Nat) (oracle : List WAns) (xs : List Bytes) :
    (mainWrites c lc oracle xs).2.fd <+: xs.flatten ∧
    ((mainWrites c lc oracle xs).1 = .ok ∨ (mainWrites c lc oracle xs).1 = .fail) ∧
    ((mainWrites c lc oracle xs).1 = .ok → (mainWrites c lc oracle xs).2.fd = xs.flatten) ∧
    ((∀ a ∈ oracle, a.benign = true) → (mainWrites c lc oracle xs).1 = .ok) ∧
    ((∀ a ∈ oracle, a.hard = true) → (mainWrites c lc oracle xs).1 ≠ .ok →
      (mainWrites c lc oracle xs).2.fd.length < xs.flatten.length) := by
  rw [mainWrites_eq]
  generalize hp : session stdoutWriter xs (Stdout.new c lc oracle) = p
  obtain ⟨r, st⟩ := p
  obtain ⟨hwf, sp⟩ := session_spec stdout_spec xs _ r st (Stdout.new_wf c lc oracle) hp
  rw [Stdout.new_snap] at sp
  obtain ⟨k, ha⟩ := sp.adv
  obtain ⟨h1, h2, h3, -⟩ := finalSink_spec st hwf
  have hall : (stdoutView.snap st).all = xs.flatten.take k := by simpa using ha.all
  have hpre : (finalSink st).fd <+: xs.flatten := by
    rw [hall] at h1
    exact h1.trans (List.take_prefix _ _)
  refine ⟨hpre, ?_, fun hr => ?_, fun hb => ?_, fun hs hr => ?_⟩
  · cases r with
    | ok u => exact .inl rfl
    | err e => exact .inr rfl
    | panic => exact absurd rfl sp.safe.1
    | hang => exact absurd rfl sp.safe.2
  · cases r with
    | ok u =>
      obtain ⟨a, b⟩ := sp.done rfl
      simp only [List.nil_append] at a
      refine prefix_eq_of_length_le hpre ?_
      have := h2.length_le
      rw [b, a] at this
      exact this
    | _ => cases hr
  · have := sp.clean ⟨rfl, hb⟩
    subst this
    rfl
  · cases r with
    | ok u => exact absurd rfl hr
    | err e =>
      obtain ⟨a, b⟩ := sp.sticky hs e rfl
      rw [h3 a]
      simpa using b
    | panic => exact absurd rfl sp.safe.1
    | hang => exact absurd rfl sp.safe.2

/-- **W1** — a fault-free OS (any pattern of short writes and `EINTR`): every `write_all` and the `flush` return
    `Ok`, and fd 1 holds exactly `x₁ ++ … ++ xₖ` — nothing stays in the `BufWriter` or the `LineWriter` -/
theorem W1_fault_free (c lc : Nat) (oracle : List WAns) (xs : List Bytes)
    (h : ∀ a ∈ oracle, a.benign = true) :
    mainWrites c lc oracle xs = (.ok, ⟨xs.flatten, (mainWrites c lc oracle xs).2.oracle, false⟩) := by
  obtain ⟨-, -, h3, h4, -⟩ := mainWrites_spec c lc oracle xs
  have hok := h4 h
  have hfd := h3 hok
  have hdead : (mainWrites c lc oracle xs).2.dead = false := by
    rw [mainWrites_eq]
    generalize hp : session stdoutWriter xs (Stdout.new c lc oracle) = p
    obtain ⟨r, st⟩ := p
    obtain ⟨hwf, sp⟩ := session_spec stdout_spec xs _ r st (Stdout.new_wf c lc oracle) hp
    rw [Stdout.new_snap] at sp
    obtain ⟨k, ha⟩ := sp.adv
    have hf : (stdoutView.snap st).faultFree := ha.faultFree ⟨rfl, h⟩
    obtain ⟨hwf1, -, -, -, hcl1⟩ := BufWriter.drop_spec lineWriter_spec st hwf
    obtain ⟨-, -, -, -, hcl2⟩ := BufWriter.drop_spec Sink.spec (BufWriter.drop lineWriter st).inner hwf1
    exact (hcl2 (hcl1 hf).2).2.1
  generalize mainWrites c lc oracle xs = m at *
  obtain ⟨st, ⟨fd, o, d⟩⟩ := m
  simp_all

/-- **W1, before the drops** — right after `flush()` returned (fault-free OS): `Ok`, BOTH buffers are empty and
    fd 1 holds `x₁ ++ … ++ xₖ` -/
theorem W1_session (c lc : Nat) (oracle : List WAns) (xs : List Bytes) (h : ∀ a ∈ oracle, a.benign = true) :
    (session stdoutWriter xs (Stdout.new c lc oracle)).1 = .ok () ∧
    (session stdoutWriter xs (Stdout.new c lc oracle)).2.buf = [] ∧
    (session stdoutWriter xs (Stdout.new c lc oracle)).2.inner.inner.buf = [] ∧
    (session stdoutWriter xs (Stdout.new c lc oracle)).2.fd = xs.flatten := by
  generalize hp : session stdoutWriter xs (Stdout.new c lc oracle) = p
  obtain ⟨r, st⟩ := p
  obtain ⟨hwf, sp⟩ := session_spec stdout_spec xs _ r st (Stdout.new_wf c lc oracle) hp
  rw [Stdout.new_snap] at sp
  have hr := sp.clean ⟨rfl, h⟩
  obtain ⟨a, b⟩ := sp.done hr
  simp only [stdoutView, BufWriter.view, LineWriter.view, Sink.view, List.nil_append] at a b
  have hlen := congrArg List.length b
  simp only [List.length_append] at hlen
  have h1 : st.buf = [] := List.eq_nil_of_length_eq_zero (by omega)
  have h2 : st.inner.inner.buf = [] := List.eq_nil_of_length_eq_zero (by omega)
  refine ⟨hr, h1, h2, ?_⟩
  simp only [h1, h2, List.append_nil] at a
  exact a

/-- the retry loops (`flush_buf`, the default `write_all`) never run out of the fuel `budget + len + 1`, and no
    checked operation fails — for every state `main`'s stdout can be in, every slice, every OS -/
theorem stdout_never_hangs_or_panics (st : Stdout) (buf : Bytes) (hwf : stdoutView.wf st) :
    ((stdoutWriter.write st buf).1 ≠ .panic ∧ (stdoutWriter.write st buf).1 ≠ .hang) ∧
    ((stdoutWriter.writeAll st buf).1 ≠ .panic ∧ (stdoutWriter.writeAll st buf).1 ≠ .hang) ∧
    ((stdoutWriter.flush st).1 ≠ .panic ∧ (stdoutWriter.flush st).1 ≠ .hang) :=
  ⟨(stdout_spec.write st buf _ _ hwf rfl).2.safe, (stdout_spec.writeAll st buf _ _ hwf rfl).2.safe,
   (stdout_spec.flush st _ _ hwf rfl).2.safe⟩

/-- **W2** — EVERY OS (short writes, `EINTR`, `Ok(0)`, transient and sticky errors at any point): what reached
    fd 1 is a PREFIX of `x₁ ++ … ++ xₖ`; the process ends with status 0 or 1 (no panic, no hang); and if anything
    is missing the status is 1 — some `write_all` or the final `flush` returned `Err` (no silent loss) -/
theorem W2_prefix_and_no_silent_loss (c lc : Nat) (oracle : List WAns) (xs : List Bytes) :
    (mainWrites c lc oracle xs).2.fd <+: xs.flatten ∧
    ((mainWrites c lc oracle xs).2.fd ≠ xs.flatten → (mainWrites c lc oracle xs).1 = .fail) := by
  obtain ⟨h1, h2, h3, -, -⟩ := mainWrites_spec c lc oracle xs
  refine ⟨h1, fun hne => ?_⟩
  rcases h2 with h | h
  · exact absurd (h3 h) hne
  · exact h

/-- **W2, the connection to `deliver`** (`Tuc.Model.Args`; `deliver_prefix`, `deliver_cut_fails`,
    `success_complete` of `Tuc.Props.C14`): for an engine whose run is `⟨out, ok⟩`, what the literal stack leaves
    on fd 1 is `deliver ⟨out, ok⟩ limit` for some `limit`; status 0 of the process implies status `ok` of
    `deliver`, and when every error of the OS is sticky the two statuses are EQUAL -/
theorem W2_deliver (c lc : Nat) (oracle : List WAns) (xs : List Bytes) :
    ∃ limit : Option Nat,
      (mainWrites c lc oracle xs).2.fd = (deliver ⟨xs.flatten, .ok⟩ limit).out ∧
      ((deliver ⟨xs.flatten, .ok⟩ limit).status = .ok → (mainWrites c lc oracle xs).1 = .ok ∨
        (mainWrites c lc oracle xs).1 = .fail) ∧
      ((mainWrites c lc oracle xs).1 = .ok → (deliver ⟨xs.flatten, .ok⟩ limit).status = .ok) ∧
      ((∀ a ∈ oracle, a.hard = true) →
        (mainWrites c lc oracle xs).1 = (deliver ⟨xs.flatten, .ok⟩ limit).status) := by
  obtain ⟨h1, h2, h3, -, h5⟩ := mainWrites_spec c lc oracle xs
  by_cases hlt : (mainWrites c lc oracle xs).2.fd.length < xs.flatten.length
  · refine ⟨some (mainWrites c lc oracle xs).2.fd.length, ?_, fun _ => h2, fun hok => ?_, fun _ => ?_⟩
    · simp only [deliver, Nat.not_le.mpr hlt, if_false]
      exact List.prefix_iff_eq_take.mp h1
    · have := h3 hok
      rw [this] at hlt
      omega
    · simp only [deliver, Nat.not_le.mpr hlt, if_false, if_true]
      rcases h2 with h | h
      · have := h3 h
        rw [this] at hlt
        omega
      · exact h
  · have heq : (mainWrites c lc oracle xs).2.fd = xs.flatten := prefix_eq_of_length_le h1 (by omega)
    refine ⟨none, by simp [deliver, heq], fun _ => h2, fun _ => by simp [deliver], fun hs => ?_⟩
    simp only [deliver]
    rcases h2 with h | h
    · exact h
    · exact absurd (h5 hs (by rw [h]; simp)) hlt

theorem mainWritesThenErr_eq (c lc : Nat) (oracle : List WAns) (xs : List Bytes) :
    mainWritesThenErr c lc oracle xs =
      ((match IoRes.status (writeAlls stdoutWriter xs (Stdout.new c lc oracle)).1 with | .ok => .fail | st => st),
       finalSink (writeAlls stdoutWriter xs (Stdout.new c lc oracle)).2) := rfl

/-- the engine-error path (`Err` after having written `xs`; no `flush()`, only the drops): status 1, a prefix on
    fd 1 — and ALL of `xs` when the OS does not fail (the output before a failing record is not lost) -/
theorem mainWritesThenErr_spec (c lc : Nat) (oracle : List WAns) (xs : List Bytes) :
    (mainWritesThenErr c lc oracle xs).1 = .fail ∧
    (mainWritesThenErr c lc oracle xs).2.fd <+: xs.flatten ∧
    ((∀ a ∈ oracle, a.benign = true) → (mainWritesThenErr c lc oracle xs).2.fd = xs.flatten) := by
  rw [mainWritesThenErr_eq]
  generalize hp : writeAlls stdoutWriter xs (Stdout.new c lc oracle) = p
  obtain ⟨r, st⟩ := p
  obtain ⟨hwf, sp⟩ := writeAlls_spec stdout_spec xs _ r st (Stdout.new_wf c lc oracle) hp
  rw [Stdout.new_snap] at sp
  obtain ⟨k, hk, ha, hok, -⟩ := sp.adv
  obtain ⟨h1, -, -, h4⟩ := finalSink_spec st hwf
  have hall : (stdoutView.snap st).all = xs.flatten.take k := by simpa using ha.all
  refine ⟨?_, ?_, fun hb => ?_⟩
  · cases r with
    | ok u => rfl
    | err e => rfl
    | panic => exact absurd rfl sp.safe.1
    | hang => exact absurd rfl sp.safe.2
  · rw [hall] at h1
    exact h1.trans (List.take_prefix _ _)
  · have hf : Snap.faultFree ⟨[], [], oracle, false⟩ := ⟨rfl, hb⟩
    have hr := sp.clean hf
    have := hok hr
    subst this
    show (finalSink st).fd = xs.flatten
    rw [h4 (ha.faultFree hf), hall, List.take_length]

/-! ## 7. the witnesses: a skipped flush (W1), `write` for `write_all` (W3) -/

theorem memrchr_none (c : UInt8) : ∀ (t : Bytes), c ∉ t → memrchr c t = none
  | [], _ => rfl
  | x :: t, h => by
    have h1 : c ∉ t := fun hm => h (List.mem_cons_of_mem _ hm)
    have h2 : ¬ x = c := fun he => h (by simp [he])
    simp [memrchr, memrchr_none c t h1, h2]

/-- `memrchr` finds the LAST occurrence -/
theorem memrchr_last (c : UInt8) (t : Bytes) (ht : c ∉ t) : ∀ (pre : Bytes), memrchr c (pre ++ c :: t) = some pre.length
  | [] => by simp [memrchr, memrchr_none c t ht]
  | x :: pre => by simp [memrchr, memrchr_last c t ht pre]

section Ideal
variable {ω : Type}

theorem flushBuf_nil (W : Writer ω) (bw : BufWriter ω) (h : bw.buf = []) : BufWriter.flushBuf W bw = (.ok (), bw) := by
  obtain ⟨b, c, i⟩ := bw
  simp only at h
  subst h
  unfold BufWriter.flushBuf
  rw [show W.budget i + ([] : Bytes).length + 1 = (W.budget i + ([] : Bytes).length).succ from rfl]
  unfold BufWriter.flushBufLoop
  simp

theorem prelude_nil (W : Writer ω) (bw : BufWriter ω) (buf : Bytes) (h : bw.buf = []) :
    (if buf.length > bw.spareCapacity then BufWriter.flushBuf W bw else (.ok (), bw)) = (.ok (), bw) := by
  split
  · exact flushBuf_nil W bw h
  · rfl

/-- bufwriter.rs:413-417: a slice of at least `capacity` bytes BYPASSES an empty `BufWriter` -/
theorem BufWriter.writeAll_bypass (W : Writer ω) (bw : BufWriter ω) (buf : Bytes) (h : bw.buf = [])
    (hbig : bw.cap ≤ buf.length) :
    BufWriter.writeAll W bw buf = mapState (fun inner => { bw with inner := inner }) (W.writeAll bw.inner buf) := by
  have hs : bw.spareCapacity = bw.cap := by simp [BufWriter.spareCapacity, h]
  unfold BufWriter.writeAll BufWriter.writeAllCold
  rw [prelude_nil W bw buf h, hs, if_neg (Nat.not_lt.mpr hbig)]
  simp only [andThen, ge_iff_le, hbig, if_true]

/-- bufwriter.rs:371-375: the same for `write` -/
theorem BufWriter.write_bypass (W : Writer ω) (bw : BufWriter ω) (buf : Bytes) (h : bw.buf = [])
    (hbig : bw.cap ≤ buf.length) :
    BufWriter.write W bw buf = mapState (fun inner => { bw with inner := inner }) (W.write bw.inner buf) := by
  have hs : bw.spareCapacity = bw.cap := by simp [BufWriter.spareCapacity, h]
  unfold BufWriter.write BufWriter.writeCold
  rw [prelude_nil W bw buf h, hs, if_neg (Nat.not_lt.mpr hbig)]
  simp only [andThen, ge_iff_le, hbig, if_true]

/-- the next answer of the OS takes the whole slice -/
theorem Sink.write_whole (s : Sink) (n : Nat) (o : List WAns) (buf : Bytes) (hd : s.dead = false)
    (ho : s.oracle = .accept n :: o) (hn : buf.length ≤ n + 1) :
    s.write buf = (.ok buf.length, ⟨s.fd ++ buf, o, false⟩) := by
  simp [Sink.write, hd, ho, Nat.min_eq_right hn, List.take_of_length_le hn]

theorem Sink.writeAll_whole (s : Sink) (n : Nat) (o : List WAns) (buf : Bytes) (hd : s.dead = false)
    (ho : s.oracle = .accept n :: o) (hn : buf.length ≤ n + 1) (hb : buf ≠ []) :
    Sink.writer.writeAll s buf = (.ok (), ⟨s.fd ++ buf, o, false⟩) := by
  have hbe : buf.isEmpty = false := by cases buf <;> simp_all
  have hlen : buf.length ≠ 0 := by cases buf <;> simp_all
  show defaultWriteAll Sink.write (s.oracle.length + buf.length + 1) s buf = _
  rw [ho, show (WAns.accept n :: o).length + buf.length + 1 = (o.length + buf.length).succ.succ by simp; omega]
  unfold defaultWriteAll
  simp only [hbe, Bool.false_eq_true, if_false, Sink.write_whole s n o buf hd ho hn, hlen,
    sliceFrom_some (Nat.le_refl _), List.drop_length]
  unfold defaultWriteAll
  simp

end Ideal

/-- The state the seeded defect "flush only if the `BufWriter` is not empty" relies on never occurring: ONE
    `write_all` of at least `capacity` bytes whose last line (`tail`, without newline, shorter than the
    `LineWriter`'s capacity) is unterminated.  The `BufWriter` is bypassed and stays EMPTY, the lines go to the
    descriptor, the tail sits in the `LineWriter`. (`accept n` with `n + 1 ≥ len`: the OS takes the lines at once.) -/
theorem big_write_leaves_tail_in_LineWriter (c lc n : Nat) (o : List WAns) (pre tl : Bytes)
    (hnl : (0x0A : UInt8) ∉ tl) (htl : tl.length < lc) (hbig : c ≤ (pre ++ 0x0A :: tl).length)
    (hn : pre.length + 1 ≤ n + 1) :
    writeAlls stdoutWriter [pre ++ 0x0A :: tl] (Stdout.new c lc (.accept n :: o)) =
      (.ok (), ⟨[], c, ⟨⟨tl, lc, ⟨pre ++ [0x0A], o, false⟩⟩⟩⟩) := by
  have hsplit1 : (pre ++ 0x0A :: tl).take (pre.length + 1) = pre ++ [0x0A] := by
    rw [show pre ++ 0x0A :: tl = (pre ++ [0x0A]) ++ tl by simp]
    rw [List.take_left' (by simp)]
  have hsplit2 : (pre ++ 0x0A :: tl).drop (pre.length + 1) = tl := by
    rw [show pre ++ 0x0A :: tl = (pre ++ [0x0A]) ++ tl by simp]
    rw [List.drop_left' (by simp)]
  have hle : pre.length + 1 ≤ (pre ++ 0x0A :: tl).length := by simp
  have hinner : lineWriter.writeAll (LineWriter.withCapacity lc (Sink.new (.accept n :: o))) (pre ++ 0x0A :: tl) =
      (.ok (), ⟨⟨tl, lc, ⟨pre ++ [0x0A], o, false⟩⟩⟩) := by
    simp only [lineWriter, LineWriter.writer, LineWriter.writeAll, LineWriter.withCapacity,
      BufWriter.withCapacity, Shim.writeAll, memrchr_last _ tl hnl pre, sliceTo_some hle, sliceFrom_some hle,
      hsplit1, hsplit2, List.isEmpty_nil, if_true]
    rw [Sink.writeAll_whole (Sink.new (.accept n :: o)) n o (pre ++ [0x0A]) rfl rfl (by simpa using hn) (by simp)]
    simp [mapState, andThen, BufWriter.writeAll, BufWriter.spareCapacity, htl, BufWriter.writeToBufferUnchecked,
      Nat.le_of_lt htl, Sink.new]
  show andThen (BufWriter.writeAll lineWriter (Stdout.new c lc (.accept n :: o)) (pre ++ 0x0A :: tl))
    (fun _ w => writeAlls stdoutWriter [] w) id = _
  rw [BufWriter.writeAll_bypass _ _ _ rfl hbig]
  simp only [Stdout.new, BufWriter.withCapacity, hinner, mapState, andThen, writeAlls]

/-- flushing a non-empty buffer into a sink whose next answer is a sticky error: nothing arrives, the sink is dead -/
theorem flushBuf_dies (bw : BufWriter Sink) (o : List WAns) (hd : bw.inner.dead = false)
    (ho : bw.inner.oracle = .err true :: o) (hb : bw.buf ≠ []) :
    (BufWriter.flushBuf Sink.writer bw).2.inner = ⟨bw.inner.fd, o, true⟩ := by
  have hlen : ¬ 0 ≥ bw.buf.length := by
    have := List.length_pos_iff.mpr hb
    omega
  unfold BufWriter.flushBuf
  rw [show Sink.writer.budget bw.inner + bw.buf.length + 1 = (Sink.writer.budget bw.inner + bw.buf.length).succ from rfl]
  unfold BufWriter.flushBufLoop
  simp [hlen, sliceFrom, Sink.writer, Sink.write, hd, ho]

/-- **W1, the witness** — with "flush only if the `BufWriter` is not empty" in place of tuc.rs:303, an OS that
    takes the lines and then fails for good: the process exits 0 although the last (unterminated) line never
    reached fd 1.  (The residue is written by `std::rt::cleanup`, whose errors are ignored.) -/
theorem skipped_flush_silent_loss (c lc n : Nat) (pre tl : Bytes)
    (hnl : (0x0A : UInt8) ∉ tl) (htl : tl.length < lc) (hne : tl ≠ []) (hbig : c ≤ (pre ++ 0x0A :: tl).length)
    (hn : pre.length + 1 ≤ n + 1) :
    mainWritesSkippingEmpty c lc [.accept n, .err true] [pre ++ 0x0A :: tl] = (.ok, ⟨pre ++ [0x0A], [], true⟩) := by
  have h1 := big_write_leaves_tail_in_LineWriter c lc n [.err true] pre tl hnl htl hbig hn
  show (IoRes.status (sessionSkippingEmpty lineWriter [pre ++ 0x0A :: tl]
      (Stdout.new c lc [.accept n, .err true])).1,
    LineWriter.drop Sink.writer (BufWriter.drop lineWriter (sessionSkippingEmpty lineWriter [pre ++ 0x0A :: tl]
      (Stdout.new c lc [.accept n, .err true])).2)) = _
  unfold sessionSkippingEmpty
  rw [show BufWriter.writer lineWriter = stdoutWriter from rfl, h1]
  simp only [andThen, List.isEmpty_nil, if_true, IoRes.status, BufWriter.drop, flushBuf_nil, LineWriter.drop]
  rw [flushBuf_dies _ [] rfl rfl hne]

/-- the real `main` on the same run reports the loss -/
theorem real_main_reports (c lc n : Nat) (pre tl : Bytes)
    (hnl : (0x0A : UInt8) ∉ tl) (htl : tl.length < lc) (hne : tl ≠ []) (hbig : c ≤ (pre ++ 0x0A :: tl).length)
    (hn : pre.length + 1 ≤ n + 1) :
    mainWrites c lc [.accept n, .err true] [pre ++ 0x0A :: tl] = (.fail, ⟨pre ++ [0x0A], [], true⟩) := by
  have h1 := big_write_leaves_tail_in_LineWriter c lc n [.err true] pre tl hnl htl hbig hn
  show (IoRes.status (session stdoutWriter [pre ++ 0x0A :: tl] (Stdout.new c lc [.accept n, .err true])).1,
    LineWriter.drop Sink.writer (BufWriter.drop lineWriter (session stdoutWriter [pre ++ 0x0A :: tl]
      (Stdout.new c lc [.accept n, .err true])).2)) = _
  unfold session
  rw [h1]
  have hlen : ¬ 0 ≥ tl.length := by
    have := List.length_pos_iff.mpr hne
    omega
  have hfl : BufWriter.flushBuf Sink.writer ⟨tl, lc, ⟨pre ++ [0x0A], [.err true], false⟩⟩ =
      (.err .other, ⟨tl, lc, ⟨pre ++ [0x0A], [], true⟩⟩) := by
    unfold BufWriter.flushBuf
    rw [show Sink.writer.budget (⟨pre ++ [0x0A], [.err true], false⟩ : Sink) + tl.length + 1 =
      (Sink.writer.budget (⟨pre ++ [0x0A], [.err true], false⟩ : Sink) + tl.length).succ from rfl]
    unfold BufWriter.flushBufLoop
    simp [hlen, sliceFrom, Sink.writer, Sink.write]
  have hfl2 : BufWriter.flushBuf Sink.writer ⟨tl, lc, ⟨pre ++ [0x0A], [], true⟩⟩ =
      (.err .other, ⟨tl, lc, ⟨pre ++ [0x0A], [], true⟩⟩) := by
    unfold BufWriter.flushBuf
    rw [show Sink.writer.budget (⟨pre ++ [0x0A], [], true⟩ : Sink) + tl.length + 1 =
      (Sink.writer.budget (⟨pre ++ [0x0A], [], true⟩ : Sink) + tl.length).succ from rfl]
    unfold BufWriter.flushBufLoop
    simp [hlen, sliceFrom, Sink.writer, Sink.write]
  simp only [andThen, stdoutWriter, BufWriter.writer, BufWriter.flush, flushBuf_nil, lineWriter, LineWriter.writer,
    LineWriter.flush, hfl, hfl2, mapState, id, IoRes.status, BufWriter.drop, LineWriter.drop]

/-- `main`'s capacities: 65535 × `a`, a newline, one more byte — 65537 bytes in one `write_all` -/
example : mainWritesSkippingEmpty 65536 1024 [.accept 70000, .err true] [List.replicate 65535 0x61 ++ 0x0A :: [0x62]] =
      (.ok, ⟨List.replicate 65535 0x61 ++ [0x0A], [], true⟩) ∧
    mainWrites 65536 1024 [.accept 70000, .err true] [List.replicate 65535 0x61 ++ 0x0A :: [0x62]] =
      (.fail, ⟨List.replicate 65535 0x61 ++ [0x0A], [], true⟩) :=
  ⟨skipped_flush_silent_loss 65536 1024 70000 _ [0x62] (by decide) (by decide) (by decide)
      (by simp only [List.length_append, List.length_replicate, List.length_cons, List.length_nil]; omega)
      (by simp only [List.length_replicate]; omega),
   real_main_reports 65536 1024 70000 _ [0x62] (by decide) (by decide) (by decide)
      (by simp only [List.length_append, List.length_replicate, List.length_cons, List.length_nil]; omega)
      (by simp only [List.length_replicate]; omega)⟩

/-- why the defect hides: as long as the OS does not fail, the drops deliver what the skipped `flush` left -/
theorem skipped_flush_hidden_when_fault_free (c lc : Nat) (oracle : List WAns) (xs : List Bytes)
    (hb : ∀ a ∈ oracle, a.benign = true) :
    (mainWritesSkippingEmpty c lc oracle xs).1 = .ok ∧ (mainWritesSkippingEmpty c lc oracle xs).2.fd = xs.flatten := by
  have heq : mainWritesSkippingEmpty c lc oracle xs =
      (IoRes.status (sessionSkippingEmpty lineWriter xs (Stdout.new c lc oracle)).1,
       finalSink (sessionSkippingEmpty lineWriter xs (Stdout.new c lc oracle)).2) := rfl
  rw [heq]
  unfold sessionSkippingEmpty
  rw [show BufWriter.writer lineWriter = stdoutWriter from rfl]
  generalize hp : writeAlls stdoutWriter xs (Stdout.new c lc oracle) = p
  obtain ⟨r, st⟩ := p
  obtain ⟨hwf, sp⟩ := writeAlls_spec stdout_spec xs _ r st (Stdout.new_wf c lc oracle) hp
  rw [Stdout.new_snap] at sp
  have hf : Snap.faultFree ⟨[], [], oracle, false⟩ := ⟨rfl, hb⟩
  have hr := sp.clean hf
  subst hr
  obtain ⟨k, hk, ha, hok, -⟩ := sp.adv
  have hk' := hok rfl
  subst hk'
  have hall : (stdoutView.snap st).all = xs.flatten := by
    have := ha.all
    rwa [List.take_length, List.nil_append] at this
  simp only [andThen]
  by_cases he : st.buf.isEmpty = true
  · simp only [he, if_true, IoRes.status, true_and]
    rw [(finalSink_spec st hwf).2.2.2 (ha.faultFree hf), hall]
  · simp only [he, Bool.false_eq_true, if_false]
    generalize hq : BufWriter.flush lineWriter st = q
    obtain ⟨r', st'⟩ := q
    obtain ⟨hwf', sp'⟩ := stdout_spec.flush st r' st' hwf hq
    have hr' := sp'.clean (ha.faultFree hf)
    subst hr'
    refine ⟨rfl, ?_⟩
    show (finalSink st').fd = _
    rw [(finalSink_spec st' hwf').2.2.2 (sp'.adv.faultFree (ha.faultFree hf))]
    have := sp'.adv.all
    simp only [List.append_nil] at this
    rw [this, hall]

/-- **W3, the witness family** — ONE `write` (not `write_all`) of a slice of at least `capacity` bytes with an
    interior newline and at least `lineCapacity` bytes after the last newline: the `BufWriter` is bypassed, the
    `LineWriter` writes the lines through and REFUSES the tail (linewritershim.rs:126-128): the count is short
    although the OS took everything it was offered.  An engine that ignores the count loses `tl`. -/
theorem write_is_short (c lc n : Nat) (o : List WAns) (pre tl : Bytes)
    (hnl : (0x0A : UInt8) ∉ tl) (htl : lc ≤ tl.length) (hbig : c ≤ (pre ++ 0x0A :: tl).length)
    (hn : pre.length + 1 ≤ n + 1) :
    stdoutWriter.write (Stdout.new c lc (.accept n :: o)) (pre ++ 0x0A :: tl) =
      (.ok (pre.length + 1), ⟨[], c, ⟨⟨[], lc, ⟨pre ++ [0x0A], o, false⟩⟩⟩⟩) := by
  have hsplit1 : (pre ++ 0x0A :: tl).take (pre.length + 1) = pre ++ [0x0A] := by
    rw [show pre ++ 0x0A :: tl = (pre ++ [0x0A]) ++ tl by simp]
    rw [List.take_left' (by simp)]
  have hsplit2 : (pre ++ 0x0A :: tl).drop (pre.length + 1) = tl := by
    rw [show pre ++ 0x0A :: tl = (pre ++ [0x0A]) ++ tl by simp]
    rw [List.drop_left' (by simp)]
  have hle : pre.length + 1 ≤ (pre ++ 0x0A :: tl).length := by simp
  have hinner : lineWriter.write (LineWriter.withCapacity lc (Sink.new (.accept n :: o))) (pre ++ 0x0A :: tl) =
      (.ok (pre.length + 1), ⟨⟨[], lc, ⟨pre ++ [0x0A], o, false⟩⟩⟩) := by
    simp only [lineWriter, LineWriter.writer, LineWriter.write, LineWriter.withCapacity,
      BufWriter.withCapacity, Shim.write, memrchr_last _ tl hnl pre, sliceTo_some hle, hsplit1, flushBuf_nil,
      andThen, Sink.writer]
    rw [Sink.write_whole (Sink.new (.accept n :: o)) n o (pre ++ [0x0A]) rfl rfl (by simpa using hn)]
    simp [mapState, Shim.tailOf, sliceFrom_some hle, hsplit2, htl, Sink.new]
  show BufWriter.write lineWriter (Stdout.new c lc (.accept n :: o)) (pre ++ 0x0A :: tl) = _
  rw [BufWriter.write_bypass _ _ _ rfl hbig]
  simp only [Stdout.new, BufWriter.withCapacity, hinner, mapState]

/-- `main`'s capacities: a 70001-byte slice, newline at offset 65535, 4465 bytes after it: `write` reports 65536 -/
example : (stdoutWriter.write (Stdout.new 65536 1024 [.accept 70000])
      (List.replicate 65535 0x61 ++ 0x0A :: List.replicate 4465 0x62)).1 = .ok (65535 + 1) ∧
    (List.replicate 65535 0x61 ++ 0x0A :: List.replicate 4465 (0x62 : UInt8)).length = 70001 := by
  refine ⟨?_, by simp only [List.length_append, List.length_replicate, List.length_cons]⟩
  rw [write_is_short 65536 1024 70000 [] (List.replicate 65535 0x61) (List.replicate 4465 0x62)
    (by intro h; have := List.eq_of_mem_replicate h; exact absurd this (by decide))
    (by simp only [List.length_replicate]; omega)
    (by simp only [List.length_append, List.length_replicate, List.length_cons]; omega)
    (by simp only [List.length_replicate]; omega)]
  simp only [List.length_replicate]

/-- **W3, why the defect hides** — a `write` of FEWER bytes than the capacity of the `BufWriter` never returns a
    short count, over any writer that keeps the contract and whatever the OS does: it is `Ok(len)` (the slice is
    buffered, after a `flush_buf` if need be) or the `Err` of that `flush_buf`; and `Ok(len)` when the OS does not
    fail.  Only slices of at least 64 KiB reach the `LineWriter`. -/
theorem write_small_never_short {ω : Type} {W : Writer ω} {V : View ω} (hW : Spec W V) (bw : BufWriter ω)
    (buf : Bytes) (r : IoRes Nat) (bw' : BufWriter ω) (hwf : (BufWriter.view V).wf bw) (hlt : buf.length < bw.cap)
    (h : BufWriter.write W bw buf = (r, bw')) :
    (r = .ok buf.length ∨ ∃ e, r = .err e ∧ e ≠ .interrupted) ∧
    (((BufWriter.view V).snap bw).faultFree → r = .ok buf.length) := by
  unfold BufWriter.write at h
  by_cases hc : buf.length < bw.spareCapacity
  · have hfit : buf.length ≤ bw.spareCapacity := Nat.le_of_lt hc
    simp only [hc, if_true, BufWriter.writeToBufferUnchecked, hfit, Prod.mk.injEq] at h
    exact ⟨.inl h.1.symm, fun _ => h.1.symm⟩
  · simp only [hc, if_false] at h
    unfold BufWriter.writeCold at h
    generalize hp : (if buf.length > bw.spareCapacity then BufWriter.flushBuf W bw else (.ok (), bw)) = p at h
    obtain ⟨r0, bw0⟩ := p
    have ps := pre_spec hW bw buf r0 bw0 hwf hp
    cases r0 with
    | ok u =>
      simp only [andThen] at h
      have hnc : ¬ buf.length ≥ bw0.cap := by rw [ps.cap]; omega
      have hfit := room_fits (ps.room rfl) hnc
      simp only [hnc, if_false, BufWriter.writeToBufferUnchecked, hfit, if_true, Prod.mk.injEq] at h
      exact ⟨.inl h.1.symm, fun _ => h.1.symm⟩
    | err e =>
      simp only [andThen, id, Prod.mk.injEq] at h
      refine ⟨.inr ⟨e, h.1.symm, fun he => ps.noIntr (by rw [he])⟩, fun hf => ?_⟩
      have := ps.clean hf
      cases this
    | panic => exact absurd rfl ps.safe.1
    | hang => exact absurd rfl ps.safe.2

/-- the instance for `main`'s stdout -/
theorem stdout_write_small (st : Stdout) (buf : Bytes) (hwf : stdoutView.wf st) (hlt : buf.length < st.cap) :
    (stdoutWriter.write st buf).1 = .ok buf.length ∨ ∃ e, (stdoutWriter.write st buf).1 = .err e ∧ e ≠ .interrupted :=
  (write_small_never_short lineWriter_spec st buf _ _ hwf hlt rfl).1

/-! ## 8. non-vacuity: ALL oracles of bounded length on small capacities, by evaluation -/

/-- all lists over `alphabet` of length `≤ n` -/
def allLists {α : Type} (alphabet : List α) : Nat → List (List α)
  | 0 => [[]]
  | n + 1 => [] :: (allLists alphabet n).flatMap fun l => alphabet.map fun a => a :: l

def wAlphabet : List WAns := [.accept 0, .accept 1, .accept 7, .zero, .intr, .err false, .err true]

def isPrefix (a b : Bytes) : Bool := a == b.take a.length

/-- the statement of `mainWrites_spec` as a test -/
def checkMain (c lc : Nat) (oracle : List WAns) (xs : List Bytes) : Bool :=
  let (st, raw) := mainWrites c lc oracle xs
  isPrefix raw.fd xs.flatten
    && (st == .ok || st == .fail)
    && (st != .ok || raw.fd == xs.flatten)
    && (!(oracle.all WAns.benign) || (st == .ok && raw.fd == xs.flatten))
    && (!(oracle.all WAns.hard) || st == .ok || raw.fd.length < xs.flatten.length)

def sampleWrites : List (List Bytes) :=
  [[[0x61, 0x0A, 0x62, 0x63, 0x0A, 0x64]], [[0x61], [0x0A], [0x62, 0x63, 0x0A, 0x64, 0x65, 0x66, 0x67], []],
   [[0x61, 0x62, 0x63, 0x64, 0x65], [0x66, 0x0A]], [[], [0x0A, 0x0A]]]

-- 400 oracles (length ≤ 3 over 7 answers) × 3 × 3 capacities × 4 write sequences
#guard (allLists wAlphabet 3).all fun o => [0, 1, 4].all fun c => [0, 2, 3].all fun lc =>
  sampleWrites.all fun xs => checkMain c lc o xs
-- both outcomes occur, and so does "complete although status 1" (a TRANSIENT error: `flush` fails, the drop delivers)
#guard (allLists wAlphabet 3).any fun o => (mainWrites 4 2 o [[0x61, 0x0A, 0x62]]).1 == .fail
#guard (allLists wAlphabet 3).any fun o => (mainWrites 4 2 o [[0x61, 0x0A, 0x62]]).1 == .ok && o.any (· == .intr)
#guard mainWrites 4 2 [.err false] [[0x61, 0x0A, 0x62]] = (.fail, ⟨[0x61, 0x0A, 0x62], [], false⟩)
#guard mainWrites 4 2 [.zero] [[0x61, 0x0A, 0x62]] = (.fail, ⟨[0x61, 0x0A, 0x62], [], false⟩)
-- the two witnesses on small capacities (capacity 4, line capacity 3)
#guard mainWritesSkippingEmpty 4 3 [.accept 9, .err true] [[0x61, 0x62, 0x0A, 0x63, 0x64]] = (.ok, ⟨[0x61, 0x62, 0x0A], [], true⟩)
#guard mainWrites 4 3 [.accept 9, .err true] [[0x61, 0x62, 0x0A, 0x63, 0x64]] = (.fail, ⟨[0x61, 0x62, 0x0A], [], true⟩)
#guard (stdoutWriter.write (Stdout.new 4 2 []) [0x61, 0x0A, 0x62, 0x63, 0x64]).1 = .ok 2
#guard (stdoutWriter.writeAll (Stdout.new 4 2 []) [0x61, 0x0A, 0x62, 0x63, 0x64]).1 = .ok ()
-- `main`'s capacities, by evaluation
#guard (stdoutWriter.write (Stdout.new 65536 1024 []) (List.replicate 65535 0x61 ++ 0x0A :: List.replicate 4465 0x62)).1
  = .ok 65536
#guard mainWritesSkippingEmpty 65536 1024 [.accept 70000, .err true] [List.replicate 65535 0x61 ++ [0x0A, 0x62]]
  = (.ok, ⟨List.replicate 65535 0x61 ++ [0x0A], [], true⟩)

/-! ## 9. readers: the `Read` contract, fd 0 -/

/-- what can be observed of a reader -/
structure RView (ρ : Type) where
  /-- everything it is still going to deliver, in order (buffered bytes first) -/
  stream : ρ → Bytes
  /-- the unused answers of the OS -/
  budget : ρ → Nat
  /-- no answer other than data and `EINTR` is left -/
  noErr : ρ → Prop
  wf : ρ → Prop

/-- `read_buf(cursor)` with `cursor.capacity() = len` returned `res` (for `Ok`: the bytes appended) -/
structure ReadSpec {ρ : Type} (RV : RView ρ) (r : ρ) (len : Nat) (res : IoRes Bytes) (r' : ρ) : Prop where
  wf : RV.wf r'
  safe : res ≠ .panic ∧ res ≠ .hang
  budget : RV.budget r' ≤ RV.budget r
  intr : res = .err .interrupted → RV.budget r' < RV.budget r
  ok : ∀ bs, res = .ok bs → RV.stream r = bs ++ RV.stream r' ∧ bs.length ≤ len ∧
    (bs = [] → len = 0 ∨ RV.stream r = [])
  err : ∀ e, res = .err e → RV.stream r' = RV.stream r
  noErr : RV.noErr r → RV.noErr r' ∧ ∀ e, res = .err e → e = .interrupted

/-- the contract of a `Read` implementation: an empty read (into a non-empty destination) means END OF INPUT -/
structure RSpec {ρ : Type} (R : Reader ρ) (RV : RView ρ) : Prop where
  budget : ∀ r, R.budget r = RV.budget r
  readBuf : ∀ r len res r', RV.wf r → R.readBuf r len = (res, r') → ReadSpec RV r len res r'

def Src.view : RView Src where
  stream := fun s => s.data
  budget := fun s => s.oracle.length
  noErr := fun s => RAns.err ∉ s.oracle
  wf := fun _ => True

theorem Src.spec : RSpec Src.reader Src.view where
  budget := fun _ => rfl
  readBuf := fun s len res s' _ h => by
    simp only [Src.reader, Src.read] at h
    rcases ho : s.oracle with _ | ⟨a, o⟩
    · simp only [ho, Prod.mk.injEq] at h
      obtain ⟨rfl, rfl⟩ := h
      refine ⟨trivial, by simp, by simp [Src.view], by simp, fun bs hbs => ?_, by simp,
        fun hn => ⟨by simp [Src.view], by simp⟩⟩
      cases hbs
      refine ⟨by simp [Src.view], by simp [List.length_take]; omega, fun h0 => ?_⟩
      simp only [List.take_eq_nil_iff] at h0
      simpa [Src.view] using h0
    · cases a with
      | give n =>
        simp only [ho, Prod.mk.injEq] at h
        obtain ⟨rfl, rfl⟩ := h
        refine ⟨trivial, by simp, by simp [Src.view, ho], by simp, fun bs hbs => ?_, by simp,
          fun hn => ⟨?_, by simp⟩⟩
        · cases hbs
          refine ⟨by simp [Src.view], by simp [List.length_take]; omega, fun h0 => ?_⟩
          simp only [List.take_eq_nil_iff] at h0
          rcases h0 with h0 | h0
          · exact .inl (by omega)
          · exact .inr (by simpa [Src.view] using h0)
        · simp only [Src.view, ho, List.mem_cons, not_or] at hn ⊢
          exact hn.2
      | intr =>
        simp only [ho, Prod.mk.injEq] at h
        obtain ⟨rfl, rfl⟩ := h
        refine ⟨trivial, by simp, by simp [Src.view, ho], fun _ => by simp [Src.view, ho], by simp,
          fun _ _ => by simp [Src.view], fun hn => ⟨?_, fun e he => by cases he; rfl⟩⟩
        simp only [Src.view, ho, List.mem_cons, not_or] at hn ⊢
        exact hn.2
      | err =>
        simp only [ho, Prod.mk.injEq] at h
        obtain ⟨rfl, rfl⟩ := h
        refine ⟨trivial, by simp, by simp [Src.view, ho], by simp, by simp,
          fun _ _ => by simp [Src.view], fun hn => ?_⟩
        simp [Src.view, ho] at hn

/-! ## 10. `BufReader` -/

def BufReader.view {ρ : Type} (RV : RView ρ) : RView (BufReader ρ) where
  stream := fun br => br.buf.drop br.pos ++ RV.stream br.inner
  budget := fun br => RV.budget br.inner
  noErr := fun br => RV.noErr br.inner
  wf := fun br => br.pos ≤ br.buf.length ∧ br.buf.length ≤ br.cap ∧ RV.wf br.inner

section BufReaderProofs
variable {ρ : Type} {R : Reader ρ} {RV : RView ρ}

/-- `fill_buf()` returned `res` -/
structure FillSpec (RV : RView ρ) (br : BufReader ρ) (res : IoRes Bytes) (br' : BufReader ρ) : Prop where
  wf : (BufReader.view RV).wf br'
  cap : br'.cap = br.cap
  safe : res ≠ .panic ∧ res ≠ .hang
  budget : RV.budget br'.inner ≤ RV.budget br.inner
  intr : res = .err .interrupted → RV.budget br'.inner < RV.budget br.inner
  /-- `fill_buf` consumes nothing -/
  stream : (BufReader.view RV).stream br' = (BufReader.view RV).stream br
  /-- the slice handed out is the unconsumed part of the buffer; it is EMPTY ONLY AT END OF INPUT (capacity > 0) -/
  ok : ∀ s, res = .ok s → s = br'.buf.drop br'.pos ∧ (s = [] → br.cap = 0 ∨ (BufReader.view RV).stream br = [])
  /-- a buffer that is not used up is handed out again, without a `read` -/
  keep : br.pos < br.buf.length → br' = br ∧ res = .ok (br.buf.drop br.pos)
  noErr : RV.noErr br.inner → RV.noErr br'.inner ∧ ∀ e, res = .err e → e = .interrupted

theorem buffer_eq (br : BufReader ρ) (h : br.pos ≤ br.buf.length) : br.buffer = some (br.buf.drop br.pos) := by
  simp [BufReader.buffer, BufReader.filled, sliceRange, h, List.take_of_length_le]

theorem fillBuf_spec (hR : RSpec R RV) (br : BufReader ρ) (res : IoRes Bytes) (br' : BufReader ρ)
    (hwf : (BufReader.view RV).wf br) (h : BufReader.fillBuf R br = (res, br')) : FillSpec RV br res br' := by
  unfold BufReader.fillBuf at h
  by_cases hc : br.pos ≥ br.filled
  · have hpos : br.pos = br.buf.length := Nat.le_antisymm hwf.1 hc
    have hdrop : br.buf.drop br.pos = [] := by rw [hpos]; exact List.drop_length
    simp only [hc, if_true, BufReader.refill] at h
    generalize hp : R.readBuf br.inner br.cap = p at h
    obtain ⟨r1, i1⟩ := p
    have sp := hR.readBuf _ _ _ _ hwf.2.2 hp
    cases r1 with
    | ok bs =>
      obtain ⟨h1, h2, h3⟩ := sp.ok bs rfl
      simp only [andThen, buffer_eq (ρ := ρ) ⟨bs, 0, br.cap, i1⟩ (Nat.zero_le _), List.drop_zero, Prod.mk.injEq] at h
      obtain ⟨rfl, rfl⟩ := h
      refine ⟨⟨Nat.zero_le _, h2, sp.wf⟩, rfl, by simp, sp.budget, by simp, ?_, fun s hs => ?_,
        fun hlt => by omega, fun hn => ⟨(sp.noErr hn).1, by simp⟩⟩
      · simp [BufReader.view, hdrop, h1]
      · cases hs
        refine ⟨by simp, fun h0 => ?_⟩
        rcases h3 h0 with h | h
        · exact .inl h
        · exact .inr (by simp [BufReader.view, hdrop, h])
    | err e =>
      simp only [andThen, id, Prod.mk.injEq] at h
      obtain ⟨rfl, rfl⟩ := h
      refine ⟨⟨Nat.zero_le _, Nat.zero_le _, sp.wf⟩, rfl, by simp, sp.budget, sp.intr, ?_, by simp,
        fun hlt => by omega, fun hn => ⟨(sp.noErr hn).1, (sp.noErr hn).2⟩⟩
      simp [BufReader.view, hdrop, sp.err e rfl]
    | panic => exact absurd rfl sp.safe.1
    | hang => exact absurd rfl sp.safe.2
  · simp only [hc, if_false, andThen, buffer_eq br hwf.1, Prod.mk.injEq] at h
    obtain ⟨rfl, rfl⟩ := h
    have hlt : br.pos < br.buf.length := by simpa [BufReader.filled] using hc
    refine ⟨hwf, rfl, by simp, Nat.le_refl _, by simp, rfl, fun s hs => ?_, fun _ => ⟨rfl, rfl⟩,
      fun hn => ⟨hn, by simp⟩⟩
    cases hs
    refine ⟨rfl, fun h0 => ?_⟩
    have := congrArg List.length h0
    simp only [List.length_drop, List.length_nil] at this
    omega

/-- `consume(amt)` drops `amt` bytes (at most the buffered ones) from the stream -/
theorem consume_stream (br : BufReader ρ) (amt : Nat) (hwf : (BufReader.view RV).wf br) :
    (BufReader.view RV).wf (br.consume amt) ∧
    (BufReader.view RV).stream (br.consume amt) =
      ((BufReader.view RV).stream br).drop (min amt (br.buf.length - br.pos)) := by
  refine ⟨⟨Nat.min_le_right _ _, hwf.2.1, hwf.2.2⟩, ?_⟩
  have h1 := hwf.1
  simp only [BufReader.view, BufReader.consume, BufReader.filled]
  rw [List.drop_append_of_le_length (by simp only [List.length_drop]; omega), List.drop_drop]
  congr 2
  omega

/-- `BufReader::read_buf` (with the bypass) keeps the `Read` contract -/
theorem BufReader.readBuf_spec (hR : RSpec R RV) (br : BufReader ρ) (len : Nat) (res : IoRes Bytes)
    (br' : BufReader ρ) (hwf : (BufReader.view RV).wf br) (h : BufReader.readBuf R br len = (res, br')) :
    ReadSpec (BufReader.view RV) br len res br' := by
  unfold BufReader.readBuf at h
  by_cases hc : br.pos = br.filled ∧ len ≥ br.cap
  · have hdrop : br.buf.drop br.pos = [] := by rw [hc.1]; exact List.drop_length
    simp only [hc, and_self, if_true, BufReader.discardBuffer] at h
    generalize hp : R.readBuf br.inner len = p at h
    obtain ⟨r1, i1⟩ := p
    simp only [mapState, Prod.mk.injEq] at h
    obtain ⟨rfl, rfl⟩ := h
    have sp := hR.readBuf _ _ _ _ hwf.2.2 hp
    refine ⟨⟨Nat.zero_le _, Nat.zero_le _, sp.wf⟩, sp.safe, sp.budget, sp.intr, fun bs hbs => ?_, fun e he => ?_,
      sp.noErr⟩
    · obtain ⟨h1, h2, h3⟩ := sp.ok bs hbs
      refine ⟨by simp [BufReader.view, hdrop, h1], h2, fun h0 => ?_⟩
      rcases h3 h0 with h | h
      · exact .inl h
      · exact .inr (by simp [BufReader.view, hdrop, h])
    · simp [BufReader.view, hdrop, sp.err e he]
  · simp only [hc, if_false] at h
    generalize hp : BufReader.fillBuf R br = p at h
    obtain ⟨r1, b1⟩ := p
    have fs := fillBuf_spec hR br r1 b1 hwf hp
    cases r1 with
    | ok rem =>
      simp only [andThen, Prod.mk.injEq] at h
      obtain ⟨rfl, rfl⟩ := h
      obtain ⟨hrem, hemp⟩ := fs.ok rem rfl
      obtain ⟨hwf', hst⟩ := consume_stream (RV := RV) b1 (rem.take len).length fs.wf
      have hremlen : rem.length = b1.buf.length - b1.pos := by rw [hrem]; simp
      refine ⟨hwf', by simp, fs.budget, by simp, fun bs hbs => ?_, by simp, fun hn => ⟨(fs.noErr hn).1, by simp⟩⟩
      cases hbs
      have hmin : min (rem.take len).length (b1.buf.length - b1.pos) = (rem.take len).length := by
        simp only [List.length_take]; omega
      refine ⟨?_, by simp only [List.length_take]; omega, fun h0 => ?_⟩
      · rw [hst, hmin, ← fs.stream]
        have : (BufReader.view RV).stream b1 = rem ++ RV.stream b1.inner := by simp [BufReader.view, hrem]
        rw [this, List.drop_append_of_le_length (by simp only [List.length_take]; omega), ← List.append_assoc]
        congr 1
        simp only [List.length_take]
        rw [show min len rem.length = min len rem.length from rfl]
        conv => lhs; rw [← List.take_append_drop len rem]
        congr 1
        rw [List.drop_eq_drop_iff]
        omega
      · simp only [List.take_eq_nil_iff] at h0
        rcases h0 with h0 | h0
        · exact .inl h0
        · rcases hemp h0 with h | h
          · -- capacity 0: the test of l.356 holds whenever the buffer is used up
            exfalso
            apply hc
            have := fs.wf.2.1
            have hb0 : br.buf.length ≤ br.cap := hwf.2.1
            refine ⟨?_, by omega⟩
            have := hwf.1
            simp only [BufReader.filled]
            omega
          · exact .inr h
    | err e =>
      simp only [andThen, id, Prod.mk.injEq] at h
      obtain ⟨rfl, rfl⟩ := h
      exact ⟨fs.wf, by simp, fs.budget, fs.intr, by simp, fun _ _ => fs.stream, fs.noErr⟩
    | panic => exact absurd rfl fs.safe.1
    | hang => exact absurd rfl fs.safe.2

/-- **`BufReader<R>` keeps the `Read` contract if `R` does** (any capacity; `StdinLock`) -/
theorem BufReader.spec (hR : RSpec R RV) : RSpec (BufReader.reader R) (BufReader.view RV) where
  budget := fun br => hR.budget br.inner
  readBuf := fun br len res br' hwf h => BufReader.readBuf_spec hR br len res br' hwf h

/-- `fill_buf` retried on `EINTR` (io/mod.rs:2247-2251) returned `res` -/
structure FillRetrySpec (RV : RView ρ) (br : BufReader ρ) (res : IoRes Bytes) (br' : BufReader ρ) : Prop where
  wf : (BufReader.view RV).wf br'
  cap : br'.cap = br.cap
  safe : res ≠ .panic ∧ res ≠ .hang
  noIntr : res ≠ .err .interrupted
  budget : RV.budget br'.inner ≤ RV.budget br.inner
  stream : (BufReader.view RV).stream br' = (BufReader.view RV).stream br
  ok : ∀ s, res = .ok s → s = br'.buf.drop br'.pos ∧ (s = [] → br.cap = 0 ∨ (BufReader.view RV).stream br = [])
  keep : br.pos < br.buf.length → br' = br ∧ res = .ok (br.buf.drop br.pos)
  noErr : RV.noErr br.inner → RV.noErr br'.inner ∧ ∃ s, res = .ok s

theorem fillBufRetryLoop_spec (hR : RSpec R RV) : ∀ (fuel : Nat) (br : BufReader ρ) (res : IoRes Bytes)
    (br' : BufReader ρ), (BufReader.view RV).wf br → RV.budget br.inner < fuel →
    BufReader.fillBufRetryLoop R fuel br = (res, br') → FillRetrySpec RV br res br' := by
  intro fuel
  induction fuel with
  | zero => intro br res br' _ hf; omega
  | succ fuel ih =>
    intro br res br' hwf hfuel h
    unfold BufReader.fillBufRetryLoop at h
    generalize hp : BufReader.fillBuf R br = p at h
    obtain ⟨r1, b1⟩ := p
    have fs := fillBuf_spec hR br r1 b1 hwf hp
    cases r1 with
    | ok s =>
      simp only [Prod.mk.injEq] at h
      obtain ⟨rfl, rfl⟩ := h
      exact ⟨fs.wf, fs.cap, by simp, by simp, fs.budget, fs.stream, fs.ok, fs.keep, fun hn => ⟨(fs.noErr hn).1, _, rfl⟩⟩
    | err e =>
      simp only at h
      by_cases he : e = .interrupted
      · subst he
        simp only [if_true] at h
        have sp := ih b1 res br' fs.wf (by have := fs.intr rfl; omega) h
        refine ⟨sp.wf, sp.cap.trans fs.cap, sp.safe, sp.noIntr, Nat.le_trans sp.budget fs.budget,
          sp.stream.trans fs.stream, fun s hs => ?_, fun hlt => ?_, fun hn => sp.noErr (fs.noErr hn).1⟩
        · obtain ⟨a, b⟩ := sp.ok s hs
          refine ⟨a, fun h0 => ?_⟩
          rcases b h0 with h | h
          · exact .inl (by rw [← fs.cap]; exact h)
          · exact .inr (by rw [← fs.stream]; exact h)
        · have := (fs.keep hlt).2
          cases this
      · simp only [he, if_false, Prod.mk.injEq] at h
        obtain ⟨rfl, rfl⟩ := h
        refine ⟨fs.wf, fs.cap, by simp, by simpa using he, fs.budget, fs.stream, by simp, fun hlt => ?_, fun hn => ?_⟩
        · have := (fs.keep hlt).2
          cases this
        · exact absurd ((fs.noErr hn).2 e rfl) he
    | panic => exact absurd rfl fs.safe.1
    | hang => exact absurd rfl fs.safe.2

theorem fillBufRetry_spec (hR : RSpec R RV) (br : BufReader ρ) (res : IoRes Bytes) (br' : BufReader ρ)
    (hwf : (BufReader.view RV).wf br) (h : BufReader.fillBufRetry R br = (res, br')) :
    FillRetrySpec RV br res br' :=
  fillBufRetryLoop_spec hR _ br res br' hwf (by rw [hR.budget]; omega) h

/-- the chunks a consumer gets from `fill_buf` / `consume(len)` -/
theorem drainLoop_spec (hR : RSpec R RV) : ∀ (fuel : Nat) (br : BufReader ρ), (BufReader.view RV).wf br →
    0 < br.cap → ((BufReader.view RV).stream br).length < fuel →
    (∀ s ∈ (drainLoop R fuel br).1, s ≠ []) ∧
    (drainLoop R fuel br).1.flatten <+: (BufReader.view RV).stream br ∧
    ((drainLoop R fuel br).2 = .ok ∨ (drainLoop R fuel br).2 = .fail) ∧
    ((drainLoop R fuel br).2 = .ok → (drainLoop R fuel br).1.flatten = (BufReader.view RV).stream br) ∧
    (RV.noErr br.inner → (drainLoop R fuel br).2 = .ok) := by
  intro fuel
  induction fuel with
  | zero => intro br _ _ hf; omega
  | succ fuel ih =>
    intro br hwf hcap hfuel
    unfold drainLoop
    generalize hp : BufReader.fillBufRetry R br = p
    obtain ⟨r1, b1⟩ := p
    have fs := fillBufRetry_spec hR br r1 b1 hwf hp
    cases r1 with
    | ok s =>
      obtain ⟨hs, hemp⟩ := fs.ok s rfl
      by_cases he : s = []
      · subst he
        have hst : (BufReader.view RV).stream br = [] := by
          rcases hemp rfl with h | h
          · omega
          · exact h
        simp [hst]
      · have hse : s.isEmpty = false := by cases s <;> simp_all
        simp only [hse, Bool.false_eq_true, if_false]
        obtain ⟨hwf', hst⟩ := consume_stream (RV := RV) b1 s.length fs.wf
        have hslen : s.length = b1.buf.length - b1.pos := by rw [hs]; simp
        have hstream : (BufReader.view RV).stream br = s ++ (BufReader.view RV).stream (b1.consume s.length) := by
          rw [hst, ← hslen, Nat.min_self, ← fs.stream]
          have : (BufReader.view RV).stream b1 = s ++ RV.stream b1.inner := by simp [BufReader.view, hs]
          rw [this, List.drop_left]
        have hpos : 0 < s.length := List.length_pos_iff.mpr he
        obtain ⟨i1, i2, i3, i4, i5⟩ := ih (b1.consume s.length) hwf' (by
            show 0 < b1.cap
            rw [fs.cap]; exact hcap) (by
            have := congrArg List.length hstream
            simp only [List.length_append] at this
            omega)
        generalize drainLoop R fuel (b1.consume s.length) = d at i1 i2 i3 i4 i5
        obtain ⟨rest, st⟩ := d
        simp only at i1 i2 i3 i4 i5 ⊢
        refine ⟨fun x hx => ?_, ?_, i3, fun h => ?_, fun hn => i5 (fs.noErr hn).1⟩
        · rcases List.mem_cons.mp hx with h | h
          · exact h ▸ he
          · exact i1 x h
        · rw [hstream, List.flatten_cons]
          exact (List.prefix_append_right_inj s).mpr i2
        · rw [hstream, List.flatten_cons, i4 h]
    | err e =>
      refine ⟨by simp, by simp, by simp [IoRes.status], by simp [IoRes.status], fun hn => ?_⟩
      obtain ⟨s, hs⟩ := (fs.noErr hn).2
      cases hs
    | panic => exact absurd rfl fs.safe.1
    | hang => exact absurd rfl fs.safe.2

end BufReaderProofs

/-! ## 11. the stdin of `main`: R1 -/

def stdinView : RView Stdin := BufReader.view (BufReader.view Src.view)

theorem stdinLock_spec : RSpec stdinLock (BufReader.view Src.view) := BufReader.spec Src.spec

theorem Stdin.new_wf (c lc : Nat) (data : Bytes) (oracle : List RAns) : stdinView.wf (Stdin.new c lc data oracle) := by
  simp [stdinView, BufReader.view, Src.view, Stdin.new, BufReader.withCapacity]

theorem Stdin.new_stream (c lc : Nat) (data : Bytes) (oracle : List RAns) :
    stdinView.stream (Stdin.new c lc data oracle) = data := by
  simp [stdinView, BufReader.view, Src.view, Stdin.new, BufReader.withCapacity]

/-- **R1** — `BufReader::fill_buf` on `main`'s stdin (any positive capacity, any capacity of the `StdinLock`
    below, EVERY pattern of short reads, `EINTR` and errors, from any reachable state): it never panics or
    hangs, consumes nothing, and an EMPTY slice means END OF INPUT — nothing buffered at either level and
    nothing left in the file -/
theorem R1_fill_buf_empty_only_at_eof (br : Stdin) (res : IoRes Bytes) (br' : Stdin) (hwf : stdinView.wf br)
    (hcap : 0 < br.cap) (h : BufReader.fillBuf stdinLock br = (res, br')) :
    (res ≠ .panic ∧ res ≠ .hang) ∧ stdinView.stream br' = stdinView.stream br ∧
    (res = .ok [] → stdinView.stream br = [] ∧ br.inner.inner.data = []) := by
  have fs := fillBuf_spec stdinLock_spec br res br' hwf h
  refine ⟨fs.safe, fs.stream, fun hr => ?_⟩
  have hst : stdinView.stream br = [] := by
    rcases (fs.ok [] hr).2 rfl with h | h
    · omega
    · exact h
  refine ⟨hst, ?_⟩
  simp only [stdinView, BufReader.view, Src.view, List.append_eq_nil_iff] at hst
  exact hst.2.2

/-- **R1, capacity 0** (the seeded change `BufReader::with_capacity(0, …)`): every successful `fill_buf` is
    EMPTY, whatever the file holds — every engine sees end of input at once -/
theorem capacity_zero_reads_nothing {ρ : Type} {R : Reader ρ} {RV : RView ρ} (hR : RSpec R RV) (br : BufReader ρ)
    (res : IoRes Bytes) (br' : BufReader ρ) (hwf : (BufReader.view RV).wf br) (hcap : br.cap = 0)
    (h : BufReader.fillBuf R br = (res, br')) : ∀ s, res = .ok s → s = [] := by
  intro s hs
  have fs := fillBuf_spec hR br res br' hwf h
  rw [(fs.ok s hs).1]
  have := fs.wf.2.1
  rw [fs.cap, hcap] at this
  simp [List.eq_nil_of_length_eq_zero (Nat.le_zero.mp this)]

/-- **R1, the chunks** — what the successive `fill_buf()` (retried on `EINTR`) / `consume(len)` hand out on
    `main`'s stdin, for every pattern of short reads and `EINTR`: non-empty chunks whose concatenation is the
    file.  This is the `segs` of `Tuc.Props.StreamLoop` / `ReadLoops` / `WholeLit` (`∀ s ∈ segs, s ≠ []`,
    `segs.flatten = input`), now derived from the `read(2)` contract. -/
theorem R1_chunks (c lc : Nat) (data : Bytes) (oracle : List RAns) (hc : 0 < c) (ho : RAns.err ∉ oracle) :
    (drainLoop stdinLock (data.length + 1) (Stdin.new c lc data oracle)).2 = .ok ∧
    (∀ s ∈ (drainLoop stdinLock (data.length + 1) (Stdin.new c lc data oracle)).1, s ≠ []) ∧
    (drainLoop stdinLock (data.length + 1) (Stdin.new c lc data oracle)).1.flatten = data := by
  have hlen : (stdinView.stream (Stdin.new c lc data oracle)).length < data.length + 1 := by
    rw [Stdin.new_stream]; omega
  obtain ⟨h1, -, -, h4, h5⟩ := drainLoop_spec stdinLock_spec (data.length + 1) (Stdin.new c lc data oracle)
    (Stdin.new_wf c lc data oracle) hc hlen
  have hok := h5 (by simpa [BufReader.view, Src.view, Stdin.new, BufReader.withCapacity] using ho)
  refine ⟨hok, h1, ?_⟩
  rw [h4 hok]
  exact Stdin.new_stream c lc data oracle

/-- with read errors: still a prefix, and status 1 -/
theorem R1_chunks_any_oracle (c lc : Nat) (data : Bytes) (oracle : List RAns) (hc : 0 < c) :
    (drainLoop stdinLock (data.length + 1) (Stdin.new c lc data oracle)).1.flatten <+: data ∧
    ((drainLoop stdinLock (data.length + 1) (Stdin.new c lc data oracle)).2 = .ok ∨
      (drainLoop stdinLock (data.length + 1) (Stdin.new c lc data oracle)).2 = .fail) := by
  have hlen : (stdinView.stream (Stdin.new c lc data oracle)).length < data.length + 1 := by
    rw [Stdin.new_stream]; omega
  obtain ⟨-, h2, h3, -, -⟩ := drainLoop_spec stdinLock_spec (data.length + 1) (Stdin.new c lc data oracle)
    (Stdin.new_wf c lc data oracle) hc hlen
  rw [show (BufReader.view (BufReader.view Src.view)) = stdinView from rfl, Stdin.new_stream] at h2
  exact ⟨h2, h3⟩

/-! ## 12. the literal `BufReader` SIMULATES the chunk-list reader of `Tuc.Model.StreamLoop` -/

section Simulation
variable {ρ : Type} {R : Reader ρ} {RV : RView ρ}

/-- more fuel than bytes: the amount does not matter -/
theorem drainLoop_fuel (hR : RSpec R RV) : ∀ (f f' : Nat) (br : BufReader ρ), (BufReader.view RV).wf br →
    0 < br.cap → ((BufReader.view RV).stream br).length < f → ((BufReader.view RV).stream br).length < f' →
    drainLoop R f br = drainLoop R f' br := by
  intro f
  induction f with
  | zero => intro f' br _ _ hf; omega
  | succ f ih =>
    intro f' br hwf hcap hf hf'
    cases f' with
    | zero => omega
    | succ f' =>
      unfold drainLoop
      generalize hp : BufReader.fillBufRetry R br = p
      obtain ⟨r1, b1⟩ := p
      have fs := fillBufRetry_spec hR br r1 b1 hwf hp
      cases r1 with
      | ok s =>
        obtain ⟨hs, -⟩ := fs.ok s rfl
        by_cases he : s = []
        · subst he; simp
        · have hse : s.isEmpty = false := by cases s <;> simp_all
          simp only [hse, Bool.false_eq_true, if_false]
          obtain ⟨hwf', hst⟩ := consume_stream (RV := RV) b1 s.length fs.wf
          have hslen : s.length = b1.buf.length - b1.pos := by rw [hs]; simp
          have hlen : ((BufReader.view RV).stream br).length =
              s.length + ((BufReader.view RV).stream (b1.consume s.length)).length := by
            rw [hst, ← hslen, Nat.min_self, ← fs.stream]
            have : (BufReader.view RV).stream b1 = s ++ RV.stream b1.inner := by simp [BufReader.view, hs]
            rw [this, List.drop_left, List.length_append]
          have hpos : 0 < s.length := List.length_pos_iff.mpr he
          rw [ih f' (b1.consume s.length) hwf' (by show 0 < b1.cap; rw [fs.cap]; exact hcap) (by omega) (by omega)]
      | err e => rfl
      | panic => rfl
      | hang => rfl

/-- the chunk list a `BufReader` stands for: what it holds now, then what the reads are going to bring -/
def segsOf (R : Reader ρ) (RV : RView ρ) (br : BufReader ρ) : List Bytes :=
  (drainLoop R (((BufReader.view RV).stream br).length + 1) br).1

/-- the state after a `fill_buf`: a non-empty buffer, or end of input -/
def Filled (RV : RView ρ) (br : BufReader ρ) : Prop :=
  br.pos < br.buf.length ∨ (BufReader.view RV).stream br = []

theorem segsOf_nonempty (hR : RSpec R RV) (br : BufReader ρ) (hwf : (BufReader.view RV).wf br) (hcap : 0 < br.cap) :
    ∀ s ∈ segsOf R RV br, s ≠ [] :=
  (drainLoop_spec hR _ br hwf hcap (Nat.lt_succ_self _)).1

theorem segsOf_flatten (hR : RSpec R RV) (br : BufReader ρ) (hwf : (BufReader.view RV).wf br) (hcap : 0 < br.cap)
    (hn : RV.noErr br.inner) : (segsOf R RV br).flatten = (BufReader.view RV).stream br := by
  obtain ⟨-, -, -, h4, h5⟩ := drainLoop_spec hR _ br hwf hcap (Nat.lt_succ_self _)
  exact h4 (h5 hn)

theorem segsOf_eof (hR : RSpec R RV) (br : BufReader ρ) (hwf : (BufReader.view RV).wf br) (hcap : 0 < br.cap)
    (h : (BufReader.view RV).stream br = []) : segsOf R RV br = [] := by
  obtain ⟨h1, h2, -, -, -⟩ := drainLoop_spec hR _ br hwf hcap (Nat.lt_succ_self _)
  unfold segsOf
  generalize (drainLoop R (((BufReader.view RV).stream br).length + 1) br).1 = l at h1 h2
  rw [h] at h2
  have hf := List.prefix_nil.mp h2
  cases l with
  | nil => rfl
  | cons x t =>
    rw [List.flatten_cons, List.append_eq_nil_iff] at hf
    exact absurd hf.1 (h1 x (by simp))

/-- with a buffer that is not used up: its rest, then the chunks after it -/
theorem segsOf_cons (hR : RSpec R RV) (br : BufReader ρ) (hwf : (BufReader.view RV).wf br) (hcap : 0 < br.cap)
    (hlt : br.pos < br.buf.length) :
    segsOf R RV br = br.buf.drop br.pos :: segsOf R RV (br.consume (br.buf.length - br.pos)) := by
  have fs := fillBufRetry_spec hR br _ _ hwf rfl
  obtain ⟨hb, hr⟩ := fs.keep hlt
  have hne : (br.buf.drop br.pos).isEmpty = false := by
    cases hd : br.buf.drop br.pos with
    | nil =>
      have := congrArg List.length hd
      simp only [List.length_drop, List.length_nil] at this
      omega
    | cons => rfl
  obtain ⟨hwf', hst⟩ := consume_stream (RV := RV) br (br.buf.length - br.pos) hwf
  unfold segsOf
  conv => lhs; unfold drainLoop
  have hpair : BufReader.fillBufRetry R br = (.ok (br.buf.drop br.pos), br) := Prod.ext hr hb
  simp only [hpair, hne, Bool.false_eq_true, if_false, List.length_drop]
  congr 1
  rw [drainLoop_fuel hR ((BufReader.view RV).stream br).length
    (((BufReader.view RV).stream (br.consume (br.buf.length - br.pos))).length + 1)
    _ hwf' hcap (by
      rw [hst, Nat.min_self]
      simp only [BufReader.view, List.length_drop, List.length_append]
      omega) (Nat.lt_succ_self _)]

theorem consume_consume (br : BufReader ρ) (n m : Nat) (h : br.buf.length ≤ br.pos + n + m) :
    (br.consume n).consume m = br.consume (n + m) := by
  simp only [BufReader.consume, BufReader.filled]
  congr 1
  omega

/-- **`fill_buf` commutes with the abstraction**: the literal `fill_buf()` (retried on `EINTR`, as
    `read_until` does) returns the head of the chunk list and does not change it -/
theorem sim_fillBuf (hR : RSpec R RV) (br : BufReader ρ) (res : IoRes Bytes) (br' : BufReader ρ)
    (hwf : (BufReader.view RV).wf br) (hcap : 0 < br.cap) (hn : RV.noErr br.inner)
    (h : BufReader.fillBufRetry R br = (res, br')) :
    res = .ok (StreamLoop.fillBuf (segsOf R RV br)) ∧ segsOf R RV br' = segsOf R RV br ∧
    (BufReader.view RV).wf br' ∧ 0 < br'.cap ∧ RV.noErr br'.inner ∧ Filled RV br' := by
  have fs := fillBufRetry_spec hR br res br' hwf h
  obtain ⟨hn', s, rfl⟩ := fs.noErr hn
  obtain ⟨hs, hemp⟩ := fs.ok s rfl
  have hcap' : 0 < br'.cap := by rw [fs.cap]; exact hcap
  by_cases he : s = []
  · subst he
    have hst : (BufReader.view RV).stream br = [] := by
      rcases hemp rfl with h | h
      · omega
      · exact h
    rw [segsOf_eof hR br hwf hcap hst, segsOf_eof hR br' fs.wf hcap' (fs.stream.trans hst)]
    exact ⟨rfl, rfl, fs.wf, hcap', hn', .inr (fs.stream.trans hst)⟩
  · have hlt : br'.pos < br'.buf.length := by
      have := List.length_pos_iff.mpr he
      rw [hs, List.length_drop] at this
      omega
    have hsegs : segsOf R RV br = s :: segsOf R RV (br'.consume s.length) := by
      have hse : s.isEmpty = false := by cases s <;> simp_all
      obtain ⟨hwf'', hst⟩ := consume_stream (RV := RV) br' s.length fs.wf
      have hslen : s.length = br'.buf.length - br'.pos := by rw [hs]; simp
      unfold segsOf
      conv => lhs; unfold drainLoop
      simp only [h, hse, Bool.false_eq_true, if_false]
      congr 1
      have hpos : 0 < s.length := List.length_pos_iff.mpr he
      have hle : s.length ≤ ((BufReader.view RV).stream br').length := by
        simp only [BufReader.view, List.length_append, List.length_drop]
        omega
      rw [drainLoop_fuel hR ((BufReader.view RV).stream br).length
        (((BufReader.view RV).stream (br'.consume s.length)).length + 1)
        _ hwf'' hcap' (by
          rw [hst, ← fs.stream, ← hslen, Nat.min_self]
          simp only [List.length_drop]
          omega) (Nat.lt_succ_self _)]
    have hsegs' := segsOf_cons hR br' fs.wf hcap' hlt
    have hslen : s.length = br'.buf.length - br'.pos := by rw [hs]; simp
    rw [← hslen, ← hs] at hsegs'
    refine ⟨by rw [hsegs]; rfl, hsegs'.trans hsegs.symm, fs.wf, hcap', hn', .inl hlt⟩

/-- **`consume` commutes with the abstraction** (after a `fill_buf`, as the `BufRead` contract demands) -/
theorem sim_consume (hR : RSpec R RV) (br : BufReader ρ) (amt : Nat) (hwf : (BufReader.view RV).wf br)
    (hcap : 0 < br.cap) (hf : Filled RV br) :
    segsOf R RV (br.consume amt) = StreamLoop.consume amt (segsOf R RV br) := by
  obtain ⟨hwf', hst⟩ := consume_stream (RV := RV) br amt hwf
  rcases hf with hlt | heof
  · rw [segsOf_cons hR br hwf hcap hlt]
    simp only [StreamLoop.consume, List.length_drop]
    by_cases hc : amt < br.buf.length - br.pos
    · have hlt' : (br.consume amt).pos < (br.consume amt).buf.length := by
        simp only [BufReader.consume, BufReader.filled]
        omega
      rw [if_pos hc, segsOf_cons hR _ hwf' hcap hlt']
      congr 1
      · simp only [BufReader.consume, BufReader.filled, List.drop_drop]
        congr 1
        omega
      · congr 1
        have h1 : (br.consume amt).buf.length = br.buf.length := rfl
        have h2 : (br.consume amt).pos = br.pos + amt := by
          simp only [BufReader.consume, BufReader.filled]; omega
        rw [h1, h2, consume_consume br amt _ (by omega)]
        simp only [BufReader.consume, BufReader.filled]
        congr 1
        omega
    · rw [if_neg hc]
      congr 1
      simp only [BufReader.consume, BufReader.filled]
      congr 1
      omega
  · rw [segsOf_eof hR br hwf hcap heof, segsOf_eof hR _ hwf' hcap (by rw [hst, heof]; simp)]
    rfl

end Simulation

/-- **R1 for `main`'s stdin, as a simulation** — from the first `fill_buf` on, the literal
    `BufReader<StdinLock>` and the chunk list `segsOf … (Stdin.new c lc data oracle)` answer every `fill_buf` /
    `consume` alike (`sim_fillBuf`, `sim_consume`), and that list consists of non-empty chunks whose
    concatenation is the file: the hypothesis of `cutBytesStreamLoop_eq`, `readAndCutStrLoop_eq`, … -/
theorem R1_initial_segs (c lc : Nat) (data : Bytes) (oracle : List RAns) (hc : 0 < c) (ho : RAns.err ∉ oracle) :
    (∀ s ∈ segsOf stdinLock (BufReader.view Src.view) (Stdin.new c lc data oracle), s ≠ []) ∧
    (segsOf stdinLock (BufReader.view Src.view) (Stdin.new c lc data oracle)).flatten = data :=
  ⟨segsOf_nonempty stdinLock_spec _ (Stdin.new_wf c lc data oracle) hc,
   (segsOf_flatten stdinLock_spec _ (Stdin.new_wf c lc data oracle) hc
      (by simpa [BufReader.view, Src.view, Stdin.new, BufReader.withCapacity] using ho)).trans
    (Stdin.new_stream c lc data oracle)⟩

/-! ## 13. non-vacuity for the readers: ALL read oracles of bounded length on small capacities -/

def rAlphabet : List RAns := [.give 0, .give 1, .give 5, .intr, .err]

/-- the statement of `drainLoop_spec` / `R1_chunks` as a test -/
def checkRead (c lc : Nat) (oracle : List RAns) (data : Bytes) : Bool :=
  let (chunks, st) := drainLoop stdinLock (data.length + 1) (Stdin.new c lc data oracle)
  chunks.all (fun s => s != [])
    && isPrefix chunks.flatten data
    && (st == .ok || st == .fail)
    && (st != .ok || chunks.flatten == data)
    && (oracle.contains .err || (st == .ok && chunks.flatten == data))

-- 781 oracles (length ≤ 4 over 5 answers) × 3 × 4 capacities
#guard (allLists rAlphabet 4).all fun o => [1, 2, 5].all fun c => [0, 1, 3, 8].all fun lc =>
  checkRead c lc o [1, 2, 3, 4, 5, 6, 7]
#guard (allLists rAlphabet 4).any fun o => (drainLoop stdinLock 8 (Stdin.new 2 3 [1, 2, 3, 4, 5, 6, 7] o)).2 == .fail
-- the chunks do depend on the oracle and on both capacities (the bypass of bufreader.rs:356)
#guard drainLoop stdinLock 10 (Stdin.new 4 2 [1, 2, 3, 4, 5, 6, 7, 8, 9] [.give 0, .intr, .give 5])
  = ([[1], [2, 3, 4, 5], [6, 7, 8, 9]], .ok)
#guard drainLoop stdinLock 10 (Stdin.new 2 4 [1, 2, 3, 4, 5, 6, 7, 8, 9] [.give 0, .intr, .give 5])
  = ([[1], [2, 3], [4, 5], [6, 7], [8, 9]], .ok)
-- capacity 0 (seeded change): end of input at once, status 0, nothing read — with `main`'s other capacity
#guard drainLoop stdinLock 10 (Stdin.new 0 8192 [1, 2, 3] []) = ([], .ok)
#guard (BufReader.fillBuf stdinLock (Stdin.new 0 8192 [1, 2, 3] [])).1 = .ok []
#guard (BufReader.fillBuf stdinLock (Stdin.new 65536 8192 [1, 2, 3] [])).1 = .ok [1, 2, 3]
-- `fill_buf` itself does NOT retry `EINTR` (buffer.rs:157 `result?`): `stream.rs:295` and bstr's
-- `for_byte_record_with_terminator` (`fill_buf()?`) turn it into status 1; nothing is lost for a caller that retries
#guard (BufReader.fillBuf stdinLock (Stdin.new 4 2 [1, 2, 3] [.intr])).1 = .err .interrupted
#guard (BufReader.fillBufRetry stdinLock (Stdin.new 4 2 [1, 2, 3] [.intr])).1 = .ok [1, 2, 3]
-- `sim_consume` needs `Filled`: before the first `fill_buf` the chunk list is ahead of the buffer
#guard segsOf stdinLock (BufReader.view Src.view) ((Stdin.new 4 2 [1, 2, 3] []).consume 1) = [[1, 2, 3]]
#guard StreamLoop.consume 1 (segsOf stdinLock (BufReader.view Src.view) (Stdin.new 4 2 [1, 2, 3] [])) = [[2, 3]]

/-- a consumer that takes ONE byte per `fill_buf`, on the literal reader … -/
def bytewiseLit : Nat → Stdin → Bytes
  | 0, _ => []
  | fuel + 1, br =>
    match BufReader.fillBufRetry stdinLock br with
    | (.ok (b :: _), br) => b :: bytewiseLit fuel (br.consume 1)
    | _ => []

/-- … and on the chunk list -/
def bytewiseAbs : Nat → List Bytes → Bytes
  | 0, _ => []
  | fuel + 1, segs =>
    match StreamLoop.fillBuf segs with
    | b :: _ => b :: bytewiseAbs fuel (StreamLoop.consume 1 segs)
    | [] => []

#guard (allLists [RAns.give 0, .give 1, .give 5, .intr] 4).all fun o => [1, 2, 5].all fun c => [0, 3, 8].all fun lc =>
  let br := Stdin.new c lc [1, 2, 3, 4, 5, 6, 7] o
  bytewiseLit 9 br == [1, 2, 3, 4, 5, 6, 7]
    && bytewiseAbs 9 (segsOf stdinLock (BufReader.view Src.view) br) == [1, 2, 3, 4, 5, 6, 7]

/-! ## 14. instances of the theorems (non-vacuity) -/

example : mainWrites 65536 1024 [.accept 0, .intr, .intr, .accept 2, .intr] [[0x61, 0x0A], [0x62], [0x63, 0x0A]] =
    (.ok, ⟨[0x61, 0x0A, 0x62, 0x63, 0x0A], (mainWrites 65536 1024 [.accept 0, .intr, .intr, .accept 2, .intr]
      [[0x61, 0x0A], [0x62], [0x63, 0x0A]]).2.oracle, false⟩) :=
  W1_fault_free 65536 1024 _ _ (by decide)

example : (mainWrites 65536 1024 [.accept 0, .err true] [[0x61, 0x0A], [0x62], [0x63, 0x0A]]).2.fd <+:
    [0x61, 0x0A, 0x62, 0x63, 0x0A] :=
  (W2_prefix_and_no_silent_loss 65536 1024 _ _).1

#guard mainWrites 65536 1024 [.accept 0, .err true] [[0x61, 0x0A], [0x62], [0x63, 0x0A]] = (.fail, ⟨[0x61], [], true⟩)
#guard mainWritesThenErr 65536 1024 [.accept 0, .intr] [[0x61, 0x0A], [0x62]] = (.fail, ⟨[0x61, 0x0A, 0x62], [], false⟩)

example : ∃ limit, (mainWrites 65536 1024 [.accept 0, .err true] [[0x61, 0x0A], [0x62]]).2.fd =
    (deliver ⟨[0x61, 0x0A, 0x62], .ok⟩ limit).out ∧
    (mainWrites 65536 1024 [.accept 0, .err true] [[0x61, 0x0A], [0x62]]).1 =
      (deliver ⟨[0x61, 0x0A, 0x62], .ok⟩ limit).status := by
  obtain ⟨limit, h1, -, -, h4⟩ := W2_deliver 65536 1024 [.accept 0, .err true] [[0x61, 0x0A], [0x62]]
  exact ⟨limit, h1, h4 (by decide)⟩

example : (drainLoop stdinLock 4 (Stdin.new 65536 8192 [1, 2, 3] [.give 0, .intr, .give 0])).1.flatten = [1, 2, 3] :=
  (R1_chunks 65536 8192 [1, 2, 3] [.give 0, .intr, .give 0] (by decide) (by decide)).2.2

end StdioLit
end Tuc
