import Tuc.Model.StdioLit
import Tuc.Model.Args
import Tuc.Model.StreamLoop

namespace Tuc
namespace StdioLit

/-! ## 0. vocabulary of the specifications -/

/-- what can be observed of a writer: the bytes on the descriptor, everything accepted so far in order
    (`fd ++` what sits in the buffers), the unused answers of the OS, the sticky-error flag -/
structure Snap where
  fd : Bytes
  all : Bytes
  oracle : List WAns
  dead : Bool

def WAns.benign : WAns → Bool
  | .accept _ => true
  | .intr => true
  | _ => false

/-- neither `Ok(0)` nor a transient error -/
def WAns.hard : WAns → Bool
  | .zero => false
  | .err false => false
  | _ => true

/-- the OS never fails: short writes and `EINTR` only -/
def Snap.faultFree (s : Snap) : Prop := s.dead = false ∧ ∀ a ∈ s.oracle, a.benign = true

/-- the only faults are `EINTR` and STICKY errors -/
def Snap.sticky (s : Snap) : Prop := ∀ a ∈ s.oracle, a.hard = true

theorem Snap.faultFree.toSticky {s : Snap} (h : s.faultFree) : s.sticky := by
  intro a ha
  have := h.2 a ha
  cases a <;> simp_all [WAns.benign, WAns.hard]

/-- what EVERY operation does to the observable state: it accepts `x` -/
structure Adv (s s' : Snap) (x : Bytes) : Prop where
  all : s'.all = s.all ++ x
  fd : s.fd <+: s'.fd
  oracle : s'.oracle <:+ s.oracle
  dead : s.dead = true → s'.dead = true ∧ s'.fd = s.fd
  born : s'.dead = true → s.dead = true ∨ WAns.err true ∈ s.oracle

theorem Adv.refl (s : Snap) : Adv s s [] :=
  ⟨by simp, List.prefix_refl _, List.suffix_refl _, fun h => ⟨h, rfl⟩, fun h => .inl h⟩

theorem Adv.trans {s s' s'' : Snap} {x y : Bytes} (h : Adv s s' x) (h' : Adv s' s'' y) :
    Adv s s'' (x ++ y) where
  all := by rw [h'.all, h.all, List.append_assoc]
  fd := h.fd.trans h'.fd
  oracle := h'.oracle.trans h.oracle
  dead := fun hd => by
    obtain ⟨a, b⟩ := h.dead hd
    obtain ⟨c, d⟩ := h'.dead a
    exact ⟨c, d.trans b⟩
  born := fun hd => by
    rcases h'.born hd with a | a
    · exact h.born a
    · exact .inr (h.oracle.subset a)

theorem Adv.faultFree {s s' : Snap} {x : Bytes} (h : Adv s s' x) (hf : s.faultFree) : s'.faultFree := by
  refine ⟨?_, fun a ha => hf.2 a (h.oracle.subset ha)⟩
  cases hd : s'.dead
  · rfl
  · rcases h.born hd with a | a
    · simp [hf.1] at a
    · have := hf.2 _ a
      simp [WAns.benign] at this

theorem Adv.sticky {s s' : Snap} {x : Bytes} (h : Adv s s' x) (hf : s.sticky) : s'.sticky :=
  fun a ha => hf a (h.oracle.subset ha)

theorem Adv.oracle_le {s s' : Snap} {x : Bytes} (h : Adv s s' x) : s'.oracle.length ≤ s.oracle.length :=
  h.oracle.length_le

theorem Adv.cast {s s' : Snap} {x y : Bytes} (h : Adv s s' x) (e : x = y) : Adv s s' y := e ▸ h

def IoRes.count : IoRes Nat → Nat
  | .ok n => n
  | _ => 0

/-- `write(buf)` returned `r` -/
structure WriteSpec (s s' : Snap) (buf : Bytes) (r : IoRes Nat) : Prop where
  adv : Adv s s' (buf.take (IoRes.count r))
  le : IoRes.count r ≤ buf.length
  safe : r ≠ .panic ∧ r ≠ .hang
  intr : r = .err .interrupted → s'.oracle.length < s.oracle.length
  clean : s.faultFree → (∃ n, r = .ok n) ∨ r = .err .interrupted
  sticky : s.sticky → buf ≠ [] → (∀ n, r = .ok n → 1 ≤ n) ∧ (∀ e, r = .err e → e ≠ .interrupted → s'.dead = true)

/-- `write_all(buf)` returned `r` -/
structure WriteAllSpec (s s' : Snap) (buf : Bytes) (r : IoRes Unit) : Prop where
  adv : ∃ k, k ≤ buf.length ∧ Adv s s' (buf.take k) ∧ (r = .ok () → k = buf.length) ∧
    (s.sticky → ∀ e, r = .err e → s'.dead = true ∧ (s'.fd.length < s'.all.length ∨ k < buf.length))
  safe : r ≠ .panic ∧ r ≠ .hang
  noIntr : r ≠ .err .interrupted
  clean : s.faultFree → r = .ok ()

/-- `flush()` returned `r` -/
structure FlushSpec (s s' : Snap) (r : IoRes Unit) : Prop where
  adv : Adv s s' []
  safe : r ≠ .panic ∧ r ≠ .hang
  noIntr : r ≠ .err .interrupted
  clean : s.faultFree → r = .ok ()
  done : r = .ok () → s'.fd = s'.all
  sticky : s.sticky → ∀ e, r = .err e → s'.dead = true ∧ s'.fd.length < s'.all.length

structure View (ω : Type) where
  snap : ω → Snap
  wf : ω → Prop

/-- the contract of a `Write` implementation -/
structure Spec {ω : Type} (W : Writer ω) (V : View ω) : Prop where
  fdPrefix : ∀ w, V.wf w → (V.snap w).fd <+: (V.snap w).all
  budget : ∀ w, W.budget w = (V.snap w).oracle.length
  write : ∀ w buf r w', V.wf w → W.write w buf = (r, w') → V.wf w' ∧ WriteSpec (V.snap w) (V.snap w') buf r
  writeAll : ∀ w buf r w', V.wf w → W.writeAll w buf = (r, w') → V.wf w' ∧ WriteAllSpec (V.snap w) (V.snap w') buf r
  flush : ∀ w r w', V.wf w → W.flush w = (r, w') → V.wf w' ∧ FlushSpec (V.snap w) (V.snap w') r

/-! ## 1. fd 1 -/

def Sink.view : View Sink where
  snap := fun s => ⟨s.fd, s.fd, s.oracle, s.dead⟩
  wf := fun _ => True

theorem Sink.write_spec (s : Sink) (buf : Bytes) (r : IoRes Nat) (s' : Sink) (h : s.write buf = (r, s')) :
    WriteSpec (Sink.view.snap s) (Sink.view.snap s') buf r := by
  unfold Sink.write at h
  by_cases hd : s.dead = true
  · simp only [hd, if_true, Prod.mk.injEq] at h
    obtain ⟨rfl, rfl⟩ := h
    exact ⟨by simpa [IoRes.count] using Adv.refl _, by simp [IoRes.count], by simp, by simp,
      fun hf => by simp [Snap.faultFree, Sink.view, hd] at hf, fun _ _ => ⟨by simp, fun _ _ _ => hd⟩⟩
  · simp only [hd] at h
    rcases ho : s.oracle with _ | ⟨a, o⟩
    · simp only [ho, Bool.false_eq_true, if_false, Prod.mk.injEq] at h
      obtain ⟨rfl, rfl⟩ := h
      refine ⟨⟨by simp [IoRes.count, Sink.view], by simp [Sink.view], by simp [Sink.view],
        fun h => by simp [Sink.view] at h; simp [h] at hd, fun h => .inl (by simp [Sink.view] at h)⟩,
        by simp [IoRes.count], by simp, by simp, fun _ => .inl ⟨_, rfl⟩, fun _ hb => ⟨?_, by simp⟩⟩
      intro n hn
      cases hn
      cases buf with
      | nil => exact absurd rfl hb
      | cons => simp
    · have hsuf : o <:+ s.oracle := by rw [ho]; exact List.suffix_cons a o
      cases a with
      | accept n =>
        simp only [ho, Bool.false_eq_true, if_false, Prod.mk.injEq] at h
        obtain ⟨rfl, rfl⟩ := h
        refine ⟨⟨?_, by simp [Sink.view], by simpa [Sink.view] using hsuf,
          fun h => by simp [Sink.view] at h; simp [h] at hd, fun h => .inl (by simp [Sink.view] at h)⟩,
          by simp [IoRes.count]; omega, by simp, by simp, fun _ => .inl ⟨_, rfl⟩, fun _ hb => ⟨?_, by simp⟩⟩
        · simp only [IoRes.count, Sink.view, List.append_cancel_left_eq]
          rw [List.take_eq_take_iff]
          simp [Nat.min_assoc]
        · intro k hk
          cases hk
          cases buf with
          | nil => exact absurd rfl hb
          | cons => simp
      | zero =>
        simp only [ho, Bool.false_eq_true, if_false, Prod.mk.injEq] at h
        obtain ⟨rfl, rfl⟩ := h
        refine ⟨⟨by simp [IoRes.count, Sink.view], by simp [Sink.view], by simpa [Sink.view] using hsuf,
          fun h => by simp [Sink.view] at h; simp [h] at hd, fun h => .inl (by simp [Sink.view] at h)⟩,
          by simp [IoRes.count], by simp, by simp, fun hf => ?_, fun hs _ => ?_⟩
        · have := hf.2 WAns.zero (by simp [Sink.view, ho])
          simp [WAns.benign] at this
        · have := hs WAns.zero (by simp [Sink.view, ho])
          simp [WAns.hard] at this
      | intr =>
        simp only [ho, Bool.false_eq_true, if_false, Prod.mk.injEq] at h
        obtain ⟨rfl, rfl⟩ := h
        exact ⟨⟨by simp [IoRes.count, Sink.view], by simp [Sink.view], by simpa [Sink.view] using hsuf,
          fun h => by simp [Sink.view] at h; simp [h] at hd, fun h => .inl (by simp [Sink.view] at h)⟩,
          by simp [IoRes.count], by simp, fun _ => by simp [Sink.view, ho], fun _ => .inr rfl,
          fun _ _ => ⟨by simp, by simp⟩⟩
      | err sticky =>
        simp only [ho, Bool.false_eq_true, if_false, Prod.mk.injEq] at h
        obtain ⟨rfl, rfl⟩ := h
        refine ⟨⟨by simp [IoRes.count, Sink.view], by simp [Sink.view], by simpa [Sink.view] using hsuf,
          fun h => by simp [Sink.view] at h; simp [h] at hd, fun h => .inr ?_⟩,
          by simp [IoRes.count], by simp, by simp, fun hf => ?_, fun hs _ => ⟨by simp, fun _ _ _ => ?_⟩⟩
        · simp only [Sink.view] at h ⊢
          subst h
          simp [ho]
        · have := hf.2 (WAns.err sticky) (by simp [Sink.view, ho])
          simp [WAns.benign] at this
        · have := hs (WAns.err sticky) (by simp [Sink.view, ho])
          cases sticky
          · simp [WAns.hard] at this
          · simp [Sink.view]

theorem take_add' (l : Bytes) (m n : Nat) : l.take m ++ (l.drop m).take n = l.take (m + n) := by
  rw [List.take_add]

theorem sliceFrom_some {buf : Bytes} {n : Nat} (h : n ≤ buf.length) : sliceFrom buf n = some (buf.drop n) := by
  simp [sliceFrom, h]

theorem sliceTo_some {buf : Bytes} {n : Nat} (h : n ≤ buf.length) : sliceTo buf n = some (buf.take n) := by
  simp [sliceTo, h]

/-- the default `write_all` loop (io/mod.rs:1857-1869) over any `write` that keeps the `Write` contract -/
theorem defaultWriteAll_spec {ω : Type} (write : ω → Bytes → IoRes Nat × ω) (V : View ω)
    (hw : ∀ w buf r w', V.wf w → write w buf = (r, w') → V.wf w' ∧ WriteSpec (V.snap w) (V.snap w') buf r) :
    ∀ (fuel : Nat) (w : ω) (buf : Bytes) (r : IoRes Unit) (w' : ω), V.wf w →
      (V.snap w).oracle.length + buf.length < fuel → defaultWriteAll write fuel w buf = (r, w') →
      V.wf w' ∧ WriteAllSpec (V.snap w) (V.snap w') buf r := by
  intro fuel
  induction fuel with
  | zero => intro w buf r w' _ hf; omega
  | succ fuel ih =>
    intro w buf r w' hwf hfuel h
    unfold defaultWriteAll at h
    by_cases hb : buf = []
    · subst hb
      simp only [List.isEmpty_nil, if_true, Prod.mk.injEq] at h
      obtain ⟨rfl, rfl⟩ := h
      exact ⟨hwf, ⟨0, by simp, by simpa using Adv.refl _, by simp, by simp⟩, by simp, by simp, fun _ => rfl⟩
    · have hbe : buf.isEmpty = false := by cases buf <;> simp_all
      simp only [hbe, Bool.false_eq_true, if_false] at h
      generalize hp : write w buf = p at h
      obtain ⟨r1, w1⟩ := p
      obtain ⟨hwf1, sp⟩ := hw w buf r1 w1 hwf hp
      cases r1 with
      | ok n =>
        simp only at h
        by_cases hn : n = 0
        · subst hn
          simp only [if_true, Prod.mk.injEq] at h
          obtain ⟨rfl, rfl⟩ := h
          refine ⟨hwf1, ⟨0, by simp, by simpa [IoRes.count] using sp.adv, by simp, fun hs e _ => ?_⟩, by simp, by simp,
            fun hf => ?_⟩
          · have := (sp.sticky hs hb).1 0 rfl
            omega
          · have := (sp.sticky hf.toSticky hb).1 0 rfl
            omega
        · have hle : n ≤ buf.length := by simpa [IoRes.count] using sp.le
          simp only [hn, if_false, sliceFrom_some hle] at h
          have hadv : Adv (V.snap w) (V.snap w1) (buf.take n) := by simpa [IoRes.count] using sp.adv
          obtain ⟨hwf', sp'⟩ := ih w1 (buf.drop n) r w' hwf1 (by
            have := hadv.oracle_le
            simp only [List.length_drop]
            omega) h
          obtain ⟨k, hk, ha, hok, hst⟩ := sp'.adv
          simp only [List.length_drop] at hk hok hst
          refine ⟨hwf', ⟨n + k, by omega, (hadv.trans ha).cast (take_add' _ _ _), fun h => by have := hok h; omega,
            fun hs e he => ?_⟩, sp'.safe, sp'.noIntr, fun hf => sp'.clean (hadv.faultFree hf)⟩
          obtain ⟨a, b⟩ := hst (hadv.sticky hs) e he
          exact ⟨a, by omega⟩
      | err e =>
        simp only at h
        have hadv : Adv (V.snap w) (V.snap w1) [] := by simpa [IoRes.count] using sp.adv
        by_cases he : e = .interrupted
        · subst he
          simp only [if_true] at h
          obtain ⟨hwf', sp'⟩ := ih w1 buf r w' hwf1 (by have := sp.intr rfl; omega) h
          obtain ⟨k, hk, ha, hok, hst⟩ := sp'.adv
          exact ⟨hwf', ⟨k, hk, (hadv.trans ha).cast (by simp), hok, fun hs => hst (hadv.sticky hs)⟩, sp'.safe,
            sp'.noIntr, fun hf => sp'.clean (hadv.faultFree hf)⟩
        · simp only [he, if_false, Prod.mk.injEq] at h
          obtain ⟨rfl, rfl⟩ := h
          refine ⟨hwf1, ⟨0, by simp, by simpa using hadv, by simp, fun hs e' he' => ?_⟩, by simp, by simpa using he,
            fun hf => ?_⟩
          · cases he'
            exact ⟨(sp.sticky hs hb).2 e rfl he, .inr (List.length_pos_iff.mpr hb)⟩
          · rcases sp.clean hf with ⟨n, hn⟩ | hn
            · cases hn
            · cases hn; exact absurd rfl he
      | panic => exact absurd rfl sp.safe.1
      | hang => exact absurd rfl sp.safe.2

theorem Sink.spec : Spec Sink.writer Sink.view where
  fdPrefix := fun _ _ => List.prefix_refl _
  budget := fun _ => rfl
  write := fun w buf r w' _ h => ⟨trivial, Sink.write_spec w buf r w' h⟩
  writeAll := fun w buf r w' _ h =>
    defaultWriteAll_spec Sink.write Sink.view (fun w buf r w' _ h => ⟨trivial, Sink.write_spec w buf r w' h⟩)
      _ w buf r w' trivial (by simp [Sink.view]) h
  flush := fun w r w' _ h => by
    simp only [Sink.writer, Sink.flush, Prod.mk.injEq] at h
    obtain ⟨rfl, rfl⟩ := h
    exact ⟨trivial, Adv.refl _, by simp, by simp, fun _ => rfl, fun _ => rfl, fun _ e he => by cases he⟩

/-! ## 2. `BufWriter` -/

/-- a `BufWriter` adds its buffer to what has been accepted -/
def BufWriter.view {ω : Type} (V : View ω) : View (BufWriter ω) where
  snap := fun bw =>
    ⟨(V.snap bw.inner).fd, (V.snap bw.inner).all ++ bw.buf, (V.snap bw.inner).oracle, (V.snap bw.inner).dead⟩
  wf := fun bw => bw.buf.length ≤ bw.cap ∧ V.wf bw.inner

theorem Adv.lift {si si' : Snap} {x b b' y : Bytes} (h : Adv si si' x) (hb : x ++ b' = b ++ y) :
    Adv ⟨si.fd, si.all ++ b, si.oracle, si.dead⟩ ⟨si'.fd, si'.all ++ b', si'.oracle, si'.dead⟩ y where
  all := by simp only [h.all, List.append_assoc, hb]
  fd := h.fd
  oracle := h.oracle
  dead := h.dead
  born := h.born

section BufWriterProofs
variable {ω : Type} {W : Writer ω} {V : View ω}

theorem flushBufLoop_spec (hW : Spec W V) (buffer : Bytes) :
    ∀ (fuel written : Nat) (inner : ω) (r : IoRes Unit) (written' : Nat) (inner' : ω), V.wf inner →
      written ≤ buffer.length → (V.snap inner).oracle.length + (buffer.length - written) < fuel →
      BufWriter.flushBufLoop W buffer fuel written inner = (r, written', inner') →
      V.wf inner' ∧ written ≤ written' ∧ written' ≤ buffer.length ∧
      Adv (V.snap inner) (V.snap inner') ((buffer.drop written).take (written' - written)) ∧
      (r ≠ .panic ∧ r ≠ .hang) ∧ r ≠ .err .interrupted ∧
      (r = .ok () → written' = buffer.length) ∧
      ((V.snap inner).faultFree → r = .ok ()) ∧
      ((V.snap inner).sticky → ∀ e, r = .err e → (V.snap inner').dead = true ∧ written' < buffer.length) := by
  intro fuel
  induction fuel with
  | zero => intro written inner r written' inner' _ _ hf; omega
  | succ fuel ih =>
    intro written inner r written' inner' hwf hle hfuel h
    unfold BufWriter.flushBufLoop at h
    by_cases hdone : written ≥ buffer.length
    · simp only [hdone, if_true, Prod.mk.injEq] at h
      obtain ⟨rfl, rfl, rfl⟩ := h
      exact ⟨hwf, Nat.le_refl _, hle, by simpa using Adv.refl _, by simp, by simp, fun _ => by omega, fun _ => rfl,
        fun _ e he => by cases he⟩
    · simp only [hdone, if_false, sliceFrom_some hle] at h
      have hne : buffer.drop written ≠ [] := by
        intro h0
        have := congrArg List.length h0
        simp only [List.length_drop, List.length_nil] at this
        omega
      generalize hp : W.write inner (buffer.drop written) = p at h
      obtain ⟨r1, w1⟩ := p
      obtain ⟨hwf1, sp⟩ := hW.write inner _ r1 w1 hwf hp
      cases r1 with
      | ok n =>
        simp only at h
        have hadv : Adv (V.snap inner) (V.snap w1) ((buffer.drop written).take n) := by
          simpa [IoRes.count] using sp.adv
        by_cases hn : n = 0
        · subst hn
          simp only [if_true, Prod.mk.injEq] at h
          obtain ⟨rfl, rfl, rfl⟩ := h
          refine ⟨hwf1, Nat.le_refl _, hle, by simpa using hadv, by simp, by simp, by simp,
            fun hf => ?_, fun hs e _ => ?_⟩
          · have := (sp.sticky hf.toSticky hne).1 0 rfl
            omega
          · have := (sp.sticky hs hne).1 0 rfl
            omega
        · have hnle : n ≤ buffer.length - written := by simpa [IoRes.count] using sp.le
          simp only [hn, if_false] at h
          obtain ⟨hwf', h1, h2, ha, hsafe, hni, hok, hcl, hst⟩ :=
            ih (written + n) w1 r written' inner' hwf1 (by omega) (by have := hadv.oracle_le; omega) h
          refine ⟨hwf', by omega, h2, ?_, hsafe, hni, hok, fun hf => hcl (hadv.faultFree hf),
            fun hs => hst (hadv.sticky hs)⟩
          refine (hadv.trans ha).cast ?_
          rw [← List.drop_drop, take_add']
          congr 1
          omega
      | err e =>
        simp only at h
        have hadv : Adv (V.snap inner) (V.snap w1) [] := by simpa [IoRes.count] using sp.adv
        by_cases he : e = .interrupted
        · subst he
          simp only [if_true] at h
          obtain ⟨hwf', h1, h2, ha, hsafe, hni, hok, hcl, hst⟩ :=
            ih written w1 r written' inner' hwf1 hle (by have := sp.intr rfl; omega) h
          exact ⟨hwf', h1, h2, (hadv.trans ha).cast (by simp), hsafe, hni, hok, fun hf => hcl (hadv.faultFree hf),
            fun hs => hst (hadv.sticky hs)⟩
        · simp only [he, if_false, Prod.mk.injEq] at h
          obtain ⟨rfl, rfl, rfl⟩ := h
          refine ⟨hwf1, Nat.le_refl _, hle, by simpa using hadv, by simp, by simpa using he, by simp,
            fun hf => ?_, fun hs e' he' => ?_⟩
          · rcases sp.clean hf with ⟨n, hn⟩ | hn
            · cases hn
            · cases hn; exact absurd rfl he
          · cases he'
            exact ⟨(sp.sticky hs hne).2 e rfl he, by omega⟩
      | panic => exact absurd rfl sp.safe.1
      | hang => exact absurd rfl sp.safe.2

/-- what `flush_buf` guarantees -/
structure FlushBufSpec (V : View ω) (bw bw' : BufWriter ω) (r : IoRes Unit) : Prop where
  wf : (BufWriter.view V).wf bw'
  cap : bw'.cap = bw.cap
  adv : Adv ((BufWriter.view V).snap bw) ((BufWriter.view V).snap bw') []
  safe : r ≠ .panic ∧ r ≠ .hang
  noIntr : r ≠ .err .interrupted
  clean : ((BufWriter.view V).snap bw).faultFree → r = .ok ()
  done : r = .ok () → bw'.buf = []
  sticky : ((BufWriter.view V).snap bw).sticky → ∀ e, r = .err e →
    ((BufWriter.view V).snap bw').dead = true ∧ bw'.buf ≠ []

theorem flushBuf_spec (hW : Spec W V) (bw : BufWriter ω) (r : IoRes Unit) (bw' : BufWriter ω)
    (hwf : (BufWriter.view V).wf bw) (h : BufWriter.flushBuf W bw = (r, bw')) : FlushBufSpec V bw bw' r := by
  unfold BufWriter.flushBuf at h
  generalize hp : BufWriter.flushBufLoop W bw.buf (W.budget bw.inner + bw.buf.length + 1) 0 bw.inner = p at h
  obtain ⟨r1, written, inner⟩ := p
  obtain ⟨hwf', -, h2, ha, hsafe, hni, hok, hcl, hst⟩ :=
    flushBufLoop_spec hW bw.buf _ 0 bw.inner r1 written inner hwf.2 (Nat.zero_le _)
      (by rw [hW.budget]; omega) hp
  simp only [List.drop_zero, Nat.sub_zero] at ha
  have key : r = r1 ∧ bw' = { bw with buf := bw.buf.drop written, inner := inner } := by
    by_cases hw : written > 0
    · simp only [hw, if_true, sliceFrom_some h2, Prod.mk.injEq] at h
      exact ⟨h.1.symm, h.2.symm⟩
    · simp only [hw, if_false, Prod.mk.injEq] at h
      have : written = 0 := by omega
      subst this
      exact ⟨h.1.symm, by simpa using h.2.symm⟩
  obtain ⟨rfl, rfl⟩ := key
  refine ⟨⟨?_, hwf'⟩, rfl, ha.lift (by simp), hsafe, hni, hcl, fun h => ?_, fun hs e he => ⟨(hst hs e he).1, ?_⟩⟩
  · have := hwf.1
    simp only [List.length_drop]
    omega
  · have := hok h
    simp [this]
  · have := (hst hs e he).2
    intro h0
    have := congrArg List.length h0
    simp only [List.length_drop, List.length_nil] at this
    omega

end BufWriterProofs

end StdioLit
end Tuc
