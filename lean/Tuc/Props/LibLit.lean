import Tuc.Model.LibLit
import Tuc.Props.C07
import Tuc.Lemmas.Run
/-!
# Tuc.Props.LibLit — the library TEXT of `serde_json::to_string(&str)` and of `str::from_utf8`
computes `jsonString` and `validUtf8`

`Tuc.Model.Utf8` says what the two routines compute; `Tuc.Model.LibLit` follows their source text
statement by statement.  Here the two are proved equal, so that the trust in "the library computes
this" is replaced by trust in the transcription of some 150 lines of Rust (plus the two tables,
which are copied verbatim).

## Part 1 — serde_json 1.0.140

* `ESCAPE_getElem` — THE TABLE FACT, all 256 entries by `decide +kernel` (no sampling):
  `ESCAPE[b]` is in range and is the entry named by the case analysis of `jsonEscapeByte`
  (`escapeOf`); `escapeOf_zero`, `escapeOf_ne_zero`: entry 0 ⇒ the byte is passed through; entry
  ≠ 0 ⇒ the byte is ASCII, `from_escape_table` does not reach `unreachable!()`, both `HEX_DIGITS`
  lookups are in range and `write_char_escape` writes `jsonEscapeByte b`.
* **`formatEscapedStrLit_eq : validUtf8 s = true → formatEscapedStrLit s = Run.ok (jsonString s)`**
  — for EVERY `str`: the bytes written are `jsonString s`, no `&value[start..i]` / `&value[start..]`
  is taken off a char boundary, no table lookup is out of range.
* `jsonString_valid`, **`toStringLit_eq : validUtf8 s = true → toStringLit s = .ok (jsonString s)`**
  — `to_vec`/`to_string`; the `unsafe { String::from_utf8_unchecked(vec) }` is sound: what was
  written is UTF-8.
* THE HYPOTHESIS `validUtf8 s`.  (1) It is the decidable `validUtf8 s = true`.  (2) It cannot be
  dropped: on `[0x0A, 0x80]` (LF, stray continuation byte) the literal panics (`&value[1..]` off
  a char boundary) while `jsonString` is total — see the `example` in the last section.  (3) The
  real program cannot reach such a state: the argument has type `&str`, whose invariant is
  exactly this, and at the only call site of /repo (cut_str.rs:253) it is the result of
  `std::str::from_utf8(..)?` — `writeAsJsonLit_eq` puts the two parts together and needs no
  hypothesis.  What happens otherwise is stated exactly: `formatEscapedStrLit_cases` —
  `escSafe s` ("no escaped byte is followed by a continuation byte"; weaker than UTF-8) decides
  between `Run.ok (jsonString s)` and a panic.

## Part 2 — `core::str::run_utf8_validation`

* `utf8CharWidth_eq` — THE TABLE FACT, all 256 entries by `decide +kernel`: `UTF8_CHAR_WIDTH[b]` is
  in range and is the width the case analysis of `charLen` gives the first byte (`widthOf`);
  `secondOf3_eq`, `secondOf4_eq`: the range patterns of l.193-196 / 205 are the second-byte tests
  of `charLen` (Unicode Table 3-7); `notCont_eq`: `b as i8 >= -64` is `!isCont b`.
* `charStep_spec` — the `match w { … }` decides `charLen` at the current offset;
  `asciiStep_spec` — the ASCII branch, WHATEVER `align` is, advances over ASCII bytes only, by at
  least one byte, never beyond the end, and its block reads lie inside the slice.
* **`runUtf8ValidationLit_ok_iff : runUtf8ValidationLit v align = .ok () ↔ validUtf8 v = true`**
  for EVERY byte list and EVERY `align`; `runUtf8ValidationLit_total` (no panic: every `v[index]`
  in range; no fuel runs out); `runUtf8ValidationLit_spec` (in the `Err` case `valid_up_to` is THE
  offset such that everything before it is valid and no character starts at it —
  `valid_up_to_unique`); **`runUtf8ValidationLit_align`** — the whole result, error fields
  included, is the same for every `align`; `fromUtf8IsOk_eq : fromUtf8IsOk v align = validUtf8 v`.
  No hypothesis anywhere in part 2.

## What is still taken on trust

* that `Tuc.Model.LibLit` is a faithful reading of the Rust text (conventions in its header): in
  particular that `<str as Serialize>::serialize` is `serialize_str`, that `CompactFormatter`
  keeps the default methods of `Formatter`, that `Vec<u8>::write_all` appends and cannot fail,
  that a `usize` read is its 8 bytes and `&` acts lane by lane;
* that the `core` which the stable toolchain links has this text (the sandbox has `rust-src` only
  for the nightly toolchain);
* `String::from_utf8` (read_utils.rs:31) and `BufRead::read_line` (read_utils.rs:25) reach the
  same `run_utf8_validation` through `str::from_utf8`; their own few lines are not transcribed;
* the alignment of the block reads (the SAFETY comment of validations.rs:225-228) — the address
  is not modelled; that the reads are IN BOUNDS is proved.
-/

namespace Tuc
namespace LibLit

/-! ## brute force over the 256 bytes -/

theorem forall_byte {P : UInt8 → Prop} (h : ∀ n, n < 256 → P (UInt8.ofNat n)) (b : UInt8) : P b := by
  have := h b.toNat b.toNat_lt
  simpa using this

/-! ## Part 1 — the tables of `ser.rs` -/

/-- the case analysis of `jsonEscapeByte`, read as entries of the table -/
def escapeOf (b : UInt8) : UInt8 :=
  if b = 0x22 then QU
  else if b = 0x5C then BS
  else if b = 0x08 then BB
  else if b = 0x0C then FF
  else if b = 0x0A then NN
  else if b = 0x0D then RR
  else if b = 0x09 then TT
  else if b < 0x20 then UU
  else __

theorem ESCAPE_length : ESCAPE.length = 256 := by decide +kernel

/-- THE TABLE FACT: for each of the 256 bytes, `ESCAPE[b]` is in range and is the entry that the
    case analysis of `jsonEscapeByte` names -/
theorem ESCAPE_getElem (b : UInt8) : ESCAPE[b.toNat]? = some (escapeOf b) := by
  revert b
  apply forall_byte
  decide +kernel

/-- an entry `0` is a byte that `jsonEscapeByte` leaves alone -/
theorem escapeOf_zero (b : UInt8) : escapeOf b = 0 → jsonEscapeByte b = [b] := by
  revert b
  apply forall_byte
  decide +kernel

/-- a non-zero entry: the byte is ASCII, `from_escape_table` does not reach `unreachable!()`,
    the `HEX_DIGITS` lookups are in range, and `write_char_escape` writes `jsonEscapeByte b` -/
theorem escapeOf_ne_zero (b : UInt8) : escapeOf b ≠ 0 →
    b < 0x80 ∧ isUtf8CharBoundary b = true ∧
    (CharEscape.fromEscapeTable (escapeOf b) b).map writeCharEscape = some (Run.ok (jsonEscapeByte b)) := by
  revert b
  apply forall_byte
  decide +kernel

/-- `(self as i8) >= -0x40` is "not a continuation byte" -/
theorem isUtf8CharBoundary_eq (b : UInt8) : isUtf8CharBoundary b = !isCont b := by
  revert b
  apply forall_byte
  decide +kernel

/-! ## Part 1 — the loop of `format_escaped_str_contents` -/

theorem indexThen_ESCAPE (b : UInt8) (k : UInt8 → Run) : indexThen ESCAPE b.toNat k = k (escapeOf b) := by
  simp only [indexThen, ESCAPE_getElem]

theorem run_ok_seq_ok (a b : Bytes) : Run.seq (Run.ok a) (Run.ok b) = Run.ok (a ++ b) := rfl

/-- THE CONDITION UNDER WHICH NO `str` SLICE PANICS: the byte after an escaped byte (if there is
    one) is not a UTF-8 continuation byte.  `validUtf8` implies it (`escSafe_of_valid`): escaped
    bytes are ASCII, and in UTF-8 an ASCII byte is a whole character. -/
def EscSafe (value : Bytes) : Prop :=
  ∀ (k : Nat) (a c : UInt8), value[k]? = some a → value[k + 1]? = some c → escapeOf a ≠ 0 →
    isUtf8CharBoundary c = true

theorem isCharBoundary_after (value : Bytes) (hs : EscSafe value) (pre rest : Bytes) (byte : UInt8)
    (hv : value = pre ++ byte :: rest) (he : escapeOf byte ≠ 0) :
    isCharBoundary value (pre.length + 1) = true := by
  have hk : value[pre.length]? = some byte := by simp [hv]
  unfold isCharBoundary
  rw [if_neg (by omega)]
  by_cases hlen : pre.length + 1 ≥ value.length
  · rw [if_pos hlen]
    have : value.length = pre.length + 1 + rest.length := by simp [hv]; omega
    simp; omega
  · rw [if_neg hlen]
    cases hc : value[pre.length + 1]? with
    | none => simp at hc; omega
    | some c => exact hs _ _ _ hk hc he

theorem contentsLoop_eq (value : Bytes) (hs : EscSafe value) : ∀ (rem pre0 frag : Bytes),
    value = pre0 ++ frag ++ rem → (∀ b ∈ frag, escapeOf b = 0) →
    isCharBoundary value pre0.length = true →
    contentsLoop value rem (pre0.length + frag.length) pre0.length =
      Run.ok (frag ++ rem.flatMap jsonEscapeByte) := by
  intro rem
  induction rem with
  | nil =>
    intro pre0 frag hv hfrag hb
    simp only [contentsLoop, List.flatMap_nil, List.append_nil] at hv ⊢
    by_cases hf : frag = []
    · subst hf; simp [hv]
    · have : pre0.length ≠ value.length := by
        have := List.length_pos_iff.2 hf
        simp [hv]; omega
      rw [if_neg this]
      simp only [strSliceFrom, hb, if_true, writeStringFragment, writeAll]
      simp [hv]
  | cons byte rest ih =>
    intro pre0 frag hv hfrag hb
    rw [contentsLoop, indexThen_ESCAPE]
    by_cases he : escapeOf byte = 0
    · rw [if_pos he]
      have := ih pre0 (frag ++ [byte]) (by simp [hv]) (by
        intro b hb'; rcases List.mem_append.1 hb' with h | h
        · exact hfrag b h
        · simp at h; subst h; exact he) hb
      simp only [List.length_append, List.length_singleton, ← Nat.add_assoc] at this
      rw [this, List.flatMap_cons, escapeOf_zero byte he]
      simp
    · rw [if_neg he]
      obtain ⟨_, hbyte, hw⟩ := escapeOf_ne_zero byte he
      -- the fragment before the escape
      have hfragRun : (if pre0.length < pre0.length + frag.length then
            strSliceRange value pre0.length (pre0.length + frag.length) fun fragment =>
              writeStringFragment fragment
          else Run.ok []) = Run.ok frag := by
        by_cases hf : frag = []
        · subst hf; simp
        · have hpos := List.length_pos_iff.2 hf
          rw [if_pos (by omega)]
          have hi : isCharBoundary value (pre0.length + frag.length) = true := by
            unfold isCharBoundary
            rw [if_neg (by omega), if_neg (by simp [hv])]
            have : value[pre0.length + frag.length]? = some byte := by
              rw [hv, ← List.length_append, List.getElem?_append_right (Nat.le_refl _)]; simp
            rw [this]; exact hbyte
          simp only [strSliceRange, hb, hi, and_self, Nat.le_add_right, if_true,
            writeStringFragment, writeAll]
          simp [hv, slice]
      rw [hfragRun]
      -- the escape
      cases hce : CharEscape.fromEscapeTable (escapeOf byte) byte with
      | none => simp [hce] at hw
      | some ce =>
        simp only [hce, Option.map_some, Option.some.injEq] at hw
        simp only [unwrapThen, hw]
        have hb' := isCharBoundary_after value hs (pre0 ++ frag) rest byte (by simp [hv]) he
        have := ih (pre0 ++ frag ++ [byte]) [] (by simp [hv]) (by simp)
          (by simpa [Nat.add_assoc] using hb')
        simp only [List.length_append, List.length_singleton, List.length_nil, Nat.add_zero,
          List.nil_append] at this
        rw [this, run_ok_seq_ok, run_ok_seq_ok, List.flatMap_cons]

/-! ## UTF-8 facts: one step of `validUtf8`, the bytes of one character -/

theorem validUtf8_cons_iff (b : UInt8) (t : Bytes) :
    validUtf8 (b :: t) = true ↔
      ∃ k, charLen (b :: t) = some k ∧ validUtf8 ((b :: t).drop k) = true := by
  unfold validUtf8 utf8Chars
  simp only [List.length_cons, utf8CharsFuel]
  cases hk : charLen (b :: t) with
  | none => simp
  | some k =>
    have hb := charLen_bounds _ _ hk
    have := utf8CharsFuel_fuel t.length ((b :: t).drop k) (by simp; omega)
    simp [this]

theorem charLen_ascii (b : UInt8) (t : Bytes) (h : b < 0x80) : charLen (b :: t) = some 1 := by
  simp [charLen, h]

theorem lt_0x80_of (b : UInt8) : (b < 0x80) = (!decide (0x80 ≤ b)) := by
  revert b; apply forall_byte; decide +kernel

/-- every byte of a character after its first one is `≥ 0x80` -/
theorem charLen_tail_ge (bs : Bytes) (k : Nat) (h : charLen bs = some k) (j : Nat) (c : UInt8)
    (h1 : 1 ≤ j) (hj : j < k) (hc : bs[j]? = some c) : ¬ c < 0x80 := by
  unfold charLen at h
  repeat' split at h
  all_goals first
    | cases h; done
    | (simp only [Option.ite_none_right_eq_some, Option.some.injEq] at h
       first | subst h | obtain ⟨_, rfl⟩ := h
       have hj' : j = 1 ∨ j = 2 ∨ j = 3 := by omega
       rcases hj' with rfl | rfl | rfl <;> first
         | omega
         | (simp only [List.getElem?_cons_succ, List.getElem?_cons_zero, Option.some.injEq] at hc
            subst hc
            simp only [isCont, Bool.and_eq_true, decide_eq_true_eq, UInt8.le_iff_toNat_le,
              UInt8.lt_iff_toNat_lt] at *
            simp only [UInt8.toNat_ofNat] at *
            omega))

theorem isCont_not_lead (c : UInt8) : isCont c = true →
    ¬ c < 0x80 ∧ (decide (0xC2 ≤ c) && decide (c ≤ 0xDF)) = false ∧
    (decide (0xE0 ≤ c) && decide (c ≤ 0xEF)) = false ∧
    (decide (0xF0 ≤ c) && decide (c ≤ 0xF4)) = false := by
  revert c; apply forall_byte; decide +kernel

/-- a continuation byte does not start a character -/
theorem charLen_head (c : UInt8) (t : Bytes) (k : Nat) (h : charLen (c :: t) = some k) :
    isUtf8CharBoundary c = true := by
  rw [isUtf8CharBoundary_eq]
  cases hc : isCont c with
  | false => rfl
  | true =>
    obtain ⟨h1, h2, h3, h4⟩ := isCont_not_lead c hc
    simp [charLen, h1, h2, h3, h4] at h

/-- in valid UTF-8 the byte after an ASCII byte starts a character -/
theorem valid_after_ascii : ∀ (n : Nat) (v : Bytes), v.length ≤ n → validUtf8 v = true →
    ∀ (pre : Bytes) (a c : UInt8) (rest : Bytes), v = pre ++ a :: c :: rest → a < 0x80 →
    isUtf8CharBoundary c = true := by
  intro n
  induction n with
  | zero =>
    intro v hn _ pre a c rest hv _
    subst hv; simp at hn
  | succ n ih =>
    intro v hn hval pre a c rest hv ha
    cases v with
    | nil => simp at hv
    | cons b t =>
      obtain ⟨k, hk, hrest⟩ := (validUtf8_cons_iff b t).1 hval
      have hb := charLen_bounds _ _ hk
      by_cases hkp : k ≤ pre.length
      · refine ih ((b :: t).drop k) (by simp at hn ⊢; omega) hrest (pre.drop k) a c rest ?_ ha
        rw [hv, List.drop_append_of_le_length hkp]
      · by_cases hp : pre = []
        · subst hp
          simp only [List.nil_append, List.cons.injEq] at hv
          obtain ⟨rfl, rfl⟩ := hv
          rw [charLen_ascii _ _ ha] at hk
          cases hk
          simp only [List.drop_succ_cons, List.drop_zero] at hrest
          obtain ⟨k', hk', _⟩ := (validUtf8_cons_iff c rest).1 hrest
          exact charLen_head c rest k' hk'
        · exfalso
          have hpos := List.length_pos_iff.2 hp
          refine charLen_tail_ge _ _ hk pre.length a (by omega) (by omega) ?_ ha
          rw [hv]; simp

theorem escSafe_of_valid (s : Bytes) (h : validUtf8 s = true) : EscSafe s := by
  intro k a c ha hc he
  have hlt := (escapeOf_ne_zero a he).1
  have hk : k + 1 < s.length := by
    rcases List.getElem?_eq_some_iff.1 hc with ⟨h, _⟩; exact h
  refine valid_after_ascii s.length s (Nat.le_refl _) h (s.take k) a c (s.drop (k + 2)) ?_ hlt
  have e1 : s = s.take k ++ s.drop k := (List.take_append_drop k s).symm
  have e2 : s.drop k = a :: s.drop (k + 1) := by
    rw [List.drop_eq_getElem_cons (by omega)]
    congr 1
    rcases List.getElem?_eq_some_iff.1 ha with ⟨_, h⟩; exact h
  have e3 : s.drop (k + 1) = c :: s.drop (k + 2) := by
    rw [List.drop_eq_getElem_cons hk]
    congr 1
    rcases List.getElem?_eq_some_iff.1 hc with ⟨_, h⟩; exact h
  rw [← e3, ← e2]; exact e1

/-! ## Part 1 — the headline theorems -/

theorem formatEscapedStrContents_eq (s : Bytes) (hs : EscSafe s) :
    formatEscapedStrContents s = Run.ok (s.flatMap jsonEscapeByte) := by
  have := contentsLoop_eq s hs s [] [] (by simp) (by simp) (by simp [isCharBoundary])
  simpa [formatEscapedStrContents] using this

/-- the same under the exact condition `EscSafe` (weaker than UTF-8) -/
theorem formatEscapedStrLit_of_escSafe (s : Bytes) (hs : EscSafe s) :
    formatEscapedStrLit s = Run.ok (jsonString s) := by
  simp only [formatEscapedStrLit, formatEscapedStrContents_eq s hs, beginString, endString, writeAll,
    run_ok_seq_ok, jsonString, List.append_assoc]

/-- **`format_escaped_str` writes `jsonString s`** — for EVERY `str` (a byte string that is valid
    UTF-8, which the type `&str` guarantees): no `str` slice is taken off a char boundary, no table
    lookup is out of range, `unreachable!()` is not reached. -/
theorem formatEscapedStrLit_eq (s : Bytes) (h : validUtf8 s = true) :
    formatEscapedStrLit s = Run.ok (jsonString s) :=
  formatEscapedStrLit_of_escSafe s (escSafe_of_valid s h)

/-! ## the output is UTF-8 (what `String::from_utf8_unchecked` of `to_string` relies on) -/

theorem validUtf8_ascii (l : Bytes) (h : ∀ b ∈ l, b < 0x80) : validUtf8 l = true := by
  induction l with
  | nil => rfl
  | cons b t ih =>
    rw [validUtf8_cons_iff]
    exact ⟨1, charLen_ascii b t (h b (List.mem_cons_self ..)),
      ih fun c hc => h c (List.mem_cons_of_mem _ hc)⟩

theorem jsonEscapeByte_ascii (b : UInt8) : b < 0x80 → ∀ c ∈ jsonEscapeByte b, c < 0x80 := by
  revert b; apply forall_byte; decide +kernel

theorem jsonEscapeByte_high (b : UInt8) : ¬ b < 0x80 → jsonEscapeByte b = [b] := by
  revert b; apply forall_byte; decide +kernel

theorem flatMap_high (l : Bytes) (h : ∀ b ∈ l, ¬ b < 0x80) : l.flatMap jsonEscapeByte = l := by
  induction l with
  | nil => rfl
  | cons b t ih =>
    rw [List.flatMap_cons, jsonEscapeByte_high b (h b (List.mem_cons_self ..)),
      ih fun c hc => h c (List.mem_cons_of_mem _ hc)]
    rfl

theorem flatMap_escape_valid : ∀ (n : Nat) (v : Bytes), v.length ≤ n → validUtf8 v = true →
    validUtf8 (v.flatMap jsonEscapeByte) = true := by
  intro n
  induction n with
  | zero =>
    intro v hn _
    have : v = [] := List.eq_nil_of_length_eq_zero (by omega)
    subst this; rfl
  | succ n ih =>
    intro v hn hval
    cases v with
    | nil => rfl
    | cons b t =>
      obtain ⟨k, hk, hrest⟩ := (validUtf8_cons_iff b t).1 hval
      have hb := charLen_bounds _ _ hk
      have ihr := ih ((b :: t).drop k) (by simp at hn ⊢; omega) hrest
      rw [← List.take_append_drop k (b :: t), List.flatMap_append]
      refine validUtf8_append _ _ ?_ ihr
      by_cases ha : b < 0x80
      · rw [charLen_ascii _ _ ha] at hk
        cases hk
        simp only [List.take_succ_cons, List.take_zero, List.flatMap_cons, List.flatMap_nil,
          List.append_nil]
        exact validUtf8_ascii _ (jsonEscapeByte_ascii b ha)
      · rw [flatMap_high]
        · have := validUtf8_flatten_of_chars [(b :: t).take k] (by
            intro c hc; simp at hc; subst hc; exact charLen_take _ _ hk)
          simpa using this
        · intro c hc
          obtain ⟨j, hj, hcj⟩ := List.mem_iff_getElem.1 hc
          rw [List.getElem_take] at hcj
          rw [List.length_take] at hj
          cases j with
          | zero => simp at hcj; subst hcj; exact ha
          | succ j =>
            refine charLen_tail_ge _ _ hk (j + 1) c (by omega) (by omega) ?_
            rw [← hcj]; exact List.getElem?_eq_getElem _

/-- the JSON text of a `str` is UTF-8 -/
theorem jsonString_valid (s : Bytes) (h : validUtf8 s = true) : validUtf8 (jsonString s) = true := by
  unfold jsonString
  refine validUtf8_append _ _ (validUtf8_append _ _ (by decide) ?_) (by decide)
  exact flatMap_escape_valid s.length s (Nat.le_refl _) h

theorem toVecLit_eq (s : Bytes) (h : validUtf8 s = true) : toVecLit s = .ok (jsonString s) := by
  simp [toVecLit, toWriter, serializeStr, formatEscapedStrLit_eq s h, Run.ok]

/-- **`serde_json::to_string(&str)` is `jsonString`**: it returns `Ok`, never panics, and the
    `unsafe { String::from_utf8_unchecked(vec) }` of ser.rs:2242-2245 is sound — what was written
    is UTF-8 -/
theorem toStringLit_eq (s : Bytes) (h : validUtf8 s = true) : toStringLit s = .ok (jsonString s) := by
  simp [toStringLit, toVecLit_eq s h, Res.bind, fromUtf8Unchecked, jsonString_valid s h]

/-! ## what happens on a byte string that is NOT a `str`

`EscSafe` is exact: when it fails, `format_escaped_str` panics (`byte index … is not a char
boundary`).  Safe Rust cannot get there — a `&str` is UTF-8 —, so this only says what the
hypothesis of `formatEscapedStrLit_eq` is for. -/

/-- executable form of `EscSafe` -/
def escSafe : Bytes → Bool
  | a :: c :: t => (decide (escapeOf a = 0) || isUtf8CharBoundary c) && escSafe (c :: t)
  | _ => true

theorem escSafe_iff (s : Bytes) : escSafe s = true ↔ EscSafe s := by
  induction s with
  | nil => simp [escSafe, EscSafe]
  | cons a t ih =>
    cases t with
    | nil =>
      simp only [escSafe, true_iff]
      intro k x c _ hc; simp at hc
    | cons c t =>
      simp only [escSafe, Bool.and_eq_true, Bool.or_eq_true, decide_eq_true_eq, ih]
      constructor
      · rintro ⟨h0, hr⟩ k x y hx hy he
        cases k with
        | zero =>
          simp at hx hy; subst hx; subst hy
          rcases h0 with h0 | h0
          · exact absurd h0 he
          · exact h0
        | succ k => exact hr k x y (by simpa using hx) (by simpa using hy) he
      · intro h
        refine ⟨?_, fun k x y hx hy he => h (k + 1) x y (by simpa using hx) (by simpa using hy) he⟩
        by_cases he : escapeOf a = 0
        · exact Or.inl he
        · exact Or.inr (h 0 a c (by simp) (by simp) he)

theorem isCharBoundary_at_escape (value pre rest : Bytes) (byte : UInt8)
    (hv : value = pre ++ byte :: rest) (he : escapeOf byte ≠ 0) :
    isCharBoundary value pre.length = true := by
  unfold isCharBoundary
  by_cases h0 : pre.length = 0
  · rw [if_pos h0]
  · rw [if_neg h0, if_neg (by simp [hv])]
    have : value[pre.length]? = some byte := by simp [hv]
    rw [this]; exact (escapeOf_ne_zero byte he).2.1

theorem run_panic_seq (r : Run) : (Run.seq Run.panic r) = Run.panic := rfl

theorem contentsLoop_bad_start (value : Bytes) : ∀ (rem pre0 frag : Bytes),
    value = pre0 ++ frag ++ rem → (∀ b ∈ frag, escapeOf b = 0) →
    isCharBoundary value pre0.length = false →
    (contentsLoop value rem (pre0.length + frag.length) pre0.length).status = .panic := by
  intro rem
  induction rem with
  | nil =>
    intro pre0 frag hv _ hb
    have : pre0.length ≠ value.length := by
      intro h
      have hbt : isCharBoundary value pre0.length = true := by
        unfold isCharBoundary; rw [h]; simp
      rw [hbt] at hb; cases hb
    simp only [contentsLoop, if_neg this, strSliceFrom, hb]
    rfl
  | cons byte rest ih =>
    intro pre0 frag hv hfrag hb
    rw [contentsLoop, indexThen_ESCAPE]
    by_cases he : escapeOf byte = 0
    · rw [if_pos he]
      have := ih pre0 (frag ++ [byte]) (by simp [hv]) (by
        intro b hb'; rcases List.mem_append.1 hb' with h | h
        · exact hfrag b h
        · simp at h; subst h; exact he) hb
      simpa only [List.length_append, List.length_singleton, ← Nat.add_assoc] using this
    · rw [if_neg he]
      by_cases hf : frag = []
      · subst hf
        have := isCharBoundary_at_escape value pre0 rest byte (by simpa using hv) he
        rw [this] at hb; cases hb
      · have hpos := List.length_pos_iff.2 hf
        rw [if_pos (by omega)]
        simp only [strSliceRange, hb]
        simp only [Bool.false_eq_true, false_and, and_false, if_false, run_panic_seq]
        rfl

theorem contentsLoop_unsafe (value : Bytes) : ∀ (rem pre0 frag : Bytes),
    value = pre0 ++ frag ++ rem → (∀ b ∈ frag, escapeOf b = 0) →
    isCharBoundary value pre0.length = true → escSafe rem = false →
    (contentsLoop value rem (pre0.length + frag.length) pre0.length).status = .panic := by
  intro rem
  induction rem with
  | nil => intro _ _ _ _ _ h; simp [escSafe] at h
  | cons byte rest ih =>
    intro pre0 frag hv hfrag hb hus
    cases rest with
    | nil => simp [escSafe] at hus
    | cons c t =>
    rw [contentsLoop, indexThen_ESCAPE]
    by_cases he : escapeOf byte = 0
    · rw [if_pos he]
      have hus' : escSafe (c :: t) = false := by simpa [escSafe, he] using hus
      have := ih pre0 (frag ++ [byte]) (by simp [hv]) (by
        intro b hb'; rcases List.mem_append.1 hb' with h | h
        · exact hfrag b h
        · simp at h; subst h; exact he) hb hus'
      simpa only [List.length_append, List.length_singleton, ← Nat.add_assoc] using this
    · rw [if_neg he]
      obtain ⟨_, hbyte, hw⟩ := escapeOf_ne_zero byte he
      have hfragRun : (if pre0.length < pre0.length + frag.length then
            strSliceRange value pre0.length (pre0.length + frag.length) fun fragment =>
              writeStringFragment fragment
          else Run.ok []) = Run.ok frag := by
        by_cases hf : frag = []
        · subst hf; simp
        · have hpos := List.length_pos_iff.2 hf
          rw [if_pos (by omega)]
          have hi := isCharBoundary_at_escape value (pre0 ++ frag) (c :: t) byte (by simp [hv]) he
          rw [List.length_append] at hi
          simp only [strSliceRange, hb, hi, and_self, Nat.le_add_right, if_true,
            writeStringFragment, writeAll]
          simp [hv, slice]
      rw [hfragRun]
      cases hce : CharEscape.fromEscapeTable (escapeOf byte) byte with
      | none => simp [hce] at hw
      | some ce =>
        simp only [hce, Option.map_some, Option.some.injEq] at hw
        simp only [unwrapThen, hw]
        rw [Run.seq_status_of_ok rfl, Run.seq_status_of_ok rfl]
        by_cases hcb : isUtf8CharBoundary c = true
        · have hus' : escSafe (c :: t) = false := by simpa [escSafe, he, hcb] using hus
          have hb' : isCharBoundary value ((pre0 ++ frag ++ [byte]).length) = true := by
            have := isCharBoundary_at_escape value (pre0 ++ frag ++ [byte]) t c (by simp [hv])
            unfold isCharBoundary
            rw [if_neg (by simp), if_neg (by simp [hv])]
            have hc : value[(pre0 ++ frag ++ [byte]).length]? = some c := by
              rw [hv]; simp [Nat.add_assoc]
            rw [hc]; exact hcb
          have := ih (pre0 ++ frag ++ [byte]) [] (by simp [hv]) (by simp) hb' hus'
          simpa only [List.length_append, List.length_singleton, List.length_nil, Nat.add_zero]
            using this
        · have hb' : isCharBoundary value ((pre0 ++ frag ++ [byte]).length) = false := by
            unfold isCharBoundary
            rw [if_neg (by simp), if_neg (by simp [hv])]
            have hc : value[(pre0 ++ frag ++ [byte]).length]? = some c := by
              rw [hv]; simp [Nat.add_assoc]
            rw [hc]; simpa using hcb
          have := contentsLoop_bad_start value (c :: t) (pre0 ++ frag ++ [byte]) [] (by simp [hv])
            (by simp) hb'
          simpa only [List.length_append, List.length_singleton, List.length_nil, Nat.add_zero]
            using this

/-- when `EscSafe` fails — some escaped byte is followed by a continuation byte, which no `str`
    contains — `format_escaped_str` panics -/
theorem formatEscapedStrLit_panics (s : Bytes) (h : escSafe s = false) :
    (formatEscapedStrLit s).status = .panic := by
  have := contentsLoop_unsafe s s [] [] (by simp) (by simp) (by simp [isCharBoundary]) h
  simp only [formatEscapedStrLit, formatEscapedStrContents, beginString, writeAll]
  rw [Run.seq_status_of_ok rfl, Run.seq_of_not_ok _ _ (by
    simp only [List.length_nil, Nat.add_zero] at this; rw [this]; decide)]
  simpa using this

/-- the complete description of `format_escaped_str` on ARBITRARY bytes -/
theorem formatEscapedStrLit_cases (s : Bytes) :
    (escSafe s = true ∧ formatEscapedStrLit s = Run.ok (jsonString s)) ∨
    (escSafe s = false ∧ (formatEscapedStrLit s).status = .panic) := by
  cases h : escSafe s with
  | true => exact Or.inl ⟨rfl, formatEscapedStrLit_of_escSafe s ((escSafe_iff s).1 h)⟩
  | false => exact Or.inr ⟨rfl, formatEscapedStrLit_panics s h⟩

/-! ## Part 2 — the tables of `validations.rs` -/

/-- the case analysis of `charLen` on the first byte, read as entries of the table -/
def widthOf (b : UInt8) : Nat :=
  if b < 0x80 then 1
  else if 0xC2 ≤ b && b ≤ 0xDF then 2
  else if 0xE0 ≤ b && b ≤ 0xEF then 3
  else if 0xF0 ≤ b && b ≤ 0xF4 then 4
  else 0

theorem UTF8_CHAR_WIDTH_length : UTF8_CHAR_WIDTH.length = 256 := by decide +kernel

/-- THE TABLE FACT: for each of the 256 bytes, `UTF8_CHAR_WIDTH[b]` is in range and is the width
    that the case analysis of `charLen` gives to the first byte `b` (0: not a first byte) -/
theorem utf8CharWidth_eq (b : UInt8) : utf8CharWidth b = .ok (widthOf b) := by
  revert b; apply forall_byte; decide +kernel

/-- `b as i8 >= -64` is "not a continuation byte" -/
theorem notCont_eq (b : UInt8) : notCont b = !isCont b := by
  revert b; apply forall_byte; decide +kernel

/-- the lane test of `contains_nonascii` -/
theorem lane_eq (b : UInt8) : (b &&& 0x80 != 0) = !decide (b < 0x80) := by
  revert b; apply forall_byte; decide +kernel

/-- the second-byte test of `charLen` for a three-byte character -/
def model3 (b0 b1 : UInt8) : Bool :=
  if b0 = 0xE0 then 0xA0 ≤ b1 && b1 ≤ 0xBF
  else if b0 = 0xED then 0x80 ≤ b1 && b1 ≤ 0x9F
  else isCont b1

/-- the second-byte test of `charLen` for a four-byte character -/
def model4 (b0 b1 : UInt8) : Bool :=
  if b0 = 0xF0 then 0x90 ≤ b1 && b1 ≤ 0xBF
  else if b0 = 0xF4 then 0x80 ≤ b1 && b1 ≤ 0x8F
  else isCont b1

/-- the range patterns of validations.rs:193-196 are the second-byte test of Unicode Table 3-7 -/
theorem secondOf3_eq (first b : UInt8) (h : (decide (0xE0 ≤ first) && decide (first ≤ 0xEF)) = true) :
    secondOf3 first b = model3 first b := by
  unfold secondOf3 model3 inRange isCont
  rw [Bool.eq_iff_iff]
  by_cases h1 : first = 0xE0
  · subst h1; simp
  · by_cases h2 : first = 0xED
    · subst h2; simp
    · simp only [if_neg h1, if_neg h2]
      simp only [Bool.or_eq_true, Bool.and_eq_true, beq_iff_eq, decide_eq_true_eq,
        UInt8.le_iff_toNat_le, ← UInt8.toNat_inj] at h h1 h2 ⊢
      simp only [UInt8.toNat_ofNat] at h h1 h2 ⊢
      omega

/-- the range patterns of validations.rs:205, likewise -/
theorem secondOf4_eq (first b : UInt8) (h : (decide (0xF0 ≤ first) && decide (first ≤ 0xF4)) = true) :
    secondOf4 first b = model4 first b := by
  unfold secondOf4 model4 inRange isCont
  rw [Bool.eq_iff_iff]
  by_cases h1 : first = 0xF0
  · subst h1; simp
  · by_cases h2 : first = 0xF4
    · subst h2; simp
    · simp only [if_neg h1, if_neg h2]
      simp only [Bool.or_eq_true, Bool.and_eq_true, beq_iff_eq, decide_eq_true_eq,
        UInt8.le_iff_toNat_le, ← UInt8.toNat_inj] at h h1 h2 ⊢
      simp only [UInt8.toNat_ofNat] at h h1 h2 ⊢
      omega

/-! ## Part 2 — one character -/

@[simp] theorem V.bind_ok {α β : Type} (a : α) (f : α → V β) : (V.ok a).bind f = f a := rfl
@[simp] theorem V.bind_err {α β : Type} (n : Nat) (e : Option Nat) (f : α → V β) :
    (V.err n e : V α).bind f = .err n e := rfl

/-- `next!()`: fails at the end of the input, reads in range otherwise -/
theorem next_eq {α : Type} (v : Bytes) (oldOffset index : Nat) (k : Nat → UInt8 → V α) :
    next v v.length oldOffset index k =
      match v[index + 1]? with
      | none => .err oldOffset none
      | some b => k (index + 1) b := by
  unfold next
  by_cases h : index + 1 ≥ v.length
  · have : v[index + 1]? = none := List.getElem?_eq_none_iff.2 h
    simp only [this, if_pos h]
  · have hl : index + 1 < v.length := by omega
    simp [h, V.index, List.getElem?_eq_getElem hl]

/-- charLen, with the second-byte tests named -/
theorem charLen_eq (b0 : UInt8) (t : Bytes) : charLen (b0 :: t) =
    if b0 < 0x80 then some 1
    else if 0xC2 ≤ b0 && b0 ≤ 0xDF then
      match t with
      | b1 :: _ => if isCont b1 then some 2 else none
      | _ => none
    else if 0xE0 ≤ b0 && b0 ≤ 0xEF then
      match t with
      | b1 :: b2 :: _ => if model3 b0 b1 && isCont b2 then some 3 else none
      | _ => none
    else if 0xF0 ≤ b0 && b0 ≤ 0xF4 then
      match t with
      | b1 :: b2 :: b3 :: _ => if model4 b0 b1 && isCont b2 && isCont b3 then some 4 else none
      | _ => none
    else none := by
  rfl

/-- **the `match w { … }` of the loop body decides exactly `charLen`**: on a well-formed sequence
    of `k` bytes it leaves `index` on its last byte, otherwise it returns an error whose
    `valid_up_to` is `old_offset`; every `v[index]` is in range -/
theorem charStep_spec (pre t : Bytes) (first : UInt8) (hf : ¬ first < 0x80) :
    match charLen (first :: t) with
    | some k => charStep (pre ++ first :: t) (pre ++ first :: t).length pre.length pre.length first =
        .ok (pre.length + (k - 1))
    | none => ∃ e, charStep (pre ++ first :: t) (pre ++ first :: t).length pre.length pre.length first =
        .err pre.length e := by
  have g1 : (pre ++ first :: t)[pre.length + 1]? = t[0]? := by
    rw [List.getElem?_append_right (by omega)]; simp
  have g2 : (pre ++ first :: t)[pre.length + 1 + 1]? = t[1]? := by
    rw [List.getElem?_append_right (by omega)]; simp [Nat.add_assoc]
  have g3 : (pre ++ first :: t)[pre.length + 1 + 1 + 1]? = t[2]? := by
    rw [List.getElem?_append_right (by omega)]; simp [Nat.add_assoc]
  rw [charLen_eq]
  unfold charStep
  rw [utf8CharWidth_eq, V.bind_ok]
  unfold widthOf
  simp only [if_neg hf]
  by_cases h2 : (decide (0xC2 ≤ first) && decide (first ≤ 0xDF)) = true
  · simp only [if_pos h2, next_eq, g1, notCont_eq]
    rcases t with _ | ⟨b1, t⟩
    · simp
    · cases h : isCont b1 <;> simp [h]
  · simp only [if_neg h2]
    by_cases h3 : (decide (0xE0 ≤ first) && decide (first ≤ 0xEF)) = true
    · simp only [if_pos h3, next_eq, g1, g2, notCont_eq]
      rcases t with _ | ⟨b1, _ | ⟨b2, t⟩⟩
      · simp
      · simp only [List.getElem?_cons_zero, List.getElem?_cons_succ, List.getElem?_nil]
        cases h : secondOf3 first b1 <;> simp
      · simp only [List.getElem?_cons_zero, List.getElem?_cons_succ, secondOf3_eq first b1 h3]
        cases h : model3 first b1 <;> cases h' : isCont b2 <;> simp
    · simp only [if_neg h3]
      by_cases h4 : (decide (0xF0 ≤ first) && decide (first ≤ 0xF4)) = true
      · simp only [if_pos h4, next_eq, g1, g2, g3, notCont_eq]
        rcases t with _ | ⟨b1, _ | ⟨b2, _ | ⟨b3, t⟩⟩⟩
        · simp
        · simp only [List.getElem?_cons_zero, List.getElem?_cons_succ, List.getElem?_nil]
          cases h : secondOf4 first b1 <;> simp
        · simp only [List.getElem?_cons_zero, List.getElem?_cons_succ, List.getElem?_nil]
          cases h : secondOf4 first b1 <;> cases h' : isCont b2 <;> simp
        · simp only [List.getElem?_cons_zero, List.getElem?_cons_succ, secondOf4_eq first b1 h4]
          cases h : model4 first b1 <;> cases h' : isCont b2 <;> cases h'' : isCont b3 <;> simp
      · simp only [if_neg h4]
        exact ⟨_, rfl⟩

/-! ## Part 2 — the ASCII fast path -/

/-- all bytes at the offsets `a ≤ j < c` are ASCII -/
def AllAscii (v : Bytes) (a c : Nat) : Prop := ∀ j b, a ≤ j → j < c → v[j]? = some b → b < 0x80

theorem AllAscii.refl (v : Bytes) (a : Nat) : AllAscii v a a := by
  intro j b h1 h2; omega

theorem AllAscii.trans {v : Bytes} {a b c : Nat} (h1 : AllAscii v a b) (h2 : AllAscii v b c) :
    AllAscii v a c := by
  intro j x hj1 hj2 hx
  by_cases h : j < b
  · exact h1 j x hj1 h hx
  · exact h2 j x (by omega) hj2 hx

/-- a word without a non-ASCII lane is `n` ASCII bytes -/
theorem containsNonascii_false (v : Bytes) (index n : Nat)
    (h : containsNonascii (slice v index (index + n)) = false) : AllAscii v index (index + n) := by
  intro j b hj1 hj2 hb
  unfold containsNonascii at h
  rw [List.any_eq_false] at h
  have hmem : b ∈ slice v index (index + n) := by
    apply List.mem_of_getElem? (i := j - index)
    simp only [slice, List.getElem?_take, List.getElem?_drop]
    rw [if_pos (by omega), ← hb]; congr 1; omega
  have := h b hmem
  rw [lane_eq] at this
  simpa using this

theorem blockLoop_spec (v : Bytes) (blocksEnd : Nat)
    (hbe : ∀ i, i < blocksEnd → i + 2 * USIZE_BYTES ≤ v.length) : ∀ (fuel index : Nat),
    v.length - index < fuel →
    ∃ index', blockLoop v blocksEnd (2 * USIZE_BYTES) fuel index = .ok index' ∧ index ≤ index' ∧
      (index ≤ v.length → index' ≤ v.length) ∧ AllAscii v index index' := by
  intro fuel
  induction fuel with
  | zero => intro index h; omega
  | succ fuel ih =>
    intro index hfuel
    unfold blockLoop
    by_cases hlt : index < blocksEnd
    · have hin := hbe index hlt
      have hU : USIZE_BYTES = 8 := rfl
      rw [if_pos hlt]
      have r0 : readUsize v index = .ok (slice v index (index + USIZE_BYTES)) := by
        unfold readUsize; rw [if_pos (by omega)]
      have r1 : readUsize v (index + USIZE_BYTES) =
          .ok (slice v (index + USIZE_BYTES) (index + USIZE_BYTES + USIZE_BYTES)) := by
        unfold readUsize; rw [if_pos (by omega)]
      rw [r0, r1]
      simp only [V.bind_ok]
      cases hz : (containsNonascii (slice v index (index + USIZE_BYTES)) ||
          containsNonascii (slice v (index + USIZE_BYTES) (index + USIZE_BYTES + USIZE_BYTES)))
      · simp only [Bool.false_eq_true, if_false]
        rw [Bool.or_eq_false_iff] at hz
        obtain ⟨index', he, h1, h2, h3⟩ := ih (index + 2 * USIZE_BYTES) (by omega)
        refine ⟨index', he, by omega, fun _ => h2 (by omega), ?_⟩
        have a0 := containsNonascii_false v index USIZE_BYTES hz.1
        have a1 := containsNonascii_false v (index + USIZE_BYTES) USIZE_BYTES hz.2
        have : index + USIZE_BYTES + USIZE_BYTES = index + 2 * USIZE_BYTES := by omega
        rw [this] at a1
        exact (a0.trans a1).trans h3
      · simp only [if_true]
        exact ⟨index, rfl, Nat.le_refl _, fun h => h, AllAscii.refl v index⟩
    · rw [if_neg hlt]
      exact ⟨index, rfl, Nat.le_refl _, fun h => h, AllAscii.refl v index⟩

theorem asciiTail_spec (v : Bytes) : ∀ (fuel index : Nat), index ≤ v.length →
    v.length - index < fuel →
    ∃ index', asciiTail v v.length fuel index = .ok index' ∧ index ≤ index' ∧ index' ≤ v.length ∧
      AllAscii v index index' ∧ (∀ b, v[index]? = some b → b < 0x80 → index < index') := by
  intro fuel
  induction fuel with
  | zero => intro index _ h; omega
  | succ fuel ih =>
    intro index hle hfuel
    unfold asciiTail
    by_cases hlt : index < v.length
    · rw [if_pos hlt]
      have hidx : V.index v index = .ok v[index] := by
        simp [V.index, List.getElem?_eq_getElem hlt]
      rw [hidx, V.bind_ok]
      by_cases hb : v[index] < 128
      · rw [if_pos hb]
        obtain ⟨index', he, h1, h2, h3, _⟩ := ih (index + 1) (by omega) (by omega)
        refine ⟨index', he, by omega, h2, ?_, fun _ _ _ => by omega⟩
        refine AllAscii.trans ?_ h3
        intro j b hj1 hj2 hjb
        have : j = index := by omega
        subst this
        rw [List.getElem?_eq_getElem hlt] at hjb
        cases hjb; exact hb
      · rw [if_neg hb]
        refine ⟨index, rfl, Nat.le_refl _, hle, AllAscii.refl v index, ?_⟩
        intro b hvb hlt'
        rw [List.getElem?_eq_getElem hlt] at hvb
        cases hvb; exact absurd hlt' hb
    · rw [if_neg hlt]
      refine ⟨index, rfl, Nat.le_refl _, hle, AllAscii.refl v index, ?_⟩
      intro b hvb
      rw [List.getElem?_eq_none_iff.2 (by omega)] at hvb; cases hvb

/-- **the ASCII branch of the loop body** (validations.rs:219-246): whatever `align` is, it moves
    `index` forward over ASCII bytes only, by at least one, and not beyond the end; the block
    reads are inside the slice -/
theorem asciiStep_spec (v : Bytes) (blocksEnd align index : Nat)
    (hbe : ∀ i, i < blocksEnd → i + 2 * USIZE_BYTES ≤ v.length)
    (first : UInt8) (hidx : v[index]? = some first) (hlt : first < 0x80) :
    ∃ index', (if fastPathAligned align index = true then
        (blockLoop v blocksEnd (2 * USIZE_BYTES) (v.length + 1) index).bind fun index =>
          asciiTail v v.length (v.length + 1) index
       else .ok (index + 1)) = .ok index' ∧ index < index' ∧ index' ≤ v.length ∧
      AllAscii v index index' := by
  have hil : index < v.length := (List.getElem?_eq_some_iff.1 hidx).1
  by_cases ha : fastPathAligned align index = true
  · rw [if_pos ha]
    obtain ⟨i1, e1, h1, h2, h3⟩ := blockLoop_spec v blocksEnd hbe (v.length + 1) index (by omega)
    obtain ⟨i2, e2, k1, k2, k3, k4⟩ := asciiTail_spec v (v.length + 1) i1 (h2 (by omega)) (by omega)
    rw [e1, V.bind_ok, e2]
    refine ⟨i2, rfl, ?_, k2, h3.trans k3⟩
    by_cases heq : i1 = index
    · subst heq; exact k4 first hidx hlt
    · omega
  · rw [if_neg ha]
    refine ⟨index + 1, rfl, by omega, by omega, ?_⟩
    intro j b hj1 hj2 hjb
    have : j = index := by omega
    subst this
    rw [hidx] at hjb; cases hjb; exact hlt

/-! ## Part 2 — ASCII runs and validity -/

theorem validUtf8_ascii_append (l r : Bytes) (h : ∀ b ∈ l, b < 0x80) :
    validUtf8 (l ++ r) = validUtf8 r := by
  induction l with
  | nil => rfl
  | cons b t ih =>
    have hb := h b (List.mem_cons_self ..)
    have ih' := ih fun c hc => h c (List.mem_cons_of_mem _ hc)
    rw [← ih', Bool.eq_iff_iff, List.cons_append, validUtf8_cons_iff]
    rw [charLen_ascii _ _ hb]
    simp

theorem allAscii_part (v : Bytes) (a c : Nat) (h : AllAscii v a c) :
    ∀ b ∈ (v.drop a).take (c - a), b < 0x80 := by
  intro b hb
  obtain ⟨j, hj, hbj⟩ := List.mem_iff_getElem.1 hb
  have h1 : ((v.drop a).take (c - a))[j]? = some b := by
    rw [List.getElem?_eq_getElem hj, hbj]
  simp only [List.getElem?_take, List.getElem?_drop] at h1
  by_cases hjc : j < c - a
  · rw [if_pos hjc] at h1
    exact h (a + j) b (by omega) (by omega) h1
  · rw [if_neg hjc] at h1; cases h1

theorem valid_drop_ascii (v : Bytes) (a c : Nat) (h : AllAscii v a c) (hac : a ≤ c) :
    validUtf8 (v.drop a) = validUtf8 (v.drop c) := by
  have e : v.drop a = (v.drop a).take (c - a) ++ v.drop c := by
    have := (List.take_append_drop (c - a) (v.drop a)).symm
    rw [List.drop_drop] at this
    have hc : a + (c - a) = c := by omega
    rw [hc] at this; exact this
  rw [e, validUtf8_ascii_append _ _ (allAscii_part v a c h)]

theorem valid_take_ascii (v : Bytes) (a c : Nat) (h : AllAscii v a c) (hac : a ≤ c)
    (hv : validUtf8 (v.take a) = true) : validUtf8 (v.take c) = true := by
  have e : v.take c = v.take a ++ (v.drop a).take (c - a) := by
    rw [← List.take_add]; congr 1; omega
  rw [e]
  exact validUtf8_append _ _ hv (validUtf8_ascii _ (allAscii_part v a c h))

/-! ## Part 2 — `valid_up_to` is determined by the string -/

/-- what follows a valid prefix of a valid string is valid -/
theorem validUtf8_cancel : ∀ (n : Nat) (a x : Bytes), a.length ≤ n → validUtf8 a = true →
    validUtf8 (a ++ x) = true → validUtf8 x = true := by
  intro n
  induction n with
  | zero =>
    intro a x hn _ h
    have : a = [] := List.eq_nil_of_length_eq_zero (by omega)
    subst this; exact h
  | succ n ih =>
    intro a x hn ha hax
    cases a with
    | nil => exact hax
    | cons b t =>
      obtain ⟨k, hk, hrest⟩ := (validUtf8_cons_iff b t).1 ha
      have hb := charLen_bounds _ _ hk
      have hk2 : charLen (b :: t ++ x) = some k := by
        have := charLen_take_append (b :: t) k ((b :: t).drop k ++ x) hk
        rwa [← List.append_assoc, List.take_append_drop] at this
      obtain ⟨k', hk', hrest'⟩ := (validUtf8_cons_iff b (t ++ x)).1 hax
      rw [← List.cons_append, hk2] at hk'
      cases hk'
      rw [← List.cons_append, List.drop_append_of_le_length hb.2.2] at hrest'
      exact ih _ x (by simp at hn ⊢; omega) hrest hrest'

/-- at most one offset is "everything before is valid, no character starts here" -/
theorem valid_up_to_unique (v : Bytes) (n n' : Nat) (hn : n < v.length) (hn' : n' < v.length)
    (h1 : validUtf8 (v.take n) = true) (h2 : charLen (v.drop n) = none)
    (h1' : validUtf8 (v.take n') = true) (h2' : charLen (v.drop n') = none) : n = n' := by
  have key : ∀ (a c : Nat), a < c → c < v.length → validUtf8 (v.take a) = true →
      charLen (v.drop a) = none → validUtf8 (v.take c) = true → False := by
    intro a c hac hc ha hna hvc
    have e : v.take c = v.take a ++ (v.drop a).take (c - a) := by
      rw [← List.take_add]; congr 1; omega
    rw [e] at hvc
    have hx := validUtf8_cancel _ _ _ (Nat.le_refl _) ha hvc
    have hxl : ((v.drop a).take (c - a)).length = c - a := by
      rw [List.length_take, List.length_drop]; omega
    cases hxe : (v.drop a).take (c - a) with
    | nil => rw [hxe] at hxl; simp at hxl; omega
    | cons b t =>
      rw [hxe] at hx
      obtain ⟨k, hk, _⟩ := (validUtf8_cons_iff b t).1 hx
      have := charLen_take_append (b :: t) k ((b :: t).drop k ++ (v.drop a).drop (c - a)) hk
      rw [← List.append_assoc, List.take_append_drop, ← hxe, List.take_append_drop, hna] at this
      cases this
  by_cases h : n = n'
  · exact h
  · exfalso
    by_cases hlt : n < n'
    · exact key n n' hlt hn' h1 h2 h1'
    · exact key n' n (by omega) hn h1' h2' h1

/-! ## Part 2 — the loop -/

/-- what `run_utf8_validation` returns when it is started at `index`: `Ok(())` when the rest is
    valid; otherwise an `Err` whose `valid_up_to = n` is the offset of the first ill-formed
    sequence — everything before `n` is valid, no character starts at `n` (which determines `n`:
    `valid_up_to_unique`) — and whose `error_len` is the one the `match w` finds there -/
def RunSpec (v : Bytes) (index : Nat) (r : V Unit) : Prop :=
  (validUtf8 (v.drop index) = true ∧ r = .ok ()) ∨
  (validUtf8 (v.drop index) = false ∧ ∃ n e, r = .err n e ∧ index ≤ n ∧ n < v.length ∧
    validUtf8 (v.take n) = true ∧ charLen (v.drop n) = none ∧
    ∃ first, v[n]? = some first ∧ charStep v v.length n n first = .err n e)

theorem RunSpec.mono {v : Bytes} {index index' : Nat} {r : V Unit} (hle : index ≤ index')
    (hv : validUtf8 (v.drop index) = validUtf8 (v.drop index')) (h : RunSpec v index' r) :
    RunSpec v index r := by
  rcases h with ⟨h1, h2⟩ | ⟨h1, n, e, h2, h3, h4⟩
  · exact Or.inl ⟨hv ▸ h1, h2⟩
  · exact Or.inr ⟨hv ▸ h1, n, e, h2, by omega, h4⟩

theorem split_at (v : Bytes) (index : Nat) (h : index < v.length) :
    ∃ pre first t, v = pre ++ first :: t ∧ pre.length = index :=
  ⟨v.take index, v[index], v.drop (index + 1), by
    rw [← List.drop_eq_getElem_cons h, List.take_append_drop], by
    rw [List.length_take]; omega⟩

theorem mainLoop_spec (v : Bytes) (blocksEnd align : Nat)
    (hbe : ∀ i, i < blocksEnd → i + 2 * USIZE_BYTES ≤ v.length) : ∀ (fuel index : Nat),
    index ≤ v.length → v.length - index < fuel → validUtf8 (v.take index) = true →
    RunSpec v index (mainLoop v v.length (2 * USIZE_BYTES) blocksEnd align fuel index) := by
  intro fuel
  induction fuel with
  | zero => intro index _ h; omega
  | succ fuel ih =>
    intro index hle hfuel hpre
    unfold mainLoop
    by_cases hlt : index < v.length
    · rw [if_pos hlt]
      obtain ⟨pre, first, t, hv, hi⟩ := split_at v index hlt
      have hidx : v[index]? = some first := by rw [hv, ← hi]; simp
      have hV : V.index v index = .ok first := by simp [V.index, hidx]
      have hdrop : v.drop index = first :: t := by rw [hv, ← hi]; simp
      have htake : v.take index = pre := by rw [hv, ← hi]; simp
      simp only [hV, V.bind_ok]
      by_cases hge : first ≥ 128
      · rw [if_pos hge]
        have hf : ¬ first < 0x80 := UInt8.not_lt.2 hge
        have hstep := charStep_spec pre t first hf
        rw [← hv, hi] at hstep
        cases hk : charLen (first :: t) with
        | some k =>
          rw [hk] at hstep
          simp only at hstep
          have hb := charLen_bounds _ _ hk
          simp only [List.length_cons] at hb
          have hlen : v.length = pre.length + (t.length + 1) := by rw [hv]; simp
          rw [hstep, V.bind_ok]
          have hnext : index + (k - 1) + 1 = index + k := by omega
          rw [hnext]
          have hpre' : validUtf8 (v.take (index + k)) = true := by
            rw [List.take_add, htake, hdrop]
            exact validUtf8_append _ _ (htake ▸ hpre)
              (by simpa using validUtf8_flatten_of_chars [(first :: t).take k] (by
                intro c hc; simp at hc; subst hc; exact charLen_take _ _ hk))
          refine RunSpec.mono (Nat.le_add_right _ _) ?_
            (ih (index + k) (by omega) (by omega) hpre')
          rw [← List.drop_drop, hdrop, Bool.eq_iff_iff, validUtf8_cons_iff, hk]
          simp
        | none =>
          rw [hk] at hstep
          obtain ⟨e, he⟩ := hstep
          rw [he, V.bind_err]
          refine Or.inr ⟨?_, index, e, rfl, Nat.le_refl _, hlt, hpre, by rw [hdrop, hk],
            first, hidx, he⟩
          rw [hdrop]
          cases hval : validUtf8 (first :: t) with
          | false => rfl
          | true =>
            obtain ⟨k, hk', _⟩ := (validUtf8_cons_iff first t).1 hval
            rw [hk] at hk'; cases hk'
      · rw [if_neg hge]
        have hf : first < 0x80 := UInt8.not_le.1 hge
        obtain ⟨index', he, h1, h2, h3⟩ := asciiStep_spec v blocksEnd align index hbe first hidx hf
        rw [he, V.bind_ok]
        exact RunSpec.mono (Nat.le_of_lt h1) (valid_drop_ascii v index index' h3 (Nat.le_of_lt h1))
          (ih index' h2 (by omega) (valid_take_ascii v index index' h3 (Nat.le_of_lt h1) hpre))
    · rw [if_neg hlt]
      refine Or.inl ⟨?_, rfl⟩
      rw [List.drop_eq_nil_of_le (by omega)]; rfl

/-- `blocks_end` (validations.rs:133) keeps both words of a block inside the slice -/
theorem blocksEnd_ok (len : Nat) (i : Nat)
    (h : i < (if len ≥ 2 * USIZE_BYTES then len - 2 * USIZE_BYTES + 1 else 0)) :
    i + 2 * USIZE_BYTES ≤ len := by
  by_cases hl : len ≥ 2 * USIZE_BYTES
  · rw [if_pos hl] at h; omega
  · rw [if_neg hl] at h; omega

/-- **`run_utf8_validation`, completely**: for every byte string and every value of `align` it
    returns (no panic — every `v[index]` and every block read is in range —, no fuel runs out)
    `Ok(())` when the string is valid UTF-8 and otherwise an error whose `valid_up_to` is the
    offset of the first ill-formed sequence. -/
theorem runUtf8ValidationLit_spec (v : Bytes) (align : Nat) :
    (validUtf8 v = true ∧ runUtf8ValidationLit v align = .ok ()) ∨
    (validUtf8 v = false ∧ ∃ n e, runUtf8ValidationLit v align = .err n e ∧ n < v.length ∧
      validUtf8 (v.take n) = true ∧ charLen (v.drop n) = none ∧
      ∃ first, v[n]? = some first ∧ charStep v v.length n n first = .err n e) := by
  have := mainLoop_spec v _ align (blocksEnd_ok v.length) (v.length + 1) 0 (Nat.zero_le _)
    (by omega) (by simp; rfl)
  rcases this with ⟨h1, h2⟩ | ⟨h1, n, e, h2, _, h3⟩
  · exact Or.inl ⟨by simpa using h1, h2⟩
  · exact Or.inr ⟨by simpa using h1, n, e, h2, h3⟩

/-- **`run_utf8_validation(v)` is `Ok(())` exactly when `validUtf8 v`** — for EVERY byte string
    and EVERY alignment of the slice -/
theorem runUtf8ValidationLit_ok_iff (v : Bytes) (align : Nat) :
    runUtf8ValidationLit v align = .ok () ↔ validUtf8 v = true := by
  rcases runUtf8ValidationLit_spec v align with ⟨h1, h2⟩ | ⟨h1, n, e, h2, _⟩
  · simp [h1, h2]
  · simp [h1, h2]

/-- it never panics and never runs out of fuel -/
theorem runUtf8ValidationLit_total (v : Bytes) (align : Nat) :
    runUtf8ValidationLit v align ≠ .panic ∧ runUtf8ValidationLit v align ≠ .hang := by
  rcases runUtf8ValidationLit_spec v align with ⟨_, h2⟩ | ⟨_, n, e, h2, _⟩ <;> simp [h2]

/-- **the result — `Ok(())` or the two fields of the `Utf8Error` — does not depend on where the slice
    lies in memory** (nor on whether the fast path is taken at all: `align = usize::MAX`) -/
theorem runUtf8ValidationLit_align (v : Bytes) (align align' : Nat) :
    runUtf8ValidationLit v align = runUtf8ValidationLit v align' := by
  rcases runUtf8ValidationLit_spec v align with ⟨h1, h2⟩ | ⟨h1, n, e, h2, h3, h4, h5, f, h6, h7⟩ <;>
  rcases runUtf8ValidationLit_spec v align' with ⟨k1, k2⟩ | ⟨k1, n', e', k2, k3, k4, k5, f', k6, k7⟩
  · rw [h2, k2]
  · rw [h1] at k1; cases k1
  · rw [h1] at k1; cases k1
  · have hn := valid_up_to_unique v n n' h3 k3 h4 h5 k4 k5
    subst hn
    rw [h6] at k6; cases k6
    rw [h7] at k7; cases k7
    rw [h2, k2]

/-- whether it accepts does not depend on where the slice lies in memory -/
theorem runUtf8ValidationLit_isOk_align (v : Bytes) (align align' : Nat) :
    (runUtf8ValidationLit v align).isOk = (runUtf8ValidationLit v align').isOk := by
  rcases runUtf8ValidationLit_spec v align with ⟨h1, h2⟩ | ⟨h1, n, e, h2, _⟩ <;>
  rcases runUtf8ValidationLit_spec v align' with ⟨k1, k2⟩ | ⟨k1, n', e', k2, _⟩ <;>
  simp_all [V.isOk]

/-- **`std::str::from_utf8(v).is_ok()` is `validUtf8 v`** -/
theorem fromUtf8IsOk_eq (v : Bytes) (align : Nat) : fromUtf8IsOk v align = validUtf8 v := by
  unfold fromUtf8IsOk fromUtf8Lit
  rcases runUtf8ValidationLit_spec v align with ⟨h1, h2⟩ | ⟨h1, n, e, h2, _⟩
  · rw [h2, h1]; rfl
  · rw [h2, h1]; rfl

/-- and when it is `Ok`, the `&str` it returns is the slice itself -/
theorem fromUtf8Lit_ok (v : Bytes) (align : Nat) (h : validUtf8 v = true) :
    fromUtf8Lit v align = .ok v := by
  unfold fromUtf8Lit
  rw [(runUtf8ValidationLit_ok_iff v align).2 h]

/-! ## the two routines together: the `--json` branch of `write_maybe_as_json!` -/

/-- **cut_str.rs:253 over the library text is what the model says** — no hypothesis: the
    `from_utf8(..)?` in front of `serde_json::to_string` is what makes its argument a `str` -/
theorem writeAsJsonLit_eq (toPrint : Bytes) (align : Nat) :
    writeAsJsonLit toPrint align =
      if validUtf8 toPrint then Run.ok (jsonString toPrint) else Run.fail := by
  unfold writeAsJsonLit
  cases h : validUtf8 toPrint with
  | true => simp [fromUtf8Lit_ok toPrint align h, toStringLit_eq toPrint h, writeAll]
  | false =>
    unfold fromUtf8Lit
    rcases runUtf8ValidationLit_spec toPrint align with ⟨h1, _⟩ | ⟨_, n, e, h2, _⟩
    · rw [h] at h1; cases h1
    · simp [h2]

/-! ## non-vacuity, witnesses, evaluation -/

section Examples

/-- `a"\` U+0001 LF `é😎` -/
def sample : Bytes := [0x61, 0x22, 0x5C, 0x01, 0x0A, 0xC3, 0xA9, 0xF0, 0x9F, 0x98, 0x8E]

/-- `formatEscapedStrLit_eq` at a string with every kind of escape and 2- and 4-byte characters:
    the text written is `"a\"\\\u0001\né😎"` -/
example : formatEscapedStrLit sample = Run.ok
    [0x22, 0x61, 0x5C, 0x22, 0x5C, 0x5C, 0x5C, 0x75, 0x30, 0x30, 0x30, 0x31, 0x5C, 0x6E,
     0xC3, 0xA9, 0xF0, 0x9F, 0x98, 0x8E, 0x22] :=
  formatEscapedStrLit_eq sample (by decide)

example : toStringLit sample = .ok (jsonString sample) := toStringLit_eq sample (by decide)

/-- THE HYPOTHESIS `validUtf8 s` OF `formatEscapedStrLit_eq` CANNOT BE DROPPED: on LF followed by a
    stray continuation byte the literal takes `&value[1..]` off a char boundary and panics, while
    `jsonString` is defined on every byte string.  (No `&str` holds these bytes.) -/
example : validUtf8 [0x0A, 0x80] = false ∧ escSafe [0x0A, 0x80] = false ∧
    (formatEscapedStrLit [0x0A, 0x80]).status = .panic ∧
    formatEscapedStrLit [0x0A, 0x80] ≠ Run.ok (jsonString [0x0A, 0x80]) := by
  refine ⟨by decide, by decide, formatEscapedStrLit_panics _ (by decide), ?_⟩
  intro h
  have := formatEscapedStrLit_panics [0x0A, 0x80] (by decide)
  rw [h] at this; cases this

/-- it is sufficient, not necessary: a lone continuation byte is not UTF-8, is `EscSafe`, and is
    passed through -/
example : validUtf8 [0x80] = false ∧ formatEscapedStrLit [0x80] = Run.ok (jsonString [0x80]) :=
  ⟨by decide, formatEscapedStrLit_of_escSafe _ ((escSafe_iff _).1 (by decide))⟩

/-- `runUtf8ValidationLit_ok_iff`, both directions, at `aé€😎` followed by 20 ASCII bytes (the
    block loop runs when `align = 2`) and at the same with a surrogate spliced in -/
example : runUtf8ValidationLit ([0x61,0xC3,0xA9,0xE2,0x82,0xAC,0xF0,0x9F,0x98,0x8E] ++
    List.replicate 20 0x61) 2 = .ok () :=
  (runUtf8ValidationLit_ok_iff _ 2).2 (by decide)

example : runUtf8ValidationLit ([0x61,0xC3,0xA9,0xED,0xA0,0x80] ++ List.replicate 20 0x61) 2 ≠ .ok () :=
  fun h => absurd ((runUtf8ValidationLit_ok_iff _ 2).1 h) (by decide)

/-! ### part 1 by evaluation -/

-- the literal bytes of the sample, and `to_string`
#guard formatEscapedStrLit sample == Run.ok
    [0x22, 0x61, 0x5C, 0x22, 0x5C, 0x5C, 0x5C, 0x75, 0x30, 0x30, 0x30, 0x31, 0x5C, 0x6E,
     0xC3, 0xA9, 0xF0, 0x9F, 0x98, 0x8E, 0x22]
#guard toStringLit sample == .ok (jsonString sample)
#guard formatEscapedStrLit [] == Run.ok [0x22, 0x22]
-- `/` is not escaped (`CharEscape::Solidus` is never produced), DEL is not escaped
#guard formatEscapedStrLit [0x2F, 0x7F] == Run.ok [0x22, 0x2F, 0x7F, 0x22]

/-- all strings of at most `n` items over an alphabet of items -/
def upTo {α : Type} (alphabet : List (List α)) : Nat → List (List α)
  | 0 => [[]]
  | n + 1 => upTo alphabet n ++ (upTo alphabet n).flatMap fun s => alphabet.map fun c => s ++ c

-- every one-byte `str`
#guard (List.range 128).all fun n =>
  formatEscapedStrLit [UInt8.ofNat n] == Run.ok (jsonString [UInt8.ofNat n])
-- every `str` of at most 3 characters over: a " \ BS TAB LF FF CR NUL U+001F DEL space / é € 😎
#guard (upTo [[0x61], [0x22], [0x5C], [0x08], [0x09], [0x0A], [0x0C], [0x0D], [0x00], [0x1F], [0x7F],
    [0x20], [0x2F], [0xC3, 0xA9], [0xE2, 0x82, 0xAC], [0xF0, 0x9F, 0x98, 0x8E]] 3).all fun s =>
  validUtf8 s && formatEscapedStrLit s == Run.ok (jsonString s) && toStringLit s == .ok (jsonString s)
-- arbitrary bytes (not `str`s): the literal is `jsonString` or a panic, as `escSafe` says
#guard (upTo [[0x61], [0x22], [0x0A], [0x01], [0x80], [0xBF], [0xC3], [0xE2], [0xFF]] 4).all fun s =>
  if escSafe s then formatEscapedStrLit s == Run.ok (jsonString s)
  else (formatEscapedStrLit s).status == .panic
#guard (formatEscapedStrLit [0x0A, 0x80]).status == .panic
#guard (formatEscapedStrLit [0x61, 0x0A, 0x80, 0x0A]) == ⟨[0x22, 0x61, 0x5C, 0x6E], .panic⟩

/-! ### part 2 by evaluation -/

/-- the values of `align` tried below: every residue, a large one, `usize::MAX` -/
def aligns : List Nat := [0, 1, 2, 3, 4, 5, 6, 7, 8, 4096, usizeMax]

-- overlong forms, surrogates, values above U+10FFFF, truncation, stray continuation bytes, with
-- the `Utf8Error` that std documents (`valid_up_to`, `error_len`)
#guard aligns.all fun a => runUtf8ValidationLit [0xC0, 0x80] a == .err 0 (some 1)
#guard aligns.all fun a => runUtf8ValidationLit [0x61, 0xC1, 0xBF] a == .err 1 (some 1)
#guard aligns.all fun a => runUtf8ValidationLit [0xE0, 0x9F, 0xBF] a == .err 0 (some 1)
#guard aligns.all fun a => runUtf8ValidationLit [0xED, 0xA0, 0x80] a == .err 0 (some 1)
#guard aligns.all fun a => runUtf8ValidationLit [0xF0, 0x8F, 0xBF, 0xBF] a == .err 0 (some 1)
#guard aligns.all fun a => runUtf8ValidationLit [0xF4, 0x90, 0x80, 0x80] a == .err 0 (some 1)
#guard aligns.all fun a => runUtf8ValidationLit [0xF5, 0x80, 0x80, 0x80] a == .err 0 (some 1)
#guard aligns.all fun a => runUtf8ValidationLit [0x61, 0x80] a == .err 1 (some 1)
#guard aligns.all fun a => runUtf8ValidationLit [0x61, 0xE2, 0x82] a == .err 1 none
#guard aligns.all fun a => runUtf8ValidationLit [0xE2, 0x82, 0x41] a == .err 0 (some 2)
#guard aligns.all fun a => runUtf8ValidationLit [0xF0, 0x9F, 0x98] a == .err 0 none
#guard aligns.all fun a => runUtf8ValidationLit [0xF0, 0x9F, 0x98, 0x41] a == .err 0 (some 3)
#guard aligns.all fun a => runUtf8ValidationLit [0xF0, 0x9F, 0x41, 0x41] a == .err 0 (some 2)
-- the edges of the ranges
#guard aligns.all fun a =>
  runUtf8ValidationLit [0xC2, 0x80, 0xDF, 0xBF, 0xE0, 0xA0, 0x80, 0xED, 0x9F, 0xBF, 0xEE, 0x80, 0x80,
    0xEF, 0xBF, 0xBF, 0xF0, 0x90, 0x80, 0x80, 0xF4, 0x8F, 0xBF, 0xBF, 0x00, 0x7F] a == .ok ()
-- every string of at most 3 bytes over the edge bytes
#guard (upTo [[0x00], [0x7F], [0x80], [0x8F], [0x90], [0x9F], [0xA0], [0xBF], [0xC0], [0xC1], [0xC2],
    [0xDF], [0xE0], [0xE1], [0xEC], [0xED], [0xEE], [0xEF], [0xF0], [0xF1], [0xF3], [0xF4], [0xF5],
    [0xFF]] 3).all fun v =>
  [0, 3, usizeMax].all fun a =>
    (runUtf8ValidationLit v a == .ok ()) == validUtf8 v && fromUtf8IsOk v a == validUtf8 v
-- four-byte sequences: lead × second byte × two tails
#guard ([0xF0, 0xF1, 0xF3, 0xF4, 0xF5].flatMap fun b0 => [0x7F, 0x80, 0x8F, 0x90, 0xBF, 0xC0].flatMap fun b1 =>
    [0x7F, 0x80, 0xBF, 0xC0].flatMap fun b2 => [0x7F, 0x80, 0xBF, 0xC0].map fun b3 => [b0, b1, b2, b3]).all
  fun v => (runUtf8ValidationLit v 0 == .ok ()) == validUtf8 v
-- the block loop: 0..40 ASCII bytes with a 2-byte character, a stray byte or nothing put in at
-- every offset, for every alignment — same verdict as the model, same result as the slow path
#guard (List.range 41).all fun n => (List.range (n + 1)).all fun p =>
  [[], [0xC3, 0xA9], [0x80], [0xE2, 0x82]].all fun ins =>
    let v := List.replicate p 0x61 ++ ins ++ List.replicate (n - p) 0x62
    aligns.all fun a =>
      (runUtf8ValidationLit v a == .ok ()) == validUtf8 v &&
      runUtf8ValidationLit v a == runUtf8ValidationLit v usizeMax
-- the fast path is really taken: with `align = 0` the index jumps from 0 over two blocks
#guard blockLoop (List.replicate 40 0x61) 25 16 41 0 == .ok 32
#guard blockLoop (List.replicate 20 0x61 ++ [0xC3, 0xA9] ++ List.replicate 18 0x61) 25 16 41 0 == .ok 16
#guard fastPathAligned 0 0 && fastPathAligned 3 11 && !fastPathAligned 3 12 && !fastPathAligned usizeMax 7
  && fastPathAligned 3 19
-- the `--json` branch
#guard writeAsJsonLit sample 5 == Run.ok (jsonString sample)
#guard writeAsJsonLit [0x61, 0xFF] 5 == Run.fail

end Examples

end LibLit
end Tuc
