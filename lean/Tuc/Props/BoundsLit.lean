import Tuc.Model.BoundsLit
import Tuc.Props.C18
/-!
# Tuc.Props.BoundsLit — the bounds code with machine integers computes what the model says

`Tuc.Model.BoundsLit` follows `src/bounds/side.rs` and `src/bounds/userbounds.rs` statement by
statement with the Rust integer types: `i32` / `i64` values carry the proof that they fit, `+ - *` and unary
`-` are checked (overflow = `Res.panic`, the debug build), `as i32` / `as usize` truncate / sign-extend
as Rust does.  The existing model (`Tuc.Model.Bounds`) computes in `Int` / `Nat`.  This file proves
that the two agree, finds the weakest hypotheses under which they do, and shows by concrete values
that these hypotheses cannot be dropped.

NO hypothesis at all (no cast, and the products of signums cannot overflow):

* `parseI32Lit_eq`        — `str::parse::<i32>()` (`from_ascii_radix`, both digit loops) = `parseI32`;
                             it never panics: the *unchecked* loop (plain `*`, `+`, `-`) is only run on
                             at most 7 digits, where it cannot overflow (`uncheckedLoop_pos/_neg`, proved
                             up to 9 digits; on 10 digits it does overflow: see the `#guard`);
                             `uncheckedLoop_eq_checkedLoop`: the choice between the loops is invisible
* `SideL.fromStr_eq`      — `Side::from_str` = `parseSide`
* `UserBoundsL.fromStr_eq`— `UserBounds::from_str` = `parseUserBounds` (no slice out of range, no
                             underflow of `s.len() - 1`, the guard `right.signum() * left.signum() == 1`)
* `matches_eq`            — `UserBounds::matches` = `UserBounds.matches`, every bound, every `i32` index
* `SideL.partialCmp_eq`, `SideL.gt_eq`, `partialCmp_eq` — the two `PartialOrd` impls

`try_into_range` — REPAIRED TEXT (`parts_length.try_into().unwrap_or(i64::MAX)`, the arithmetic in
`i64`; until the repair `parts_length as i32` and `i32` arithmetic, a GENUINE DEFECT: `tuc -b 1:3` on a
2 GiB input failed with "Out of bounds: 1").  Hypotheses `parts_length ≤ i64::MAX` (= `< 2⁶³`: every
length a slice can have) and "the left side is not the literal 0" (no hypothesis on the right side,
none on the values of the sides — the type `i32` is the hypothesis "fits an `i32`"):

* `tryIntoRange_eq_i64`   — `UserBounds::try_into_range` = `UserBounds.tryIntoRange`
                             (`tryIntoRange_eq`: the same with the former hypothesis `parts_length < 2³¹`,
                             a corollary kept for the files that use it; likewise `tryIntoRange_model_i64`
                             / `tryIntoRange_model`)
* `tryIntoRange_no_panic` — NO hypothesis: none of `-parts_length`, `parts_length + v`, `v - 1`,
                             `parts_length + v + 1` can overflow an `i64` (proved, not assumed: the sides
                             are `i32` values and `0 ≤ parts_length ≤ i64::MAX`)
* `tryIntoRange_eq_of_large` — in particular on 2³¹, 2³² − 1, 2³², 2³² + 1, 2⁶³ − 1 parts

Hypotheses `num_fields < 2³¹` and "the left side is not the literal 0" — these two functions still
compute in `i32` (`i as i32 + 1`; `From<Range<usize>>` with `try_into::<i32>().expect(..)` and
`start + 1`), the repair does not touch them:

* `unpack_eq`             — `UserBounds::unpack` = `UserBounds.unpack`   (`i as i32 + 1` cannot overflow)
* `complement_eq`         — `UserBounds::complement` = `UserBounds.complement` (neither `expect` can
                             panic, `start + 1` cannot overflow); `complementStdRangeLit_eq` has no hypothesis
* `parsed_bound`          — for a bound that `UserBounds::from_str` accepted only `parts_length < 2³¹`
                             is left (the parser refuses 0) — for `try_into_range` alone `< 2⁶³`
                             (`tryIntoRange_eq_i64`)
* `tryIntoRange_model`, `matches_model`, `unpack_model`, `complement_model`, `partialCmp_model` — the
  same on the model's own values, where "fits an `i32`" is the explicit hypothesis `Side.InI32`
  (`inI32_iff_exists`: a model side is the image of a Rust value iff it is `InI32`)

The hypotheses are NECESSARY:

* `parts_length < 2⁶³` (`try_into_range`): `tryIntoRange_saturates`, `tryIntoRange_i64_necessary` — for
  EVERY `parts_length ≥ 2⁶³` the Rust function answers for 2⁶³ − 1 parts and differs from the model on
  the bound `1:`.  Not reachable: no Rust object is larger than `isize::MAX` = 2⁶³ − 1 bytes; the
  hypothesis separates the model (`Nat`) from `usize`, not two behaviours of the program.
  (The witnesses of the former limit 2³¹ — `tryIntoRange_length_necessary`, `tryIntoRange_mod`,
  `tryIntoRange_eq_mod`, `tryIntoRange_neg`, `outOfBounds_neg` and the section-7 values — are FALSE of
  the repaired text and were removed; the commit history of this file has them.)
* `num_fields < 2³¹` (`unpack`, `complement`): section 7 — with 2³¹ fields `unpack` of `2147483647:`
  overflows in `i as i32 + 1` and `complement` of `2:3` panics in `expect`; what matters is the
  index the range reaches, not the length (section 0 compares `unpack` on 2³¹, 2³² + 1, 2⁶³ − 1 fields
  for the ranges that end at index 2³¹ − 1 at most: equal).
* left side ≠ 0: `tryIntoRange_left_zero` — the Rust start is `-1 as usize` = 2⁶⁴ − 1 where the
  model says 0; `unpack` then yields no slot at all and `complement` panics in `expect` (section 7).
  Only `UserBounds::new` can build such a bound, the parser cannot.
* `Side.InI32` (model-level statements): a side beyond `i32` has no Rust counterpart; truncated to
  32 bits it resolves differently (section 7).

Section 0 compares literal functions and model by evaluation: `try_into_range` on 324 bounds
(18 sides: −4 … 4, open, the ends of `i32` ± 1, ±46341, ±65536) × 18 lengths (0 … 6, 2³¹ − 2 … 2³¹ + 1,
2³² − 1 … 2³² + 1, 2⁶³ − 2 … 2⁶³, 2⁶⁴ − 1) = 5832 cases; `matches` on 324 × 17 = 5508; the orderings on
18² sides and 324² bounds; `unpack` / `complement`; the three parsers on all 4681 strings of at most 4
symbols over `{1, 2, 0, -, +, :, =, x}` and 106 edge strings.

Proof engineering note.  The literal 2³¹ is poison for the kernel's and the elaborator's `whnf` when
it meets a symbolic natural number (`Nat.sub n 2147483648` unfolds 2³¹ times): a `match` whose
discriminant contains `I32.wrap ↑n` (or, with 2⁶³, `I64.wrap ↑n`) must never be reduced by `dsimp` / `simp only []` / `rfl`.  The
model therefore uses the combinators `someOrFail` / `someOrPanic` / `Res.bind` instead of nested
`match`es, and the proofs rewrite with their (propositional) equations; the arithmetic primitives are
locally irreducible.
-/

namespace Tuc
namespace BoundsLit
set_option linter.unusedSimpArgs false

/-! ## 0. exhaustive executable comparison -/


/-- a written side -/
def S (v : Int) : SideL := SideL.some (I32.wrap v)

/-- −4 … 4, the four values next to the ends of `i32`, ±46341 (the first integers whose square does not fit
    an `i32`), ±65536 (whose square is 0 modulo 2³²) -/
def testVals : List Int :=
  [-4, -3, -2, -1, 0, 1, 2, 3, 4, -2147483648, -2147483647, 2147483646, 2147483647,
   46341, -46341, 65536, -65536]

def testIdx : List I32 := testVals.map I32.wrap
def testSides : List SideL := SideL.cont :: testVals.map S
def testBounds : List UserBoundsL :=
  testSides.flatMap fun l => testSides.map fun r => UserBoundsL.new l r

/-- 0 … 6 and the values around 2³¹, 2³² and 2⁶³ -/
def testLengths : List Nat :=
  [0, 1, 2, 3, 4, 5, 6, 2147483646, 2147483647, 2147483648, 2147483649,
   4294967295, 4294967296, 4294967297, 9223372036854775806, 9223372036854775807,
   9223372036854775808, 18446744073709551615]

#guard testSides.length == 18 && testBounds.length == 324 && testLengths.length == 18

/-! `try_into_range`: 324 bounds × 18 lengths = 5832 cases.
    Inside the domain (at most `i64::MAX` parts, left side not the literal 0): equal — the lengths
    2³¹, 2³¹ + 1, 2³² − 1, 2³², 2³² + 1, on which the `i32` text of before the repair went wrong
    (853 of the 306 × 5 cases differed), included.  -/
#guard testBounds.all fun b => testLengths.all fun n =>
  !(n < 9223372036854775808 && b.l != S 0) ||
    b.tryIntoRange n == resOfOption (b.toModel.tryIntoRange n)

/-! left side the literal 0 (not produced by the parser): the Rust start is 2⁶⁴ - 1 where the model
    says 0; they agree exactly when the bound does not resolve -/
#guard testBounds.all fun b => testLengths.all fun n =>
  !(n < 9223372036854775808 && b.l == S 0) ||
    (b.tryIntoRange n ==
        resMap (fun r : Nat × Nat => (18446744073709551615, r.2)) (resOfOption (b.toModel.tryIntoRange n)) &&
     ((b.tryIntoRange n == resOfOption (b.toModel.tryIntoRange n)) == (b.toModel.tryIntoRange n).isNone))

/-! 2⁶³ parts or more (no slice is that long: `isize::MAX` bytes is the limit of the language):
    `unwrap_or(i64::MAX)` saturates — the answer is the one for 2⁶³ − 1 parts; and nothing panics,
    whatever the length -/
#guard testBounds.all fun b => [9223372036854775808, 18446744073709551615].all fun n =>
  b.tryIntoRange n == b.tryIntoRange 9223372036854775807
#guard testBounds.all fun b => testLengths.all fun n => b.tryIntoRange n != Res.panic

/-! `matches`: 324 bounds × 17 indexes = 5508 cases, all equal -/
#guard testBounds.all fun b => testIdx.all fun idx =>
  b.matches idx == resOfOption (b.toModel.matches idx.val)

/-! the orderings: 18 × 18 sides, 324 × 324 bounds -/
#guard testSides.all fun a => testSides.all fun b =>
  a.partialCmp b == Res.ok (a.toModel.partialCmp b.toModel) &&
  a.gt b == Res.ok (a.toModel.gt b.toModel)
#guard testBounds.all fun a => testBounds.all fun b =>
  a.partialCmp b == Res.ok (a.toModel.partialCmp b.toModel)

/-! `unpack` (small lengths; around 2³¹ − 1 only the bounds that resolve to at most 8 slots; from
    2³¹ fields on those that moreover end at the index `i32::MAX` at most: `i as i32 + 1`),
    `complement` (all lengths below 2³¹) -/
#guard testBounds.all fun b => [0, 1, 2, 3, 4, 5, 6].all fun n =>
  b.l == S 0 ||
    resMap (List.map UserBoundsL.toModel) (b.unpack n) == Res.ok (b.toModel.unpack n)
#guard testBounds.all fun b => [2147483646, 2147483647].all fun n =>
  b.l == S 0 ||
    (match b.toModel.tryIntoRange n with
     | Option.some (s, e) => e - s > 8
     | Option.none => false) ||
    resMap (List.map UserBoundsL.toModel) (b.unpack n) == Res.ok (b.toModel.unpack n)
#guard testBounds.all fun b => [2147483648, 4294967297, 9223372036854775807].all fun n =>
  b.l == S 0 ||
    (match b.toModel.tryIntoRange n with
     | Option.some (s, e) => e - s > 8 || e > 2147483647
     | Option.none => false) ||
    resMap (List.map UserBoundsL.toModel) (b.unpack n) == Res.ok (b.toModel.unpack n)
#guard testBounds.all fun b => testLengths.all fun n =>
  !(n < 2147483648 && b.l != S 0) ||
    resMap (List.map UserBoundsL.toModel) (b.complement n) == resOfOption (b.toModel.complement n)


/-- every string of exactly `n` symbols over the alphabet -/
def stringsOfLength (alphabet : List Char) : Nat → List (List Char)
  | 0 => [[]]
  | n + 1 => (stringsOfLength alphabet n).flatMap fun s => alphabet.map fun c => c :: s

/-- all strings of at most 4 symbols over `{1, 2, 0, -, +, :, =, x}` -/
def testStrings : List (List Char) :=
  (List.range 5).flatMap (stringsOfLength ['1', '2', '0', '-', '+', ':', '=', 'x'])

/-- numerals at the ends of `i32`, at the 7-digit limit of `can_not_overflow`, beyond `u32` / `u64`,
    leading zeros, signs, non-ASCII digits and letters, blanks, and bounds built from them -/
def edgeStrings : List (List Char) :=
  ["2147483647", "2147483648", "-2147483648", "-2147483649", "+2147483647", "+2147483648",
   "2147483646", "-2147483647", "00000000000", "0000000000001", "-0000000000001", "-0", "+0", "-00",
   "0000000", "00000000", "9999999", "10000000", "99999999", "999999999", "9999999999", "-9999999",
   "-10000000", "-99999999", "-999999999", "-9999999999", "1234567", "12345678", "+1234567",
   "+12345678", "-1234567", "-12345678", "4294967295", "4294967296", "4294967297", "-4294967297",
   "18446744073709551615", "18446744073709551616", "18446744073709551617",
   "-18446744073709551617", "99999999999999999999999999", "46341", "-46341", "65536", "-65536",
   "1:2147483647", "2147483647:", "-2147483648:", ":-2147483648", "-2147483648:2147483647",
   "2147483647:-2147483648", "2147483647:2147483646", "-2147483647:-2147483648",
   "-2147483648:-2147483648", ":2147483648", "2147483648:", "1:2=2147483648", "2147483648=1",
   "١", "1é", "é:1", "1:é", "٣:1", "1=é", "é", "1_000", "0x10", "1e3", " 1", "1 ", "1:\t2",
   "", "+", "-", "+-1", "-+1", "--1", "++1", "+:", ":+", "-:", ":-", "1:2:3", "1::2", "::", "=",
   "=x", "1=", "1==2", ":=", "2:1", "-1:-2", "-2:-1", "-1:2", "2:-1", "0", "0:1", "1:0", "-0:1",
   "+1:+2", "+2:+1", "1:-0", "00:1", "1:00", "12345678:12345677", "-12345677:-12345678"].map
    String.toList

#guard testStrings.length == 4681 && edgeStrings.length == 106

#guard (testStrings ++ edgeStrings).all fun s =>
  resMap I32.val (parseI32Lit s) == resOfOption (Tuc.parseI32 s) &&
  resMap SideL.toModel (SideL.fromStr s) == resOfOption (parseSide s) &&
  resMap UserBoundsL.toModel (UserBoundsL.fromStr s) == resOfOption (parseUserBounds s)

/-! the two digit loops, compared on every digit string the limit separates (7 / 8 symbols) and on
    all the test strings -/
#guard (testStrings ++ edgeStrings).all fun s => [true, false].all fun pos =>
  s.length > 9 || uncheckedLoop pos s (i32 0) == checkedLoop pos s (i32 0)

/-! some values -/
#guard parseI32Lit "2147483647".toList == Res.ok I32.MAX
#guard parseI32Lit "-2147483648".toList == Res.ok I32.MIN
#guard parseI32Lit "2147483648".toList == Res.fail
#guard parseI32Lit "-2147483649".toList == Res.fail
#guard parseI32Lit "+0000000000000000000000012".toList == Res.ok (i32 12)
#guard (UserBoundsL.fromStr "-2147483648:2147483647=x".toList) ==
  Res.ok { l := SideL.some I32.MIN, r := SideL.some I32.MAX, isLast := false, fallbackOob := Option.some [120] }
-- the unchecked loop really would overflow on 10 digits (so the length test matters for safety):
#guard uncheckedLoop true "9999999999".toList (i32 0) == Res.panic
#guard checkedLoop true "9999999999".toList (i32 0) == Res.fail


/-! ## 1. the primitives -/

theorem I32.ext {a b : I32} (h : a.val = b.val) : a = b := by
  cases a; cases b; simp only at h; subst h; rfl

theorem I32.eq_iff {a b : I32} : a = b ↔ a.val = b.val := ⟨fun h => h ▸ rfl, I32.ext⟩

theorem I32.wrap_val {v : Int} (h1 : -2147483648 ≤ v) (h2 : v ≤ 2147483647) : (I32.wrap v).val = v := by
  show (v + 2147483648) % 4294967296 - 2147483648 = v
  omega

theorem I32.wrap_self (a : I32) : I32.wrap a.val = a :=
  I32.ext (I32.wrap_val a.lo a.hi)

theorem I32.checked_ok {v : Int} (h1 : -2147483648 ≤ v) (h2 : v ≤ 2147483647) :
    I32.checked v = .ok (I32.wrap v) := by
  unfold I32.checked
  rw [dif_pos ⟨h1, h2⟩]
  exact congrArg Res.ok (I32.ext (I32.wrap_val h1 h2).symm)

theorem I32.checked_panic {v : Int} (h : v < -2147483648 ∨ 2147483647 < v) :
    I32.checked v = .panic := by
  unfold I32.checked
  rw [dif_neg (by omega)]

theorem I32.lt_iff (a b : I32) : a < b ↔ a.val < b.val := Iff.rfl
theorem I32.le_iff (a b : I32) : a ≤ b ↔ a.val ≤ b.val := Iff.rfl
theorem I32.gt_iff (a b : I32) : a > b ↔ b.val < a.val := Iff.rfl

theorem bind_ok {α β : Type} (a : α) (f : α → Res β) : (Res.ok a).bind f = f a := rfl
theorem bind_fail {α β : Type} (f : α → Res β) : (Res.fail : Res α).bind f = Res.fail := rfl
theorem bind_panic {α β : Type} (f : α → Res β) : (Res.panic : Res α).bind f = Res.panic := rfl
theorem someOrFail_some {α β : Type} (a : α) (k : α → Res β) : someOrFail (Option.some a) k = k a := rfl
theorem someOrFail_none {α β : Type} (k : α → Res β) : someOrFail (Option.none : Option α) k = Res.fail := rfl
theorem someOrPanic_some {α β : Type} (a : α) (k : α → Res β) : someOrPanic (Option.some a) k = k a := rfl
theorem someOrPanic_none {α β : Type} (k : α → Res β) : someOrPanic (Option.none : Option α) k = Res.panic := rfl

@[simp] theorem i32_val (v : Int) (h1 h2) : (i32 v h1 h2).val = v := rfl


theorem I32.checkedOpt_some {v : Int} (h1 : -2147483648 ≤ v) (h2 : v ≤ 2147483647) :
    I32.checkedOpt v = Option.some (I32.wrap v) := by
  unfold I32.checkedOpt
  rw [dif_pos ⟨h1, h2⟩]
  exact congrArg Option.some (I32.ext (I32.wrap_val h1 h2).symm)

theorem I32.checkedOpt_none {v : Int} (h : v < -2147483648 ∨ 2147483647 < v) :
    I32.checkedOpt v = Option.none := by
  unfold I32.checkedOpt
  rw [dif_neg (by omega)]

theorem signum_cases (a : I32) :
    (a.val < 0 ∧ a.signum = i32 (-1)) ∨ (a.val = 0 ∧ a.signum = i32 0) ∨
    (0 < a.val ∧ a.signum = i32 1) := by
  unfold I32.signum
  by_cases h1 : a.val < 0
  · left; exact ⟨h1, by rw [if_pos h1]⟩
  · by_cases h2 : a.val = 0
    · right; left; exact ⟨h2, by rw [if_neg h1, if_pos h2]⟩
    · right; right; exact ⟨by omega, by rw [if_neg h1, if_neg h2]⟩

/-- `a.signum() * b.signum()` never overflows; it is `1` exactly when both are strictly positive or
    both strictly negative, `-1` exactly when they are strictly of opposite signs -/
theorem signum_mul (a b : I32) :
    ∃ p, I32.mul a.signum b.signum = .ok p ∧
      (p = i32 1 ↔ sameSign a.val b.val = true) ∧ (p = i32 (-1) ↔ oppSign a.val b.val = true) := by
  rcases signum_cases a with ⟨ha, sa⟩ | ⟨ha, sa⟩ | ⟨ha, sa⟩ <;>
  rcases signum_cases b with ⟨hb, sb⟩ | ⟨hb, sb⟩ | ⟨hb, sb⟩ <;>
  rw [sa, sb] <;>
  refine ⟨_, rfl, ?_, ?_⟩ <;>
  simp [sameSign, oppSign, I32.eq_iff] <;> omega



theorem char_le_iff (a b : Char) : a ≤ b ↔ a.toNat ≤ b.toNat := by
  rw [Char.le_def, UInt32.le_iff_toNat_le]; rfl

theorem toDigit10_eq (c : Char) : (toDigit10 c).map UInt32.toNat = digitVal c := by
  have h0 : '0'.toNat = 48 := rfl
  have h9 : '9'.toNat = 57 := rfl
  have hc : c.val.toNat < 4294967296 := c.val.toNat_lt
  have hn : c.toNat = c.val.toNat := rfl
  have e2 : (10 : UInt32).toNat = 10 := rfl
  have hs : (c.val - 48 : UInt32).toNat = (4294967296 - 48 + c.val.toNat) % 4294967296 := by
    rw [UInt32.toNat_sub]; rfl
  simp only [toDigit10, digitVal, char_le_iff, h0, h9, hn, UInt32.lt_iff_toNat_lt, e2]
  by_cases h : 48 ≤ c.val.toNat ∧ c.val.toNat ≤ 57
  · rw [if_pos h, if_pos (by rw [hs]; omega)]
    simp only [Option.map_some, hs]
    congr 1
    omega
  · rw [if_neg h, if_neg (by rw [hs]; omega)]
    rfl

theorem toDigit10_none (c : Char) (h : digitVal c = Option.none) : toDigit10 c = Option.none := by
  have := toDigit10_eq c
  rw [h] at this
  cases ht : toDigit10 c with
  | none => rfl
  | some x => rw [ht] at this; cases this

theorem toDigit10_some (c : Char) (d : Nat) (h : digitVal c = Option.some d) :
    ∃ x, toDigit10 c = Option.some x ∧ x.toNat = d := by
  have := toDigit10_eq c
  rw [h] at this
  cases ht : toDigit10 c with
  | none => rw [ht] at this; cases this
  | some x =>
    rw [ht] at this
    simp only [Option.map_some, Option.some.injEq] at this
    exact ⟨x, rfl, this⟩

theorem digitVal_le (c : Char) (d : Nat) (h : digitVal c = Option.some d) : d ≤ 9 := by
  have h0 : '0'.toNat = 48 := rfl
  have h9 : '9'.toNat = 57 := rfl
  simp only [digitVal, char_le_iff, h0, h9] at h
  split at h
  · simp only [Option.some.injEq] at h; omega
  · cases h

theorem usizeTryIntoI32_some {x : Nat} (h : x ≤ 2147483647) :
    usizeTryIntoI32 x = Option.some (I32.wrap x) := by
  unfold usizeTryIntoI32
  rw [dif_pos (by omega)]
  exact congrArg Option.some
    (I32.ext (I32.wrap_val (v := (x : Int)) (by omega) (by omega)).symm)

theorem usizeTryIntoI32_none {x : Nat} (h : 2147483647 < x) :
    usizeTryIntoI32 x = Option.none := by
  unfold usizeTryIntoI32
  rw [dif_neg (by omega)]

/-- `parts_length as i32` only sees the low 32 bits -/
theorem usizeAsI32_mod (n : Nat) : usizeAsI32 n = usizeAsI32 (n % 4294967296) := by
  apply I32.ext
  show ((n : Int) + 2147483648) % 4294967296 - 2147483648 =
    (((n % 4294967296 : Nat) : Int) + 2147483648) % 4294967296 - 2147483648
  omega

theorem usizeAsI32_val_of_mod {n : Nat} (h : n % 4294967296 < 2147483648) :
    (usizeAsI32 n).val = (n % 4294967296 : Nat) := by
  show ((n : Int) + 2147483648) % 4294967296 - 2147483648 = _
  omega

theorem usizeAsI32_neg_of_mod {n : Nat} (h : 2147483648 ≤ n % 4294967296) :
    (usizeAsI32 n).val = ((n % 4294967296 : Nat) : Int) - 4294967296 := by
  show ((n : Int) + 2147483648) % 4294967296 - 2147483648 = _
  omega

/-! ### `i64` -/

theorem I64.ext {a b : I64} (h : a.val = b.val) : a = b := by
  cases a; cases b; simp only at h; subst h; rfl

theorem I64.eq_iff {a b : I64} : a = b ↔ a.val = b.val := ⟨fun h => h ▸ rfl, I64.ext⟩

/-- the low 64 bits of an integer, read as two's complement (a device of the proofs: the way to
    write "the `i64` whose value is `v`" without carrying the proof that `v` fits) -/
def I64.wrap (v : Int) : I64 :=
  ⟨(v + 9223372036854775808) % 18446744073709551616 - 9223372036854775808, by omega, by omega⟩

theorem I64.wrap_val {v : Int} (h1 : -9223372036854775808 ≤ v) (h2 : v ≤ 9223372036854775807) :
    (I64.wrap v).val = v := by
  show (v + 9223372036854775808) % 18446744073709551616 - 9223372036854775808 = v
  omega

theorem I64.wrap_self (a : I64) : I64.wrap a.val = a :=
  I64.ext (I64.wrap_val a.lo a.hi)

theorem I64.checked_ok {v : Int} (h1 : -9223372036854775808 ≤ v) (h2 : v ≤ 9223372036854775807) :
    I64.checked v = .ok (I64.wrap v) := by
  unfold I64.checked
  rw [dif_pos ⟨h1, h2⟩]
  exact congrArg Res.ok (I64.ext (I64.wrap_val h1 h2).symm)

theorem I64.lt_iff (a b : I64) : a < b ↔ a.val < b.val := Iff.rfl
theorem I64.le_iff (a b : I64) : a ≤ b ↔ a.val ≤ b.val := Iff.rfl
theorem I64.gt_iff (a b : I64) : a > b ↔ b.val < a.val := Iff.rfl

@[simp] theorem i64_val (v : Int) (h1 h2) : (i64 v h1 h2).val = v := rfl
@[simp] theorem i64FromI32_val (x : I32) : (i64FromI32 x).val = x.val := rfl

/-- `parts_length.try_into().unwrap_or(i64::MAX)` is `parts_length` up to `i64::MAX` … -/
theorem partsLength_val {n : Nat} (h : n < 9223372036854775808) :
    (unwrapOr (usizeTryIntoI64 n) I64.MAX).val = n := by
  unfold usizeTryIntoI64
  rw [dif_pos (by omega)]
  rfl

/-- … and `i64::MAX` beyond -/
theorem partsLength_sat {n : Nat} (h : 9223372036854775808 ≤ n) :
    unwrapOr (usizeTryIntoI64 n) I64.MAX = I64.MAX := by
  unfold usizeTryIntoI64
  rw [dif_neg (by omega)]
  rfl

theorem i64AsUsize_neg {x : I64} (h : x.val < 0) :
    i64AsUsize x = (18446744073709551616 + x.val).toNat := by
  have := x.lo
  unfold i64AsUsize
  congr 1
  omega

section general
attribute [local irreducible] I32.wrap I32.checked I32.checkedOpt usizeTryIntoI32 toDigit10
  I64.wrap I64.checked i64AsUsize usizeTryIntoI64

/-- an `Option Int` of the model read as a `Result<i64>` -/
def liftJ : Option Int → Res I64
  | Option.none => .fail
  | Option.some s => .ok (I64.wrap s)

theorem usizeAsI32_val {n : Nat} (h : n < 2147483648) : (usizeAsI32 n).val = n := by
  unfold usizeAsI32
  exact I32.wrap_val (by omega) (by omega)

/-- l.229 / l.244: `-parts_length` cannot overflow (`parts_length ≥ 0`) -/
theorem outOfBounds_eq (v p : I64) (hp : 0 ≤ p.val) :
    outOfBounds v p = .ok (decide (v.val > p.val ∨ v.val < -p.val)) := by
  have := p.hi
  unfold outOfBounds
  by_cases h : v > p
  · rw [if_pos h]
    rw [I64.gt_iff] at h
    simp [h]
  · rw [if_neg h]
    rw [I64.gt_iff] at h
    rw [I64.neg, I64.checked_ok (by omega) (by omega)]
    simp only [bind_ok, bind_fail, bind_panic, I64.lt_iff]
    rw [I64.wrap_val (by omega) (by omega)]
    simp [h]

/-- l.225-238: for an `i32` side and ANY `parts_length: i64` that is a length, neither
    `parts_length + v` nor `v - 1` can overflow -/
theorem rangeStartLit_eq (l : SideL) (p : I64) (n : Nat) (hp : p.val = n) :
    rangeStartLit l p = liftJ (Tuc.rangeStart l.toModel n) := by
  have := p.hi
  cases l with
  | cont =>
    simp only [rangeStartLit, SideL.toModel, Tuc.rangeStart, liftJ]
    exact congrArg Res.ok (I64.ext (I64.wrap_val (by decide) (by decide)).symm)
  | some v =>
    have := v.lo; have := v.hi
    simp only [rangeStartLit, SideL.toModel, Tuc.rangeStart]
    rw [outOfBounds_eq _ p (by omega)]
    simp only [bind_ok, bind_fail, bind_panic, hp, i64FromI32_val]
    by_cases h : v.val > n ∨ v.val < -(n : Int)
    · simp [h, liftJ]
    · simp only [h, decide_false, if_false, Bool.false_eq_true]
      by_cases h0 : v.val < 0
      · have : i64FromI32 v < i64 0 := h0
        simp only [this, h0, if_true, liftJ]
        rw [I64.add, I64.checked_ok (by simp; omega) (by simp; omega), hp]
        simp
      · have : ¬ i64FromI32 v < i64 0 := h0
        simp only [this, h0, if_false, liftJ]
        rw [I64.sub, I64.checked_ok (by simp; omega) (by simp; omega)]
        simp

/-- l.240-253: neither `+` of `parts_length + v + 1` can overflow -/
theorem rangeEndLit_eq (r : SideL) (p : I64) (n : Nat) (hp : p.val = n) :
    rangeEndLit r p = liftJ (Tuc.rangeEnd r.toModel n) := by
  have := p.hi
  cases r with
  | cont =>
    simp only [rangeEndLit, SideL.toModel, Tuc.rangeEnd, liftJ]
    rw [← hp, I64.wrap_self]
  | some v =>
    have := v.lo; have := v.hi
    simp only [rangeEndLit, SideL.toModel, Tuc.rangeEnd]
    rw [outOfBounds_eq _ p (by omega)]
    simp only [bind_ok, bind_fail, bind_panic, hp, i64FromI32_val]
    by_cases h : v.val > n ∨ v.val < -(n : Int)
    · simp [h, liftJ]
    · simp only [h, decide_false, if_false, Bool.false_eq_true]
      by_cases h0 : v.val < 0
      · have : i64FromI32 v < i64 0 := h0
        simp only [this, h0, if_true, liftJ]
        rw [I64.add, I64.checked_ok (by simp; omega) (by simp; omega), hp]
        simp only [bind_ok, bind_fail, bind_panic, i64FromI32_val]
        rw [I64.add, I64.wrap_val (by omega) (by omega), I64.checked_ok (by simp; omega) (by simp; omega)]
        simp
      · have : ¬ i64FromI32 v < i64 0 := h0
        simp only [this, h0, if_false, liftJ]
        rw [← i64FromI32_val v, I64.wrap_self]

theorem rangeStart_bounds (l : Side) (n : Nat) (s : Int) (h : Tuc.rangeStart l n = Option.some s) :
    -1 ≤ s ∧ s ≤ n ∧ (l ≠ Side.some 0 → 0 ≤ s) := by
  cases l with
  | cont => simp only [Tuc.rangeStart, Option.some.injEq] at h; subst h; simp
  | some v =>
    simp only [Tuc.rangeStart] at h
    split at h
    · cases h
    · split at h
      · simp only [Option.some.injEq] at h; subst h
        refine ⟨by omega, by omega, fun _ => by omega⟩
      · simp only [Option.some.injEq] at h; subst h
        refine ⟨by omega, by omega, fun h0 => ?_⟩
        have : v ≠ 0 := fun hv => h0 (by rw [hv])
        omega

theorem rangeEnd_bounds (r : Side) (n : Nat) (e : Int) (h : Tuc.rangeEnd r n = Option.some e) :
    0 ≤ e ∧ e ≤ n := by
  cases r with
  | cont => simp only [Tuc.rangeEnd, Option.some.injEq] at h; subst h; simp
  | some v =>
    simp only [Tuc.rangeEnd] at h
    split at h
    · cases h
    · split at h
      · simp only [Option.some.injEq] at h; subst h; omega
      · simp only [Option.some.injEq] at h; subst h; omega

theorem i64AsUsize_wrap {s : Int} (h0 : 0 ≤ s) (h1 : s ≤ 9223372036854775807) :
    i64AsUsize (I64.wrap s) = s.toNat := by
  unfold i64AsUsize
  rw [I64.wrap_val (by omega) h1]
  congr 1
  omega

theorem toModel_ne_zero {l : SideL} (h : l ≠ SideL.some (i32 0)) : l.toModel ≠ Side.some 0 := by
  cases l with
  | cont => simp [SideL.toModel]
  | some v =>
    intro hv
    simp only [SideL.toModel, Side.some.injEq] at hv
    exact h (congrArg SideL.some (I32.ext hv))

/-- **`try_into_range`** (the repaired text): with at most `i64::MAX` = 2⁶³ − 1 parts — every length
    a slice can have — and a left side that is not the literal `0`, the Rust function computes what
    the model says, and cannot overflow.  (Until the repair: fewer than 2³¹ parts.) -/
theorem tryIntoRange_eq_i64 (b : UserBoundsL) (n : Nat) (hn : n < 9223372036854775808)
    (hl : b.l ≠ SideL.some (i32 0)) :
    b.tryIntoRange n = resOfOption (b.toModel.tryIntoRange n) := by
  unfold UserBoundsL.tryIntoRange Tuc.UserBounds.tryIntoRange
  simp only []
  rw [rangeStartLit_eq _ _ n (partsLength_val hn), rangeEndLit_eq _ _ n (partsLength_val hn)]
  simp only [UserBoundsL.toModel]
  cases hs : Tuc.rangeStart b.l.toModel n with
  | none => rfl
  | some s =>
    obtain ⟨s1, s2, s3⟩ := rangeStart_bounds _ _ _ hs
    have s0 := s3 (toModel_ne_zero hl)
    cases he : Tuc.rangeEnd b.r.toModel n with
    | none => rfl
    | some e =>
      obtain ⟨e1, e2⟩ := rangeEnd_bounds _ _ _ he
      simp only [liftJ, bind_ok, bind_fail, bind_panic, I64.le_iff]
      rw [I64.wrap_val (by omega) (by omega), I64.wrap_val (by omega) (by omega)]
      by_cases hes : e ≤ s
      · simp [hes, resOfOption]
      · simp only [hes, if_false, resOfOption]
        rw [i64AsUsize_wrap s0 (by omega), i64AsUsize_wrap e1 (by omega)]

/-- the statement of before the repair (fewer than 2³¹ parts), kept under its name for the files
    that use it: now a corollary, its hypothesis on the length stronger than necessary -/
theorem tryIntoRange_eq (b : UserBoundsL) (n : Nat) (hn : n < 2147483648)
    (hl : b.l ≠ SideL.some (i32 0)) :
    b.tryIntoRange n = resOfOption (b.toModel.tryIntoRange n) :=
  tryIntoRange_eq_i64 b n (by omega) hl

theorem signMismatch_some (x idx : I32) :
    signMismatch (SideL.some x) idx = .ok (oppSign x.val idx.val) := by
  obtain ⟨p, hp, _, h2⟩ := signum_mul x idx
  simp only [signMismatch, hp, bind_ok, bind_fail, bind_panic]
  congr 1
  by_cases h : oppSign x.val idx.val = true
  · rw [h]; exact decide_eq_true (h2.2 h)
  · have : ¬ p = i32 (-1) := fun hp => h (h2.1 hp)
    rw [Bool.not_eq_true] at h
    rw [h]; exact decide_eq_false this

theorem signMismatch_cont (idx : I32) : signMismatch SideL.cont idx = .ok false := rfl

/-- **`UserBounds::matches`** computes what the model says for every bound and every `i32` index:
    no hypothesis (the signum products cannot overflow; no cast is involved). -/
theorem matches_eq (b : UserBoundsL) (idx : I32) :
    b.matches idx = resOfOption (b.toModel.matches idx.val) := by
  obtain ⟨l, r, il, fb⟩ := b
  cases l with
  | cont =>
    cases r with
    | cont => rfl
    | some y =>
      simp only [UserBoundsL.matches, Tuc.UserBounds.matches, UserBoundsL.toModel, SideL.toModel,
        signMismatch_some, signMismatch_cont, bind_ok, bind_fail, bind_panic]
      by_cases h2 : oppSign y.val idx.val = true
      · simp [h2, resOfOption]
      · simp only [h2, if_false, Bool.false_eq_true, I32.le_iff]
        by_cases h : idx.val ≤ y.val <;> simp [h, resOfOption]
  | some x =>
    cases r with
    | cont =>
      simp only [UserBoundsL.matches, Tuc.UserBounds.matches, UserBoundsL.toModel, SideL.toModel,
        signMismatch_some, signMismatch_cont, bind_ok, bind_fail, bind_panic]
      by_cases h1 : oppSign x.val idx.val = true
      · simp [h1, resOfOption]
      · simp only [h1, if_false, Bool.false_eq_true, I32.le_iff]
        by_cases h : x.val ≤ idx.val <;> simp [h, resOfOption]
    | some y =>
      simp only [UserBoundsL.matches, Tuc.UserBounds.matches, UserBoundsL.toModel, SideL.toModel,
        signMismatch_some, bind_ok, bind_fail, bind_panic]
      by_cases h1 : oppSign x.val idx.val = true
      · simp [h1, resOfOption]
      · simp only [h1, if_false, Bool.false_eq_true]
        by_cases h2 : oppSign y.val idx.val = true
        · simp [h2, resOfOption]
        · simp only [h2, if_false, Bool.false_eq_true, I32.le_iff]
          by_cases ha : x.val ≤ idx.val <;> by_cases hb : idx.val ≤ y.val <;>
            simp [ha, hb, resOfOption]

/-- **`impl PartialOrd for Side`** -/
theorem SideL.partialCmp_eq (a b : SideL) :
    a.partialCmp b = .ok (a.toModel.partialCmp b.toModel) := by
  cases a with
  | cont => cases b <;> rfl
  | some s =>
    cases b with
    | cont => rfl
    | some o =>
      obtain ⟨p, hp, h1, _⟩ := signum_mul s o
      simp only [SideL.partialCmp, SideL.toModel, Side.partialCmp, hp, bind_ok, bind_fail, bind_panic, I32.cmp]
      by_cases h : sameSign s.val o.val = true
      · have : p = i32 1 := h1.2 h
        simp [this, h]
      · have : p ≠ i32 1 := fun hp => h (h1.1 hp)
        simp [this, h]

theorem SideL.gt_eq (a b : SideL) : a.gt b = .ok (a.toModel.gt b.toModel) := by
  simp only [SideL.gt, SideL.partialCmp_eq, bind_ok, bind_fail, bind_panic, Side.gt]

/-- **`impl PartialOrd for UserBounds`** -/
theorem partialCmp_eq (a b : UserBoundsL) :
    a.partialCmp b = .ok (a.toModel.partialCmp b.toModel) := by
  unfold UserBoundsL.partialCmp Tuc.UserBounds.partialCmp
  rw [SideL.partialCmp_eq]
  congr 2
  cases h : b.l <;> simp [UserBoundsL.toModel, SideL.toModel, h]

/-! ## parsers -/

theorem parseDigits_mono (ds : List Char) (acc n : Nat) (h : parseDigits ds acc = Option.some n) :
    acc ≤ n := by
  induction ds generalizing acc with
  | nil => simp only [parseDigits, Option.some.injEq] at h; omega
  | cons c t ih =>
    simp only [parseDigits] at h
    cases hd : digitVal c with
    | none => rw [hd] at h; cases h
    | some d =>
      rw [hd] at h
      have := ih _ h
      omega

theorem u32AsI32_val {x : UInt32} {d : Nat} (hx : x.toNat = d) (h : d ≤ 9) : (u32AsI32 x).val = d := by
  unfold u32AsI32
  rw [hx]
  exact I32.wrap_val (by omega) (by omega)

/-- the value of a digit string read as a non-negative `i32` -/
def posResult : Option Nat → Res I32
  | Option.none => .fail
  | Option.some n => resOfOption (I32.checkedOpt (n : Int))

/-- the value of a digit string after a `-` read as an `i32` -/
def negResult : Option Nat → Res I32
  | Option.none => .fail
  | Option.some n => resOfOption (I32.checkedOpt (-(n : Int)))

@[simp] theorem radixAsI32_val : radixAsI32.val = 10 := rfl

theorem checkedBody_none (pos : Bool) (c : Char) (r : I32) (hd : digitVal c = Option.none) :
    checkedBody pos c r = .fail := by
  simp only [checkedBody, toDigit10_none c hd, someOrFail_none]

theorem checkedBody_pos (c : Char) (r : I32) (acc d : Nat) (hr : r.val = acc)
    (hd : digitVal c = Option.some d) :
    checkedBody true c r = resOfOption (I32.checkedOpt ((acc * 10 + d : Nat) : Int)) := by
  have hd9 := digitVal_le c d hd
  obtain ⟨x, hx, hxd⟩ := toDigit10_some c d hd
  simp only [checkedBody, hx, someOrFail_some, I32.checkedMul, I32.checkedAdd, radixAsI32_val, hr,
    if_true]
  by_cases h1 : (acc : Int) * 10 ≤ 2147483647
  · rw [I32.checkedOpt_some (by omega) h1, someOrFail_some,
      I32.wrap_val (by omega) h1, u32AsI32_val hxd hd9]
    have h5 : ((acc * 10 + d : Nat) : Int) = (acc : Int) * 10 + d := by omega
    rw [h5]
    cases I32.checkedOpt ((acc : Int) * 10 + d) with
    | none => rw [someOrFail_none]; rfl
    | some w => rw [someOrFail_some]; rfl
  · rw [I32.checkedOpt_none (by omega), I32.checkedOpt_none (by omega), someOrFail_none]
    rfl

theorem checkedBody_neg (c : Char) (r : I32) (acc d : Nat) (hr : r.val = -(acc : Int))
    (hd : digitVal c = Option.some d) :
    checkedBody false c r = resOfOption (I32.checkedOpt (-((acc * 10 + d : Nat) : Int))) := by
  have hd9 := digitVal_le c d hd
  obtain ⟨x, hx, hxd⟩ := toDigit10_some c d hd
  simp only [checkedBody, hx, someOrFail_some, I32.checkedMul, I32.checkedSub, radixAsI32_val, hr,
    Bool.false_eq_true, if_false]
  by_cases h1 : -2147483648 ≤ -(acc : Int) * 10
  · rw [I32.checkedOpt_some h1 (by omega), someOrFail_some,
      I32.wrap_val h1 (by omega), u32AsI32_val hxd hd9]
    have h5 : -((acc * 10 + d : Nat) : Int) = -(acc : Int) * 10 - d := by omega
    rw [h5]
    cases I32.checkedOpt (-(acc : Int) * 10 - d) with
    | none => rw [someOrFail_none]; rfl
    | some w => rw [someOrFail_some]; rfl
  · rw [I32.checkedOpt_none (by omega), I32.checkedOpt_none (by omega), someOrFail_none]
    rfl

theorem parseDigits_cons_some {c : Char} {d : Nat} (t : List Char) (acc : Nat)
    (h : digitVal c = Option.some d) : parseDigits (c :: t) acc = parseDigits t (acc * 10 + d) := by
  simp only [parseDigits, h]

theorem parseDigits_cons_none {c : Char} (t : List Char) (acc : Nat)
    (h : digitVal c = Option.none) : parseDigits (c :: t) acc = Option.none := by
  simp only [parseDigits, h]

theorem posResult_big (o : Option Nat) (m : Nat) (hm : 2147483647 < (m : Int))
    (h : ∀ n, o = Option.some n → m ≤ n) : posResult o = .fail := by
  cases o with
  | none => rfl
  | some n =>
    have := h n rfl
    simp only [posResult]
    rw [I32.checkedOpt_none (by omega)]
    rfl

theorem negResult_big (o : Option Nat) (m : Nat) (hm : -(m : Int) < -2147483648)
    (h : ∀ n, o = Option.some n → m ≤ n) : negResult o = .fail := by
  cases o with
  | none => rfl
  | some n =>
    have := h n rfl
    simp only [negResult]
    rw [I32.checkedOpt_none (by omega)]
    rfl

theorem checkedLoop_pos (ds : List Char) (r : I32) (acc : Nat) (hr : r.val = acc) :
    checkedLoop true ds r = posResult (parseDigits ds acc) := by
  induction ds generalizing r acc with
  | nil =>
    have := r.hi; have := r.lo
    simp only [checkedLoop, parseDigits, posResult]
    rw [I32.checkedOpt_some (by omega) (by omega), ← hr, I32.wrap_self]
    rfl
  | cons c t ih =>
    simp only [checkedLoop]
    cases hd : digitVal c with
    | none => rw [checkedBody_none _ _ _ hd, bind_fail, parseDigits_cons_none _ _ hd]; rfl
    | some d =>
      rw [checkedBody_pos c r acc d hr hd, parseDigits_cons_some _ _ hd]
      by_cases h : ((acc * 10 + d : Nat) : Int) ≤ 2147483647
      · rw [I32.checkedOpt_some (by omega) h, resOfOption, bind_ok]
        exact ih _ _ (I32.wrap_val (by omega) h)
      · rw [I32.checkedOpt_none (by omega), resOfOption, bind_fail]
        exact (posResult_big _ (acc * 10 + d) (by omega)
          (fun n hn => parseDigits_mono _ _ _ hn)).symm

theorem checkedLoop_neg (ds : List Char) (r : I32) (acc : Nat) (hr : r.val = -(acc : Int)) :
    checkedLoop false ds r = negResult (parseDigits ds acc) := by
  induction ds generalizing r acc with
  | nil =>
    have := r.hi; have := r.lo
    simp only [checkedLoop, parseDigits, negResult]
    rw [I32.checkedOpt_some (by omega) (by omega), ← hr, I32.wrap_self]
    rfl
  | cons c t ih =>
    simp only [checkedLoop]
    cases hd : digitVal c with
    | none => rw [checkedBody_none _ _ _ hd, bind_fail, parseDigits_cons_none _ _ hd]; rfl
    | some d =>
      rw [checkedBody_neg c r acc d hr hd, parseDigits_cons_some _ _ hd]
      by_cases h : -2147483648 ≤ -((acc * 10 + d : Nat) : Int)
      · rw [I32.checkedOpt_some h (by omega), resOfOption, bind_ok]
        exact ih _ _ (I32.wrap_val h (by omega))
      · rw [I32.checkedOpt_none (by omega), resOfOption, bind_fail]
        exact (negResult_big _ (acc * 10 + d) (by omega)
          (fun n hn => parseDigits_mono _ _ _ hn)).symm

theorem uncheckedBody_none (pos : Bool) (c : Char) (r : I32) (acc : Nat)
    (hr : r.val = acc ∨ r.val = -(acc : Int)) (hacc : acc * 10 + 9 ≤ 2147483647)
    (hd : digitVal c = Option.none) : uncheckedBody pos c r = .fail := by
  simp only [uncheckedBody, I32.mul, radixAsI32_val]
  rw [I32.checked_ok (by omega) (by omega), bind_ok, toDigit10_none c hd, someOrFail_none]

theorem uncheckedBody_pos (c : Char) (r : I32) (acc d : Nat) (hr : r.val = acc)
    (hacc : acc * 10 + 9 ≤ 2147483647) (hd : digitVal c = Option.some d) :
    uncheckedBody true c r = .ok (I32.wrap ((acc * 10 + d : Nat) : Int)) := by
  have hd9 := digitVal_le c d hd
  obtain ⟨x, hx, hxd⟩ := toDigit10_some c d hd
  simp only [uncheckedBody, I32.mul, radixAsI32_val, hr]
  rw [I32.checked_ok (by omega) (by omega), bind_ok, hx, someOrFail_some]
  simp only [if_true, I32.add]
  rw [I32.wrap_val (by omega) (by omega), u32AsI32_val hxd hd9,
    I32.checked_ok (by omega) (by omega)]
  have h5 : ((acc * 10 + d : Nat) : Int) = (acc : Int) * 10 + d := by omega
  rw [h5]

theorem uncheckedBody_neg (c : Char) (r : I32) (acc d : Nat) (hr : r.val = -(acc : Int))
    (hacc : acc * 10 + 9 ≤ 2147483647) (hd : digitVal c = Option.some d) :
    uncheckedBody false c r = .ok (I32.wrap (-((acc * 10 + d : Nat) : Int))) := by
  have hd9 := digitVal_le c d hd
  obtain ⟨x, hx, hxd⟩ := toDigit10_some c d hd
  simp only [uncheckedBody, I32.mul, radixAsI32_val, hr]
  rw [I32.checked_ok (by omega) (by omega), bind_ok, hx, someOrFail_some]
  simp only [Bool.false_eq_true, if_false, I32.sub]
  rw [I32.wrap_val (by omega) (by omega), u32AsI32_val hxd hd9,
    I32.checked_ok (by omega) (by omega)]
  have h5 : -((acc * 10 + d : Nat) : Int) = -(acc : Int) * 10 - d := by omega
  rw [h5]

theorem pow10_step {k acc d : Nat} (hk : k + 1 ≤ 9) (hacc : acc < 10 ^ k) (hd : d ≤ 9) :
    acc * 10 + 9 ≤ 2147483647 ∧ acc * 10 + d < 10 ^ (k + 1) := by
  have h1 : 10 ^ (k + 1) ≤ 10 ^ 9 := Nat.pow_le_pow_right (by decide) hk
  have h2 : 10 ^ (k + 1) = 10 ^ k * 10 := Nat.pow_succ ..
  have h3 : (10 : Nat) ^ 9 = 1000000000 := by decide
  omega

/-- `run_unchecked_loop!(+)`: on at most 9 digits in all (7 in `core`) the plain `*` and `+`
    cannot overflow, and the loop computes the value of the digit string -/
theorem uncheckedLoop_pos (ds : List Char) (r : I32) (acc k : Nat) (hr : r.val = acc)
    (hacc : acc < 10 ^ k) (hk : k + ds.length ≤ 9) :
    uncheckedLoop true ds r = posResult (parseDigits ds acc) := by
  induction ds generalizing r acc k with
  | nil =>
    have := r.hi; have := r.lo
    simp only [uncheckedLoop, parseDigits, posResult]
    rw [I32.checkedOpt_some (by omega) (by omega), ← hr, I32.wrap_self]
    rfl
  | cons c t ih =>
    simp only [List.length_cons] at hk
    simp only [uncheckedLoop]
    cases hd : digitVal c with
    | none =>
      have h := pow10_step (d := 0) (show k + 1 ≤ 9 by omega) hacc (by omega)
      rw [uncheckedBody_none _ c r acc (Or.inl hr) h.1 hd, bind_fail,
        parseDigits_cons_none _ _ hd]
      rfl
    | some d =>
      have hd9 := digitVal_le c d hd
      have h := pow10_step (show k + 1 ≤ 9 by omega) hacc hd9
      rw [uncheckedBody_pos c r acc d hr h.1 hd, bind_ok, parseDigits_cons_some _ _ hd]
      exact ih _ _ (k + 1) (I32.wrap_val (by omega) (by omega)) h.2 (by omega)

theorem uncheckedLoop_neg (ds : List Char) (r : I32) (acc k : Nat) (hr : r.val = -(acc : Int))
    (hacc : acc < 10 ^ k) (hk : k + ds.length ≤ 9) :
    uncheckedLoop false ds r = negResult (parseDigits ds acc) := by
  induction ds generalizing r acc k with
  | nil =>
    have := r.hi; have := r.lo
    simp only [uncheckedLoop, parseDigits, negResult]
    rw [I32.checkedOpt_some (by omega) (by omega), ← hr, I32.wrap_self]
    rfl
  | cons c t ih =>
    simp only [List.length_cons] at hk
    simp only [uncheckedLoop]
    cases hd : digitVal c with
    | none =>
      have h := pow10_step (d := 0) (show k + 1 ≤ 9 by omega) hacc (by omega)
      rw [uncheckedBody_none _ c r acc (Or.inr hr) h.1 hd, bind_fail,
        parseDigits_cons_none _ _ hd]
      rfl
    | some d =>
      have hd9 := digitVal_le c d hd
      have h := pow10_step (show k + 1 ≤ 9 by omega) hacc hd9
      rw [uncheckedBody_neg c r acc d hr h.1 hd, bind_ok, parseDigits_cons_some _ _ hd]
      exact ih _ _ (k + 1) (I32.wrap_val (by omega) (by omega)) h.2 (by omega)

/-- the two loops of `from_ascii_radix` agree wherever `can_not_overflow` chooses the unchecked
    one (and up to 9 digits): the choice is an optimisation only -/
theorem uncheckedLoop_eq_checkedLoop (pos : Bool) (ds : List Char) (h : ds.length ≤ 9) :
    uncheckedLoop pos ds (i32 0) = checkedLoop pos ds (i32 0) := by
  cases pos with
  | true =>
    rw [uncheckedLoop_pos ds (i32 0) 0 0 rfl (by decide) (by omega), checkedLoop_pos ds (i32 0) 0 rfl]
  | false =>
    rw [uncheckedLoop_neg ds (i32 0) 0 0 rfl (by decide) (by omega), checkedLoop_neg ds (i32 0) 0 rfl]

/-! ### `str::parse::<i32>` -/

/-- what the model makes of the value of the digit string -/
def magOf (neg : Bool) : Option Nat → Option Int
  | Option.none => Option.none
  | Option.some n =>
    let v : Int := if neg then -(n : Int) else (n : Int)
    if i32Min ≤ v ∧ v ≤ i32Max then Option.some v else Option.none

theorem parseMag_eq_magOf (neg : Bool) (ds : List Char) :
    parseMag neg ds = if ds.isEmpty then Option.none else magOf neg (parseDigits ds 0) := by
  unfold parseMag
  cases parseDigits ds 0 <;> rfl

theorem posResult_val (o : Option Nat) :
    resMap I32.val (posResult o) = resOfOption (magOf false o) := by
  cases o with
  | none => rfl
  | some n =>
    simp only [posResult, magOf, Bool.false_eq_true, if_false, i32Min, i32Max]
    by_cases h : (n : Int) ≤ 2147483647
    · rw [I32.checkedOpt_some (by omega) h, if_pos ⟨by omega, h⟩]
      simp only [resOfOption, resMap, I32.wrap_val (show -2147483648 ≤ (n : Int) by omega) h]
    · rw [I32.checkedOpt_none (by omega), if_neg (by omega)]
      rfl

theorem negResult_val (o : Option Nat) :
    resMap I32.val (negResult o) = resOfOption (magOf true o) := by
  cases o with
  | none => rfl
  | some n =>
    simp only [negResult, magOf, if_true, i32Min, i32Max]
    by_cases h : -2147483648 ≤ -(n : Int)
    · rw [I32.checkedOpt_some h (by omega), if_pos ⟨h, by omega⟩]
      simp only [resOfOption, resMap, I32.wrap_val h (show -(n : Int) ≤ 2147483647 by omega)]
    · rw [I32.checkedOpt_none (by omega), if_neg (by omega)]
      rfl

theorem splitSign_cons (c : Char) (t : List Char) :
    splitSign (c :: t) =
      if c = '+' then (if t = [] then Option.none else Option.some (true, t))
      else if c = '-' then (if t = [] then Option.none else Option.some (false, t))
      else Option.some (true, c :: t) := by
  by_cases h1 : c = '+'
  · subst h1
    cases t <;> rfl
  · by_cases h2 : c = '-'
    · subst h2
      cases t <;> rfl
    · rw [if_neg h1, if_neg h2]
      unfold splitSign
      split
      · rename_i heq; cases heq; exact absurd rfl h1
      · rename_i heq; cases heq; exact absurd rfl h2
      · rename_i heq; cases heq; exact absurd rfl h1
      · rename_i heq; cases heq; exact absurd rfl h2
      · rfl

/-- the digits, whichever loop `can_not_overflow` picks -/
theorem digitsLoop_eq (pos : Bool) (ds : List Char) :
    (if canNotOverflow ds then uncheckedLoop pos ds (i32 0) else checkedLoop pos ds (i32 0)) =
      if pos then posResult (parseDigits ds 0) else negResult (parseDigits ds 0) := by
  by_cases h : canNotOverflow ds = true
  · rw [if_pos h]
    have hl : ds.length ≤ 7 := by simpa [canNotOverflow] using h
    cases pos with
    | true => exact uncheckedLoop_pos ds (i32 0) 0 0 rfl (by decide) (by omega)
    | false => exact uncheckedLoop_neg ds (i32 0) 0 0 rfl (by decide) (by omega)
  · rw [if_neg h]
    cases pos with
    | true => exact checkedLoop_pos ds (i32 0) 0 rfl
    | false => exact checkedLoop_neg ds (i32 0) 0 rfl

/-- **`str::parse::<i32>()`** (`from_ascii_radix`, radix 10) accepts exactly what the model's
    `parseI32` accepts, with the same value; it never panics (the plain `*`, `+`, `-` of the
    unchecked loop cannot overflow).  No hypothesis. -/
theorem parseI32Lit_eq (s : List Char) :
    resMap I32.val (parseI32Lit s) = resOfOption (Tuc.parseI32 s) := by
  rw [parseI32_unfold]
  cases s with
  | nil => rfl
  | cons c t =>
    simp only [parseI32Lit, List.isEmpty_cons, Bool.false_eq_true, if_false, splitSign_cons]
    by_cases h1 : c = '+'
    · have hm : ¬ c = '-' := by subst h1; decide
      rw [if_pos h1, if_neg hm, if_pos h1, parseMag_eq_magOf]
      cases t with
      | nil => rfl
      | cons d u =>
        rw [if_neg (by simp), someOrFail_some]
        simp only [digitsLoop_eq, if_true, List.isEmpty_cons, Bool.false_eq_true, if_false]
        exact posResult_val _
    · rw [if_neg h1]
      by_cases h2 : c = '-'
      · rw [if_pos h2, if_pos h2, parseMag_eq_magOf]
        cases t with
        | nil => rfl
        | cons d u =>
          rw [if_neg (by simp), someOrFail_some]
          simp only [digitsLoop_eq, Bool.false_eq_true, if_false, List.isEmpty_cons]
          exact negResult_val _
      · rw [if_neg h2, if_neg h2, if_neg h1, someOrFail_some, parseMag_eq_magOf]
        simp only [digitsLoop_eq, if_true, List.isEmpty_cons, Bool.false_eq_true, if_false]
        exact posResult_val _

/-- from an equation between a mapped `Result` and an `Option` read as a `Result` -/
theorem resMap_eq_ofOption {α β : Type} {f : α → β} {r : Res α} {o : Option β}
    (h : resMap f r = resOfOption o) :
    (∃ a, r = .ok a ∧ o = Option.some (f a)) ∨ (r = .fail ∧ o = Option.none) := by
  cases r with
  | ok a =>
    cases o with
    | none => cases h
    | some b =>
      simp only [resMap, resOfOption, Res.ok.injEq] at h
      exact Or.inl ⟨a, rfl, by rw [h]⟩
  | fail =>
    cases o with
    | none => exact Or.inr ⟨rfl, rfl⟩
    | some b => cases h
  | panic => cases o <;> cases h

/-! ### `Side::from_str`, `UserBounds::from_str` -/

/-- **`Side::from_str`** = `parseSide`.  No hypothesis. -/
theorem SideL.fromStr_eq (s : List Char) :
    resMap SideL.toModel (SideL.fromStr s) = resOfOption (parseSide s) := by
  cases s with
  | nil => rfl
  | cons c t =>
    rw [parseSide_cons]
    simp only [SideL.fromStr]
    rcases resMap_eq_ofOption (parseI32Lit_eq (c :: t)) with ⟨v, hv, hm⟩ | ⟨hv, hm⟩
    · rw [hv, hm, bind_ok]; rfl
    · rw [hv, hm, bind_fail]; rfl

theorem SideL.fromStr_cases (s : List Char) :
    (∃ x, SideL.fromStr s = .ok x ∧ parseSide s = Option.some x.toModel) ∨
    (SideL.fromStr s = .fail ∧ parseSide s = Option.none) :=
  resMap_eq_ofOption (SideL.fromStr_eq s)

def pairToModel (p : SideL × SideL) : Side × Side := (p.1.toModel, p.2.toModel)

/-- l.51-66 of `UserBounds::from_str`: no slice is out of range, `s.len() - 1` does not underflow -/
theorem fromStrSides_eq (s : List Char) :
    resMap pairToModel (fromStrSides s) = resOfOption (sidesOf s) := by
  unfold fromStrSides sidesOf
  cases hf : findChar ':' s with
  | none =>
    simp only []
    rcases SideL.fromStr_cases s with ⟨x, hx, hm⟩ | ⟨hx, hm⟩
    · rw [hx, hm, bind_ok]; rfl
    · rw [hx, hm, bind_fail]; rfl
  | some idx =>
    have hlt := (findChar_some_split ':' s idx hf).2
    simp only [beq_iff_eq]
    by_cases h0 : idx = 0
    · rw [if_pos h0, if_pos h0]
      subst h0
      simp only [strFrom, Nat.zero_add]
      rw [if_pos (by omega), bind_ok]
      rcases SideL.fromStr_cases (s.drop 1) with ⟨x, hx, hm⟩ | ⟨hx, hm⟩
      · rw [hx, hm, bind_ok]; rfl
      · rw [hx, hm, bind_fail]; rfl
    · rw [if_neg h0, if_neg h0]
      simp only [usizeSub]
      rw [if_pos (by omega), bind_ok]
      by_cases h1 : idx = s.length - 1
      · rw [if_pos h1, if_pos h1]
        simp only [strTo]
        rw [if_pos (by omega), bind_ok]
        rcases SideL.fromStr_cases (s.take idx) with ⟨x, hx, hm⟩ | ⟨hx, hm⟩
        · rw [hx, hm, bind_ok]; rfl
        · rw [hx, hm, bind_fail]; rfl
      · rw [if_neg h1, if_neg h1]
        simp only [strTo, strFrom]
        rw [if_pos (by omega), bind_ok]
        rcases SideL.fromStr_cases (s.take idx) with ⟨x, hx, hm⟩ | ⟨hx, hm⟩
        · rw [hx, hm, bind_ok, if_pos (by omega), bind_ok]
          rcases SideL.fromStr_cases (s.drop (idx + 1)) with ⟨y, hy, hn⟩ | ⟨hy, hn⟩
          · rw [hy, hn, bind_ok]; rfl
          · rw [hy, hn, bind_fail]; rfl
        · rw [hx, hm, bind_fail]
          cases parseSide (s.drop (idx + 1)) <;> rfl

theorem some_eq_zero_iff (x : I32) : SideL.some x = SideL.some (i32 0) ↔ x.val = 0 := by
  simp only [SideL.some.injEq, I32.eq_iff, i32_val]

theorem toModel_eq_zero_iff (l : SideL) : l.toModel = Side.some 0 ↔ l = SideL.some (i32 0) := by
  cases l with
  | cont => simp [SideL.toModel]
  | some x => simp only [SideL.toModel, Side.some.injEq, some_eq_zero_iff]

/-- the model bound that `UserBounds::from_str` builds from two sides and a fallback -/
def builtBound (fb : Option Bytes) (l r : SideL) : UserBounds :=
  { l := l.toModel, r := r.toModel, isLast := false, fallback := fb }

/-- l.68-81 of `UserBounds::from_str`: the signum product cannot overflow -/
theorem fromStrCheck_eq (fb : Option Bytes) (l r : SideL) :
    resMap (fun _ => builtBound fb l r) (fromStrCheck l r) =
      resOfOption (finishBound fb (Option.some (l.toModel, r.toModel))) := by
  unfold fromStrCheck finishBound
  simp only [toModel_eq_zero_iff]
  by_cases hl : l = SideL.some (i32 0)
  · rw [if_pos hl, if_pos hl]; rfl
  · rw [if_neg hl, if_neg hl]
    by_cases hr : r = SideL.some (i32 0)
    · rw [if_pos hr, if_pos hr]; rfl
    · rw [if_neg hr, if_neg hr]
      cases l with
      | cont => cases r <;> rfl
      | some x =>
        cases r with
        | cont => rfl
        | some y =>
          obtain ⟨p, hp, h1, _⟩ := signum_mul y x
          simp only [SideL.toModel, I32.lt_iff, hp, bind_ok]
          by_cases hlt : y.val < x.val
          · rw [if_pos hlt, bind_ok]
            by_cases hs : sameSign y.val x.val = true
            · have : p = i32 1 := h1.2 hs
              rw [if_pos (by simpa using this), if_pos ⟨hlt, hs⟩]; rfl
            · have : ¬ p = i32 1 := fun hp1 => hs (h1.1 hp1)
              rw [if_neg (by simpa using this), if_neg (fun h => hs h.2)]; rfl
          · rw [if_neg hlt, bind_ok, if_neg (by simp), if_neg (fun h => hlt h.1)]; rfl

/-- l.45-85 of `UserBounds::from_str`, after the fallback has been cut off -/
def fromStrRange (fallbackOob : Option Bytes) (s : List Char) : Res UserBoundsL :=
  if s.isEmpty then .fail
  else if s = [':'] then .fail
  else
    (fromStrSides s).bind fun lr =>
    (fromStrCheck lr.1 lr.2).bind fun _ =>
    .ok { UserBoundsL.new lr.1 lr.2 with fallbackOob := fallbackOob }

theorem UserBoundsL.fromStr_unfold (s : List Char) :
    UserBoundsL.fromStr s =
      match splitOnce '=' s with
      | Option.some (r, f) => fromStrRange (Option.some (utf8 f)) r
      | Option.none => fromStrRange Option.none s := by
  unfold UserBoundsL.fromStr fromStrRange
  cases splitOnce '=' s with
  | none => rfl
  | some p => rfl

theorem fromStrRange_eq (fb : Option Bytes) (s : List Char) :
    resMap UserBoundsL.toModel (fromStrRange fb s) = resOfOption (rangeOf fb s) := by
  unfold fromStrRange rangeOf
  by_cases he : s.isEmpty = true
  · rw [if_pos he, if_pos he]; rfl
  · rw [if_neg he, if_neg he]
    by_cases hc : s = [':']
    · rw [if_pos hc, if_pos hc]; rfl
    · rw [if_neg hc, if_neg hc]
      rcases resMap_eq_ofOption (fromStrSides_eq s) with ⟨lr, hlr, hm⟩ | ⟨hlr, hm⟩
      · rw [hlr, hm, bind_ok]
        have hc := fromStrCheck_eq fb lr.1 lr.2
        change _ = resOfOption (finishBound fb (Option.some (pairToModel lr))) at hc
        rw [← hc]
        cases fromStrCheck lr.1 lr.2 with
        | ok u => rw [bind_ok]; rfl
        | fail => rfl
        | panic => rfl
      · rw [hlr, hm, bind_fail]; rfl

/-- **`UserBounds::from_str`** accepts exactly what the model's `parseUserBounds` accepts and
    builds the same bound; it never panics (no slice out of range, no `usize` underflow in
    `s.len() - 1`, no overflow in the signum product, none in the number parser).
    No hypothesis. -/
theorem UserBoundsL.fromStr_eq (s : List Char) :
    resMap UserBoundsL.toModel (UserBoundsL.fromStr s) = resOfOption (parseUserBounds s) := by
  rw [UserBoundsL.fromStr_unfold, parseUserBounds_unfold]
  cases splitOnce '=' s with
  | none => exact fromStrRange_eq _ _
  | some p => exact fromStrRange_eq _ _

/-! ### `unpack`, `complement` -/

theorem tryIntoRange_some_bounds (b : UserBounds) (n s e : Nat)
    (h : b.tryIntoRange n = Option.some (s, e)) : e ≤ n ∧ (b.l ≠ Side.some 0 → s < e) := by
  unfold Tuc.UserBounds.tryIntoRange at h
  cases hs : Tuc.rangeStart b.l n with
  | none => rw [hs] at h; cases h
  | some s' =>
    cases he : Tuc.rangeEnd b.r n with
    | none => rw [hs, he] at h; cases h
    | some e' =>
      rw [hs, he] at h
      simp only at h
      obtain ⟨s1, s2, s3⟩ := rangeStart_bounds _ _ _ hs
      obtain ⟨e1, e2⟩ := rangeEnd_bounds _ _ _ he
      by_cases hes : e' ≤ s'
      · rw [if_pos hes] at h; cases h
      · rw [if_neg hes] at h
        simp only [Option.some.injEq, Prod.mk.injEq] at h
        obtain ⟨rfl, rfl⟩ := h
        refine ⟨by omega, fun h0 => ?_⟩
        have := s3 h0
        omega

theorem unpackSlot_ok (i : Nat) (h : i < 2147483647) :
    unpackSlot i =
      .ok (UserBoundsL.new (SideL.some (I32.wrap ((i + 1 : Nat) : Int)))
        (SideL.some (I32.wrap ((i + 1 : Nat) : Int)))) := by
  simp only [unpackSlot, I32.add, i32_val]
  rw [usizeAsI32_val (by omega), I32.checked_ok (by omega) (by omega), bind_ok]
  have : ((i + 1 : Nat) : Int) = (i : Int) + 1 := by omega
  rw [this]

theorem unpackSlots_ok (L : List Nat) (h : ∀ i ∈ L, i < 2147483647) :
    resMap (List.map UserBoundsL.toModel) (resMapM unpackSlot L) =
      .ok (L.map fun i => UserBounds.single ((i + 1 : Nat) : Int)) := by
  induction L with
  | nil => rfl
  | cons i t ih =>
    have hi := h i (List.mem_cons_self)
    have ht := ih (fun j hj => h j (List.mem_cons_of_mem _ hj))
    simp only [resMapM]
    rw [unpackSlot_ok i hi, bind_ok]
    cases hr : resMapM unpackSlot t with
    | ok bs =>
      rw [hr] at ht
      simp only [resMap, Res.ok.injEq] at ht
      rw [bind_ok]
      simp only [resMap, List.map_cons, ht, Res.ok.injEq, List.cons.injEq, and_true]
      simp only [UserBoundsL.toModel, UserBoundsL.new, SideL.toModel, UserBounds.single]
      rw [I32.wrap_val (by omega) (by omega)]
    | fail => rw [hr] at ht; cases ht
    | panic => rw [hr] at ht; cases ht

/-- **`UserBounds::unpack`**: with fewer than 2³¹ fields (and a left side that is not the literal
    0) the Rust function builds the model's list; `i as i32 + 1` cannot overflow. -/
theorem unpack_eq (b : UserBoundsL) (n : Nat) (hn : n < 2147483648)
    (hl : b.l ≠ SideL.some (i32 0)) :
    resMap (List.map UserBoundsL.toModel) (b.unpack n) = .ok (b.toModel.unpack n) := by
  unfold UserBoundsL.unpack Tuc.UserBounds.unpack
  rw [tryIntoRange_eq b n hn hl]
  cases h : b.toModel.tryIntoRange n with
  | none => rfl
  | some p =>
    obtain ⟨s, e⟩ := p
    obtain ⟨he, _⟩ := tryIntoRange_some_bounds _ _ _ _ h
    simp only [resOfOption]
    rw [unpackSlots_ok _ (fun i hi => by
      have := List.mem_range'_1.mp hi
      omega)]
    rw [List.range'_eq_map_range, List.map_map]
    rfl

theorem complementStdRangeLit_eq (n : Nat) (r : Nat × Nat) :
    complementStdRangeLit n r = Tuc.complementStdRange n r := by
  obtain ⟨a, e⟩ := r
  cases a with
  | zero =>
    by_cases h : e = n
    · simp [complementStdRangeLit, Tuc.complementStdRange, h]
    · simp [complementStdRangeLit, Tuc.complementStdRange, h]
  | succ a =>
    simp only [complementStdRangeLit, Tuc.complementStdRange]
    rw [if_neg (by omega), if_neg (by omega)]

theorem ofRange_ok (r : Nat × Nat) (h1 : r.1 < 2147483647) (h2 : r.2 ≤ 2147483647) :
    resMap UserBoundsL.toModel (UserBoundsL.ofRange r) = .ok (Tuc.UserBounds.ofRange r) := by
  simp only [UserBoundsL.ofRange]
  rw [usizeTryIntoI32_some (by omega), someOrPanic_some, usizeTryIntoI32_some h2, someOrPanic_some]
  simp only [I32.add, i32_val]
  rw [I32.wrap_val (by omega) (by omega), I32.checked_ok (by omega) (by omega), bind_ok]
  simp only [resMap, UserBoundsL.toModel, UserBoundsL.new, SideL.toModel, Tuc.UserBounds.ofRange]
  rw [I32.wrap_val (by omega) (by omega), I32.wrap_val (by omega) (by omega)]

theorem ofRanges_ok (L : List (Nat × Nat)) (h : ∀ r ∈ L, r.1 < 2147483647 ∧ r.2 ≤ 2147483647) :
    resMap (List.map UserBoundsL.toModel) (resMapM UserBoundsL.ofRange L) =
      .ok (L.map Tuc.UserBounds.ofRange) := by
  induction L with
  | nil => rfl
  | cons r t ih =>
    have hr := h r (List.mem_cons_self)
    have ht := ih (fun j hj => h j (List.mem_cons_of_mem _ hj))
    have h1 := ofRange_ok r hr.1 hr.2
    simp only [resMapM]
    cases hx : UserBoundsL.ofRange r with
    | ok x =>
      rw [hx] at h1
      simp only [resMap, Res.ok.injEq] at h1
      rw [bind_ok]
      cases hy : resMapM UserBoundsL.ofRange t with
      | ok bs =>
        rw [hy] at ht
        simp only [resMap, Res.ok.injEq] at ht
        rw [bind_ok]
        simp only [resMap, List.map_cons, ht, h1]
      | fail => rw [hy] at ht; cases ht
      | panic => rw [hy] at ht; cases ht
    | fail => rw [hx] at h1; cases h1
    | panic => rw [hx] at h1; cases h1

theorem complementStdRange_bounds (n s e : Nat) (hse : s < e) (hen : e ≤ n) (hn : n ≤ 2147483647) :
    ∀ q ∈ Tuc.complementStdRange n (s, e), q.1 < 2147483647 ∧ q.2 ≤ 2147483647 := by
  intro q hq
  rw [← complementStdRangeLit_eq] at hq
  simp only [complementStdRangeLit] at hq
  split at hq
  · cases hq
  · split at hq
    · simp only [List.mem_singleton] at hq; subst hq; simp only; omega
    · split at hq
      · simp only [List.mem_singleton] at hq; subst hq; simp only; omega
      · simp only [List.mem_cons, List.not_mem_nil, or_false] at hq
        rcases hq with rfl | rfl <;> simp only <;> omega

/-- **`UserBounds::complement`**: with fewer than 2³¹ fields (and a left side that is not the
    literal 0) the Rust function builds the model's list; neither `try_into().expect(..)` can
    panic and `start + 1` cannot overflow. -/
theorem complement_eq (b : UserBoundsL) (n : Nat) (hn : n < 2147483648)
    (hl : b.l ≠ SideL.some (i32 0)) :
    resMap (List.map UserBoundsL.toModel) (b.complement n) =
      resOfOption (b.toModel.complement n) := by
  unfold UserBoundsL.complement Tuc.UserBounds.complement
  rw [tryIntoRange_eq b n hn hl]
  cases h : b.toModel.tryIntoRange n with
  | none => rfl
  | some p =>
    obtain ⟨s, e⟩ := p
    obtain ⟨he, hse⟩ := tryIntoRange_some_bounds _ _ _ _ h
    have hse := hse (by
      intro h0
      exact hl ((toModel_eq_zero_iff b.l).mp h0))
    simp only [resOfOption, bind_ok, Option.map_some, complementStdRangeLit_eq]
    exact ofRanges_ok _ (complementStdRange_bounds n s e hse he (by omega))

/-! ### `try_into_range` outside the hypotheses

Until the repair this section held the witnesses of the cast `parts_length as i32`
(`tryIntoRange_mod`, `tryIntoRange_eq_mod`, `outOfBounds_neg`, `tryIntoRange_neg`,
`tryIntoRange_length_necessary`: from 2³¹ parts on the Rust function and the model differed on the
bound `1:`).  They are FALSE of the repaired text and are gone (commit history has them); in their
place: the agreement on those very lengths (`tryIntoRange_eq_of_large`), what is left of a limit
(`tryIntoRange_saturates`, `tryIntoRange_i64_necessary`: 2⁶³ parts, which no slice has) and
`tryIntoRange_no_panic`. -/

/-- the lengths on which the `i32` text went wrong — 2³¹ (`-b 1:3` on 2 GiB was "Out of bounds: 1"),
    2³² − 1, 2³², 2³² + 1 (treated as 1 part), 2⁶³ − 1 — are now inside the theorem: every bound, left
    side not the literal 0 -/
theorem tryIntoRange_eq_of_large (b : UserBoundsL) (hl : b.l ≠ SideL.some (i32 0)) :
    b.tryIntoRange 2147483648 = resOfOption (b.toModel.tryIntoRange 2147483648) ∧
    b.tryIntoRange 4294967295 = resOfOption (b.toModel.tryIntoRange 4294967295) ∧
    b.tryIntoRange 4294967296 = resOfOption (b.toModel.tryIntoRange 4294967296) ∧
    b.tryIntoRange 4294967297 = resOfOption (b.toModel.tryIntoRange 4294967297) ∧
    b.tryIntoRange 9223372036854775807 = resOfOption (b.toModel.tryIntoRange 9223372036854775807) :=
  ⟨tryIntoRange_eq_i64 b _ (by omega) hl, tryIntoRange_eq_i64 b _ (by omega) hl,
   tryIntoRange_eq_i64 b _ (by omega) hl, tryIntoRange_eq_i64 b _ (by omega) hl,
   tryIntoRange_eq_i64 b _ (by omega) hl⟩

/-- `unwrap_or(i64::MAX)`: from 2⁶³ parts on the answer is the one for 2⁶³ − 1 parts -/
theorem tryIntoRange_saturates (b : UserBoundsL) (n : Nat) (hn : 9223372036854775808 ≤ n) :
    b.tryIntoRange n = b.tryIntoRange 9223372036854775807 := by
  have h2 : unwrapOr (usizeTryIntoI64 9223372036854775807) I64.MAX = I64.MAX := by
    apply I64.ext
    rw [partsLength_val (by omega)]
    rfl
  unfold UserBoundsL.tryIntoRange
  rw [partsLength_sat hn, h2]

/-- a left side that is the literal `0` (which `UserBounds::from_str` refuses, but
    `UserBounds::new` does not): `v - 1` is `-1`, and `-1 as usize` is 2⁶⁴ - 1, where the model says 0 -/
theorem tryIntoRange_left_zero (b : UserBoundsL) (n : Nat) (hn : n < 9223372036854775808)
    (hl : b.l = SideL.some (i32 0)) :
    b.tryIntoRange n =
      resMap (fun r : Nat × Nat => (18446744073709551615, r.2))
        (resOfOption (b.toModel.tryIntoRange n)) := by
  have hs : Tuc.rangeStart b.l.toModel n = Option.some (-1) := by
    rw [hl]
    simp only [SideL.toModel, Tuc.rangeStart, i32_val]
    rw [if_neg (by omega), if_neg (by omega)]
    rfl
  unfold UserBoundsL.tryIntoRange Tuc.UserBounds.tryIntoRange
  simp only []
  rw [rangeStartLit_eq _ _ n (partsLength_val hn), rangeEndLit_eq _ _ n (partsLength_val hn)]
  simp only [UserBoundsL.toModel]
  rw [hs]
  cases he : Tuc.rangeEnd b.r.toModel n with
  | none => simp only [liftJ, bind_ok, bind_fail, resOfOption, resMap]
  | some e =>
    obtain ⟨e1, e2⟩ := rangeEnd_bounds _ _ _ he
    have hw1 : (I64.wrap (-1)).val = -1 := I64.wrap_val (by omega) (by omega)
    have hwe : (I64.wrap e).val = e := I64.wrap_val (by omega) (by omega)
    simp only [liftJ, bind_ok, I64.le_iff, hw1, hwe]
    rw [if_neg (by omega), if_neg (by omega)]
    simp only [resOfOption, resMap]
    rw [i64AsUsize_wrap e1 (by omega), i64AsUsize_neg (by rw [hw1]; omega), hw1]
    rfl

/-- **no `i64` operation of `try_into_range` can overflow**: every bound (the literal 0 included),
    every `parts_length` (beyond `i64::MAX` included) -/
theorem tryIntoRange_no_panic (b : UserBoundsL) (n : Nat) : b.tryIntoRange n ≠ .panic := by
  have key : ∀ m : Nat, m < 9223372036854775808 → b.tryIntoRange m ≠ .panic := by
    intro m hm
    by_cases hl : b.l = SideL.some (i32 0)
    · rw [tryIntoRange_left_zero b m hm hl]
      cases b.toModel.tryIntoRange m <;> simp [resOfOption, resMap]
    · rw [tryIntoRange_eq_i64 b m hm hl]
      cases b.toModel.tryIntoRange m <;> simp [resOfOption]
  by_cases hn : n < 9223372036854775808
  · exact key n hn
  · rw [tryIntoRange_saturates b n (by omega)]
    exact key _ (by omega)

/-- the model's answer for the bound `1:` -/
theorem model_one_open (k : Nat) :
    (UserBoundsL.new (SideL.some (i32 1)) SideL.cont).toModel.tryIntoRange k =
      if k = 0 then Option.none else Option.some (0, k) := by
  simp only [Tuc.UserBounds.tryIntoRange, UserBoundsL.toModel, UserBoundsL.new, SideL.toModel,
    Tuc.rangeStart, Tuc.rangeEnd, i32_val]
  by_cases hk : k = 0
  · subst hk; simp
  · rw [if_neg (by omega), if_neg (by omega), if_neg hk]
    simp only [Int.sub_self]
    rw [if_neg (by omega)]
    simp

/-- **the hypothesis `parts_length ≤ i64::MAX` cannot be dropped from the statement** (it is met by
    every slice: no Rust object is larger than `isize::MAX` bytes, and a `usize` ends at 2⁶⁴ − 1): from
    2⁶³ parts on, the Rust function answers `0..2⁶³ − 1` on the bound `1:` where the model, which has
    no width, answers `0..parts_length` -/
theorem tryIntoRange_i64_necessary (n : Nat) (hn : 9223372036854775808 ≤ n) :
    (UserBoundsL.new (SideL.some (i32 1)) SideL.cont).tryIntoRange n ≠
      resOfOption ((UserBoundsL.new (SideL.some (i32 1)) SideL.cont).toModel.tryIntoRange n) := by
  rw [tryIntoRange_saturates _ n hn,
    tryIntoRange_eq_i64 _ _ (by omega) (by simp [UserBoundsL.new, I32.eq_iff]),
    model_one_open, model_one_open, if_neg (by omega), if_neg (by omega)]
  simp only [resOfOption, ne_eq, Res.ok.injEq, Prod.mk.injEq, true_and]
  omega

/-! ### the model's own values: "every written side fits an `i32`" -/

/-- whatever the Rust types can hold is inside `i32` -/
theorem SideL.toModel_inI32 (x : SideL) : x.toModel.InI32 := by
  cases x with
  | cont => trivial
  | some v => exact ⟨v.lo, v.hi⟩

/-- and a model side is the image of a Rust value exactly when it is inside `i32` -/
theorem sideOfModel_toModel (s : Side) (h : s.InI32) : (sideOfModel s).toModel = s := by
  cases s with
  | cont => rfl
  | some v =>
    simp only [sideOfModel, SideL.toModel]
    rw [I32.wrap_val h.1 h.2]

theorem inI32_iff_exists (s : Side) : s.InI32 ↔ ∃ x : SideL, x.toModel = s :=
  ⟨fun h => ⟨sideOfModel s, sideOfModel_toModel s h⟩, fun ⟨x, hx⟩ => hx ▸ x.toModel_inI32⟩

theorem boundsOfModel_toModel (b : UserBounds) (hl : b.l.InI32) (hr : b.r.InI32) :
    (boundsOfModel b).toModel = b := by
  simp only [boundsOfModel, UserBoundsL.toModel, sideOfModel_toModel _ hl, sideOfModel_toModel _ hr]

theorem boundsOfModel_l_ne_zero (b : UserBounds) (hl : b.l.InI32) (h0 : b.l ≠ Side.some 0) :
    (boundsOfModel b).l ≠ SideL.some (i32 0) := by
  intro h
  apply h0
  have := sideOfModel_toModel b.l hl
  rw [show sideOfModel b.l = (boundsOfModel b).l from rfl, h] at this
  rw [← this]
  rfl

/-- `try_into_range` on a model bound: sides inside `i32`, at most `i64::MAX` parts, left side not 0 -/
theorem tryIntoRange_model_i64 (b : UserBounds) (n : Nat) (hl : b.l.InI32) (hr : b.r.InI32)
    (hn : n < 9223372036854775808) (h0 : b.l ≠ Side.some 0) :
    (boundsOfModel b).tryIntoRange n = resOfOption (b.tryIntoRange n) := by
  rw [tryIntoRange_eq_i64 _ n hn (boundsOfModel_l_ne_zero b hl h0), boundsOfModel_toModel b hl hr]

/-- the statement of before the repair (fewer than 2³¹ parts), kept for the files that use it -/
theorem tryIntoRange_model (b : UserBounds) (n : Nat) (hl : b.l.InI32) (hr : b.r.InI32)
    (hn : n < 2147483648) (h0 : b.l ≠ Side.some 0) :
    (boundsOfModel b).tryIntoRange n = resOfOption (b.tryIntoRange n) :=
  tryIntoRange_model_i64 b n hl hr (by omega) h0

/-- `matches` on a model bound: sides and index inside `i32` -/
theorem matches_model (b : UserBounds) (idx : Int) (hl : b.l.InI32) (hr : b.r.InI32)
    (h1 : -2147483648 ≤ idx) (h2 : idx ≤ 2147483647) :
    (boundsOfModel b).matches (I32.wrap idx) = resOfOption (b.matches idx) := by
  rw [matches_eq, boundsOfModel_toModel b hl hr, I32.wrap_val h1 h2]

theorem unpack_model (b : UserBounds) (n : Nat) (hl : b.l.InI32) (hr : b.r.InI32)
    (hn : n < 2147483648) (h0 : b.l ≠ Side.some 0) :
    resMap (List.map UserBoundsL.toModel) ((boundsOfModel b).unpack n) = .ok (b.unpack n) := by
  rw [unpack_eq _ n hn (boundsOfModel_l_ne_zero b hl h0), boundsOfModel_toModel b hl hr]

theorem complement_model (b : UserBounds) (n : Nat) (hl : b.l.InI32) (hr : b.r.InI32)
    (hn : n < 2147483648) (h0 : b.l ≠ Side.some 0) :
    resMap (List.map UserBoundsL.toModel) ((boundsOfModel b).complement n) =
      resOfOption (b.complement n) := by
  rw [complement_eq _ n hn (boundsOfModel_l_ne_zero b hl h0), boundsOfModel_toModel b hl hr]

theorem partialCmp_model (a b : UserBounds) (ha : a.r.InI32) (hb : b.l.InI32) :
    (boundsOfModel a).partialCmp (boundsOfModel b) = .ok (a.partialCmp b) := by
  rw [partialCmp_eq]
  simp only [UserBounds.partialCmp, UserBoundsL.toModel, boundsOfModel,
    sideOfModel_toModel _ ha, sideOfModel_toModel _ hb]

/-- **what the command line can produce**: a bound that `UserBounds::from_str` accepted resolves,
    unpacks and complements as the model says on every record with fewer than 2³¹ parts, and
    matches as the model says against every `i32` index — no other hypothesis -/
theorem parsed_bound (s : List Char) (bL : UserBoundsL) (h : UserBoundsL.fromStr s = .ok bL) :
    parseUserBounds s = Option.some bL.toModel ∧
    (∀ idx : I32, bL.matches idx = resOfOption (bL.toModel.matches idx.val)) ∧
    (∀ n, n < 2147483648 →
      bL.tryIntoRange n = resOfOption (bL.toModel.tryIntoRange n) ∧
      resMap (List.map UserBoundsL.toModel) (bL.unpack n) = .ok (bL.toModel.unpack n) ∧
      resMap (List.map UserBoundsL.toModel) (bL.complement n) =
        resOfOption (bL.toModel.complement n)) := by
  have hp : parseUserBounds s = Option.some bL.toModel := by
    rcases resMap_eq_ofOption (UserBoundsL.fromStr_eq s) with ⟨a, ha, hm⟩ | ⟨ha, _⟩
    · rw [h] at ha; cases ha; exact hm
    · rw [h] at ha; cases ha
  have hl : bL.l ≠ SideL.some (i32 0) := fun h0 =>
    (accepted_wellformed s _ hp).1 ((toModel_eq_zero_iff bL.l).mpr h0)
  exact ⟨hp, fun idx => matches_eq bL idx, fun n hn =>
    ⟨tryIntoRange_eq bL n hn hl, unpack_eq bL n hn hl, complement_eq bL n hn hl⟩⟩

end general

/-! ## 7. the hypotheses are necessary: concrete values

(`decide`: kernel evaluation of the two definitions) -/

/-- 2³¹ parts.  The `i32` text of before the repair answered "Out of bounds: 1" to `-f 1:` (`parts_length
    as i32` was `i32::MIN`), "Out of bounds: -1" to `-f -1`, and overflowed in `-parts_length` on the side
    `i32::MIN`.  The repaired text resolves them as the model does. -/
example :
    (UserBoundsL.new (S 1) SideL.cont).tryIntoRange 2147483648 = .ok (0, 2147483648) ∧
    (UserBoundsL.new (S 1) SideL.cont).toModel.tryIntoRange 2147483648 =
      Option.some (0, 2147483648) ∧
    (UserBoundsL.new (S 1) (S 3)).tryIntoRange 2147483648 = .ok (0, 3) ∧
    (UserBoundsL.new (S (-1)) (S (-1))).tryIntoRange 2147483648 = .ok (2147483647, 2147483648) ∧
    (UserBoundsL.new (S (-1)) (S (-1))).toModel.tryIntoRange 2147483648 =
      Option.some (2147483647, 2147483648) ∧
    (UserBoundsL.new (S (-2147483648)) SideL.cont).tryIntoRange 2147483648 = .ok (0, 2147483648) ∧
    (UserBoundsL.new (S (-2147483648)) SideL.cont).toModel.tryIntoRange 2147483648 =
      Option.some (0, 2147483648) := by decide

/-- 2³² − 1, 2³², 2³² + 3 parts (the cast was −1, 0, 3: `Err`, `Err`, and a range silently cut to 3 parts) -/
example :
    (UserBoundsL.new (S 2) (S 3)).tryIntoRange 4294967295 = .ok (1, 3) ∧
    (UserBoundsL.new (S 1) (S 1)).tryIntoRange 4294967296 = .ok (0, 1) ∧
    (UserBoundsL.new (S 2) SideL.cont).tryIntoRange 4294967299 = .ok (1, 4294967299) ∧
    (UserBoundsL.new (S 2) SideL.cont).toModel.tryIntoRange 4294967299 =
      Option.some (1, 4294967299) ∧
    (UserBoundsL.new (S (-1)) (S (-1))).tryIntoRange 4294967299 = .ok (4294967298, 4294967299) ∧
    (UserBoundsL.new (S (-1)) (S (-1))).toModel.tryIntoRange 4294967299 =
      Option.some (4294967298, 4294967299) := by decide

/-- 2⁶³ − 1 parts — `i64::MAX`, the largest length of the hypothesis — is fine, sides at the ends of
    `i32` included: `-parts_length`, `parts_length + v`, `parts_length + v + 1` do not overflow -/
example :
    (UserBoundsL.new (S (-2147483648)) SideL.cont).tryIntoRange 9223372036854775807 =
      .ok (9223372034707292159, 9223372036854775807) ∧
    (UserBoundsL.new (S (-2147483648)) (S (-2147483648))).tryIntoRange 9223372036854775807 =
      .ok (9223372034707292159, 9223372034707292160) ∧
    (UserBoundsL.new (S (-1)) (S (-1))).tryIntoRange 9223372036854775807 =
      .ok (9223372036854775806, 9223372036854775807) ∧
    (UserBoundsL.new (S 2147483647) SideL.cont).tryIntoRange 9223372036854775807 =
      .ok (2147483646, 9223372036854775807) := by decide

/-- 2⁶³ parts (no slice has them): `unwrap_or(i64::MAX)` — `1:` ends one part early, `-1` is the part
    before the last; the model has no width -/
example :
    (UserBoundsL.new (S 1) SideL.cont).tryIntoRange 9223372036854775808 =
      .ok (0, 9223372036854775807) ∧
    (UserBoundsL.new (S 1) SideL.cont).toModel.tryIntoRange 9223372036854775808 =
      Option.some (0, 9223372036854775808) ∧
    (UserBoundsL.new (S (-1)) (S (-1))).tryIntoRange 9223372036854775808 =
      .ok (9223372036854775806, 9223372036854775807) ∧
    (UserBoundsL.new (S (-1)) (S (-1))).toModel.tryIntoRange 9223372036854775808 =
      Option.some (9223372036854775807, 9223372036854775808) := by decide

/-- `unpack` and `complement` still compute in `i32` (`i as i32 + 1`, l.268;
    `try_into::<i32>().expect(..)`, l.91-99): with 2³¹ fields `unpack` of `2147483647:` overflows on its
    second slot and `complement` of `2:3` panics in `expect("range was bigger than expected")` on the
    range `3..2³¹` — where the model has two slots / two ranges; a bound whose range stays below
    index 2³¹ − 1 unpacks as the model says whatever the number of fields -/
example :
    (UserBoundsL.new (S 2147483647) SideL.cont).tryIntoRange 2147483648 =
      .ok (2147483646, 2147483648) ∧
    (UserBoundsL.new (S 2147483647) SideL.cont).unpack 2147483648 = .panic ∧
    ((UserBoundsL.new (S 2147483647) SideL.cont).toModel.unpack 2147483648).length = 2 ∧
    (UserBoundsL.new (S 2) (S 3)).complement 2147483648 = .panic ∧
    ((UserBoundsL.new (S 2) (S 3)).toModel.complement 2147483648).map List.length =
      Option.some 2 ∧
    resMap (List.map UserBoundsL.toModel) ((UserBoundsL.new (S 2) (S 3)).unpack 2147483648) =
      .ok ((UserBoundsL.new (S 2) (S 3)).toModel.unpack 2147483648) ∧
    resMap (List.map UserBoundsL.toModel) ((UserBoundsL.new (S 2) (S 3)).complement 2147483647) =
      resOfOption ((UserBoundsL.new (S 2) (S 3)).toModel.complement 2147483647) := by decide

/-- the left side 0 (by `UserBounds::new` only): start = `-1 as usize`; `unpack` has no slot where
    the model has three; `complement` panics in `expect("range was bigger than expected")` where the
    model says "nothing is left out" -/
example :
    (UserBoundsL.new (S 0) SideL.cont).tryIntoRange 3 = .ok (18446744073709551615, 3) ∧
    (UserBoundsL.new (S 0) SideL.cont).toModel.tryIntoRange 3 = Option.some (0, 3) ∧
    (UserBoundsL.new (S 0) SideL.cont).unpack 3 = .ok [] ∧
    ((UserBoundsL.new (S 0) SideL.cont).toModel.unpack 3).length = 3 ∧
    (UserBoundsL.new (S 0) SideL.cont).complement 3 = .panic ∧
    (UserBoundsL.new (S 0) SideL.cont).toModel.complement 3 = Option.some [] := by decide

/-- a model side beyond `i32` (2³² + 1) has no Rust counterpart: truncated it is the index 1 -/
example :
    (boundsOfModel { l := Side.some 4294967297, r := Side.cont }).tryIntoRange 5 = .ok (0, 5) ∧
    ({ l := Side.some 4294967297, r := Side.cont } : UserBounds).tryIntoRange 5 = Option.none ∧
    (boundsOfModel { l := Side.some 1, r := Side.some 1 }).matches (I32.wrap 4294967297) = .ok true ∧
    ({ l := Side.some 1, r := Side.some 1 } : UserBounds).matches 4294967297 =
      Option.some false := by decide

end BoundsLit
end Tuc
