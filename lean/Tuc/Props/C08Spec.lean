import Tuc.Lemmas.UnpackSpec
import Tuc.Props.C08
/-!
# C08, against the specification — `--json` in field mode is `specRecord`, for every record

`Tuc.Lemmas.CutStrSpec` proves the literal-delimiter field engine against `specRecord` without
`--json`.  With `--json` two things change: every range is expanded to its members (`unpack`,
`Tuc.Lemmas.UnpackSpec`) and every text goes through `write_maybe_as_json!`.  The delimiter
replacement (`-r ,`, implied by `--json`) is applied to every printed slice; after the expansion
a slice is one field, which contains no delimiter, so nothing is replaced — this is part of
`bound_text` (`pieceText_replace`), which holds for any range of fields.
-/
namespace Tuc
open Tuc.Spec

theorem not_chars_of_fields {opt : Opt} (hty : opt.boundsType = .fields ∨ opt.boundsType = .lines) :
    decide (opt.boundsType = .characters) = false := by
  rcases hty with h | h <;> rw [h] <;> rfl

theorem specSep_fields (opt : Opt) (hty : opt.boundsType = .fields ∨ opt.boundsType = .lines) :
    specSep (cfgOf opt) = sepOf opt := by
  funext k
  have h5 : (cfgOf opt).chars = decide (opt.boundsType = .characters) := rfl
  have h6 : (cfgOf opt).replace = opt.replaceDelimiter := rfl
  have h7 : (cfgOf opt).delimiter = opt.delimiter := rfl
  unfold specSep sepOf
  rw [h5, not_chars_of_fields hty, h6, h7]
  cases opt.replaceDelimiter <;> rfl

theorem specLine_fields (opt : Opt) (hty : opt.boundsType = .fields ∨ opt.boundsType = .lines)
    (line : Bytes) : specLine (cfgOf opt) line = trimmed opt line := by
  have h5 : (cfgOf opt).chars = decide (opt.boundsType = .characters) := rfl
  have h6 : (cfgOf opt).trim = opt.trim := rfl
  have h7 : (cfgOf opt).delimiter = opt.delimiter := rfl
  unfold specLine trimmed
  rw [h5, not_chars_of_fields hty, h6, h7]
  cases opt.trim <;> rfl

theorem specTok_fields (opt : Opt) (hty : opt.boundsType = .fields ∨ opt.boundsType = .lines)
    (l : Bytes) :
    specTok (cfgOf opt) l =
      some (tokenize opt.delimiter opt.greedyDelimiter opt.compressDelimiter l) := by
  have h5 : (cfgOf opt).chars = decide (opt.boundsType = .characters) := rfl
  have h6 : (cfgOf opt).compress = opt.compressDelimiter := by
    show (opt.compressDelimiter && (decide (opt.boundsType = .fields) || decide (opt.boundsType = .lines))) = _
    rcases hty with h | h <;> rw [h] <;> simp
  unfold specTok
  rw [h5, not_chars_of_fields hty, h6]
  rfl

/-- the ranges of the field engine against the tokens, printed text included (`-r`) -/
theorem refinesText_fields (opt : Opt) (line : Bytes) (fields : List Range) (tok : Tok)
    (hR : Refines opt.delimiter line fields tok) (hd : opt.delimiter ≠ [])
    (hre : opt.regexBag = none) (hty : opt.boundsType = .fields ∨ opt.boundsType = .lines) :
    RefinesText opt line fields tok (sepOf opt) :=
  ⟨hR.len, hR.inb, fun a b hab hb => bound_text opt line fields tok hR hd hre hty a b hab hb⟩

/-- **C08, one record.**  The general engine in field mode with a literal non-empty delimiter and
    `--json` — any of `-g -p -t -s -m`, fallbacks, whatever `-j` / `-r` are (`--json` sets `-j -r ,`)
    — writes for *every* record (UTF-8 or not: both sides fail at the same element) exactly what
    the per-record specification says, and ends as it says (never a panic). -/
theorem json_record_eq_spec (opt : Opt) (line : Bytes) (hd : opt.delimiter ≠ [])
    (hre : opt.regexBag = none) (hty : opt.boundsType = .fields ∨ opt.boundsType = .lines)
    (hjson : opt.json = true)
    (hz : AllNonzero opt.bounds.list) (hL : LastMarked opt.bounds.list) :
    (cutStrCore line opt [opt.eol.byte]).1 = specRecord (cfgOf opt) line := by
  rw [cutStrCore_fields line opt _ hre hty]
  by_cases he : (trimmed opt line).isEmpty = true
  · rw [if_pos he, specRecord_of_empty _ _ (by rw [specLine_fields opt hty]; simpa using he)]
    show _ = if opt.onlyDelimited = true then _ else _
    cases opt.onlyDelimited <;> rfl
  · rw [if_neg he]
    have hne : trimmed opt line ≠ [] := by
      intro h; rw [h] at he; exact he rfl
    have hR := refines_engine opt (trimmed opt line) hd hne
    rw [specRecord_of_tok (cfgOf opt) line _ (by rwa [specLine_fields opt hty])
      (by rw [specLine_fields opt hty, specTok_fields opt hty]),
      specTail_expand opt _ (by simp [hjson]), specSep_fields opt hty]
    exact emitRecord_eq_spec_expand opt _ _ _ _ (refinesText_fields opt _ _ _ hR hd hre hty)
      (by simp [hjson]) hz hL

theorem json_cutRecords_eq_spec (opt : Opt) (hd : opt.delimiter ≠ [])
    (hre : opt.regexBag = none) (hty : opt.boundsType = .fields ∨ opt.boundsType = .lines)
    (hjson : opt.json = true)
    (hz : AllNonzero opt.bounds.list) (hL : LastMarked opt.bounds.list) :
    ∀ (recs : List Bytes) (f₀ : List Range) (b₀ : Bytes),
      cutRecords opt recs f₀ b₀ = specRunRecords (cfgOf opt) recs
  | [], _, _ => rfl
  | r :: t, f₀, b₀ => by
    have h1 : (cutStr r opt f₀ b₀ [opt.eol.byte]).1 = specRecord (cfgOf opt) r :=
      json_record_eq_spec opt r hd hre hty hjson hz hL
    simp only [cutRecords, specRunRecords]
    rw [h1, json_cutRecords_eq_spec opt hd hre hty hjson hz hL t]

/-- **C08, the run.**  On a fault-free reader the general engine in field mode with `--json` is
    the specification: records in order, each by `specRecord`, stop at the first failure. -/
theorem json_run_eq_spec (opt : Opt) (input : Bytes) (hd : opt.delimiter ≠ [])
    (hre : opt.regexBag = none) (hty : opt.boundsType = .fields ∨ opt.boundsType = .lines)
    (hjson : opt.json = true)
    (hz : AllNonzero opt.bounds.list) (hL : LastMarked opt.bounds.list) :
    readAndCutStr opt input = specRun (cfgOf opt) input :=
  json_cutRecords_eq_spec opt hd hre hty hjson hz hL _ [] []

/-- for every accepted `--fields` argument -/
theorem json_run_eq_spec_of_parsed (opt : Opt) (input : Bytes) (s : List Char)
    (hparse : boundsListOfString s = .ok opt.bounds) (hd : opt.delimiter ≠ [])
    (hre : opt.regexBag = none) (hty : opt.boundsType = .fields ∨ opt.boundsType = .lines)
    (hjson : opt.json = true) :
    readAndCutStr opt input = specRun (cfgOf opt) input :=
  have h := boundsListOfString_good s opt.bounds hparse
  json_run_eq_spec opt input hd hre hty hjson h.1 h.2

/-- **field mode, with or without `--json`**: `cutStr_eq_spec_gen` and `json_record_eq_spec`
    together -/
theorem cutStr_eq_spec_any_json (opt : Opt) (line : Bytes) (hd : opt.delimiter ≠ [])
    (hre : opt.regexBag = none) (hty : opt.boundsType = .fields ∨ opt.boundsType = .lines)
    (hz : AllNonzero opt.bounds.list) (hL : LastMarked opt.bounds.list) :
    (cutStrCore line opt [opt.eol.byte]).1 = specRecord (cfgOf opt) line := by
  cases hjson : opt.json with
  | false => exact cutStr_eq_spec_gen opt line hd hre hty hjson hz hL
  | true => exact json_record_eq_spec opt line hd hre hty hjson hz hL

end Tuc
