import Tuc.Lemmas.UnpackSpec
import Tuc.Props.C08
/-!
# C08, against the specification — `--json` in field mode is `specRecord`, for every record

`Tuc.Lemmas.CutStrSpec` proves the literal-delimiter field engine against `specRecord` without
`--json`.  With `--json` two things change: every range is expanded to its members (`unpack`,
`Tuc.Lemmas.UnpackSpec`) and every text goes through `write_maybe_as_json!`.  The delimiter
replacement (`-r ,`, implied by `--json`) is applied to every printed slice; after the expansion
a slice is one field, which contains no delimiter, so nothing is replaced — this is part of
`bound_text` (`pieceText_replace`), which holds for any range of fields.
-/
namespace Tuc
open Tuc.Spec

theorem not_chars_of_fields {opt : Opt} (hty : opt.boundsType = .fields ∨ opt.boundsType = .lines) :
    decide (opt.boundsType = .characters) = false := by
  rcases hty with h | h <;> rw [h] <;> rfl

theorem specSep_fields (opt : Opt) (hty : opt.boundsType = .fields ∨ opt.boundsType = .lines) :
    specSep (cfgOf opt) = sepOf opt := by
  funext k
  have h5 : (cfgOf opt).chars = decide (opt.boundsType = .characters) := rfl
  have h6 : (cfgOf opt).replace = opt.replaceDelimiter := rfl
  have h7 : (cfgOf opt).delimiter = opt.delimiter := rfl
  unfold specSep sepOf
  rw [h5, not_chars_of_fields hty, h6, h7]
  cases opt.replaceDelimiter <;> rfl

theorem specLine_fields (opt : Opt) (hty : opt.boundsType = .fields ∨ opt.boundsType = .lines)
    (line : Bytes) : specLine (cfgOf opt) line = trimmed opt line := by
  have h5 : (cfgOf opt).chars = decide (opt.boundsType = .characters) := rfl
  have h6 : (cfgOf opt).trim = opt.trim := rfl
  have h7 : (cfgOf opt).delimiter = opt.delimiter := rfl
  unfold specLine trimmed
  rw [h5, not_chars_of_fields hty, h6, h7]
  cases opt.trim <;> rfl

theorem specTok_fields (opt : Opt) (hty : opt.boundsType = .fields ∨ opt.boundsType = .lines)
    (l : Bytes) :
    specTok (cfgOf opt) l =
      some (tokenize opt.delimiter opt.greedyDelimiter opt.compressDelimiter l) := by
  have h5 : (cfgOf opt).chars = decide (opt.boundsType = .characters) := rfl
  have h6 : (cfgOf opt).compress = opt.compressDelimiter := by
    show (opt.compressDelimiter && (decide (opt.boundsType = .fields) || decide (opt.boundsType = .lines))) = _
    rcases hty with h | h <;> rw [h] <;> simp
  unfold specTok
  rw [h5, not_chars_of_fields hty, h6]
  rfl

/-- the ranges of the field engine against the tokens, printed text included (`-r`) -/
theorem refinesText_fields (opt : Opt) (line : Bytes) (fields : List Range) (tok : Tok)
    (hR : Refines opt.delimiter line fields tok) (hd : opt.delimiter ≠ [])
    (hre : opt.regexBag = none) (hty : opt.boundsType = .fields ∨ opt.boundsType = .lines) :
    RefinesText opt line fields tok (sepOf opt) :=
  ⟨hR.len, hR.inb, fun a b hab hb => bound_text opt line fields tok hR hd hre hty a b hab hb⟩

/-- **C08, one record.**  The general engine in field mode with a literal non-empty delimiter and
    `--json` — any of `-g -p -t -s -m`, fallbacks, whatever `-j` / `-r` are (`--json` sets `-j -r ,`)
    — writes for *every* record (UTF-8 or not: both sides fail at the same element) exactly what
    the per-record specification says, and ends as it says (never a panic). -/
theorem json_record_eq_spec (opt : Opt) (line : Bytes) (hd : opt.delimiter ≠ [])
    (hre : opt.regexBag = none) (hty : opt.boundsType = .fields ∨ opt.boundsType = .lines)
    (hjson : opt.json = true)
    (hz : AllNonzero opt.bounds.list) (hL : LastMarked opt.bounds.list) :
    (cutStrCore line opt [opt.eol.byte]).1 = specRecord (cfgOf opt) line := by
  rw [cutStrCore_fields line opt _ hre hty]
  by_cases he : (trimmed opt line).isEmpty = true
  · rw [if_pos he, specRecord_of_empty _ _ (by rw [specLine_fields opt hty]; simpa using he)]
    show _ = if opt.onlyDelimited = true then _ else _
    cases opt.onlyDelimited <;> rfl
  · rw [if_neg he]
    have hne : trimmed opt line ≠ [] := by
      intro h; rw [h] at he; exact he rfl
    have hR := refines_engine opt (trimmed opt line) hd hne
    rw [specRecord_of_tok (cfgOf opt) line _ (by rwa [specLine_fields opt hty])
      (by rw [specLine_fields opt hty, specTok_fields opt hty]),
      specTail_expand opt _ (by simp [hjson]), specSep_fields opt hty]
    exact emitRecord_eq_spec_expand opt _ _ _ _ (refinesText_fields opt _ _ _ hR hd hre hty)
      (by simp [hjson]) hz hL

theorem json_cutRecords_eq_spec (opt : Opt) (hd : opt.delimiter ≠ [])
    (hre : opt.regexBag = none) (hty : opt.boundsType = .fields ∨ opt.boundsType = .lines)
    (hjson : opt.json = true)
    (hz : AllNonzero opt.bounds.list) (hL : LastMarked opt.bounds.list) :
    ∀ (recs : List Bytes) (f₀ : List Range) (b₀ : Bytes),
      cutRecords opt recs f₀ b₀ = specRunRecords (cfgOf opt) recs
  | [], _, _ => rfl
  | r :: t, f₀, b₀ => by
    have h1 : (cutStr r opt f₀ b₀ [opt.eol.byte]).1 = specRecord (cfgOf opt) r :=
      json_record_eq_spec opt r hd hre hty hjson hz hL
    simp only [cutRecords, specRunRecords]
    rw [h1, json_cutRecords_eq_spec opt hd hre hty hjson hz hL t]

/-- **C08, the run.**  On a fault-free reader the general engine in field mode with `--json` is
    the specification: records in order, each by `specRecord`, stop at the first failure. -/
theorem json_run_eq_spec (opt : Opt) (input : Bytes) (hd : opt.delimiter ≠ [])
    (hre : opt.regexBag = none) (hty : opt.boundsType = .fields ∨ opt.boundsType = .lines)
    (hjson : opt.json = true)
    (hz : AllNonzero opt.bounds.list) (hL : LastMarked opt.bounds.list) :
    readAndCutStr opt input = specRun (cfgOf opt) input :=
  json_cutRecords_eq_spec opt hd hre hty hjson hz hL _ [] []

/-- for every accepted `--fields` argument -/
theorem json_run_eq_spec_of_parsed (opt : Opt) (input : Bytes) (s : List Char)
    (hparse : boundsListOfString s = .ok opt.bounds) (hd : opt.delimiter ≠ [])
    (hre : opt.regexBag = none) (hty : opt.boundsType = .fields ∨ opt.boundsType = .lines)
    (hjson : opt.json = true) :
    readAndCutStr opt input = specRun (cfgOf opt) input :=
  have h := boundsListOfString_good s opt.bounds hparse
  json_run_eq_spec opt input hd hre hty hjson h.1 h.2

/-- **field mode, with or without `--json`**: `cutStr_eq_spec_gen` and `json_record_eq_spec`
    together -/
theorem cutStr_eq_spec_any_json (opt : Opt) (line : Bytes) (hd : opt.delimiter ≠ [])
    (hre : opt.regexBag = none) (hty : opt.boundsType = .fields ∨ opt.boundsType = .lines)
    (hz : AllNonzero opt.bounds.list) (hL : LastMarked opt.bounds.list) :
    (cutStrCore line opt [opt.eol.byte]).1 = specRecord (cfgOf opt) line := by
  cases hjson : opt.json with
  | false => exact cutStr_eq_spec_gen opt line hd hre hty hjson hz hL
  | true => exact json_record_eq_spec opt line hd hre hty hjson hz hL

/-! ## in the property's words: the line decodes to the selected parts -/

/-- the fields of a tokenised record -/
def Spec.Tok.fields (t : Tok) : List Bytes := t.first :: t.rest.map Prod.snd

/-- the text of field `k` (1-based) -/
def fieldAt (t : Tok) (k : Nat) : Bytes := (t.fields[k - 1]?).getD []

theorem piece_single_aux (sep : Nat → Bytes) : ∀ (all : List (Nat × Bytes)) (i : Nat),
    (match (all.drop i).take 1 with
      | [] => []
      | (_, f) :: more => f ++ more.flatMap fun (k, g) => sep k ++ g) =
      ((all.map Prod.snd)[i]?).getD []
  | [], i => by simp
  | x :: xs, 0 => by simp
  | x :: xs, i + 1 => by
    have := piece_single_aux sep xs i
    simpa using this

/-- the piece "field `k` to field `k`" is the text of field `k`: no separator is involved -/
theorem pieceText_single (sep : Nat → Bytes) (t : Tok) (k : Nat) :
    pieceText sep t k k = fieldAt t k := by
  unfold pieceText fieldAt Spec.Tok.fields
  have e : k - k + 1 = 1 := by omega
  simp only [e]
  exact piece_single_aux sep ((0, t.first) :: t.rest) (k - 1)

/-- what the record selects, element by element: for every bound (after `-m`), in order, one
    element per field of the range it resolves to, or — if it cannot be resolved — one element
    for its fallback (own, else generic; `none` = there is no fallback: the run fails there) -/
def selectedParts (opt : Opt) (tok : Tok) : List BoF → List (Option Bytes)
  | [] => []
  | .filler _ :: t => selectedParts opt tok t
  | .bound b :: t =>
    (match resolve b tok.numFields with
     | some (lo, hi) => (List.range (hi - lo + 1)).map fun i => some (fieldAt tok (lo + i))
     | none => [match b.fallback with | some f => some f | none => opt.fallbackOob]) ++
      selectedParts opt tok t

theorem resolve_hi_le {b : UserBounds} {n lo hi : Nat} (hz : b.Nonzero)
    (h : resolve b n = some (lo, hi)) : hi ≤ n := by
  have htr : b.tryIntoRange n = some (lo - 1, hi) := by
    rw [tryIntoRange_eq_resolve b n hz, h]; rfl
  have hzl : b.l ≠ .some 0 := by
    intro h0; have := hz.1; rw [h0] at this; exact this rfl
  exact (tryIntoRange_bounds b _ _ _ hzl htr).2

theorem boundsOnly_append (a b : List BoF) : boundsOnly (a ++ b) = boundsOnly a ++ boundsOnly b := by
  induction a with
  | nil => rfl
  | cons x t ih => cases x <;> simp [boundsOnly, ih]

theorem boundsOnly_map_bound_j (l : List UserBounds) : boundsOnly (l.map .bound) = l := by
  induction l with
  | nil => rfl
  | cons x t ih => simp [boundsOnly, ih]

/-- the texts of the expanded list are the selected parts -/
theorem texts_expand (opt : Opt) (tok : Tok) (sep : Nat → Bytes) : ∀ (l : List BoF), AllNonzero l →
    (boundsOnly (mapBounds (expandBound · tok.numFields) l)).map (boundTextS (cfgOf opt) tok sep) =
      selectedParts opt tok l
  | [], _ => rfl
  | .filler f :: t, hz => by
    simp only [mapBounds, boundsOnly, selectedParts]
    exact texts_expand opt tok sep t (fun b hb => hz b (List.mem_cons_of_mem _ hb))
  | .bound b :: t, hz => by
    have ih := texts_expand opt tok sep t (fun b hb => hz b (List.mem_cons_of_mem _ hb))
    have hzb := hz b (List.mem_cons_self ..)
    simp only [mapBounds, boundsOnly_append, boundsOnly_map_bound_j, List.map_append, selectedParts, ih]
    congr 1
    unfold expandBound
    cases hres : resolve b tok.numFields with
    | none =>
      simp only [List.map_cons, List.map_nil, boundTextS, resolve_eraseLast, hres]
      rfl
    | some p =>
      obtain ⟨lo, hi⟩ := p
      obtain ⟨h1, h2⟩ := resolve_some hres
      have h3 := resolve_hi_le hzb hres
      simp only [List.map_map]
      apply List.map_congr_left
      intro i hi'
      have hi'' : i < hi - lo + 1 := List.mem_range.mp hi'
      simp only [Function.comp, boundTextS]
      rw [resolve_single (lo + i) _ (by omega) (by omega)]
      simp only []
      rw [pieceText_single]

theorem eq_map_bound_of_no_filler : ∀ (l : List BoF), (∀ f, BoF.filler f ∉ l) →
    l = (boundsOnly l).map .bound
  | [], _ => rfl
  | .filler f :: t, h => absurd (List.mem_cons_self ..) (h f)
  | .bound b :: t, h => by
    simp only [boundsOnly, List.map_cons]
    rw [← eq_map_bound_of_no_filler t (fun f hf => h f (List.mem_cons_of_mem _ hf))]

/-- `emit` under `--json` on a list of bounds whose texts all exist and are UTF-8: the JSON strings
    of the texts, separated by single commas -/
theorem emit_json_ok (cfg : Cfg) (tok : Tok) (sep : Nat → Bytes) (hjson : cfg.json = true)
    (hjoin : cfg.join = true) :
    ∀ (us : List UserBounds) (ts : List Bytes), us.map (boundTextS cfg tok sep) = ts.map some →
      (∀ t ∈ ts, validUtf8 t = true) →
      emit cfg tok sep [0x2C] (us.map .bound) = Run.ok (Spec.joinWith [0x2C] (ts.map jsonString))
  | [], [], _, _ => rfl
  | [], _ :: _, h, _ => by simp at h
  | _ :: _, [], h, _ => by simp at h
  | u :: us, t :: ts, h, hv => by
    simp only [List.map_cons, List.cons.injEq] at h
    have ih := emit_json_ok cfg tok sep hjson hjoin us ts h.2 (fun t' h' => hv t' (List.mem_cons_of_mem _ h'))
    have hlen : us.length = ts.length := by simpa using congrArg List.length h.2
    rw [List.map_cons, emit_bound, h.1, ih, countBounds_map_bound_u]
    simp only [Option.bind_some, renderS, hjson, if_true, hv t (List.mem_cons_self ..), hjoin,
      Bool.true_and]
    cases ts with
    | nil =>
      have : us.length = 0 := by simpa using hlen
      simp [this, Spec.joinWith, Run.pre, Run.ok]
    | cons t' ts' =>
      have : us.length > 0 := by simp at hlen; omega
      simp [this, Spec.joinWith, Run.pre, Run.ok]

/-- **C08, in the property's words.**  Field mode, literal delimiter, `--json` (hence `-j`, `-r ,`,
    no format text), any of `-g -p -t -m`, a record that is not dropped (not empty after `-t`, and
    delimited if `-s`) and whose complement is not empty: if every selected part — one per field of
    every range, one per fallback of every unresolvable bound — exists and is valid UTF-8, then
    the engine ends well having written one line `[…]` + EOL, and the strict RFC 8259 reader of
    `Tuc.Spec.Json` decodes that line (with its LF) to exactly the list of the selected parts. -/
theorem json_record_decodes (opt : Opt) (line : Bytes) (hd : opt.delimiter ≠ [])
    (hre : opt.regexBag = none) (hty : opt.boundsType = .fields ∨ opt.boundsType = .lines)
    (hjson : opt.json = true) (hjoin : opt.join = true) (hrep : opt.replaceDelimiter = some [0x2C])
    (hz : AllNonzero opt.bounds.list) (hL : LastMarked opt.bounds.list)
    (hnofill : ∀ f, BoF.filler f ∉ opt.bounds.list)
    (tok : Tok)
    (htok : tok = tokenize opt.delimiter opt.greedyDelimiter opt.compressDelimiter (trimmed opt line))
    (hne : trimmed opt line ≠ [])
    (hs : (opt.onlyDelimited && tok.numFields == 1) = false)
    (hc : (opt.complement && countBounds (specBofs opt tok.numFields) == 0) = false)
    (ts : List Bytes)
    (hparts : selectedParts opt tok (specBofs opt tok.numFields) = ts.map some)
    (hvalid : ∀ t ∈ ts, validUtf8 t = true) :
    (cutStrCore line opt [opt.eol.byte]).1 =
        Run.ok ([0x5B] ++ Spec.joinWith [0x2C] (ts.map jsonString) ++ [0x5D] ++ [opt.eol.byte]) ∧
      jsonDecodeArray ([0x5B] ++ Spec.joinWith [0x2C] (ts.map jsonString) ++ [0x5D]) = some ts ∧
      jsonDecodeArray ([0x5B] ++ Spec.joinWith [0x2C] (ts.map jsonString) ++ [0x5D] ++ [0x0A]) =
        some ts := by
  refine ⟨?_, json_array_roundtrip ts, json_array_roundtrip_ws ts [0x0A] (by decide)⟩
  rw [json_record_eq_spec opt line hd hre hty hjson hz hL,
    specRecord_of_tok (cfgOf opt) line tok (by rwa [specLine_fields opt hty])
      (by rw [specLine_fields opt hty, specTok_fields opt hty, htok]),
    specTail_expand opt _ (by simp [hjson]), specSep_fields opt hty, hs, hc]
  have hzs : AllNonzero (specBofs opt tok.numFields) := by
    unfold specBofs
    split
    · exact mapBounds_complement_nonzero _ _ hz
    · exact hz
  have hnf : ∀ f, BoF.filler f ∉ mapBounds (expandBound · tok.numFields) (specBofs opt tok.numFields) :=
    fun f hf => hnofill f (filler_of_rewritten opt _ f hf)
  have hj : (cfgOf opt).json = true := hjson
  have hjn : (cfgOf opt).join = true := hjoin
  rw [eq_map_bound_of_no_filler _ hnf, hrep]
  have hem := emit_json_ok (cfgOf opt) tok (sepOf opt) hj hjn _ ts
    (by rw [texts_expand opt tok (sepOf opt) _ hzs, hparts]) hvalid
  simp only [Option.getD_some, Bool.false_eq_true, if_false, hjson, if_true]
  rw [hem]
  simp [Run.pre, Run.seq, Run.ok]

/-! ## concrete instances -/

/-- `-f 1:2,5=x` -/
def c08Bounds : UserBoundsList :=
  ⟨[.bound { l := .some 1, r := .some 2 },
    .bound { l := .some 5, r := .some 5, isLast := true, fallback := some [0x78] }], .cont⟩

/-- `-f 1:2` -/
def c08Bounds12 : UserBoundsList := ⟨[.bound { l := .some 1, r := .some 2, isLast := true }], .cont⟩

/-- what `parse_args` builds for `-d - --json` (`-j`, `-r ,`) -/
def c08Opt (bounds : UserBoundsList) (g m : Bool) : Opt :=
  { delimiter := [0x2D], bounds := bounds, replaceDelimiter := some [0x2C], join := true,
    json := true, greedyDelimiter := g, complement := m }

-- a-b-c  ↦  ["a","b","x"]
example : (cutStrCore [0x61,0x2D,0x62,0x2D,0x63] (c08Opt c08Bounds false false) [10]).1 =
    Run.ok [0x5B,0x22,0x61,0x22,0x2C,0x22,0x62,0x22,0x2C,0x22,0x78,0x22,0x5D,10] := by decide
example : specRecord (cfgOf (c08Opt c08Bounds false false)) [0x61,0x2D,0x62,0x2D,0x63] =
    Run.ok [0x5B,0x22,0x61,0x22,0x2C,0x22,0x62,0x22,0x2C,0x22,0x78,0x22,0x5D,10] := by decide
example : jsonDecodeArray [0x5B,0x22,0x61,0x22,0x2C,0x22,0x62,0x22,0x2C,0x22,0x78,0x22,0x5D,10] =
    some [[0x61],[0x62],[0x78]] := by decide
example : selectedParts (c08Opt c08Bounds false false)
    (tokenize [0x2D] false false [0x61,0x2D,0x62,0x2D,0x63])
    (specBofs (c08Opt c08Bounds false false) 3) = [some [0x61], some [0x62], some [0x78]] := by decide
-- `-m`: a-b-c  ↦  ["c"] then the unresolvable `5=x` stays: ["c","x"]
example : (cutStrCore [0x61,0x2D,0x62,0x2D,0x63] (c08Opt c08Bounds false true) [10]).1 =
    Run.ok [0x5B,0x22,0x63,0x22,0x2C,0x22,0x78,0x22,0x5D,10] := by decide
example : specRecord (cfgOf (c08Opt c08Bounds false true)) [0x61,0x2D,0x62,0x2D,0x63] =
    Run.ok [0x5B,0x22,0x63,0x22,0x2C,0x22,0x78,0x22,0x5D,10] := by decide
-- a--b with `1:2`: ["a",""] ; with `-g`: ["a","b"] — every element is one field, no `-` is replaced
example : (cutStrCore [0x61,0x2D,0x2D,0x62] (c08Opt c08Bounds12 false false) [10]).1 =
    Run.ok [0x5B,0x22,0x61,0x22,0x2C,0x22,0x22,0x5D,10] := by decide
example : (cutStrCore [0x61,0x2D,0x2D,0x62] (c08Opt c08Bounds12 true false) [10]).1 =
    Run.ok [0x5B,0x22,0x61,0x22,0x2C,0x22,0x62,0x22,0x5D,10] := by decide
example : specRecord (cfgOf (c08Opt c08Bounds12 true false)) [0x61,0x2D,0x2D,0x62] =
    Run.ok [0x5B,0x22,0x61,0x22,0x2C,0x22,0x62,0x22,0x5D,10] := by decide
-- a-<FF>: not UTF-8, both sides stop after `["a",`
example : (cutStrCore [0x61,0x2D,0xFF] (c08Opt c08Bounds12 false false) [10]).1 =
    ⟨[0x5B,0x22,0x61,0x22,0x2C], .fail⟩ := by decide
example : specRecord (cfgOf (c08Opt c08Bounds12 false false)) [0x61,0x2D,0xFF] =
    ⟨[0x5B,0x22,0x61,0x22,0x2C], .fail⟩ := by decide

end Tuc
