import Tuc.Lemmas.Lines
/-!
# C05 — line mode, the one-line-at-a-time algorithm against the specification

* `fwd_output` — `cutLinesForwardOnly` prints `linesOut … ++ [eol]` (the selected lines, byte for
  byte, in request order, separated by the EOL or concatenated under `--no-join`, then one EOL)
  and succeeds, for every plain forward-only request resolvable on the input;
* `fwd_eq_spec` / `readAndCutLines_eq_spec` — hence it equals `specLines (cfgOf o)` (output and
  status) on every input other than the empty one or a lone EOL;
  (`Tuc.Props.C05Utf8.fwd_eq_spec_utf8`: the same with "the input is valid UTF-8" instead of "every
  line is");
* `fwd_trailing_eol`, `specLines_trailing_eol` (from `records_trailing_eol`) — one trailing EOL is
  not an extra empty line;
* `fwd_no_join`, `fwd_join` — the two shapes of the output;
* `isForwardOnly_spec` (in `Tuc.Lemmas.Lines`) — `is_forward_only` in closed form.

The `isLast` flag plays no role here (neither the walk nor the specification reads it), so the
theorems hold for any plain list, in particular for what `markLast`/`fromVec` build
(`markLast_plain`).

Proof: induction over the lines still to read with the invariant `FwdInv` (what `add_newline_next`
means for the pending bound) and the function `fwdRemOut` (what remains to be printed); one line
is `fwdLine_step` (induction over the pending bounds: several bounds may end on the same line).
-/
namespace Tuc
open Tuc.Spec

/-! ## the invariant of the read loop -/

/-- what the pending bound still has to print when `i` lines have been read -/
def fwdHeadText (eol : UInt8) (ls : List Bytes) (i : Nat) (addNl : Bool) (b : UserBounds) : Bytes :=
  match resolve b ls.length with
  | some (lo, hi) =>
    if addNl then contText eol (slice ls i hi) else joinText eol (slice ls (lo - 1) hi)
  | none => []

/-- what remains to be printed before the final EOL -/
def fwdRemOut (eol : UInt8) (join : Bool) (ls : List Bytes) (i : Nat) (addNl : Bool) :
    List UserBounds → Bytes
  | [] => []
  | b :: t => fwdHeadText eol ls i addNl b ++ lineJoinerOf eol join t ++ linesOut eol join ls t

theorem fwdRemOut_false (eol : UInt8) (join : Bool) (ls : List Bytes) (i : Nat)
    (rest : List UserBounds) : fwdRemOut eol join ls i false rest = linesOut eol join ls rest := by
  cases rest with
  | nil => rfl
  | cons b t => cases h : resolve b ls.length <;> simp [fwdRemOut, linesOut, fwdHeadText, selText, h]

/-- `add_newline_next` ⇔ the pending bound has printed lines `lo … i` and is not finished;
    otherwise it has printed nothing and none of its lines has been read -/
def FwdInv (ls : List Bytes) (i : Nat) (addNl : Bool) : List UserBounds → Prop
  | [] => True
  | b :: _ => ∃ lo hi, resolve b ls.length = some (lo, hi) ∧
      (if addNl then lo ≤ i ∧ (b.r ≠ .cont → i < hi) else i < lo)

structure FwdGood (ls : List Bytes) (rest : List UserBounds) : Prop where
  pos : ∀ b ∈ rest, b.Pos
  res : ∀ b ∈ rest, resolve b ls.length ≠ none
  asc : Ascending rest

theorem FwdGood.tail {ls : List Bytes} {b : UserBounds} {t : List UserBounds} (h : FwdGood ls (b :: t)) :
    FwdGood ls t :=
  ⟨fun x hx => h.pos x (List.mem_cons_of_mem _ hx), fun x hx => h.res x (List.mem_cons_of_mem _ hx),
    h.asc.tail⟩

theorem lineJoiner_map (o : Opt) (t : List UserBounds) :
    lineJoiner o (t.map .bound) = lineJoinerOf o.eol.byte o.join t := by
  unfold lineJoiner lineJoinerOf
  cases t <;> simp

theorem fwdLine_step (o : Opt) (ls : List Bytes) (i : Nat) (line : Bytes) (tl : List Bytes)
    (hd : ls.drop i = line :: tl) :
    ∀ (rest : List UserBounds) (addNl : Bool), FwdGood ls rest → FwdInv ls i addNl rest →
      ∃ w rest' a', fwdLine o line ((i : Int) + 1) (rest.map .bound) addNl
          = (w, rest'.map .bound, a') ∧ FwdGood ls rest' ∧ FwdInv ls (i + 1) a' rest' ∧
        fwdRemOut o.eol.byte o.join ls i addNl rest
          = w ++ fwdRemOut o.eol.byte o.join ls (i + 1) a' rest' := by
  intro rest
  induction rest with
  | nil =>
    intro addNl hg _
    exact ⟨[], [], addNl, rfl, hg, trivial, rfl⟩
  | cons b t ih =>
    intro addNl hg hinv
    obtain ⟨lo, hi, hres, hcond⟩ := hinv
    have sel := LineSel.of_resolve (hg.pos b (by simp)) hres
    have hin : i < ls.length := by
      have : (ls.drop i).length = tl.length + 1 := by rw [hd]; rfl
      rw [List.length_drop] at this; omega
    have hk : ((i : Int) + 1) = ((i + 1 : Nat) : Int) := by omega
    have hm := sel.matches_iff (i + 1) (by omega)
    rw [List.map_cons]
    simp only [fwdLine]
    rw [hk]
    rw [hk] at ih
    have hbr : b.r ≠ .cont → b.r = .some (hi : Int) := by
      intro hne
      rcases sel.right with h | h
      · exact h
      · exact absurd h.1 hne
    have hhi : b.r = .cont → hi = ls.length := by
      intro hc
      rcases sel.right with h | h
      · rw [hc] at h; cases h
      · exact h.2
    -- what happens once the line has been printed
    have fin : ∀ pre : Bytes, lo ≤ i + 1 → i + 1 ≤ hi → ∃ w rest' a',
        (if b.r = Side.some ((i + 1 : Nat) : Int) then
            (pre ++ lineJoiner o (List.map BoF.bound t) ++
                (fwdLine o line ((i + 1 : Nat) : Int) (List.map BoF.bound t) false).fst,
              (fwdLine o line ((i + 1 : Nat) : Int) (List.map BoF.bound t) false).2.fst,
              (fwdLine o line ((i + 1 : Nat) : Int) (List.map BoF.bound t) false).2.snd)
          else (pre, BoF.bound b :: List.map BoF.bound t, true))
          = (w, rest'.map .bound, a') ∧ FwdGood ls rest' ∧ FwdInv ls (i + 1) a' rest' ∧
        pre ++ (contText o.eol.byte (slice ls (i + 1) hi) ++ lineJoinerOf o.eol.byte o.join t
            ++ linesOut o.eol.byte o.join ls t)
          = w ++ fwdRemOut o.eol.byte o.join ls (i + 1) a' rest' := by
      intro pre hlo hle
      by_cases hfin : b.r = Side.some ((i + 1 : Nat) : Int)
      · rw [if_pos hfin]
        have hhi1 : hi = i + 1 := by
          have := hbr (by rw [hfin]; simp)
          rw [hfin] at this
          simp only [Side.some.injEq] at this
          omega
        have hinvt : FwdInv ls i false t := by
          cases t with
          | nil => trivial
          | cons q t' =>
            cases hq : resolve q ls.length with
            | none => exact absurd hq (hg.res q (by simp))
            | some lh =>
              obtain ⟨lo', hi'⟩ := lh
              have selq := LineSel.of_resolve (hg.pos q (by simp)) hq
              have hf : Follows b q := hg.asc.1
              unfold Follows at hf
              rw [hfin] at hf
              simp only at hf
              rw [selq.left] at hf
              exact ⟨lo', hi', hq, by simp only [Bool.false_eq_true, if_false]; omega⟩
        obtain ⟨w', rest', a', hf, hg', hinv', hrem⟩ := ih false hg.tail hinvt
        rw [hf]
        refine ⟨pre ++ lineJoiner o (List.map BoF.bound t) ++ w', rest', a', rfl, hg', hinv', ?_⟩
        rw [slice_eq_nil_of_le ls (by omega : hi ≤ i + 1), contText_nil, ← fwdRemOut_false _ _ _ i,
          hrem, lineJoiner_map]
        simp only [List.nil_append, List.append_assoc]
      · rw [if_neg hfin]
        refine ⟨pre, b :: t, true, rfl, hg, ⟨lo, hi, hres, ?_⟩, ?_⟩
        · simp only [if_true]
          refine ⟨hlo, fun hne => ?_⟩
          have := hbr hne
          rw [this] at hfin
          simp only [Side.some.injEq] at hfin
          omega
        · simp [fwdRemOut, fwdHeadText, hres]
    by_cases hmatch : (b.matches ((i + 1 : Nat) : Int)).getD false = true
    · rw [if_pos hmatch]
      obtain ⟨h1, h2⟩ := hm.1 hmatch
      have hle : i + 1 ≤ hi := by
        rcases h2 with h | h
        · exact h
        · have := hhi h; omega
      obtain ⟨w, rest', a', hf, hg', hinv', hrem⟩ :=
        fin ((if addNl = true then [o.eol.byte] else []) ++ line) h1 hle
      refine ⟨w, rest', a', hf, hg', hinv', ?_⟩
      rw [← hrem]
      have hsl : slice ls i hi = line :: slice ls (i + 1) hi := slice_cons_of_drop hd (by omega)
      cases addNl with
      | true =>
        simp [fwdRemOut, fwdHeadText, hres, hsl]
      | false =>
        simp only [Bool.false_eq_true, if_false] at hcond
        have : lo - 1 = i := by omega
        simp [fwdRemOut, fwdHeadText, hres, this, hsl]
    · rw [if_neg hmatch]
      have hnm := fun h => hmatch (hm.2 h)
      cases addNl with
      | true =>
        exfalso
        simp only [if_true] at hcond
        apply hnm
        refine ⟨by omega, ?_⟩
        by_cases hc : b.r = .cont
        · exact Or.inr hc
        · exact Or.inl (by have := hcond.2 hc; omega)
      | false =>
        simp only [Bool.false_eq_true, if_false] at hcond
        have hlt : i + 1 < lo := by
          apply Classical.byContradiction
          intro hcon
          exact hnm ⟨by omega, Or.inl (by have := sel.lo_le; omega)⟩
        refine ⟨[], b :: t, false, rfl, hg, ⟨lo, hi, hres, by simp only [Bool.false_eq_true, if_false]; exact hlt⟩, ?_⟩
        rw [fwdRemOut_false, fwdRemOut_false]; rfl

/-- the read loop prints exactly what remains -/
theorem fwdLines_eq (o : Opt) (ls : List Bytes)
    (hutf : ∀ l ∈ ls, validUtf8 l = true) :
    ∀ (ls' : List Bytes) (i : Nat) (rest : List UserBounds) (addNl : Bool),
      ls.drop i = ls' → FwdGood ls rest → FwdInv ls i addNl rest →
      fwdLines o ls' (i : Int) (rest.map .bound) addNl
        = Run.ok (fwdRemOut o.eol.byte o.join ls i addNl rest ++ [o.eol.byte]) := by
  intro ls'
  induction ls' with
  | nil =>
    intro i rest addNl hd hg hinv
    have hlen : ls.length ≤ i := List.drop_eq_nil_iff.1 hd
    simp only [fwdLines]
    cases rest with
    | nil => rfl
    | cons b t =>
      obtain ⟨lo, hi, hres, hcond⟩ := hinv
      have sel := LineSel.of_resolve (hg.pos b (by simp)) hres
      cases addNl with
      | false =>
        exfalso
        simp only [Bool.false_eq_true, if_false] at hcond
        have := sel.lo_le; have := sel.hi_le; omega
      | true =>
        simp only [if_true] at hcond
        have hc : b.r = .cont := by
          apply Classical.byContradiction
          intro hne
          have := hcond.2 hne; have := sel.hi_le; omega
        have ht : t = [] := by
          cases t with
          | nil => rfl
          | cons q t' =>
            have hf : Follows b q := hg.asc.1
            unfold Follows at hf; rw [hc] at hf; exact hf.elim
        subst ht
        simp [fwdEnd, hc, lineJoiner, fwdRemOut, fwdHeadText, hres, slice_eq_nil_of_length_le ls hi hlen,
          lineJoinerOf, linesOut, Run.pre, Run.ok]
  | cons line tl ih =>
    intro i rest addNl hd hg hinv
    simp only [fwdLines]
    have hmem : line ∈ ls := by
      have : line ∈ ls.drop i := by rw [hd]; simp
      exact List.mem_of_mem_drop this
    have hv : (!validUtf8 line) = false := by simp [hutf line hmem]
    rw [hv]
    simp only [Bool.false_eq_true, if_false]
    obtain ⟨w, rest', a', hf, hg', hinv', hrem⟩ := fwdLine_step o ls i line tl hd rest addNl hg hinv
    rw [hf, hrem]
    simp only
    cases rest' with
    | nil => simp [fwdRemOut]
    | cons b' t' =>
      have hk : ((i : Int) + 1) = ((i + 1 : Nat) : Int) := by omega
      rw [hk, ih (i + 1) (b' :: t') a' (drop_succ_of_drop hd) hg' hinv']
      simp [Run.pre, Run.ok]

/-! ## the theorems -/

theorem boundsOnly_map_bound (bs : List UserBounds) : boundsOnly (bs.map .bound) = bs := by
  induction bs with
  | nil => rfl
  | cons b t ih => simp [boundsOnly, ih]

/-- a plain forward-only request every bound of which resolves on `n` lines: positive indexes,
    ascending -/
theorem good_of_forwardOnly (ls : List Bytes) (bs : List UserBounds)
    (hfwd : isForwardOnly (bs.map .bound) = true)
    (hres : ∀ b ∈ bs, resolve b ls.length ≠ none) : FwdGood ls bs := by
  have hz : ∀ b ∈ boundsOnly (bs.map BoF.bound), b.Nonzero := by
    rw [boundsOnly_map_bound]
    exact fun b hb => nonzero_of_resolve (hres b hb)
  have h := (isForwardOnly_spec _ hz).1 hfwd
  rw [boundsOnly_map_bound] at h
  exact ⟨h.1, hres, h.2⟩

/-- **The one-line-at-a-time algorithm prints exactly the selected lines** — byte for byte, in
    request order, separated by the EOL (or concatenated under `--no-join`), followed by one EOL —
    and succeeds.  For every input (the hypothesis on the bounds is void for the empty one), every
    plain forward-only request resolvable on it; the lines must be UTF-8 (the line reader checks
    each line it reads, with either EOL). -/
theorem fwd_output (o : Opt) (input : Bytes) (bs : List UserBounds)
    (hplain : o.bounds.list = bs.map .bound)
    (hfwd : isForwardOnly o.bounds.list = true)
    (hres : ∀ b ∈ bs, resolve b (records o.eol.byte input).length ≠ none)
    (hutf : ∀ l ∈ records o.eol.byte input, validUtf8 l = true) :
    cutLinesForwardOnly o input
      = Run.ok (linesOut o.eol.byte o.join (records o.eol.byte input) bs ++ [o.eol.byte]) := by
  unfold cutLinesForwardOnly
  rw [hplain] at hfwd ⊢
  have hg := good_of_forwardOnly _ bs hfwd hres
  have hinv : FwdInv (records o.eol.byte input) 0 false bs := by
    cases bs with
    | nil => trivial
    | cons b t =>
      cases hq : resolve b (records o.eol.byte input).length with
      | none => exact absurd hq (hres b (by simp))
      | some lh =>
        obtain ⟨lo, hi⟩ := lh
        have := (resolve_some_bounds hq).1
        exact ⟨lo, hi, hq, by simp only [Bool.false_eq_true, if_false]; omega⟩
  have := fwdLines_eq o (records o.eol.byte input) hutf (records o.eol.byte input) 0 bs false
    (List.drop_zero) hg hinv
  rw [fwdRemOut_false] at this
  exact this

/-- **C05, the line-at-a-time algorithm refines the specification** (output and status).
    Besides the hypotheses of the property, only `o.complement = false` is needed: `specLines`
    reads of `cfgOf o` nothing but the EOL, the bounds, `complement`, `join` (and `fallbackOob`,
    unused here since every bound resolves) — in particular not the delimiter, `boundsType`,
    `replaceDelimiter` or `json`. -/
theorem fwd_eq_spec (o : Opt) (input : Bytes) (bs : List UserBounds)
    (hplain : o.bounds.list = bs.map .bound)
    (hfwd : isForwardOnly o.bounds.list = true)
    (hres : ∀ b ∈ bs, resolve b (records o.eol.byte input).length ≠ none)
    (hutf : ∀ l ∈ records o.eol.byte input, validUtf8 l = true)
    (h0 : input ≠ []) (h1 : input ≠ [o.eol.byte])
    (hc : o.complement = false) :
    cutLinesForwardOnly o input = specLines (cfgOf o) input := by
  rw [fwd_output o input bs hplain hfwd hres hutf]
  exact (specLines_eq_linesOut (cfgOf o) input bs hplain hc h0 h1 hres).symm

/-- the same for the entry point `read_and_cut_lines`, which serves the request one line at a
    time when it is forward-only, without `-m` and without `-p` -/
theorem readAndCutLines_eq_spec (o : Opt) (input : Bytes) (bs : List UserBounds)
    (hplain : o.bounds.list = bs.map .bound)
    (hfwd : isForwardOnly o.bounds.list = true)
    (hres : ∀ b ∈ bs, resolve b (records o.eol.byte input).length ≠ none)
    (hutf : ∀ l ∈ records o.eol.byte input, validUtf8 l = true)
    (h0 : input ≠ []) (h1 : input ≠ [o.eol.byte])
    (hc : o.complement = false) (hp : o.compressDelimiter = false) :
    readAndCutLines o input = specLines (cfgOf o) input := by
  unfold readAndCutLines
  rw [hc, hp, hfwd]
  simp only [Bool.not_false, Bool.and_self, if_true]
  exact fwd_eq_spec o input bs hplain hfwd hres hutf h0 h1 hc

/-- `markLast` keeps a plain list plain (it only sets a flag nothing here reads) -/
theorem markLast_plain (bs : List UserBounds) (l' : List BoF)
    (h : markLast (bs.map .bound) = some l') :
    ∃ bs' : List UserBounds, l' = bs'.map .bound ∧ bs'.length = bs.length ∧
      ∀ i (hi : i < bs'.length) (hi' : i < bs.length), bs'[i].l = bs[i].l ∧ bs'[i].r = bs[i].r ∧
        bs'[i].fallback = bs[i].fallback := by
  induction bs generalizing l' with
  | nil => simp [markLast] at h
  | cons b t ih =>
    simp only [List.map_cons, markLast] at h
    cases hm : markLast (t.map .bound) with
    | none =>
      rw [hm] at h
      simp only [Option.some.injEq] at h
      subst h
      refine ⟨{ b with isLast := true } :: t, by simp, by simp, ?_⟩
      intro i hi hi'
      cases i with
      | zero => simp
      | succ j => simp
    | some t' =>
      rw [hm] at h
      simp only [Option.some.injEq] at h
      subst h
      obtain ⟨ts, rfl, hlen, hsame⟩ := ih t' hm
      refine ⟨b :: ts, by simp, by simp [hlen], ?_⟩
      intro i hi hi'
      cases i with
      | zero => simp
      | succ j =>
        simp only [List.getElem_cons_succ]
        exact hsame j (by simpa using hi) (by simpa using hi')

/-! ## a single trailing EOL never counts as an extra empty line -/

/-- for a non-empty input that does not already end with the EOL, adding one EOL changes nothing
    (whatever the request: the two runs read the same lines) -/
theorem fwd_trailing_eol (o : Opt) (x : Bytes) (hne : x ≠ [])
    (hlast : x.getLast? ≠ some o.eol.byte) :
    cutLinesForwardOnly o (x ++ [o.eol.byte]) = cutLinesForwardOnly o x := by
  unfold cutLinesForwardOnly
  rw [records_trailing_eol o.eol.byte x hne hlast]

/-- the specification agrees -/
theorem specLines_trailing_eol (cfg : Cfg) (x : Bytes) (hne : x ≠ [])
    (hlast : x.getLast? ≠ some cfg.eol) :
    specLines cfg (x ++ [cfg.eol]) = specLines cfg x := by
  unfold specLines
  rw [records_trailing_eol cfg.eol x hne hlast]

/-- the hypotheses are needed: the empty input has no line, the lone EOL has one (empty) line;
    and a second trailing EOL is an empty last line -/
example : records 10 [] = [] ∧ records 10 [10] = [[]] := by decide
example : records 10 [97, 10] = [[97]] ∧ records 10 [97, 10, 10] = [[97], []] := by decide

/-! ## `--no-join` and the joined form -/

theorem linesOut_noJoin (eol : UInt8) (ls : List Bytes) (bs : List UserBounds) :
    linesOut eol false ls bs = bs.flatMap (selText eol ls) := by
  induction bs with
  | nil => rfl
  | cons b t ih => simp [linesOut, lineJoinerOf, ih]

theorem linesOut_join (eol : UInt8) (ls : List Bytes) (bs : List UserBounds) :
    linesOut eol true ls bs = List.intercalate [eol] (bs.map (selText eol ls)) := by
  induction bs with
  | nil => rfl
  | cons b t ih =>
    cases t with
    | nil => simp [linesOut, lineJoinerOf, List.intercalate]
    | cons c u =>
      rw [linesOut, ih]
      simp [lineJoinerOf, List.intercalate]

/-- **`--no-join`**: the selected lines of the successive bounds are concatenated with nothing in
    between (the lines *inside* a range stay separated by the EOL) -/
theorem fwd_no_join (o : Opt) (input : Bytes) (bs : List UserBounds)
    (hplain : o.bounds.list = bs.map .bound)
    (hfwd : isForwardOnly o.bounds.list = true)
    (hres : ∀ b ∈ bs, resolve b (records o.eol.byte input).length ≠ none)
    (hutf : ∀ l ∈ records o.eol.byte input, validUtf8 l = true)
    (hj : o.join = false) :
    cutLinesForwardOnly o input
      = Run.ok (bs.flatMap (selText o.eol.byte (records o.eol.byte input)) ++ [o.eol.byte]) := by
  rw [fwd_output o input bs hplain hfwd hres hutf, hj, linesOut_noJoin]

/-- with the join, the bounds are separated by one EOL -/
theorem fwd_join (o : Opt) (input : Bytes) (bs : List UserBounds)
    (hplain : o.bounds.list = bs.map .bound)
    (hfwd : isForwardOnly o.bounds.list = true)
    (hres : ∀ b ∈ bs, resolve b (records o.eol.byte input).length ≠ none)
    (hutf : ∀ l ∈ records o.eol.byte input, validUtf8 l = true)
    (hj : o.join = true) :
    cutLinesForwardOnly o input
      = Run.ok (List.intercalate [o.eol.byte]
          (bs.map (selText o.eol.byte (records o.eol.byte input))) ++ [o.eol.byte]) := by
  rw [fwd_output o input bs hplain hfwd hres hutf, hj, linesOut_join]

/-! ## concrete data: lines "a", "", "bc", request `1,2:3` -/

def c05Bounds : List UserBounds :=
  [{ l := .some 1, r := .some 1 }, { l := .some 2, r := .some 3, isLast := true }]

def c05Opt (join : Bool) : Opt :=
  { delimiter := [10], bounds := ⟨c05Bounds.map .bound, .some 3⟩, boundsType := .lines, join := join }

/-- `a⏎⏎bc` -/
def c05Input : Bytes := [97, 10, 10, 98, 99]

example : records 10 c05Input = [[97], [], [98, 99]] := by decide
example : records 10 (c05Input ++ [10]) = [[97], [], [98, 99]] := by decide
example : isForwardOnly (c05Opt true).bounds.list = true := by decide

-- join: `a⏎` `⏎bc` `⏎`
example : cutLinesForwardOnly (c05Opt true) c05Input = Run.ok [97, 10, 10, 98, 99, 10] := by decide
example : cutLinesForwardOnly (c05Opt true) (c05Input ++ [10]) = Run.ok [97, 10, 10, 98, 99, 10] := by
  decide
example : specLines (cfgOf (c05Opt true)) c05Input = Run.ok [97, 10, 10, 98, 99, 10] := by decide
example : specLines (cfgOf (c05Opt true)) (c05Input ++ [10]) = Run.ok [97, 10, 10, 98, 99, 10] := by
  decide
-- `--no-join`: `a` `⏎bc` `⏎`
example : cutLinesForwardOnly (c05Opt false) c05Input = Run.ok [97, 10, 98, 99, 10] := by decide
example : cutLinesForwardOnly (c05Opt false) (c05Input ++ [10]) = Run.ok [97, 10, 98, 99, 10] := by
  decide
example : specLines (cfgOf (c05Opt false)) c05Input = Run.ok [97, 10, 98, 99, 10] := by decide
example : specLines (cfgOf (c05Opt false)) (c05Input ++ [10]) = Run.ok [97, 10, 98, 99, 10] := by
  decide
example : readAndCutLines (c05Opt true) c05Input = Run.ok [97, 10, 10, 98, 99, 10] := by decide

/-- the hypotheses of the theorem are satisfiable: this is an instance of it -/
example : cutLinesForwardOnly (c05Opt true) c05Input = specLines (cfgOf (c05Opt true)) c05Input :=
  fwd_eq_spec (c05Opt true) c05Input c05Bounds rfl (by decide) (by decide) (by decide) (by decide)
    (by decide) rfl

/-- the empty input and the lone EOL are outside the property: the specification prints one EOL,
    the line-at-a-time algorithm fails on the first / prints the joiner on the second -/
example : cutLinesForwardOnly (c05Opt true) [] = Run.fail
    ∧ specLines (cfgOf (c05Opt true)) [] = Run.ok [10] := by decide
example : cutLinesForwardOnly { c05Opt true with bounds := ⟨[.bound ⟨.some 1, .some 1, false, none⟩,
      .bound ⟨.some 1, .some 1, true, none⟩], .some 1⟩ } [10] = Run.ok [10, 10]
    ∧ specLines (cfgOf { c05Opt true with bounds := ⟨[.bound ⟨.some 1, .some 1, false, none⟩,
      .bound ⟨.some 1, .some 1, true, none⟩], .some 1⟩ }) [10] = Run.ok [10] := by decide

/-- D12 (repaired): `2,:3` is not forward-only (an open left side is line 1), `1:,2` neither
    (nothing may follow an open right side); `1:2,2:3` is (`prev.r ≤ next.l`) -/
example : isForwardOnly [.bound ⟨.some 2, .some 2, false, none⟩, .bound ⟨.cont, .some 3, true, none⟩]
    = false := by decide
example : isForwardOnly [.bound ⟨.some 1, .cont, false, none⟩, .bound ⟨.some 2, .some 2, true, none⟩]
    = false := by decide
example : isForwardOnly [.bound ⟨.some 1, .some 2, false, none⟩, .bound ⟨.some 2, .some 3, true, none⟩]
    = true := by decide

end Tuc
