import Tuc.Lemmas.Lines
/-!
# C05 — line mode, the one-line-at-a-time algorithm against the specification
-/
namespace Tuc
open Tuc.Spec

/-! ## the invariant of the read loop -/

/-- what the pending bound still has to print when `i` lines have been read -/
def headText (eol : UInt8) (ls : List Bytes) (i : Nat) (addNl : Bool) (b : UserBounds) : Bytes :=
  match resolve b ls.length with
  | some (lo, hi) =>
    if addNl then contText eol (slice ls i hi) else joinText eol (slice ls (lo - 1) hi)
  | none => []

/-- what remains to be printed before the final EOL -/
def remOut (eol : UInt8) (join : Bool) (ls : List Bytes) (i : Nat) (addNl : Bool) :
    List UserBounds → Bytes
  | [] => []
  | b :: t => headText eol ls i addNl b ++ joinerOf eol join t ++ linesOut eol join ls t

theorem remOut_false (eol : UInt8) (join : Bool) (ls : List Bytes) (i : Nat)
    (rest : List UserBounds) : remOut eol join ls i false rest = linesOut eol join ls rest := by
  cases rest with
  | nil => rfl
  | cons b t => simp [remOut, linesOut, headText, selText]

/-- `add_newline_next` ⇔ the pending bound has printed lines `lo … i` and is not finished;
    otherwise it has printed nothing and none of its lines has been read -/
def Inv (ls : List Bytes) (i : Nat) (addNl : Bool) : List UserBounds → Prop
  | [] => True
  | b :: _ => ∃ lo hi, resolve b ls.length = some (lo, hi) ∧
      (if addNl then lo ≤ i ∧ (b.r ≠ .cont → i < hi) else i < lo)

structure Good (ls : List Bytes) (rest : List UserBounds) : Prop where
  pos : ∀ b ∈ rest, b.Pos
  res : ∀ b ∈ rest, resolve b ls.length ≠ none
  asc : Ascending rest

theorem Good.tail {ls : List Bytes} {b : UserBounds} {t : List UserBounds} (h : Good ls (b :: t)) :
    Good ls t :=
  ⟨fun x hx => h.pos x (List.mem_cons_of_mem _ hx), fun x hx => h.res x (List.mem_cons_of_mem _ hx),
    h.asc.tail⟩

theorem lineJoiner_map (o : Opt) (t : List UserBounds) :
    lineJoiner o (t.map .bound) = joinerOf o.eol.byte o.join t := by
  unfold lineJoiner joinerOf
  cases t <;> simp

theorem fwdLine_step (o : Opt) (ls : List Bytes) (i : Nat) (line : Bytes) (tl : List Bytes)
    (hd : ls.drop i = line :: tl) :
    ∀ (rest : List UserBounds) (addNl : Bool), Good ls rest → Inv ls i addNl rest →
      ∃ w rest' a', fwdLine o line ((i : Int) + 1) (rest.map .bound) addNl
          = (w, rest'.map .bound, a') ∧ Good ls rest' ∧ Inv ls (i + 1) a' rest' ∧
        remOut o.eol.byte o.join ls i addNl rest
          = w ++ remOut o.eol.byte o.join ls (i + 1) a' rest' := by
  intro rest
  induction rest with
  | nil =>
    intro addNl hg _
    exact ⟨[], [], addNl, rfl, hg, trivial, rfl⟩
  | cons b t ih =>
    intro addNl hg hinv
    obtain ⟨lo, hi, hres, hcond⟩ := hinv
    have sel := Sel.of_resolve (hg.pos b (by simp)) hres
    have hin : i < ls.length := by
      have : (ls.drop i).length = tl.length + 1 := by rw [hd]; rfl
      rw [List.length_drop] at this; omega
    have hk : ((i : Int) + 1) = ((i + 1 : Nat) : Int) := by omega
    have hm := sel.matches_iff (i + 1) (by omega)
    rw [List.map_cons]
    simp only [fwdLine]
    rw [hk]
    trace_state
    sorry

end Tuc
