import Tuc.Lemmas.Lines
/-!
# C05 — line mode, the one-line-at-a-time algorithm against the specification
-/
namespace Tuc
open Tuc.Spec

/-! ## the invariant of the read loop -/

/-- what the pending bound still has to print when `i` lines have been read -/
def headText (eol : UInt8) (ls : List Bytes) (i : Nat) (addNl : Bool) (b : UserBounds) : Bytes :=
  match resolve b ls.length with
  | some (lo, hi) =>
    if addNl then contText eol (slice ls i hi) else joinText eol (slice ls (lo - 1) hi)
  | none => []

/-- what remains to be printed before the final EOL -/
def remOut (eol : UInt8) (join : Bool) (ls : List Bytes) (i : Nat) (addNl : Bool) :
    List UserBounds → Bytes
  | [] => []
  | b :: t => headText eol ls i addNl b ++ joinerOf eol join t ++ linesOut eol join ls t

theorem remOut_false (eol : UInt8) (join : Bool) (ls : List Bytes) (i : Nat)
    (rest : List UserBounds) : remOut eol join ls i false rest = linesOut eol join ls rest := by
  cases rest with
  | nil => rfl
  | cons b t => cases h : resolve b ls.length <;> simp [remOut, linesOut, headText, selText, h]

/-- `add_newline_next` ⇔ the pending bound has printed lines `lo … i` and is not finished;
    otherwise it has printed nothing and none of its lines has been read -/
def Inv (ls : List Bytes) (i : Nat) (addNl : Bool) : List UserBounds → Prop
  | [] => True
  | b :: _ => ∃ lo hi, resolve b ls.length = some (lo, hi) ∧
      (if addNl then lo ≤ i ∧ (b.r ≠ .cont → i < hi) else i < lo)

structure Good (ls : List Bytes) (rest : List UserBounds) : Prop where
  pos : ∀ b ∈ rest, b.Pos
  res : ∀ b ∈ rest, resolve b ls.length ≠ none
  asc : Ascending rest

theorem Good.tail {ls : List Bytes} {b : UserBounds} {t : List UserBounds} (h : Good ls (b :: t)) :
    Good ls t :=
  ⟨fun x hx => h.pos x (List.mem_cons_of_mem _ hx), fun x hx => h.res x (List.mem_cons_of_mem _ hx),
    h.asc.tail⟩

theorem lineJoiner_map (o : Opt) (t : List UserBounds) :
    lineJoiner o (t.map .bound) = joinerOf o.eol.byte o.join t := by
  unfold lineJoiner joinerOf
  cases t <;> simp

theorem fwdLine_step (o : Opt) (ls : List Bytes) (i : Nat) (line : Bytes) (tl : List Bytes)
    (hd : ls.drop i = line :: tl) :
    ∀ (rest : List UserBounds) (addNl : Bool), Good ls rest → Inv ls i addNl rest →
      ∃ w rest' a', fwdLine o line ((i : Int) + 1) (rest.map .bound) addNl
          = (w, rest'.map .bound, a') ∧ Good ls rest' ∧ Inv ls (i + 1) a' rest' ∧
        remOut o.eol.byte o.join ls i addNl rest
          = w ++ remOut o.eol.byte o.join ls (i + 1) a' rest' := by
  intro rest
  induction rest with
  | nil =>
    intro addNl hg _
    exact ⟨[], [], addNl, rfl, hg, trivial, rfl⟩
  | cons b t ih =>
    intro addNl hg hinv
    obtain ⟨lo, hi, hres, hcond⟩ := hinv
    have sel := Sel.of_resolve (hg.pos b (by simp)) hres
    have hin : i < ls.length := by
      have : (ls.drop i).length = tl.length + 1 := by rw [hd]; rfl
      rw [List.length_drop] at this; omega
    have hk : ((i : Int) + 1) = ((i + 1 : Nat) : Int) := by omega
    have hm := sel.matches_iff (i + 1) (by omega)
    rw [List.map_cons]
    simp only [fwdLine]
    rw [hk]
    rw [hk] at ih
    have hbr : b.r ≠ .cont → b.r = .some (hi : Int) := by
      intro hne
      rcases sel.right with h | h
      · exact h
      · exact absurd h.1 hne
    have hhi : b.r = .cont → hi = ls.length := by
      intro hc
      rcases sel.right with h | h
      · rw [hc] at h; cases h
      · exact h.2
    -- what happens once the line has been printed
    have fin : ∀ pre : Bytes, lo ≤ i + 1 → i + 1 ≤ hi → ∃ w rest' a',
        (if b.r = Side.some ((i + 1 : Nat) : Int) then
            (pre ++ lineJoiner o (List.map BoF.bound t) ++
                (fwdLine o line ((i + 1 : Nat) : Int) (List.map BoF.bound t) false).fst,
              (fwdLine o line ((i + 1 : Nat) : Int) (List.map BoF.bound t) false).2.fst,
              (fwdLine o line ((i + 1 : Nat) : Int) (List.map BoF.bound t) false).2.snd)
          else (pre, BoF.bound b :: List.map BoF.bound t, true))
          = (w, rest'.map .bound, a') ∧ Good ls rest' ∧ Inv ls (i + 1) a' rest' ∧
        pre ++ (contText o.eol.byte (slice ls (i + 1) hi) ++ joinerOf o.eol.byte o.join t
            ++ linesOut o.eol.byte o.join ls t)
          = w ++ remOut o.eol.byte o.join ls (i + 1) a' rest' := by
      intro pre hlo hle
      by_cases hfin : b.r = Side.some ((i + 1 : Nat) : Int)
      · rw [if_pos hfin]
        have hhi1 : hi = i + 1 := by
          have := hbr (by rw [hfin]; simp)
          rw [hfin] at this
          simp only [Side.some.injEq] at this
          omega
        have hinvt : Inv ls i false t := by
          cases t with
          | nil => trivial
          | cons q t' =>
            cases hq : resolve q ls.length with
            | none => exact absurd hq (hg.res q (by simp))
            | some lh =>
              obtain ⟨lo', hi'⟩ := lh
              have selq := Sel.of_resolve (hg.pos q (by simp)) hq
              have hf : Follows b q := hg.asc.1
              unfold Follows at hf
              rw [hfin] at hf
              simp only at hf
              rw [selq.left] at hf
              exact ⟨lo', hi', hq, by simp only [Bool.false_eq_true, if_false]; omega⟩
        obtain ⟨w', rest', a', hf, hg', hinv', hrem⟩ := ih false hg.tail hinvt
        rw [hf]
        refine ⟨pre ++ lineJoiner o (List.map BoF.bound t) ++ w', rest', a', rfl, hg', hinv', ?_⟩
        rw [slice_eq_nil_of_le ls (by omega : hi ≤ i + 1), contText_nil, ← remOut_false _ _ _ i,
          hrem, lineJoiner_map]
        simp only [List.nil_append, List.append_assoc]
      · rw [if_neg hfin]
        refine ⟨pre, b :: t, true, rfl, hg, ⟨lo, hi, hres, ?_⟩, ?_⟩
        · simp only [if_true]
          refine ⟨hlo, fun hne => ?_⟩
          have := hbr hne
          rw [this] at hfin
          simp only [Side.some.injEq] at hfin
          omega
        · simp [remOut, headText, hres]
    by_cases hmatch : (b.matches ((i + 1 : Nat) : Int)).getD false = true
    · rw [if_pos hmatch]
      obtain ⟨h1, h2⟩ := hm.1 hmatch
      have hle : i + 1 ≤ hi := by
        rcases h2 with h | h
        · exact h
        · have := hhi h; omega
      obtain ⟨w, rest', a', hf, hg', hinv', hrem⟩ :=
        fin ((if addNl = true then [o.eol.byte] else []) ++ line) h1 hle
      refine ⟨w, rest', a', hf, hg', hinv', ?_⟩
      rw [← hrem]
      have hsl : slice ls i hi = line :: slice ls (i + 1) hi := slice_cons_of_drop hd (by omega)
      cases addNl with
      | true =>
        simp [remOut, headText, hres, hsl]
      | false =>
        simp only [Bool.false_eq_true, if_false] at hcond
        have : lo - 1 = i := by omega
        simp [remOut, headText, hres, this, hsl]
    · rw [if_neg hmatch]
      have hnm := fun h => hmatch (hm.2 h)
      cases addNl with
      | true =>
        exfalso
        simp only [if_true] at hcond
        apply hnm
        refine ⟨by omega, ?_⟩
        by_cases hc : b.r = .cont
        · exact Or.inr hc
        · exact Or.inl (by have := hcond.2 hc; omega)
      | false =>
        simp only [Bool.false_eq_true, if_false] at hcond
        have hlt : i + 1 < lo := by
          apply Classical.byContradiction
          intro hcon
          exact hnm ⟨by omega, Or.inl (by have := sel.lo_le; omega)⟩
        refine ⟨[], b :: t, false, rfl, hg, ⟨lo, hi, hres, by simp only [Bool.false_eq_true, if_false]; exact hlt⟩, ?_⟩
        rw [remOut_false, remOut_false]; rfl

/-- the read loop prints exactly what remains -/
theorem fwdLines_eq (o : Opt) (ls : List Bytes)
    (hutf : o.eol = .newline → ∀ l ∈ ls, validUtf8 l = true) :
    ∀ (ls' : List Bytes) (i : Nat) (rest : List UserBounds) (addNl : Bool),
      ls.drop i = ls' → Good ls rest → Inv ls i addNl rest →
      fwdLines o ls' (i : Int) (rest.map .bound) addNl
        = Run.ok (remOut o.eol.byte o.join ls i addNl rest ++ [o.eol.byte]) := by
  intro ls'
  induction ls' with
  | nil =>
    intro i rest addNl hd hg hinv
    have hlen : ls.length ≤ i := List.drop_eq_nil_iff.1 hd
    simp only [fwdLines]
    cases rest with
    | nil => rfl
    | cons b t =>
      obtain ⟨lo, hi, hres, hcond⟩ := hinv
      have sel := Sel.of_resolve (hg.pos b (by simp)) hres
      cases addNl with
      | false =>
        exfalso
        simp only [Bool.false_eq_true, if_false] at hcond
        have := sel.lo_le; have := sel.hi_le; omega
      | true =>
        simp only [if_true] at hcond
        have hc : b.r = .cont := by
          apply Classical.byContradiction
          intro hne
          have := hcond.2 hne; have := sel.hi_le; omega
        have ht : t = [] := by
          cases t with
          | nil => rfl
          | cons q t' =>
            have hf : Follows b q := hg.asc.1
            unfold Follows at hf; rw [hc] at hf; exact hf.elim
        subst ht
        simp [fwdEnd, hc, lineJoiner, remOut, headText, hres, slice_eq_nil_of_length_le ls hi hlen,
          joinerOf, linesOut, Run.pre, Run.ok]
  | cons line tl ih =>
    intro i rest addNl hd hg hinv
    simp only [fwdLines]
    trace_state
    sorry

end Tuc
