import Tuc.Props.C05
import Tuc.Props.C07
/-!
# C05, corollary for the property's own quantifier: "all valid-UTF-8 inputs"

`fwd_eq_spec` asks every *line* to be valid UTF-8 (what the line reader checks, one line at a
time, with either EOL).
A valid UTF-8 input has only valid lines, because the EOL (`\n` or NUL, both ASCII) never occurs
inside a multi-byte scalar value.  (Uses the segmentation lemmas of `Tuc.Props.C07`.)
-/
namespace Tuc
open Tuc.Spec

theorem validUtf8_splitRecords (eol : UInt8) (heol : eol < 0x80) (cs : List Bytes)
    (hcs : ∀ c ∈ cs, charLen c = some c.length) :
    ∀ cur : Bytes, validUtf8 cur.reverse = true →
      ∀ l ∈ splitRecords eol cur cs.flatten, validUtf8 l = true := by
  induction cs with
  | nil =>
    intro cur hcur l hl
    simp only [List.flatten_nil, splitRecords] at hl
    cases cur with
    | nil => simp at hl
    | cons a t => simp at hl; rw [hl]; simpa using hcur
  | cons c cs ih =>
    intro cur hcur l hl
    have hc := hcs c (by simp)
    have ih' := ih (fun c' hc' => hcs c' (List.mem_cons_of_mem _ hc'))
    rw [List.flatten_cons] at hl
    rcases charLen_bytes c hc with ⟨b, rfl, hb⟩ | hge
    · by_cases hbe : b = eol
      · subst hbe
        simp only [List.singleton_append, splitRecords, if_true, List.mem_cons] at hl
        rcases hl with rfl | hl
        · exact hcur
        · exact ih' [] (by decide) l hl
      · have hnot : eol ∉ [b] := by simp; exact fun h => hbe h.symm
        rw [splitRecords_append_noEol eol [b] hnot] at hl
        refine ih' _ ?_ l hl
        simp only [List.reverse_append, List.reverse_reverse]
        exact validUtf8_append _ _ hcur (by simpa using validUtf8_flatten_of_chars [[b]] (by simpa using hc))
    · have hnot : eol ∉ c := by
        intro hmem
        have := hge eol hmem
        rw [UInt8.le_iff_toNat_le] at this
        rw [UInt8.lt_iff_toNat_lt] at heol
        omega
      rw [splitRecords_append_noEol eol c hnot] at hl
      refine ih' _ ?_ l hl
      simp only [List.reverse_append, List.reverse_reverse]
      exact validUtf8_append _ _ hcur (by simpa using validUtf8_flatten_of_chars [c] (by simpa using hc))

/-- every line of a valid UTF-8 input is valid UTF-8 (for an ASCII EOL) -/
theorem validUtf8_records (eol : UInt8) (heol : eol < 0x80) (input : Bytes)
    (h : validUtf8 input = true) : ∀ l ∈ records eol input, validUtf8 l = true := by
  obtain ⟨cs, hcs⟩ := (validUtf8_iff input).1 h
  obtain ⟨rfl, hch⟩ := (utf8Chars_iff input cs).1 hcs
  exact validUtf8_splitRecords eol heol cs hch [] (by decide)

theorem EOL.byte_ascii (e : EOL) : e.byte < 0x80 := by cases e <;> decide

/-- **C05 for the property's quantifier**: every valid UTF-8 input other than the empty one or a
    lone EOL, every plain forward-only request resolvable on it, `--no-join` or not, `-z` or not. -/
theorem fwd_eq_spec_utf8 (o : Opt) (input : Bytes) (bs : List UserBounds)
    (hplain : o.bounds.list = bs.map .bound)
    (hfwd : isForwardOnly o.bounds.list = true)
    (hres : ∀ b ∈ bs, resolve b (records o.eol.byte input).length ≠ none)
    (hutf : validUtf8 input = true)
    (h0 : input ≠ []) (h1 : input ≠ [o.eol.byte])
    (hc : o.complement = false) :
    cutLinesForwardOnly o input = specLines (cfgOf o) input :=
  fwd_eq_spec o input bs hplain hfwd hres
    (validUtf8_records o.eol.byte (EOL.byte_ascii o.eol) input hutf) h0 h1 hc

end Tuc
