import Tuc.Model.CutStr
import Tuc.Model.FastLane
import Tuc.Model.Lines
import Tuc.Lemmas.Bounds
/-!
# C09 — negative indexes are the exact mirror of positive ones

`MirrorSide n s s'`: `s'` is `s`, or `s` is the negative index `-k` (`1 ≤ k ≤ n`) and `s'` is
`n + 1 - k`.  Any subset of the negative indexes of a bounds list may be rewritten
(`MirrorList`).  The theorems say that every function through which an engine looks at a bound
is invariant under that rewriting, and lift it to the output loops of the engines.
-/
namespace Tuc
open Tuc.Spec

inductive MirrorSide (n : Nat) : Side → Side → Prop
  | same (s : Side) : MirrorSide n s s
  | flip (k : Nat) (h1 : 1 ≤ k) (h2 : k ≤ n) : MirrorSide n (.some (-(k : Int))) (.some ((n : Int) + 1 - k))

structure MirrorBound (n : Nat) (b b' : UserBounds) : Prop where
  l : MirrorSide n b.l b'.l
  r : MirrorSide n b.r b'.r
  isLast : b'.isLast = b.isLast
  fallback : b'.fallback = b.fallback

inductive MirrorList (n : Nat) : List BoF → List BoF → Prop
  | nil : MirrorList n [] []
  | filler (f : Bytes) {t t' : List BoF} : MirrorList n t t' → MirrorList n (.filler f :: t) (.filler f :: t')
  | bound {b b' : UserBounds} {t t' : List BoF} : MirrorBound n b b' → MirrorList n t t' →
      MirrorList n (.bound b :: t) (.bound b' :: t')

theorem rangeStart_mirror {n : Nat} {s s' : Side} (h : MirrorSide n s s') :
    rangeStart s' n = rangeStart s n := by
  cases h with
  | same => rfl
  | flip k h1 h2 =>
    simp only [rangeStart]
    have a1 : ¬ ((n : Int) + 1 - k > n ∨ (n : Int) + 1 - k < -(n : Int)) := by omega
    have a2 : ¬ ((n : Int) + 1 - k < 0) := by omega
    have a3 : ¬ (-(k : Int) > n ∨ -(k : Int) < -(n : Int)) := by omega
    have a4 : -(k : Int) < 0 := by omega
    rw [if_neg a1, if_neg a2, if_neg a3, if_pos a4]
    congr 1; omega

theorem rangeEnd_mirror {n : Nat} {s s' : Side} (h : MirrorSide n s s') :
    rangeEnd s' n = rangeEnd s n := by
  cases h with
  | same => rfl
  | flip k h1 h2 =>
    simp only [rangeEnd]
    have a1 : ¬ ((n : Int) + 1 - k > n ∨ (n : Int) + 1 - k < -(n : Int)) := by omega
    have a2 : ¬ ((n : Int) + 1 - k < 0) := by omega
    have a3 : ¬ (-(k : Int) > n ∨ -(k : Int) < -(n : Int)) := by omega
    have a4 : -(k : Int) < 0 := by omega
    rw [if_neg a1, if_neg a2, if_neg a3, if_pos a4]
    congr 1; omega

/-- `try_into_range` does not see the difference between `-k` and `n+1-k`, on either side. -/
theorem tryIntoRange_mirror {n : Nat} {b b' : UserBounds} (h : MirrorBound n b b') :
    b'.tryIntoRange n = b.tryIntoRange n := by
  unfold UserBounds.tryIntoRange
  rw [rangeStart_mirror h.l, rangeEnd_mirror h.r]

/-- in particular `-1` is the last part and `-n` the first -/
theorem minus_one_is_last (n : Nat) (h : 1 ≤ n) :
    ({ l := .some (-1), r := .some (-1) } : UserBounds).tryIntoRange n = some (n - 1, n) := by
  have := tryIntoRange_mirror (n := n) (b := { l := .some (-1), r := .some (-1) })
    (b' := { l := .some ((n : Int) + 1 - 1), r := .some ((n : Int) + 1 - 1) })
    ⟨MirrorSide.flip 1 (by omega) h, MirrorSide.flip 1 (by omega) h, rfl, rfl⟩
  rw [← this]
  simp only [UserBounds.tryIntoRange, rangeStart, rangeEnd]
  have a1 : ¬ ((n : Int) + 1 - 1 > n ∨ (n : Int) + 1 - 1 < -(n : Int)) := by omega
  have a2 : ¬ ((n : Int) + 1 - 1 < 0) := by omega
  have a3 : ¬ ((n : Int) + 1 - 1 ≤ (n : Int) + 1 - 1 - 1) := by omega
  simp only [if_neg a1, if_neg a2, if_neg a3]
  congr 1
  simp only [Prod.mk.injEq]
  omega

theorem minus_n_is_first (n : Nat) (h : 1 ≤ n) :
    ({ l := .some (-(n : Int)), r := .some (-(n : Int)) } : UserBounds).tryIntoRange n = some (0, 1) := by
  simp only [UserBounds.tryIntoRange, rangeStart, rangeEnd]
  have a1 : ¬ (-(n : Int) > n ∨ -(n : Int) < -(n : Int)) := by omega
  have a2 : (-(n : Int) < 0) := by omega
  have a3 : ¬ ((n : Int) + -(n : Int) + 1 ≤ (n : Int) + -(n : Int)) := by omega
  simp only [if_neg a1, if_pos a2, if_neg a3]
  congr 1
  simp only [Prod.mk.injEq]
  omega

/-- general field engine: the output of a bound does not change -/
theorem outputBof_mirror {n : Nat} {b b' : UserBounds} (h : MirrorBound n b b')
    (line : Bytes) (fields : List Range) (opt : Opt) (c : Bool) :
    outputBof line fields n opt c (.bound b') = outputBof line fields n opt c (.bound b) := by
  simp only [outputBof, tryIntoRange_mirror h, h.isLast, h.fallback]

/-- general field engine (and `-c`, and the buffered `-l`): the whole output loop -/
theorem outputLoop_mirror {n : Nat} {bs bs' : List BoF} (h : MirrorList n bs bs')
    (line : Bytes) (fields : List Range) (opt : Opt) (c : Bool) :
    outputLoop line fields n opt c bs' = outputLoop line fields n opt c bs := by
  induction h with
  | nil => rfl
  | filler f _ ih => simp only [outputLoop, ih]
  | bound hb _ ih => simp only [outputLoop, ih, outputBof_mirror hb]

/-- fast lane: same scan result ⇒ same output -/
theorem fastOutputLoop_mirror {bs bs' : List BoF} (line : Bytes) (fields : List Nat) (opt : FastOpt)
    (h : MirrorList (fields.length - 1) bs bs') :
    fastOutputLoop line fields opt bs' = fastOutputLoop line fields opt bs := by
  induction h with
  | nil => rfl
  | filler f _ ih => simp only [fastOutputLoop, ih]
  | bound hb _ ih =>
    simp only [fastOutputLoop, ih, outputParts, tryIntoRange_mirror hb, hb.isLast, hb.fallback]

/-- byte mode: `n` is the number of bytes of the input -/
theorem cutBytesLoop_mirror {bs bs' : List BoF} (data : Bytes) (opt : Opt)
    (h : MirrorList data.length bs bs') :
    cutBytesLoop data opt bs' = cutBytesLoop data opt bs := by
  induction h with
  | nil => rfl
  | filler f _ ih => simp only [cutBytesLoop, ih]
  | bound hb _ ih => simp only [cutBytesLoop, ih, tryIntoRange_mirror hb, hb.fallback]

/-- the specification resolves a bound and its mirror to the same parts -/
theorem resolve_mirror {n : Nat} {b b' : UserBounds} (h : MirrorBound n b b')
    (hz : b.Nonzero) (hz' : b'.Nonzero) : resolve b' n = resolve b n := by
  have e1 := tryIntoRange_eq_resolve b n hz
  have e2 := tryIntoRange_eq_resolve b' n hz'
  rw [tryIntoRange_mirror h] at e2
  rw [e1] at e2
  -- the map (lo,hi) ↦ (lo-1,hi) is injective on resolved pairs (lo ≥ 1)
  cases h1 : resolve b n with
  | none =>
    cases h2 : resolve b' n with
    | none => rfl
    | some p => rw [h1, h2] at e2; simp at e2
  | some p =>
    cases h2 : resolve b' n with
    | none => rw [h1, h2] at e2; simp at e2
    | some q =>
      rw [h1, h2] at e2
      simp only [Option.map_some, Option.some.injEq, Prod.mk.injEq] at e2
      have hp : 1 ≤ p.1 := by
        unfold resolve at h1
        split at h1
        · split at h1
          · simp only [Option.some.injEq] at h1; subst h1; simp_all
          · cases h1
        · cases h1
      have hq : 1 ≤ q.1 := by
        unfold resolve at h2
        split at h2
        · split at h2
          · simp only [Option.some.injEq] at h2; subst h2; simp_all
          · cases h2
        · cases h2
      congr 1
      apply Prod.ext <;> omega

/-- non-vacuity: a list with two negative indexes, one of them rewritten -/
example : MirrorList 3 [.bound { l := .some (-1), r := .some (-1) }, .filler [0x78], .bound { l := .some (-3), r := .some 2 }]
    [.bound { l := .some 3, r := .some 3 }, .filler [0x78], .bound { l := .some (-3), r := .some 2 }] :=
  .bound ⟨MirrorSide.flip 1 (by omega) (by omega), MirrorSide.flip 1 (by omega) (by omega), rfl, rfl⟩
    (.filler _ (.bound ⟨.same _, .same _, rfl, rfl⟩ .nil))

end Tuc
