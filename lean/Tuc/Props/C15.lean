import Tuc.Model.CutStr
import Tuc.Spec.Record
import Tuc.Lemmas.Bounds
/-!
# C15 — `--complement` prints exactly what each bound leaves out

`UserBounds::complement` against the specification's `complementBound`: a bound resolving to
parts `lo … hi` of `n` is replaced, in place, by `1 … lo-1` (if any) followed by `hi+1 … n` (if
any); an unresolvable bound is kept; an empty complement fails.
-/
namespace Tuc
open Tuc.Spec

/-- the complement of a resolved range, in the specification's terms -/
theorem complement_eq_spec (b : UserBounds) (n : Nat) (hz : b.Nonzero) (lo hi : Nat)
    (h : resolve b n = some (lo, hi)) :
    b.complement n = some (complementBound b n) := by
  have hr := tryIntoRange_eq_resolve b n hz
  rw [h] at hr
  simp only [Option.map_some] at hr
  have hb := tryIntoRange_bounds b n (lo - 1) hi (by
    intro h0; have := hz.1; rw [h0] at this; exact this rfl) hr
  simp only [UserBounds.complement, hr, Option.map_some, complementBound, h]
  congr 1
  unfold complementStdRange
  have hlo : 1 ≤ lo := by
    unfold resolve at h
    split at h
    · split at h
      · simp only [Option.some.injEq, Prod.mk.injEq] at h; omega
      · cases h
    · cases h
  by_cases h1 : lo - 1 = 0
  · have hlo1 : ¬ (1 < lo) := by omega
    rw [h1]
    simp only [hlo1, if_false, List.nil_append]
    by_cases h2 : hi = n
    · have : ¬ (hi < n) := by omega
      simp [h2]
    · have : hi < n := by omega
      simp only [h2, if_false, this, if_true, List.map_cons, List.map_nil, UserBounds.ofRange]
  · have hlo1 : 1 < lo := by omega
    obtain ⟨k, hk⟩ : ∃ k, lo - 1 = k + 1 := ⟨lo - 2, by omega⟩
    rw [hk]
    simp only [hlo1, if_true]
    have e1 : ((0 : Nat) : Int) + 1 = 1 := by omega
    have e2 : ((k + 1 : Nat) : Int) = (lo : Int) - 1 := by omega
    by_cases h2 : hi = n
    · have : ¬ (hi < n) := by omega
      simp only [h2, if_true, List.map_cons, List.map_nil, UserBounds.ofRange, e1, e2]
      simp
    · have : hi < n := by omega
      simp only [h2, if_false, this, if_true, List.map_cons, List.map_nil, UserBounds.ofRange,
        List.cons_append, List.nil_append, e1, e2]

/-- `2` on 3 parts behaves as `1,3:` -/
example : ({ l := .some 2, r := .some 2 } : UserBounds).complement 3 =
    some [{ l := .some 1, r := .some 1 }, { l := .some 3, r := .some 3 }] := by decide

/-- a bound touching the first part yields only the other side -/
example : ({ l := .some 1, r := .some 2 } : UserBounds).complement 3 =
    some [{ l := .some 3, r := .some 3 }] := by decide

/-- the order of bounds is kept: the list-level complement is a `flatMap` -/
theorem complementList_order (xs ys : List BoF) (n : Nat) (f : BoF → List BoF) :
    (xs ++ ys).flatMap f = xs.flatMap f ++ ys.flatMap f := by
  simp [List.flatMap_append]

/-- a bound that covers every part leaves nothing out -/
theorem complement_full (b : UserBounds) (n : Nat) (h : b.tryIntoRange n = some (0, n)) :
    b.complement n = some [] := by
  simp [UserBounds.complement, h, complementStdRange]

/-- if the bounds leave nothing out, the run fails instead of printing data -/
theorem complement_empty_fails (l : List BoF) (n : Nat)
    (h : ∀ b ∈ boundsOnly l, b.tryIntoRange n = some (0, n)) :
    complementList l n = .fail := by
  have key : ∀ l : List BoF, (∀ b ∈ boundsOnly l, b.tryIntoRange n = some (0, n)) →
      boundsOnly (l.flatMap (complementBof n)) = [] := by
    intro l
    induction l with
    | nil => intro _; rfl
    | cons x t ih =>
      intro hx
      cases x with
      | filler f =>
        simp only [List.flatMap_cons, complementBof, List.singleton_append, boundsOnly]
        exact ih (fun b hb => hx b (by simpa [boundsOnly] using hb))
      | bound b =>
        have hb := complement_full b n (hx b (by simp [boundsOnly]))
        simp only [List.flatMap_cons, complementBof, hb, List.map_nil, List.nil_append]
        exact ih (fun b' hb' => hx b' (by simp [boundsOnly, hb']))
  simp only [complementList, key l h, List.isEmpty_nil, if_true]

/-- e.g. `1:` (the default) on any record: the complement is empty -/
example : complementList [.bound { l := .some 1, r := .cont }] 3 = .fail := by decide

/-- a record cut with `-m` first writes nothing of the data when the complement is empty
    (only the `[` of `--json`) -/
theorem emitRecord_complement_empty (line : Bytes) (fields : List Range) (opt : Opt) (c : Bool)
    (eol : Bytes) (hm : opt.complement = true) (hs : (opt.onlyDelimited && fields.length == 1) = false)
    (h : complementList opt.bounds.list fields.length = .fail) :
    emitRecord line fields opt c eol = (if opt.json then Run.ok [0x5B] else Run.empty).seq Run.fail := by
  simp only [emitRecord, hs, hm, h, Bool.false_eq_true, if_false, if_true]

end Tuc
