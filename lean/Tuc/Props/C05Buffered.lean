import Tuc.Lemmas.CutStrSpec
import Tuc.Props.C05Utf8
/-!
# C05 — line mode, the buffered algorithm (`cut_lines`) against the specification

`cut_lines` serves `-l` requests with negative or reordered indexes, or with `-m`: the whole
input minus one trailing EOL is one record, cut by the general engine (`cut_str`) with the EOL as
delimiter.

* `splitFields_stripEol` — the fields of that record are the lines of the input;
* `specRecord_stripEol`  — hence the per-record specification of that record is `specLines`;
* `cutLines_eq_specLines` — hence (C01, `cutStr_eq_spec_gen`) the buffered algorithm is
  `specLines`, for every valid UTF-8 input, every bounds list (fillers, fallbacks, negative and
  reordered indexes), `--no-join` or not, `-m` or not;
* `lines_algorithms_agree` — on a forward-only request both algorithms print the same;
* `readAndCutLines_eq_specLines` — whichever algorithm `read_and_cut_lines` picks.
-/
namespace Tuc
open Tuc.Spec

/-! ## the lines of the input are the fields of the input minus one trailing EOL -/

theorem isPrefixOf_singleton (e c : UInt8) (t : Bytes) :
    List.isPrefixOf [e] (c :: t) = (e == c) := by
  simp [List.isPrefixOf]

/-- an input that ends with the EOL: its lines are the fields of what precedes that EOL -/
theorem splitRecords_snoc_eol (eol : UInt8) : ∀ (x cur : Bytes),
    splitRecords eol cur (x ++ [eol]) = splitAux [eol] 0 cur.reverse x
  | [], cur => by simp [splitRecords, splitAux]
  | c :: t, cur => by
    simp only [List.cons_append, splitRecords, splitAux, isPrefixOf_singleton]
    by_cases hc : c = eol
    · subst hc
      simp [splitRecords_snoc_eol c t []]
    · have hne : (eol == c) = false := by
        rw [beq_eq_false_iff_ne]; exact fun h => hc h.symm
      rw [if_neg hc, hne]
      simp only [Bool.false_eq_true, if_false]
      rw [splitRecords_snoc_eol eol t (c :: cur)]
      simp

/-- an input that does not end with the EOL -/
theorem splitRecords_no_final_eol (eol : UInt8) : ∀ (x cur : Bytes),
    x.getLast? ≠ some eol → (x ≠ [] ∨ cur ≠ []) →
    splitRecords eol cur x = splitAux [eol] 0 cur.reverse x
  | [], cur, _, hne => by
    have hc : cur ≠ [] := by rcases hne with h | h; exact absurd rfl h; exact h
    have : cur.isEmpty = false := by cases cur with
      | nil => exact absurd rfl hc
      | cons _ _ => rfl
    simp [splitRecords, splitAux, this]
  | c :: t, cur, hlast, _ => by
    simp only [splitRecords, splitAux, isPrefixOf_singleton]
    have hlt : t ≠ [] → t.getLast? ≠ some eol := by
      intro ht
      rwa [List.getLast?_cons_of_ne_nil ht] at hlast
    by_cases hc : c = eol
    · subst hc
      have ht : t ≠ [] := by
        intro h; subst h; simp at hlast
      simp [splitRecords_no_final_eol c t [] (hlt ht) (Or.inl ht)]
    · have hne : (eol == c) = false := by
        rw [beq_eq_false_iff_ne]; exact fun h => hc h.symm
      rw [if_neg hc, hne]
      simp only [Bool.false_eq_true, if_false]
      have hl' : t.getLast? ≠ some eol := by
        by_cases ht : t = []
        · subst ht; simp
        · exact hlt ht
      rw [splitRecords_no_final_eol eol t (c :: cur) hl' (Or.inr (by simp))]
      simp

/-- **key lemma**: for every input but the empty one, the lines of the input are the fields
    (EOL-separated) of the input minus one trailing EOL -/
theorem splitFields_stripEol (eol : UInt8) (input : Bytes) (h0 : input ≠ []) :
    splitFields [eol] (stripEol eol input) = records eol input := by
  unfold stripEol records splitFields
  cases hl : input.getLast? with
  | none => simp at hl; exact absurd hl h0
  | some c =>
    simp only []
    by_cases hc : c = eol
    · rw [if_pos hc]
      subst hc
      obtain ⟨ys, rfl⟩ := List.getLast?_eq_some_iff.mp hl
      rw [List.dropLast_concat]
      exact (splitRecords_snoc_eol c ys []).symm
    · rw [if_neg hc]
      refine (splitRecords_no_final_eol eol input [] ?_ (Or.inl h0)).symm
      rw [hl]; intro h; exact hc (Option.some.inj h)

/-! ## the record specification of that record is the line specification -/

theorem stripEol_eq_nil_iff (eol : UInt8) (input : Bytes) :
    stripEol eol input = [] ↔ input = [] ∨ input = [eol] := by
  unfold stripEol
  cases hl : input.getLast? with
  | none => simp at hl; simp [hl]
  | some c =>
    obtain ⟨ys, rfl⟩ := List.getLast?_eq_some_iff.mp hl
    simp only []
    by_cases hc : c = eol
    · subst hc
      rw [if_pos rfl, List.dropLast_concat]
      constructor
      · intro h; subst h; right; rfl
      · rintro (h | h)
        · simp at h
        · simpa using h
    · rw [if_neg hc]
      constructor
      · intro h; simp at h
      · rintro (h | h)
        · simp at h
        · have := congrArg List.getLast? h
          simp at this
          exact absurd this hc

theorem specRecord_stripEol (o : Opt) (input : Bytes) (hd : o.delimiter = [o.eol.byte])
    (hty : o.boundsType = .lines) (hjson : o.json = false)
    (honly : o.onlyDelimited = false) (htrim : o.trim = none) (hg : o.greedyDelimiter = false)
    (hp : o.compressDelimiter = false) (hrepl : o.replaceDelimiter = none) :
    specRecord (cfgOf o) (stripEol o.eol.byte input) = specLines (cfgOf o) input := by
  rw [specRecord_fields _ o (Or.inr hty) hjson]
  have htr : ∀ l, trimmed o l = l := by intro l; simp [trimmed, htrim]
  rw [htr]
  have hsep : sepOf o = fun k => repeatBytes [(cfgOf o).eol] k := by
    funext k; simp [sepOf, hrepl, hd, cfgOf]
  have heol : (cfgOf o).eol = o.eol.byte := rfl
  unfold specLines
  by_cases h0 : input = []
  · subst h0
    simp [stripEol, records, splitRecords, tokOfParts, honly, cfgOf]
  by_cases h1 : input = [o.eol.byte]
  · subst h1
    simp [stripEol, records, splitRecords, tokOfParts, honly, cfgOf]
  have hne : stripEol o.eol.byte input ≠ [] := by
    intro h
    rcases (stripEol_eq_nil_iff _ _).mp h with h | h
    · exact h0 h
    · exact h1 h
  have hemp : (stripEol o.eol.byte input).isEmpty = false := by
    cases hs : stripEol o.eol.byte input with
    | nil => exact absurd hs hne
    | cons _ _ => rfl
  have hkey := splitFields_stripEol o.eol.byte input h0
  rw [hemp, hd, hg, hp, tokenize_plain, hkey, heol]
  cases hrec : records o.eol.byte input with
  | nil => exact absurd ((records_eq_nil_iff _ _).mp hrec) h0
  | cons p ps =>
    have hlone : ¬ (ps = [] ∧ p = []) := by
      rintro ⟨rfl, rfl⟩
      exact h1 ((records_eq_lone_iff _ _).mp hrec)
    have hcond : ((ps.map fun x => ((1 : Nat), x)).isEmpty && p.isEmpty) = false := by
      cases ps with
      | nil =>
        cases p with
        | nil => exact absurd ⟨rfl, rfl⟩ hlone
        | cons _ _ => rfl
      | cons _ _ => rfl
    simp only [tokOfParts, List.headD_cons, List.tail_cons, honly, Bool.false_and,
      Bool.false_eq_true, if_false, hcond, hsep]
    simp only [specBofs, cfgOf, hjson, hrepl, Option.getD_none]

/-! ## the buffered algorithm is the line specification -/

/-- **C05, the buffered algorithm, every input.**  With the EOL as delimiter and none of
    `-s -t -g -p -r` (`parse_args` ACCEPTS them together with `-l` and the buffered `cut_lines` obeys
    them — `-l 2,1 -r X` prints `bXa` — while `specLines` ignores them; C05 quantifies over
    `{--no-join, -z, -m}` only, so they are hypotheses here, not facts about `main`), `cut_lines`
    is `specLines` — output and status — on every valid UTF-8 input (the empty one and a lone EOL
    included), for every bounds list: fillers, fallbacks, negative and reordered indexes, `-m`,
    `--no-join`. -/
theorem cutLines_eq_specLines_all (o : Opt) (input : Bytes)
    (hd : o.delimiter = [o.eol.byte]) (hty : o.boundsType = .lines)
    (hre : o.regexBag = none) (hjson : o.json = false)
    (hz : AllNonzero o.bounds.list) (hL : LastMarked o.bounds.list)
    (honly : o.onlyDelimited = false) (htrim : o.trim = none) (hg : o.greedyDelimiter = false)
    (hp : o.compressDelimiter = false) (hrepl : o.replaceDelimiter = none)
    (hutf : validUtf8 input = true) :
    cutLines o input = specLines (cfgOf o) input := by
  unfold cutLines
  rw [hutf]
  simp only [Bool.not_true, Bool.false_eq_true, if_false]
  have hdne : o.delimiter ≠ [] := by rw [hd]; simp
  have h : (cutStr (stripEol o.eol.byte input) o [] [] [o.eol.byte]).1 =
      specRecord (cfgOf o) (stripEol o.eol.byte input) :=
    cutStr_eq_spec_gen o _ hdne hre (Or.inr hty) hjson hz hL
  rw [h]
  exact specRecord_stripEol o input hd hty hjson honly htrim hg hp hrepl

/-- **C05, the buffered algorithm** (the statement of the property: inputs other than the empty
    one or a lone EOL) -/
theorem cutLines_eq_specLines (o : Opt) (input : Bytes)
    (hd : o.delimiter = [o.eol.byte]) (hty : o.boundsType = .lines)
    (hre : o.regexBag = none) (hjson : o.json = false)
    (hz : AllNonzero o.bounds.list) (hL : LastMarked o.bounds.list)
    (honly : o.onlyDelimited = false) (htrim : o.trim = none) (hg : o.greedyDelimiter = false)
    (hp : o.compressDelimiter = false) (hrepl : o.replaceDelimiter = none)
    (hutf : validUtf8 input = true) (_h0 : input ≠ []) (_h1 : input ≠ [o.eol.byte]) :
    cutLines o input = specLines (cfgOf o) input :=
  cutLines_eq_specLines_all o input hd hty hre hjson hz hL honly htrim hg hp hrepl hutf

/-- the same for every bounds argument the parser accepts -/
theorem cutLines_eq_specLines_of_parsed (o : Opt) (input : Bytes) (arg : List Char)
    (hparse : boundsListOfString arg = .ok o.bounds)
    (hd : o.delimiter = [o.eol.byte]) (hty : o.boundsType = .lines)
    (hre : o.regexBag = none) (hjson : o.json = false)
    (honly : o.onlyDelimited = false) (htrim : o.trim = none) (hg : o.greedyDelimiter = false)
    (hp : o.compressDelimiter = false) (hrepl : o.replaceDelimiter = none)
    (hutf : validUtf8 input = true) :
    cutLines o input = specLines (cfgOf o) input :=
  have h := boundsListOfString_good arg o.bounds hparse
  cutLines_eq_specLines_all o input hd hty hre hjson h.1 h.2 honly htrim hg hp hrepl hutf

/-- input that is not UTF-8 is refused before anything is written -/
theorem cutLines_not_utf8 (o : Opt) (input : Bytes) (h : validUtf8 input = false) :
    cutLines o input = Run.fail := by
  simp [cutLines, h]

/-! ## the two algorithms agree -/

/-- **C05: both line algorithms print the same.**  For a plain forward-only request resolvable
    on the input (what `read_and_cut_lines` serves one line at a time), the buffered algorithm —
    which it would use had the request been written with a negative index or out of order —
    computes exactly the same run. -/
theorem lines_algorithms_agree (o : Opt) (input : Bytes) (bs : List UserBounds)
    (hplain : o.bounds.list = bs.map .bound)
    (hfwd : isForwardOnly o.bounds.list = true)
    (hres : ∀ b ∈ bs, resolve b (records o.eol.byte input).length ≠ none)
    (hL : LastMarked o.bounds.list)
    (hd : o.delimiter = [o.eol.byte]) (hty : o.boundsType = .lines)
    (hre : o.regexBag = none) (hjson : o.json = false)
    (honly : o.onlyDelimited = false) (htrim : o.trim = none) (hg : o.greedyDelimiter = false)
    (hp : o.compressDelimiter = false) (hrepl : o.replaceDelimiter = none)
    (hc : o.complement = false)
    (hutf : validUtf8 input = true) (h0 : input ≠ []) (h1 : input ≠ [o.eol.byte]) :
    readAndCutLines o input = cutLines o input := by
  have hz : AllNonzero o.bounds.list := by
    intro b hb
    rw [hplain] at hb
    obtain ⟨b', hb', hbb⟩ := List.mem_map.mp hb
    cases hbb
    exact nonzero_of_resolve (hres b hb')
  rw [cutLines_eq_specLines_all o input hd hty hre hjson hz hL honly htrim hg hp hrepl hutf]
  exact readAndCutLines_eq_spec o input bs hplain hfwd hres
    (validUtf8_records o.eol.byte (EOL.byte_ascii o.eol) input hutf) h0 h1 hc hp

/-- with `-m`, with `-p`, or when the request is not forward-only, `read_and_cut_lines` *is* the
    buffered algorithm -/
theorem readAndCutLines_buffered (o : Opt) (input : Bytes)
    (h : o.complement = true ∨ o.compressDelimiter = true ∨ isForwardOnly o.bounds.list = false) :
    readAndCutLines o input = cutLines o input := by
  unfold readAndCutLines
  rcases h with h | h | h <;> simp [h]

/-- **C05 with `-m`**: the complemented request is served by the buffered algorithm and is the
    specification's -/
theorem readAndCutLines_complement_eq_spec (o : Opt) (input : Bytes)
    (hc : o.complement = true)
    (hd : o.delimiter = [o.eol.byte]) (hty : o.boundsType = .lines)
    (hre : o.regexBag = none) (hjson : o.json = false)
    (hz : AllNonzero o.bounds.list) (hL : LastMarked o.bounds.list)
    (honly : o.onlyDelimited = false) (htrim : o.trim = none) (hg : o.greedyDelimiter = false)
    (hp : o.compressDelimiter = false) (hrepl : o.replaceDelimiter = none)
    (hutf : validUtf8 input = true) :
    readAndCutLines o input = specLines (cfgOf o) input := by
  rw [readAndCutLines_buffered o input (Or.inl hc)]
  exact cutLines_eq_specLines_all o input hd hty hre hjson hz hL honly htrim hg hp hrepl hutf

/-- **C05 for requests that are not forward-only** (negative or reordered indexes, mixed signs) -/
theorem readAndCutLines_not_forward_eq_spec (o : Opt) (input : Bytes)
    (hnf : isForwardOnly o.bounds.list = false)
    (hd : o.delimiter = [o.eol.byte]) (hty : o.boundsType = .lines)
    (hre : o.regexBag = none) (hjson : o.json = false)
    (hz : AllNonzero o.bounds.list) (hL : LastMarked o.bounds.list)
    (honly : o.onlyDelimited = false) (htrim : o.trim = none) (hg : o.greedyDelimiter = false)
    (hp : o.compressDelimiter = false) (hrepl : o.replaceDelimiter = none)
    (hutf : validUtf8 input = true) :
    readAndCutLines o input = specLines (cfgOf o) input := by
  rw [readAndCutLines_buffered o input (Or.inr (Or.inr hnf))]
  exact cutLines_eq_specLines_all o input hd hty hre hjson hz hL honly htrim hg hp hrepl hutf

/-- **C05, whichever algorithm is picked**: `read_and_cut_lines` is `specLines` — for a plain
    request resolvable on the input when it is forward-only and without `-m` (the hypotheses of
    the one-line-at-a-time theorem), for any request otherwise. -/
theorem readAndCutLines_eq_specLines (o : Opt) (input : Bytes)
    (hd : o.delimiter = [o.eol.byte]) (hty : o.boundsType = .lines)
    (hre : o.regexBag = none) (hjson : o.json = false)
    (hz : AllNonzero o.bounds.list) (hL : LastMarked o.bounds.list)
    (honly : o.onlyDelimited = false) (htrim : o.trim = none) (hg : o.greedyDelimiter = false)
    (hp : o.compressDelimiter = false) (hrepl : o.replaceDelimiter = none)
    (hutf : validUtf8 input = true) (h0 : input ≠ []) (h1 : input ≠ [o.eol.byte])
    (hfwdcase : o.complement = false → isForwardOnly o.bounds.list = true →
      ∃ bs : List UserBounds, o.bounds.list = bs.map .bound ∧
        ∀ b ∈ bs, resolve b (records o.eol.byte input).length ≠ none) :
    readAndCutLines o input = specLines (cfgOf o) input := by
  cases hc : o.complement with
  | true =>
    exact readAndCutLines_complement_eq_spec o input hc hd hty hre hjson hz hL honly htrim hg hp
      hrepl hutf
  | false =>
    cases hf : isForwardOnly o.bounds.list with
    | false =>
      exact readAndCutLines_not_forward_eq_spec o input hf hd hty hre hjson hz hL honly htrim hg hp
        hrepl hutf
    | true =>
      obtain ⟨bs, hplain, hres⟩ := hfwdcase hc hf
      exact readAndCutLines_eq_spec o input bs hplain hf hres
        (validUtf8_records o.eol.byte (EOL.byte_ascii o.eol) input hutf) h0 h1 hc hp

/-! ## executed instances -/

def c05bOpt (join m : Bool) (l : List BoF) : Opt :=
  { delimiter := [10], boundsType := .lines, join := join, complement := m,
    bounds := ⟨l, .cont⟩ }

/-- lines `""`, `a`, `bc` (a final EOL or not): `-l -1,1:2` joined is `bc⏎⏎a⏎`;
    `-m -l 2` is `⏎bc⏎`; `--no-join` glues the bounds -/
example :
    let l : List BoF := [.bound { l := .some (-1), r := .some (-1) },
                         .bound { l := .some 1, r := .some 2, isLast := true }]
    cutLines (c05bOpt true false l) [10, 97, 10, 98, 99, 10] = Run.ok [98, 99, 10, 10, 97, 10] ∧
    cutLines (c05bOpt true false l) [10, 97, 10, 98, 99] = Run.ok [98, 99, 10, 10, 97, 10] ∧
    specLines (cfgOf (c05bOpt true false l)) [10, 97, 10, 98, 99] = Run.ok [98, 99, 10, 10, 97, 10] ∧
    cutLines (c05bOpt false false l) [10, 97, 10, 98, 99] = Run.ok [98, 99, 10, 97, 10] ∧
    cutLines (c05bOpt true true [.bound { l := .some 2, r := .some 2, isLast := true }])
      [10, 97, 10, 98, 99] = Run.ok [10, 98, 99, 10] := by
  decide

end Tuc
