import Tuc.Props.C13Runs
import Tuc.Props.C02
/-!
# C13 at the level of runs — the fast lane

(Separate from `Tuc.Props.C13Runs` for historical reasons: `Tuc.Props.C02` and `Tuc.Props.C03Refine`
once declared the same name; since the renaming `Tuc.AllProps` imports every property file together.)
-/
namespace Tuc
open Tuc.Spec

/-- **C13, fast lane, the run.**  The fast lane's run is the general engine's (C02), which is the
    specification's (C01): a bound that does not resolve on some record and has no fallback at
    all fails the run, after the output of the records before it and of what the failing record
    printed before that bound. -/
theorem readAndCutFast_never_silent (o : Opt) (fo : FastOpt) (ho : fastOptOf o = some fo)
    (l : List BoF) (hfv : fromVec l = .ok o.bounds)
    (hz : AllNonzero o.bounds.list) (hL : LastMarked o.bounds.list) (input : Bytes)
    (before after : List Bytes) (r : Bytes)
    (hrec : records o.eol.byte input = before ++ r :: after)
    (tok : Tok) (pre post : List BoF) (b : UserBounds) (ht : recordTok (cfgOf o) r = some tok)
    (hs : (o.onlyDelimited && tok.numFields == 1) = false)
    (hb : o.bounds.list = pre ++ .bound b :: post)
    (h : resolve b tok.numFields = none) (hf : b.fallback = none) (hg : o.fallbackOob = none) :
    (readAndCutFast fo input).status = .fail ∧
    ((specRunRecords (cfgOf o) before).status = .ok →
      (readAndCutFast fo input).out =
        (specRunRecords (cfgOf o) before).out ++
          (emitThen (cfgOf o) tok (specSep (cfgOf o)) (specJoiner (cfgOf o))
            (rewriteList (cfgOf o) tok.numFields pre)).out) := by
  obtain ⟨⟨d, hd⟩, _, _, _, hjson, hty, _, hre⟩ := (fastOptOf_isSome_iff o).1 (by rw [ho]; rfl)
  have hre' : o.regexBag = none := by
    cases hr : o.regexBag with
    | none => rfl
    | some _ => rw [hr] at hre; cases hre
  rw [readAndCutFast_eq_readAndCutStr o fo ho l hfv hz input]
  exact readAndCutStr_never_silent o input (by rw [hd]; simp) hre' (Or.inl hty) hjson hz hL before
    after r hrec tok pre post b ht hs hb h hf hg

/-- `-d - -f 1,5,2` on `a-b-c⏎`: `a` is printed, then the run fails; with `-f 1,5=x,2` it does not -/
example :
    let o (l : List BoF) : Opt := { delimiter := [45], bounds := ⟨l, .cont⟩ }
    (fastOptOf (o [.bound { l := .some 1, r := .some 1 }, .bound { l := .some 5, r := .some 5 },
        .bound { l := .some 2, r := .some 2, isLast := true }])).map
      (readAndCutFast · [97, 45, 98, 45, 99, 10]) = some ⟨[97], .fail⟩ ∧
    (fastOptOf (o [.bound { l := .some 1, r := .some 1 },
        .bound { l := .some 5, r := .some 5, fallback := some [0x78] },
        .bound { l := .some 2, r := .some 2, isLast := true }])).map
      (readAndCutFast · [97, 45, 98, 45, 99, 10]) = some (Run.ok [97, 0x78, 98, 10]) := by
  decide

end Tuc
