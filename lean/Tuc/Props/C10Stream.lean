import Tuc.Model.Stream
import Tuc.Lemmas.Run
/-!
# C10 for `-M` — records are cut independently

"The output for A followed by B, where A ends with an EOL, is the output for A followed by the
output for B; if cutting A fails, cutting A‖B fails too and delivers exactly the same bytes."

Proved for the chunk machine and **every** read segmentation of A and of B (no hypothesis on the
bounds): the machine is run without its EOF step (`streamRunPrefix`), a run over `l ++ l'` is the
open run over `l` followed by the run over `l'` from the state reached, and the byte `eol`
resets the state to `{}` from any state whatsoever (`streamStep_eol_state`: empty record, end of
record with fallbacks, failed end of record, skip mode after the early stop).  `streamEof o {}`
writes nothing.
-/
namespace Tuc

/-- the chunk loop without "Handle EOF": what is written and the state reached -/
def streamRunPrefix (o : StreamOpt) : SState → List (UInt8 × Bool) → Run × SState
  | st, [] => (Run.empty, st)
  | st, (c, last) :: t =>
    ((streamStep o st c last).1.seq (streamRunPrefix o (streamStep o st c last).2 t).1,
     (streamRunPrefix o (streamStep o st c last).2 t).2)

theorem streamRun_cons' (o : StreamOpt) (st : SState) (c : UInt8) (t : Bool)
    (l : List (UInt8 × Bool)) :
    streamRun o st ((c, t) :: l) =
      (streamStep o st c t).1.seq (streamRun o (streamStep o st c t).2 l) := rfl

/-- a run over `l ++ l'` = the open run over `l`, then the run over `l'` from the state reached -/
theorem streamRun_append (o : StreamOpt) (l l' : List (UInt8 × Bool)) (st : SState) :
    streamRun o st (l ++ l') =
      (streamRunPrefix o st l).1.seq (streamRun o (streamRunPrefix o st l).2 l') := by
  induction l generalizing st with
  | nil => simp [streamRunPrefix]
  | cons x l ih =>
    obtain ⟨c, t⟩ := x
    rw [List.cons_append, streamRun_cons', ih]
    simp only [streamRunPrefix]
    rw [Run.seq_assoc]

/-- the state reached by the open run over `l ++ l'` -/
theorem streamRunPrefix_append_state (o : StreamOpt) (l l' : List (UInt8 × Bool)) (st : SState) :
    (streamRunPrefix o st (l ++ l')).2 = (streamRunPrefix o (streamRunPrefix o st l).2 l').2 := by
  induction l generalizing st with
  | nil => rfl
  | cons x l ih =>
    obtain ⟨c, t⟩ := x
    simp only [List.cons_append, streamRunPrefix]
    exact ih _

/-- **The EOL resets the machine**, from any state (also in skip mode after an early stop, also
    when the end of the record fails or panics — the run is then failed, see `…_of_fail`) -/
theorem streamStep_eol_state (o : StreamOpt) (st : SState) (t : Bool) :
    (streamStep o st o.eol.byte t).2 = {} := by
  unfold streamStep
  split
  · simp
  · simp only [if_true]
    split <;> rfl

/-- the coordinator's form: after an EOL byte that did not fail the state is `{}` -/
theorem stream_state_reset (o : StreamOpt) (st : SState) (c : UInt8) (t : Bool)
    (hc : c = o.eol.byte) (_hok : (streamStep o st c t).1.status = .ok) :
    (streamStep o st c t).2 = {} := by
  subst hc; exact streamStep_eol_state o st t

theorem streamEof_init (o : StreamOpt) : streamEof o {} = Run.empty := by
  simp [streamEof]

/-- an input that ends with an EOL leaves the machine in its initial state -/
theorem streamRunPrefix_eol_state (o : StreamOpt) (st : SState) (l : List (UInt8 × Bool))
    (a : Bytes) (h : l.map Prod.fst = a ++ [o.eol.byte]) :
    (streamRunPrefix o st l).2 = {} := by
  rw [List.map_eq_append_iff] at h
  obtain ⟨l₁, l₂, rfl, _, h2⟩ := h
  rw [List.map_eq_singleton_iff] at h2
  obtain ⟨x, rfl, hx⟩ := h2
  obtain ⟨c, t⟩ := x
  simp only at hx
  subst hx
  rw [streamRunPrefix_append_state]
  simp only [streamRunPrefix]
  exact streamStep_eol_state o _ t

/-- the closed run is the open run followed by the EOF step -/
theorem streamRun_eq_open (o : StreamOpt) (st : SState) (l : List (UInt8 × Bool)) :
    streamRun o st l = (streamRunPrefix o st l).1.seq (streamEof o (streamRunPrefix o st l).2) := by
  have := streamRun_append o l [] st
  rw [List.append_nil] at this
  exact this

theorem tagSegments_append (xs ys : List Bytes) :
    tagSegments (xs ++ ys) = tagSegments xs ++ tagSegments ys := by
  simp [tagSegments]

theorem tagSegment_map_fst (s : Bytes) : (tagSegment s).map Prod.fst = s := by
  induction s with
  | nil => rfl
  | cons c t ih =>
    cases t with
    | nil => rfl
    | cons d t' => simpa [tagSegment] using ih

theorem tagSegments_map_fst (segs : List Bytes) :
    (tagSegments segs).map Prod.fst = segs.flatten := by
  induction segs with
  | nil => rfl
  | cons s t ih =>
    simp only [tagSegments, List.flatMap_cons, List.map_append, List.flatten_cons] at ih ⊢
    rw [ih, tagSegment_map_fst]

/-- the tagged-list form, from any start state `st` and for a tail run from `{}` -/
theorem streamRun_append_eol (o : StreamOpt) (st : SState) (l l' : List (UInt8 × Bool))
    (a : Bytes) (h : l.map Prod.fst = a ++ [o.eol.byte]) :
    streamRun o st (l ++ l') = (streamRun o st l).seq (streamRun o {} l') := by
  rw [streamRun_append, streamRun_eq_open o st l, streamRunPrefix_eol_state o st l a h,
    streamEof_init, Run.seq_empty]

/-- **C10 (`-M`).**  If the reads `segsA` deliver an input that ends with an EOL, then cutting
    `segsA` followed by `segsB` = cutting `segsA`, then (if that went well) cutting `segsB`:
    output bytes and status.  Any segmentation on either side. -/
theorem cutBytesStream_append (o : StreamOpt) (segsA segsB : List Bytes) (a : Bytes)
    (h : segsA.flatten = a ++ [o.eol.byte]) :
    cutBytesStream o (segsA ++ segsB) = (cutBytesStream o segsA).seq (cutBytesStream o segsB) := by
  unfold cutBytesStream
  rw [tagSegments_append]
  exact streamRun_append_eol o {} _ _ a (by rw [tagSegments_map_fst, h])

/-- … and if cutting A fails (exit 1 or panic), cutting A‖B fails the same way and delivers
    exactly the same bytes -/
theorem cutBytesStream_append_of_fail (o : StreamOpt) (segsA segsB : List Bytes) (a : Bytes)
    (h : segsA.flatten = a ++ [o.eol.byte]) (hf : (cutBytesStream o segsA).status ≠ .ok) :
    cutBytesStream o (segsA ++ segsB) = cutBytesStream o segsA := by
  rw [cutBytesStream_append o segsA segsB a h, Run.seq_of_not_ok _ _ hf]

/-- … and if it succeeds, the outputs are concatenated and the status is that of B -/
theorem cutBytesStream_append_of_ok (o : StreamOpt) (segsA segsB : List Bytes) (a : Bytes)
    (h : segsA.flatten = a ++ [o.eol.byte]) (hok : (cutBytesStream o segsA).status = .ok) :
    (cutBytesStream o (segsA ++ segsB)).out = (cutBytesStream o segsA).out ++ (cutBytesStream o segsB).out ∧
    (cutBytesStream o (segsA ++ segsB)).status = (cutBytesStream o segsB).status := by
  rw [cutBytesStream_append o segsA segsB a h]
  exact ⟨Run.seq_out_of_ok hok, Run.seq_status_of_ok hok⟩

/-- also when no EOL ends A, failure is final: whatever follows, a failed prefix stays failed
    with the same bytes (the machine stops at the first error) -/
theorem streamRunPrefix_fail_final (o : StreamOpt) (st : SState) (l l' : List (UInt8 × Bool))
    (hf : (streamRunPrefix o st l).1.status ≠ .ok) :
    streamRun o st (l ++ l') = (streamRunPrefix o st l).1 := by
  rw [streamRun_append, Run.seq_of_not_ok _ _ hf]

end Tuc
