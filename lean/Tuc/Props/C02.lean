import Tuc.Model.CutStr
import Tuc.Model.FastLane
import Tuc.Lemmas.Run
import Tuc.Lemmas.Bounds
import Tuc.Lemmas.FastScan
/-!
# C02 — the one-byte fast path is indistinguishable from the general path

Main theorem: `readAndCutFast_eq_readAndCutStr`:
`fastOptOf o = some fo → fromVec l = .ok o.bounds → (no bound has the index 0) →
 readAndCutFast fo input = readAndCutStr o input` (same bytes, same status, every input).

Ingredients, in the order of the file:
* the eligibility test is exactly the documented domain (`fastOptOf_isSome_iff`, `fastOptOf_fields`);
* `StartsDescribe`: a start-offset vector and a range vector describe the same fields, and then a
  bound prints the same on both paths (`outputParts_eq_outputBof`);
* the `memchr` loop against `find_iter` (`Tuc/Lemmas/FastScan.lean`: `fastScan_noStop`,
  `fastScan_stop`), giving `fastScan_full` (no early stop: all the fields are described) and
  `fastScan_earlyStop` (stop after the `k`-th delimiter: exactly the first `k` fields are described);
* the early stop is harmless: `lastInteresting_spec` (a positive early-stop field `k` means every
  bound is positive, closed on the right, and `≤ k` there), `earlyStop_sound` (such a bound resolves
  the same against `k` and against the real number of fields), `outputBof_take`;
* one record (`cutStrFastLane_eq_cutStr`: trim via `fastTrim_eq_trimLiteral`, empty record, `-s`
  since `curr = 0 ⇔ one field`, output loop, eol), then the record loop.

The hypothesis "no index 0" is necessary (see the `example` after the main theorem); the parser
never produces the index 0.
-/
namespace Tuc

/-- the fast path is taken exactly for: a one-byte delimiter, field mode, and none of
    `-m -g -p --json -r -e` -/
theorem fastOptOf_isSome_iff (o : Opt) :
    (fastOptOf o).isSome ↔
      (∃ d, o.delimiter = [d]) ∧ o.complement = false ∧ o.greedyDelimiter = false ∧
      o.compressDelimiter = false ∧ o.json = false ∧ o.boundsType = .fields ∧
      o.replaceDelimiter = none ∧ o.regexBag.isSome = false := by
  unfold fastOptOf
  cases hd : o.delimiter with
  | nil => simp
  | cons d t =>
    cases t with
    | cons _ _ => simp
    | nil =>
      cases h1 : o.complement <;> cases h2 : o.greedyDelimiter <;> cases h3 : o.compressDelimiter <;>
        cases h4 : o.json <;> cases h5 : o.replaceDelimiter <;> cases h6 : o.regexBag <;>
        cases h7 : o.boundsType <;> simp

/-- the options are carried over unchanged -/
theorem fastOptOf_fields (o : Opt) (fo : FastOpt) (h : fastOptOf o = some fo) :
    o.delimiter = [fo.delimiter] ∧ fo.join = o.join ∧ fo.eol = o.eol ∧ fo.bounds = o.bounds ∧
    fo.onlyDelimited = o.onlyDelimited ∧ fo.trim = o.trim ∧ fo.fallbackOob = o.fallbackOob := by
  unfold fastOptOf at h
  cases hd : o.delimiter with
  | nil => simp [hd] at h
  | cons d t =>
    cases t with
    | cons _ _ => simp [hd] at h
    | nil =>
      simp only [hd] at h
      split at h
      · cases h
      · simp only [Option.some.injEq] at h
        subst h
        simp

/-- the fields described by a start-offset vector: `starts = [r₀.start, r₁.start, …, rₙ₋₁.start,
    rₙ₋₁.stop + 1]` where consecutive ranges are one delimiter byte apart -/
inductive StartsDescribe : List Nat → List Range → Prop
  | last (r : Range) : StartsDescribe [r.start, r.stop + 1] [r]
  | cons (r : Range) {ss : List Nat} {rs : List Range} :
      StartsDescribe ((r.stop + 1) :: ss) rs → StartsDescribe (r.start :: (r.stop + 1) :: ss) (r :: rs)

theorem StartsDescribe.length {ss : List Nat} {rs : List Range} (h : StartsDescribe ss rs) :
    ss.length = rs.length + 1 := by
  induction h with
  | last r => rfl
  | cons r _ ih => simp only [List.length_cons] at ih ⊢; omega

theorem StartsDescribe.start {ss : List Nat} {rs : List Range} (h : StartsDescribe ss rs)
    (i : Nat) (r : Range) (hi : rs[i]? = some r) : ss[i]? = some r.start := by
  induction h generalizing i with
  | last r0 =>
    cases i with
    | zero => simp at hi ⊢; rw [hi]
    | succ k => simp at hi
  | cons r0 _ ih =>
    cases i with
    | zero => simp at hi ⊢; rw [hi]
    | succ k =>
      simp only [List.getElem?_cons_succ] at hi ⊢
      exact ih k hi

theorem StartsDescribe.stop {ss : List Nat} {rs : List Range} (h : StartsDescribe ss rs)
    (i : Nat) (r : Range) (hi : rs[i]? = some r) : ss[i + 1]? = some (r.stop + 1) := by
  induction h generalizing i with
  | last r0 =>
    cases i with
    | zero => simp at hi ⊢; rw [hi]
    | succ k => simp at hi
  | cons r0 _ ih =>
    cases i with
    | zero => simp at hi ⊢; rw [hi]
    | succ k =>
      simp only [List.getElem?_cons_succ] at hi ⊢
      exact ih k hi

/-- **Per-bound agreement.**  When the start-offset vector of the fast path and the range vector
    of the general path describe the same fields, a bound prints the same bytes on both paths:
    same slice when it resolves, same fallback rule when it does not. -/
theorem outputParts_eq_outputBof (line : Bytes) (b : UserBounds) (starts : List Nat)
    (ranges : List Range) (o : Opt) (fo : FastOpt) (ho : fastOptOf o = some fo)
    (hd : StartsDescribe starts ranges) (hz : b.l ≠ .some 0) :
    outputParts line b starts fo = outputBof line ranges ranges.length o false (.bound b) := by
  obtain ⟨hdel, hj, _, _, _, _, hfb⟩ := fastOptOf_fields o fo ho
  have hlen := hd.length
  have hne : starts.isEmpty = false := by
    cases starts with
    | nil => simp at hlen
    | cons _ _ => rfl
  have hsome := (fastOptOf_isSome_iff o).1 (by rw [ho]; rfl)
  obtain ⟨_, _, _, _, hjson, hbt, hrepl, hre⟩ := hsome
  have hre' : o.regexBag = none := by
    cases h : o.regexBag with
    | none => rfl
    | some _ => rw [h] at hre; simp at hre
  unfold outputParts outputBof
  simp only [hne, Bool.false_eq_true, if_false, hlen, Nat.add_sub_cancel, hj, hfb]
  cases hr : b.tryIntoRange ranges.length with
  | none =>
    simp only [hrepl, Option.getD_none, hdel, hjson, writeMaybeAsJson, Bool.false_eq_true, if_false]
    cases b.fallback <;> cases o.fallbackOob <;> rfl
  | some p =>
    obtain ⟨s, e⟩ := p
    have hb := tryIntoRange_bounds b ranges.length s e hz hr
    have hs : s < ranges.length := by omega
    have he : e - 1 < ranges.length := by omega
    have h1 : ranges[s]? = some ranges[s] := List.getElem?_eq_getElem hs
    have h2 : ranges[e - 1]? = some ranges[e - 1] := List.getElem?_eq_getElem he
    have h3 := hd.start s _ h1
    have h4 := hd.stop (e - 1) _ h2
    have hee : e - 1 + 1 = e := by omega
    rw [hee] at h4
    simp only [h1, h2, h3, h4, Nat.add_sub_cancel]
    simp only [maybeReplaceDelimiter, hbt, hrepl, hjson, writeMaybeAsJson, hdel,
      Option.getD_none, Bool.false_eq_true, if_false]
    have : (1 ≤ ranges[e - 1].stop + 1 ∧ ranges[s].start ≤ ranges[e - 1].stop ∧
        ranges[e - 1].stop ≤ line.length) ↔
        (ranges[s].start ≤ ranges[e - 1].stop ∧ ranges[e - 1].stop ≤ line.length) := by
      constructor
      · intro h; exact h.2
      · intro h; exact ⟨by omega, h⟩
    by_cases hc : ranges[s].start ≤ ranges[e - 1].stop ∧ ranges[e - 1].stop ≤ line.length
    · rw [if_pos (this.2 hc), if_pos hc]
      simp
    · rw [if_neg (fun h => hc (this.1 h)), if_neg hc]

/-- non-vacuity: `a-bc` with delimiter `-`: starts `[0,2,5]` describe ranges `[0,1) [2,4)` -/
example : StartsDescribe [0, 2, 5] [⟨0, 1⟩, ⟨2, 4⟩] :=
  .cons ⟨0, 1⟩ (.last ⟨2, 4⟩)

/-! ## The scan of the fast path against the splitter of the general path -/

/-- start offsets `prev, i₁+1, …, iₘ+1, n+1` describe the ranges between the matches `i₁ … iₘ` -/
theorem startsDescribe_full (n : Nat) : ∀ (ms : List Nat) (prev : Nat),
    StartsDescribe (prev :: ms.map (· + 1) ++ [n + 1]) (rangesBetween 1 n prev ms) := by
  intro ms
  induction ms with
  | nil => intro prev; exact .last ⟨prev, n⟩
  | cons i t ih => intro prev; exact .cons ⟨prev, i⟩ (ih (i + 1))

/-- the first `k + 1` start offsets describe the first `k` ranges -/
theorem startsDescribe_take (n : Nat) : ∀ (ms : List Nat) (prev k : Nat), 1 ≤ k → k ≤ ms.length →
    StartsDescribe (prev :: (ms.take k).map (· + 1)) ((rangesBetween 1 n prev ms).take k) := by
  intro ms
  induction ms with
  | nil => intro prev k h1 h2; simp at h2; omega
  | cons i t ih =>
    intro prev k h1 h2
    obtain ⟨k', rfl⟩ : ∃ k', k = k' + 1 := ⟨k - 1, by omega⟩
    by_cases hk : k' = 0
    · subst hk
      exact .last ⟨prev, i⟩
    · simp only [List.take_succ_cons, List.map_cons, rangesBetween]
      exact .cons ⟨prev, i⟩ (ih (i + 1) k' (by omega) (by simpa using h2))

/-- **Item 2 (no early stop).**  When the early-stop field is not one of the delimiters of the
    record (`.cont`, an index `≤ 0`, or an index past the last delimiter), the scan visits every
    delimiter: with the fake end appended, the start offsets describe exactly the fields the
    general splitter finds, and `curr_field` ends as the number of fields minus one. -/
theorem fastScan_full (d : UInt8) (lif : Side) (line : Bytes) (hline : line ≠ [])
    (hno : ∀ j : Nat, 1 ≤ j → j < (fillWithFieldsLocations [] line [d]).length → lif ≠ .some j) :
    StartsDescribe (0 :: (fastScan d lif 0 0 line).1 ++ [line.length + 1])
      (fillWithFieldsLocations [] line [d]) ∧
    (fastScan d lif 0 0 line).2 = ((fillWithFieldsLocations [] line [d]).length : Int) - 1 := by
  rw [fill_single d line hline, rangesBetween_length] at hno ⊢
  have h := fastScan_noStop d lif line 0 0 (by
    intro j h1 h2
    simpa using hno j h1 (by omega))
  rw [h]
  refine ⟨startsDescribe_full _ _ _, ?_⟩
  simp only
  omega

/-- the three ways of not stopping early: an open early-stop field, an index `≤ 0`, or an index
    past the last delimiter of the record (`n` = number of fields) -/
theorem noStop_cases (lif : Side) (n : Nat)
    (h : lif = .cont ∨ ∃ v, lif = .some v ∧ (v ≤ 0 ∨ (n : Int) ≤ v)) :
    ∀ j : Nat, 1 ≤ j → j < n → lif ≠ .some j := by
  intro j h1 h2 he
  rcases h with h | ⟨v, h, hv⟩
  · rw [h] at he; cases he
  · rw [h] at he
    simp only [Side.some.injEq] at he
    omega

/-- **Item 3 (early stop).**  When the early-stop field `k` is one of the delimiters of the record
    (`1 ≤ k ≤` number of delimiters `=` number of fields `- 1`), the scan stops right after the
    `k`-th delimiter: `0 :: pushed` has exactly `k + 1` entries, they describe exactly the first
    `k` fields of the general splitter (the `(k+1)`-th start is the fake end of field `k`), and
    `curr_field` ends as `k`. -/
theorem fastScan_earlyStop (d : UInt8) (line : Bytes) (hline : line ≠ []) (k : Nat) (hk1 : 1 ≤ k)
    (hk : k < (fillWithFieldsLocations [] line [d]).length) :
    (0 :: (fastScan d (.some k) 0 0 line).1).length = k + 1 ∧
    StartsDescribe (0 :: (fastScan d (.some k) 0 0 line).1)
      ((fillWithFieldsLocations [] line [d]).take k) ∧
    (fastScan d (.some k) 0 0 line).2 = k := by
  rw [fill_single d line hline, rangesBetween_length] at hk
  rw [fill_single d line hline]
  have h := fastScan_stop d line 0 0 k hk1 (by omega)
  simp only [Int.zero_add] at h
  rw [h]
  refine ⟨?_, startsDescribe_take _ _ _ _ hk1 (by omega), rfl⟩
  simp only [List.length_cons, List.length_map, List.length_take]
  omega

/-- `a-b-c-d`, delimiter `-`, early stop at field 2: the scan pushes the starts of fields 2 and 3
    and stops; `[0, 2, 4]` describes exactly the first two fields `[0,1) [2,3)`. -/
example : fastScan 45 (.some 2) 0 0 [97, 45, 98, 45, 99, 45, 100] = ([2, 4], 2) := by decide
example : (fillWithFieldsLocations [] [97, 45, 98, 45, 99, 45, 100] [45]).take 2
    = [⟨0, 1⟩, ⟨2, 3⟩] := by decide
example : StartsDescribe (0 :: (fastScan 45 (.some 2) 0 0 [97, 45, 98, 45, 99, 45, 100]).1)
    ((fillWithFieldsLocations [] [97, 45, 98, 45, 99, 45, 100] [45]).take 2) :=
  (fastScan_earlyStop 45 _ (by decide) 2 (by decide) (by decide)).2.1
/-- without the early stop the same record gives all four fields plus the fake end -/
example : fastScan 45 .cont 0 0 [97, 45, 98, 45, 99, 45, 100] = ([2, 4, 6], 3) := by decide

/-! ## The output loops -/

theorem fastOutputLoop_eq (line : Bytes) (starts : List Nat) (ranges : List Range) (n : Nat)
    (o : Opt) (fo : FastOpt) (cw : Bool) : ∀ (list : List BoF),
    (∀ b, BoF.bound b ∈ list →
      outputParts line b starts fo = outputBof line ranges n o cw (.bound b)) →
    fastOutputLoop line starts fo list = outputLoop line ranges n o cw list := by
  intro list
  induction list with
  | nil => intro _; rfl
  | cons x t ih =>
    intro h
    have iht := ih (fun b hb => h b (by simp [hb]))
    cases x with
    | filler f => simp only [fastOutputLoop, outputLoop, outputBof, iht]
    | bound b => simp only [fastOutputLoop, outputLoop, iht, h b (by simp)]

/-- a bound that lies within the first `k` fields prints the same from the first `k` ranges as
    from all of them -/
theorem outputBof_take (line : Bytes) (ranges : List Range) (k : Nat) (hk : k ≤ ranges.length)
    (o : Opt) (cw : Bool) (b : UserBounds) (hw : b.Within k) :
    outputBof line (ranges.take k) k o cw (.bound b) =
      outputBof line ranges ranges.length o cw (.bound b) := by
  have hz : b.l ≠ .some 0 := by
    rcases hw.1 with h | ⟨u, h, hu⟩
    · rw [h]; simp
    · rw [h]; simp only [ne_eq, Side.some.injEq]; omega
  unfold outputBof
  simp only [← earlyStop_sound b k ranges.length hw hk]
  cases hr : b.tryIntoRange k with
  | none => rfl
  | some p =>
    obtain ⟨s, e⟩ := p
    have hb := tryIntoRange_bounds b k s e hz hr
    have h1 : (ranges.take k)[s]? = ranges[s]? := by
      rw [List.getElem?_take]; simp; omega
    have h2 : (ranges.take k)[e - 1]? = ranges[e - 1]? := by
      rw [List.getElem?_take]; simp; omega
    simp only [h1, h2]

/-! ## One record -/

/-- the record after `-t`: both paths trim the same bytes (item 1) -/
def trimmedBy (t : Option Trim) (line : Bytes) (d : UInt8) : Bytes :=
  match t with
  | some k => trimLiteral line k [d]
  | none => line

/-- proof-internal normal form of `cutStrFastLaneCore` on the trimmed record -/
def fastAfterTrim (buffer : Bytes) (opt : FastOpt) (lif : Side) : Run × Option (List Nat) :=
  if buffer.isEmpty then
    ((if !opt.onlyDelimited then Run.ok [opt.eol.byte] else Run.empty), none)
  else
    let sc := fastScan opt.delimiter lif 0 0 buffer
    if sc.2 == 0 && opt.onlyDelimited then (Run.empty, some (0 :: sc.1))
    else
      let fields := if Side.some sc.2 ≠ lif then 0 :: sc.1 ++ [buffer.length + 1] else 0 :: sc.1
      ((fastOutputLoop buffer fields opt opt.bounds.list).seq (Run.ok [opt.eol.byte]), some fields)

theorem cutStrFastLaneCore_eq (line : Bytes) (fo : FastOpt) (lif : Side) :
    cutStrFastLaneCore line fo lif = fastAfterTrim (trimmedBy fo.trim line fo.delimiter) fo lif := by
  unfold cutStrFastLaneCore fastAfterTrim trimmedBy
  cases fo.trim with
  | none => rfl
  | some k => simp only [fastTrim_eq_trimLiteral]

/-- proof-internal normal form of `cutStrCore` on the trimmed record, for an invocation that
    qualifies for the fast path: split on the one byte, `-s`, output loop, eol -/
def generalAfterTrim (buf : Bytes) (o : Opt) (d : UInt8) (eol : Bytes) : Run :=
  if buf.isEmpty then (if !o.onlyDelimited then Run.ok eol else Run.empty)
  else
    let fields := fillWithFieldsLocations [] buf [d]
    if o.onlyDelimited && fields.length == 1 then Run.empty
    else (outputLoop buf fields fields.length o false o.bounds.list).seq (Run.ok eol)

/-- what the general path does on an invocation that qualifies for the fast path: trim, split on
    the one byte, `-s`, output loop, eol — every other pass is switched off -/
theorem cutStrCore_fast (line : Bytes) (o : Opt) (fo : FastOpt) (ho : fastOptOf o = some fo)
    (eol : Bytes) :
    (cutStrCore line o eol).1 =
      generalAfterTrim (trimmedBy o.trim line fo.delimiter) o fo.delimiter eol := by
  obtain ⟨hdel, _, _, _, _, _, _⟩ := fastOptOf_fields o fo ho
  obtain ⟨_, hcompl, hgreedy, hcompress, hjson, hbt, hrepl, hre⟩ :=
    (fastOptOf_isSome_iff o).1 (by rw [ho]; rfl)
  have hre' : o.regexBag = none := by
    cases h : o.regexBag with
    | none => rfl
    | some _ => rw [h] at hre; simp at hre
  simp only [cutStrCore, emitRecord, generalAfterTrim, trimmedBy, hre', hcompl, hgreedy, hcompress,
    hjson, hbt, hrepl, hdel]
  cases o.trim with
  | none =>
    simp only
    by_cases hb : line.isEmpty = true
    · simp [hb]
    · simp [hb]
  | some k =>
    simp only
    by_cases hb : (trimLiteral line k [fo.delimiter]).isEmpty = true
    · simp [hb]
    · simp [hb]

/-- the two paths on a trimmed record -/
theorem fastAfterTrim_eq (o : Opt) (fo : FastOpt) (ho : fastOptOf o = some fo)
    (l : List BoF) (hfv : fromVec l = .ok o.bounds)
    (hnz : ∀ b, BoF.bound b ∈ o.bounds.list → b.Nonzero) (buf : Bytes) :
    (fastAfterTrim buf fo o.bounds.lastInteresting).1 =
      generalAfterTrim buf o fo.delimiter [o.eol.byte] := by
  obtain ⟨hdel, hj, heol, hbounds, hod, htrim, hfb⟩ := fastOptOf_fields o fo ho
  unfold fastAfterTrim generalAfterTrim
  rw [heol, hod, hbounds]
  by_cases hemp : buf.isEmpty = true
  · simp [hemp]
  · have hne : buf ≠ [] := by
      intro h; rw [h] at hemp; exact hemp rfl
    simp only [hemp, Bool.false_eq_true, if_false]
    have hn : 1 ≤ (fillWithFieldsLocations [] buf [fo.delimiter]).length := by
      rw [fill_single _ _ hne, rangesBetween_length]; omega
    have hz : ∀ b, BoF.bound b ∈ o.bounds.list → b.l ≠ .some 0 := by
      intro b hb h0
      have := (hnz b hb).1
      rw [h0] at this
      exact this rfl
    have hlif0 : o.bounds.lastInteresting ≠ .some 0 := by
      intro h0
      rcases lastInteresting_mem l o.bounds hfv with h | ⟨b, hb, hbr⟩
      · rw [h] at h0; cases h0
      · have := (hnz b hb).2
        rw [hbr, h0] at this
        exact this rfl
    by_cases hstop : ∃ k : Nat, 1 ≤ k ∧ k < (fillWithFieldsLocations [] buf [fo.delimiter]).length ∧
        o.bounds.lastInteresting = .some k
    · -- the scan stops after the `k`-th delimiter
      obtain ⟨k, hk1, hk, hl⟩ := hstop
      obtain ⟨hlen, hsd, hcur⟩ := fastScan_earlyStop fo.delimiter buf hne k hk1 hk
      have hw := lastInteresting_spec l o.bounds k hfv hl (by omega)
      rw [hl, hcur]
      have h1 : ((k : Int) == 0) = false := by
        simp only [beq_eq_false_iff_ne, ne_eq]; omega
      have h2 : ((fillWithFieldsLocations [] buf [fo.delimiter]).length == 1) = false := by
        simp only [beq_eq_false_iff_ne, ne_eq]; omega
      simp only [h1, h2, Bool.false_and, Bool.and_false, Bool.false_eq_true, if_false, ne_eq,
        not_true_eq_false]
      congr 1
      have hlen' : ((fillWithFieldsLocations [] buf [fo.delimiter]).take k).length = k := by
        rw [List.length_take]; omega
      rw [fastOutputLoop_eq buf _ ((fillWithFieldsLocations [] buf [fo.delimiter]).take k) k o fo
        false o.bounds.list]
      · -- the first `k` ranges are all these bounds need
        clear hsd hlen hcur
        have : ∀ list : List BoF, (∀ b, BoF.bound b ∈ list → b.Within k) →
            outputLoop buf ((fillWithFieldsLocations [] buf [fo.delimiter]).take k) k o false list =
            outputLoop buf (fillWithFieldsLocations [] buf [fo.delimiter])
              (fillWithFieldsLocations [] buf [fo.delimiter]).length o false list := by
          intro list
          induction list with
          | nil => intro _; rfl
          | cons x t ih =>
            intro h
            have iht := ih (fun b hb => h b (by simp [hb]))
            cases x with
            | filler f => simp only [outputLoop, outputBof, iht]
            | bound b =>
              simp only [outputLoop, iht]
              rw [outputBof_take buf _ k (by omega) o false b (h b (by simp))]
        exact this _ hw
      · intro b hb
        have := outputParts_eq_outputBof buf b _ _ o fo ho hsd (hz b hb)
        rw [hlen'] at this
        exact this
    · -- the scan visits every delimiter
      have hno : ∀ j : Nat, 1 ≤ j → j < (fillWithFieldsLocations [] buf [fo.delimiter]).length →
          o.bounds.lastInteresting ≠ .some j := by
        intro j h1 h2 h3
        exact hstop ⟨j, h1, h2, h3⟩
      obtain ⟨hsd, hcur⟩ := fastScan_full fo.delimiter o.bounds.lastInteresting buf hne hno
      rw [hcur]
      generalize hN : (fillWithFieldsLocations [] buf [fo.delimiter]).length = n at *
      have hne2 : Side.some ((n : Int) - 1) ≠ o.bounds.lastInteresting := by
        intro h
        by_cases h1 : n = 1
        · subst h1
          exact hlif0 (by rw [← h]; rfl)
        · have := hno (n - 1) (by omega) (by omega)
          apply this
          rw [← h]
          congr 1
          omega
      have h1 : (((n : Int) - 1) == 0) = (n == 1) := by
        by_cases h : n = 1
        · subst h; rfl
        · have e1 : (n == 1) = false := by simp [h]
          rw [e1]
          simp only [beq_eq_false_iff_ne, ne_eq]; omega
      simp only [h1, ne_eq, hne2, not_false_eq_true, if_true]
      rw [Bool.and_comm]
      by_cases hs : (o.onlyDelimited && n == 1) = true
      · simp only [hs, if_true]
      · simp only [hs, Bool.false_eq_true, if_false]
        congr 1
        have := fastOutputLoop_eq buf (0 :: (fastScan fo.delimiter o.bounds.lastInteresting 0 0 buf).1
          ++ [buf.length + 1]) (fillWithFieldsLocations [] buf [fo.delimiter]) n o fo false
          o.bounds.list (by
            intro b hb
            have := outputParts_eq_outputBof buf b _ _ o fo ho hsd (hz b hb)
            rw [hN] at this
            exact this)
        exact this

/-- **Item 6, one record.**  For an invocation that qualifies for the fast path, with a
    `fromVec`-built bounds list without the index 0 (what the parser produces), the fast path
    writes the same bytes and ends with the same status as the general path on every record —
    including the early stop at `lastInteresting`, empty records, `-s`, fallbacks and
    out-of-range reports. -/
theorem cutStrFastLane_eq_cutStr (o : Opt) (fo : FastOpt) (ho : fastOptOf o = some fo)
    (l : List BoF) (hfv : fromVec l = .ok o.bounds)
    (hnz : ∀ b, BoF.bound b ∈ o.bounds.list → b.Nonzero) (line : Bytes) :
    (cutStrFastLaneCore line fo o.bounds.lastInteresting).1 =
      (cutStrCore line o [o.eol.byte]).1 := by
  obtain ⟨_, _, _, _, _, htrim, _⟩ := fastOptOf_fields o fo ho
  rw [cutStrFastLaneCore_eq, cutStrCore_fast line o fo ho, htrim]
  exact fastAfterTrim_eq o fo ho l hfv hnz _

/-! ## The whole input -/

theorem fastRecords_eq_cutRecords (o : Opt) (fo : FastOpt) (ho : fastOptOf o = some fo)
    (l : List BoF) (hfv : fromVec l = .ok o.bounds)
    (hnz : ∀ b, BoF.bound b ∈ o.bounds.list → b.Nonzero) :
    ∀ (recs : List Bytes) (starts : List Nat) (fields : List Range) (buf : Bytes),
      fastRecords fo o.bounds.lastInteresting recs starts = cutRecords o recs fields buf := by
  intro recs
  induction recs with
  | nil => intro _ _ _; rfl
  | cons r t ih =>
    intro starts fields buf
    simp only [fastRecords, cutRecords, cutStrFastLane, cutStr]
    rw [cutStrFastLane_eq_cutStr o fo ho l hfv hnz r, ih]

/-- **C02.**  Whenever an invocation qualifies for the one-byte fast path, the fast path and the
    general path deliver the same bytes and the same exit status for every input. -/
theorem readAndCutFast_eq_readAndCutStr (o : Opt) (fo : FastOpt) (ho : fastOptOf o = some fo)
    (l : List BoF) (hfv : fromVec l = .ok o.bounds)
    (hnz : ∀ b, BoF.bound b ∈ o.bounds.list → b.Nonzero) (input : Bytes) :
    readAndCutFast fo input = readAndCutStr o input := by
  obtain ⟨_, _, heol, hbounds, _, _, _⟩ := fastOptOf_fields o fo ho
  unfold readAndCutFast readAndCutStr
  rw [heol, hbounds]
  exact fastRecords_eq_cutRecords o fo ho l hfv hnz _ _ _ _

/-- the hypothesis "no index 0" cannot be dropped: with the (unparsable) bound `0` and a record
    without delimiter, `lastInteresting = .some 0 = curr_field`, the fake end is not pushed, and the
    fast path panics where the general path prints the record -/
example :
    fromVec [.bound { l := .some 0, r := .some 0 }] =
      .ok { list := [.bound { l := .some 0, r := .some 0, isLast := true }],
            lastInteresting := .some 0 } ∧
    (fastOptOf { delimiter := [45], bounds :=
        { list := [.bound { l := .some 0, r := .some 0, isLast := true }],
          lastInteresting := .some 0 } }).map (fun fo => readAndCutFast fo [120, 10])
      = some Run.panic ∧
    readAndCutStr { delimiter := [45], bounds :=
        { list := [.bound { l := .some 0, r := .some 0, isLast := true }],
          lastInteresting := .some 0 } } [120, 10] = Run.ok [120, 10] := by
  decide

end Tuc
