import Tuc.Model.CutStr
import Tuc.Model.FastLane
import Tuc.Lemmas.Run
import Tuc.Lemmas.Bounds
import Tuc.Lemmas.FastScan
/-!
# C02 — the one-byte fast path is indistinguishable from the general path

Target: `fastOptOf opt = some fo → readAndCutFast fo input = readAndCutStr opt input`.
Proved so far: the eligibility test is exactly the documented domain; the two paths agree on
empty records and on `-s`; the per-bound output rule of the fast path is the general rule once
the start-offset vector and the range vector describe the same fields (`outputParts_eq_outputBof`).
Still open: `fastScan` against `findIter` (including the early stop), so the end-to-end statement
is carried by the direct oracle (both entry points on the same `Opt`, in-process).
-/
namespace Tuc

/-- the fast path is taken exactly for: a one-byte delimiter, field mode, and none of
    `-m -g -p --json -r -e` -/
theorem fastOptOf_isSome_iff (o : Opt) :
    (fastOptOf o).isSome ↔
      (∃ d, o.delimiter = [d]) ∧ o.complement = false ∧ o.greedyDelimiter = false ∧
      o.compressDelimiter = false ∧ o.json = false ∧ o.boundsType = .fields ∧
      o.replaceDelimiter = none ∧ o.regexBag.isSome = false := by
  unfold fastOptOf
  cases hd : o.delimiter with
  | nil => simp
  | cons d t =>
    cases t with
    | cons _ _ => simp
    | nil =>
      cases h1 : o.complement <;> cases h2 : o.greedyDelimiter <;> cases h3 : o.compressDelimiter <;>
        cases h4 : o.json <;> cases h5 : o.replaceDelimiter <;> cases h6 : o.regexBag <;>
        cases h7 : o.boundsType <;> simp

/-- the options are carried over unchanged -/
theorem fastOptOf_fields (o : Opt) (fo : FastOpt) (h : fastOptOf o = some fo) :
    o.delimiter = [fo.delimiter] ∧ fo.join = o.join ∧ fo.eol = o.eol ∧ fo.bounds = o.bounds ∧
    fo.onlyDelimited = o.onlyDelimited ∧ fo.trim = o.trim ∧ fo.fallbackOob = o.fallbackOob := by
  unfold fastOptOf at h
  cases hd : o.delimiter with
  | nil => simp [hd] at h
  | cons d t =>
    cases t with
    | cons _ _ => simp [hd] at h
    | nil =>
      simp only [hd] at h
      split at h
      · cases h
      · simp only [Option.some.injEq] at h
        subst h
        simp

/-- the fields described by a start-offset vector: `starts = [r₀.start, r₁.start, …, rₙ₋₁.start,
    rₙ₋₁.stop + 1]` where consecutive ranges are one delimiter byte apart -/
inductive StartsDescribe : List Nat → List Range → Prop
  | last (r : Range) : StartsDescribe [r.start, r.stop + 1] [r]
  | cons (r : Range) {ss : List Nat} {rs : List Range} :
      StartsDescribe ((r.stop + 1) :: ss) rs → StartsDescribe (r.start :: (r.stop + 1) :: ss) (r :: rs)

theorem StartsDescribe.length {ss : List Nat} {rs : List Range} (h : StartsDescribe ss rs) :
    ss.length = rs.length + 1 := by
  induction h with
  | last r => rfl
  | cons r _ ih => simp only [List.length_cons] at ih ⊢; omega

theorem StartsDescribe.start {ss : List Nat} {rs : List Range} (h : StartsDescribe ss rs)
    (i : Nat) (r : Range) (hi : rs[i]? = some r) : ss[i]? = some r.start := by
  induction h generalizing i with
  | last r0 =>
    cases i with
    | zero => simp at hi ⊢; rw [hi]
    | succ k => simp at hi
  | cons r0 _ ih =>
    cases i with
    | zero => simp at hi ⊢; rw [hi]
    | succ k =>
      simp only [List.getElem?_cons_succ] at hi ⊢
      exact ih k hi

theorem StartsDescribe.stop {ss : List Nat} {rs : List Range} (h : StartsDescribe ss rs)
    (i : Nat) (r : Range) (hi : rs[i]? = some r) : ss[i + 1]? = some (r.stop + 1) := by
  induction h generalizing i with
  | last r0 =>
    cases i with
    | zero => simp at hi ⊢; rw [hi]
    | succ k => simp at hi
  | cons r0 _ ih =>
    cases i with
    | zero => simp at hi ⊢; rw [hi]
    | succ k =>
      simp only [List.getElem?_cons_succ] at hi ⊢
      exact ih k hi

/-- **Per-bound agreement.**  When the start-offset vector of the fast path and the range vector
    of the general path describe the same fields, a bound prints the same bytes on both paths:
    same slice when it resolves, same fallback rule when it does not. -/
theorem outputParts_eq_outputBof (line : Bytes) (b : UserBounds) (starts : List Nat)
    (ranges : List Range) (o : Opt) (fo : FastOpt) (ho : fastOptOf o = some fo)
    (hd : StartsDescribe starts ranges) (hz : b.l ≠ .some 0) :
    outputParts line b starts fo = outputBof line ranges ranges.length o false (.bound b) := by
  obtain ⟨hdel, hj, _, _, _, _, hfb⟩ := fastOptOf_fields o fo ho
  have hlen := hd.length
  have hne : starts.isEmpty = false := by
    cases starts with
    | nil => simp at hlen
    | cons _ _ => rfl
  have hsome := (fastOptOf_isSome_iff o).1 (by rw [ho]; rfl)
  obtain ⟨_, _, _, _, hjson, hbt, hrepl, hre⟩ := hsome
  have hre' : o.regexBag = none := by
    cases h : o.regexBag with
    | none => rfl
    | some _ => rw [h] at hre; simp at hre
  unfold outputParts outputBof
  simp only [hne, Bool.false_eq_true, if_false, hlen, Nat.add_sub_cancel, hj, hfb]
  cases hr : b.tryIntoRange ranges.length with
  | none =>
    simp only [hrepl, Option.getD_none, hdel, hjson, writeMaybeAsJson, Bool.false_eq_true, if_false]
    cases b.fallback <;> cases o.fallbackOob <;> rfl
  | some p =>
    obtain ⟨s, e⟩ := p
    have hb := tryIntoRange_bounds b ranges.length s e hz hr
    have hs : s < ranges.length := by omega
    have he : e - 1 < ranges.length := by omega
    have h1 : ranges[s]? = some ranges[s] := List.getElem?_eq_getElem hs
    have h2 : ranges[e - 1]? = some ranges[e - 1] := List.getElem?_eq_getElem he
    have h3 := hd.start s _ h1
    have h4 := hd.stop (e - 1) _ h2
    have hee : e - 1 + 1 = e := by omega
    rw [hee] at h4
    simp only [h1, h2, h3, h4, Nat.add_sub_cancel]
    simp only [maybeReplaceDelimiter, hbt, hrepl, hjson, writeMaybeAsJson, hdel,
      Option.getD_none, Bool.false_eq_true, if_false]
    have : (1 ≤ ranges[e - 1].stop + 1 ∧ ranges[s].start ≤ ranges[e - 1].stop ∧
        ranges[e - 1].stop ≤ line.length) ↔
        (ranges[s].start ≤ ranges[e - 1].stop ∧ ranges[e - 1].stop ≤ line.length) := by
      constructor
      · intro h; exact h.2
      · intro h; exact ⟨by omega, h⟩
    by_cases hc : ranges[s].start ≤ ranges[e - 1].stop ∧ ranges[e - 1].stop ≤ line.length
    · rw [if_pos (this.2 hc), if_pos hc]
      simp
    · rw [if_neg (fun h => hc (this.1 h)), if_neg hc]

/-- non-vacuity: `a-bc` with delimiter `-`: starts `[0,2,5]` describe ranges `[0,1) [2,4)` -/
example : StartsDescribe [0, 2, 5] [⟨0, 1⟩, ⟨2, 4⟩] :=
  .cons ⟨0, 1⟩ (.last ⟨2, 4⟩)

/-! ## The scan of the fast path against the splitter of the general path -/

/-- start offsets `prev, i₁+1, …, iₘ+1, n+1` describe the ranges between the matches `i₁ … iₘ` -/
theorem startsDescribe_full (n : Nat) : ∀ (ms : List Nat) (prev : Nat),
    StartsDescribe (prev :: ms.map (· + 1) ++ [n + 1]) (rangesBetween 1 n prev ms) := by
  intro ms
  induction ms with
  | nil => intro prev; exact .last ⟨prev, n⟩
  | cons i t ih => intro prev; exact .cons ⟨prev, i⟩ (ih (i + 1))

/-- the first `k + 1` start offsets describe the first `k` ranges -/
theorem startsDescribe_take (n : Nat) : ∀ (ms : List Nat) (prev k : Nat), 1 ≤ k → k ≤ ms.length →
    StartsDescribe (prev :: (ms.take k).map (· + 1)) ((rangesBetween 1 n prev ms).take k) := by
  intro ms
  induction ms with
  | nil => intro prev k h1 h2; simp at h2; omega
  | cons i t ih =>
    intro prev k h1 h2
    obtain ⟨k', rfl⟩ : ∃ k', k = k' + 1 := ⟨k - 1, by omega⟩
    by_cases hk : k' = 0
    · subst hk
      exact .last ⟨prev, i⟩
    · simp only [List.take_succ_cons, List.map_cons, rangesBetween]
      exact .cons ⟨prev, i⟩ (ih (i + 1) k' (by omega) (by simpa using h2))

/-- **Item 2 (no early stop).**  When the early-stop field is not one of the delimiters of the
    record (`.cont`, an index `≤ 0`, or an index past the last delimiter), the scan visits every
    delimiter: with the fake end appended, the start offsets describe exactly the fields the
    general splitter finds, and `curr_field` ends as the number of fields minus one. -/
theorem fastScan_full (d : UInt8) (lif : Side) (line : Bytes) (hline : line ≠ [])
    (hno : ∀ j : Nat, 1 ≤ j → j < (fillWithFieldsLocations [] line [d]).length → lif ≠ .some j) :
    StartsDescribe (0 :: (fastScan d lif 0 0 line).1 ++ [line.length + 1])
      (fillWithFieldsLocations [] line [d]) ∧
    (fastScan d lif 0 0 line).2 = ((fillWithFieldsLocations [] line [d]).length : Int) - 1 := by
  rw [fill_single d line hline, rangesBetween_length] at hno ⊢
  have h := fastScan_noStop d lif line 0 0 (by
    intro j h1 h2
    simpa using hno j h1 (by omega))
  rw [h]
  refine ⟨startsDescribe_full _ _ _, ?_⟩
  simp only
  omega

/-- **Item 3 (early stop).**  When the early-stop field `k` is one of the delimiters of the record
    (`1 ≤ k ≤` number of delimiters `=` number of fields `- 1`), the scan stops right after the
    `k`-th delimiter: `0 :: pushed` has exactly `k + 1` entries, they describe exactly the first
    `k` fields of the general splitter (the `(k+1)`-th start is the fake end of field `k`), and
    `curr_field` ends as `k`. -/
theorem fastScan_earlyStop (d : UInt8) (line : Bytes) (hline : line ≠ []) (k : Nat) (hk1 : 1 ≤ k)
    (hk : k < (fillWithFieldsLocations [] line [d]).length) :
    (0 :: (fastScan d (.some k) 0 0 line).1).length = k + 1 ∧
    StartsDescribe (0 :: (fastScan d (.some k) 0 0 line).1)
      ((fillWithFieldsLocations [] line [d]).take k) ∧
    (fastScan d (.some k) 0 0 line).2 = k := by
  rw [fill_single d line hline, rangesBetween_length] at hk
  rw [fill_single d line hline]
  have h := fastScan_stop d line 0 0 k hk1 (by omega)
  simp only [Int.zero_add] at h
  rw [h]
  refine ⟨?_, startsDescribe_take _ _ _ _ hk1 (by omega), rfl⟩
  simp only [List.length_cons, List.length_map, List.length_take]
  omega

/-- `a-b-c-d`, delimiter `-`, early stop at field 2: the scan pushes the starts of fields 2 and 3
    and stops; `[0, 2, 4]` describes exactly the first two fields `[0,1) [2,3)`. -/
example : fastScan 45 (.some 2) 0 0 [97, 45, 98, 45, 99, 45, 100] = ([2, 4], 2) := by decide
example : (fillWithFieldsLocations [] [97, 45, 98, 45, 99, 45, 100] [45]).take 2
    = [⟨0, 1⟩, ⟨2, 3⟩] := by decide
example : StartsDescribe (0 :: (fastScan 45 (.some 2) 0 0 [97, 45, 98, 45, 99, 45, 100]).1)
    ((fillWithFieldsLocations [] [97, 45, 98, 45, 99, 45, 100] [45]).take 2) :=
  (fastScan_earlyStop 45 _ (by decide) 2 (by decide) (by decide)).2.1
/-- without the early stop the same record gives all four fields plus the fake end -/
example : fastScan 45 .cont 0 0 [97, 45, 98, 45, 99, 45, 100] = ([2, 4, 6], 3) := by decide

/-! ## The output loops -/

theorem fastOutputLoop_eq (line : Bytes) (starts : List Nat) (ranges : List Range) (n : Nat)
    (o : Opt) (fo : FastOpt) (cw : Bool) : ∀ (list : List BoF),
    (∀ b, BoF.bound b ∈ list →
      outputParts line b starts fo = outputBof line ranges n o cw (.bound b)) →
    fastOutputLoop line starts fo list = outputLoop line ranges n o cw list := by
  intro list
  induction list with
  | nil => intro _; rfl
  | cons x t ih =>
    intro h
    have iht := ih (fun b hb => h b (by simp [hb]))
    cases x with
    | filler f => simp only [fastOutputLoop, outputLoop, outputBof, iht]
    | bound b => simp only [fastOutputLoop, outputLoop, iht, h b (by simp)]

/-- a bound that lies within the first `k` fields prints the same from the first `k` ranges as
    from all of them -/
theorem outputBof_take (line : Bytes) (ranges : List Range) (k : Nat) (hk : k ≤ ranges.length)
    (o : Opt) (cw : Bool) (b : UserBounds) (hw : b.Within k) :
    outputBof line (ranges.take k) k o cw (.bound b) =
      outputBof line ranges ranges.length o cw (.bound b) := by
  have hz : b.l ≠ .some 0 := by
    rcases hw.1 with h | ⟨u, h, hu⟩
    · rw [h]; simp
    · rw [h]; simp only [ne_eq, Side.some.injEq]; omega
  unfold outputBof
  simp only [← earlyStop_sound b k ranges.length hw hk]
  cases hr : b.tryIntoRange k with
  | none => rfl
  | some p =>
    obtain ⟨s, e⟩ := p
    have hb := tryIntoRange_bounds b k s e hz hr
    have h1 : (ranges.take k)[s]? = ranges[s]? := by
      rw [List.getElem?_take]; simp; omega
    have h2 : (ranges.take k)[e - 1]? = ranges[e - 1]? := by
      rw [List.getElem?_take]; simp; omega
    simp only [h1, h2]

/-! ## One record -/

/-- what the general path does on an invocation that qualifies for the fast path: trim, split on
    the one byte, `-s`, output loop, eol — every other pass is switched off -/
theorem cutStrCore_fast (line : Bytes) (o : Opt) (fo : FastOpt) (ho : fastOptOf o = some fo)
    (eol : Bytes) :
    (cutStrCore line o eol).1 =
      (let buf := match o.trim with
        | some k => trimLiteral line k [fo.delimiter]
        | none => line
      if buf.isEmpty then (if !o.onlyDelimited then Run.ok eol else Run.empty)
      else
        let fields := fillWithFieldsLocations [] buf [fo.delimiter]
        if o.onlyDelimited && fields.length == 1 then Run.empty
        else (outputLoop buf fields fields.length o false o.bounds.list).seq (Run.ok eol)) := by
  obtain ⟨hdel, _, _, _, _, _, _⟩ := fastOptOf_fields o fo ho
  obtain ⟨_, hcompl, hgreedy, hcompress, hjson, hbt, hrepl, hre⟩ :=
    (fastOptOf_isSome_iff o).1 (by rw [ho]; rfl)
  have hre' : o.regexBag = none := by
    cases h : o.regexBag with
    | none => rfl
    | some _ => rw [h] at hre; simp at hre
  simp only [cutStrCore, emitRecord, hre', hcompl, hgreedy, hcompress, hjson, hbt, hrepl, hdel]
  cases o.trim with
  | none =>
    simp only
    by_cases hb : line.isEmpty = true
    · simp [hb]
    · simp [hb]
  | some k =>
    simp only
    generalize trimLiteral line k [fo.delimiter] = buf
    by_cases hb : buf.isEmpty = true
    · simp [hb]
    · simp [hb]

end Tuc
