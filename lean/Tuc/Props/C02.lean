import Tuc.Model.CutStr
import Tuc.Model.FastLane
import Tuc.Lemmas.Run
import Tuc.Lemmas.Bounds
/-!
# C02 — the one-byte fast path is indistinguishable from the general path

Target: `fastOptOf opt = some fo → readAndCutFast fo input = readAndCutStr opt input`.
Proved so far: the eligibility test is exactly the documented domain; the two paths agree on
empty records and on `-s`; the per-bound output rule of the fast path is the general rule once
the start-offset vector and the range vector describe the same fields (`outputParts_eq_outputBof`).
Still open: `fastScan` against `findIter` (including the early stop), so the end-to-end statement
is carried by the direct oracle (both entry points on the same `Opt`, in-process).
-/
namespace Tuc

/-- the fast path is taken exactly for: a one-byte delimiter, field mode, and none of
    `-m -g -p --json -r -e` -/
theorem fastOptOf_isSome_iff (o : Opt) :
    (fastOptOf o).isSome ↔
      (∃ d, o.delimiter = [d]) ∧ o.complement = false ∧ o.greedyDelimiter = false ∧
      o.compressDelimiter = false ∧ o.json = false ∧ o.boundsType = .fields ∧
      o.replaceDelimiter = none ∧ o.regexBag.isSome = false := by
  unfold fastOptOf
  cases hd : o.delimiter with
  | nil => simp
  | cons d t =>
    cases t with
    | cons _ _ => simp
    | nil =>
      cases h1 : o.complement <;> cases h2 : o.greedyDelimiter <;> cases h3 : o.compressDelimiter <;>
        cases h4 : o.json <;> cases h5 : o.replaceDelimiter <;> cases h6 : o.regexBag <;>
        cases h7 : o.boundsType <;> simp

/-- the options are carried over unchanged -/
theorem fastOptOf_fields (o : Opt) (fo : FastOpt) (h : fastOptOf o = some fo) :
    o.delimiter = [fo.delimiter] ∧ fo.join = o.join ∧ fo.eol = o.eol ∧ fo.bounds = o.bounds ∧
    fo.onlyDelimited = o.onlyDelimited ∧ fo.trim = o.trim ∧ fo.fallbackOob = o.fallbackOob := by
  unfold fastOptOf at h
  cases hd : o.delimiter with
  | nil => simp [hd] at h
  | cons d t =>
    cases t with
    | cons _ _ => simp [hd] at h
    | nil =>
      simp only [hd] at h
      split at h
      · cases h
      · simp only [Option.some.injEq] at h
        subst h
        simp

/-- the fields described by a start-offset vector: `starts = [r₀.start, r₁.start, …, rₙ₋₁.start,
    rₙ₋₁.stop + 1]` where consecutive ranges are one delimiter byte apart -/
inductive StartsDescribe : List Nat → List Range → Prop
  | last (r : Range) : StartsDescribe [r.start, r.stop + 1] [r]
  | cons (r : Range) {ss : List Nat} {rs : List Range} :
      StartsDescribe ((r.stop + 1) :: ss) rs → StartsDescribe (r.start :: (r.stop + 1) :: ss) (r :: rs)

theorem StartsDescribe.length {ss : List Nat} {rs : List Range} (h : StartsDescribe ss rs) :
    ss.length = rs.length + 1 := by
  induction h with
  | last r => rfl
  | cons r _ ih => simp only [List.length_cons] at ih ⊢; omega

theorem StartsDescribe.start {ss : List Nat} {rs : List Range} (h : StartsDescribe ss rs)
    (i : Nat) (r : Range) (hi : rs[i]? = some r) : ss[i]? = some r.start := by
  induction h generalizing i with
  | last r0 =>
    cases i with
    | zero => simp at hi ⊢; rw [hi]
    | succ k => simp at hi
  | cons r0 _ ih =>
    cases i with
    | zero => simp at hi ⊢; rw [hi]
    | succ k =>
      simp only [List.getElem?_cons_succ] at hi ⊢
      exact ih k hi

theorem StartsDescribe.stop {ss : List Nat} {rs : List Range} (h : StartsDescribe ss rs)
    (i : Nat) (r : Range) (hi : rs[i]? = some r) : ss[i + 1]? = some (r.stop + 1) := by
  induction h generalizing i with
  | last r0 =>
    cases i with
    | zero => simp at hi ⊢; rw [hi]
    | succ k => simp at hi
  | cons r0 _ ih =>
    cases i with
    | zero => simp at hi ⊢; rw [hi]
    | succ k =>
      simp only [List.getElem?_cons_succ] at hi ⊢
      exact ih k hi

/-- **Per-bound agreement.**  When the start-offset vector of the fast path and the range vector
    of the general path describe the same fields, a bound prints the same bytes on both paths:
    same slice when it resolves, same fallback rule when it does not. -/
theorem outputParts_eq_outputBof (line : Bytes) (b : UserBounds) (starts : List Nat)
    (ranges : List Range) (o : Opt) (fo : FastOpt) (ho : fastOptOf o = some fo)
    (hd : StartsDescribe starts ranges) (hz : b.l ≠ .some 0) :
    outputParts line b starts fo = outputBof line ranges ranges.length o false (.bound b) := by
  obtain ⟨hdel, hj, _, _, _, _, hfb⟩ := fastOptOf_fields o fo ho
  have hlen := hd.length
  have hne : starts.isEmpty = false := by
    cases starts with
    | nil => simp at hlen
    | cons _ _ => rfl
  have hsome := (fastOptOf_isSome_iff o).1 (by rw [ho]; rfl)
  obtain ⟨_, _, _, _, hjson, hbt, hrepl, hre⟩ := hsome
  have hre' : o.regexBag = none := by
    cases h : o.regexBag with
    | none => rfl
    | some _ => rw [h] at hre; simp at hre
  unfold outputParts outputBof
  simp only [hne, Bool.false_eq_true, if_false, hlen, Nat.add_sub_cancel, hj, hfb]
  cases hr : b.tryIntoRange ranges.length with
  | none =>
    simp only [hrepl, Option.getD_none, hdel, hjson, writeMaybeAsJson, Bool.false_eq_true, if_false]
    cases b.fallback <;> cases o.fallbackOob <;> rfl
  | some p =>
    obtain ⟨s, e⟩ := p
    have hb := tryIntoRange_bounds b ranges.length s e hz hr
    have hs : s < ranges.length := by omega
    have he : e - 1 < ranges.length := by omega
    have h1 : ranges[s]? = some ranges[s] := List.getElem?_eq_getElem hs
    have h2 : ranges[e - 1]? = some ranges[e - 1] := List.getElem?_eq_getElem he
    have h3 := hd.start s _ h1
    have h4 := hd.stop (e - 1) _ h2
    have hee : e - 1 + 1 = e := by omega
    rw [hee] at h4
    simp only [h1, h2, h3, h4, Nat.add_sub_cancel]
    simp only [maybeReplaceDelimiter, hbt, hrepl, hjson, writeMaybeAsJson, hdel,
      Option.getD_none, Bool.false_eq_true, if_false]
    have : (1 ≤ ranges[e - 1].stop + 1 ∧ ranges[s].start ≤ ranges[e - 1].stop ∧
        ranges[e - 1].stop ≤ line.length) ↔
        (ranges[s].start ≤ ranges[e - 1].stop ∧ ranges[e - 1].stop ≤ line.length) := by
      constructor
      · intro h; exact h.2
      · intro h; exact ⟨by omega, h⟩
    by_cases hc : ranges[s].start ≤ ranges[e - 1].stop ∧ ranges[e - 1].stop ≤ line.length
    · rw [if_pos (this.2 hc), if_pos hc]
      simp
    · rw [if_neg (fun h => hc (this.1 h)), if_neg hc]

/-- non-vacuity: `a-bc` with delimiter `-`: starts `[0,2,5]` describe ranges `[0,1) [2,4)` -/
example : StartsDescribe [0, 2, 5] [⟨0, 1⟩, ⟨2, 4⟩] :=
  .cons ⟨0, 1⟩ (.last ⟨2, 4⟩)

end Tuc
