import Tuc.Model.Main
import Tuc.Props.EndToEnd
import Tuc.Props.MainLevel
import Tuc.Props.C09
import Tuc.Props.C09Runs
import Tuc.Props.C13
import Tuc.Props.C13Runs
import Tuc.Props.C13RunsFast
import Tuc.Props.C13RunsStream
import Tuc.Props.C15
import Tuc.Props.C15Runs
/-!
# Main level, part 2 — C15, C13 and C09 lifted to the whole program `tucMain`

Continuation of `Tuc.Props.MainLevel` (C04, C10, C11, C12, C14 at program level).  Here the three
properties about the BOUNDS are stated about `tucMain regexOk argv segs` (`Tuc.Model.Main`: `main` of
`src/bin/tuc.rs` from the argument vector to the bytes on stdout and the exit status) on canonical
accepted command lines (`canonArgv K`, `K.Accepted regexOk` — `Canon.Accepted` of MainLevel;
`Canon.Accepted.of_accepted` / `.accepted` convert from / to the decidable `K.accepted` of EndToEnd,
so that every theorem of EndToEnd can be used and every instance is closed by `decide +kernel`).

C15 and C09 compare TWO command lines.  The second one is `K.withBounds t'` (`K` with the bounds text
`t'`; a command line without mode option gets `-f`) resp. `K.rewrittenAs t'` (the same without `-m`),
for ANY text `t'` whose parse is the mirrored / rewritten list — a closed-form condition on the two
parsed lists (`MirrorList n K.ubl.list K'.ubl.list`, discharged by `mirrorBofs_mirrorList` from the
decidable `K'.ubl.list = mirrorBofs n K.ubl.list`; `markLast (mapBounds (complementBound · n) …) =
some K'.ubl.list`).  §4 defines the printer `boundsToText` and proves that `UserBoundsList::from_str`
reads it back (`boundsListOfString_boundsToText`), §5 instantiates `t'` with it: there the second
command line is computed from the first (`K.mirrored n`), its acceptance is derived
(`Canon.Accepted.withM_withBounds`), and the only extra hypotheses are "the list can be printed"
(`printableListB`: no format text, no fallbacks, every bound still well-formed — `-2:3` mirrored on 5
parts is `4:3`, which `from_str` refuses) and "the text does not start with `-`" (else the command
line is not canonical: pico_args would take it for an option).

| § | theorem | command lines | inputs | lifted from |
|---|---|---|---|---|
| 1 | `tucMain_complement_fields` | `-f`/default with `-m`, with or without `--json`, any of `-g -p -s -t -z -j --no-join -r --fallback-oob`, `-d X` (`X ≠ ""`); no `-e`, `-M` | every record has `n` fields; every segmentation | C15Runs `readAndCutStr_complement` (its proof: `specRecord_complement` + `specRecord_eraseLast` between two runs of the specification) through EndToEnd `tuc_fields_eq_spec` / `tuc_fields_json_eq_spec` (engine choice, C02, C01/C08) — the rewritten side may be the fast lane; `--json` comes along |
| 1 | `tucMain_complement_empty_fields` | the same | a record on which every bound covers everything | `readAndCutStr_complement_empty` / `specRecord_complement_empty`, `complement_empty_iff`: status 1, nothing printed for that record |
| 1 | `tucMain_complement_lines`, `tucMain_complement_lines_plain` | `-l -m`, no `-s -t -g -p -r` | valid UTF-8, not empty / a lone EOL; `hfwd` (first) or a plain resolvable request (second) | `readAndCutLines_complement`, `readAndCutLines_complement_plain` (directly: `Canon.Accepted.main_lines`) |
| 2b | `tucMain_never_silent_fields` | `-f`/default, general engine AND fast lane, with or without `--json`, all other options | ALL | `readAndCutStr_never_silent`, `readAndCutFast_never_silent` (their proof: `specRun_fails_at`) through `tuc_fields_eq_spec` / `_json_` |
| 2b | `tucMain_fallback_fields` | the same | ALL | new at run level: `specRecord_fallback_at` (§2a, from `emit_rule` + `emit_append`) — the run-level form of `general_own_fallback`, `general_generic_fallback`, `fast_rule` (C13) |
| 2c | `tucMain_never_silent_fixedMemory_admissible`, `tucMain_fallback_fixedMemory_admissible` | `-M N`, `streamOk` | admissible records (`hadm`: no closed range straddles the end of a record — the known restriction, counter-example at the end of §2f), every segmentation | `stream_never_silent` (C13RunsStream) resp. `stream_rule`; through `tuc_fixedMemory_eq_spec` |
| 2d | `tucMain_never_silent_lines` | `-l`, BOTH algorithms, no `-s -t -g -p -r` | valid UTF-8, not empty / a lone EOL | `readAndCutLines_never_silent_status` (= `readAndCutLines_never_silent` + `fwd_never_silent`): status 1, no restriction on the bounds |
| 2d | `tucMain_never_silent_lines_buffered`, `tucMain_fallback_lines_buffered` | `-l` served by the buffered algorithm (`-m` or not forward-only) | the same | `readAndCutLines_never_silent`; `specLines_fallback_at` (§2a) through `tuc_lines_buffered_eq_spec` |
| 2e | `tucMain_never_silent_bytes`, `tucMain_fallback_bytes` | `-b` | ALL non-empty | `readAndCutBytes_never_silent`; `specBytes_fallback_at` (§2a, run-level `bytes_rule`) through `tuc_bytes_eq_spec` |
| 3 | `tucMain_mirror_fields` | `-f`/default, general AND fast, with or without `--json`, all other options, `-m` included | every record has `n` fields | C09Runs `specRun_mirror` — the law behind `readAndCutStr_mirror` and `readAndCutFast_mirror` — through `tuc_fields_eq_spec` / `_json_` on both command lines |
| 3 | `tucMain_mirror_lines` | `-l` (the side with the negative index is buffered) | domain of C05, `hfwd` | `readAndCutLines_mirror` (directly) |
| 3 | `tucMain_mirror_bytes` | `-b` | ALL | `readAndCutBytes_mirror` (directly) |
| 4 | `boundsListOfString_boundsToText` | — | printable `LastMarked` lists | new |
| 5 | `tucMain_mirrored_fields`, `tucMain_mirrored_lines`, `tucMain_mirrored_bytes`, `tucMain_complement_fields_printed` | as §3 / §1, the second command line COMPUTED (`K.mirrored n`, `K.rewrittenAs (boundsToText rw)`), its acceptance derived | as §3 / §1 | §3 / §1 + §4 |

Every theorem is full on the command lines and inputs named (no `_partial`): the conclusions are
equations between `MainResult`s, or "`.run r` with `r.status = .fail` and `r.out = …`".  The
restrictions that are kept are in the names (`_admissible`, `_buffered`) or explicit hypotheses with a
kernel-checked counter-example next to them: `hadm` for `-M`; for `-l` served one line at a time the
fallback form is NOT lifted (C13 has the step `lines_rule` only, the refinement theorem of that
algorithm — C05 — is about resolvable requests, and a closed range that straddles the end of the
input and has a fallback prints its lines and fails: example in §2f); `-M` is outside C09
(`StreamOpt::try_from` refuses negative indexes: example at the end of §3).  Not treated: `-c` and
`-e` (not in the C09/C13/C15 run theorems that are lifted), non-canonical spellings (e.g. `-f=-1`,
the only way to write a bounds text that starts with a negative index).
-/
namespace Tuc
open Tuc.Spec
set_option linter.constructorNameAsVariable false

/-! ## 0. bridges: the two forms of acceptance, and command lines that differ in the bounds text -/

/-- `Canon.Accepted` (MainLevel) from the decidable `K.accepted` (EndToEnd) -/
theorem Canon.Accepted.of_accepted {regexOk : Arg → Bool} {K : Canon} (hK : K.accepted = true)
    (hre : optAll regexOk K.e = true) (hcre : regexOk charsRegexText = true) : K.Accepted regexOk := by
  obtain ⟨hW, hc, _, hu⟩ := K.accepted_parts hK
  exact ⟨hc, K.sensible regexOk hW hre hcre, hu⟩

/-- the bounds text of an accepted command line parses to `K.ubl` -/
theorem Canon.Accepted.parsed {regexOk : Arg → Bool} {K : Canon} (h : K.Accepted regexOk) :
    boundsListOfString K.boundsText = .ok K.ubl := by
  have := h.sensible.bounds
  rw [K.table_boundsText] at this
  exact K.parsed this

theorem Canon.Accepted.parsed' {regexOk : Arg → Bool} {K : Canon} (h : K.Accepted regexOk) :
    boundsListOfString K.boundsText = .ok (optOf K.table).bounds := by
  rw [K.optOf_bounds]; exact h.parsed

/-- the mode option of a command line that names its bounds: no mode option (= `-f 1:`) becomes `-f` -/
def Mode.orF : Mode → Mode
  | .dflt => .f
  | m => m

/-- **`K` with the bounds text `t`** (same mode option — `-f` if `K` has none —, every other option
    unchanged) -/
def Canon.withBounds (K : Canon) (t : Arg) : Canon := { K with mode := K.mode.orF, bounds := t }

theorem Canon.withBounds_boundsText (K : Canon) (t : Arg) : (K.withBounds t).boundsText = t := by
  cases h : K.mode <;> simp [Canon.boundsText, Canon.withBounds, Mode.orF, h]

theorem Canon.withBounds_boundsTypeOf (K : Canon) (t : Arg) :
    boundsTypeOf (K.withBounds t).table.mode = boundsTypeOf K.table.mode := by
  rw [Canon.table_mode, Canon.table_mode]
  cases h : K.mode <;> simp [Canon.withBounds, Mode.orF, h, boundsTypeOf]

/-- the `Opt` that `parse_args` builds for it: only the bounds differ -/
theorem Canon.optOf_withBounds (K : Canon) (t : Arg) :
    optOf (K.withBounds t).table = { optOf K.table with bounds := (K.withBounds t).ubl } := by
  have hm := K.withBounds_boundsTypeOf t
  unfold optOf
  rw [hm, Canon.table_bounds]
  rfl

/-- `K` with `-m` present (`true`) or absent (`false`) -/
def Canon.withM (K : Canon) (b : Bool) : Canon := { K with m := b }

theorem Canon.optOf_withM (K : Canon) (b : Bool) :
    optOf (K.withM b).table = { optOf K.table with complement := b } := rfl

theorem Canon.withBounds_memKb (K : Canon) (t : Arg) : (K.withBounds t).table.memKb = K.table.memKb := rfl

theorem Canon.withBounds_regexText (K : Canon) (t : Arg) :
    (K.withBounds t).table.regexText = K.table.regexText := by
  unfold Table.regexText
  rw [Canon.table_mode, Canon.table_mode]
  cases h : K.mode <;> simp [Canon.withBounds, Mode.orF, h] <;> rfl

theorem optAll_of_forall {p : Arg → Bool} {o : Option Arg} (h : ∀ v, o = Option.some v → p v = true) :
    optAll p o = true := by
  cases o with
  | none => rfl
  | some v => exact h v rfl

/-- … and back: the decidable `K.accepted` of EndToEnd from `Canon.Accepted` -/
theorem Canon.Accepted.accepted {regexOk : Arg → Bool} {K : Canon} (h : K.Accepted regexOk) :
    K.accepted = true := by
  have hs := h.sensible
  have hne : (canonArgv K).isEmpty = false := by rw [canonArgv_isEmpty]; exact hs.nonempty
  have hb : (boundsListOfString K.boundsText).isOk = true := by rw [← K.table_boundsText]; exact hs.bounds
  have hm : optAll (fun v => (parseUsize v).isSome) K.mem = true := optAll_of_forall hs.mem
  have ht : optAll (fun v => (trimArg v).isOk) K.tr = true := optAll_of_forall hs.trim
  simp [Canon.accepted, Canon.wellFormed, Canon.valuesOk, h.clean, hne, hb, hm, ht, h.noConflict]

theorem Canon.Accepted.regexOk_e {regexOk : Arg → Bool} {K : Canon} (h : K.Accepted regexOk) :
    optAll regexOk K.e = true := optAll_of_forall h.sensible.regex

/-- the bounds of an accepted command line: no index 0, `is_last` on the last bound -/
theorem Canon.Accepted.good {regexOk : Arg → Bool} {K : Canon} (h : K.Accepted regexOk) :
    AllNonzero K.ubl.list ∧ LastMarked K.ubl.list :=
  boundsListOfString_good _ _ h.parsed

/-- what `main` does on an accepted `-l` command line without `-e`, `-M` -/
theorem Canon.Accepted.main_lines {regexOk : Arg → Bool} {K : Canon} (h : K.Accepted regexOk)
    (hmode : K.mode = .l) (he : K.e = none) (hM : K.mem = none) (segs : List Bytes) :
    tucMain regexOk (canonArgv K) segs = .run (readAndCutLines (optOf K.table) segs.flatten) := by
  have hc : K.mode ≠ .c := by rw [hmode]; decide
  have hty : (optOf K.table).boundsType = .lines := by rw [K.optOf_boundsType, hmode]; rfl
  rw [h.main, K.memKb_none hM, K.regexText_none hc he, tucRun_plain _ _ _ (by rw [hty]; decide) rfl,
    Option.isSome_none, dispatch_lines _ _ hty]
  rfl

/-- what `main` does on an accepted `-b` command line without `-e`, `-M` -/
theorem Canon.Accepted.main_bytes {regexOk : Arg → Bool} {K : Canon} (h : K.Accepted regexOk)
    (hmode : K.mode = .b) (he : K.e = none) (hM : K.mem = none) (segs : List Bytes) :
    tucMain regexOk (canonArgv K) segs = .run (readAndCutBytes (optOf K.table) segs.flatten) := by
  have hc : K.mode ≠ .c := by rw [hmode]; decide
  have hty : (optOf K.table).boundsType = .bytes := by rw [K.optOf_boundsType, hmode]; rfl
  rw [h.main, K.memKb_none hM, K.regexText_none hc he, tucRun_plain _ _ _ (by rw [hty]; decide) rfl,
    Option.isSome_none, dispatch_bytes _ _ hty]
  rfl

/-- field mode, with or without `--json`: `tuc_fields_eq_spec` and `tuc_fields_json_eq_spec` in one -/
theorem Canon.Accepted.main_fields {regexOk : Arg → Bool} {K : Canon} (h : K.Accepted regexOk)
    (hmode : K.mode = .f ∨ K.mode = .dflt) (hd : K.d ≠ Option.some []) (he : K.e = none)
    (hM : K.mem = none) (segs : List Bytes) :
    tucMain regexOk (canonArgv K) segs = .run (specRun K.cfg segs.flatten) := by
  cases hj : K.json with
  | false => exact tuc_fields_eq_spec regexOk h.sensible.charsRegex K h.accepted hmode hd he hM hj segs
  | true => exact tuc_fields_json_eq_spec regexOk h.sensible.charsRegex K h.accepted hmode hd he hM hj segs

/-- the requests of two command lines that differ in the bounds text only -/
theorem Canon.sameButBofs_withBounds (K : Canon) (t : Arg) : SameButBofs K.cfg (K.withBounds t).cfg := by
  have := sameButBofs_cfgOf (optOf K.table) (K.withBounds t).ubl
  rw [← K.optOf_withBounds t, K.optOf_cfg, (K.withBounds t).optOf_cfg] at this
  exact this

/-- "the record has `n` fields" (`HasNFields`, Lemmas/SpecLaws) is decidable -/
def hasNFieldsB (cfg : Cfg) (n : Nat) (r : Bytes) : Bool :=
  match recordTok cfg r with
  | none => true
  | Option.some tok => tok.numFields == n

theorem hasNFieldsB_iff (cfg : Cfg) (n : Nat) (r : Bytes) : hasNFieldsB cfg n r = true ↔ HasNFields cfg n r := by
  unfold hasNFieldsB HasNFields
  cases recordTok cfg r with
  | none => simp
  | some tok => simp

instance (cfg : Cfg) (n : Nat) (r : Bytes) : Decidable (HasNFields cfg n r) :=
  decidable_of_iff _ (hasNFieldsB_iff cfg n r)

/-! ## 1. C15 at the level of the program -/

/-- the command line of the rewritten request: `K` without `-m`, with the bounds text `t'` -/
def Canon.rewrittenAs (K : Canon) (t' : Arg) : Canon := (K.withM false).withBounds t'

theorem Canon.cfg_of_m {K : Canon} (hm : K.m = true) : K.cfg = { K.cfg with complement := true } := by
  show K.cfg = { K.cfg with complement := true }
  have : K.cfg.complement = true := hm
  cases hc : K.cfg with
  | mk a b c d e f g h i j k l m =>
    rw [hc] at this
    simp only at this
    subst this
    rfl

/-- the request of the rewritten command line, but for its bounds, is the request without `-m` -/
theorem Canon.sameButBofs_rewrittenAs (K : Canon) (t' : Arg) (l : List BoF) :
    SameButBofs { K.cfg with complement := false, bofs := l } (K.rewrittenAs t').cfg := by
  have h := (K.withM false).sameButBofs_withBounds t'
  exact ⟨⟨h.delimiter, h.eol, h.chars, h.onlyDelimited, h.greedy, h.compress, h.trim⟩, h.replace,
    h.complement, h.join, h.json, h.fallback⟩

/-- **C15, the run of the specification** (the step inside `readAndCutStr_complement`): on an
    input all of whose records have `n` fields, the request with `-m` and the request without `-m`
    whose bounds are (up to `is_last`) the rewritten list print the same -/
theorem specRun_complement {cfg cfg' : Cfg} (n : Nat) (input : Bytes)
    (hsame : SameButBofs { cfg with complement := false, bofs := mapBounds (complementBound · n) cfg.bofs } cfg')
    (he : cfg'.bofs.map eraseLast = (mapBounds (complementBound · n) cfg.bofs).map eraseLast)
    (hc : countBounds (mapBounds (complementBound · n) cfg.bofs) ≠ 0)
    (hn : ∀ r ∈ records cfg.eol input, HasNFields cfg n r) :
    specRun { cfg with complement := true } input = specRun cfg' input := by
  unfold specRun specRecords
  rw [show cfg'.eol = cfg.eol from hsame.eol]
  refine (specRunRecords_congr (cfg := cfg') (cfg' := { cfg with complement := true }) _ fun r hr => ?_)
  rw [specRecord_complement cfg n r (hn r hr) hc]
  exact (specRecord_eraseLast hsame r he).symm

/-- **C15 at the level of the program, field mode** (`-f` or no mode option, with or without
    `--json`, any of `-g -p -s -t -z -j --no-join -r --fallback-oob`, fallbacks, format text).
    Let `K` be an accepted canonical command line with `-m`, and `t'` a bounds text such that `K`
    without `-m` and with `t'` is accepted and `t'` parses to the rewritten list: every bound `b` of
    `K` replaced, in place, by `complementBound b n` — the parts before it, the parts after it; a
    bound that does not resolve stays — with `is_last` on the last one (`hmark`, a closed-form
    equation between two bounds lists).  On an input all of whose records have `n` fields, in any
    read segmentation, `tuc -m` with the bounds of `K` does what `tuc` without `-m` does with `t'`:
    same bytes, same exit status.

    Lifts `readAndCutStr_complement` (C15Runs) — by its own proof: both command lines are the
    specification's run (`tuc_fields_eq_spec` / `tuc_fields_json_eq_spec`, which contain the engine
    choice: the rewritten command line may be served by the fast lane), `specRecord_complement`
    and `specRecord_eraseLast` in between; this way `--json` is covered too. -/
theorem tucMain_complement_fields (regexOk : Arg → Bool) (K : Canon) (t' : Arg) (hK : K.Accepted regexOk)
    (hm : K.m = true) (hK' : (K.rewrittenAs t').Accepted regexOk) (hmode : K.mode = .f ∨ K.mode = .dflt)
    (hd : K.d ≠ Option.some []) (he : K.e = none) (hM : K.mem = none) (n : Nat) (segs : List Bytes)
    (hn : ∀ r ∈ records K.eol.byte segs.flatten, HasNFields K.cfg n r)
    (hmark : markLast (mapBounds (complementBound · n) K.ubl.list) = Option.some (K.rewrittenAs t').ubl.list) :
    tucMain regexOk (canonArgv K) segs = tucMain regexOk (canonArgv (K.rewrittenAs t')) segs := by
  have hmode' : (K.rewrittenAs t').mode = .f ∨ (K.rewrittenAs t').mode = .dflt := by
    rcases hmode with h | h <;> simp [Canon.rewrittenAs, Canon.withM, Canon.withBounds, Mode.orF, h]
  have hc : countBounds (mapBounds (complementBound · n) K.ubl.list) ≠ 0 := by
    have := (countBounds_pos_of_markLast_some _ _ hmark).1
    omega
  rw [hK.main_fields hmode hd he hM, hK'.main_fields hmode' hd he hM, K.cfg_of_m hm]
  exact congrArg MainResult.run
    (specRun_complement n segs.flatten (K.sameButBofs_rewrittenAs t' _) (markLast_eraseLast _ _ hmark) hc hn)

/-- **C15 at the level of the program, nothing left.**  If on some record (not suppressed by `-s`)
    every bound of `K` covers all the fields, `tuc -m` fails: the run's status is failure, and —
    the records before it having succeeded — nothing is printed for that record (only the `[` of
    `--json`).  Lifts `readAndCutStr_complement_empty` / `specRecord_complement_empty`. -/
theorem tucMain_complement_empty_fields (regexOk : Arg → Bool) (K : Canon) (hK : K.Accepted regexOk)
    (hm : K.m = true) (hmode : K.mode = .f ∨ K.mode = .dflt) (hd : K.d ≠ Option.some [])
    (he : K.e = none) (hM : K.mem = none) (segs : List Bytes) (before after : List Bytes) (r : Bytes)
    (tok : Tok) (hrec : records K.eol.byte segs.flatten = before ++ r :: after)
    (ht : recordTok K.cfg r = Option.some tok) (hs : (K.s && tok.numFields == 1) = false)
    (hall : ∀ b ∈ boundsOnly K.ubl.list, resolve b tok.numFields = Option.some (1, tok.numFields)) :
    ∃ run, tucMain regexOk (canonArgv K) segs = .run run ∧ run.status = .fail ∧
      ((specRunRecords K.cfg before).status = .ok →
        run.out = (specRunRecords K.cfg before).out ++ openBracket K.cfg) := by
  refine ⟨_, hK.main_fields hmode hd he hM segs, ?_⟩
  have h := specRecord_complement_empty K.cfg r tok ht hs ((complement_empty_iff tok.numFields K.ubl.list).2 hall)
  rw [← K.cfg_of_m hm] at h
  unfold specRun specRecords
  rw [show K.cfg.eol = K.eol.byte from rfl, hrec]
  exact specRunRecords_fails_at K.cfg before after r _ h

theorem Canon.optOf_of_m {K : Canon} (hm : K.m = true) :
    optOf K.table = { optOf K.table with complement := true } := by
  have : (optOf K.table).complement = true := hm
  cases hc : optOf K.table with
  | mk a b c d e f g h i j k l m n o =>
    rw [hc] at this
    simp only at this
    subst this
    rfl

theorem Canon.optOf_rewrittenAs (K : Canon) (t' : Arg) :
    optOf (K.rewrittenAs t').table =
      { optOf K.table with complement := false, bounds := (K.rewrittenAs t').ubl } := by
  unfold Canon.rewrittenAs
  rw [(K.withM false).optOf_withBounds t', K.optOf_withM false]

/-- **C15 at the level of the program, `-l`.**  `n` is the number of lines of the input.  The `-m`
    side is served by the buffered algorithm; the rewritten request has positive indexes only and
    may be served one line at a time, whence `hfwd` (the domain of C05 for that algorithm: a plain
    list of bounds that resolve).  Other hypotheses: the domain of C05 (no `-s -t -g -p -r`, valid
    UTF-8, neither empty nor a lone EOL).  Lifts `readAndCutLines_complement`. -/
theorem tucMain_complement_lines (regexOk : Arg → Bool) (K : Canon) (t' : Arg) (hK : K.Accepted regexOk)
    (hm : K.m = true) (hK' : (K.rewrittenAs t').Accepted regexOk) (hmode : K.mode = .l) (he : K.e = none)
    (hM : K.mem = none) (hs : K.s = false) (ht : K.tr = none) (hg : K.g = false) (hp : K.p = false)
    (hr : K.r = none) (segs : List Bytes) (hutf : validUtf8 segs.flatten = true)
    (h0 : segs.flatten ≠ []) (h1 : segs.flatten ≠ [K.eol.byte])
    (hmark : markLast (mapBounds (complementBound · (records K.eol.byte segs.flatten).length) K.ubl.list) =
      Option.some (K.rewrittenAs t').ubl.list)
    (hfwd : isForwardOnly (K.rewrittenAs t').ubl.list = true →
      ∃ bs : List UserBounds, (K.rewrittenAs t').ubl.list = bs.map .bound ∧
        ∀ b ∈ bs, resolve b (records K.eol.byte segs.flatten).length ≠ none) :
    tucMain regexOk (canonArgv K) segs = tucMain regexOk (canonArgv (K.rewrittenAs t')) segs := by
  have hmode' : (K.rewrittenAs t').mode = .l := by
    simp [Canon.rewrittenAs, Canon.withM, Canon.withBounds, Mode.orF, hmode]
  obtain ⟨hdl, hty, hjson, honly, htrim, hgr, hcp, hrepl⟩ := K.lines_facts hK.accepted hmode hs ht hg hp hr
  have hgood := hK.good
  rw [← K.optOf_bounds] at hgood hmark
  rw [hK.main_lines hmode he hM, hK'.main_lines hmode' he hM, K.optOf_rewrittenAs t']
  conv => lhs; rw [K.optOf_of_m hm]
  exact congrArg MainResult.run
    (readAndCutLines_complement (optOf K.table) (K.rewrittenAs t').ubl segs.flatten hmark hdl hty rfl hjson
      hgood.1 hgood.2 honly htrim hgr hcp hrepl hutf h0 h1 hfwd)

/-- … with `hfwd` discharged for a plain request (no format text) all of whose bounds resolve.
    Lifts `readAndCutLines_complement_plain`. -/
theorem tucMain_complement_lines_plain (regexOk : Arg → Bool) (K : Canon) (t' : Arg) (hK : K.Accepted regexOk)
    (hm : K.m = true) (hK' : (K.rewrittenAs t').Accepted regexOk) (hmode : K.mode = .l) (he : K.e = none)
    (hM : K.mem = none) (hs : K.s = false) (ht : K.tr = none) (hg : K.g = false) (hp : K.p = false)
    (hr : K.r = none) (segs : List Bytes) (hutf : validUtf8 segs.flatten = true)
    (h0 : segs.flatten ≠ []) (h1 : segs.flatten ≠ [K.eol.byte])
    (bs : List UserBounds) (hplain : K.ubl.list = bs.map .bound)
    (hres : ∀ b ∈ bs, resolve b (records K.eol.byte segs.flatten).length ≠ none)
    (hmark : markLast (mapBounds (complementBound · (records K.eol.byte segs.flatten).length) K.ubl.list) =
      Option.some (K.rewrittenAs t').ubl.list) :
    tucMain regexOk (canonArgv K) segs = tucMain regexOk (canonArgv (K.rewrittenAs t')) segs := by
  have hmode' : (K.rewrittenAs t').mode = .l := by
    simp [Canon.rewrittenAs, Canon.withM, Canon.withBounds, Mode.orF, hmode]
  obtain ⟨hdl, hty, hjson, honly, htrim, hgr, hcp, hrepl⟩ := K.lines_facts hK.accepted hmode hs ht hg hp hr
  have hgood := hK.good
  rw [← K.optOf_bounds] at hgood hmark hplain
  rw [hK.main_lines hmode he hM, hK'.main_lines hmode' he hM, K.optOf_rewrittenAs t']
  conv => lhs; rw [K.optOf_of_m hm]
  exact congrArg MainResult.run
    (readAndCutLines_complement_plain (optOf K.table) (K.rewrittenAs t').ubl segs.flatten bs hplain hres hmark
      hdl hty rfl hjson hgood.2 honly htrim hgr hcp hrepl hutf h0 h1)

/-- `tuc -f 2 -d : -m` -/
def exCompl : Canon := { mode := .f, bounds := ['2'], d := Option.some [':'], m := true }

/-- on records of three fields `-m -f 2` is `-f 1,3`: `tuc -f 2 -d : -m` and `tuc -f 1,3 -d :` on
    `a:b:c⏎x:y:z⏎` read in two pieces -/
example :
    tucMain (fun _ => true) (canonArgv exCompl) [[97, 58, 98, 58, 99, 10, 120], [58, 121, 58, 122, 10]] =
      tucMain (fun _ => true) (canonArgv (exCompl.rewrittenAs ['1', ',', '3']))
        [[97, 58, 98, 58, 99, 10, 120], [58, 121, 58, 122, 10]] :=
  tucMain_complement_fields _ exCompl _ (.of_accepted (by decide +kernel) rfl rfl) rfl
    (.of_accepted (by decide +kernel) rfl rfl) (Or.inl rfl) (by decide) rfl rfl 3 _ (by decide +kernel)
    (by decide +kernel)

example :
    canonArgv exCompl = [['-', 'f'], ['2'], ['-', 'd'], [':'], ['-', 'm']] ∧
    canonArgv (exCompl.rewrittenAs ['1', ',', '3']) = [['-', 'f'], ['1', ',', '3'], ['-', 'd'], [':']] ∧
    tucMain (fun _ => true) (canonArgv exCompl) [[97, 58, 98, 58, 99, 10, 120], [58, 121, 58, 122, 10]] =
      .run (Run.ok [97, 99, 10, 120, 122, 10]) := by
  decide +kernel

/-- `tuc -f 1: -d : -m` leaves nothing out -/
def exComplAll : Canon := { mode := .f, bounds := ['1', ':'], d := Option.some [':'], m := true }

/-- … the run fails on the first record, nothing printed -/
example :
    ∃ run, tucMain (fun _ => true) (canonArgv exComplAll) [[97, 58, 98, 10]] = .run run ∧
      run.status = .fail ∧
      ((specRunRecords exComplAll.cfg []).status = .ok →
        run.out = (specRunRecords exComplAll.cfg []).out ++ openBracket exComplAll.cfg) :=
  tucMain_complement_empty_fields (fun _ => true) exComplAll
    (.of_accepted (by decide +kernel) rfl rfl) rfl (Or.inl rfl) (by decide) rfl rfl [[97, 58, 98, 10]]
    [] [] [97, 58, 98] ⟨[97], [(1, [98])]⟩ (by decide +kernel) (by decide +kernel) (by decide +kernel)
    (by decide +kernel)

example : tucMain (fun _ => true) (canonArgv exComplAll) [[97, 58, 98, 10]] = .run Run.fail := by
  decide +kernel

/-- `tuc -l 2 -m` on `a⏎b⏎c⏎` (buffered) is `tuc -l 1,3` (one line at a time) -/
def exComplLines : Canon := { mode := .l, bounds := ['2'], m := true }

example :
    tucMain (fun _ => true) (canonArgv exComplLines) [[97, 10, 98], [10, 99, 10]] =
      tucMain (fun _ => true) (canonArgv (exComplLines.rewrittenAs ['1', ',', '3'])) [[97, 10, 98], [10, 99, 10]] :=
  tucMain_complement_lines_plain _ exComplLines _ (.of_accepted (by decide +kernel) rfl rfl) rfl
    (.of_accepted (by decide +kernel) rfl rfl) rfl rfl rfl rfl rfl rfl rfl rfl _ (by decide +kernel)
    (by decide +kernel) (by decide +kernel) [{ l := .some 2, r := .some 2, isLast := true }]
    (by decide +kernel) (by decide +kernel) (by decide +kernel)

example :
    tucMain (fun _ => true) (canonArgv exComplLines) [[97, 10, 98], [10, 99, 10]] = .run (Run.ok [97, 10, 99, 10]) := by
  decide +kernel

/-! ## 2. C13 at the level of the program

### 2a. the specification: a fallback is printed at the bound's place

`Tuc.Props.C13Runs` has the rule for one bound (`emit_rule`) and the failure case for lists,
records and runs (`emit_fails_at` … `specRun_fails_at`).  The same for the two fallback cases. -/

/-- the fallback text in force for a bound: its own, else the generic one -/
def fallbackFor (generic : Option Bytes) (b : UserBounds) : Option Bytes := b.fallback.or generic

theorem emit_fallback (cfg : Cfg) (t : Tok) (sep : Nat → Bytes) (j : Bytes) (b : UserBounds)
    (rest : List BoF) (f : Bytes) (h : resolve b t.numFields = none)
    (hf : fallbackFor cfg.fallback b = Option.some f) :
    emit cfg t sep j (.bound b :: rest) = emitText cfg t sep j rest f := by
  unfold fallbackFor at hf
  cases hbf : b.fallback with
  | some x =>
    rw [hbf] at hf
    cases hf
    exact emit_own_fallback cfg t sep j b rest f h hbf
  | none =>
    rw [hbf] at hf
    exact emit_generic_fallback cfg t sep j b rest f h hbf (by simpa using hf)

/-- a bound of the list `pre ++ b :: post` that cannot be resolved and has a fallback in force:
    what `pre` prints, then the fallback text (rendered, followed by the joiner if a bound follows),
    then what `post` prints -/
theorem emit_fallback_at (cfg : Cfg) (t : Tok) (sep : Nat → Bytes) (j : Bytes) (pre post : List BoF)
    (b : UserBounds) (f : Bytes) (h : resolve b t.numFields = none)
    (hf : fallbackFor cfg.fallback b = Option.some f) :
    emit cfg t sep j (pre ++ .bound b :: post) =
      (emitThen cfg t sep j pre).seq (emitText cfg t sep j post f) := by
  rw [emit_append cfg t sep j (.bound b :: post) (by simp [countBounds]) pre,
    emit_fallback cfg t sep j b post f h hf]

/-- **C13, the fallback, one tokenised record** (any request: `-m`, `--json`, `-c` included) -/
theorem specBody_fallback_at (cfg : Cfg) (tok : Tok) (pre post : List BoF) (b : UserBounds) (f : Bytes)
    (hs : (cfg.onlyDelimited && tok.numFields == 1) = false)
    (hb : cfg.bofs = pre ++ .bound b :: post)
    (h : resolve b tok.numFields = none) (hf : fallbackFor cfg.fallback b = Option.some f) :
    specBody cfg tok =
      Run.pre (openBracket cfg)
        (((emitThen cfg tok (specSep cfg) (specJoiner cfg) (rewriteList cfg tok.numFields pre)).seq
            (emitText cfg tok (specSep cfg) (specJoiner cfg) (rewriteList cfg tok.numFields post) f)).seq
          (Run.ok (closeBracket cfg ++ [cfg.eol]))) := by
  obtain ⟨b', e1, e2, e3⟩ := rewriteList_at cfg tok.numFields pre post b h
  have hc := countBounds_complemented_pos cfg tok.numFields pre post b hb h
  have hf' : fallbackFor cfg.fallback b' = Option.some f := by
    unfold fallbackFor at hf ⊢; rw [e3]; exact hf
  have hc' : (cfg.complement && countBounds (complemented cfg tok.numFields) == 0) = false := by
    cases cfg.complement with
    | false => rfl
    | true => simpa using hc
  unfold specBody
  rw [hs, rewritten_eq, hb, e1, emit_fallback_at cfg tok _ _ _ _ b' f e2 hf', hc']
  rfl

/-- **C13, the fallback, one record** -/
theorem specRecord_fallback_at (cfg : Cfg) (r : Bytes) (tok : Tok) (pre post : List BoF) (b : UserBounds)
    (f : Bytes) (ht : recordTok cfg r = Option.some tok)
    (hs : (cfg.onlyDelimited && tok.numFields == 1) = false)
    (hb : cfg.bofs = pre ++ .bound b :: post)
    (h : resolve b tok.numFields = none) (hf : fallbackFor cfg.fallback b = Option.some f) :
    specRecord cfg r =
      Run.pre (openBracket cfg)
        (((emitThen cfg tok (specSep cfg) (specJoiner cfg) (rewriteList cfg tok.numFields pre)).seq
            (emitText cfg tok (specSep cfg) (specJoiner cfg) (rewriteList cfg tok.numFields post) f)).seq
          (Run.ok (closeBracket cfg ++ [cfg.eol]))) := by
  rw [specRecord_of_recordTok ht, specBody_fallback_at cfg tok pre post b f hs hb h hf]

/-- the run around one record -/
theorem specRun_at (cfg : Cfg) (input : Bytes) (before after : List Bytes) (r : Bytes)
    (hrec : specRecords cfg.eol input = before ++ r :: after) :
    specRun cfg input =
      (specRunRecords cfg before).seq ((specRecord cfg r).seq (specRunRecords cfg after)) := by
  unfold specRun
  rw [hrec, specRunRecords_append]
  rfl

theorem specLinesBody_fallback_at (cfg : Cfg) (tok : Tok) (pre post : List BoF) (b : UserBounds) (f : Bytes)
    (hlone : (tok.rest.isEmpty && tok.first.isEmpty) = false)
    (hb : cfg.bofs = pre ++ .bound b :: post)
    (h : resolve b tok.numFields = none) (hf : fallbackFor cfg.fallback b = Option.some f) :
    specLinesBody cfg tok =
      ((emitThen (linesCfg cfg) tok (fun k => repeatBytes [cfg.eol] k) [cfg.eol]
          (rewriteList (linesCfg cfg) tok.numFields pre)).seq
        (emitText (linesCfg cfg) tok (fun k => repeatBytes [cfg.eol] k) [cfg.eol]
          (rewriteList (linesCfg cfg) tok.numFields post) f)).seq (Run.ok [cfg.eol]) := by
  obtain ⟨b', e1, e2, e3⟩ := rewriteList_at (linesCfg cfg) tok.numFields pre post b h
  have hc := countBounds_complemented_pos cfg tok.numFields pre post b hb h
  have hc' : (cfg.complement && countBounds (complemented cfg tok.numFields) == 0) = false := by
    cases cfg.complement with
    | false => rfl
    | true => simpa using hc
  have hf' : fallbackFor (linesCfg cfg).fallback b' = Option.some f := by
    unfold fallbackFor at hf ⊢; rw [e3]; exact hf
  have hcomp : complemented cfg tok.numFields = rewriteList (linesCfg cfg) tok.numFields cfg.bofs :=
    rfl
  have key := emit_fallback_at (linesCfg cfg) tok (fun k => repeatBytes [cfg.eol] k) [cfg.eol]
    (rewriteList (linesCfg cfg) tok.numFields pre) (rewriteList (linesCfg cfg) tok.numFields post)
    b' f e2 hf'
  rw [← e1, ← hb, ← hcomp] at key
  unfold specLinesBody
  rw [hlone, hc',
    emit_cfg_congr (cfg := linesCfg cfg) (cfg' := { cfg with json := false }) rfl rfl rfl, key]
  rfl

/-- **C13, the fallback, `-l`, the specification**: the input is neither empty nor a lone EOL; `n`
    is its number of lines -/
theorem specLines_fallback_at (cfg : Cfg) (input : Bytes) (pre post : List BoF) (b : UserBounds) (f : Bytes)
    (h0 : input ≠ []) (h1 : input ≠ [cfg.eol])
    (hb : cfg.bofs = pre ++ .bound b :: post)
    (h : resolve b (records cfg.eol input).length = none)
    (hf : fallbackFor cfg.fallback b = Option.some f) :
    specLines cfg input =
      ((emitThen (linesCfg cfg) (linesTok cfg.eol input) (fun k => repeatBytes [cfg.eol] k) [cfg.eol]
          (rewriteList (linesCfg cfg) (records cfg.eol input).length pre)).seq
        (emitText (linesCfg cfg) (linesTok cfg.eol input) (fun k => repeatBytes [cfg.eol] k) [cfg.eol]
          (rewriteList (linesCfg cfg) (records cfg.eol input).length post) f)).seq (Run.ok [cfg.eol]) := by
  rw [specLines_eq]
  unfold linesTok
  cases hr : records cfg.eol input with
  | nil => exact absurd ((records_eq_nil_iff cfg.eol input).1 hr) h0
  | cons p ps =>
    have ht : tokOfParts 1 (p :: ps) = Option.some ⟨p, ps.map fun x => (1, x)⟩ := rfl
    rw [ht]
    simp only [Option.getD_some]
    have hn : (⟨p, ps.map fun x => (1, x)⟩ : Tok).numFields = (p :: ps).length := by
      simp [Tok.numFields]
    rw [hr, ← hn] at h
    rw [← hn]
    refine specLinesBody_fallback_at cfg _ pre post b f ?_ hb h hf
    cases ps with
    | cons _ _ => simp
    | nil =>
      cases p with
      | cons _ _ => simp
      | nil => exact absurd ((records_eq_lone_iff cfg.eol input).1 hr) h1

/-- **C13, the fallback, `-b`, the specification**: `n` is the number of bytes of the (non-empty)
    input -/
theorem specBytes_fallback_at (cfg : Cfg) (data : Bytes) (pre post : List BoF) (b : UserBounds) (f : Bytes)
    (hne : data ≠ []) (hb : cfg.bofs = pre ++ .bound b :: post)
    (h : resolve b data.length = none) (hf : fallbackFor cfg.fallback b = Option.some f) :
    specBytes cfg data =
      (emitThen { cfg with json := false, join := false } (bytesTok data) (fun _ => []) [] pre).seq
        (emitText { cfg with json := false, join := false } (bytesTok data) (fun _ => []) [] post f) := by
  unfold specBytes bytesTok
  cases data with
  | nil => exact absurd rfl hne
  | cons c cs =>
    have ht : tokOfParts 0 ((c :: cs).map fun b => [b]) =
        Option.some ⟨[c], (cs.map fun b => [b]).map fun x => (0, x)⟩ := rfl
    rw [ht]
    simp only [Option.getD_some]
    have hn : (⟨[c], (cs.map fun b => [b]).map fun x => (0, x)⟩ : Tok).numFields =
        (c :: cs).length := by simp [Tok.numFields]
    rw [← hn] at h
    have key := emit_fallback_at { cfg with json := false, join := false }
      ⟨[c], (cs.map fun b => [b]).map fun x => (0, x)⟩ (fun _ => []) [] pre post b f h hf
    rw [← hb] at key
    exact key

/-- without `--json` the fallback text is written verbatim: the bytes `f`, then the joiner if `-j`
    is in force and a bound follows, then what the rest of the list prints -/
theorem emitText_verbatim (cfg : Cfg) (t : Tok) (sep : Nat → Bytes) (j : Bytes) (rest : List BoF)
    (f : Bytes) (hj : cfg.json = false) :
    emitText cfg t sep j rest f =
      Run.pre (f ++ (if cfg.join && countBounds rest > 0 then j else [])) (emit cfg t sep j rest) :=
  emitText_plain cfg t sep j rest f hj

/-! ### 2b. field mode (general engine and fast lane) -/

theorem Canon.cfg_fallback_none {K : Canon} (hg : K.fallback = none) : K.cfg.fallback = none := by
  show K.fallback.map utf8 = none
  rw [hg]; rfl

/-- **C13 at the level of the program, field mode, no fallback at all ⇒ failure** (`-f` or no mode
    option; general engine and fast lane; with or without `--json`; any of `-g -p -s -t -z -m -j
    --no-join -r`; every input, every read segmentation).  If on the record `r` of the input (tokens
    `tok`, not suppressed by `-s`) the bound `b` of the command line does not resolve, has no
    fallback of its own (`=…`) and there is no `--fallback-oob`, then `tuc` exits with status 1 —
    never a silent success — and, the records before `r` having succeeded, stdout holds the output
    of those records followed by what `r` printed before `b` (after the `[` of `--json`).

    Lifts `readAndCutStr_never_silent` (C13Runs) and `readAndCutFast_never_silent` (C13RunsFast) —
    by their own proof: the run is the specification's (`tuc_fields_eq_spec` /
    `tuc_fields_json_eq_spec`, engine choice inside) and `specRun_fails_at`; `--json` comes along. -/
theorem tucMain_never_silent_fields (regexOk : Arg → Bool) (K : Canon) (hK : K.Accepted regexOk)
    (hmode : K.mode = .f ∨ K.mode = .dflt) (hd : K.d ≠ Option.some []) (he : K.e = none)
    (hM : K.mem = none) (segs : List Bytes) (before after : List Bytes) (r : Bytes)
    (hrec : records K.eol.byte segs.flatten = before ++ r :: after)
    (tok : Tok) (pre post : List BoF) (b : UserBounds) (ht : recordTok K.cfg r = Option.some tok)
    (hs : (K.s && tok.numFields == 1) = false) (hb : K.ubl.list = pre ++ .bound b :: post)
    (h : resolve b tok.numFields = none) (hf : b.fallback = none) (hg : K.fallback = none) :
    ∃ run, tucMain regexOk (canonArgv K) segs = .run run ∧ run.status = .fail ∧
      ((specRunRecords K.cfg before).status = .ok →
        run.out = (specRunRecords K.cfg before).out ++
          (openBracket K.cfg ++ (emitThen K.cfg tok (specSep K.cfg) (specJoiner K.cfg)
            (rewriteList K.cfg tok.numFields pre)).out)) :=
  ⟨_, hK.main_fields hmode hd he hM segs,
    specRun_fails_at K.cfg segs.flatten before after r hrec tok pre post b ht hs hb h hf
      (K.cfg_fallback_none hg)⟩

/-- **C13 at the level of the program, field mode, a fallback in force ⇒ it is printed at the
    bound's place.**  Same command lines and inputs.  If the bound `b` does not resolve on the record
    `r` and `f` is its own fallback, or it has none and `f` is the value of `--fallback-oob`
    (`fallbackFor`), the run is: the records before `r`; for `r`: what the elements before `b` print,
    then `f` — `emitText`: written verbatim without `--json` (`emitText_verbatim`; as a JSON string
    with it), followed by the joiner if a bound follows — then what the elements after `b` print, the
    EOL; then the records after `r`.  (`rewriteList`: under `-m` / `--json` the elements before and
    after `b` are rewritten, `b` itself stays where it is.)

    Lifts the rule (`general_own_fallback`, `general_generic_fallback`, `fast_rule` of C13, `emit_rule`
    of C13Runs) to the run of the program, via `specRecord_fallback_at` above. -/
theorem tucMain_fallback_fields (regexOk : Arg → Bool) (K : Canon) (hK : K.Accepted regexOk)
    (hmode : K.mode = .f ∨ K.mode = .dflt) (hd : K.d ≠ Option.some []) (he : K.e = none)
    (hM : K.mem = none) (segs : List Bytes) (before after : List Bytes) (r : Bytes)
    (hrec : records K.eol.byte segs.flatten = before ++ r :: after)
    (tok : Tok) (pre post : List BoF) (b : UserBounds) (f : Bytes)
    (ht : recordTok K.cfg r = Option.some tok)
    (hs : (K.s && tok.numFields == 1) = false) (hb : K.ubl.list = pre ++ .bound b :: post)
    (h : resolve b tok.numFields = none) (hf : fallbackFor (K.fallback.map utf8) b = Option.some f) :
    tucMain regexOk (canonArgv K) segs =
      .run ((specRunRecords K.cfg before).seq
        ((Run.pre (openBracket K.cfg)
            (((emitThen K.cfg tok (specSep K.cfg) (specJoiner K.cfg) (rewriteList K.cfg tok.numFields pre)).seq
                (emitText K.cfg tok (specSep K.cfg) (specJoiner K.cfg) (rewriteList K.cfg tok.numFields post) f)).seq
              (Run.ok (closeBracket K.cfg ++ [K.eol.byte])))).seq
          (specRunRecords K.cfg after))) := by
  rw [hK.main_fields hmode hd he hM segs, specRun_at K.cfg segs.flatten before after r hrec,
    specRecord_fallback_at K.cfg r tok pre post b f ht hs hb h hf]
  rfl

/-! ### 2c. `-M` (restricted to admissible inputs) -/

/-- **C13 at the level of the program, `-M`, no fallback ⇒ failure — for admissible inputs.**  The
    restriction of `stream_never_silent` is kept: `hadm`, no requested closed range straddles the end
    of a record (on such a record `-M` has already written the fields of the range when it finds
    the record too short: the known finding of C03).  Every read segmentation.
    Lifts `stream_never_silent` (C13RunsStream). -/
theorem tucMain_never_silent_fixedMemory_admissible (regexOk : Arg → Bool) (K : Canon)
    (hK : K.Accepted regexOk) (hM : K.mem.isSome = true) (hst : (flagsOf K.table).streamOk = true)
    (segs : List Bytes)
    (hadm : ∀ r ∈ records K.eol.byte segs.flatten, Admissible K.ubl.list (r.count K.delimiterByte + 1))
    (before after : List Bytes) (r : Bytes)
    (hrec : records K.eol.byte segs.flatten = before ++ r :: after)
    (tok : Tok) (pre post : List BoF) (b : UserBounds) (ht : recordTok K.cfg r = Option.some tok)
    (hs : (K.s && tok.numFields == 1) = false) (hb : K.ubl.list = pre ++ .bound b :: post)
    (h : resolve b tok.numFields = none) (hf : b.fallback = none) (hg : K.fallback = none) :
    ∃ run, tucMain regexOk (canonArgv K) segs = .run run ∧ run.status = .fail ∧
      ((specRunRecords K.cfg before).status = .ok →
        run.out = (specRunRecords K.cfg before).out ++
          (openBracket K.cfg ++ (emitThen K.cfg tok (specSep K.cfg) (specJoiner K.cfg)
            (rewriteList K.cfg tok.numFields pre)).out)) :=
  ⟨_, tuc_fixedMemory_eq_spec regexOk hK.sensible.charsRegex K hK.accepted hM hst segs hadm,
    specRun_fails_at K.cfg segs.flatten before after r hrec tok pre post b ht hs hb h hf
      (K.cfg_fallback_none hg)⟩

/-- **C13 at the level of the program, `-M`, a fallback in force ⇒ printed at the bound's place —
    for admissible inputs** (the restriction: a closed range that straddles the end of a record and
    has a fallback is the known finding — `-M` writes the fields of the range and then fails). -/
theorem tucMain_fallback_fixedMemory_admissible (regexOk : Arg → Bool) (K : Canon)
    (hK : K.Accepted regexOk) (hM : K.mem.isSome = true) (hst : (flagsOf K.table).streamOk = true)
    (segs : List Bytes)
    (hadm : ∀ r ∈ records K.eol.byte segs.flatten, Admissible K.ubl.list (r.count K.delimiterByte + 1))
    (before after : List Bytes) (r : Bytes)
    (hrec : records K.eol.byte segs.flatten = before ++ r :: after)
    (tok : Tok) (pre post : List BoF) (b : UserBounds) (f : Bytes)
    (ht : recordTok K.cfg r = Option.some tok)
    (hs : (K.s && tok.numFields == 1) = false) (hb : K.ubl.list = pre ++ .bound b :: post)
    (h : resolve b tok.numFields = none) (hf : fallbackFor (K.fallback.map utf8) b = Option.some f) :
    tucMain regexOk (canonArgv K) segs =
      .run ((specRunRecords K.cfg before).seq
        ((Run.pre (openBracket K.cfg)
            (((emitThen K.cfg tok (specSep K.cfg) (specJoiner K.cfg) (rewriteList K.cfg tok.numFields pre)).seq
                (emitText K.cfg tok (specSep K.cfg) (specJoiner K.cfg) (rewriteList K.cfg tok.numFields post) f)).seq
              (Run.ok (closeBracket K.cfg ++ [K.eol.byte])))).seq
          (specRunRecords K.cfg after))) := by
  rw [tuc_fixedMemory_eq_spec regexOk hK.sensible.charsRegex K hK.accepted hM hst segs hadm,
    specRun_at K.cfg segs.flatten before after r hrec,
    specRecord_fallback_at K.cfg r tok pre post b f ht hs hb h hf]
  rfl

/-! ### 2d. `-l` -/

/-- **C13 at the level of the program, `-l`, no fallback ⇒ failure, whichever algorithm
    `read_and_cut_lines` picks** (buffered or one line at a time; no restriction on the shape of the
    bounds).  `n` is the number of lines of the input.  Hypotheses: the domain of C05 (no
    `-s -t -g -p -r`; valid UTF-8, neither empty nor a lone EOL).
    Lifts `readAndCutLines_never_silent_status` (= `readAndCutLines_never_silent` + `fwd_never_silent`). -/
theorem tucMain_never_silent_lines (regexOk : Arg → Bool) (K : Canon) (hK : K.Accepted regexOk)
    (hmode : K.mode = .l) (he : K.e = none) (hM : K.mem = none) (hs : K.s = false) (ht : K.tr = none)
    (hg : K.g = false) (hp : K.p = false) (hr : K.r = none) (segs : List Bytes)
    (hutf : validUtf8 segs.flatten = true) (h0 : segs.flatten ≠ []) (h1 : segs.flatten ≠ [K.eol.byte])
    (pre post : List BoF) (b : UserBounds) (hb : K.ubl.list = pre ++ .bound b :: post)
    (h : resolve b (records K.eol.byte segs.flatten).length = none) (hf : b.fallback = none)
    (hgen : K.fallback = none) :
    ∃ run, tucMain regexOk (canonArgv K) segs = .run run ∧ run.status = .fail := by
  obtain ⟨hdl, hty, hjson, honly, htrim, hgr, hcp, hrepl⟩ := K.lines_facts hK.accepted hmode hs ht hg hp hr
  have hgood := hK.good
  rw [← K.optOf_bounds] at hgood hb
  exact ⟨_, hK.main_lines hmode he hM segs,
    readAndCutLines_never_silent_status (optOf K.table) segs.flatten hdl hty rfl hjson hgood.1 hgood.2 honly
      htrim hgr hcp hrepl hutf h0 h1 pre post b hb h hf (K.cfg_fallback_none hgen)⟩

/-- … and when the buffered algorithm serves the request (`-m`, or bounds that are not
    forward-only), what was written is what the elements before `b` printed.
    Lifts `readAndCutLines_never_silent`. -/
theorem tucMain_never_silent_lines_buffered (regexOk : Arg → Bool) (K : Canon) (hK : K.Accepted regexOk)
    (hmode : K.mode = .l) (he : K.e = none) (hM : K.mem = none) (hs : K.s = false) (ht : K.tr = none)
    (hg : K.g = false) (hp : K.p = false) (hr : K.r = none)
    (hbuf : K.m = true ∨ isForwardOnly K.ubl.list = false) (segs : List Bytes)
    (hutf : validUtf8 segs.flatten = true) (h0 : segs.flatten ≠ []) (h1 : segs.flatten ≠ [K.eol.byte])
    (pre post : List BoF) (b : UserBounds) (hb : K.ubl.list = pre ++ .bound b :: post)
    (h : resolve b (records K.eol.byte segs.flatten).length = none) (hf : b.fallback = none)
    (hgen : K.fallback = none) :
    tucMain regexOk (canonArgv K) segs =
      .run ⟨(emitThen (linesCfg K.cfg) (linesTok K.eol.byte segs.flatten)
        (fun k => repeatBytes [K.eol.byte] k) [K.eol.byte]
        (rewriteList (linesCfg K.cfg) (records K.eol.byte segs.flatten).length pre)).out, .fail⟩ := by
  obtain ⟨hdl, hty, hjson, honly, htrim, hgr, hcp, hrepl⟩ := K.lines_facts hK.accepted hmode hs ht hg hp hr
  have hgood := hK.good
  rw [← K.optOf_bounds] at hgood hb hbuf
  rw [hK.main_lines hmode he hM segs,
    readAndCutLines_never_silent (optOf K.table) segs.flatten hbuf hdl hty rfl hjson hgood.1 hgood.2 honly
      htrim hgr hcp hrepl hutf h0 h1 pre post b hb h hf (K.cfg_fallback_none hgen), K.optOf_cfg]
  rfl

/-- **C13 at the level of the program, `-l` served by the buffered algorithm, a fallback in force ⇒
    printed at the bound's place**: what the elements before `b` print, the fallback text verbatim
    (`emitText_verbatim`: `linesCfg` has no `--json`) followed by the EOL if a bound follows and the
    bounds are joined, what the elements after `b` print, the final EOL.

    The restriction to the buffered algorithm (`hbuf`) is the known one: served one line at a time, a
    closed range that straddles the end of the input and has a fallback prints its lines and fails
    (`lines_straddling_fails`, C13; the example after `readAndCutLines_mirror`, C09Runs); and the
    refinement theorem of that algorithm (C05) is about resolvable requests only. -/
theorem tucMain_fallback_lines_buffered (regexOk : Arg → Bool) (K : Canon) (hK : K.Accepted regexOk)
    (hmode : K.mode = .l) (he : K.e = none) (hM : K.mem = none) (hs : K.s = false) (ht : K.tr = none)
    (hg : K.g = false) (hp : K.p = false) (hr : K.r = none)
    (hbuf : K.m = true ∨ isForwardOnly K.ubl.list = false) (segs : List Bytes)
    (hutf : validUtf8 segs.flatten = true) (h0 : segs.flatten ≠ []) (h1 : segs.flatten ≠ [K.eol.byte])
    (pre post : List BoF) (b : UserBounds) (f : Bytes) (hb : K.ubl.list = pre ++ .bound b :: post)
    (h : resolve b (records K.eol.byte segs.flatten).length = none)
    (hf : fallbackFor (K.fallback.map utf8) b = Option.some f) :
    tucMain regexOk (canonArgv K) segs =
      .run (((emitThen (linesCfg K.cfg) (linesTok K.eol.byte segs.flatten)
            (fun k => repeatBytes [K.eol.byte] k) [K.eol.byte]
            (rewriteList (linesCfg K.cfg) (records K.eol.byte segs.flatten).length pre)).seq
          (emitText (linesCfg K.cfg) (linesTok K.eol.byte segs.flatten)
            (fun k => repeatBytes [K.eol.byte] k) [K.eol.byte]
            (rewriteList (linesCfg K.cfg) (records K.eol.byte segs.flatten).length post) f)).seq
        (Run.ok [K.eol.byte])) := by
  rw [tuc_lines_buffered_eq_spec regexOk hK.sensible.charsRegex K hK.accepted hmode he hM hs ht hg hp hr hbuf
    segs hutf, specLines_fallback_at K.cfg segs.flatten pre post b f h0 h1 hb h hf]
  rfl

/-! ### 2e. `-b` -/

/-- **C13 at the level of the program, `-b`, no fallback ⇒ failure**: `n` is the number of bytes of
    the (non-empty) input, any byte values; stdout holds what the elements before `b` printed.
    Lifts `readAndCutBytes_never_silent`. -/
theorem tucMain_never_silent_bytes (regexOk : Arg → Bool) (K : Canon) (hK : K.Accepted regexOk)
    (hmode : K.mode = .b) (he : K.e = none) (hM : K.mem = none) (segs : List Bytes)
    (hne : segs.flatten ≠ []) (pre post : List BoF) (b : UserBounds)
    (hb : K.ubl.list = pre ++ .bound b :: post) (h : resolve b segs.flatten.length = none)
    (hf : b.fallback = none) (hgen : K.fallback = none) :
    tucMain regexOk (canonArgv K) segs =
      .run ⟨(emitThen { K.cfg with json := false, join := false } (bytesTok segs.flatten) (fun _ => []) []
        pre).out, .fail⟩ := by
  have hgood := hK.good
  rw [← K.optOf_bounds] at hgood hb
  rw [hK.main_bytes hmode he hM segs,
    readAndCutBytes_never_silent (optOf K.table) segs.flatten
      (fun b hb => hgood.1 b (mem_boundsOnly_iff.mp hb)) hne pre post b hb h hf (K.cfg_fallback_none hgen),
    K.optOf_cfg]

/-- **C13 at the level of the program, `-b`, a fallback in force ⇒ printed verbatim at the bound's
    place** (`bytes_rule` of C13 at the level of the run) -/
theorem tucMain_fallback_bytes (regexOk : Arg → Bool) (K : Canon) (hK : K.Accepted regexOk)
    (hmode : K.mode = .b) (he : K.e = none) (hM : K.mem = none) (segs : List Bytes)
    (hne : segs.flatten ≠ []) (pre post : List BoF) (b : UserBounds) (f : Bytes)
    (hb : K.ubl.list = pre ++ .bound b :: post) (h : resolve b segs.flatten.length = none)
    (hf : fallbackFor (K.fallback.map utf8) b = Option.some f) :
    tucMain regexOk (canonArgv K) segs =
      .run ((emitThen { K.cfg with json := false, join := false } (bytesTok segs.flatten) (fun _ => []) [] pre).seq
        (emitText { K.cfg with json := false, join := false } (bytesTok segs.flatten) (fun _ => []) [] post f)) := by
  rw [tuc_bytes_eq_spec regexOk hK.sensible.charsRegex K hK.accepted hmode he hM segs,
    specBytes_fallback_at K.cfg segs.flatten pre post b f hne hb h hf]

/-! ### 2f. executed instances -/

/-- `tuc -f 1,5,2 -d :` -/
def exOob : Canon := { mode := .f, bounds := ['1', ',', '5', ',', '2'], d := Option.some [':'] }

/-- on `a:b:c⏎` (read as `a:b` + `:c⏎`) field 5 does not exist and nothing stands in for it: `a` is
    printed, then the run fails -/
example :
    ∃ run, tucMain (fun _ => true) (canonArgv exOob) [[97, 58, 98], [58, 99, 10]] = .run run ∧
      run.status = .fail ∧
      ((specRunRecords exOob.cfg []).status = .ok →
        run.out = (specRunRecords exOob.cfg []).out ++
          (openBracket exOob.cfg ++ (emitThen exOob.cfg ⟨[97], [(1, [98]), (1, [99])]⟩ (specSep exOob.cfg)
            (specJoiner exOob.cfg) (rewriteList exOob.cfg 3 [.bound { l := .some 1, r := .some 1 }])).out)) :=
  tucMain_never_silent_fields _ exOob (.of_accepted (by decide +kernel) rfl rfl) (Or.inl rfl) (by decide) rfl rfl
    _ [] [] [97, 58, 98, 58, 99] (by decide +kernel) ⟨[97], [(1, [98]), (1, [99])]⟩
    [.bound { l := .some 1, r := .some 1 }] [.bound { l := .some 2, r := .some 2, isLast := true }]
    { l := .some 5, r := .some 5 } (by decide +kernel) (by decide +kernel) (by decide +kernel) (by decide +kernel)
    rfl rfl

example : tucMain (fun _ => true) (canonArgv exOob) [[97, 58, 98], [58, 99, 10]] = .run ⟨[97], .fail⟩ := by
  decide +kernel

/-- `tuc -f 1,5=x,2 -d :` prints `x` in the place of field 5: `axb⏎` -/
def exOobOwn : Canon := { exOob with bounds := ['1', ',', '5', '=', 'x', ',', '2'] }

example : tucMain (fun _ => true) (canonArgv exOobOwn) [[97, 58, 98], [58, 99, 10]] = .run (Run.ok [97, 120, 98, 10]) :=
  (tucMain_fallback_fields _ exOobOwn (.of_accepted (by decide +kernel) rfl rfl) (Or.inl rfl) (by decide) rfl rfl
    _ [] [] [97, 58, 98, 58, 99] (by decide +kernel) ⟨[97], [(1, [98]), (1, [99])]⟩
    [.bound { l := .some 1, r := .some 1 }] [.bound { l := .some 2, r := .some 2, isLast := true }]
    { l := .some 5, r := .some 5, fallback := Option.some [120] } [120] (by decide +kernel) (by decide +kernel)
    (by decide +kernel) (by decide +kernel) rfl).trans (by decide +kernel)

/-- `tuc -f 1,5,2 -d : --fallback-oob y -j` prints the generic fallback, joined: `a:y:b⏎` -/
def exOobGen : Canon := { exOob with fallback := Option.some ['y'], j := true }

example : tucMain (fun _ => true) (canonArgv exOobGen) [[97, 58, 98], [58, 99, 10]] =
    .run (Run.ok [97, 58, 121, 58, 98, 10]) :=
  (tucMain_fallback_fields _ exOobGen (.of_accepted (by decide +kernel) rfl rfl) (Or.inl rfl) (by decide) rfl rfl
    _ [] [] [97, 58, 98, 58, 99] (by decide +kernel) ⟨[97], [(1, [98]), (1, [99])]⟩
    [.bound { l := .some 1, r := .some 1 }] [.bound { l := .some 2, r := .some 2, isLast := true }]
    { l := .some 5, r := .some 5 } [121] (by decide +kernel) (by decide +kernel)
    (by decide +kernel) (by decide +kernel) (by decide +kernel)).trans (by decide +kernel)

/-- `tuc -f 1,5 -d : -M 1` on `a:b:c⏎` in pieces of 2 and 4 bytes: `a`, then failure;
    with `-f 1,5=x`: `ax⏎` -/
def exOobMem : Canon := { mode := .f, bounds := ['1', ',', '5'], d := Option.some [':'], mem := Option.some ['1'] }

example :
    ∃ run, tucMain (fun _ => true) (canonArgv exOobMem) [[97, 58], [98, 58, 99, 10]] = .run run ∧
      run.status = .fail ∧
      ((specRunRecords exOobMem.cfg []).status = .ok →
        run.out = (specRunRecords exOobMem.cfg []).out ++
          (openBracket exOobMem.cfg ++ (emitThen exOobMem.cfg ⟨[97], [(1, [98]), (1, [99])]⟩ (specSep exOobMem.cfg)
            (specJoiner exOobMem.cfg) (rewriteList exOobMem.cfg 3 [.bound { l := .some 1, r := .some 1 }])).out)) :=
  tucMain_never_silent_fixedMemory_admissible _ exOobMem (.of_accepted (by decide +kernel) rfl rfl) rfl
    (by decide +kernel) _ (by decide +kernel) [] [] [97, 58, 98, 58, 99] (by decide +kernel)
    ⟨[97], [(1, [98]), (1, [99])]⟩ [.bound { l := .some 1, r := .some 1 }] []
    { l := .some 5, r := .some 5, isLast := true } (by decide +kernel) (by decide +kernel) (by decide +kernel)
    (by decide +kernel) rfl rfl

example :
    tucMain (fun _ => true) (canonArgv exOobMem) [[97, 58], [98, 58, 99, 10]] = .run ⟨[97], .fail⟩ := by
  decide +kernel

example :
    tucMain (fun _ => true) (canonArgv { exOobMem with bounds := ['1', ',', '5', '=', 'x'] }) [[97, 58], [98, 58, 99, 10]] =
      .run (Run.ok [97, 120, 10]) :=
  (tucMain_fallback_fixedMemory_admissible _ { exOobMem with bounds := ['1', ',', '5', '=', 'x'] }
    (.of_accepted (by decide +kernel) rfl rfl) rfl (by decide +kernel) _ (by decide +kernel) [] []
    [97, 58, 98, 58, 99] (by decide +kernel) ⟨[97], [(1, [98]), (1, [99])]⟩
    [.bound { l := .some 1, r := .some 1 }] []
    { l := .some 5, r := .some 5, isLast := true, fallback := Option.some [120] } [120] (by decide +kernel)
    (by decide +kernel) (by decide +kernel) (by decide +kernel) rfl).trans (by decide +kernel)

/-- `tuc -l 1,5` on `a⏎b⏎c⏎` (one line at a time): failure -/
example :
    ∃ run, tucMain (fun _ => true) (canonArgv { mode := .l, bounds := ['1', ',', '5'] }) [[97, 10, 98], [10, 99, 10]] =
      .run run ∧ run.status = .fail :=
  tucMain_never_silent_lines _ { mode := .l, bounds := ['1', ',', '5'] } (.of_accepted (by decide +kernel) rfl rfl)
    rfl rfl rfl rfl rfl rfl rfl rfl _ (by decide +kernel) (by decide +kernel) (by decide +kernel)
    [.bound { l := .some 1, r := .some 1 }] [] { l := .some 5, r := .some 5, isLast := true }
    (by decide +kernel) (by decide +kernel) rfl rfl

/-- `tuc -l 3,5,1` on `a⏎b⏎c⏎` (buffered): `c⏎`, then failure; `tuc -l 3,5=x,1`: `c⏎x⏎a⏎` -/
def exOobLines : Canon := { mode := .l, bounds := ['3', ',', '5', ',', '1'] }

example :
    tucMain (fun _ => true) (canonArgv exOobLines) [[97, 10, 98], [10, 99, 10]] = .run ⟨[99, 10], .fail⟩ :=
  (tucMain_never_silent_lines_buffered _ exOobLines (.of_accepted (by decide +kernel) rfl rfl)
    rfl rfl rfl rfl rfl rfl rfl rfl (Or.inr (by decide +kernel)) _ (by decide +kernel) (by decide +kernel)
    (by decide +kernel) [.bound { l := .some 3, r := .some 3 }]
    [.bound { l := .some 1, r := .some 1, isLast := true }] { l := .some 5, r := .some 5 }
    (by decide +kernel) (by decide +kernel) rfl rfl).trans (by decide +kernel)

example :
    tucMain (fun _ => true) (canonArgv { exOobLines with bounds := ['3', ',', '5', '=', 'x', ',', '1'] })
      [[97, 10, 98], [10, 99, 10]] = .run (Run.ok [99, 10, 120, 10, 97, 10]) :=
  (tucMain_fallback_lines_buffered _ { exOobLines with bounds := ['3', ',', '5', '=', 'x', ',', '1'] }
    (.of_accepted (by decide +kernel) rfl rfl)
    rfl rfl rfl rfl rfl rfl rfl rfl (Or.inr (by decide +kernel)) _ (by decide +kernel) (by decide +kernel)
    (by decide +kernel) [.bound { l := .some 3, r := .some 3 }]
    [.bound { l := .some 1, r := .some 1, isLast := true }]
    { l := .some 5, r := .some 5, fallback := Option.some [120] } [120]
    (by decide +kernel) (by decide +kernel) rfl).trans (by decide +kernel)

/-- `tuc -b 2,9,1` on `00 0A FF`: `0A`, then failure; `tuc -b 2,9=x,1`: `0A 78 00` -/
def exOobBytes : Canon := { mode := .b, bounds := ['2', ',', '9', ',', '1'] }

example : tucMain (fun _ => true) (canonArgv exOobBytes) [[0, 10], [255]] = .run ⟨[10], .fail⟩ :=
  (tucMain_never_silent_bytes _ exOobBytes (.of_accepted (by decide +kernel) rfl rfl) rfl rfl rfl _
    (by decide) [.bound { l := .some 2, r := .some 2 }] [.bound { l := .some 1, r := .some 1, isLast := true }]
    { l := .some 9, r := .some 9 } (by decide +kernel) (by decide +kernel) rfl rfl).trans (by decide +kernel)

example :
    tucMain (fun _ => true) (canonArgv { exOobBytes with bounds := ['2', ',', '9', '=', 'x', ',', '1'] })
      [[0, 10], [255]] = .run (Run.ok [10, 120, 0]) :=
  (tucMain_fallback_bytes _ { exOobBytes with bounds := ['2', ',', '9', '=', 'x', ',', '1'] }
    (.of_accepted (by decide +kernel) rfl rfl) rfl rfl rfl _
    (by decide) [.bound { l := .some 2, r := .some 2 }] [.bound { l := .some 1, r := .some 1, isLast := true }]
    { l := .some 9, r := .some 9, fallback := Option.some [120] } [120] (by decide +kernel) (by decide +kernel)
    rfl).trans (by decide +kernel)

/-- **the restriction of the `-l` fallback theorem is needed** (known finding): `tuc -l 1:5=x` on
    `a⏎b⏎c⏎` is served one line at a time, prints the three lines and fails, although the bound
    `1:5` does not resolve and has a fallback; the buffered algorithm (`-l 1:5=x,1`, not
    forward-only) prints `x⏎a⏎` -/
example :
    tucMain (fun _ => true) (canonArgv { mode := .l, bounds := ['1', ':', '5', '=', 'x'] }) [[97, 10, 98, 10, 99, 10]] =
      .run ⟨[97, 10, 98, 10, 99], .fail⟩ ∧
    tucMain (fun _ => true) (canonArgv { mode := .l, bounds := ['1', ':', '5', '=', 'x', ',', '1'] })
      [[97, 10, 98, 10, 99, 10]] = .run (Run.ok [120, 10, 97, 10]) := by
  decide +kernel

/-- … and the restriction of the `-M` theorems (`hadm`): `tuc -f 1:3=x -d : -M 1` on `a:b⏎` has
    written `a:b` when it finds the record too short, and then adds the fallback: `a:bx⏎`, status 0;
    without `-M` it prints `x⏎` (the specification) -/
example :
    let K : Canon := { mode := .f, bounds := ['1', ':', '3', '=', 'x'], d := Option.some [':'], mem := Option.some ['1'] }
    tucMain (fun _ => true) (canonArgv K) [[97, 58, 98, 10]] = .run (Run.ok [97, 58, 98, 120, 10]) ∧
    tucMain (fun _ => true) (canonArgv { K with mem := none }) [[97, 58, 98, 10]] = .run (Run.ok [120, 10]) := by
  decide +kernel

/-! ## 3. C09 at the level of the program -/

/-- the mirror image of a written index w.r.t. `n` parts: `-k ↦ n+1-k` (`1 ≤ k ≤ n`) -/
def mirrorSide (n : Nat) : Side → Side
  | .some v => if v < 0 ∧ -(n : Int) ≤ v then .some ((n : Int) + 1 + v) else .some v
  | .cont => .cont

def mirrorBound (n : Nat) (b : UserBounds) : UserBounds :=
  { b with l := mirrorSide n b.l, r := mirrorSide n b.r }

/-- **the mirrored bounds list**: every negative index that designates one of the `n` parts is
    replaced by the positive index of the same part; everything else stays -/
def mirrorBofs (n : Nat) : List BoF → List BoF
  | [] => []
  | .filler f :: t => .filler f :: mirrorBofs n t
  | .bound b :: t => .bound (mirrorBound n b) :: mirrorBofs n t

theorem mirrorSide_mirror (n : Nat) (s : Side) : MirrorSide n s (mirrorSide n s) := by
  cases s with
  | cont => exact .same _
  | some v =>
    simp only [mirrorSide]
    by_cases h : v < 0 ∧ -(n : Int) ≤ v
    · rw [if_pos h]
      have e1 : v = -((-v).toNat : Int) := by omega
      have e2 : (n : Int) + 1 + v = (n : Int) + 1 - ((-v).toNat : Int) := by omega
      rw [e2]
      conv => lhs; rw [e1]
      exact .flip _ (by omega) (by omega)
    · rw [if_neg h]; exact .same _

theorem mirrorBofs_mirrorList (n : Nat) : ∀ l : List BoF, MirrorList n l (mirrorBofs n l)
  | [] => .nil
  | .filler f :: t => .filler f (mirrorBofs_mirrorList n t)
  | .bound b :: t =>
    .bound ⟨mirrorSide_mirror n b.l, mirrorSide_mirror n b.r, rfl, rfl⟩ (mirrorBofs_mirrorList n t)

/-- **C09 at the level of the program, field mode** (`-f` or no mode option; general engine and
    fast lane; with or without `--json`; any of `-g -p -s -t -z -m -j --no-join -r --fallback-oob`,
    format text and fallbacks in the bounds).  Let `K` be an accepted canonical command line, `t'`
    another bounds text such that `K` with `t'` is accepted too, and let the bounds `t'` parses to
    be the bounds of `K` with any of its negative indexes `-k` rewritten into `n+1-k`
    (`MirrorList n`; `mirrorBofs n` rewrites them all).  On an input all of whose records have `n`
    fields — in any read segmentation — `tuc` with the one and with the other command line does the
    same: the same bytes on stdout, the same exit status.

    Lifts `specRun_mirror` (C09Runs), the law behind `readAndCutStr_mirror` and
    `readAndCutFast_mirror`, through `tuc_fields_eq_spec` / `tuc_fields_json_eq_spec` (which
    contain the choice between the fast lane and the general engine, C02, and C01 / C08) on both
    command lines. -/
theorem tucMain_mirror_fields (regexOk : Arg → Bool) (K : Canon) (t' : Arg) (hK : K.Accepted regexOk)
    (hK' : (K.withBounds t').Accepted regexOk) (hmode : K.mode = .f ∨ K.mode = .dflt)
    (hd : K.d ≠ Option.some []) (he : K.e = none) (hM : K.mem = none) (n : Nat) (segs : List Bytes)
    (hn : ∀ r ∈ records K.eol.byte segs.flatten, HasNFields K.cfg n r)
    (hm : MirrorList n K.ubl.list (K.withBounds t').ubl.list) :
    tucMain regexOk (canonArgv (K.withBounds t')) segs = tucMain regexOk (canonArgv K) segs := by
  have hmode' : (K.withBounds t').mode = .f ∨ (K.withBounds t').mode = .dflt := by
    rcases hmode with h | h <;> simp [Canon.withBounds, Mode.orF, h]
  rw [hK.main_fields hmode hd he hM, hK'.main_fields hmode' hd he hM]
  exact congrArg MainResult.run (specRun_mirror (K.sameButBofs_withBounds t') n segs.flatten hn hm)

/-- **C09 at the level of the program, `-l`.**  `n` is the number of lines of the input.  The
    command line with the negative index is served by the buffered algorithm, the rewritten one
    possibly one line at a time.  Hypotheses: those of `readAndCutLines_mirror` (the domain of C05:
    no `-s -t -g -p -r`, valid UTF-8, neither empty nor a lone EOL; `hfwd`: if the rewritten request
    is served one line at a time it is a plain list of bounds that resolve — see the example after
    `readAndCutLines_mirror` for what happens otherwise).  Lifts `readAndCutLines_mirror`. -/
theorem tucMain_mirror_lines (regexOk : Arg → Bool) (K : Canon) (t' : Arg) (hK : K.Accepted regexOk)
    (hK' : (K.withBounds t').Accepted regexOk) (hmode : K.mode = .l) (he : K.e = none)
    (hM : K.mem = none) (hs : K.s = false) (ht : K.tr = none) (hg : K.g = false) (hp : K.p = false)
    (hr : K.r = none) (segs : List Bytes) (hutf : validUtf8 segs.flatten = true)
    (h0 : segs.flatten ≠ []) (h1 : segs.flatten ≠ [K.eol.byte])
    (hm : MirrorList (records K.eol.byte segs.flatten).length K.ubl.list (K.withBounds t').ubl.list)
    (hfwd : K.m = false → isForwardOnly (K.withBounds t').ubl.list = true →
      ∃ bs : List UserBounds, (K.withBounds t').ubl.list = bs.map .bound ∧
        ∀ b ∈ bs, resolve b (records K.eol.byte segs.flatten).length ≠ none) :
    tucMain regexOk (canonArgv (K.withBounds t')) segs = tucMain regexOk (canonArgv K) segs := by
  have hmode' : (K.withBounds t').mode = .l := by simp [Canon.withBounds, Mode.orF, hmode]
  obtain ⟨hdl, hty, hjson, honly, htrim, hgr, hcp, hrepl⟩ := K.lines_facts hK.accepted hmode hs ht hg hp hr
  have hgood := hK.good
  rw [← K.optOf_bounds] at hgood hm
  rw [hK.main_lines hmode he hM, hK'.main_lines hmode' he hM, K.optOf_withBounds t']
  exact congrArg MainResult.run
    (readAndCutLines_mirror (optOf K.table) (K.withBounds t').ubl segs.flatten hm hdl hty rfl hjson
      hgood.1 hgood.2 honly htrim hgr hcp hrepl hutf h0 h1 hfwd)

/-- **C09 at the level of the program, `-b`.**  `n` is the number of bytes of the input; no side
    condition.  Lifts `readAndCutBytes_mirror`. -/
theorem tucMain_mirror_bytes (regexOk : Arg → Bool) (K : Canon) (t' : Arg) (hK : K.Accepted regexOk)
    (hK' : (K.withBounds t').Accepted regexOk) (hmode : K.mode = .b) (he : K.e = none)
    (hM : K.mem = none) (segs : List Bytes)
    (hm : MirrorList segs.flatten.length K.ubl.list (K.withBounds t').ubl.list) :
    tucMain regexOk (canonArgv (K.withBounds t')) segs = tucMain regexOk (canonArgv K) segs := by
  have hmode' : (K.withBounds t').mode = .b := by simp [Canon.withBounds, Mode.orF, hmode]
  rw [← K.optOf_bounds] at hm
  rw [hK.main_bytes hmode he hM, hK'.main_bytes hmode' he hM, K.optOf_withBounds t']
  exact congrArg MainResult.run (readAndCutBytes_mirror (optOf K.table) (K.withBounds t').ubl segs.flatten hm)

/-- `tuc -f 2,-1 -d :` -/
def exMirror : Canon := { mode := .f, bounds := ['2', ',', '-', '1'], d := Option.some [':'] }

/-- on records of three fields `-f 2,-1` is `-f 2,3` (fast lane; the first scans whole records, the
    second stops after field 3) -/
example :
    tucMain (fun _ => true) (canonArgv (exMirror.withBounds ['2', ',', '3']))
        [[97, 58, 98, 58, 99, 10, 120], [58, 121, 58, 122, 10]] =
      tucMain (fun _ => true) (canonArgv exMirror) [[97, 58, 98, 58, 99, 10, 120], [58, 121, 58, 122, 10]] :=
  tucMain_mirror_fields _ exMirror _ (.of_accepted (by decide +kernel) rfl rfl)
    (.of_accepted (by decide +kernel) rfl rfl) (Or.inl rfl) (by decide) rfl rfl 3 _ (by decide +kernel)
    (by
      rw [show (exMirror.withBounds ['2', ',', '3']).ubl.list = mirrorBofs 3 exMirror.ubl.list by decide +kernel]
      exact mirrorBofs_mirrorList _ _)

example :
    canonArgv exMirror = [['-', 'f'], ['2', ',', '-', '1'], ['-', 'd'], [':']] ∧
    canonArgv (exMirror.withBounds ['2', ',', '3']) = [['-', 'f'], ['2', ',', '3'], ['-', 'd'], [':']] ∧
    tucMain (fun _ => true) (canonArgv exMirror) [[97, 58, 98, 58, 99, 10, 120], [58, 121, 58, 122, 10]] =
      .run (Run.ok [98, 99, 10, 121, 122, 10]) := by
  decide +kernel

/-- the same with `-g --json` (general engine; `["b","c"]`) -/
example :
    let K : Canon := { exMirror with g := true, json := true }
    tucMain (fun _ => true) (canonArgv (K.withBounds ['2', ',', '3'])) [[97, 58, 58, 98, 58, 99, 10]] =
      tucMain (fun _ => true) (canonArgv K) [[97, 58, 58, 98, 58, 99, 10]] :=
  tucMain_mirror_fields _ { exMirror with g := true, json := true } _ (.of_accepted (by decide +kernel) rfl rfl)
    (.of_accepted (by decide +kernel) rfl rfl) (Or.inl rfl) (by decide) rfl rfl 3 _ (by decide +kernel)
    (by
      rw [show (({ exMirror with g := true, json := true } : Canon).withBounds ['2', ',', '3']).ubl.list =
        mirrorBofs 3 ({ exMirror with g := true, json := true } : Canon).ubl.list by decide +kernel]
      exact mirrorBofs_mirrorList _ _)

/-- `tuc -l 1,-1` (buffered) and `tuc -l 1,3` (one line at a time) on `a⏎b⏎c⏎` -/
def exMirrorLines : Canon := { mode := .l, bounds := ['1', ',', '-', '1'] }

example :
    tucMain (fun _ => true) (canonArgv (exMirrorLines.withBounds ['1', ',', '3'])) [[97, 10, 98], [10, 99, 10]] =
      tucMain (fun _ => true) (canonArgv exMirrorLines) [[97, 10, 98], [10, 99, 10]] :=
  tucMain_mirror_lines _ exMirrorLines _ (.of_accepted (by decide +kernel) rfl rfl)
    (.of_accepted (by decide +kernel) rfl rfl) rfl rfl rfl rfl rfl rfl rfl rfl _ (by decide +kernel)
    (by decide +kernel) (by decide +kernel)
    (by
      rw [show (exMirrorLines.withBounds ['1', ',', '3']).ubl.list =
        mirrorBofs (records exMirrorLines.eol.byte [[97, 10, 98], [10, 99, 10]].flatten).length
          exMirrorLines.ubl.list by decide +kernel]
      exact mirrorBofs_mirrorList _ _)
    (fun _ _ => ⟨[{ l := .some 1, r := .some 1 }, { l := .some 3, r := .some 3, isLast := true }],
      by decide +kernel, by decide +kernel⟩)

example :
    tucMain (fun _ => true) (canonArgv exMirrorLines) [[97, 10, 98], [10, 99, 10]] = .run (Run.ok [97, 10, 99, 10]) ∧
    isForwardOnly exMirrorLines.ubl.list = false ∧
    isForwardOnly (exMirrorLines.withBounds ['1', ',', '3']).ubl.list = true := by
  decide +kernel

/-- `tuc -b 1,-1` and `tuc -b 1,4` on the bytes `FF 00 0A 61` -/
def exMirrorBytes : Canon := { mode := .b, bounds := ['1', ',', '-', '1'] }

example :
    tucMain (fun _ => true) (canonArgv (exMirrorBytes.withBounds ['1', ',', '4'])) [[0xFF, 0], [10, 97]] =
      tucMain (fun _ => true) (canonArgv exMirrorBytes) [[0xFF, 0], [10, 97]] :=
  tucMain_mirror_bytes _ exMirrorBytes _ (.of_accepted (by decide +kernel) rfl rfl)
    (.of_accepted (by decide +kernel) rfl rfl) rfl rfl rfl _
    (by
      rw [show (exMirrorBytes.withBounds ['1', ',', '4']).ubl.list =
        mirrorBofs [[0xFF, 0], [10, 97]].flatten.length exMirrorBytes.ubl.list by decide +kernel]
      exact mirrorBofs_mirrorList _ _)

example : tucMain (fun _ => true) (canonArgv exMirrorBytes) [[0xFF, 0], [10, 97]] = .run (Run.ok [0xFF, 97]) := by
  decide +kernel

/-- **`-M` is outside C09** (and the task's list): `StreamOpt::try_from` refuses negative indexes, so
    `tuc -f 1,-1 -d : -M 1` is rejected up front while its mirror `tuc -f 1,3 -d : -M 1` runs -/
example :
    let K : Canon := { mode := .f, bounds := ['1', ',', '-', '1'], d := Option.some [':'], mem := Option.some ['1'] }
    K.accepted = true ∧ (K.withBounds ['1', ',', '3']).accepted = true ∧
    (K.withBounds ['1', ',', '3']).ubl.list = mirrorBofs 3 K.ubl.list ∧
    tucMain (fun _ => true) (canonArgv K) [[97, 58, 98, 58, 99, 10]] = .reject ∧
    tucMain (fun _ => true) (canonArgv (K.withBounds ['1', ',', '3'])) [[97, 58, 98, 58, 99, 10]] =
      .run (Run.ok [97, 99, 10]) := by
  decide +kernel

/-! ## 4. the text of a bounds list: `boundsToText`, read back by `UserBoundsList::from_str`

For the program-level forms of C09 and C15 in which the second command line is COMPUTED from the
first (§5).  Numbers are printed in decimal (`natToText`, structural recursion with fuel so that
`decide` evaluates it), a bound as `N` or `L:R`, a list as its bounds joined by `,`.  Only lists made
of bounds without fallbacks are printed (`PrintableList`; decidable form `printableListB`): format
text and fallbacks would need the inverse of `utf8` and of the filler un-escaping. -/

def digitChar (d : Nat) : Char := Char.ofNat (48 + d)

def natToTextFuel : Nat → Nat → List Char
  | 0, _ => ['0']
  | fuel + 1, n => if n < 10 then [digitChar n] else natToTextFuel fuel (n / 10) ++ [digitChar (n % 10)]

/-- decimal digits of `n` -/
def natToText (n : Nat) : List Char := natToTextFuel n n

theorem digitVal_digitChar : ∀ d, d < 10 → digitVal (digitChar d) = Option.some d := by decide

theorem parseDigits_append (s t : List Char) : ∀ acc, parseDigits (s ++ t) acc = (parseDigits s acc).bind (parseDigits t) := by
  induction s with
  | nil => intro acc; rfl
  | cons c s ih =>
    intro acc
    simp only [List.cons_append, parseDigits]
    cases digitVal c with
    | none => rfl
    | some d => exact ih _

theorem natToTextFuel_parse : ∀ fuel n, n ≤ fuel → parseDigits (natToTextFuel fuel n) 0 = Option.some n
  | 0, n, h => by
    have : n = 0 := by omega
    subst this; decide
  | fuel + 1, n, h => by
    unfold natToTextFuel
    by_cases hn : n < 10
    · rw [if_pos hn]
      simp only [parseDigits, digitVal_digitChar n hn]
      simp
    · rw [if_neg hn, parseDigits_append, natToTextFuel_parse fuel (n / 10) (by omega)]
      simp only [Option.bind_some, parseDigits, digitVal_digitChar (n % 10) (by omega)]
      congr 1; omega

def digitChars : List Char := ['0', '1', '2', '3', '4', '5', '6', '7', '8', '9']

abbrev IsDigit (c : Char) : Prop := c ∈ digitChars

theorem isDigit_digitChar : ∀ d, d < 10 → IsDigit (digitChar d) := by decide

theorem natToTextFuel_digits : ∀ fuel n, ∀ c ∈ natToTextFuel fuel n, IsDigit c
  | 0, n => by intro c hc; simp [natToTextFuel] at hc; subst hc; decide
  | fuel + 1, n => by
    intro c hc
    unfold natToTextFuel at hc
    by_cases hn : n < 10
    · rw [if_pos hn] at hc
      simp at hc; subst hc; exact isDigit_digitChar n hn
    · rw [if_neg hn] at hc
      simp only [List.mem_append, List.mem_singleton] at hc
      rcases hc with hc | hc
      · exact natToTextFuel_digits fuel _ c hc
      · subst hc; exact isDigit_digitChar _ (by omega)

theorem natToTextFuel_ne_nil : ∀ fuel n, natToTextFuel fuel n ≠ []
  | 0, n => by simp [natToTextFuel]
  | fuel + 1, n => by
    unfold natToTextFuel
    by_cases hn : n < 10
    · rw [if_pos hn]; simp
    · rw [if_neg hn]; simp

theorem natToText_parse (n : Nat) : parseDigits (natToText n) 0 = Option.some n := natToTextFuel_parse n n (Nat.le_refl _)
theorem natToText_digits (n : Nat) : ∀ c ∈ natToText n, IsDigit c := natToTextFuel_digits n n
theorem natToText_ne_nil (n : Nat) : natToText n ≠ [] := natToTextFuel_ne_nil n n

/-- a written index, as `str::parse::<i32>` reads it back -/
def intToText (v : Int) : List Char := if v < 0 then '-' :: natToText (-v).toNat else natToText v.toNat

theorem parseI32_digits (s : List Char) (hne : s ≠ []) (hd : ∀ c ∈ s, IsDigit c) (n : Nat)
    (hp : parseDigits s 0 = Option.some n) (hr : (n : Int) ≤ i32Max) : parseI32 s = Option.some (n : Int) := by
  cases s with
  | nil => exact absurd rfl hne
  | cons c cs =>
    have hc : IsDigit c := hd c (List.mem_cons_self ..)
    have h1 : c ≠ '-' := by intro h; subst h; revert hc; decide
    have h2 : c ≠ '+' := by intro h; subst h; revert hc; decide
    unfold parseI32
    split
    rename_i x neg ds heq
    split at heq
    · rename_i t h; simp at h; exact absurd h.1 h1
    · rename_i t h; simp at h; exact absurd h.1 h2
    · cases heq
      simp only [List.isEmpty_cons, Bool.false_eq_true, if_false, hp]
      have : i32Min ≤ (n : Int) ∧ (n : Int) ≤ i32Max := ⟨by unfold i32Min; omega, hr⟩
      simp [this]

theorem parseI32_intToText (v : Int) (h1 : i32Min ≤ v) (h2 : v ≤ i32Max) : parseI32 (intToText v) = Option.some v := by
  unfold intToText
  by_cases hv : v < 0
  · rw [if_pos hv]
    have hp := natToText_parse (-v).toNat
    have hne := natToText_ne_nil (-v).toNat
    unfold parseI32
    simp only []
    have he : (natToText (-v).toNat).isEmpty = false := by
      cases h : natToText (-v).toNat with
      | nil => exact absurd h hne
      | cons _ _ => rfl
    simp only [he, Bool.false_eq_true, if_false, hp, if_true]
    have : i32Min ≤ -(((-v).toNat : Nat) : Int) ∧ -(((-v).toNat : Nat) : Int) ≤ i32Max := by
      unfold i32Min i32Max at *; omega
    rw [if_pos this]
    congr 1; omega
  · rw [if_neg hv]
    have := parseI32_digits (natToText v.toNat) (natToText_ne_nil _) (natToText_digits _) v.toNat (natToText_parse _)
      (by unfold i32Max at *; omega)
    rw [this]; congr 1; omega

/-- `Side::from_str` reads it back -/
def sideToText : Side → List Char
  | .cont => []
  | .some v => intToText v

theorem intToText_ne_nil (v : Int) : intToText v ≠ [] := by
  unfold intToText
  split
  · simp
  · exact natToText_ne_nil _

theorem parseSide_sideToText (s : Side) (h : s.InI32) : parseSide (sideToText s) = Option.some s := by
  cases s with
  | cont => rfl
  | some v =>
    unfold parseSide sideToText
    have : (intToText v).isEmpty = false := by
      cases h' : intToText v with
      | nil => exact absurd h' (intToText_ne_nil v)
      | cons _ _ => rfl
    rw [this]
    simp only [Bool.false_eq_true, if_false, parseI32_intToText v h.1 h.2, Option.map_some]

theorem splitOnce_eq_none (c : Char) : ∀ s : List Char, (∀ x ∈ s, x ≠ c) → splitOnce c s = none
  | [], _ => rfl
  | x :: t, h => by
    have hx : x ≠ c := h x (List.mem_cons_self ..)
    simp only [splitOnce, if_neg hx, splitOnce_eq_none c t (fun y hy => h y (List.mem_cons_of_mem _ hy))]

theorem findChar_none (c : Char) : ∀ s : List Char, (∀ x ∈ s, x ≠ c) → findChar c s = none
  | [], _ => rfl
  | x :: t, h => by
    have hx : x ≠ c := h x (List.mem_cons_self ..)
    simp only [findChar, if_neg hx, findChar_none c t (fun y hy => h y (List.mem_cons_of_mem _ hy)), Option.map_none]

theorem findChar_append (c : Char) : ∀ (L R : List Char), (∀ x ∈ L, x ≠ c) → findChar c (L ++ c :: R) = Option.some L.length
  | [], R, _ => by simp [findChar]
  | x :: t, R, h => by
    have hx : x ≠ c := h x (List.mem_cons_self ..)
    simp only [List.cons_append, findChar, if_neg hx,
      findChar_append c t R (fun y hy => h y (List.mem_cons_of_mem _ hy)), Option.map_some, List.length_cons]

/-- a single index -/
theorem parseUserBounds_single (s : List Char) (v : Int) (h1 : ∀ x ∈ s, x ≠ '=') (h2 : ∀ x ∈ s, x ≠ ':')
    (hne : s ≠ []) (hp : parseSide s = Option.some (.some v)) (hv : v ≠ 0) :
    parseUserBounds s = Option.some { l := .some v, r := .some v, isLast := false, fallback := none } := by
  have he : s.isEmpty = false := by cases s with | nil => exact absurd rfl hne | cons _ _ => rfl
  have hc : s ≠ [':'] := by intro h; rw [h] at h2; exact h2 ':' (by simp) rfl
  unfold parseUserBounds
  simp only [splitOnce_eq_none '=' s h1, he, Bool.false_eq_true, if_false, hc, findChar_none ':' s h2, hp,
    Option.map_some]
  have h0 : ¬ (Side.some v = Side.some 0) := by intro h; cases h; exact hv rfl
  simp only [h0, if_false]
  have : ¬ (v < v ∧ sameSign v v = true) := by omega
  simp only [this, if_false]

/-- a range `L:R` -/
theorem parseUserBounds_range (L R : List Char) (l r : Side)
    (h1 : ∀ x ∈ L ++ R, x ≠ '=') (h2 : ∀ x ∈ L ++ R, x ≠ ':')
    (hL : parseSide L = Option.some l) (hR : parseSide R = Option.some r)
    (hLe : L = [] ↔ l = .cont) (hRe : R = [] ↔ r = .cont) (hboth : ¬ (l = .cont ∧ r = .cont))
    (hl0 : l ≠ .some 0) (hr0 : r ≠ .some 0)
    (hord : ∀ x y, l = .some x → r = .some y → ¬ (y < x ∧ sameSign y x = true)) :
    parseUserBounds (L ++ ':' :: R) = Option.some { l := l, r := r, isLast := false, fallback := none } := by
  have hs1 : ∀ x ∈ L ++ ':' :: R, x ≠ '=' := by
    intro x hx
    simp only [List.mem_append, List.mem_cons] at hx
    rcases hx with hx | rfl | hx
    · exact h1 x (List.mem_append_left _ hx)
    · decide
    · exact h1 x (List.mem_append_right _ hx)
  have he : (L ++ ':' :: R).isEmpty = false := by cases L <;> rfl
  have hLc : ∀ x ∈ L, x ≠ ':' := fun x hx => h2 x (List.mem_append_left _ hx)
  have hc : L ++ ':' :: R ≠ [':'] := by
    intro h
    cases L with
    | nil =>
      simp only [List.nil_append, List.cons.injEq, true_and] at h
      exact hboth ⟨hLe.1 rfl, hRe.1 h⟩
    | cons a t =>
      simp only [List.cons_append, List.cons.injEq] at h
      cases t <;> simp at h
  unfold parseUserBounds
  simp only [splitOnce_eq_none '=' _ hs1, he, Bool.false_eq_true, if_false, hc, findChar_append ':' L R hLc]
  have hfin : ∀ l r : Side, l ≠ .some 0 → r ≠ .some 0 →
      (∀ x y, l = .some x → r = .some y → ¬ (y < x ∧ sameSign y x = true)) →
      (if l = Side.some 0 then none else if r = Side.some 0 then none else
        match l, r with
        | .some left, .some right =>
          if right < left ∧ sameSign right left = true then none
          else Option.some ({ l := l, r := r, isLast := false, fallback := none } : UserBounds)
        | _, _ => Option.some { l := l, r := r, isLast := false, fallback := none }) =
      Option.some { l := l, r := r, isLast := false, fallback := none } := by
    intro l r hl hr ho
    rw [if_neg hl, if_neg hr]
    cases l with
    | cont => rfl
    | some x =>
      cases r with
      | cont => rfl
      | some y => simp only [ho x y rfl rfl, if_false]
  by_cases hL0 : L = []
  · subst hL0
    have hlc := hLe.1 rfl
    subst hlc
    simp only [List.length_nil, if_true, List.nil_append, List.drop_succ_cons, List.drop_zero, hR, Option.map_some]
    exact hfin _ _ hl0 hr0 hord
  · have hlen : L.length ≠ 0 := by cases L with | nil => exact absurd rfl hL0 | cons _ _ => simp
    simp only [hlen, if_false]
    by_cases hR0 : R = []
    · subst hR0
      have hrc := hRe.1 rfl
      subst hrc
      have : L.length = (L ++ [':']).length - 1 := by simp
      simp only [← this, if_true, List.take_left', hL, Option.map_some]
      rw [if_neg hl0, if_neg hr0]
    · have : ¬ (L.length = (L ++ ':' :: R).length - 1) := by
        cases R with
        | nil => exact absurd rfl hR0
        | cons _ _ => simp
      simp only [this, if_false]
      have ht : (L ++ ':' :: R).take L.length = L := by simp
      have hd : (L ++ ':' :: R).drop (L.length + 1) = R := by
        rw [show L ++ ':' :: R = (L ++ [':']) ++ R by simp]
        exact List.drop_left' (by simp)
      rw [ht, hd, hL, hR]
      exact hfin _ _ hl0 hr0 hord

/-- the characters a printed index is made of -/
def sideChars : List Char := '-' :: digitChars

theorem sideChars_facts : ∀ c ∈ sideChars, c ≠ '=' ∧ c ≠ ':' ∧ c ≠ ',' ∧ c ≠ '{' ∧ c ≠ '}' ∧ isWhitespace c = false := by
  decide

theorem intToText_chars (v : Int) : ∀ c ∈ intToText v, c ∈ sideChars := by
  intro c hc
  unfold intToText at hc
  split at hc
  · simp only [List.mem_cons] at hc
    rcases hc with rfl | hc
    · exact List.mem_cons_self ..
    · exact List.mem_cons_of_mem _ (natToText_digits _ c hc)
  · exact List.mem_cons_of_mem _ (natToText_digits _ c hc)

theorem sideToText_chars (s : Side) : ∀ c ∈ sideToText s, c ∈ sideChars := by
  cases s with
  | cont => intro c hc; cases hc
  | some v => exact intToText_chars v

theorem sideToText_eq_nil (s : Side) : sideToText s = [] ↔ s = .cont := by
  cases s with
  | cont => simp [sideToText]
  | some v => simp [sideToText, intToText_ne_nil]

/-- one bound, as `UserBounds::from_str` reads it back: `N` for `N:N`, else `L:R` (an open side is
    empty).  Fallbacks (`=…`) are not printed. -/
def boundToText (b : UserBounds) : List Char :=
  if b.l = b.r then sideToText b.l else sideToText b.l ++ ':' :: sideToText b.r

/-- what `UserBounds::from_str` accepts, without a fallback -/
structure UserBounds.Printable (b : UserBounds) : Prop where
  l32 : b.l.InI32
  r32 : b.r.InI32
  l0 : b.l ≠ .some 0
  r0 : b.r ≠ .some 0
  some : ¬ (b.l = .cont ∧ b.r = .cont)
  ord : ∀ x y, b.l = .some x → b.r = .some y → ¬ (y < x ∧ sameSign y x = true)
  noFallback : b.fallback = none

theorem parseUserBounds_boundToText (b : UserBounds) (h : b.Printable) :
    parseUserBounds (boundToText b) = Option.some { b with isLast := false } := by
  have hb : ({ b with isLast := false } : UserBounds) = { l := b.l, r := b.r, isLast := false, fallback := none } := by
    rw [← h.noFallback]
  rw [hb]
  unfold boundToText
  by_cases hlr : b.l = b.r
  · rw [if_pos hlr]
    cases hl : b.l with
    | cont => exact absurd ⟨hl, by rw [← hlr, hl]⟩ h.some
    | some v =>
      rw [← hlr, hl]
      have hv : v ≠ 0 := by intro h0; exact h.l0 (by rw [hl, h0])
      exact parseUserBounds_single _ v (fun x hx => (sideChars_facts x (sideToText_chars _ x hx)).1)
        (fun x hx => (sideChars_facts x (sideToText_chars _ x hx)).2.1) (intToText_ne_nil v)
        (parseSide_sideToText (.some v) (by rw [← hl]; exact h.l32)) hv
  · rw [if_neg hlr]
    have hmem : ∀ x ∈ sideToText b.l ++ sideToText b.r, x ∈ sideChars := by
      intro x hx
      rcases List.mem_append.mp hx with hx | hx
      · exact sideToText_chars _ x hx
      · exact sideToText_chars _ x hx
    exact parseUserBounds_range _ _ b.l b.r (fun x hx => (sideChars_facts x (hmem x hx)).1)
      (fun x hx => (sideChars_facts x (hmem x hx)).2.1) (parseSide_sideToText _ h.l32)
      (parseSide_sideToText _ h.r32) (sideToText_eq_nil _) (sideToText_eq_nil _) h.some h.l0 h.r0 h.ord

theorem boundToText_chars (b : UserBounds) : ∀ c ∈ boundToText b, c ∈ ':' :: sideChars := by
  intro c hc
  unfold boundToText at hc
  split at hc
  · exact List.mem_cons_of_mem _ (sideToText_chars _ c hc)
  · simp only [List.mem_append, List.mem_cons] at hc
    rcases hc with hc | rfl | hc
    · exact List.mem_cons_of_mem _ (sideToText_chars _ c hc)
    · exact List.mem_cons_self ..
    · exact List.mem_cons_of_mem _ (sideToText_chars _ c hc)

theorem boundToText_ne_nil (b : UserBounds) (h : b.Printable) : boundToText b ≠ [] := by
  unfold boundToText
  split
  · rename_i hlr
    intro he
    have := (sideToText_eq_nil _).1 he
    exact h.some ⟨this, by rw [← hlr]; exact this⟩
  · simp

/-- `str::join(",")` -/
def joinComma : List (List Char) → List Char
  | [] => []
  | [p] => p
  | p :: q :: t => p ++ ',' :: joinComma (q :: t)

theorem splitOnChar_append (p rest h : List Char) (r : List (List Char)) (hp : ∀ c ∈ p, c ≠ ',')
    (hr : splitOnChar ',' rest = h :: r) : splitOnChar ',' (p ++ rest) = (p ++ h) :: r := by
  induction p with
  | nil => simpa using hr
  | cons x p ih =>
    have hx : x ≠ ',' := hp x (List.mem_cons_self ..)
    simp only [List.cons_append, splitOnChar, if_neg hx, ih (fun c hc => hp c (List.mem_cons_of_mem _ hc))]

theorem splitOnChar_join : ∀ ps : List (List Char), ps ≠ [] → (∀ p ∈ ps, ∀ c ∈ p, c ≠ ',') →
    splitOnChar ',' (joinComma ps) = ps
  | [], h, _ => absurd rfl h
  | [p], _, hp => by
    have := splitOnChar_append p [] [] [] (hp p (List.mem_cons_self ..)) rfl
    simpa [joinComma] using this
  | p :: q :: t, _, hp => by
    have ih := splitOnChar_join (q :: t) (by simp) (fun p' hp' => hp p' (List.mem_cons_of_mem _ hp'))
    have h1 : splitOnChar ',' (',' :: joinComma (q :: t)) = [] :: (q :: t) := by
      simp only [splitOnChar, if_true, ih]
    have := splitOnChar_append p _ [] (q :: t) (hp p (List.mem_cons_self ..)) h1
    simpa [joinComma] using this

theorem parseAll_boundToText : ∀ bs : List UserBounds, (∀ b ∈ bs, b.Printable) →
    parseAll (bs.map boundToText) = Option.some (bs.map fun b => { b with isLast := false })
  | [], _ => rfl
  | b :: t, h => by
    simp only [List.map_cons, parseAll, parseUserBounds_boundToText b (h b (List.mem_cons_self ..)),
      parseAll_boundToText t (fun b' hb' => h b' (List.mem_cons_of_mem _ hb'))]

theorem joinComma_chars : ∀ ps : List (List Char), ∀ c ∈ joinComma ps, c = ',' ∨ ∃ p ∈ ps, c ∈ p
  | [], c, hc => by cases hc
  | [p], c, hc => Or.inr ⟨p, List.mem_cons_self .., hc⟩
  | p :: q :: t, c, hc => by
    simp only [joinComma, List.mem_append, List.mem_cons] at hc
    rcases hc with hc | rfl | hc
    · exact Or.inr ⟨p, List.mem_cons_self .., hc⟩
    · exact Or.inl rfl
    · rcases joinComma_chars (q :: t) c hc with h | ⟨p', hp', hc'⟩
      · exact Or.inl h
      · exact Or.inr ⟨p', List.mem_cons_of_mem _ hp', hc'⟩

theorem joinComma_ne_nil : ∀ ps : List (List Char), (∃ p, ps.head? = Option.some p ∧ p ≠ []) → joinComma ps ≠ []
  | [], ⟨p, h, _⟩ => by cases h
  | [p], ⟨p', h, hp⟩ => by cases h; exact hp
  | p :: q :: t, ⟨p', h, hp⟩ => by
    cases h
    cases p with
    | nil => exact absurd rfl hp
    | cons _ _ => simp [joinComma]

/-- the characters of a printed bounds list -/
def textChars : List Char := ',' :: ':' :: sideChars

theorem textChars_facts : ∀ c ∈ textChars, c ≠ '{' ∧ c ≠ '}' ∧ isWhitespace c = false := by decide

theorem markLast_none_of_no_bounds : ∀ l : List BoF, countBounds l = 0 → markLast l = none
  | [], _ => rfl
  | .filler f :: t, h => by
    simp only [markLast, markLast_none_of_no_bounds t (by simpa [countBounds] using h), Option.map_none]
  | .bound _ :: t, h => by simp [countBounds] at h

theorem map_eraseLast_of_no_bounds : ∀ l : List BoF, countBounds l = 0 → l.map eraseLast = l
  | [], _ => rfl
  | .filler f :: t, h => by
    simp only [List.map_cons, eraseLast, map_eraseLast_of_no_bounds t (by simpa [countBounds] using h)]
  | .bound _ :: t, h => by simp [countBounds] at h

/-- `markLast` puts the flags of a `LastMarked` list back -/
theorem markLast_eraseLast_of_lastMarked : ∀ l : List BoF, LastMarked l → 0 < countBounds l →
    markLast (l.map eraseLast) = Option.some l
  | [], _, h => by simp [countBounds] at h
  | .filler f :: t, hL, h => by
    simp only [List.map_cons, eraseLast, markLast,
      markLast_eraseLast_of_lastMarked t hL (by simpa [countBounds] using h), Option.map_some]
  | .bound b :: t, hL, _ => by
    obtain ⟨hb, hLt⟩ := hL
    simp only [List.map_cons, eraseLast, markLast]
    by_cases hc : countBounds t = 0
    · have hbl : b.isLast = true := hb.2 hc
      rw [map_eraseLast_of_no_bounds t hc, markLast_none_of_no_bounds t hc]
      simp only []
      cases b; simp only at hbl; subst hbl; rfl
    · have hbl : b.isLast = false := by
        cases hbb : b.isLast with
        | false => rfl
        | true => exact absurd (hb.1 hbb) hc
      rw [markLast_eraseLast_of_lastMarked t hLt (by omega)]
      simp only []
      cases b; simp only at hbl; subst hbl; rfl

/-- **the text of a bounds list** made of bounds only, without fallbacks: its bounds joined by `,` -/
def boundsToText (l : List BoF) : Arg := joinComma ((boundsOnly l).map boundToText)

/-- the lists `boundsToText` is for: at least one element, every element a bound that
    `UserBounds::from_str` accepts and that has no fallback -/
def PrintableList (l : List BoF) : Prop := l ≠ [] ∧ ∀ x ∈ l, ∃ b, x = .bound b ∧ b.Printable

theorem eq_map_boundsOnly : ∀ l : List BoF, (∀ x ∈ l, ∃ b, x = BoF.bound b ∧ b.Printable) →
    l = (boundsOnly l).map .bound
  | [], _ => rfl
  | x :: t, h => by
    obtain ⟨b, rfl, _⟩ := h x (List.mem_cons_self ..)
    simp only [boundsOnly, List.map_cons]
    rw [← eq_map_boundsOnly t (fun y hy => h y (List.mem_cons_of_mem _ hy))]

theorem PrintableList.eq_map {l : List BoF} (h : PrintableList l) : l = (boundsOnly l).map .bound :=
  eq_map_boundsOnly l h.2

theorem PrintableList.bounds {l : List BoF} (h : PrintableList l) : ∀ b ∈ boundsOnly l, b.Printable := by
  intro b hb
  obtain ⟨b', hb', hp⟩ := h.2 (.bound b) (mem_boundsOnly_iff.mp hb)
  cases hb'; exact hp

theorem PrintableList.boundsOnly_ne_nil {l : List BoF} (h : PrintableList l) : boundsOnly l ≠ [] := by
  intro he
  have := h.eq_map
  rw [he] at this
  exact h.1 this

/-- **`UserBoundsList::from_str` reads the printed list back**: for a printable list with `is_last`
    on its last bound (what the parser produces, and what mirroring / `-m` rewriting keep) -/
theorem boundsListOfString_boundsToText (l : List BoF) (hp : PrintableList l) (hL : LastMarked l) :
    ∃ li, boundsListOfString (boundsToText l) = .ok ⟨l, li⟩ := by
  have hbs := hp.bounds
  have hne := hp.boundsOnly_ne_nil
  have hpieces : ∀ p ∈ (boundsOnly l).map boundToText, ∀ c ∈ p, c ∈ ':' :: sideChars := by
    intro p hp' c hc
    obtain ⟨b, _, rfl⟩ := List.mem_map.mp hp'
    exact boundToText_chars b c hc
  have hchars : ∀ c ∈ boundsToText l, c ∈ textChars := by
    intro c hc
    rcases joinComma_chars _ c hc with rfl | ⟨p, hp', hc'⟩
    · exact List.mem_cons_self ..
    · exact List.mem_cons_of_mem _ (hpieces p hp' c hc')
  have htne : boundsToText l ≠ [] := by
    apply joinComma_ne_nil
    cases hb : boundsOnly l with
    | nil => exact absurd hb hne
    | cons b t => exact ⟨boundToText b, rfl, boundToText_ne_nil b (hbs b (by rw [hb]; exact List.mem_cons_self ..))⟩
  have hws : (boundsToText l).all isWhitespace = false := by
    cases ht : boundsToText l with
    | nil => exact absurd ht htne
    | cons c cs =>
      have := (textChars_facts c (hchars c (by rw [ht]; exact List.mem_cons_self ..))).2.2
      simp [this]
  have hbr : ((boundsToText l).any fun c => c = '{' ∨ c = '}') = false := by
    rw [List.any_eq_false]
    intro c hc
    have := textChars_facts c (hchars c hc)
    simp [this.1, this.2.1]
  have hsplit : splitOnChar ',' (boundsToText l) = (boundsOnly l).map boundToText := by
    refine splitOnChar_join _ (by simpa using hne) ?_
    intro p hp' c hc
    have hmem := hpieces p hp' c hc
    simp only [List.mem_cons] at hmem
    rcases hmem with rfl | hmem
    · decide
    · exact (sideChars_facts c hmem).2.2.1
  have hpl : parseBoundsList (boundsToText l) = Option.some (l.map eraseLast) := by
    have hemp : (boundsToText l).isEmpty = false := by
      cases ht : boundsToText l with
      | nil => exact absurd ht htne
      | cons _ _ => rfl
    unfold parseBoundsList
    rw [hemp, hbr, hsplit, parseAll_boundToText _ hbs]
    simp only [Bool.false_eq_true, if_false, Option.map_some, List.map_map]
    congr 1
    conv => rhs; rw [hp.eq_map]
    simp only [List.map_map]
    rfl
  have hcb : 0 < countBounds l := by
    rw [hp.eq_map, countBounds_map_bound']
    cases hb : boundsOnly l with
    | nil => exact absurd hb hne
    | cons _ _ => simp
  have hbo : (boundsOnly (l.map eraseLast)).isEmpty = false := by
    cases hl : l with
    | nil => exact absurd hl hp.1
    | cons x t =>
      obtain ⟨b, hb, _⟩ := hp.2 x (by rw [hl]; exact List.mem_cons_self ..)
      subst hb
      rfl
  unfold boundsListOfString
  rw [hws, hpl]
  simp only [Bool.false_eq_true, if_false, hbo]
  unfold fromVec
  rw [markLast_eraseLast_of_lastMarked l hL hcb]
  exact ⟨_, rfl⟩

/-! the decidable form of `PrintableList` -/

def sideOkB : Side → Bool
  | .cont => true
  | .some v => decide (i32Min ≤ v) && decide (v ≤ i32Max) && decide (v ≠ 0)

def UserBounds.printableB (b : UserBounds) : Bool :=
  sideOkB b.l && sideOkB b.r && !(decide (b.l = .cont) && decide (b.r = .cont)) && b.fallback.isNone &&
    (match b.l, b.r with
     | .some x, .some y => !(decide (y < x) && sameSign y x)
     | _, _ => true)

theorem sideOkB_spec {s : Side} (h : sideOkB s = true) : s.InI32 ∧ s ≠ .some 0 := by
  cases s with
  | cont => exact ⟨trivial, by simp⟩
  | some v =>
    simp only [sideOkB, Bool.and_eq_true, decide_eq_true_eq] at h
    exact ⟨⟨h.1.1, h.1.2⟩, by intro h0; cases h0; exact h.2 rfl⟩

theorem UserBounds.printable_of_B {b : UserBounds} (h : b.printableB = true) : b.Printable := by
  simp only [UserBounds.printableB, Bool.and_eq_true] at h
  obtain ⟨⟨⟨⟨hl, hr⟩, hs⟩, hf⟩, ho⟩ := h
  refine ⟨(sideOkB_spec hl).1, (sideOkB_spec hr).1, (sideOkB_spec hl).2, (sideOkB_spec hr).2, ?_, ?_, ?_⟩
  · intro hc
    simp [hc.1, hc.2] at hs
  · intro x y hx hy
    rw [hx, hy] at ho
    simp only [Bool.not_eq_true', Bool.and_eq_false_iff, decide_eq_false_iff_not] at ho
    rintro ⟨h1, h2⟩
    rcases ho with ho | ho
    · exact ho h1
    · rw [h2] at ho; cases ho
  · cases hfb : b.fallback with
    | none => rfl
    | some _ => rw [hfb] at hf; cases hf

def printableListB (l : List BoF) : Bool :=
  !l.isEmpty && l.all fun x => match x with
    | .bound b => b.printableB
    | .filler _ => false

theorem printableList_of_B {l : List BoF} (h : printableListB l = true) : PrintableList l := by
  simp only [printableListB, Bool.and_eq_true, Bool.not_eq_true', List.all_eq_true] at h
  refine ⟨by intro he; rw [he] at h; simp at h, ?_⟩
  intro x hx
  have := h.2 x hx
  cases x with
  | bound b => exact ⟨b, rfl, UserBounds.printable_of_B this⟩
  | filler f => cases this

example : boundsToText [.bound { l := .some 2, r := .some 2 }, .bound { l := .some (-3), r := .cont },
    .bound { l := .cont, r := .some 12, isLast := true }] = ['2', ',', '-', '3', ':', ',', ':', '1', '2'] := by
  decide

/-! ## 5. C09 and C15 with the second command line computed from the first -/

theorem Canon.withM_self (K : Canon) : K.withM K.m = K := by cases K; rfl

/-- the conflicts decided in `parse_args` do not read `-m`, read the mode only as "field mode" /
    "`-c`", and the bounds only as "is there format text" -/
theorem upFrontReject_mono (f f' : Flags) (hmode : f'.mode = f.mode.orF) (hfmt : f'.fmt = false)
    (h1 : f'.mem = f.mem) (h2 : f'.j = f.j) (h3 : f'.noJoin = f.noJoin) (h4 : f'.json = f.json)
    (h5 : f'.r = f.r) (h6 : f'.d = f.d) (h7 : f'.e = f.e) (h8 : f'.extra = f.extra)
    (h : upFrontReject f = false) : upFrontReject f' = false := by
  unfold upFrontReject Flags.isFields at h ⊢
  rw [hmode, hfmt, h1, h2, h3, h4, h5, h6, h7, h8]
  cases hm : f.mode <;> simp_all [Mode.orF]

theorem printableList_noFiller {l : List BoF} (h : PrintableList l) : l.any isFiller = false := by
  rw [List.any_eq_false]
  intro x hx
  obtain ⟨b, rfl, _⟩ := h.2 x hx
  simp [isFiller]

/-- **acceptance carries over** to the command line with or without `-m` and with another bounds
    text, provided that text does not start with `-`, parses, and has no format text -/
theorem Canon.Accepted.withM_withBounds {regexOk : Arg → Bool} {K : Canon} (hK : K.Accepted regexOk)
    (b : Bool) (t : Arg) (hdash : noDash t = true) (l : UserBoundsList)
    (hparse : boundsListOfString t = .ok l) (hfmt : l.list.any isFiller = false) :
    ((K.withM b).withBounds t).Accepted regexOk where
  clean := by
    have hc := hK.clean
    simp only [Canon.clean, Bool.and_eq_true] at hc ⊢
    obtain ⟨⟨⟨⟨⟨⟨⟨_, h2⟩, h3⟩, h4⟩, h5⟩, h6⟩, h7⟩, h8⟩ := hc
    exact ⟨⟨⟨⟨⟨⟨⟨by simp [Canon.withBounds, hdash], h2⟩, h3⟩, h4⟩, h5⟩, h6⟩, h7⟩, h8⟩
  sensible :=
    { nonempty := by
        cases hm : K.mode <;>
          simp [Table.isEmpty, allValIds, Canon.table, Canon.withBounds, Canon.withM, Mode.orF, hm]
      noHelp := rfl
      noVersion := rfl
      oneMode := by
        cases hm : K.mode <;> simp [Canon.table, Canon.withBounds, Canon.withM, Mode.orF, hm]
      bounds := by
        rw [Canon.table_boundsText, Canon.withBounds_boundsText, hparse]; rfl
      mem := hK.sensible.mem
      trim := hK.sensible.trim
      regex := hK.sensible.regex
      charsRegex := hK.sensible.charsRegex }
  noConflict := by
    refine upFrontReject_mono (flagsOf K.table) _ ?_ ?_ rfl rfl rfl rfl rfl rfl rfl rfl hK.noConflict
    · show ((K.withM b).withBounds t).table.mode = K.table.mode.orF
      rw [Canon.table_mode, Canon.table_mode]; rfl
    · show (match boundsListOfString ((K.withM b).withBounds t).table.boundsText with
        | .ok l => l.list.any isFiller
        | _ => false) = false
      rw [Canon.table_boundsText, Canon.withBounds_boundsText, hparse]
      exact hfmt

/-- what the printed list parses to -/
theorem Canon.withBounds_boundsToText_ubl (K : Canon) (l : List BoF) (hp : PrintableList l) (hL : LastMarked l) :
    boundsListOfString (boundsToText l) = .ok (K.withBounds (boundsToText l)).ubl ∧
      (K.withBounds (boundsToText l)).ubl.list = l := by
  obtain ⟨li, h⟩ := boundsListOfString_boundsToText l hp hL
  unfold Canon.ubl
  rw [Canon.withBounds_boundsText, h]
  exact ⟨rfl, rfl⟩

/-- **the mirrored command line**: `K` with the bounds text replaced by the text of its bounds with
    every negative index that designates one of `n` parts turned into the positive one -/
def Canon.mirrored (K : Canon) (n : Nat) : Canon := K.withBounds (boundsToText (mirrorBofs n K.ubl.list))

/-- the mirrored command line is accepted, and its bounds are the mirrored bounds — when the
    mirrored list can be printed (no format text, no fallbacks, every mirrored bound still
    well-formed: `-2:3` on 5 parts would be `4:3`, which `UserBounds::from_str` refuses) and the text
    does not start with `-` (an index below `-n` that stays negative in first position) -/
theorem Canon.Accepted.mirrored {regexOk : Arg → Bool} {K : Canon} (hK : K.Accepted regexOk) (n : Nat)
    (hp : printableListB (mirrorBofs n K.ubl.list) = true)
    (hdash : noDash (boundsToText (mirrorBofs n K.ubl.list)) = true) :
    (K.mirrored n).Accepted regexOk ∧ MirrorList n K.ubl.list (K.mirrored n).ubl.list := by
  have hpl := printableList_of_B hp
  have hL := (mirrorBofs_mirrorList n K.ubl.list).lastMarked hK.good.2
  obtain ⟨h1, h2⟩ := K.withBounds_boundsToText_ubl _ hpl hL
  constructor
  · have := hK.withM_withBounds K.m _ hdash _ h1 (by rw [h2]; exact printableList_noFiller hpl)
    rw [K.withM_self] at this
    exact this
  · unfold Canon.mirrored
    rw [h2]
    exact mirrorBofs_mirrorList n _

/-- **C09 at the level of the program, field mode, the mirrored command line computed.** -/
theorem tucMain_mirrored_fields (regexOk : Arg → Bool) (K : Canon) (hK : K.Accepted regexOk)
    (hmode : K.mode = .f ∨ K.mode = .dflt) (hd : K.d ≠ Option.some []) (he : K.e = none) (hM : K.mem = none)
    (n : Nat) (hp : printableListB (mirrorBofs n K.ubl.list) = true)
    (hdash : noDash (boundsToText (mirrorBofs n K.ubl.list)) = true) (segs : List Bytes)
    (hn : ∀ r ∈ records K.eol.byte segs.flatten, HasNFields K.cfg n r) :
    tucMain regexOk (canonArgv (K.mirrored n)) segs = tucMain regexOk (canonArgv K) segs :=
  have h := hK.mirrored n hp hdash
  tucMain_mirror_fields regexOk K _ hK h.1 hmode hd he hM n segs hn h.2

/-- **C09 at the level of the program, `-b`, the mirrored command line computed**
    (`n` = the number of bytes of the input) -/
theorem tucMain_mirrored_bytes (regexOk : Arg → Bool) (K : Canon) (hK : K.Accepted regexOk)
    (hmode : K.mode = .b) (he : K.e = none) (hM : K.mem = none) (segs : List Bytes)
    (hp : printableListB (mirrorBofs segs.flatten.length K.ubl.list) = true)
    (hdash : noDash (boundsToText (mirrorBofs segs.flatten.length K.ubl.list)) = true) :
    tucMain regexOk (canonArgv (K.mirrored segs.flatten.length)) segs = tucMain regexOk (canonArgv K) segs :=
  have h := hK.mirrored segs.flatten.length hp hdash
  tucMain_mirror_bytes regexOk K _ hK h.1 hmode he hM segs h.2

/-- **C09 at the level of the program, `-l`, the mirrored command line computed** (`n` = the number
    of lines; `hres`: every mirrored bound resolves, which discharges `hfwd`) -/
theorem tucMain_mirrored_lines (regexOk : Arg → Bool) (K : Canon) (hK : K.Accepted regexOk)
    (hmode : K.mode = .l) (he : K.e = none) (hM : K.mem = none) (hs : K.s = false) (ht : K.tr = none)
    (hg : K.g = false) (hp : K.p = false) (hr : K.r = none) (segs : List Bytes)
    (hutf : validUtf8 segs.flatten = true) (h0 : segs.flatten ≠ []) (h1 : segs.flatten ≠ [K.eol.byte])
    (hpr : printableListB (mirrorBofs (records K.eol.byte segs.flatten).length K.ubl.list) = true)
    (hdash : noDash (boundsToText (mirrorBofs (records K.eol.byte segs.flatten).length K.ubl.list)) = true)
    (hres : ∀ b ∈ boundsOnly (mirrorBofs (records K.eol.byte segs.flatten).length K.ubl.list),
      resolve b (records K.eol.byte segs.flatten).length ≠ none) :
    tucMain regexOk (canonArgv (K.mirrored (records K.eol.byte segs.flatten).length)) segs =
      tucMain regexOk (canonArgv K) segs := by
  have h := hK.mirrored _ hpr hdash
  have hpl := printableList_of_B hpr
  have hL := (mirrorBofs_mirrorList (records K.eol.byte segs.flatten).length K.ubl.list).lastMarked hK.good.2
  have h2 := (K.withBounds_boundsToText_ubl _ hpl hL).2
  refine tucMain_mirror_lines regexOk K _ hK h.1 hmode he hM hs ht hg hp hr segs hutf h0 h1 h.2 (fun _ _ => ?_)
  exact ⟨_, h2.trans hpl.eq_map, hres⟩

/-- **C15 at the level of the program, field mode, the rewritten command line computed**: `rw` is the
    rewritten list (`hmark`), printed by `boundsToText` -/
theorem tucMain_complement_fields_printed (regexOk : Arg → Bool) (K : Canon) (hK : K.Accepted regexOk)
    (hm : K.m = true) (hmode : K.mode = .f ∨ K.mode = .dflt) (hd : K.d ≠ Option.some []) (he : K.e = none)
    (hM : K.mem = none) (n : Nat) (rw : List BoF)
    (hmark : markLast (mapBounds (complementBound · n) K.ubl.list) = Option.some rw)
    (hp : printableListB rw = true) (hdash : noDash (boundsToText rw) = true) (segs : List Bytes)
    (hn : ∀ r ∈ records K.eol.byte segs.flatten, HasNFields K.cfg n r) :
    tucMain regexOk (canonArgv K) segs = tucMain regexOk (canonArgv (K.rewrittenAs (boundsToText rw))) segs := by
  have hpl := printableList_of_B hp
  have hL : LastMarked rw := markLast_lastMarked _ _ (mapBounds_complement_noneMarked n _) hmark
  obtain ⟨h1, h2⟩ := (K.withM false).withBounds_boundsToText_ubl _ hpl hL
  have hK' : (K.rewrittenAs (boundsToText rw)).Accepted regexOk :=
    hK.withM_withBounds false _ hdash _ h1 (by rw [h2]; exact printableList_noFiller hpl)
  exact tucMain_complement_fields regexOk K _ hK hm hK' hmode hd he hM n segs hn
    (by rw [show (K.rewrittenAs (boundsToText rw)).ubl.list = rw from h2]; exact hmark)

/-- `tuc -f 2,-1 -d :` mirrored for three fields is `tuc -f 2,3 -d :` -/
example : canonArgv (exMirror.mirrored 3) = [['-', 'f'], ['2', ',', '3'], ['-', 'd'], [':']] := by decide +kernel

example :
    tucMain (fun _ => true) (canonArgv (exMirror.mirrored 3)) [[97, 58, 98, 58, 99, 10, 120], [58, 121, 58, 122, 10]] =
      tucMain (fun _ => true) (canonArgv exMirror) [[97, 58, 98, 58, 99, 10, 120], [58, 121, 58, 122, 10]] :=
  tucMain_mirrored_fields _ exMirror (.of_accepted (by decide +kernel) rfl rfl) (Or.inl rfl) (by decide) rfl rfl 3
    (by decide +kernel) (by decide +kernel) _ (by decide +kernel)

/-- `tuc -l 1,-1` mirrored for three lines is `tuc -l 1,3`; `tuc -b 1,-1` for four bytes `tuc -b 1,4` -/
example :
    canonArgv (exMirrorLines.mirrored 3) = [['-', 'l'], ['1', ',', '3']] ∧
    canonArgv (exMirrorBytes.mirrored 4) = [['-', 'b'], ['1', ',', '4']] := by decide +kernel

example :
    tucMain (fun _ => true)
        (canonArgv (exMirrorLines.mirrored (records exMirrorLines.eol.byte [[97, 10, 98], [10, 99, 10]].flatten).length))
        [[97, 10, 98], [10, 99, 10]] =
      tucMain (fun _ => true) (canonArgv exMirrorLines) [[97, 10, 98], [10, 99, 10]] :=
  tucMain_mirrored_lines _ exMirrorLines (.of_accepted (by decide +kernel) rfl rfl) rfl rfl rfl rfl rfl rfl rfl rfl _
    (by decide +kernel) (by decide +kernel) (by decide +kernel) (by decide +kernel) (by decide +kernel)
    (by decide +kernel)

example :
    tucMain (fun _ => true) (canonArgv (exMirrorBytes.mirrored [[0xFF, 0], [10, 97]].flatten.length)) [[0xFF, 0], [10, 97]] =
      tucMain (fun _ => true) (canonArgv exMirrorBytes) [[0xFF, 0], [10, 97]] :=
  tucMain_mirrored_bytes _ exMirrorBytes (.of_accepted (by decide +kernel) rfl rfl) rfl rfl rfl [[0xFF, 0], [10, 97]]
    (by decide +kernel) (by decide +kernel)

/-- `tuc -f 2 -d : -m` for three fields is `tuc -f 1,3 -d :`, the text computed from the rewritten list -/
example :
    tucMain (fun _ => true) (canonArgv exCompl) [[97, 58, 98, 58, 99, 10, 120], [58, 121, 58, 122, 10]] =
      tucMain (fun _ => true)
        (canonArgv (exCompl.rewrittenAs (boundsToText
          [.bound { l := .some 1, r := .some 1 }, .bound { l := .some 3, r := .some 3, isLast := true }])))
        [[97, 58, 98, 58, 99, 10, 120], [58, 121, 58, 122, 10]] :=
  tucMain_complement_fields_printed _ exCompl (.of_accepted (by decide +kernel) rfl rfl) rfl (Or.inl rfl) (by decide)
    rfl rfl 3 _ (by decide +kernel) (by decide +kernel) (by decide +kernel) _ (by decide +kernel)

example :
    canonArgv (exCompl.rewrittenAs (boundsToText
      [.bound { l := .some 1, r := .some 1 }, .bound { l := .some 3, r := .some 3, isLast := true }])) =
    [['-', 'f'], ['1', ',', '3'], ['-', 'd'], [':']] := by decide +kernel

/-- a mirrored list that cannot be printed: `-2:3` on five fields would be `4:3`, which
    `UserBounds::from_str` refuses (`tuc -f 4:3` is rejected) — both select nothing -/
example :
    printableListB (mirrorBofs 5 [.bound { l := .some (-2), r := .some 3, isLast := true }]) = false ∧
    tucMain (fun _ => true) (canonArgv { mode := .f, bounds := ['4', ':', '3'] }) [] = .reject := by
  decide +kernel

end Tuc
