import Tuc.Model.Space
import Tuc.Lemmas.LinesLoop
import Tuc.Lemmas.FastLoop
import Tuc.Props.C10
import Tuc.Props.LinesLoop
import Tuc.Props.FastLoop
import Tuc.Props.StreamLoop
/-!
# Tuc.Props.Space — C17 by ghost instrumentation of the literal loops

C17: "With `-M`, peak memory is bounded by a constant that does not depend on the length of any
line or of the input; with `-f` or `-c` (no `-M`) it is bounded in terms of the longest record, not
the number of records; with `-l` and ascending positive bounds it is likewise bounded by the longest
line."

`Tuc.Model.Space` copies the loop functions of the statement-by-statement transcriptions
(`Tuc.Model.LinesLoop`, `Tuc.Model.FastLoop`, `Tuc.Model.StreamLoop`) and adds ghost state: the
peak of a SPACE MEASURE = the number of elements held in the owned, growable buffers (`Vec` /
`String` locals) that are live across loop iterations (`line_buf` for `-l`; `fields` and the record
lent by `for_byte_record` for the fast lane), resp. — for `-M`, whose function owns no such buffer —
the trace of the loop variables.  This file proves, with no hypothesis on the input or on the
option record:

(a) ERASURE — the instrumentation observes the same execution: dropping the ghost component gives
    exactly the frozen literal function, for all arguments, all fuel, every value of the accumulator
    * `readLineWithEolI_erase`, `readWhileI_erase`, `cutLinesForwardOnlyLoopI_erase`;
    * `scanBodyI_erase`, `scanForI_erase`, `afterScanI_erase`, `cutStrFastLaneLoopI_erase`,
      `forByteRecordI_erase`, `readAndCutTextAsBytesLoopI_erase`;
    * `newChunkI_erase`, `cutBytesStreamLoopI_erase`.

(b) BOUNDS
    * `-l`, forward only — `cutLinesForwardOnlyLoopI_peak_le`: the peak length of `line_buf` is at most
      `longestLine eol input`, the length of the longest line WITH its terminator
      (`longestLine_le_longestRecord`: at most `longestRecord + 1`; `longestLine_le_length`).  A line
      that is not UTF-8 counts: it has been read into the buffer when the `Err` is raised.
    * fast lane — `readAndCutTextAsBytesLoopI_peak`: the two peaks IN CLOSED FORM: the largest per-record
      peak (`recFields`) resp. the longest record among the EXECUTED records (all up to and including
      the first one whose call returns `Err`); `readAndCutTextAsBytesLoopI_fields_le`: `fields` never
      holds more than (delimiters of the record with the most delimiters) + 2 entries — the initial 0,
      one start per delimiter, the fake start of l.73 (reached: `-f -1` on `-----`, 7 entries);
      `…_fields_le_record`: hence at most `longestRecord + 2`; `…_fields_le_stop`: with an early stop
      (`last_interesting_field = Some(k)`, `k ≥ 1`) at most `k + 1` entries whatever the input;
      `…_record_le`: the record lent is at most `longestRecord`.  The vector is reused from record to
      record and is NOT cleared for a record that is empty after trimming (l.35-40): what it then
      still holds is what the previous record left, which is under the peak already
      (`cutStrFastLaneLoopI_fields_le`, `cutStrFastLaneLoopI_peak`) — nothing accumulates.
    * `-M` — `ofScalars_scalars` / `scalars_ofScalars`: `StreamLoop.Vars` IS a tuple of four flags,
      three `usize` and one `i32`: no byte buffer is part of the state that crosses a `fill_buf`;
      `cutBytesStreamLoopI_ok` (from `newChunkI_ok`, an induction over the fuelled loop from any
      state, for every reader = every segmentation of every input): at every
      `stdin.consume(bytes_to_consume)` (l.390) of an executed iteration the chunk borrowed is one the
      reader handed out (non-empty, at most the longest segment), `chunk_part_start_idx` and
      `bytes_to_consume` are at most its length (`chunkBody_ok`: from ANY previous values — they are
      re-declared at l.307-308), and `bof_idx` is at most `opt.bounds.len()` there and at every exit of
      `'new_chunk`.  The only number that is not bounded by a chunk or by the option record is the
      field counter `curr_field` (an `i32` in the code; it grows by one per delimiter, l.364).

(c) MORE RECORDS, SAME PEAK — `cutLinesForwardOnlyLoopI_replicate`,
    `readAndCutTextAsBytesLoopI_replicate`: `k + 1` copies of a block that ends with the terminator
    have exactly the peak(s) of one copy (from `linesPeak_append`: the read loop either stops inside
    a block of complete lines or has then seen its longest line; resp. `execMax_append`).
    HYPOTHESIS `block.getLast? = some eol` (decidable).  It cannot be dropped — two copies of `ab`
    are ONE line of four bytes, two copies of `a-b` one record with two delimiters (`#guard`s in
    section 4) — and it is no restriction of the program: it only says which inputs are "the same
    records, more often".  (`newChunkI_ok` asks for `bof_idx ≤ bounds.len()` in the state it is
    started from; the function starts from 0, `cutBytesStreamLoopI_ok` has no hypothesis; a `#guard`
    shows the lemma-level hypothesis is needed.)

No bound failed: no buffer of these three paths grows across records.

NOT covered: the allocator (fragmentation, `malloc` overhead); the growth policy of `Vec` — the
capacity is at most twice the peak length (amortised doubling) and at least the initial capacity
(1024 bytes for `line_buf`, 16 entries for `fields`), and an entry of `fields` is 8 bytes; the
`BufReader` / `BufWriter` that `main` creates (fixed capacities; the `-M` chunk and the complete
records of the fast lane are slices of the `BufReader`'s buffer; bstr's `for_byte_record` assembles
a record that straddles two fills in one local `Vec<u8>` of at most record + terminator bytes); the
caches of the regex crate; the stack; the buffered paths (`cut_lines`, non-ascending `-l`: the whole
input, by design) and the general engine `cut_str` (`-f`/`-c` off the fast lane).  Those stay with the
measurements of C17 (counting allocator).
-/

namespace Tuc
namespace Space

section Lines
open LinesLoop

/-! ## 1. `-l` forward only -/

/-! ### 1.1 erasure -/

/-- one call of `read_line_with_eol`: the instrumented function returns what the frozen one
    returns, and as ghost value the number of bytes `read_until` handed out -/
theorem readLineWithEolI_eq (reader : Bytes) (eol : EOL) :
    readLineWithEolI reader eol =
      ((readLineWithEol reader eol).1, (readLineWithEol reader eol).2,
        (readUntil eol.byte reader).1.length) := by
  cases eol
  · by_cases hv : validUtf8 (readUntil EOL.zero.byte reader).1 = true
    · simp only [readLineWithEolI, readLineWithEol, List.nil_append, hv, if_true, lineBufSpace,
        List.length_nil, Nat.zero_max]
      split <;> rfl
    · simp only [readLineWithEolI, readLineWithEol, List.nil_append, hv, Bool.false_eq_true, if_false,
        lineBufSpace, List.length_nil, Nat.zero_max]
  · have h10 : EOL.newline.byte = 10 := rfl
    rw [h10]
    by_cases hv : validUtf8 (readUntil 10 reader).1 = true
    · simp only [readLineWithEolI, readLineWithEol, List.nil_append, hv, if_true, lineBufSpace,
        List.length_nil, Nat.zero_max]
      split <;> rfl
    · simp only [readLineWithEolI, readLineWithEol, List.nil_append, hv, Bool.false_eq_true, if_false,
        lineBufSpace, List.length_nil, Nat.zero_max]

/-- **erasure, `read_line_with_eol`** -/
theorem readLineWithEolI_erase (reader : Bytes) (eol : EOL) :
    ((readLineWithEolI reader eol).1, (readLineWithEolI reader eol).2.1) =
      readLineWithEol reader eol := by
  rw [readLineWithEolI_eq]

/-- **erasure, the read loop**: for all arguments, all fuel and every value of the accumulator -/
theorem readWhileI_erase (opt : Opt) : ∀ (fuel : Nat) (stdin : Bytes) (v : Vars) (peak : Nat),
    ((readWhileI opt fuel stdin v peak).1, (readWhileI opt fuel stdin v peak).2.1) =
      readWhile opt fuel stdin v := by
  intro fuel
  induction fuel with
  | zero => intro stdin v peak; rfl
  | succ fuel ih =>
    intro stdin v peak
    simp only [readWhileI, readWhile, readLineWithEolI_eq]
    generalize readLineWithEol stdin opt.eol = x
    obtain ⟨line, rest⟩ := x
    cases line with
    | none => rfl
    | someErr => rfl
    | someOk l =>
      simp only []
      split
      · rfl
      · rw [← ih rest _ (max peak (readUntil opt.eol.byte stdin).1.length)]

/-- **erasure, `cut_lines_forward_only`** -/
theorem cutLinesForwardOnlyLoopI_erase (opt : Opt) (stdin : Bytes) :
    (cutLinesForwardOnlyLoopI opt stdin).1 = cutLinesForwardOnlyLoop opt stdin := by
  unfold cutLinesForwardOnlyLoopI cutLinesForwardOnlyLoop
  simp only [← readWhileI_erase opt (stdin.length + 1) stdin _ (lineBufSpace [])]

/-! ### 1.2 the lines of the input, terminators included -/

/-- the lines of the input WITH their terminators (what `read_until` hands out, call after call);
    `cur` is the current line so far, reversed -/
def rawLinesAux (eol : UInt8) : Bytes → Bytes → List Bytes
  | cur, [] => if cur.isEmpty then [] else [cur.reverse]
  | cur, c :: t =>
    if c = eol then (c :: cur).reverse :: rawLinesAux eol [] t else rawLinesAux eol (c :: cur) t

def rawLines (eol : UInt8) (input : Bytes) : List Bytes := rawLinesAux eol [] input

/-- length of the longest element -/
def maxLen : List Bytes → Nat
  | [] => 0
  | l :: t => max l.length (maxLen t)

/-- **length of the longest line of the input, terminator included** -/
def longestLine (eol : UInt8) (input : Bytes) : Nat := maxLen (rawLines eol input)

/-- length of the longest record (terminator not included) -/
def longestRecord (eol : UInt8) (input : Bytes) : Nat := maxLen (records eol input)

theorem rawLinesAux_noeol (eol : UInt8) (l : Bytes) : ∀ cur : Bytes, (∀ c ∈ l, c ≠ eol) →
    rawLinesAux eol cur l = if (cur.reverse ++ l).isEmpty then [] else [cur.reverse ++ l] := by
  induction l with
  | nil => intro cur _; cases cur <;> simp [rawLinesAux]
  | cons c l ih =>
    intro cur hl
    have hc : c ≠ eol := hl c (by simp)
    rw [rawLinesAux, if_neg hc, ih _ (fun x hx => hl x (by simp [hx]))]
    simp

theorem rawLinesAux_eol (eol : UInt8) (l rest : Bytes) : ∀ cur : Bytes, (∀ c ∈ l, c ≠ eol) →
    rawLinesAux eol cur (l ++ eol :: rest) = (cur.reverse ++ l ++ [eol]) :: rawLinesAux eol [] rest := by
  induction l with
  | nil => intro cur _; simp [rawLinesAux]
  | cons c l ih =>
    intro cur hl
    have hc : c ≠ eol := hl c (by simp)
    rw [List.cons_append, rawLinesAux, if_neg hc, ih _ (fun x hx => hl x (by simp [hx]))]
    simp

theorem rawLines_of_noeol (eol : UInt8) (l : Bytes) (h : ∀ c ∈ l, c ≠ eol) :
    rawLines eol l = if l.isEmpty then [] else [l] := by
  unfold rawLines
  rw [rawLinesAux_noeol eol l [] h]
  rfl

theorem rawLines_of_eol (eol : UInt8) (l rest : Bytes) (h : ∀ c ∈ l, c ≠ eol) :
    rawLines eol (l ++ eol :: rest) = (l ++ [eol]) :: rawLines eol rest := by
  unfold rawLines
  rw [rawLinesAux_eol eol l rest [] h]
  rfl

theorem rawLines_nil (eol : UInt8) : rawLines eol [] = [] := rfl

/-- one call of `read_until` on a reader that is not exhausted: it hands out the first of the
    `rawLines`, which is not empty, and leaves a shorter reader -/
theorem reader_cases (eol : UInt8) (stdin : Bytes) (hne : stdin ≠ []) :
    ∃ raw rest, readUntil eol stdin = (raw, rest) ∧ raw ≠ [] ∧ rest.length < stdin.length ∧
      rawLines eol stdin = raw :: rawLines eol rest := by
  rcases exists_first_eol eol stdin with h | ⟨l, rest, h1, h2⟩
  · refine ⟨stdin, [], readUntil_noeol _ _ h, hne, ?_, ?_⟩
    · cases stdin with
      | nil => exact absurd rfl hne
      | cons _ _ => simp
    · rw [rawLines_of_noeol eol stdin h]
      have : stdin.isEmpty = false := by
        cases stdin with
        | nil => exact absurd rfl hne
        | cons _ _ => rfl
      simp only [this, Bool.false_eq_true, if_false]
      rfl
  · subst h1
    exact ⟨l ++ [eol], rest, readUntil_eol _ _ _ h2, by simp, by simp; omega,
      rawLines_of_eol eol l rest h2⟩

/-! ### 1.3 one turn of the read loop, peak only -/

/-- the loop over the bounds for the line `raw` (l.30-81) -/
def lineW (opt : Opt) (raw : Bytes) (v : Vars) : Run × Vars :=
  innerWhile opt (stripEol opt.eol.byte raw) (opt.bounds.list.length + 1) (nextLine v)

/-- after the line `raw` the read loop goes on: the line is UTF-8 (l.28), there are bounds left
    (l.83), nothing panicked -/
def goesOn (opt : Opt) (raw : Bytes) (v : Vars) : Bool :=
  validUtf8 raw && !((lineW opt raw v).2.boundsIdx == opt.bounds.list.length) &&
    decide ((lineW opt raw v).1.status = .ok)

theorem peak_zero (opt : Opt) (stdin : Bytes) (v : Vars) (p : Nat) :
    (readWhileI opt 0 stdin v p).2.2 = p := rfl

theorem peak_nil (opt : Opt) (fuel : Nat) (v : Vars) (p : Nat) :
    (readWhileI opt (fuel + 1) [] v p).2.2 = p := by
  simp only [readWhileI, readLineWithEolI_eq, readLineWithEol_nil]
  simp [readUntil]

theorem peak_cons (opt : Opt) (fuel : Nat) (stdin : Bytes) (v : Vars) (p : Nat) (raw rest : Bytes)
    (h : readUntil opt.eol.byte stdin = (raw, rest)) (hne : raw ≠ []) :
    (readWhileI opt (fuel + 1) stdin v p).2.2 =
      if goesOn opt raw v then (readWhileI opt fuel rest (lineW opt raw v).2 (max p raw.length)).2.2
      else max p raw.length := by
  simp only [readWhileI, readLineWithEolI_eq, readLineWithEol_eq _ _ _ _ h hne, h, goesOn, lineW]
  by_cases hv : validUtf8 raw = true
  · simp only [hv, if_true, Bool.true_and]
    by_cases hb : ((innerWhile opt (stripEol opt.eol.byte raw) (opt.bounds.list.length + 1)
        (nextLine v)).2.boundsIdx == opt.bounds.list.length) = true
    · simp only [hb, if_true, Bool.not_true, Bool.false_and, Bool.false_eq_true, if_false]
    · simp only [hb, Bool.false_eq_true, if_false, Bool.not_false, Bool.true_and]
      by_cases hs : (innerWhile opt (stripEol opt.eol.byte raw) (opt.bounds.list.length + 1)
          (nextLine v)).1.status = Status.ok
      · simp only [hs, if_true, decide_true]
      · simp only [hs, if_false, decide_false, Bool.false_eq_true]
  · simp only [hv, Bool.false_eq_true, if_false, Bool.false_and]

/-- the accumulator only grows -/
theorem peak_ge (opt : Opt) : ∀ (fuel : Nat) (stdin : Bytes) (v : Vars) (p : Nat),
    p ≤ (readWhileI opt fuel stdin v p).2.2 := by
  intro fuel
  induction fuel with
  | zero => intro stdin v p; exact Nat.le_refl _
  | succ fuel ih =>
    intro stdin v p
    by_cases hs : stdin = []
    · subst hs; rw [peak_nil]; exact Nat.le_refl _
    · obtain ⟨raw, rest, h, hne, _, _⟩ := reader_cases opt.eol.byte stdin hs
      rw [peak_cons opt fuel stdin v p raw rest h hne]
      split
      · exact Nat.le_trans (Nat.le_max_left _ _) (ih rest _ _)
      · exact Nat.le_max_left _ _

theorem longestLine_cons (eol : UInt8) (stdin raw rest : Bytes)
    (h : rawLines eol stdin = raw :: rawLines eol rest) :
    longestLine eol stdin = max raw.length (longestLine eol rest) := by
  unfold longestLine
  rw [h]
  rfl

/-- **the accumulator never exceeds the longest line** (any fuel, any state of the variables) -/
theorem peak_le (opt : Opt) : ∀ (fuel : Nat) (stdin : Bytes) (v : Vars) (p : Nat),
    (readWhileI opt fuel stdin v p).2.2 ≤ max p (longestLine opt.eol.byte stdin) := by
  intro fuel
  induction fuel with
  | zero => intro stdin v p; exact Nat.le_max_left _ _
  | succ fuel ih =>
    intro stdin v p
    by_cases hs : stdin = []
    · subst hs; rw [peak_nil]; exact Nat.le_max_left _ _
    · obtain ⟨raw, rest, h, hne, _, hl⟩ := reader_cases opt.eol.byte stdin hs
      rw [peak_cons opt fuel stdin v p raw rest h hne, longestLine_cons _ _ _ _ hl]
      split
      · have := ih rest (lineW opt raw v).2 (max p raw.length)
        omega
      · omega

/-- the fuel does not matter for the peak once it exceeds the length of the input -/
theorem peak_fuel (opt : Opt) : ∀ (f1 f2 : Nat) (stdin : Bytes) (v : Vars) (p : Nat),
    stdin.length < f1 → stdin.length < f2 →
    (readWhileI opt f1 stdin v p).2.2 = (readWhileI opt f2 stdin v p).2.2 := by
  intro f1
  induction f1 with
  | zero => intro f2 stdin v p h1 _; omega
  | succ f1 ih =>
    intro f2 stdin v p h1 h2
    cases f2 with
    | zero => omega
    | succ f2 =>
      by_cases hs : stdin = []
      · subst hs; rw [peak_nil, peak_nil]
      · obtain ⟨raw, rest, h, hne, hlt, _⟩ := reader_cases opt.eol.byte stdin hs
        rw [peak_cons opt f1 stdin v p raw rest h hne, peak_cons opt f2 stdin v p raw rest h hne]
        split
        · exact ih f2 rest _ _ (by omega) (by omega)
        · rfl

/-! ### 1.4 the bound -/

/-- the peak of the read loop with the fuel `cut_lines_forward_only` gives it -/
def linesPeak (opt : Opt) (stdin : Bytes) (v : Vars) (p : Nat) : Nat :=
  (readWhileI opt (stdin.length + 1) stdin v p).2.2

theorem cutLinesForwardOnlyLoopI_peak (opt : Opt) (stdin : Bytes) :
    (cutLinesForwardOnlyLoopI opt stdin).2 = linesPeak opt stdin {} 0 := rfl

/-- **`-l`, forward only: the peak length of `line_buf` is at most the length of the longest line
    of the input, terminator included** — every input, every option record; the number of lines
    does not enter. -/
theorem cutLinesForwardOnlyLoopI_peak_le (opt : Opt) (stdin : Bytes) :
    (cutLinesForwardOnlyLoopI opt stdin).2 ≤ longestLine opt.eol.byte stdin := by
  have := peak_le opt (stdin.length + 1) stdin {} 0
  rw [Nat.zero_max] at this
  exact this

theorem maxLen_rawLinesAux_le (eol : UInt8) : ∀ (x cur : Bytes),
    maxLen (rawLinesAux eol cur x) ≤ maxLen (splitRecords eol cur x) + 1 ∧
    maxLen (rawLinesAux eol cur x) ≤ cur.length + x.length := by
  intro x
  induction x with
  | nil =>
    intro cur
    simp only [rawLinesAux, splitRecords]
    split <;> simp [maxLen]
  | cons c t ih =>
    intro cur
    simp only [rawLinesAux, splitRecords]
    split
    · have := ih []
      simp only [maxLen, List.length_reverse, List.length_cons, List.length_nil] at this ⊢
      omega
    · have := ih (c :: cur)
      simp only [List.length_cons] at this ⊢
      omega

/-- the longest line is at most one byte (the terminator) longer than the longest record … -/
theorem longestLine_le_longestRecord (eol : UInt8) (input : Bytes) :
    longestLine eol input ≤ longestRecord eol input + 1 :=
  (maxLen_rawLinesAux_le eol input []).1

/-- … and never longer than the input -/
theorem longestLine_le_length (eol : UInt8) (input : Bytes) : longestLine eol input ≤ input.length := by
  have := (maxLen_rawLinesAux_le eol input []).2
  simpa [longestLine, rawLines] using this

/-- in terms of the project's record splitter -/
theorem cutLinesForwardOnlyLoopI_peak_le_record (opt : Opt) (stdin : Bytes) :
    (cutLinesForwardOnlyLoopI opt stdin).2 ≤ longestRecord opt.eol.byte stdin + 1 :=
  Nat.le_trans (cutLinesForwardOnlyLoopI_peak_le opt stdin) (longestLine_le_longestRecord _ _)

/-! ### 1.5 more lines, same peak -/

theorem linesPeak_nil (opt : Opt) (v : Vars) (p : Nat) : linesPeak opt [] v p = p :=
  peak_nil opt 0 v p

theorem linesPeak_cons (opt : Opt) (stdin : Bytes) (v : Vars) (p : Nat) (raw rest : Bytes)
    (h : readUntil opt.eol.byte stdin = (raw, rest)) (hne : raw ≠ [])
    (hlt : rest.length < stdin.length) :
    linesPeak opt stdin v p =
      if goesOn opt raw v then linesPeak opt rest (lineW opt raw v).2 (max p raw.length)
      else max p raw.length := by
  unfold linesPeak
  rw [peak_cons opt stdin.length stdin v p raw rest h hne]
  split
  · exact peak_fuel opt _ _ rest _ _ hlt (Nat.lt_succ_self _)
  · rfl

theorem linesPeak_ge (opt : Opt) (stdin : Bytes) (v : Vars) (p : Nat) : p ≤ linesPeak opt stdin v p :=
  peak_ge opt _ stdin v p

theorem linesPeak_le (opt : Opt) (stdin : Bytes) (v : Vars) (p : Nat) :
    linesPeak opt stdin v p ≤ max p (longestLine opt.eol.byte stdin) :=
  peak_le opt _ stdin v p

/-- the input is empty or ends with the terminator -/
def EndsEol (eol : UInt8) (block : Bytes) : Prop := block = [] ∨ block.getLast? = some eol

instance (eol : UInt8) (block : Bytes) : Decidable (EndsEol eol block) := by
  unfold EndsEol; exact inferInstance

theorem endsEol_tail (eol : UInt8) (l t : Bytes) (h : EndsEol eol (l ++ eol :: t)) : EndsEol eol t := by
  cases t with
  | nil => exact Or.inl rfl
  | cons c t' =>
    right
    rcases h with h | h
    · simp at h
    · rw [List.getLast?_append] at h
      simpa [List.getLast?_cons_cons] using h

theorem endsEol_has_eol (eol : UInt8) (block : Bytes) (hne : block ≠ []) (h : EndsEol eol block) :
    eol ∈ block := by
  rcases h with h | h
  · exact absurd h hne
  · exact List.mem_of_getLast? h

/-- **a block of complete lines in front of more input**: either the loop stops inside the block —
    then what follows does not matter — or it reads the whole block, has then seen the longest
    line of the block, and goes on with what follows. -/
theorem linesPeak_append (opt : Opt) : ∀ (n : Nat) (block : Bytes), block.length = n →
    EndsEol opt.eol.byte block → ∀ (rest : Bytes) (v : Vars) (p : Nat),
    linesPeak opt (block ++ rest) v p = linesPeak opt block v p ∨
    (linesPeak opt block v p = max p (longestLine opt.eol.byte block) ∧
      ∃ v', linesPeak opt (block ++ rest) v p =
        linesPeak opt rest v' (max p (longestLine opt.eol.byte block))) := by
  intro n
  induction n using Nat.strongRecOn with
  | _ n ih =>
    intro block hn he rest v p
    by_cases hb : block = []
    · subst hb
      right
      refine ⟨?_, v, ?_⟩
      · rw [linesPeak_nil]; simp [longestLine, rawLines_nil, maxLen]
      · simp [longestLine, rawLines_nil, maxLen]
    · rcases exists_first_eol opt.eol.byte block with h | ⟨l, block', h1, h2⟩
      · exact absurd rfl (h _ (endsEol_has_eol _ _ hb he))
      · subst h1
        have he' := endsEol_tail _ _ _ he
        have hr1 : readUntil opt.eol.byte (l ++ opt.eol.byte :: block') = (l ++ [opt.eol.byte], block') :=
          readUntil_eol _ _ _ h2
        have hr2 : readUntil opt.eol.byte ((l ++ opt.eol.byte :: block') ++ rest) =
            (l ++ [opt.eol.byte], block' ++ rest) := by
          rw [List.append_assoc, List.cons_append]
          exact readUntil_eol _ _ _ h2
        rw [linesPeak_cons opt _ v p _ _ hr1 (by simp) (by simp; omega),
          linesPeak_cons opt _ v p _ _ hr2 (by simp) (by simp; omega),
          longestLine_cons _ _ _ _ (rawLines_of_eol _ l block' h2)]
        by_cases hg : goesOn opt (l ++ [opt.eol.byte]) v = true
        · simp only [hg, if_true]
          have hlen : block'.length < n := by
            rw [← hn]; simp; omega
          rcases ih block'.length hlen block' rfl he' rest
            (lineW opt (l ++ [opt.eol.byte]) v).2 (max p (l ++ [opt.eol.byte]).length) with h | ⟨h, v', h'⟩
          · exact Or.inl h
          · right
            rw [Nat.max_assoc] at h h'
            exact ⟨h, v', h'⟩
        · rw [if_neg hg, if_neg hg]
          exact Or.inl rfl

theorem rawLinesAux_append (eol : UInt8) (a b cur : Bytes) :
    rawLinesAux eol cur (a ++ eol :: b) = rawLinesAux eol cur (a ++ [eol]) ++ rawLinesAux eol [] b := by
  induction a generalizing cur with
  | nil =>
    simp only [List.nil_append, rawLinesAux, if_true]
    simp
  | cons c t ih =>
    simp only [List.cons_append, rawLinesAux]
    split
    · simp only [List.cons_append, List.cons.injEq, true_and]; exact ih []
    · exact ih (c :: cur)

theorem maxLen_append (a b : List Bytes) : maxLen (a ++ b) = max (maxLen a) (maxLen b) := by
  induction a with
  | nil => simp [maxLen]
  | cons x t ih => simp only [List.cons_append, maxLen, ih, Nat.max_assoc]

/-- the lines of `block ++ more` are those of `block`, then those of `more`, when `block` consists
    of complete lines -/
theorem longestLine_append (eol : UInt8) (block more : Bytes) (h : EndsEol eol block) :
    longestLine eol (block ++ more) = max (longestLine eol block) (longestLine eol more) := by
  rcases h with h | h
  · subst h; simp [longestLine, rawLines_nil, maxLen]
  · obtain ⟨a, rfl⟩ := List.getLast?_eq_some_iff.1 h
    unfold longestLine rawLines
    rw [List.append_assoc, List.singleton_append, rawLinesAux_append, maxLen_append]

theorem flatten_replicate_succ (k : Nat) (block : Bytes) :
    (List.replicate (k + 1) block).flatten = block ++ (List.replicate k block).flatten := by
  rw [List.replicate_succ, List.flatten_cons]

theorem longestLine_replicate_le (eol : UInt8) (block : Bytes) (h : EndsEol eol block) : ∀ k : Nat,
    longestLine eol (List.replicate k block).flatten ≤ longestLine eol block := by
  intro k
  induction k with
  | zero => simp [longestLine, rawLines_nil, maxLen]
  | succ k ih =>
    rw [flatten_replicate_succ, longestLine_append _ _ _ h]
    omega

/-- the same, from any state of the loop -/
theorem linesPeak_replicate (opt : Opt) (block : Bytes) (h : EndsEol opt.eol.byte block) (k : Nat)
    (v : Vars) (p : Nat) :
    linesPeak opt (List.replicate (k + 1) block).flatten v p = linesPeak opt block v p := by
  rw [flatten_replicate_succ]
  rcases linesPeak_append opt block.length block rfl h (List.replicate k block).flatten v p with
    h1 | ⟨h1, v', h2⟩
  · exact h1
  · rw [h1, h2]
    have hge := linesPeak_ge opt (List.replicate k block).flatten v'
      (max p (longestLine opt.eol.byte block))
    have hle := linesPeak_le opt (List.replicate k block).flatten v'
      (max p (longestLine opt.eol.byte block))
    have := longestLine_replicate_le opt.eol.byte block h k
    omega

/-- **`-l`, forward only: repeating the input does not move the peak** — `k + 1` copies of a
    block that ends with the terminator need exactly the `line_buf` that one copy needs. -/
theorem cutLinesForwardOnlyLoopI_replicate (opt : Opt) (block : Bytes)
    (h : block.getLast? = some opt.eol.byte) (k : Nat) :
    (cutLinesForwardOnlyLoopI opt (List.replicate (k + 1) block).flatten).2 =
      (cutLinesForwardOnlyLoopI opt block).2 :=
  linesPeak_replicate opt block (Or.inr h) k {} 0

end Lines

section Fast
open FastLoop TextLoops

/-! ## 2. the fast lane -/

/-! ### 2.1 erasure -/

theorem scanBodyI_erase (lif : Side) (i : Nat) (c : Int) (f : List Nat) (p : Nat) :
    (scanBodyI lif i c f p).1 = scanBody lif i c f := by
  unfold scanBodyI scanBody
  generalize checkedAddI32 c 1 = r
  cases r with
  | ok c' => simp only [Outcome.bind]; split <;> rfl
  | panic => rfl
  | hang => rfl

theorem scanForI_erase (lif : Side) : ∀ (iter : List Nat) (c : Int) (f : List Nat) (p : Nat),
    (scanForI lif iter c f p).1 = scanFor lif iter c f := by
  intro iter
  induction iter with
  | nil => intro c f p; rfl
  | cons i iter ih =>
    intro c f p
    simp only [scanForI, scanFor, ← scanBodyI_erase lif i c f p]
    generalize scanBodyI lif i c f p = x
    obtain ⟨o, q⟩ := x
    cases o with
    | ok st =>
      simp only [Outcome.bind]
      split
      · rfl
      · exact ih _ _ _
    | panic => rfl
    | hang => rfl

theorem afterScanI_erase (buffer : Bytes) (opt : FastOpt) (lif : Side) (st : Int × List Nat) (p : Nat) :
    ((afterScanI buffer opt lif st p).1, (afterScanI buffer opt lif st p).2.1) =
      afterScan buffer opt lif st := by
  simp only [afterScanI, afterScan]
  by_cases h : (st.1 == 0 && opt.onlyDelimited) = true
  · simp only [h, if_true]
  · simp only [h, Bool.false_eq_true, if_false]

/-- the buffer after l.31-33 -/
def trimmed (line : Bytes) (opt : FastOpt) : Bytes :=
  match opt.trim with
  | Option.some trimKind => FastLoop.trim line trimKind opt.delimiter
  | Option.none => line

/-- l.44-90 on a non-empty buffer: the vector starts as `[0]` whatever it held -/
def coreI (buffer : Bytes) (opt : FastOpt) (lif : Side) (p : Nat) : Run × List Nat × Nat :=
  match scanForI lif (memchrIter opt.delimiter buffer) 0 [0] (max p 1) with
  | (.ok st, peak) => afterScanI buffer opt lif st peak
  | (.panic, peak) => (Run.panic, [0], peak)
  | (.hang, peak) => (Run.hang, [0], peak)

def core (buffer : Bytes) (opt : FastOpt) (lif : Side) : Run × List Nat :=
  match scanFor lif (memchrIter opt.delimiter buffer) 0 [0] with
  | .ok st => afterScan buffer opt lif st
  | .panic => (Run.panic, [0])
  | .hang => (Run.hang, [0])

theorem cutStrFastLaneLoopI_eq (line : Bytes) (opt : FastOpt) (f : List Nat) (lif : Side) (p : Nat) :
    cutStrFastLaneLoopI line opt f lif p =
      if (trimmed line opt).isEmpty then
        ((if !opt.onlyDelimited then Run.ok [opt.eol.byte] else Run.empty), f, max p f.length)
      else coreI (trimmed line opt) opt lif (max p f.length) := by
  have h : ∀ b : Bytes, (if b.isEmpty then
        ((if !opt.onlyDelimited then Run.ok [opt.eol.byte] else Run.empty), f, max p (fieldsSpace f))
      else
        match scanForI lif (memchrIter opt.delimiter b) 0 (push (clear f) 0)
          (max (max (max p (fieldsSpace f)) (fieldsSpace (clear f))) (fieldsSpace (push (clear f) 0))) with
        | (.ok st, peak) => afterScanI b opt lif st peak
        | (.panic, peak) => (Run.panic, push (clear f) 0, peak)
        | (.hang, peak) => (Run.hang, push (clear f) 0, peak)) =
      if b.isEmpty then
        ((if !opt.onlyDelimited then Run.ok [opt.eol.byte] else Run.empty), f, max p f.length)
      else coreI b opt lif (max p f.length) := by
    intro b
    have e : max (max (max p (fieldsSpace f)) (fieldsSpace (clear f))) (fieldsSpace (push (clear f) 0)) =
        max (max p f.length) 1 := by
      simp [fieldsSpace, clear, push]
    rw [e]
    rfl
  unfold cutStrFastLaneLoopI trimmed
  exact h _

theorem cutStrFastLaneLoop_eq_core (line : Bytes) (opt : FastOpt) (f : List Nat) (lif : Side) :
    cutStrFastLaneLoop line opt f lif =
      if (trimmed line opt).isEmpty then
        ((if !opt.onlyDelimited then Run.ok [opt.eol.byte] else Run.empty), f)
      else core (trimmed line opt) opt lif := rfl

theorem coreI_erase (buffer : Bytes) (opt : FastOpt) (lif : Side) (p : Nat) :
    ((coreI buffer opt lif p).1, (coreI buffer opt lif p).2.1) = core buffer opt lif := by
  unfold coreI core
  rw [← scanForI_erase lif _ _ _ (max p 1)]
  generalize scanForI lif _ _ _ _ = x
  obtain ⟨o, q⟩ := x
  cases o with
  | ok st => exact afterScanI_erase _ _ _ _ _
  | panic => rfl
  | hang => rfl

/-- **erasure, `cut_str_fast_lane`**: for every record, option record, incoming vector, early-stop
    field and value of the accumulator -/
theorem cutStrFastLaneLoopI_erase (line : Bytes) (opt : FastOpt) (f : List Nat) (lif : Side) (p : Nat) :
    ((cutStrFastLaneLoopI line opt f lif p).1, (cutStrFastLaneLoopI line opt f lif p).2.1) =
      cutStrFastLaneLoop line opt f lif := by
  rw [cutStrFastLaneLoopI_eq, cutStrFastLaneLoop_eq_core]
  by_cases h : (trimmed line opt).isEmpty = true
  · simp only [h, if_true]
  · simp only [h, Bool.false_eq_true, if_false]
    exact coreI_erase _ _ _ _

/-- **erasure, the loop over the records** -/
theorem forByteRecordI_erase (opt : FastOpt) (lif : Side) : ∀ (recs : List Bytes) (f : List Nat)
    (g : FastPeak), (forByteRecordI opt lif recs f g).1 = forByteRecord opt lif recs f := by
  intro recs
  induction recs with
  | nil => intro f g; rfl
  | cons line more ih =>
    intro f g
    simp only [forByteRecordI, forByteRecord, ih]
    have := cutStrFastLaneLoopI_erase line opt f lif g.fields
    rw [← this]

/-- the two arms of `match opt.eol` (l.182) are the same text -/
theorem readAndCutTextAsBytesLoopI_eq (opt : FastOpt) (input : Bytes) :
    readAndCutTextAsBytesLoopI opt input =
      ((forByteRecordI opt opt.bounds.lastInteresting (records opt.eol.byte input) [] {}).1.seq Run.empty,
       (forByteRecordI opt opt.bounds.lastInteresting (records opt.eol.byte input) [] {}).2) := by
  unfold readAndCutTextAsBytesLoopI
  split <;> rfl

/-- **erasure, `read_and_cut_text_as_bytes`** -/
theorem readAndCutTextAsBytesLoopI_erase (opt : FastOpt) (input : Bytes) :
    (readAndCutTextAsBytesLoopI opt input).1 = readAndCutTextAsBytesLoop opt input := by
  rw [readAndCutTextAsBytesLoopI_eq]
  have : readAndCutTextAsBytesLoop opt input =
      (forByteRecord opt opt.bounds.lastInteresting (records opt.eol.byte input) []).seq Run.empty := by
    unfold readAndCutTextAsBytesLoop
    split <;> rfl
  rw [this, forByteRecordI_erase]

/-! ### 2.2 the accumulator is a running maximum -/

theorem scanBodyI_sep (lif : Side) (i : Nat) (c : Int) (f : List Nat) (p : Nat) :
    scanBodyI lif i c f p = ((scanBodyI lif i c f 0).1, max p (scanBodyI lif i c f 0).2) := by
  unfold scanBodyI
  generalize checkedAddI32 c 1 = r
  cases r with
  | ok c' => simp only [Nat.zero_max]; split <;> rfl
  | panic => simp
  | hang => simp

theorem scanForI_sep (lif : Side) : ∀ (iter : List Nat) (c : Int) (f : List Nat) (p : Nat),
    scanForI lif iter c f p = ((scanForI lif iter c f 0).1, max p (scanForI lif iter c f 0).2) := by
  intro iter
  induction iter with
  | nil => intro c f p; simp [scanForI]
  | cons i iter ih =>
    intro c f p
    simp only [scanForI]
    rw [scanBodyI_sep lif i c f p]
    generalize scanBodyI lif i c f 0 = x
    obtain ⟨o, q⟩ := x
    cases o with
    | ok st =>
      simp only []
      split
      · rfl
      · rw [ih _ _ (max p q), ih _ _ q, Nat.max_assoc]
    | panic => rfl
    | hang => rfl

theorem afterScanI_sep (buffer : Bytes) (opt : FastOpt) (lif : Side) (st : Int × List Nat) (p : Nat) :
    afterScanI buffer opt lif st p =
      ((afterScanI buffer opt lif st 0).1, (afterScanI buffer opt lif st 0).2.1,
        max p (afterScanI buffer opt lif st 0).2.2) := by
  simp only [afterScanI]
  by_cases h : (st.1 == 0 && opt.onlyDelimited) = true
  · simp only [h, if_true, Nat.max_zero]
  · simp only [h, Bool.false_eq_true, if_false, Nat.zero_max]

theorem coreI_sep (buffer : Bytes) (opt : FastOpt) (lif : Side) (p : Nat) :
    (coreI buffer opt lif p).2.2 = max p (coreI buffer opt lif 0).2.2 := by
  unfold coreI
  rw [scanForI_sep lif _ _ _ (max p 1), scanForI_sep lif _ _ _ (max 0 1)]
  generalize scanForI lif _ _ _ 0 = x
  obtain ⟨o, q⟩ := x
  cases o with
  | ok st =>
    simp only []
    rw [afterScanI_sep _ _ _ _ (max (max p 1) q), afterScanI_sep _ _ _ _ (max (max 0 1) q)]
    simp only []
    omega
  | panic => simp only []; omega
  | hang => simp only []; omega

/-- the peak of `fields` for one record, started from an empty vector and a zero accumulator -/
def recFields (opt : FastOpt) (lif : Side) (line : Bytes) : Nat :=
  (cutStrFastLaneLoopI line opt [] lif 0).2.2

/-- **one record**: the accumulator after the call is the larger of what it was, of the length of
    the vector as it arrived, and of a number that depends on the record alone -/
theorem cutStrFastLaneLoopI_peak (line : Bytes) (opt : FastOpt) (f : List Nat) (lif : Side) (p : Nat) :
    (cutStrFastLaneLoopI line opt f lif p).2.2 = max (max p f.length) (recFields opt lif line) := by
  unfold recFields
  rw [cutStrFastLaneLoopI_eq, cutStrFastLaneLoopI_eq]
  by_cases h : (trimmed line opt).isEmpty = true
  · simp only [h, if_true]; simp
  · simp only [h, Bool.false_eq_true, if_false]
    rw [coreI_sep _ _ _ (max p f.length), coreI_sep _ _ _ (max 0 _)]
    simp

/-! ### 2.3 how large the vector gets -/

theorem checkedAddI32_ok_eq {x y z : Int} (h : checkedAddI32 x y = .ok z) : z = x + y := by
  unfold checkedAddI32 at h
  split at h
  · injection h with h; exact h.symm
  · cases h

theorem scanBodyI_cases (lif : Side) (i : Nat) (c : Int) (f : List Nat) (p : Nat) :
    scanBodyI lif i c f p =
        (.ok (c + 1, f ++ [i + 1], decide (Side.some (c + 1) = lif)), max p (f.length + 1)) ∨
      ((scanBodyI lif i c f p).2 = p ∧ ∀ st, (scanBodyI lif i c f p).1 ≠ .ok st) := by
  unfold scanBodyI
  cases h : checkedAddI32 c 1 with
  | ok c' =>
    left
    have := checkedAddI32_ok_eq h
    subst this
    simp only [push, fieldsSpace, List.length_append, List.length_singleton]
    split <;> simp [*]
  | panic => right; simp
  | hang => right; simp

theorem scanForI_bound (lif : Side) : ∀ (iter : List Nat) (c : Int) (f : List Nat) (p : Nat),
    p ≤ (scanForI lif iter c f p).2 ∧
    (scanForI lif iter c f p).2 ≤ max p (f.length + iter.length) ∧
    (f.length ≤ p → ∀ st, (scanForI lif iter c f p).1 = .ok st →
      st.2.length ≤ (scanForI lif iter c f p).2) ∧
    (∀ st, (scanForI lif iter c f p).1 = .ok st → st.2.length ≤ f.length + iter.length) := by
  intro iter
  induction iter with
  | nil =>
    intro c f p
    simp only [scanForI, List.length_nil]
    refine ⟨Nat.le_refl _, by omega, ?_, ?_⟩
    · intro hf st hst
      injection hst with hst
      subst hst
      exact hf
    · intro st hst
      injection hst with hst
      subst hst
      exact Nat.le_refl _
  | cons i iter ih =>
    intro c f p
    simp only [scanForI, List.length_cons]
    rcases scanBodyI_cases lif i c f p with h | ⟨h1, h2⟩
    · rw [h]
      simp only []
      by_cases hstop : decide (Side.some (c + 1) = lif) = true
      · simp only [hstop, if_true]
        refine ⟨by omega, by omega, ?_, ?_⟩
        · intro hf st hst
          injection hst with hst
          subst hst
          simp only [List.length_append, List.length_singleton]
          omega
        · intro st hst
          injection hst with hst
          subst hst
          simp only [List.length_append, List.length_singleton]
          omega
      · simp only [hstop, Bool.false_eq_true, if_false]
        obtain ⟨i1, i2, i3, i4⟩ := ih (c + 1) (f ++ [i + 1]) (max p (f.length + 1))
        simp only [List.length_append, List.length_singleton] at i2 i3 i4
        refine ⟨by omega, by omega, ?_, ?_⟩
        · intro hf st hst
          exact i3 (by omega) st hst
        · intro st hst
          have := i4 st hst
          omega
    · generalize hx : scanBodyI lif i c f p = x at h1 h2
      obtain ⟨o, q⟩ := x
      simp only at h1 h2
      subst h1
      cases o with
      | ok st => exact absurd rfl (h2 st)
      | panic =>
        simp only []
        exact ⟨Nat.le_refl _, by omega, (by intro _ st hst; cases hst), (by intro st hst; cases hst)⟩
      | hang =>
        simp only []
        exact ⟨Nat.le_refl _, by omega, (by intro _ st hst; cases hst), (by intro st hst; cases hst)⟩

/-- the vector as `afterScan` leaves it -/
def fieldsAfter (buffer : Bytes) (opt : FastOpt) (lif : Side) (st : Int × List Nat) : List Nat :=
  if (st.1 == 0 && opt.onlyDelimited) = true then st.2
  else if Side.some st.1 ≠ lif then st.2 ++ [buffer.length + 1] else st.2

theorem afterScanI_fields (buffer : Bytes) (opt : FastOpt) (lif : Side) (st : Int × List Nat) (q : Nat) :
    (afterScanI buffer opt lif st q).2.1 = fieldsAfter buffer opt lif st := by
  simp only [afterScanI, fieldsAfter, push]
  by_cases h : (st.1 == 0 && opt.onlyDelimited) = true
  · simp only [h, if_true]
  · simp only [h, Bool.false_eq_true, if_false]

theorem afterScanI_peak (buffer : Bytes) (opt : FastOpt) (lif : Side) (st : Int × List Nat) (q : Nat) :
    (afterScanI buffer opt lif st q).2.2 =
      if (st.1 == 0 && opt.onlyDelimited) = true then q
      else max q (fieldsAfter buffer opt lif st).length := by
  simp only [afterScanI, fieldsAfter, push, fieldsSpace]
  by_cases h : (st.1 == 0 && opt.onlyDelimited) = true
  · simp only [h, if_true]
  · simp only [h, Bool.false_eq_true, if_false]

theorem fieldsAfter_length (buffer : Bytes) (opt : FastOpt) (lif : Side) (st : Int × List Nat) :
    st.2.length ≤ (fieldsAfter buffer opt lif st).length ∧
    (fieldsAfter buffer opt lif st).length ≤ st.2.length + 1 := by
  unfold fieldsAfter
  split
  · omega
  · split <;> simp

theorem memchrIterFrom_length (d : UInt8) : ∀ (l : Bytes) (i : Nat),
    (memchrIterFrom d i l).length = l.count d := by
  intro l
  induction l with
  | nil => intro i; rfl
  | cons c t ih =>
    intro i
    simp only [memchrIterFrom]
    by_cases h : c = d
    · subst h; simp [ih]
    · have h' : ¬ (c == d) = true := by simpa using h
      simp [h, ih]

/-- `memchr_iter` yields as many offsets as there are delimiters -/
theorem memchrIter_length (d : UInt8) (l : Bytes) : (memchrIter d l).length = l.count d :=
  memchrIterFrom_length d l 0

/-- **the body of `cut_str_fast_lane` on a non-empty buffer**: the accumulator ends between
    `max p 1` and `max p (delimiters + 2)`, and the vector that is left fits under it -/
theorem coreI_bound (buffer : Bytes) (opt : FastOpt) (lif : Side) (p : Nat) :
    (coreI buffer opt lif p).2.2 ≤ max p (buffer.count opt.delimiter + 2) ∧
    (coreI buffer opt lif p).2.1.length ≤ (coreI buffer opt lif p).2.2 := by
  unfold coreI
  obtain ⟨b1, b2, b3, b4⟩ := scanForI_bound lif (memchrIter opt.delimiter buffer) 0 [0] (max p 1)
  rw [memchrIter_length] at b2 b4
  simp only [List.length_singleton] at b2 b3 b4
  generalize scanForI lif _ _ _ _ = x at b1 b2 b3 b4
  obtain ⟨o, q⟩ := x
  simp only at b1 b2 b3 b4
  cases o with
  | ok st =>
    simp only []
    rw [afterScanI_peak, afterScanI_fields]
    have hst := b3 (by omega) st rfl
    have hf := fieldsAfter_length buffer opt lif st
    by_cases h : (st.1 == 0 && opt.onlyDelimited) = true
    · simp only [h, if_true]
      have : fieldsAfter buffer opt lif st = st.2 := by simp only [fieldsAfter, h, if_true]
      rw [this]
      omega
    · simp only [h, Bool.false_eq_true, if_false]
      have hlen := b4 st rfl
      omega
  | panic => simp only [List.length_singleton]; omega
  | hang => simp only [List.length_singleton]; omega

theorem trimStartWith_count_le (d x : UInt8) : ∀ l : Bytes, (trimStartWith d l).count x ≤ l.count x := by
  intro l
  induction l with
  | nil => exact Nat.le_refl _
  | cons c t ih =>
    simp only [trimStartWith]
    split
    · exact Nat.le_trans ih (List.count_le_count_cons)
    · exact Nat.le_refl _

theorem trimEndWith_count_le (d x : UInt8) (l : Bytes) : (trimEndWith d l).count x ≤ l.count x := by
  unfold trimEndWith
  rw [List.count_reverse]
  have := trimStartWith_count_le d x l.reverse
  rwa [List.count_reverse] at this

/-- trimming does not add delimiters -/
theorem trimmed_count_le (line : Bytes) (opt : FastOpt) (x : UInt8) :
    (trimmed line opt).count x ≤ line.count x := by
  unfold trimmed
  split
  · rename_i k _
    cases k with
    | both =>
      exact Nat.le_trans (trimEndWith_count_le _ _ _) (trimStartWith_count_le _ _ _)
    | left => exact trimStartWith_count_le _ _ _
    | right => exact trimEndWith_count_le _ _ _
  · exact Nat.le_refl _

/-- **one record: `fields` holds at most (delimiters of the record) + 2 entries** — the initial
    `0`, one start per delimiter, the fake start of l.73 -/
theorem recFields_le (opt : FastOpt) (lif : Side) (line : Bytes) :
    recFields opt lif line ≤ line.count opt.delimiter + 2 := by
  unfold recFields
  rw [cutStrFastLaneLoopI_eq]
  split
  · simp
  · have := (coreI_bound (trimmed line opt) opt lif (max 0 ([] : List Nat).length)).1
    have := trimmed_count_le line opt opt.delimiter
    simp only [List.length_nil] at *
    omega

/-- the vector that `cut_str_fast_lane` leaves fits under the accumulator -/
theorem cutStrFastLaneLoopI_fields_le (line : Bytes) (opt : FastOpt) (f : List Nat) (lif : Side)
    (p : Nat) :
    (cutStrFastLaneLoopI line opt f lif p).2.1.length ≤ (cutStrFastLaneLoopI line opt f lif p).2.2 := by
  rw [cutStrFastLaneLoopI_eq]
  split
  · exact Nat.le_max_right _ _
  · exact (coreI_bound _ _ _ _).2

/-! ### 2.4 the early stop -/

theorem scanForI_stop (k : Int) : ∀ (iter : List Nat) (c : Int) (f : List Nat) (p : Nat),
    0 ≤ c → c < k → (f.length : Int) = c + 1 →
    (scanForI (.some k) iter c f p).2 ≤ max p (k.toNat + 1) ∧
    ∀ st, (scanForI (.some k) iter c f p).1 = .ok st →
      (st.2.length : Int) = st.1 + 1 ∧ st.1 ≤ k ∧ 0 ≤ st.1 := by
  intro iter
  induction iter with
  | nil =>
    intro c f p h0 hk hf
    simp only [scanForI]
    refine ⟨by omega, ?_⟩
    intro st hst
    injection hst with hst
    subst hst
    exact ⟨hf, by omega, h0⟩
  | cons i iter ih =>
    intro c f p h0 hk hf
    simp only [scanForI]
    rcases scanBodyI_cases (.some k) i c f p with h | ⟨h1, h2⟩
    · rw [h]
      simp only []
      by_cases hstop : decide (Side.some (c + 1) = Side.some k) = true
      · simp only [hstop, if_true]
        refine ⟨by omega, ?_⟩
        intro st hst
        injection hst with hst
        subst hst
        simp only [List.length_append, List.length_singleton]
        exact ⟨by omega, by omega, by omega⟩
      · simp only [hstop, Bool.false_eq_true, if_false]
        have hne : c + 1 ≠ k := by
          intro e
          apply hstop
          simp [e]
        obtain ⟨i1, i2⟩ := ih (c + 1) (f ++ [i + 1]) (max p (f.length + 1)) (by omega) (by omega)
          (by simp only [List.length_append, List.length_singleton]; omega)
        exact ⟨by omega, i2⟩
    · generalize hx : scanBodyI (.some k) i c f p = x at h1 h2
      obtain ⟨o, q⟩ := x
      simp only at h1 h2
      subst h1
      cases o with
      | ok st => exact absurd rfl (h2 st)
      | panic =>
        simp only []
        exact ⟨by omega, (by intro st hst; cases hst)⟩
      | hang =>
        simp only []
        exact ⟨by omega, (by intro st hst; cases hst)⟩

/-- with an early stop at the positive field `k` the accumulator stays under `max p (k + 1)`,
    whatever the buffer -/
theorem coreI_stop (buffer : Bytes) (opt : FastOpt) (k : Int) (hk : 1 ≤ k) (p : Nat) :
    (coreI buffer opt (.some k) p).2.2 ≤ max p (k.toNat + 1) := by
  unfold coreI
  obtain ⟨b1, b2⟩ := scanForI_stop k (memchrIter opt.delimiter buffer) 0 [0] (max p 1)
    (Int.le_refl _) (by omega) (by simp)
  generalize scanForI (.some k) _ _ _ _ = x at b1 b2
  obtain ⟨o, q⟩ := x
  simp only at b1 b2
  cases o with
  | ok st =>
    simp only []
    rw [afterScanI_peak]
    obtain ⟨h1, h2, h3⟩ := b2 st rfl
    split
    · omega
    · have : (fieldsAfter buffer opt (.some k) st).length ≤ k.toNat + 1 := by
        unfold fieldsAfter
        split
        · omega
        · by_cases he : Side.some st.1 = Side.some k
          · simp only [he, ne_eq, not_true_eq_false, if_false]; omega
          · have hne : st.1 ≠ k := fun e => he (by rw [e])
            simp only [ne_eq, he, not_false_eq_true, if_true, List.length_append,
              List.length_singleton]
            omega
      omega
  | panic => simp only []; omega
  | hang => simp only []; omega

/-- **one record, early stop at field `k ≥ 1`: at most `k + 1` entries**, whatever the record -/
theorem recFields_le_stop (opt : FastOpt) (k : Int) (hk : 1 ≤ k) (line : Bytes) :
    recFields opt (.some k) line ≤ k.toNat + 1 := by
  unfold recFields
  rw [cutStrFastLaneLoopI_eq]
  split
  · simp
  · have := coreI_stop (trimmed line opt) opt k hk (max 0 ([] : List Nat).length)
    simp only [List.length_nil] at *
    omega

/-! ### 2.5 the loop over the records -/

/-- the call for this record ends with `Ok` (so `for_byte_record` goes on); it does not depend on
    what the vector held -/
def recOk (opt : FastOpt) (lif : Side) (line : Bytes) : Bool :=
  decide ((cutStrFastLaneLoop line opt [] lif).1.status = .ok)

theorem cutStrFastLaneLoop_scratch (line : Bytes) (opt : FastOpt) (f : List Nat) (lif : Side) :
    (cutStrFastLaneLoop line opt f lif).1 = (cutStrFastLaneLoop line opt [] lif).1 := by
  rw [cutStrFastLaneLoop_eq_core, cutStrFastLaneLoop_eq_core]
  split <;> rfl

/-- the maximum of `m` over the records that are executed: all up to and including the first one
    whose call fails -/
def execMax (m : Bytes → Nat) (ok : Bytes → Bool) : List Bytes → Nat
  | [] => 0
  | r :: t => if ok r then max (m r) (execMax m ok t) else m r

/-- the maximum of `m` over all records -/
def maxOf (m : Bytes → Nat) : List Bytes → Nat
  | [] => 0
  | r :: t => max (m r) (maxOf m t)

theorem execMax_le_maxOf (m : Bytes → Nat) (ok : Bytes → Bool) : ∀ rs, execMax m ok rs ≤ maxOf m rs := by
  intro rs
  induction rs with
  | nil => exact Nat.le_refl _
  | cons r t ih =>
    simp only [execMax, maxOf]
    split <;> omega

theorem maxOf_le (m : Bytes → Nat) (b : Nat) : ∀ rs, (∀ r ∈ rs, m r ≤ b) → maxOf m rs ≤ b := by
  intro rs
  induction rs with
  | nil => intro _; exact Nat.zero_le _
  | cons r t ih =>
    intro h
    simp only [maxOf]
    have := h r (by simp)
    have := ih (fun x hx => h x (by simp [hx]))
    omega

theorem maxOf_mono (m m' : Bytes → Nat) (c : Nat) (h : ∀ r, m r ≤ m' r + c) :
    ∀ rs, maxOf m rs ≤ maxOf m' rs + c := by
  intro rs
  induction rs with
  | nil => exact Nat.zero_le _
  | cons r t ih =>
    simp only [maxOf]
    have := h r
    omega

theorem maxOf_length (rs : List Bytes) : maxOf List.length rs = maxLen rs := by
  induction rs with
  | nil => rfl
  | cons r t ih => simp only [maxOf, maxLen, ih]

/-- **the ghost state of the loop over the records, in closed form**: the peak of `fields` is the
    largest per-record peak among the executed records, the peak of the record buffer the longest
    executed record -/
theorem forByteRecordI_peak (opt : FastOpt) (lif : Side) : ∀ (recs : List Bytes) (f : List Nat)
    (g : FastPeak), f.length ≤ g.fields →
    (forByteRecordI opt lif recs f g).2 =
      { fields := max g.fields (execMax (recFields opt lif) (recOk opt lif) recs),
        record := max g.record (execMax List.length (recOk opt lif) recs) } := by
  intro recs
  induction recs with
  | nil => intro f g _; simp [forByteRecordI, execMax]
  | cons line more ih =>
    intro f g hf
    simp only [forByteRecordI, execMax, recordSpace]
    have hrun : (cutStrFastLaneLoopI line opt f lif g.fields).1 = (cutStrFastLaneLoop line opt [] lif).1 := by
      rw [← cutStrFastLaneLoop_scratch line opt f lif, ← cutStrFastLaneLoopI_erase line opt f lif g.fields]
    have hpk := cutStrFastLaneLoopI_peak line opt f lif g.fields
    have hfl := cutStrFastLaneLoopI_fields_le line opt f lif g.fields
    rw [Nat.max_eq_left hf] at hpk
    rw [ih _ _ hfl, hrun, hpk]
    by_cases hok : (cutStrFastLaneLoop line opt [] lif).1.status = .ok
    · simp only [hok, if_true, recOk, decide_true, Nat.max_assoc]
    · simp only [hok, if_false, recOk, decide_false, Bool.false_eq_true]

theorem readAndCutTextAsBytesLoopI_peak (opt : FastOpt) (input : Bytes) :
    (readAndCutTextAsBytesLoopI opt input).2 =
      { fields := execMax (recFields opt opt.bounds.lastInteresting)
          (recOk opt opt.bounds.lastInteresting) (records opt.eol.byte input),
        record := execMax List.length (recOk opt opt.bounds.lastInteresting)
          (records opt.eol.byte input) } := by
  rw [readAndCutTextAsBytesLoopI_eq]
  simp only []
  rw [forByteRecordI_peak opt _ _ [] {} (Nat.le_refl _)]
  simp

/-- the largest number of delimiters in one record -/
def maxDelims (d eol : UInt8) (input : Bytes) : Nat := maxOf (fun r => r.count d) (records eol input)

/-- **fast lane: the peak number of entries of `fields` is at most (delimiters of the record with
    the most delimiters) + 2** — every input, every option record; the number of records does not
    enter. -/
theorem readAndCutTextAsBytesLoopI_fields_le (opt : FastOpt) (input : Bytes) :
    (readAndCutTextAsBytesLoopI opt input).2.fields ≤
      maxDelims opt.delimiter opt.eol.byte input + 2 := by
  rw [readAndCutTextAsBytesLoopI_peak]
  exact Nat.le_trans (execMax_le_maxOf _ _ _)
    (maxOf_mono _ _ 2 (fun r => recFields_le opt _ r) _)

theorem maxDelims_le_longestRecord (d eol : UInt8) (input : Bytes) :
    maxDelims d eol input ≤ longestRecord eol input := by
  unfold maxDelims longestRecord
  rw [← maxOf_length]
  exact maxOf_mono _ _ 0 (fun r => List.count_le_length) _

/-- … hence at most (length of the longest record) + 2: C17's "in terms of the longest record,
    not the number of records" (8 bytes per entry on a 64-bit target) -/
theorem readAndCutTextAsBytesLoopI_fields_le_record (opt : FastOpt) (input : Bytes) :
    (readAndCutTextAsBytesLoopI opt input).2.fields ≤ longestRecord opt.eol.byte input + 2 := by
  have h1 := readAndCutTextAsBytesLoopI_fields_le opt input
  have h2 := maxDelims_le_longestRecord opt.delimiter opt.eol.byte input
  omega

/-- **fast lane with an early stop** (`last_interesting_field = Some(k)`, `k ≥ 1`: every bounds list
    whose rightmost field is a positive index): at most `k + 1` entries, whatever the input -/
theorem readAndCutTextAsBytesLoopI_fields_le_stop (opt : FastOpt) (input : Bytes) (k : Int)
    (hlif : opt.bounds.lastInteresting = .some k) (hk : 1 ≤ k) :
    (readAndCutTextAsBytesLoopI opt input).2.fields ≤ k.toNat + 1 := by
  rw [readAndCutTextAsBytesLoopI_peak, hlif]
  exact Nat.le_trans (execMax_le_maxOf _ _ _)
    (maxOf_le _ _ _ (fun r _ => recFields_le_stop opt k hk r))

/-- **fast lane: the record lent to the closure is never longer than the longest record** -/
theorem readAndCutTextAsBytesLoopI_record_le (opt : FastOpt) (input : Bytes) :
    (readAndCutTextAsBytesLoopI opt input).2.record ≤ longestRecord opt.eol.byte input := by
  rw [readAndCutTextAsBytesLoopI_peak]
  simp only []
  rw [longestRecord, ← maxOf_length]
  exact execMax_le_maxOf _ _ _

/-! ### 2.6 more records, same peak -/

theorem execMax_append (m : Bytes → Nat) (ok : Bytes → Bool) : ∀ a b : List Bytes,
    execMax m ok (a ++ b) = if a.all ok then max (execMax m ok a) (execMax m ok b) else execMax m ok a := by
  intro a b
  induction a with
  | nil => simp [execMax]
  | cons r t ih =>
    simp only [List.cons_append, execMax, List.all_cons]
    by_cases hr : ok r = true
    · simp only [hr, if_true, Bool.true_and, ih]
      split
      · rw [Nat.max_assoc]
      · rfl
    · simp only [hr, Bool.false_eq_true, if_false, Bool.false_and]

theorem execMax_replicate_le (m : Bytes → Nat) (ok : Bytes → Bool) (a : List Bytes) : ∀ k : Nat,
    execMax m ok (List.replicate k a).flatten ≤ execMax m ok a := by
  intro k
  induction k with
  | zero => exact Nat.zero_le _
  | succ k ih =>
    rw [List.replicate_succ, List.flatten_cons, execMax_append]
    split <;> omega

theorem execMax_replicate (m : Bytes → Nat) (ok : Bytes → Bool) (a : List Bytes) (k : Nat) :
    execMax m ok (List.replicate (k + 1) a).flatten = execMax m ok a := by
  rw [List.replicate_succ, List.flatten_cons, execMax_append]
  have := execMax_replicate_le m ok a k
  split <;> omega

theorem records_replicate (eol : UInt8) (block : Bytes) (h : EndsEol eol block) : ∀ k : Nat,
    records eol (List.replicate k block).flatten = (List.replicate k (records eol block)).flatten := by
  intro k
  induction k with
  | zero => rfl
  | succ k ih =>
    rw [List.replicate_succ, List.flatten_cons, List.replicate_succ, List.flatten_cons, ← ih]
    rcases h with h | h
    · subst h; rfl
    · obtain ⟨a, rfl⟩ := List.getLast?_eq_some_iff.1 h
      exact records_append eol a _

/-- **fast lane: repeating the input does not move the peaks** — `k + 1` copies of a block that
    ends with the terminator need exactly the `fields` vector and the record buffer that one copy
    needs. -/
theorem readAndCutTextAsBytesLoopI_replicate (opt : FastOpt) (block : Bytes)
    (h : block.getLast? = some opt.eol.byte) (k : Nat) :
    (readAndCutTextAsBytesLoopI opt (List.replicate (k + 1) block).flatten).2 =
      (readAndCutTextAsBytesLoopI opt block).2 := by
  rw [readAndCutTextAsBytesLoopI_peak, readAndCutTextAsBytesLoopI_peak,
    records_replicate _ _ (Or.inr h), execMax_replicate, execMax_replicate]

end Fast

section Stream
open StreamLoop

/-! ## 3. `-M`: the state of `cut_bytes_stream` -/

theorem printBof_idx (o : StreamOpt) (i : Nat) (k : Int) (tr : Bool) (piece : Bytes) (fc : Bool)
    (w : Bytes) (i' : Nat) (h : printBof o i k tr piece fc = some (w, i'))
    (hi : i ≤ o.bounds.length) : i' ≤ o.bounds.length := by
  unfold printBof at h
  split at h
  rename_i w0 i1 heq
  have h1 : i1 ≤ o.bounds.length := by
    split at heq
    · rename_i f hf
      obtain ⟨hlt, _⟩ := List.getElem?_eq_some_iff.1 hf
      injection heq with _ e
      omega
    · injection heq with _ e
      omega
  split at h
  · rename_i b hb
    obtain ⟨hlt, _⟩ := List.getElem?_eq_some_iff.1 hb
    split at h
    · cases h
    · injection h with h; injection h with _ e; omega
    · split at h <;> (injection h with h; injection h with _ e; omega)
  · injection h with h; injection h with _ e; omega

theorem printBofCall_idx (o : StreamOpt) (i : Nat) (k : Int) (chunk : Bytes) (a b : Nat) (tr fc : Bool)
    (hi : i ≤ o.bounds.length) : (printBofCall o i k chunk a b tr fc).2 ≤ o.bounds.length := by
  unfold printBofCall
  split
  · split
    · exact hi
    · rename_i w i' h
      exact printBof_idx o i k tr _ fc w i' h hi
  · exact hi

theorem memchr_lt (n : UInt8) : ∀ (l : Bytes) (i : Nat), memchr n l = some i → i < l.length := by
  intro l
  induction l with
  | nil => intro i h; cases h
  | cons c t ih =>
    intro i h
    simp only [memchr] at h
    split at h
    · injection h with h; subst h; simp
    · cases hm : memchr n t with
      | none => rw [hm] at h; cases h
      | some j =>
        simp only [hm, Option.map_some, Option.some.injEq] at h
        have := ih j hm
        simp only [List.length_cons]
        omega

/-- the invariant of the variables while a chunk of `len` bytes is borrowed: the two chunk
    indexes are inside the chunk, `bof_idx` is inside the bounds list (or one past its end) -/
def VarsOk (o : StreamOpt) (len : Nat) (v : Vars) : Prop :=
  v.chunkPartStartIdx ≤ len ∧ v.bytesToConsume ≤ len ∧ v.bofIdx ≤ o.bounds.length

theorem forBody_ok (o : StreamOpt) (chunk : Bytes) (chunkIdx : Nat) (v : Vars)
    (h : VarsOk o chunk.length v) : VarsOk o chunk.length (forBody o chunk chunkIdx v).2.1 := by
  obtain ⟨h1, h2, h3⟩ := h
  unfold forBody
  split
  · exact ⟨h1, h2, h3⟩
  · rename_i c hc
    obtain ⟨hlt, _⟩ := List.getElem?_eq_some_iff.1 hc
    simp only []
    have hp := printBofCall_idx o v.bofIdx v.currField chunk v.chunkPartStartIdx chunkIdx
      v.prevChunkMayBeTruncated true h3
    split
    · exact ⟨h1, hlt, h3⟩
    · split
      · exact ⟨hlt, hlt, Nat.le_refl _⟩
      · split
        · split
          · rename_i eolIdx he
            have := memchr_lt _ _ _ he
            simp only [List.length_drop] at this
            refine ⟨hlt, ?_, Nat.le_refl _⟩
            show chunkIdx + 1 + eolIdx + 1 ≤ chunk.length
            omega
          · exact ⟨hlt, hlt, Nat.le_refl _⟩
        · exact ⟨hlt, hlt, hp⟩

theorem forLoop_ok (o : StreamOpt) (chunk : Bytes) : ∀ (iter : List Nat) (v : Vars),
    VarsOk o chunk.length v → VarsOk o chunk.length (forLoop o chunk iter v).2 := by
  intro iter
  induction iter with
  | nil => intro v h; exact h
  | cons i iter ih =>
    intro v h
    simp only [forLoop]
    have hb := forBody_ok o chunk i v h
    split
    · exact hb
    · exact ih _ hb

theorem remainingData_ok (o : StreamOpt) (chunk : Bytes) (v : Vars)
    (h : VarsOk o chunk.length v) : VarsOk o chunk.length (remainingData o chunk v).2 := by
  obtain ⟨h1, h2, h3⟩ := h
  unfold remainingData
  split
  · simp only []
    split
    · exact ⟨h1, Nat.le_refl _, printBofCall_idx _ _ _ _ _ _ _ _ h3⟩
    · exact ⟨h1, Nat.le_refl _, h3⟩
  · exact ⟨h1, h2, h3⟩

/-- **the body of `'new_chunk`**: at l.390 the two chunk indexes are inside the chunk that is
    borrowed and `bof_idx` is inside the bounds — from ANY values of the indexes before (they are
    re-declared at l.307-308) -/
theorem chunkBody_ok (o : StreamOpt) (chunk : Bytes) (v : Vars) (h : v.bofIdx ≤ o.bounds.length) :
    VarsOk o chunk.length (chunkBody o chunk v).2 := by
  unfold chunkBody
  exact remainingData_ok o chunk _ (forLoop_ok o chunk _ _ ⟨Nat.zero_le _, Nat.zero_le _, h⟩)

theorem whileStep_cases (o : StreamOpt) (stdin : List Bytes) (v : Vars) :
    (fillBuf stdin ≠ [] ∧
      whileStep o stdin v = .again (chunkBody o (fillBuf stdin) v).1
        (consume (chunkBody o (fillBuf stdin) v).2.bytesToConsume stdin)
        (chunkBody o (fillBuf stdin) v).2) ∨
    (∃ v', whileStep o stdin v = .leave v' ∧ v'.bofIdx = v.bofIdx) := by
  unfold whileStep
  split
  · by_cases he : (fillBuf stdin).isEmpty = true
    · right
      simp only [he, if_true]
      refine ⟨_, rfl, ?_⟩
      split <;> rfl
    · left
      simp only [he, Bool.false_eq_true, if_false]
      refine ⟨?_, trivial⟩
      intro h
      rw [h] at he
      exact he rfl
  · right; exact ⟨v, rfl, rfl⟩

/-! ### 3.1 erasure -/

/-- **erasure, the two loops of `cut_bytes_stream`**: for every reader, all fuel, every state -/
theorem newChunkI_erase (o : StreamOpt) : ∀ (fuel : Nat) (stdin : List Bytes) (v : Vars),
    (newChunkI o fuel stdin v).1 = newChunk o fuel stdin v := by
  intro fuel
  induction fuel with
  | zero => intro stdin v; rfl
  | succ fuel ih =>
    intro stdin v
    simp only [newChunkI, newChunk]
    cases whileStep o stdin v with
    | again r stdin' v' => simp only [ih]
    | leave v' =>
      simp only []
      split
      · rfl
      · simp only [ih]

/-- **erasure, `cut_bytes_stream`** -/
theorem cutBytesStreamLoopI_erase (o : StreamOpt) (segs : List Bytes) :
    (cutBytesStreamLoopI o segs).1 = cutBytesStreamLoop o segs :=
  newChunkI_erase o _ _ _

/-! ### 3.2 the state that crosses a `fill_buf` -/

/-- **every component of `Vars` is a flag or a number**: the record is a fixed tuple of four
    `Bool`, three `Nat` and one `Int` — there is no `List`, `Vec` or `String` in it -/
theorem ofScalars_scalars (v : Vars) : ofScalars (scalars v) = v := rfl

theorem scalars_ofScalars (s : Scalars) : scalars (ofScalars s) = s := rfl

/-- what holds at an observation: at l.390 the chunk is not empty and not longer than `cap`, the
    two chunk indexes are inside it, `bof_idx` is inside the bounds (or one past the end); at an
    exit of `'new_chunk` `bof_idx` is inside the bounds.  The only component left unbounded is the
    counter `curr_field`. -/
def Obs.Ok (o : StreamOpt) (cap : Nat) : Obs → Prop
  | .chunkEnd n v => 1 ≤ n ∧ n ≤ cap ∧ VarsOk o n v
  | .loopExit v => v.bofIdx ≤ o.bounds.length

theorem Obs.Ok.mono {o : StreamOpt} {cap cap' : Nat} (h : cap ≤ cap') : ∀ {ob : Obs}, ob.Ok o cap → ob.Ok o cap'
  | .chunkEnd _ _, ⟨h1, h2, h3⟩ => ⟨h1, Nat.le_trans h2 h, h3⟩
  | .loopExit _, h1 => h1

/-- the longest chunk the reader can still hand out -/
theorem maxLen_consume (n : Nat) (stdin : List Bytes) : maxLen (consume n stdin) ≤ maxLen stdin := by
  unfold consume
  split
  · exact Nat.le_refl _
  · rename_i chunk more
    split
    · simp only [maxLen, List.length_drop]; omega
    · simp only [maxLen]; omega

theorem fillBuf_le_maxLen (stdin : List Bytes) : (fillBuf stdin).length ≤ maxLen stdin := by
  unfold fillBuf
  split
  · exact Nat.zero_le _
  · simp only [maxLen]; omega

/-- **`-M`: the invariant of the executed iterations** — for every reader (every segmentation of
    every input), all fuel, every state whose `bof_idx` is inside the bounds: every observation
    of the trace is `Ok`, with `cap` the longest chunk the reader hands out. -/
theorem newChunkI_ok (o : StreamOpt) : ∀ (fuel : Nat) (stdin : List Bytes) (v : Vars),
    v.bofIdx ≤ o.bounds.length → ∀ ob ∈ (newChunkI o fuel stdin v).2, ob.Ok o (maxLen stdin) := by
  intro fuel
  induction fuel with
  | zero => intro stdin v _ ob hob; cases hob
  | succ fuel ih =>
    intro stdin v hv ob hob
    simp only [newChunkI] at hob
    rcases whileStep_cases o stdin v with ⟨hne, hw⟩ | ⟨v', hw, hb⟩
    · rw [hw] at hob
      simp only [List.mem_cons] at hob
      have hok := chunkBody_ok o (fillBuf stdin) v hv
      rcases hob with rfl | hob
      · refine ⟨?_, fillBuf_le_maxLen stdin, hok⟩
        cases hf : fillBuf stdin with
        | nil => exact absurd hf hne
        | cons _ _ => simp
      · split at hob
        · exact (ih _ _ hok.2.2 ob hob).mono (maxLen_consume _ _)
        · cases hob
    · rw [hw] at hob
      simp only [] at hob
      split at hob
      · simp only [List.mem_singleton] at hob
        subst hob
        show v'.bofIdx ≤ o.bounds.length; rw [hb]; exact hv
      · simp only [List.mem_cons] at hob
        rcases hob with rfl | hob
        · show v'.bofIdx ≤ o.bounds.length; rw [hb]; exact hv
        · split at hob
          · exact ih _ _ (Nat.zero_le _) ob hob
          · cases hob

/-- **`-M`, `cut_bytes_stream` on every segmentation `segs` of every input, every option record**:
    at every `stdin.consume` the chunk indexes are inside the chunk just borrowed, which is one
    of the reader's chunks; `bof_idx` never leaves the bounds list.  Nothing else is retained. -/
theorem cutBytesStreamLoopI_ok (o : StreamOpt) (segs : List Bytes) :
    ∀ ob ∈ (cutBytesStreamLoopI o segs).2, ob.Ok o (maxLen segs) :=
  newChunkI_ok o _ segs _ (Nat.zero_le _)

end Stream

/-! ## 4. by evaluation

The instrumented functions are executable.  Bytes: `a` = 97, `-` = 45 (the delimiter), LF = 10. -/

section Guards
open LinesLoop

/-- `tuc -l <bounds>` as the parser builds it (join as `main` sets it for `-l`) -/
def optL (bounds : String) (eol : EOL := .newline) : Option Opt :=
  (boundsListOfString bounds.toList).toOption.map fun b => testOpt b true eol Option.none

/-- the peak of `line_buf` for `tuc -l <bounds>` on `input` -/
def peakL (bounds : String) (input : String) : Option Nat :=
  (optL bounds).map fun o => (cutLinesForwardOnlyLoopI o input.toUTF8.toList).2

-- four lines, the longest is `bcd` LF: everything is read, the peak is its length
#guard peakL "1:" "a\nbcd\n\nxy" == Option.some 4
#guard longestLine 10 "a\nbcd\n\nxy".toUTF8.toList == 4
#guard longestRecord 10 "a\nbcd\n\nxy".toUTF8.toList == 3
-- `-l 1`: the loop is left after the first line (l.83-85); the longest line is never read
#guard peakL "1" "a\nbcd\n\nxy" == Option.some 2
#guard peakL "2" "a\nbcd\n\nxy" == Option.some 4
-- a line that is not UTF-8 has been held when the `Err` comes back (l.28)
#guard (optL "1:").map (fun o => cutLinesForwardOnlyLoopI o [0xFF, 0xFF, 0xFF, 10, 97, 10]) ==
  Option.some (Run.fail, 4)
-- `cutLinesForwardOnlyLoopI_replicate`: three copies, same peak …
#guard peakL "1:" "a\nbcd\n" == Option.some 4
#guard peakL "1:" "a\nbcd\na\nbcd\na\nbcd\n" == Option.some 4
-- … but not without the final terminator (the hypothesis cannot be dropped: two copies of `ab`
-- ARE one line of four bytes)
#guard peakL "1:" "ab" == Option.some 2
#guard peakL "1:" "abab" == Option.some 4
-- 1000 lines of 3 bytes: peak 3
#guard (optL "1:").map (fun o => (cutLinesForwardOnlyLoopI o
  (List.replicate 1000 [97, 97, 10]).flatten).2) == Option.some 3

/-- non-vacuity of `cutLinesForwardOnlyLoopI_replicate` / `_peak_le`: a block the hypothesis holds for -/
example : ([97, 10, 98, 99, 100, 10] : Bytes).getLast? = some EOL.newline.byte := by decide

/-! erasure and bound on all 242 inputs of at most 4 lines × 15 bounds lists × join × `-z` -/

#guard [EOL.newline, .zero].all fun eol => LinesLoop.testBounds.all fun bounds =>
  [false, true].all fun join =>
  (testInputs [[], [97], [98, 99]] 4 eol.byte).all fun input =>
    let opt := testOpt bounds join eol Option.none
    let r := cutLinesForwardOnlyLoopI opt input
    r.1 == cutLinesForwardOnlyLoop opt input && r.2 ≤ longestLine eol.byte input

/-- `tuc -d - -f <bounds>` on the fast lane -/
def optF (bounds : String) (trim : Option Trim := Option.none) (fb : Option Bytes := Option.none) :
    Option FastOpt :=
  (boundsListOfString bounds.toList).toOption.map fun b =>
    { delimiter := 45, join := false, eol := .newline, bounds := b, onlyDelimited := false,
      trim := trim, fallbackOob := fb }

/-- how the run ends and the two peaks -/
def peakF (bounds : String) (input : String) (trim : Option Trim := Option.none)
    (fb : Option Bytes := Option.none) : Option (Status × FastPeak) :=
  (optF bounds trim fb).map fun o =>
    ((readAndCutTextAsBytesLoopI o input.toUTF8.toList).1.status,
     (readAndCutTextAsBytesLoopI o input.toUTF8.toList).2)

-- `a-b-c` has two delimiters: `0`, two starts, the fake start of l.73 (no early stop for `3`: the
-- record ends before a third delimiter)
#guard peakF "3" "a-b-c\n-\nx" (fb := Option.some [70]) == Option.some (.ok, { fields := 4, record := 5 })
#guard maxDelims 45 10 "a-b-c\n-\nx".toUTF8.toList == 2
-- early stop at field 1: two entries, whatever the record (`readAndCutTextAsBytesLoopI_fields_le_stop`)
#guard peakF "1" "a-b-c\n-\nx" == Option.some (.ok, { fields := 2, record := 5 })
#guard peakF "1" "a---------------b\n" == Option.some (.ok, { fields := 2, record := 17 })
-- the bound `delimiters + 2` is reached: five delimiters, seven entries
#guard peakF "-1" "-----\n" == Option.some (.ok, { fields := 7, record := 5 })
-- trimming removes delimiters before they are counted
#guard peakF "-1" "--a--\n" (trim := Option.some .both) == Option.some (.ok, { fields := 2, record := 5 })
#guard peakF "-1" "-----\n" (trim := Option.some .both) == Option.some (.ok, { fields := 0, record := 5 })
-- the first record fails (no field 3, no fallback): the second one is never lent
#guard peakF "3" "x\na-b-c-d-e\n" == Option.some (.fail, { fields := 2, record := 1 })
#guard peakF "3" "x\na-b-c-d-e\n" (fb := Option.some [70]) == Option.some (.ok, { fields := 4, record := 9 })
-- `readAndCutTextAsBytesLoopI_replicate` …
#guard peakF "2:" "a-b-c\nd-e\n" == Option.some (.ok, { fields := 4, record := 5 })
#guard peakF "2:" "a-b-c\nd-e\na-b-c\nd-e\na-b-c\nd-e\n" == Option.some (.ok, { fields := 4, record := 5 })
-- … and why the block has to end with the terminator
#guard peakF "2:" "a-b" == Option.some (.ok, { fields := 3, record := 3 })
#guard peakF "2:" "a-ba-b" == Option.some (.ok, { fields := 4, record := 6 })
-- 500 records of two fields
#guard (optF "2").map (fun o => (readAndCutTextAsBytesLoopI o
  (List.replicate 500 [97, 45, 97, 10]).flatten).2) == Option.some { fields := 3, record := 3 }

/-! erasure and bounds on all inputs of at most 6 bytes over `{a, -, LF}` × 15 bounds lists ×
    `-s` × `-t b` -/

#guard ((List.range 7).flatMap (FastLoop.linesOfLength [97, 45, 10])).all fun input =>
  FastLoop.testBounds.all fun bounds =>
    [false, true].all fun s => [Option.none, Option.some TrimKind.both].all fun trim =>
    let opt : FastOpt := { delimiter := 45, join := false, eol := .newline, bounds := bounds,
                           onlyDelimited := s, trim := trim, fallbackOob := Option.none }
    let r := readAndCutTextAsBytesLoopI opt input
    r.1 == readAndCutTextAsBytesLoop opt input &&
      r.2.fields ≤ maxDelims 45 10 input + 2 && r.2.record ≤ longestRecord 10 input

open StreamLoop

instance (o : StreamOpt) (cap : Nat) : (ob : Obs) → Decidable (ob.Ok o cap)
  | .chunkEnd n v => by unfold Obs.Ok VarsOk; exact inferInstance
  | .loopExit v => by unfold Obs.Ok; exact inferInstance

/-- the trace, reduced to (chunk length, `chunk_part_start_idx`, `bytes_to_consume`, `bof_idx`,
    `curr_field`) at l.390 -/
def chunkEnds (t : List Obs) : List (Nat × Nat × Nat × Nat × Int) :=
  t.filterMap fun
    | .chunkEnd n v => Option.some (n, v.chunkPartStartIdx, v.bytesToConsume, v.bofIdx, v.currField)
    | .loopExit _ => Option.none

-- `-f 2`, reads of 4, 3 and 6 bytes: early stop in the first chunk, the EOL is found in the third
-- one, whose rest (`f-g` LF) is handed out again as a chunk of 4
#guard chunkEnds (cutBytesStreamLoopI (mkOpt "2") (segsOf "a-b-c-de\nf-g\n".toUTF8.toList [4, 3, 6])).2 ==
  [(4, 4, 4, 1, 2), (3, 2, 3, 1, 2), (6, 2, 2, 1, 2), (4, 4, 4, 1, 2)]
-- one field of 12 bytes in reads of 5: nothing but indexes and flags crosses the reads
#guard chunkEnds (cutBytesStreamLoopI (mkOpt "1") (segsOf "aaaaaaaaaaaa\n".toUTF8.toList [5, 5, 5])).2 ==
  [(5, 0, 5, 0, 1), (5, 0, 5, 0, 1), (3, 3, 3, 1, 1)]

-- `newChunkI_ok` asks for `bof_idx ≤ bounds.len()` in the state it starts from (the function starts
-- from 0): from an index outside the bounds the first observation already shows it
#guard (newChunkI (mkOpt "1") 4 [[97, 97]] { bofIdx := 5 }).2.any fun ob =>
  !decide (ob.Ok (mkOpt "1") 2)

/-! erasure and invariant on every input of at most 4 bytes over `{a, -, LF}` × every segmentation
    × the option records of `Tuc.Props.StreamLoop` (parsed ones and hand-made ones) -/

#guard (optsParsed.filter (·.eol == .newline) ++ optsWild).all fun o =>
  (wordsUpTo [0x61, 0x2d, 0x0a] 4).all fun w => (segmentations w).all fun segs =>
    let r := cutBytesStreamLoopI o segs
    r.1 == cutBytesStreamLoop o segs && r.2.all fun ob => decide (ob.Ok o (maxLen segs))

end Guards

end Space
end Tuc
