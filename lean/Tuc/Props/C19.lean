import Tuc.Model.Args
/-!
# C19 — contradictory or unsupported option sets are rejected up front, others accepted

`conflict` is the statement of the property, clause by clause, as a predicate on the option set;
`decision` is the model of `parse_args` + `main` in the order the code tests things.  They are
proved to agree on every one of the (finite but large) space of option sets — by case analysis,
not by enumeration.
-/
namespace Tuc

/-- the property's list of contradictory / unsupported combinations -/
def conflict (f : Flags) : Bool :=
  -- --join with --no-join
  (f.j && f.noJoin) ||
  -- --no-join with --json, -r or -c
  (f.noJoin && (f.json || f.r ≠ .absent || f.mode = .c)) ||
  -- -r with --json
  (f.r ≠ .absent && f.json) ||
  -- --json with -b, -l or format text
  (f.json && (f.mode = .b || f.mode = .l || f.fmt)) ||
  -- -M 0
  f.mem = .zero ||
  -- -M together with a multi-byte delimiter or replacement, bounds that are not strictly ascending,
  -- -g, -p, -m, -t, -s, -e, --json, -c, -b or -l
  (f.mem = .pos && (f.d = .other || f.r = .other || !f.fwd || f.g || f.p || f.m || f.t || f.s || f.e
      || f.json || f.mode = .c || f.mode = .b || f.mode = .l)) ||
  -- an option the selected mode does not take
  (f.d ≠ .absent && !f.isFields) ||
  (f.e && f.mode = .c) ||
  -- unknown arguments
  f.extra

/-- "-e with -j or -p but with neither -r nor --json fails on the first record" -/
def failsFirst (f : Flags) : Bool :=
  f.e && f.isFields && (f.j || f.p) && f.r = .absent && !f.json

/-- **The decision table.**  An option set is rejected up front iff it is one of the listed
    contradictory or unsupported combinations. -/
theorem reject_iff_conflict (f : Flags) : decision f = .reject ↔ conflict f = true := by
  rcases f with ⟨mode, d, e, g, p, s, z, m, j, noJoin, json, r, t, fallback, mem, fmt, fwd, extra⟩
  cases mem <;> cases mode <;> cases r <;> cases d <;>
    simp [decision, conflict, Flags.isFields, Flags.streamOk, Flags.fastOk, Flags.regex, Flags.replSome,
      Flags.join] <;> grind

/-- every other combination is accepted — possibly to fail on the first record -/
theorem accepted_iff_no_conflict (f : Flags) :
    (decision f = .failFirst ∨ ∃ e j, decision f = .accept e j) ↔ conflict f = false := by
  have h := reject_iff_conflict f
  cases hd : decision f with
  | reject => simp [hd] at h ⊢; exact h
  | failFirst =>
    simp only [hd, reduceCtorEq, false_iff] at h
    simp only [true_or, true_iff]
    cases hc : conflict f
    · rfl
    · exact absurd hc h
  | accept e j =>
    simp only [hd, reduceCtorEq, false_iff] at h
    have : (∃ e' j', Decision.accept e j = Decision.accept e' j') := ⟨e, j, rfl⟩
    simp only [reduceCtorEq, false_or, this, true_iff]
    cases hc : conflict f
    · rfl
    · exact absurd hc h

/-- which accepted option sets fail on their first record (outside `-M`) -/
theorem failFirst_iff (f : Flags) (hm : f.mem = .absent) (hc : conflict f = false) :
    decision f = .failFirst ↔ failsFirst f = true := by
  rcases f with ⟨mode, d, e, g, p, s, z, m, j, noJoin, json, r, t, fallback, mem, fmt, fwd, extra⟩
  simp only at hm
  subst hm
  cases mode <;> cases r <;> cases d <;>
    simp [decision, conflict, failsFirst, Flags.isFields, Flags.streamOk, Flags.fastOk, Flags.regex,
      Flags.replSome, Flags.join] at hc ⊢ <;> grind

/-- `-l`, `-c`, `-r` and `--json` imply join; `--no-join` cancels it only for `-l` -/
theorem implied_join (f : Flags) (e : Engine) (jn : Bool) (h : decision f = .accept e jn) :
    jn = (f.j || f.json || f.r ≠ .absent || f.mode = .c || (f.mode = .l && !f.noJoin)) := by
  rcases f with ⟨mode, d, e', g, p, s, z, m, j, noJoin, json, r, t, fallback, mem, fmt, fwd, extra⟩
  cases mem <;> cases mode <;> cases r <;> cases d <;>
    simp [decision, Flags.isFields, Flags.streamOk, Flags.fastOk, Flags.regex, Flags.replSome,
      Flags.join] at h ⊢ <;> grind

/-- the decision does not look at `-z` or `--fallback-oob` at all -/
theorem decision_ignores_z_fallback (f : Flags) (z' fb' : Bool) :
    decision { f with z := z', fallback := fb' } = decision f := by
  simp [decision, Flags.isFields, Flags.streamOk, Flags.fastOk, Flags.regex, Flags.replSome, Flags.join]

/-- which engine serves an accepted option set without `-M`: bytes, lines, the fast path exactly
    on its documented domain, the general path otherwise -/
theorem engine_choice (f : Flags) (e : Engine) (jn : Bool) (hm : f.mem = .absent)
    (h : decision f = .accept e jn) :
    e = (if f.mode = .b then .bytes else if f.mode = .l then .lines
         else if f.d ≠ .other && !f.m && !f.g && !f.p && !f.json && f.r = .absent && !f.e && f.mode ≠ .c
         then .fast else .general) := by
  rcases f with ⟨mode, d, e', g, p, s, z, m, j, noJoin, json, r, t, fallback, mem, fmt, fwd, extra⟩
  simp only at hm
  subst hm
  cases mode <;> cases r <;> cases d <;>
    simp [decision, Flags.isFields, Flags.streamOk, Flags.fastOk, Flags.regex, Flags.replSome,
      Flags.join] at h ⊢ <;> grind

/-- non-vacuity: `-f … -d - -j` is accepted on the fast path with join; adding `--no-join` is a conflict -/
example : decision ⟨.f, .one, false, false, false, false, false, false, true, false, false, .absent, false,
    false, .absent, false, true, false⟩ = .accept .fast true := by decide

example : conflict ⟨.f, .one, false, false, false, false, false, false, true, true, false, .absent, false,
    false, .absent, false, true, false⟩ = true := by decide

end Tuc
