import Tuc.Lemmas.StreamSpec
/-!
# C03 — `-M` computes what the specification says, on admissible records

"For every input and every option set that `-M` accepts, stdout and exit status equal those of the
same invocation without `-M` on every record in which each requested range is either wholly
present or wholly absent."  Formally the right-hand side is the per-record specification
`Spec.specRun (Spec.cfgOf opt)` (which the general engine is proved / checked to refine).

Structure:
* `Tuc.Lemmas.StreamSpec`: by C04 the run is the untagged run; on the fields `f₁ … fₙ` of a record
  it is `fieldsRun` (one completing `print_bof` per field, early stop, `endOfRecord`), and the
  input is processed record by record (`cutBytesStream_records`);
* here: `fields_refine`, the induction over the fields with the two-state invariant
  `NIP` (no range in progress: what is still to be written is `emit` of the pending bofs) /
  `IP` (the pending bound has written fields `lo … k-1`: still to be written are the delimiter
  and field for `k … hi`, the joiner, and `emit` of the bofs after it), under the forward
  discipline `Fwd` (positive, ascending, disjoint, open range last, `isLast` on the last bound);
* `recRun_eq_specRecord` (one record), `stream_refines_spec_core` (whole input, any read
  segmentation), and the derivation of `Fwd` from what `StreamOpt::try_from` checks
  (`stream_refines_spec`).
-/
namespace Tuc
open Tuc.Spec

/-- the left side of a bound, an open one read as 1 -/
def BLo (b : UserBounds) : Int := match b.l with | .some l => l | .cont => 1

/-- the forward discipline, relative to the last field `p` already passed: every bound starts
    after `p`, ends not before it starts, the next one starts after it ends; an open right side
    only on the last bound; `isLast` exactly on the last bound -/
def Fwd : Int → List BoF → Prop
  | _, [] => True
  | p, .filler _ :: t => Fwd p t
  | p, .bound b :: t => p < BLo b ∧ b.isLast = decide (countBounds t = 0) ∧
      (match b.r with
       | .some hi => BLo b ≤ hi ∧ Fwd hi t
       | .cont => countBounds t = 0)

/-- right side of the last bound -/
def lastR : List BoF → Option Side
  | [] => none
  | .filler _ :: t => lastR t
  | .bound b :: t => if countBounds t = 0 then some b.r else lastR t

theorem fwd_of_noBounds (p : Int) : ∀ l : List BoF, countBounds l = 0 → Fwd p l
  | [], _ => trivial
  | .filler _ :: t, h => by simpa [Fwd] using fwd_of_noBounds p t (by simpa [countBounds] using h)
  | .bound _ :: t, h => by simp [countBounds] at h

theorem fwd_head {p p' : Int} {b : UserBounds} {t : List BoF} (h : Fwd p (.bound b :: t))
    (hp : p' < BLo b) : Fwd p' (.bound b :: t) := by
  simp only [Fwd] at h ⊢
  exact ⟨hp, h.2⟩

theorem fwd_mono {p p' : Int} (hp : p' ≤ p) : ∀ l : List BoF, Fwd p l → Fwd p' l
  | [], _ => trivial
  | .filler _ :: t, h => by simp only [Fwd] at h ⊢; exact fwd_mono hp t h
  | .bound b :: t, h => fwd_head h (by simp only [Fwd] at h; omega)

/-- the field the early stop waits for lies after everything already passed -/
theorem fwd_lastR {p k : Int} : ∀ l : List BoF, Fwd p l → lastR l = some (Side.some k) → p < k
  | [], _, h => by simp [lastR] at h
  | .filler _ :: t, hf, h => by
    simp only [Fwd] at hf; simp only [lastR] at h; exact fwd_lastR t hf h
  | .bound b :: t, hf, h => by
    simp only [Fwd] at hf
    simp only [lastR] at h
    obtain ⟨h1, _, h3⟩ := hf
    split at h
    · simp only [Option.some.injEq] at h
      rw [h] at h3
      simp only at h3
      omega
    · cases hr : b.r with
      | cont => rw [hr] at h3; simp only at h3; contradiction
      | some hi =>
        rw [hr] at h3
        simp only at h3
        have := fwd_lastR t h3.2 h
        omega

theorem matches_pos (b : UserBounds) (k : Int) (hk : 0 < k) (hlo : 0 < BLo b)
    (hhi : ∀ hi, b.r = .some hi → 0 < hi) :
    b.matches k = some (decide (BLo b ≤ k) &&
      (match b.r with | .some hi => decide (k ≤ hi) | .cont => true)) := by
  unfold UserBounds.matches BLo at *
  cases hl : b.l with
  | cont =>
    cases hr : b.r with
    | cont => simp; omega
    | some hi =>
      have := hhi hi hr
      have h1 : oppSign hi k = false := by simp [oppSign]; omega
      simp [h1]; omega
  | some l =>
    rw [hl] at hlo
    simp only at hlo
    have h0 : oppSign l k = false := by simp [oppSign]; omega
    cases hr : b.r with
    | cont => simp [h0]
    | some hi =>
      have := hhi hi hr
      have h1 : oppSign hi k = false := by simp [oppSign]; omega
      simp [h0, h1]

theorem drop_eq_cons {α : Type} {l : List α} {i : Nat} {a : α} {t : List α} (h : l.drop i = a :: t) :
    l[i]? = some a ∧ l.drop (i + 1) = t := by
  constructor
  · have := congrArg List.head? h
    simpa [List.head?_drop] using this
  · have := congrArg List.tail h
    simpa [List.tail_drop] using this

/-- `print_bof` when the pending element is a bound -/
theorem printBof_at_bound (o : StreamOpt) (i : Nat) (k : Int) (tr : Bool) (p : Bytes) (fc : Bool)
    (b : UserBounds) (t : List BoF) (h : o.bounds.drop i = .bound b :: t) :
    printBof o i k tr p fc =
      match b.matches k with
      | none => none
      | some false => some ([], i)
      | some true =>
        let w1 := (if !tr && decide (k > 1) && decide (b.l ≠ .some k) then [o.joiner] else []) ++ p
        if fc && decide (b.r = .some k) then
          some (w1 ++ (if o.join && !b.isLast then [o.joiner] else []), i + 1)
        else some (w1, i) := by
  have h0 := (drop_eq_cons h).1
  unfold printBof
  simp only [h0]
  cases b.matches k with
  | none => rfl
  | some m => cases m <;> simp

/-- `print_bof` when a filler is pending in front of a bound: the filler, then as for the bound -/
theorem printBof_at_filler (o : StreamOpt) (i : Nat) (k : Int) (tr : Bool) (p : Bytes) (fc : Bool)
    (x : Bytes) (b : UserBounds) (t : List BoF) (h : o.bounds.drop i = .filler x :: .bound b :: t) :
    printBof o i k tr p fc = (printBof o (i + 1) k tr p fc).map fun (w, j) => (x ++ w, j) := by
  have h0 := (drop_eq_cons h).1
  have h1 := (drop_eq_cons (drop_eq_cons h).2).1
  unfold printBof
  simp only [h0, h1]
  cases b.matches k with
  | none => rfl
  | some m =>
    cases m
    · simp
    · simp only [Option.map]
      split <;> simp [List.append_assoc]

theorem printBof_at_bound_ne_none (o : StreamOpt) (i : Nat) (k : Int) (tr : Bool) (p : Bytes)
    (fc : Bool) (b : UserBounds) (t : List BoF) (h : o.bounds.drop i = .bound b :: t)
    (hm : b.matches k ≠ none) : printBof o i k tr p fc ≠ none := by
  rw [printBof_at_bound o i k tr p fc b t h]
  cases hmm : b.matches k with
  | none => exact absurd hmm hm
  | some m =>
    cases m
    · simp
    · simp only; split <;> simp

theorem fieldsRun_filler (o : StreamOpt) (i : Nat) (k : Int) (fs : List Bytes) (hfs : fs ≠ [])
    (x : Bytes) (b : UserBounds) (t : List BoF) (h : o.bounds.drop i = .filler x :: .bound b :: t)
    (hm : b.matches k ≠ none) :
    fieldsRun o i k fs = Run.pre x (fieldsRun o (i + 1) k fs) := by
  have hne := fun f => printBof_at_bound_ne_none o (i + 1) k false f true b t (drop_eq_cons h).2 hm
  cases fs with
  | nil => exact absurd rfl hfs
  | cons f more =>
    cases more with
    | nil =>
      simp only [fieldsRun, endOfRecord, printBof_at_filler o i k false f true x b t h]
      cases hp : printBof o (i + 1) k false f true with
      | none => exact absurd hp (hne f)
      | some y => simp [Run.seq_ok, Run.pre_pre]
    | cons g gs =>
      simp only [fieldsRun, printBof_at_filler o i k false f true x b t h]
      cases hp : printBof o (i + 1) k false f true with
      | none => exact absurd hp (hne f)
      | some y =>
        simp only [Option.map]
        split <;> simp [Run.seq_ok, Run.pre_pre]

/-! ## the specification's side, for positive forward bounds -/

theorem resolve_absent (b : UserBounds) (n : Nat) (hn : 1 ≤ n) (h : (n : Int) < BLo b) :
    resolve b n = none := by
  unfold resolve resolveSide
  unfold BLo at h
  cases hl : b.l with
  | cont => rw [hl] at h; simp only at h; omega
  | some l =>
    rw [hl] at h
    simp only at h
    have : l = 0 ∨ l > (n : Int) ∨ l < -(n : Int) := Or.inr (Or.inl h)
    simp only [if_pos this]

theorem resolve_closed (b : UserBounds) (n : Nat) (hi : Int) (hr : b.r = .some hi)
    (hlo : 0 < BLo b) (hle : BLo b ≤ hi) (hn : hi ≤ n) :
    resolve b n = some ((BLo b).toNat, hi.toNat) := by
  unfold resolve resolveSide
  unfold BLo at *
  have h2 : ¬ (hi = 0 ∨ hi > (n : Int) ∨ hi < -(n : Int)) := by omega
  have h2' : hi > 0 := by omega
  cases hl : b.l with
  | cont =>
    rw [hl] at hle
    simp only at hle
    simp only [hr, if_neg h2, if_pos h2']
    have : 1 ≤ hi.toNat ∧ 1 ≤ 1 := by omega
    simp [this]
  | some l =>
    rw [hl] at hlo hle
    simp only at hlo hle
    have h1 : ¬ (l = 0 ∨ l > (n : Int) ∨ l < -(n : Int)) := by omega
    simp only [hr, if_neg h1, if_pos hlo, if_neg h2, if_pos h2']
    have : l.toNat ≤ hi.toNat ∧ 1 ≤ l.toNat := by omega
    simp [this]

theorem resolve_open (b : UserBounds) (n : Nat) (hr : b.r = .cont)
    (hlo : 0 < BLo b) (hn : BLo b ≤ n) :
    resolve b n = some ((BLo b).toNat, n) := by
  unfold resolve resolveSide
  unfold BLo at *
  cases hl : b.l with
  | cont =>
    rw [hl] at hn
    simp only at hn
    have : 1 ≤ n ∧ 1 ≤ 1 := by omega
    simp [hr, this]
  | some l =>
    rw [hl] at hlo hn
    simp only at hlo hn
    have h1 : ¬ (l = 0 ∨ l > (n : Int) ∨ l < -(n : Int)) := by omega
    simp only [hr, if_neg h1, if_pos hlo]
    have : l.toNat ≤ n ∧ 1 ≤ l.toNat := by omega
    simp [this]

/-- what the specification needs of the configuration -/
structure CfgOK (o : StreamOpt) (cfg : Cfg) : Prop where
  json : cfg.json = false
  join : cfg.join = o.join
  fallback : cfg.fallback = o.fallbackOob

/-- `emit` on the plain tokenisation `f0 :: rest`, separators and joiner = the `-r` byte or the
    delimiter -/
def emitPlain (o : StreamOpt) (cfg : Cfg) (f0 : Bytes) (rest : List Bytes) (rem : List BoF) : Run :=
  emit cfg ⟨f0, rest.map fun f => (1, f)⟩ (repeatBytes [o.joiner]) [o.joiner] rem

theorem emitPlain_nil (o : StreamOpt) (cfg : Cfg) (f0 : Bytes) (rest : List Bytes) :
    emitPlain o cfg f0 rest [] = Run.empty := rfl

theorem emitPlain_filler (o : StreamOpt) (cfg : Cfg) (f0 : Bytes) (rest : List Bytes) (x : Bytes)
    (r : List BoF) : emitPlain o cfg f0 rest (.filler x :: r) = Run.pre x (emitPlain o cfg f0 rest r) := rfl

theorem emitPlain_bound_some (o : StreamOpt) (cfg : Cfg) (hc : CfgOK o cfg) (f0 : Bytes) (rest : List Bytes)
    (b : UserBounds) (r : List BoF) (lo hi : Nat) (h : resolve b (rest.length + 1) = some (lo, hi)) :
    emitPlain o cfg f0 rest (.bound b :: r) =
      Run.pre (pieceText (repeatBytes [o.joiner]) ⟨f0, rest.map fun f => (1, f)⟩ lo hi ++
        (if o.join && decide (countBounds r > 0) then [o.joiner] else [])) (emitPlain o cfg f0 rest r) := by
  unfold emitPlain
  simp only [emit, Tok.numFields, List.length_map, h, hc.json, hc.join]
  rfl

theorem emitPlain_bound_none (o : StreamOpt) (cfg : Cfg) (hc : CfgOK o cfg) (f0 : Bytes) (rest : List Bytes)
    (b : UserBounds) (r : List BoF) (h : resolve b (rest.length + 1) = none) :
    emitPlain o cfg f0 rest (.bound b :: r) =
      match (match b.fallback with | some f => some f | none => o.fallbackOob) with
      | none => Run.fail
      | some x => Run.pre (x ++ (if o.join && decide (countBounds r > 0) then [o.joiner] else []))
          (emitPlain o cfg f0 rest r) := by
  unfold emitPlain
  simp only [emit, Tok.numFields, List.length_map, h, hc.json, hc.join, hc.fallback]
  cases b.fallback with
  | some f => rfl
  | none =>
    cases o.fallbackOob with
    | none => rfl
    | some f => rfl

theorem joiner_flag (b : UserBounds) (t : List BoF) (j : Bool)
    (h : b.isLast = decide (countBounds t = 0)) :
    (j && !b.isLast) = (j && decide (countBounds t > 0)) := by
  rw [h]
  by_cases h0 : countBounds t = 0
  · simp [h0]
  · have : countBounds t > 0 := by omega
    simp [h0, this]

/-- at the end of the record every bound not reached yet is wholly absent:
    `print_filler_or_fallbacks` is the specification's fallback rule -/
theorem pfof_absent (o : StreamOpt) (cfg : Cfg) (hc : CfgOK o cfg) (f0 : Bytes) (rest : List Bytes)
    (m : Int) (hm : 0 < m) : ∀ (rem : List BoF) (p : Int), Fwd p rem → ((rest.length + 1 : Nat) : Int) ≤ p →
    m ≤ p → printFillerOrFallbacks o m rem = emitPlain o cfg f0 rest rem := by
  intro rem
  induction rem with
  | nil => intro _ _ _ _; rfl
  | cons a t ih =>
    intro p hf hn hmp
    cases a with
    | filler x =>
      simp only [Fwd] at hf
      rw [printFillerOrFallbacks, emitPlain_filler, ih p hf hn hmp, Run.seq_ok]
    | bound b =>
      simp only [Fwd] at hf
      obtain ⟨h1, h2, h3⟩ := hf
      have hmat : b.matches m = some false := by
        rw [matches_pos b m hm (by omega) (by
          intro hi hr; rw [hr] at h3; simp only at h3; omega)]
        have : ¬ (BLo b ≤ m) := by omega
        simp [this]
      have hres : resolve b (rest.length + 1) = none := resolve_absent b _ (by omega) (by omega)
      have ht : printFillerOrFallbacks o m t = emitPlain o cfg f0 rest t := by
        cases hr : b.r with
        | cont =>
          rw [hr] at h3
          exact ih p (fwd_of_noBounds p t h3) hn hmp
        | some hi =>
          rw [hr] at h3
          simp only at h3
          exact ih hi h3.2 (by omega) (by omega)
      rw [printFillerOrFallbacks, emitPlain_bound_none o cfg hc f0 rest b t hres]
      simp only [hmat, Bool.false_eq_true, and_false, if_false, joiner_flag b t o.join h2, ht]
      cases b.fallback with
      | some f => simp [Run.seq_ok]
      | none =>
        cases o.fallbackOob with
        | none => rfl
        | some f => simp [Run.seq_ok]

/-- the text of fields `k … hi` when the fields from `k` on are `f :: more` -/
theorem piece_at (j : Bytes) (f0 : Bytes) (rest : List Bytes) (k hi : Nat) (f : Bytes)
    (more : List Bytes) (hF : (f0 :: rest).drop (k - 1) = f :: more) (hk : 1 ≤ k) (hkh : k ≤ hi) :
    pieceText (repeatBytes j) ⟨f0, rest.map fun f => (1, f)⟩ k hi =
      f ++ (more.take (hi - k)).flatMap fun g => j ++ g := by
  rw [pieceText_plain j f0 rest k hi hk hkh, List.extract_eq_take_drop, hF]
  have : hi - (k - 1) = (hi - k) + 1 := by omega
  rw [this, List.take_succ_cons, joinWith_cons_flatMap]

/-! ## the induction over the fields of a record -/

/-- the text still to come of a range in progress: for each of the next `c` fields, the
    (replacement) delimiter and the field -/
def tailText (o : StreamOpt) (fs : List Bytes) (c : Nat) : Bytes :=
  (fs.take c).flatMap fun g => [o.joiner] ++ g

def joinerAfter (o : StreamOpt) (b : UserBounds) : Bytes := if o.join && !b.isLast then [o.joiner] else []

/-- the right end of a bound among `n` fields -/
def hiN (b : UserBounds) (n : Nat) : Nat := match b.r with | .some hi => hi.toNat | .cont => n

/-- state "no range in progress": every bound still pending starts at field `k` or later -/
def NIP (o : StreamOpt) (cfg : Cfg) (f0 : Bytes) (rest : List Bytes) (fs : List Bytes) (k : Nat) :
    Prop :=
  ∀ i rem, o.bounds.drop i = rem → 0 < countBounds rem → Fwd ((k : Int) - 1) rem →
    lastR rem = some o.lastInterestingField →
    fieldsRun o i (k : Int) fs = (emitPlain o cfg f0 rest rem).seq (Run.ok [o.eol.byte])

/-- state "range in progress": the pending bound started before field `k` and reaches it -/
def IP (o : StreamOpt) (cfg : Cfg) (f0 : Bytes) (rest : List Bytes) (fs : List Bytes) (k : Nat) :
    Prop :=
  ∀ i b t', o.bounds.drop i = .bound b :: t' → Fwd 0 (.bound b :: t') →
    lastR (.bound b :: t') = some o.lastInterestingField → BLo b < (k : Int) →
    (∀ hi, b.r = .some hi → (k : Int) ≤ hi) →
    fieldsRun o i (k : Int) fs =
      (Run.pre (tailText o fs (hiN b (rest.length + 1) + 1 - k) ++ joinerAfter o b) (emitPlain o cfg f0 rest t')).seq
        (Run.ok [o.eol.byte])

theorem length_of_drop {f0 : Bytes} {rest : List Bytes} {k : Nat} {f : Bytes} {more : List Bytes}
    (hF : (f0 :: rest).drop (k - 1) = f :: more) : k + more.length = rest.length + 1 ∧ 1 ≤ k ∨
      (k = 0 ∧ more.length = rest.length) := by
  have := congrArg List.length hF
  simp only [List.length_drop, List.length_cons] at this
  omega

/-- the pending bound is completed by field `k` -/
theorem step_complete (o : StreamOpt) (cfg : Cfg) (hc : CfgOK o cfg) (f0 : Bytes) (rest : List Bytes)
    (i k : Nat) (f : Bytes) (more : List Bytes) (b : UserBounds) (t' : List BoF) (w : Bytes)
    (hF : (f0 :: rest).drop (k - 1) = f :: more) (hk : 1 ≤ k)
    (hdrop : o.bounds.drop i = .bound b :: t') (hfwd : Fwd 0 (.bound b :: t'))
    (hlr : lastR (.bound b :: t') = some o.lastInterestingField)
    (hr : b.r = .some (k : Int))
    (hpb : printBof o i k false f true = some (w, i + 1))
    (ih : more ≠ [] → NIP o cfg f0 rest more (k + 1)) :
    fieldsRun o i k (f :: more) =
      Run.pre w ((emitPlain o cfg f0 rest t').seq (Run.ok [o.eol.byte])) := by
  have hfwd' : Fwd k t' := by
    simp only [Fwd, hr] at hfwd; exact hfwd.2.2.2
  have hdrop' : o.bounds.drop (i + 1) = t' := (drop_eq_cons hdrop).2
  have hlen := length_of_drop hF
  cases more with
  | nil =>
    have hkn : k = rest.length + 1 := by simp at hlen; omega
    simp only [fieldsRun, endOfRecord, hpb]
    rw [hdrop', pfof_absent o cfg hc f0 rest k (by omega) t' k hfwd' (by omega) (Int.le_refl _),
      Run.seq_ok]
  | cons g gs =>
    simp only [fieldsRun, hpb]
    by_cases hcb : countBounds t' = 0
    · have hli : Side.some (k : Int) = o.lastInterestingField := by
        simp only [lastR, hcb, if_true, hr, Option.some.injEq] at hlr
        exact hlr
      rw [if_pos hli, hdrop',
        pfof_absent o cfg hc f0 rest k (by omega) t' ((rest.length + 1 + k : Nat) : Int)
          (fwd_of_noBounds _ t' hcb) (by omega) (by omega), Run.seq_ok]
    · have hlr' : lastR t' = some o.lastInterestingField := by
        simpa [lastR, hcb] using hlr
      have hli : Side.some (k : Int) ≠ o.lastInterestingField := by
        intro h
        rw [← h] at hlr'
        have := fwd_lastR t' hfwd' hlr'
        omega
      rw [if_neg hli]
      have hcast : ((k + 1 : Nat) : Int) = (k : Int) + 1 := by omega
      have := ih (by simp) (i + 1) t' hdrop' (by omega) (by rw [hcast]; simpa using hfwd') hlr'
      rw [hcast] at this
      rw [this, Run.seq_ok]

/-- admissibility of a record with `n` fields: no closed range straddles the end of the record -/
def Admissible (bs : List BoF) (n : Nat) : Prop :=
  ∀ b, BoF.bound b ∈ bs → ∀ hi, b.r = .some hi → hi ≤ (n : Int) ∨ (n : Int) < BLo b

/-- the pending bound takes field `k` and wants more -/
theorem step_continue (o : StreamOpt) (cfg : Cfg) (hc : CfgOK o cfg) (f0 : Bytes) (rest : List Bytes)
    (hadm : Admissible o.bounds (rest.length + 1))
    (i k : Nat) (f : Bytes) (more : List Bytes) (b : UserBounds) (t' : List BoF) (w : Bytes)
    (hF : (f0 :: rest).drop (k - 1) = f :: more) (hk : 1 ≤ k)
    (hdrop : o.bounds.drop i = .bound b :: t') (hfwd : Fwd 0 (.bound b :: t'))
    (hlr : lastR (.bound b :: t') = some o.lastInterestingField)
    (hlo : BLo b ≤ (k : Int)) (hnr : b.r ≠ .some (k : Int))
    (hreach : ∀ hi, b.r = .some hi → (k : Int) ≤ hi)
    (hpb : printBof o i k false f true = some (w, i))
    (ih : more ≠ [] → IP o cfg f0 rest more (k + 1)) :
    fieldsRun o i k (f :: more) =
      Run.pre w ((Run.pre (tailText o more (hiN b (rest.length + 1) - k) ++ joinerAfter o b)
        (emitPlain o cfg f0 rest t')).seq (Run.ok [o.eol.byte])) := by
  have hlen := length_of_drop hF
  have hmem : BoF.bound b ∈ o.bounds :=
    List.mem_of_mem_drop (by rw [hdrop]; exact List.mem_cons_self)
  have hfwd0 := hfwd
  simp only [Fwd] at hfwd
  obtain ⟨hlo0, hlast, hrs⟩ := hfwd
  cases more with
  | nil =>
    have hkn : k = rest.length + 1 := by simp at hlen; omega
    cases hr : b.r with
    | some hi =>
      have h1 := hreach hi hr
      have h2 : hi ≠ k := fun h => hnr (by rw [hr, h])
      rcases hadm b hmem hi hr with h3 | h3 <;> omega
    | cont =>
      rw [hr] at hrs
      simp only at hrs
      have hmat : b.matches (k : Int) = some true := by
        rw [matches_pos b k (by omega) hlo0 (by intro hi h; rw [hr] at h; cases h)]
        simp [hr, hlo]
      have hj : joinerAfter o b = [] := by simp [joinerAfter, hlast, hrs]
      simp only [fieldsRun, endOfRecord, hpb, hdrop, printFillerOrFallbacks, hmat, hr, and_self,
        if_true, tailText, List.take_nil, List.flatMap_nil, hj, List.append_nil, Run.pre_nil]
      rw [pfof_absent o cfg hc f0 rest k (by omega) t' k (fwd_of_noBounds _ t' hrs) (by omega)
        (Int.le_refl _), Run.seq_ok]
  | cons g gs =>
    have hli : Side.some (k : Int) ≠ o.lastInterestingField := by
      intro h
      rw [← h] at hlr
      by_cases hcb : countBounds t' = 0
      · simp only [lastR, hcb, if_true, Option.some.injEq] at hlr
        exact hnr hlr
      · simp only [lastR, hcb, if_false] at hlr
        cases hr : b.r with
        | cont => rw [hr] at hrs; exact hcb hrs
        | some hi =>
          rw [hr] at hrs
          simp only at hrs
          have := fwd_lastR t' hrs.2 hlr
          have := hreach hi hr
          omega
    simp only [fieldsRun, hpb, if_neg hli]
    have hcast : ((k + 1 : Nat) : Int) = (k : Int) + 1 := by omega
    have := ih (by simp) i b t' hdrop hfwd0 hlr (by omega) (by
      intro hi hr
      have h1 := hreach hi hr
      have h2 : hi ≠ k := fun h => hnr (by rw [hr, h])
      omega)
    rw [hcast] at this
    have he : hiN b (rest.length + 1) + 1 - (k + 1) = hiN b (rest.length + 1) - k := by omega
    rw [this, he, Run.seq_ok]

theorem printBof_bound_false (o : StreamOpt) (i : Nat) (k : Int) (f : Bytes) (b : UserBounds)
    (t : List BoF) (h : o.bounds.drop i = .bound b :: t) (hm : b.matches k = some false) :
    printBof o i k false f true = some ([], i) := by
  rw [printBof_at_bound o i k false f true b t h, hm]

theorem printBof_bound_true (o : StreamOpt) (i : Nat) (k : Int) (f : Bytes) (b : UserBounds)
    (t : List BoF) (h : o.bounds.drop i = .bound b :: t) (hm : b.matches k = some true)
    (pp : Bool) (hpp : (decide (k > 1) && decide (b.l ≠ .some k)) = pp) :
    printBof o i k false f true =
      if b.r = .some k then some ((if pp then [o.joiner] else []) ++ f ++ joinerAfter o b, i + 1)
      else some ((if pp then [o.joiner] else []) ++ f, i) := by
  rw [printBof_at_bound o i k false f true b t h, hm]
  simp only [Bool.not_false, Bool.true_and, hpp, joinerAfter]
  by_cases hr : b.r = .some k <;> simp [hr]

theorem tail_cons_succ (o : StreamOpt) (f : Bytes) (more : List Bytes) (c : Nat) :
    tailText o (f :: more) (c + 1) = [o.joiner] ++ f ++ tailText o more c := by
  simp [tailText, List.take_succ_cons]

theorem fields_refine (o : StreamOpt) (cfg : Cfg) (hc : CfgOK o cfg) (f0 : Bytes) (rest : List Bytes)
    (hwf : NoAdjFillers o.bounds) (hadm : Admissible o.bounds (rest.length + 1)) :
    ∀ (fs : List Bytes) (k : Nat), fs ≠ [] → (f0 :: rest).drop (k - 1) = fs → 1 ≤ k →
      NIP o cfg f0 rest fs k ∧ IP o cfg f0 rest fs k := by
  intro fs
  induction fs with
  | nil => intro k h; exact absurd rfl h
  | cons f more ih =>
    intro k _ hF hk
    have hF' : (f0 :: rest).drop (k + 1 - 1) = more := by
      have := (drop_eq_cons hF).2
      have e : k - 1 + 1 = k + 1 - 1 := by omega
      rwa [e] at this
    have ihN : more ≠ [] → NIP o cfg f0 rest more (k + 1) := fun h => (ih (k + 1) h hF' (by omega)).1
    have ihI : more ≠ [] → IP o cfg f0 rest more (k + 1) := fun h => (ih (k + 1) h hF' (by omega)).2
    have hlen := length_of_drop hF
    have hkn : k ≤ rest.length + 1 := by omega
    have hcast : ((k + 1 : Nat) : Int) = (k : Int) + 1 := by omega
    -- no range in progress, the pending element is a bound
    have nipb : ∀ i b t', o.bounds.drop i = .bound b :: t' → Fwd ((k : Int) - 1) (.bound b :: t') →
        lastR (.bound b :: t') = some o.lastInterestingField →
        fieldsRun o i (k : Int) (f :: more) =
          (emitPlain o cfg f0 rest (.bound b :: t')).seq (Run.ok [o.eol.byte]) := by
      intro i b t' hdrop hfwdk hlr
      have hfwd0 : Fwd 0 (.bound b :: t') := fwd_mono (by omega) _ hfwdk
      have hmem : BoF.bound b ∈ o.bounds :=
        List.mem_of_mem_drop (by rw [hdrop]; exact List.mem_cons_self)
      obtain ⟨hlo0, hlast, hrs⟩ : 0 < BLo b ∧ b.isLast = decide (countBounds t' = 0) ∧
          (match b.r with
            | .some hi => BLo b ≤ hi ∧ Fwd hi t'
            | .cont => countBounds t' = 0) := by simpa only [Fwd] using hfwd0
      have hkl : (k : Int) ≤ BLo b := by simp only [Fwd] at hfwdk; omega
      have hhi : ∀ hi, b.r = .some hi → BLo b ≤ hi := by
        intro hi hr; rw [hr] at hrs; exact hrs.1
      have hm := matches_pos b k (by omega) hlo0 (fun hi hr => by have := hhi hi hr; omega)
      by_cases hlt : (k : Int) < BLo b
      · -- field `k` lies before the bound
        have hmf : b.matches k = some false := by
          rw [hm]
          have : ¬ (BLo b ≤ (k : Int)) := by omega
          simp [this]
        have hpb := printBof_bound_false o i k f b t' hdrop hmf
        have hfk : Fwd k (.bound b :: t') := fwd_head hfwdk hlt
        cases more with
        | nil =>
          have hkn' : k = rest.length + 1 := by simp at hlen; omega
          simp only [fieldsRun, endOfRecord, hpb, hdrop]
          rw [pfof_absent o cfg hc f0 rest k (by omega) _ k hfk (by omega) (Int.le_refl _),
            Run.seq_ok, Run.pre_nil]
        | cons g gs =>
          have hli : Side.some (k : Int) ≠ o.lastInterestingField := by
            intro h
            rw [← h] at hlr
            have := fwd_lastR _ hfk hlr
            omega
          simp only [fieldsRun, hpb, if_neg hli]
          have := ihN (by simp) i (.bound b :: t') hdrop (by simp [countBounds])
            (by rw [hcast]; simpa using hfk) hlr
          rw [hcast] at this
          rw [this, Run.seq_ok, Run.pre_nil]
      · -- field `k` is the first field of the bound
        have hkeq : BLo b = (k : Int) := by omega
        have hpp : (decide ((k : Int) > 1) && decide (b.l ≠ .some (k : Int))) = false := by
          unfold BLo at hkeq
          cases hl : b.l with
          | cont => rw [hl] at hkeq; simp only at hkeq; simp; omega
          | some l => rw [hl] at hkeq; simp only at hkeq; simp [hkeq]
        have hmt : b.matches k = some true := by
          rw [hm]
          cases hr : b.r with
          | cont => simp [hkeq]
          | some hi => have := hhi hi hr; simp [hkeq]; omega
        have hpb := printBof_bound_true o i k f b t' hdrop hmt false hpp
        by_cases hr : b.r = .some (k : Int)
        · rw [if_pos hr] at hpb
          simp only [Bool.false_eq_true, if_false, List.nil_append] at hpb
          rw [step_complete o cfg hc f0 rest i k f more b t' _ hF hk hdrop hfwd0 hlr hr hpb ihN]
          have hres := resolve_closed b (rest.length + 1) k hr hlo0 (by omega) (by omega)
          rw [hkeq, Int.toNat_natCast] at hres
          rw [emitPlain_bound_some o cfg hc f0 rest b t' k k hres,
            piece_at [o.joiner] f0 rest k k f more hF hk (Nat.le_refl _), Run.pre_seq]
          simp [joinerAfter, joiner_flag b t' o.join hlast]
        · rw [if_neg hr] at hpb
          simp only [Bool.false_eq_true, if_false, List.nil_append] at hpb
          have hreach : ∀ hi, b.r = .some hi → (k : Int) ≤ hi := by
            intro hi h; have := hhi hi h; omega
          rw [step_continue o cfg hc f0 rest hadm i k f more b t' _ hF hk hdrop hfwd0 hlr
            (by omega) hr hreach hpb ihI]
          have hres : resolve b (rest.length + 1) = some (k, hiN b (rest.length + 1)) ∧
              k ≤ hiN b (rest.length + 1) := by
            cases hrr : b.r with
            | cont =>
              have := resolve_open b (rest.length + 1) hrr hlo0 (by omega)
              rw [hkeq, Int.toNat_natCast] at this
              simp only [hiN, hrr]
              exact ⟨this, hkn⟩
            | some hi =>
              have h1 := hhi hi hrr
              have h2 : hi ≤ ((rest.length + 1 : Nat) : Int) := by
                rcases hadm b hmem hi hrr with h | h <;> omega
              have := resolve_closed b (rest.length + 1) hi hrr hlo0 h1 h2
              rw [hkeq, Int.toNat_natCast] at this
              simp only [hiN, hrr]
              exact ⟨this, by omega⟩
          rw [emitPlain_bound_some o cfg hc f0 rest b t' k _ hres.1,
            piece_at [o.joiner] f0 rest k _ f more hF hk hres.2, Run.pre_seq, Run.pre_seq,
            Run.pre_pre]
          simp [joinerAfter, tailText, joiner_flag b t' o.join hlast, List.append_assoc]
    constructor
    · -- NIP: skip a pending filler
      intro i rem hdrop hcb hfwd hlr
      cases rem with
      | nil => simp [countBounds] at hcb
      | cons a r =>
        cases a with
        | bound b => exact nipb i b r hdrop hfwd hlr
        | filler x =>
          cases r with
          | nil => simp [countBounds] at hcb
          | cons a' t' =>
            cases a' with
            | filler y =>
              exfalso
              have h0 := (drop_eq_cons hdrop).1
              have h1 := (drop_eq_cons (drop_eq_cons hdrop).2).1
              exact noAdj_get _ hwf i x y h0 h1
            | bound b =>
              have hfwd' : Fwd ((k : Int) - 1) (.bound b :: t') := by simpa only [Fwd] using hfwd
              have hlr' : lastR (.bound b :: t') = some o.lastInterestingField := by
                simpa only [lastR] using hlr
              obtain ⟨hlo0, _, hrs⟩ : (k : Int) - 1 < BLo b ∧ b.isLast = decide (countBounds t' = 0) ∧
                  (match b.r with
                    | .some hi => BLo b ≤ hi ∧ Fwd hi t'
                    | .cont => countBounds t' = 0) := by simpa only [Fwd] using hfwd'
              have hm := matches_pos b k (by omega) (by omega) (fun hi hr => by
                rw [hr] at hrs; simp only at hrs; omega)
              rw [fieldsRun_filler o i k (f :: more) (by simp) x b t' hdrop (by rw [hm]; simp),
                nipb (i + 1) b t' (drop_eq_cons hdrop).2 hfwd' hlr', emitPlain_filler, Run.pre_seq]
    · -- IP
      intro i b t' hdrop hfwd0 hlr hlo hreach
      obtain ⟨hlo0, hlast, hrs⟩ : 0 < BLo b ∧ b.isLast = decide (countBounds t' = 0) ∧
          (match b.r with
            | .some hi => BLo b ≤ hi ∧ Fwd hi t'
            | .cont => countBounds t' = 0) := by simpa only [Fwd] using hfwd0
      have hm := matches_pos b k (by omega) hlo0 (fun hi hr => by have := hreach hi hr; omega)
      have hmt : b.matches k = some true := by
        rw [hm]
        have h1 : BLo b ≤ (k : Int) := by omega
        cases hr : b.r with
        | cont => simp [h1]
        | some hi => have := hreach hi hr; simp [h1]; omega
      have hpp : (decide ((k : Int) > 1) && decide (b.l ≠ .some (k : Int))) = true := by
        have h1 : (k : Int) > 1 := by omega
        unfold BLo at hlo
        cases hl : b.l with
        | cont => simp [h1]
        | some l => rw [hl] at hlo; simp only at hlo; simp [h1]; omega
      have hpb := printBof_bound_true o i k f b t' hdrop hmt true hpp
      by_cases hr : b.r = .some (k : Int)
      · rw [if_pos hr] at hpb
        simp only [if_true] at hpb
        rw [step_complete o cfg hc f0 rest i k f more b t' _ hF hk hdrop hfwd0 hlr hr hpb ihN]
        have : hiN b (rest.length + 1) + 1 - k = 0 + 1 := by simp [hiN, hr]
        rw [this, tail_cons_succ, Run.pre_seq]
        simp [tailText]
      · rw [if_neg hr] at hpb
        simp only [if_true] at hpb
        rw [step_continue o cfg hc f0 rest hadm i k f more b t' _ hF hk hdrop hfwd0 hlr
          (by omega) hr hreach hpb ihI]
        have hge : k ≤ hiN b (rest.length + 1) := by
          cases hrr : b.r with
          | cont => simp only [hiN, hrr]; exact hkn
          | some hi => have := hreach hi hrr; simp only [hiN, hrr]; omega
        have : hiN b (rest.length + 1) + 1 - k = (hiN b (rest.length + 1) - k) + 1 := by omega
        rw [this, tail_cons_succ, Run.pre_seq, Run.pre_seq, Run.pre_pre]
        simp [List.append_assoc]

/-! ## one record, the whole input -/

/-- the specification's configuration is the one `-M` runs with -/
structure CfgStream (o : StreamOpt) (cfg : Cfg) : Prop where
  delimiter : cfg.delimiter = [o.delimiter]
  eol : cfg.eol = o.eol.byte
  bofs : cfg.bofs = o.bounds
  chars : cfg.chars = false
  onlyDelimited : cfg.onlyDelimited = false
  greedy : cfg.greedy = false
  compress : cfg.compress = false
  replace : cfg.replace = o.replaceDelimiter.map fun r => [r]
  trim : cfg.trim = none
  complement : cfg.complement = false
  join : cfg.join = o.join
  json : cfg.json = false
  fallback : cfg.fallback = o.fallbackOob

theorem CfgStream.ok {o : StreamOpt} {cfg : Cfg} (h : CfgStream o cfg) : CfgOK o cfg :=
  ⟨h.json, h.join, h.fallback⟩

theorem countBounds_pos_of_lastR {l : List BoF} {x : Side} (h : lastR l = some x) :
    0 < countBounds l := by
  induction l with
  | nil => simp [lastR] at h
  | cons a t ih =>
    cases a with
    | filler _ => simp only [lastR] at h; simpa [countBounds] using ih h
    | bound _ => simp [countBounds]

/-- **One record.**  On an admissible record the machine (in its field-level form) does what the
    specification says. -/
theorem recRun_eq_specRecord (o : StreamOpt) (cfg : Cfg) (hcs : CfgStream o cfg)
    (hwf : NoAdjFillers o.bounds) (hfwd : Fwd 0 o.bounds)
    (hlr : lastR o.bounds = some o.lastInterestingField) (r : Bytes)
    (hadm : Admissible o.bounds (splitFields [o.delimiter] r).length) :
    recRun o r = specRecord cfg r := by
  unfold recRun specRecord
  simp only [hcs.trim]
  by_cases hr : r = []
  · subst hr
    simp [hcs.onlyDelimited, hcs.eol]
  · have hre : r.isEmpty = false := by simpa using hr
    rw [if_neg hr]
    simp only [hre, Bool.false_eq_true, if_false, hcs.chars, hcs.delimiter, hcs.greedy,
      hcs.compress, tokenize_plain, hcs.onlyDelimited, Bool.false_and, hcs.json, hcs.complement,
      Bool.or_self, List.nil_append, Run.pre_nil, hcs.bofs, hcs.replace, hcs.eol]
    cases hF : splitFields [o.delimiter] r with
    | nil => exact absurd hF (splitFields_ne_nil _ _)
    | cons f0 rest =>
      rw [hF] at hadm
      simp only [List.length_cons] at hadm
      have key := (fields_refine o cfg hcs.ok f0 rest hwf hadm (f0 :: rest) 1 (by simp) rfl
        (Nat.le_refl _)).1 0 o.bounds rfl (countBounds_pos_of_lastR hlr) (by simpa using hfwd) hlr
      simp only [Int.natCast_one] at key
      rw [key]
      simp only [List.headD_cons, List.tail_cons, emitPlain]
      cases h : o.replaceDelimiter <;> simp [StreamOpt.joiner, h]

theorem splitAux_single_length (d : UInt8) (l : Bytes) : ∀ cur : Bytes,
    (splitAux [d] 0 cur l).length = l.count d + 1 := by
  induction l with
  | nil => intro cur; simp [splitAux]
  | cons c t ih =>
    intro cur
    rw [splitAux_single_cons]
    by_cases h : c = d
    · subst h; simp [ih]
    · have : (c == d) = false := by simpa using h
      rw [if_neg h, ih, List.count_cons, this]; simp

/-- the number of fields of a record = occurrences of the delimiter byte + 1 -/
theorem splitFields_single_length (d : UInt8) (r : Bytes) :
    (splitFields [d] r).length = r.count d + 1 := splitAux_single_length d r []

/-- **C03, core form.**  For a `StreamOpt` whose bounds obey the forward discipline and a
    specification configuration that mirrors it: on every input all of whose records are
    admissible, the `-M` cutter — whatever the read segmentation — delivers the bytes and the
    status of the specification. -/
theorem stream_refines_spec_core (o : StreamOpt) (cfg : Cfg) (hcs : CfgStream o cfg)
    (hwf : NoAdjFillers o.bounds) (hfwd : Fwd 0 o.bounds)
    (hlr : lastR o.bounds = some o.lastInterestingField) (segs : List Bytes)
    (hadm : ∀ r ∈ records o.eol.byte segs.flatten, Admissible o.bounds (r.count o.delimiter + 1)) :
    cutBytesStream o segs = specRun cfg segs.flatten := by
  rw [cutBytesStream_records o hwf, specRun, specRecords, hcs.eol]
  exact streamRecords_eq_spec o cfg _ fun r hr =>
    recRun_eq_specRecord o cfg hcs hwf hfwd hlr r (by
      rw [splitFields_single_length]; exact hadm r hr)


/-! ## the forward discipline is what `StreamOpt::try_from` checks -/

/-- what the `-f` parser guarantees of one bound (`UserBounds::from_str`): no index is 0 and a
    range with two positive ends is not reversed -/
def BoundWF (b : UserBounds) : Prop :=
  b.l ≠ .some 0 ∧ b.r ≠ .some 0 ∧ ∀ l r, b.l = .some l → b.r = .some r → 0 < l → 0 < r → l ≤ r

/-- `is_last` is set on the last bound and only there (what `UserBoundsList::from` leaves) -/
def LastOK : List BoF → Prop
  | [] => True
  | .filler _ :: t => LastOK t
  | .bound b :: t => b.isLast = decide (countBounds t = 0) ∧ LastOK t

def FwdU : Int → List UserBounds → Prop
  | _, [] => True
  | p, b :: t => p < BLo b ∧
      (match b.r with
       | .some hi => BLo b ≤ hi ∧ FwdU hi t
       | .cont => t = [])

theorem countBounds_eq_zero_iff (l : List BoF) : countBounds l = 0 ↔ boundsOnly l = [] := by
  induction l with
  | nil => simp [countBounds, boundsOnly]
  | cons a t ih => cases a <;> simp [countBounds, boundsOnly, ih]

theorem fwd_of_parts : ∀ (l : List BoF) (p : Int), FwdU p (boundsOnly l) → LastOK l → Fwd p l
  | [], _, _, _ => trivial
  | .filler _ :: t, p, h1, h2 => by
    simp only [boundsOnly] at h1; simp only [LastOK] at h2; simp only [Fwd]
    exact fwd_of_parts t p h1 h2
  | .bound b :: t, p, h1, h2 => by
    simp only [boundsOnly, FwdU] at h1; simp only [LastOK] at h2; simp only [Fwd]
    refine ⟨h1.1, h2.1, ?_⟩
    cases hr : b.r with
    | cont =>
      have := h1.2; rw [hr] at this
      exact (countBounds_eq_zero_iff t).2 this
    | some hi =>
      have := h1.2; rw [hr] at this
      exact ⟨this.1, fwd_of_parts t hi this.2 h2.2⟩

theorem noSharedField_cons (prev : Int) (b : UserBounds) (t : List UserBounds) :
    noSharedField prev (b :: t) =
      if BLo b ≤ prev then false
      else noSharedField (match b.r with | .some r => r | .cont => prev) t := by
  rfl

theorem fwdU_of_checks : ∀ (bs : List UserBounds) (prev : Int) (x : Option UserBounds), 0 ≤ prev →
    noSharedField prev bs = true → isSortedAux x bs = true →
    (∀ b ∈ bs, BoundWF b ∧ b.l.isNeg = false ∧ b.r.isNeg = false) → FwdU prev bs
  | [], _, _, _, _, _, _ => trivial
  | b :: t, prev, x, hp, hns, hs, hall => by
    obtain ⟨⟨hl0, hr0, hord⟩, hln, hrn⟩ := hall b (by simp)
    have hall' : ∀ b ∈ t, BoundWF b ∧ b.l.isNeg = false ∧ b.r.isNeg = false :=
      fun b hb => hall b (by simp [hb])
    have hs' : isSortedAux (some b) t = true := by
      cases x with
      | none => simpa [isSortedAux] using hs
      | some p =>
        simp only [isSortedAux] at hs
        split at hs
        · exact hs
        · cases hs
    rw [noSharedField_cons] at hns
    have hlt : prev < BLo b := by
      by_cases hle : BLo b ≤ prev
      · simp [hle] at hns
      · omega
    have hns' : noSharedField (match b.r with | .some r => r | .cont => prev) t = true := by
      have hle : ¬ (BLo b ≤ prev) := by omega
      simpa [hle] using hns
    refine ⟨hlt, ?_⟩
    cases hr : b.r with
    | some hi =>
      rw [hr] at hns' hrn hr0
      simp only [Side.isNeg, decide_eq_false_iff_not] at hrn
      have hhi : 0 < hi := by
        have : hi ≠ 0 := fun h => hr0 (by rw [h])
        omega
      have hle : BLo b ≤ hi := by
        unfold BLo at hlt ⊢
        cases hl : b.l with
        | cont => simp only; omega
        | some l =>
          rw [hl] at hlt
          simp only at hlt ⊢
          exact hord l hi hl hr (by omega) hhi
      exact ⟨hle, fwdU_of_checks t hi (some b) (by omega) hns' hs' hall'⟩
    | cont =>
      simp only
      cases t with
      | nil => rfl
      | cons b' t' =>
        exfalso
        simp only [isSortedAux, UserBounds.le, UserBounds.partialCmp, hr] at hs'
        cases hl' : b'.l <;> simp [hl', Side.partialCmp] at hs'

theorem lastR_eq (l : List BoF) : lastR l = lastBoundRight (boundsOnly l) := by
  induction l with
  | nil => rfl
  | cons a t ih =>
    cases a with
    | filler _ => simpa [lastR, boundsOnly] using ih
    | bound b =>
      simp only [lastR, boundsOnly]
      by_cases h : countBounds t = 0
      · rw [if_pos h, (countBounds_eq_zero_iff t).1 h]; rfl
      · rw [if_neg h, ih]
        cases hb : boundsOnly t with
        | nil => exact absurd ((countBounds_eq_zero_iff t).2 hb) h
        | cons b' t' => rfl

theorem markLast_none_noBounds {l : List BoF} (h : markLast l = none) : countBounds l = 0 := by
  induction l with
  | nil => rfl
  | cons a t ih =>
    cases a with
    | filler f =>
      simp only [markLast, Option.map_eq_none_iff] at h
      simpa [countBounds] using ih h
    | bound b =>
      simp only [markLast] at h
      split at h <;> cases h

/-- marking the last bound of a list that is already marked changes nothing -/
theorem markLast_id {l m : List BoF} (h : markLast l = some m) (hl : LastOK l) : m = l := by
  induction l generalizing m with
  | nil => simp [markLast] at h
  | cons a t ih =>
    cases a with
    | filler f =>
      simp only [markLast, Option.map_eq_some_iff] at h
      obtain ⟨t', ht, rfl⟩ := h
      simp only [LastOK] at hl
      rw [ih ht hl]
    | bound b =>
      simp only [LastOK] at hl
      simp only [markLast] at h
      cases hm : markLast t with
      | none =>
        simp only [hm, Option.some.injEq] at h
        subst h
        have : b.isLast = true := by rw [hl.1, markLast_none_noBounds hm]; rfl
        cases b
        simp only at this
        subst this
        rfl
      | some t' =>
        simp only [hm, Option.some.injEq] at h
        subst h
        rw [ih hm hl.2]

theorem mem_boundsOnly_iff {b : UserBounds} {l : List BoF} : b ∈ boundsOnly l ↔ BoF.bound b ∈ l := by
  induction l with
  | nil => simp [boundsOnly]
  | cons a t ih => cases a <;> simp [boundsOnly, ih]

/-- everything `StreamOpt::try_from` establishes -/
theorem streamOptOf_facts (opt : Opt) (so : StreamOpt) (h : streamOptOf opt = some so) :
    opt.delimiter = [so.delimiter] ∧
    opt.replaceDelimiter = so.replaceDelimiter.map (fun r => [r]) ∧
    so.join = opt.join ∧ so.eol = opt.eol ∧ so.fallbackOob = opt.fallbackOob ∧
    forwardBoundsOf opt.bounds = some so.bounds ∧
    lastBoundRight (boundsOnly so.bounds) = some so.lastInterestingField ∧
    (opt.complement = false ∧ opt.greedyDelimiter = false ∧ opt.compressDelimiter = false ∧
      opt.json = false ∧ opt.boundsType = .fields ∧ opt.trim = none ∧ opt.onlyDelimited = false) := by
  unfold streamOptOf at h
  split at h
  · rename_i d hd
    simp only at h
    split at h
    · cases h
    · rename_i repl hrepl
      split at h
      · cases h
      · rename_i hflags
        split at h
        · cases h
        · rename_i bs hbs
          split at h
          · cases h
          · rename_i last hlast
            simp only [Option.some.injEq] at h
            subst h
            simp only
            have hr : opt.replaceDelimiter = repl.map (fun r => [r]) := by
              cases hrd : opt.replaceDelimiter with
              | none => rw [hrd] at hrepl; simp at hrepl; subst hrepl; rfl
              | some r =>
                rw [hrd] at hrepl
                cases r with
                | nil => simp at hrepl
                | cons r0 rt =>
                  cases rt with
                  | nil => simp at hrepl; subst hrepl; rfl
                  | cons _ _ => simp at hrepl
            refine ⟨hd, hr, trivial, trivial, trivial, hbs, hlast, ?_⟩
            simp only [Bool.or_eq_true, not_or, Bool.not_eq_true, bne_iff_ne, ne_eq,
              Decidable.not_not, Option.isSome_eq_false_iff, Option.isNone_iff_eq_none] at hflags
            obtain ⟨⟨⟨⟨⟨⟨⟨h1, h2⟩, h3⟩, h4⟩, h5⟩, h6⟩, _⟩, h8⟩ := hflags
            exact ⟨h1, h2, h3, h4, h5, h6, h8⟩
  · cases h


theorem forwardBoundsOf_facts (l : UserBoundsList) (bs : List BoF) (h : forwardBoundsOf l = some bs) :
    isSorted l.list = true ∧ hasNegativeIndices l.list = false ∧
      noSharedField 0 (boundsOnly l.list) = true ∧ markLast l.list = some bs := by
  unfold forwardBoundsOf at h
  split at h
  · cases h
  · split at h
    · rename_i hfo
      split at h
      · rename_i hns
        split at h
        · rename_i l' hl'
          simp only [Option.some.injEq] at h
          subst h
          unfold fromVec at hl'
          cases hm : markLast l.list with
          | none => simp [hm] at hl'
          | some m =>
            simp only [hm, Res.ok.injEq] at hl'
            subst hl'
            simp only [isForwardOnly, Bool.and_eq_true, Bool.not_eq_true'] at hfo
            exact ⟨hfo.1.2, hfo.2, hns, rfl⟩
        · cases h
      · cases h
    · cases h

/-- **C03.**  For every option set that `-M` accepts (`streamOptOf opt = some so`) whose bounds are
    as the `-f` parser leaves them (no two literal texts in a row, indexes non-zero, ranges not
    reversed, `is_last` on the last bound), every read segmentation `segs`, and every input all of
    whose records are admissible (no requested closed range `lo:hi` straddles the end of the
    record: `hi ≤ n ∨ n < lo` for `n` = number of fields): the bytes written and the exit status
    are those of the specification of the same request. -/
theorem stream_refines_spec (opt : Opt) (so : StreamOpt) (h : streamOptOf opt = some so)
    (hna : NoAdjFillers opt.bounds.list)
    (hwfb : ∀ b, BoF.bound b ∈ opt.bounds.list → BoundWF b)
    (hlast : LastOK opt.bounds.list)
    (segs : List Bytes)
    (hadm : ∀ r ∈ records opt.eol.byte segs.flatten,
      Admissible opt.bounds.list (r.count so.delimiter + 1)) :
    cutBytesStream so segs = specRun (cfgOf opt) segs.flatten := by
  obtain ⟨hd, hrd, hjoin, heol, hfb, hfwb, hlr, hc, hg, hp, hj, hbt, htrim, hod⟩ :=
    streamOptOf_facts opt so h
  obtain ⟨hsorted, hneg, hns, hml⟩ := forwardBoundsOf_facts _ _ hfwb
  have hb : so.bounds = opt.bounds.list := markLast_id hml hlast
  have hfwdU : FwdU 0 (boundsOnly opt.bounds.list) := by
    refine fwdU_of_checks _ 0 none (Int.le_refl _) hns hsorted ?_
    intro b hbm
    have := hneg
    simp only [hasNegativeIndices, List.any_eq_false, Bool.or_eq_true, not_or,
      Bool.not_eq_true] at this
    exact ⟨hwfb b (mem_boundsOnly_iff.1 hbm), (this b hbm).1, (this b hbm).2⟩
  have hfwd : Fwd 0 so.bounds := by rw [hb]; exact fwd_of_parts _ 0 hfwdU hlast
  have hlr' : lastR so.bounds = some so.lastInterestingField := by rw [lastR_eq]; exact hlr
  have hcs : CfgStream so (cfgOf opt) := by
    constructor <;> simp [cfgOf, hd, heol, hb, hbt, hod, hg, hp, hrd, htrim, hc, hjoin, hj, hfb]
  exact stream_refines_spec_core so (cfgOf opt) hcs (by rw [hb]; exact hna) hfwd hlr' segs
    (by rw [hb, heol]; exact hadm)


/-! ## a concrete instance (non-vacuity): `tuc -M -d - -j -f '{1}x{3:}'`

Every record is admissible for these bounds (the only closed range is `1:1`), so the statement
holds for every input and every read segmentation. -/

def c03ExBounds : List BoF :=
  [.bound { l := .some 1, r := .some 1 }, .filler [0x78],
   .bound { l := .some 3, r := .cont, isLast := true }]

def c03ExOpt : Opt := { delimiter := [0x2d], bounds := ⟨c03ExBounds, .cont⟩, join := true }

def c03ExSo : StreamOpt :=
  { delimiter := 0x2d, replaceDelimiter := none, join := true, eol := .newline, fallbackOob := none,
    bounds := c03ExBounds, lastInterestingField := .cont }

example (segs : List Bytes) :
    cutBytesStream c03ExSo segs = specRun (cfgOf c03ExOpt) segs.flatten :=
  stream_refines_spec c03ExOpt c03ExSo (by rfl) (by simp [c03ExOpt, c03ExBounds, NoAdjFillers])
    (by
      intro b hb
      simp only [c03ExOpt, c03ExBounds, List.mem_cons, BoF.bound.injEq, List.mem_nil_iff, or_false,
        reduceCtorEq, false_or] at hb
      rcases hb with rfl | rfl <;> simp [BoundWF])
    (by simp [c03ExOpt, c03ExBounds, LastOK, countBounds]) segs
    (by
      intro r _ b hb hi hr
      simp only [c03ExOpt, c03ExBounds, List.mem_cons, BoF.bound.injEq, List.mem_nil_iff, or_false,
        reduceCtorEq, false_or] at hb
      rcases hb with rfl | rfl
      · simp only [Side.some.injEq] at hr; subst hr; left; omega
      · simp at hr)

end Tuc
