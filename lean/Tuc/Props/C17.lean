import Tuc.Props.C04
/-!
# C17 — memory stays within the documented bounds (the part a model can carry)

`retained st` = the bytes the `-M` machine holds on to *between two chunks* (the pending piece
of the current chunk that has been read but not printed).  It is always 0 at a chunk boundary:
what crosses a boundary is `bof_idx`, `curr_field` and three flags.
-/
namespace Tuc

/-- bytes held by the state of the chunk machine -/
def retained (st : SState) : Nat := st.piece.length

/-- at every chunk boundary nothing is retained, whatever the input so far -/
theorem retained_zero_at_chunk_end (o : StreamOpt) (st : SState) (c : UInt8) (hp : retained st = 0)
    (hok : (streamStep o st c true).1.status = .ok) : retained (streamStep o st c true).2 = 0 := by
  unfold retained at hp ⊢
  have : st.piece = [] := List.eq_nil_of_length_eq_zero hp
  rw [piece_empty_at_chunk_end o st c this hok]
  rfl

/-- within a chunk the pending piece only ever grows by the byte just read -/
theorem retained_step (o : StreamOpt) (st : SState) (c : UInt8) (last : Bool) :
    retained (streamStep o st c last).2 ≤ retained st + 1 := by
  unfold retained streamStep
  by_cases h1 : st.skip = true
  · simp only [h1, if_true]; split <;> simp
  · simp only [h1, Bool.false_eq_true, if_false]
    by_cases h2 : c = o.eol.byte
    · simp only [h2, if_true]; split <;> simp
    · simp only [h2, if_false]
      by_cases h3 : c = o.delimiter
      · simp only [h3, if_true]
        cases printBof o st.bofIdx st.currField st.trunc st.piece true with
        | none => simp
        | some p => simp only []; split <;> simp
      · simp only [h3, if_false]
        cases last with
        | false => simp
        | true =>
          simp only [if_true]
          cases printBof o st.bofIdx st.currField st.trunc (st.piece ++ [c]) false with
          | none => simp
          | some p => simp

end Tuc
