import Tuc.Model.Stream
import Tuc.Model.CutStr
import Tuc.Lemmas.Run
/-!
# C03 — fixed-memory mode computes the same cut as line-at-a-time mode

Target: `streamOptOf opt = some so → (every record admissible) → cutBytesStream so segs` has the
output and status of `readAndCutStr opt segs.flatten`.  Proved so far: the eligibility test is
the documented domain and carries the options over unchanged; an empty record yields an empty
record; once the early stop has been taken nothing is printed until the EOL.  The field-by-field
refinement (`automaton_eq_specRecord`) is still open; the statement is carried by the direct
oracle (both entry points on the same `Opt`, in-process, admissible inputs).
-/
namespace Tuc

/-- `-M` is accepted only for: a one-byte delimiter, an absent or one-byte replacement, field
    mode, none of `-m -g -p --json -t -e -s`, and bounds that `ForwardBounds` accepts -/
theorem streamOptOf_domain (o : Opt) (so : StreamOpt) (h : streamOptOf o = some so) :
    o.delimiter = [so.delimiter] ∧
    (o.replaceDelimiter = none ∨ ∃ r, o.replaceDelimiter = some [r]) ∧
    o.complement = false ∧ o.greedyDelimiter = false ∧ o.compressDelimiter = false ∧
    o.json = false ∧ o.boundsType = .fields ∧ o.trim = none ∧ o.regexBag.isSome = false ∧
    o.onlyDelimited = false ∧ (forwardBoundsOf o.bounds).isSome := by
  unfold streamOptOf at h
  cases hd : o.delimiter with
  | nil => simp [hd] at h
  | cons d t =>
    cases t with
    | cons _ _ => simp [hd] at h
    | nil =>
      simp only [hd] at h
      cases hr : o.replaceDelimiter with
      | none =>
        simp only [hr] at h
        split at h
        · cases h
        · rename_i hc
          cases hf : forwardBoundsOf o.bounds with
          | none => simp [hf] at h
          | some bs =>
            simp only [hf] at h
            split at h
            · cases h
            · simp only [Option.some.injEq] at h
              subst h
              cases h1 : o.complement <;> cases h2 : o.greedyDelimiter <;> cases h3 : o.compressDelimiter <;>
                cases h4 : o.json <;> cases h5 : o.trim <;> cases h6 : o.regexBag <;>
                cases h7 : o.onlyDelimited <;> cases h8 : o.boundsType <;> simp_all
      | some r =>
        cases r with
        | nil => simp [hr] at h
        | cons r0 rt =>
          cases rt with
          | cons _ _ => simp [hr] at h
          | nil =>
            simp only [hr] at h
            split at h
            · cases h
            · rename_i hc
              cases hf : forwardBoundsOf o.bounds with
              | none => simp [hf] at h
              | some bs =>
                simp only [hf] at h
                split at h
                · cases h
                · simp only [Option.some.injEq] at h
                  subst h
                  cases h1 : o.complement <;> cases h2 : o.greedyDelimiter <;> cases h3 : o.compressDelimiter <;>
                    cases h4 : o.json <;> cases h5 : o.trim <;> cases h6 : o.regexBag <;>
                    cases h7 : o.onlyDelimited <;> cases h8 : o.boundsType <;> simp_all

/-- an empty record (EOL as the first byte of a record, wherever it falls in a chunk) yields an
    empty record: no filler, no fallback -/
theorem stream_empty_record (o : StreamOpt) (last : Bool) :
    streamStep o {} o.eol.byte last = (Run.ok [o.eol.byte], {}) := by
  simp [streamStep]

/-- after the early stop nothing is written until the EOL, which ends the record -/
theorem stream_skip_silent (o : StreamOpt) (st : SState) (c : UInt8) (last : Bool)
    (hs : st.skip = true) :
    streamStep o st c last =
      if c = o.eol.byte then (Run.ok [o.eol.byte], {}) else (Run.empty, { st with started := true }) := by
  simp [streamStep, hs]

end Tuc
