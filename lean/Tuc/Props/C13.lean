import Tuc.Model.CutStr
import Tuc.Model.FastLane
import Tuc.Model.Lines
import Tuc.Model.Stream
import Tuc.Lemmas.Bounds
/-!
# C13 — an out-of-range bound is never silent: own fallback, else generic, else failure

One theorem per engine and per branch of the rule, each for *every* record, field layout and
option set: the text a bound contributes is the selected data when (and only when) the bound
resolves; otherwise its own fallback; otherwise the generic fallback; otherwise the run fails.
Fallback text is written verbatim (it does not go through `maybe_replace_delimiter`).
-/
namespace Tuc
open Tuc.Spec

/-- what follows a bound's text in the general engine -/
def joinerOf (opt : Opt) (b : UserBounds) : Run :=
  if opt.join && !b.isLast then Run.ok (opt.replaceDelimiter.getD opt.delimiter) else Run.empty

/-- general engine: a bound that does not resolve and has its own fallback prints it verbatim -/
theorem general_own_fallback (line : Bytes) (fields : List Range) (n : Nat) (opt : Opt) (c : Bool)
    (b : UserBounds) (f : Bytes) (hr : b.tryIntoRange n = none) (hf : b.fallback = some f) :
    outputBof line fields n opt c (.bound b) = (writeMaybeAsJson f opt.json).seq (joinerOf opt b) := by
  simp only [outputBof, hr, hf, joinerOf]

/-- general engine: no own fallback ⇒ the generic one, verbatim -/
theorem general_generic_fallback (line : Bytes) (fields : List Range) (n : Nat) (opt : Opt) (c : Bool)
    (b : UserBounds) (g : Bytes) (hr : b.tryIntoRange n = none) (hf : b.fallback = none)
    (hg : opt.fallbackOob = some g) :
    outputBof line fields n opt c (.bound b) = (writeMaybeAsJson g opt.json).seq (joinerOf opt b) := by
  simp only [outputBof, hr, hf, hg, joinerOf]

/-- general engine: no fallback at all ⇒ the record (hence the run) fails and prints nothing for it -/
theorem general_no_fallback_fails (line : Bytes) (fields : List Range) (n : Nat) (opt : Opt) (c : Bool)
    (b : UserBounds) (hr : b.tryIntoRange n = none) (hf : b.fallback = none)
    (hg : opt.fallbackOob = none) :
    outputBof line fields n opt c (.bound b) = Run.fail := by
  simp only [outputBof, hr, hf, hg]

/-- general engine: a bound that resolves never prints a fallback: it prints the record's bytes
    from the start of its first field to the end of its last field -/
theorem general_resolvable (line : Bytes) (fields : List Range) (n : Nat) (opt : Opt) (c : Bool)
    (b : UserBounds) (s e : Nat) (fs fe : Range) (hr : b.tryIntoRange n = some (s, e))
    (h1 : fields[s]? = some fs) (h2 : fields[e - 1]? = some fe)
    (h3 : fs.start ≤ fe.stop ∧ fe.stop ≤ line.length) :
    outputBof line fields n opt c (.bound b) =
      (writeMaybeAsJson (maybeReplaceDelimiter (slice line fs.start fe.stop) opt c) opt.json).seq
        (joinerOf opt b) := by
  simp only [outputBof, hr, h1, h2, h3, joinerOf, and_self, if_true]

/-- a failing bound fails the whole output loop, whatever comes after it, and what was written
    before it stays -/
theorem general_loop_fails (line : Bytes) (fields : List Range) (n : Nat) (opt : Opt) (c : Bool)
    (pre post : List BoF) (b : UserBounds) (hr : b.tryIntoRange n = none) (hf : b.fallback = none)
    (hg : opt.fallbackOob = none)
    (hpre : (outputLoop line fields n opt c pre).status = .ok) :
    (outputLoop line fields n opt c (pre ++ .bound b :: post)).status = .fail := by
  induction pre with
  | nil =>
    simp only [List.nil_append, outputLoop, general_no_fallback_fails line fields n opt c b hr hf hg]
    rfl
  | cons x t ih =>
    simp only [List.cons_append, outputLoop] at hpre ⊢
    unfold Run.seq at hpre ⊢
    cases hx : (outputBof line fields n opt c x).status with
    | ok =>
      simp only [hx] at hpre ⊢
      exact ih hpre
    | fail => simp [hx] at hpre
    | panic => simp [hx] at hpre
    | hang => simp [hx] at hpre

/-- fast lane: same rule, re-implemented in `output_parts` -/
theorem fast_rule (line : Bytes) (b : UserBounds) (fields : List Nat) (opt : FastOpt)
    (hne : fields ≠ []) (hr : b.tryIntoRange (fields.length - 1) = none) :
    outputParts line b fields opt =
      match b.fallback, opt.fallbackOob with
      | some f, _ => (Run.ok f).seq (if opt.join && !b.isLast then Run.ok [opt.delimiter] else Run.empty)
      | none, some g => (Run.ok g).seq (if opt.join && !b.isLast then Run.ok [opt.delimiter] else Run.empty)
      | none, none => Run.fail := by
  have : fields.isEmpty = false := by
    cases fields with
    | nil => exact absurd rfl hne
    | cons _ _ => rfl
  simp only [outputParts, this, hr]
  cases b.fallback <;> cases opt.fallbackOob <;> rfl

/-- byte mode (after the repair of `cut_bytes`): same rule -/
theorem bytes_rule (data : Bytes) (opt : Opt) (b : UserBounds) (t : List BoF)
    (hr : b.tryIntoRange data.length = none) :
    cutBytesLoop data opt (.bound b :: t) =
      match b.fallback, opt.fallbackOob with
      | some f, _ => Run.pre f (cutBytesLoop data opt t)
      | none, some g => Run.pre g (cutBytesLoop data opt t)
      | none, none => Run.fail := by
  simp only [cutBytesLoop, hr]
  cases b.fallback <;> cases opt.fallbackOob <;> rfl

/-- `-M`: a bound never reached when the record ends (closed, or open and beyond the last field)
    prints its fallback, else the generic one, else the run fails -/
theorem stream_rule (o : StreamOpt) (numFields : Int) (b : UserBounds) (t : List BoF)
    (hm : b.matches numFields = some false) :
    printFillerOrFallbacks o numFields (.bound b :: t) =
      match b.fallback, o.fallbackOob with
      | some f, _ => (Run.ok (f ++ (if o.join && !b.isLast then [o.joiner] else []))).seq
                        (printFillerOrFallbacks o numFields t)
      | none, some g => (Run.ok (g ++ (if o.join && !b.isLast then [o.joiner] else []))).seq
                        (printFillerOrFallbacks o numFields t)
      | none, none => Run.fail := by
  simp only [printFillerOrFallbacks, hm]
  cases b.fallback <;> cases o.fallbackOob <;> simp

/-- `-l`, one line at a time: every bound that was never reached when the input ends follows the
    rule (`a = false`: none of its lines has been printed) -/
theorem lines_rule (o : Opt) (b : UserBounds) (t : List BoF) :
    fwdEnd o (.bound b :: t) false =
      match b.fallback, o.fallbackOob with
      | some f, _ => Run.pre (f ++ lineJoiner o t) (fwdEnd o t false)
      | none, some g => Run.pre (g ++ lineJoiner o t) (fwdEnd o t false)
      | none, none => Run.fail := by
  simp only [fwdEnd]
  cases b.fallback <;> cases o.fallbackOob <;> simp

/-- `-l`, one line at a time: a closed range cut short by the end of the input fails (its lines
    already printed cannot be taken back) — never a silent success -/
theorem lines_straddling_fails (o : Opt) (b : UserBounds) (t : List BoF) (h : b.r ≠ .cont) :
    fwdEnd o (.bound b :: t) true = Run.fail := by
  simp only [fwdEnd, h, ne_eq, not_false_eq_true, if_true]

/-- "cannot be resolved" is exactly: a written index beyond the number of parts in either
    direction, or sides that cross once resolved -/
theorem unresolvable_iff (b : UserBounds) (n : Nat) (hz : b.Nonzero) :
    b.tryIntoRange n = none ↔ resolve b n = none := by
  rw [tryIntoRange_eq_resolve b n hz]
  cases resolve b n <;> simp

/-- range expansion (`--json`, `-c`) keeps an unresolvable bound, with its fallback -/
theorem unpack_keeps_unresolvable (b : UserBounds) (n : Nat) (h : b.tryIntoRange n = none) :
    b.unpack n = [{ b with isLast := false }] := by
  simp only [UserBounds.unpack, h]

/-- and so does `--complement` -/
theorem complement_keeps_unresolvable (b : UserBounds) (n : Nat) (h : b.tryIntoRange n = none) :
    complementBof n (.bound b) = [.bound { b with isLast := false }] := by
  simp only [complementBof, UserBounds.complement, h, Option.map_none]

/-- non-vacuity: `5=x` on three parts is unresolvable and has its own fallback -/
example : ({ l := .some 5, r := .some 5, fallback := some [0x78] } : UserBounds).tryIntoRange 3 = none := by
  decide

end Tuc
