import Tuc.Model.RegexLit
import Tuc.Model.Regex
import Tuc.Lemmas.Total
import Tuc.Lemmas.RegexSpec
import Tuc.Props.TextLoops
/-!
# Tuc.Props.RegexLit — the regex twins of the helpers of `cut_str.rs` refine the normal-form model

`Tuc.Model.RegexLit` follows the Rust text of `fill_with_fields_locations_using_regex`,
`compress_delimiter_with_regex`, `trim_regex` (cut_str.rs) and of `Regex::replace_all` → `replacen`
(regex 1.11.1, the `NoExpand` path) statement by statement, over the list `re line` of the
`(start, end)` that `re.find_iter(line)` yields, with every slice CHECKED.  Nothing is assumed of
that list in the model.  This file proves, for EVERY line, EVERY match list, every replacement, any
previous content of the reused buffer:

* `fillWithFieldsLocationsUsingRegexLit_refines` — `= .ok (fillWithFieldsLocationsUsingRegex …)`,
  unconditionally (the function slices nothing);
* `replaceAll_eq` / `replaceAll_deref` / `compressDelimiterWithRegexLit_deref` —
  `= if ChainOK len 0 ms then .ok (replaceMatches haystack rep 0 ms) else .panic`
  (`Cow::Borrowed(haystack)` exactly when there is no match);
* `trimRegexLit_eq` — `= if TrimOK len k ms then .ok (trimRegex line k ms) else .panic`;
* `maybeReplaceDelimiterLit_deref` — `maybe_replace_delimiter` with the literal `replace_all` is the
  transcription of `Tuc.Model.CutStrLit`;
* `replacen_limit_deref` — (bonus, not used by tuc) `limit > 0` replaces the first `limit` matches.

So the outcome of a literal function is its normal form or a panic, never a different value, and the
decidable predicates say EXACTLY which part of the contract of `find_iter` each function needs:

| function | needs | does not need |
|---|---|---|
| `fill_with_fields_locations_using_regex` | nothing | — |
| `replace_all` / `compress_delimiter_with_regex` (`ChainOK`) | sorted + non-overlapping (`prev.end ≤ start`), every start in range, the last end in range | `start ≤ end` |
| `trim_regex` (`TrimOK`) | left/both: the first match, if it starts at 0, ends in range; right/both: the last match, if it ends at `len`, has `start ≤ end` | order, non-overlap, anything about the other matches |

The project's contract `SortedMatches len 0 ms` (`Tuc.Lemmas.Total`; `RegexBag.OK` = both regexes of
the bag, every haystack) implies both predicates (`chainOK_of_sorted`, `trimOK_of_sorted`), hence
`trimRegexLit_refines`, `replaceAll_refines`, `compressDelimiterWithRegexLit_refines`, `bag_refines`
(the call sites of `cut_str`), `maybeReplaceDelimiterLit_refines`: under the contract NO slice of
`trim_regex` or `replace_all` panics and literal = normal form.  Section 7.5 has the witnesses that
the hypothesis cannot be dropped (a list violating the needed part makes the literal function
panic, where the normal form — whose `slice` truncates — returns a value).

**Can the real program reach a violating list?**  Only if `regex::bytes::Regex::find_iter` broke its
documented contract ("successive non-overlapping matches", spans of the haystack): the lists are
produced by `regex_automata`'s searcher (`util/iter.rs`), outside the model — this is the obligation
the regex crate carries, and C16's correspondence check compares its match positions with the
model's case by case.  Nothing in `cut_str.rs` re-checks it.

**EMPTY matches** (`start = end`; they do occur: `-e ' *'`, `-e 'x?'`).  `SortedMatches` says
`start ≤ end`, not `<`, so every theorem here covers them — at the edges, in the middle, repeated,
the empty line; the `-c` mode already runs the normal form on empty matches only (`charMatches`).
The stricter `StrictMatches` (`start < end`) is what the executable matcher `Tuc.Model.Regex`
guarantees (it excludes empty-capable expressions) and what the SPECIFICATION-level theorems of C16
about `-r` assume; it plays no role between the Rust text and the normal form.  With empty matches:
`trim_regex` trims nothing at an edge where the match is empty; when the trims cross (one match
covers the whole line) `.max(idx_start)` (l.239) turns `&line[len..0]` into `&line[len..len]`;
`replace_all` inserts the replacement at each empty match.  Literal = normal form in all of them
(7.1 exhaustively, 7.4 concretely).  No difference was found.

The Rust text of `trim_regex` at 5a3e570 has ONE slice, `&line[idx_start..idx_end]` (l.244), and two
`if trim_kind == …` tests (l.227, 236) rather than a `match` with three slices.

Section 7 compares by evaluation: every line of at most 4 distinct bytes × all 1211
contract-satisfying match lists of at most 4 items; every line of at most 3 bytes × all lists of at
most 2 arbitrary pairs (the `if … then .ok … else .panic` form); the executable bag of `-e ' '` on
all 127 lines of at most 6 bytes over `{a, space}`.
-/

namespace Tuc
namespace RegexLit
open TextLoops

/-! ## 0. the parts of the contract, as decidable predicates -/

/-- what `replace_all` needs of the match list (`lo` = where the previous match ended): every match
    starts at or after the end of the previous one and within the haystack, and the last one ends
    within the haystack.  (`start ≤ end` is NOT part of it.) -/
def ChainOK (n : Nat) : Nat → List (Nat × Nat) → Prop
  | lo, [] => lo ≤ n
  | lo, (s, e) :: t => lo ≤ s ∧ s ≤ n ∧ ChainOK n e t

instance ChainOK.dec (n : Nat) : ∀ (lo : Nat) (ms : List (Nat × Nat)), Decidable (ChainOK n lo ms)
  | lo, [] => inferInstanceAs (Decidable (lo ≤ n))
  | lo, (s, e) :: t =>
    have := ChainOK.dec n e t
    inferInstanceAs (Decidable (lo ≤ s ∧ s ≤ n ∧ ChainOK n e t))

/-- what the left trim needs of the first match: if it starts at 0 it ends within the line -/
def FirstOK (n : Nat) : Option (Nat × Nat) → Prop
  | none => True
  | some m => m.1 = 0 → m.2 ≤ n

/-- what the right trim needs of the last match: if it ends at the end of the line it starts
    within the line -/
def LastOK (n : Nat) : Option (Nat × Nat) → Prop
  | none => True
  | some m => m.2 = n → m.1 ≤ n

instance (n : Nat) : ∀ o, Decidable (FirstOK n o)
  | none => inferInstanceAs (Decidable True)
  | some m => inferInstanceAs (Decidable (m.1 = 0 → m.2 ≤ n))

instance (n : Nat) : ∀ o, Decidable (LastOK n o)
  | none => inferInstanceAs (Decidable True)
  | some m => inferInstanceAs (Decidable (m.2 = n → m.1 ≤ n))

def TrimOK' (n : Nat) (k : TrimKind) (first last : Option (Nat × Nat)) : Prop :=
  ((k = .both ∨ k = .left) → FirstOK n first) ∧ ((k = .both ∨ k = .right) → LastOK n last)

/-- what `trim_regex` needs of the match list: the first match in range when it is trimmed, the
    last match not reversed when it is trimmed.  (Nothing about the matches in between, nothing about
    order or overlap.) -/
def TrimOK (n : Nat) (k : TrimKind) (ms : List (Nat × Nat)) : Prop := TrimOK' n k ms.head? ms.getLast?

instance (n : Nat) (k : TrimKind) (f l : Option (Nat × Nat)) : Decidable (TrimOK' n k f l) :=
  inferInstanceAs (Decidable (_ ∧ _))

instance (n : Nat) (k : TrimKind) (ms : List (Nat × Nat)) : Decidable (TrimOK n k ms) :=
  inferInstanceAs (Decidable (TrimOK' _ _ _ _))

instance sortedDec (n : Nat) : ∀ (lo : Nat) (ms : List (Nat × Nat)), Decidable (SortedMatches n lo ms)
  | _, [] => inferInstanceAs (Decidable True)
  | lo, (s, e) :: t =>
    have := sortedDec n e t
    inferInstanceAs (Decidable (lo ≤ s ∧ s ≤ e ∧ e ≤ n ∧ SortedMatches n e t))

/-! ## 0'. exhaustive executable comparison -/

/-- every match list of at most `depth` items that satisfies the contract `SortedMatches n lo`
    (EMPTY matches included, also several at the same place) -/
def contractLists (n : Nat) : Nat → Nat → List (List (Nat × Nat))
  | 0, _ => [[]]
  | depth + 1, lo =>
    [] :: (List.range (n + 1)).flatMap fun s => (List.range (n + 1)).flatMap fun e =>
      if lo ≤ s ∧ s ≤ e then (contractLists n depth e).map fun t => (s, e) :: t else []

/-- every list of at most `depth` pairs with both sides in `0..=n+1`, contract or not -/
def anyLists (n : Nat) : Nat → List (List (Nat × Nat))
  | 0 => [[]]
  | depth + 1 =>
    [] :: (List.range (n + 2)).flatMap fun s => (List.range (n + 2)).flatMap fun e =>
      (anyLists n depth).map fun t => (s, e) :: t

/-- the line `a b c …` of `n` distinct bytes -/
def lineOf (n : Nat) : Bytes := (List.range n).map fun i => (97 + i).toUInt8

def kinds : List TrimKind := [.left, .right, .both]
def dirtyRanges : List Range := [⟨7, 9⟩, ⟨0, 0⟩]

#guard (contractLists 4 4 0).length == 791
#guard (contractLists 4 4 0).all fun ms => decide (SortedMatches 4 0 ms)
#guard (anyLists 3 2).length == 651

/-! ## 1. `fill_with_fields_locations_using_regex` -/

#guard (List.range 5).all fun n => (anyLists n 2).all fun ms =>
  fillWithFieldsLocationsUsingRegexLit dirtyRanges (lineOf n) (fun _ => ms) ==
    .ok (fillWithFieldsLocationsUsingRegex dirtyRanges (lineOf n) ms)

theorem fillReFor_cons (m : Nat × Nat) (t : List (Nat × Nat)) (buffer : List Range) (prev : Nat) :
    fillReFor (m :: t) buffer prev = fillReFor t (buffer ++ [⟨prev, m.1⟩]) m.2 := rfl

theorem fillReFor_eq (len : Nat) :
    ∀ (ms : List (Nat × Nat)) (buffer : List Range) (prev : Nat),
      push (fillReFor ms buffer prev).1 ⟨(fillReFor ms buffer prev).2, len⟩ =
        buffer ++ rangesBetweenMatches len prev ms := by
  intro ms
  induction ms with
  | nil => intro buffer prev; rfl
  | cons m t ih =>
    intro buffer prev
    obtain ⟨s, e⟩ := m
    rw [fillReFor_cons, ih]
    simp [rangesBetweenMatches]

/-- **`fill_with_fields_locations_using_regex`: the loop is the normal form**, for every line, EVERY
    match list (no part of the contract is needed: the function only copies offsets) and any
    previous content of the buffer; it cannot panic. -/
theorem fillWithFieldsLocationsUsingRegexLit_refines (buffer : List Range) (line : Bytes)
    (re : Bytes → List (Nat × Nat)) :
    fillWithFieldsLocationsUsingRegexLit buffer line re =
      .ok (fillWithFieldsLocationsUsingRegex buffer line (re line)) := by
  unfold fillWithFieldsLocationsUsingRegexLit fillWithFieldsLocationsUsingRegex
  by_cases hl : line.isEmpty = true
  · simp only [hl, if_true]; rfl
  · simp only [hl, Bool.false_eq_true, if_false]
    have := fillReFor_eq line.length (re line) (clear buffer) 0
    simp only [clear, List.nil_append] at this
    rw [← this]
    rfl

/-! ## 2. `Regex::replace_all(haystack, NoExpand(rep))` -/

theorem bind_panic {α β : Type} (f : α → Outcome β) : (Outcome.panic : Outcome α).bind f = .panic := rfl

theorem sliceRange_eq {α : Type} (l : List α) (a b : Nat) :
    sliceRange l a b = if a ≤ b ∧ b ≤ l.length then .ok (slice l a b) else .panic := rfl

theorem sliceFrom_eq {α : Type} (l : List α) (a : Nat) :
    sliceFrom l a = if a ≤ l.length then .ok (l.drop a) else .panic := rfl

/-- the loop of `replacen` with `limit = 0` followed by the tail: the normal form when the chain of
    checked slices holds, a panic otherwise -/
theorem replacenFor_zero (haystack rep : Bytes) :
    ∀ (ms : List (Nat × Nat)) (i : Nat) (new : Bytes) (lastMatch : Nat),
      (replacenFor haystack rep 0 (enumerateFrom i ms) new lastMatch).bind (replacenFinish haystack) =
        if ChainOK haystack.length lastMatch ms then
          .ok (Cow.owned (new ++ replaceMatches haystack rep lastMatch ms))
        else .panic := by
  intro ms
  induction ms with
  | nil =>
    intro i new lastMatch
    simp only [enumerateFrom, replacenFor, bind_ok, replacenFinish, sliceFrom_eq, replaceMatches,
      extend]
    by_cases h : lastMatch ≤ haystack.length
    · rw [if_pos h, if_pos (show ChainOK haystack.length lastMatch [] from h)]; rfl
    · rw [if_neg h, if_neg (show ¬ ChainOK haystack.length lastMatch [] from h)]; rfl
  | cons m t ih =>
    intro i new lastMatch
    obtain ⟨s, e⟩ := m
    simp only [enumerateFrom, replacenFor, sliceRange_eq, mStart, mEnd]
    by_cases h : lastMatch ≤ s ∧ s ≤ haystack.length
    · simp only [h, and_self, if_true, bind_ok, Nat.lt_irrefl, if_false, Bool.false_eq_true]
      rw [ih]
      by_cases hc : ChainOK haystack.length e t
      · rw [if_pos hc, if_pos (show ChainOK haystack.length lastMatch ((s, e) :: t) from ⟨h.1, h.2, hc⟩)]
        simp only [extend, replaceMatches, List.append_assoc]
      · rw [if_neg hc, if_neg (fun hc' : ChainOK haystack.length lastMatch ((s, e) :: t) => hc hc'.2.2)]
    · rw [if_neg h, bind_panic, bind_panic,
        if_neg (fun hc : ChainOK haystack.length lastMatch ((s, e) :: t) => h ⟨hc.1, hc.2.1⟩)]

/-- **`Regex::replace_all` with `NoExpand`, exactly**: `Cow::Borrowed(haystack)` when there is no
    match, `Cow::Owned(normal form)` otherwise — provided the chain of slices holds; a panic when
    it does not.  Every haystack, every replacement, EVERY match list. -/
theorem replaceAll_eq (re : Bytes → List (Nat × Nat)) (haystack rep : Bytes) :
    replaceAll re haystack rep =
      if ChainOK haystack.length 0 (re haystack) then
        .ok (if (re haystack).isEmpty then Cow.borrowed haystack
             else Cow.owned (replaceMatches haystack rep 0 (re haystack)))
      else .panic := by
  unfold replaceAll replacen noExpansion enumerate
  cases hms : re haystack with
  | nil => rw [if_pos (show ChainOK haystack.length 0 [] from Nat.zero_le _)]; rfl
  | cons m t =>
    have := replacenFor_zero haystack rep (m :: t) 0 [] 0
    simp only [enumerateFrom] at this ⊢
    rw [this]
    simp

/-- what the callers read of it -/
theorem replaceAll_deref (re : Bytes → List (Nat × Nat)) (haystack rep : Bytes) :
    omap Cow.deref (replaceAll re haystack rep) =
      if ChainOK haystack.length 0 (re haystack) then
        .ok (replaceMatches haystack rep 0 (re haystack))
      else .panic := by
  rw [replaceAll_eq]
  by_cases h : ChainOK haystack.length 0 (re haystack)
  · simp only [h, if_true, omap, bind_ok]
    cases hms : re haystack with
    | nil => simp [Cow.deref, replaceMatches]
    | cons m t => simp [Cow.deref]
  · simp only [h, if_false, omap, bind_panic]

/-! ## 3. `trim_regex` -/

/-- `iter.last().or(first_match)` after `iter.next()` gave `first_match`: the last of all items -/
theorem iterLast_or_first {α : Type} (m : α) (t : List α) :
    (iterLast t).or (some m) = (m :: t).getLast? := by
  unfold iterLast
  cases t with
  | nil => rfl
  | cons a t' => rw [List.getLast?_cons_cons]; cases h : (a :: t').getLast? with
    | none => simp at h
    | some x => rfl

/-- `trim_regex` in terms of the first and the last item of the iterator only -/
theorem trimRegexLit_first_last (line : Bytes) (k : TrimKind) (ms : List (Nat × Nat)) :
    trimRegexLit line k (fun _ => ms) =
      (let idxStart : Nat :=
        if k = .both ∨ k = .left then
          match ms.head? with
          | some (s, e) => if s = 0 then e else 0
          | none => 0
        else 0
      let idxEnd : Nat :=
        if k = .both ∨ k = .right then
          match ms.getLast? with
          | some (s, e) => if e = line.length then max s idxStart else line.length
          | none => line.length
        else line.length
      sliceRange line idxStart idxEnd) := by
  unfold trimRegexLit
  cases ms with
  | nil => cases k <;> simp [iterNext, iterLast]
  | cons m t =>
    obtain ⟨s, e⟩ := m
    cases k
    · simp [iterNext]
    · simp only [iterLast, Option.or_none, reduceCtorEq, or_false, false_or, if_false, eq_self,
        if_true]
      generalize ((s, e) :: t).getLast? = o
      cases o with
      | none => rfl
      | some m => obtain ⟨a, b⟩ := m; simp
    · simp only [iterNext, eq_self, true_or, if_true]
      rw [iterLast_or_first]
      generalize ((s, e) :: t).getLast? = o
      cases o with
      | none => rfl
      | some m => obtain ⟨a, b⟩ := m; rfl

/-- the two cursors of `trim_regex`, from the first and the last match -/
def trimIdxStart (k : TrimKind) (first : Option (Nat × Nat)) : Nat :=
  if k = .both ∨ k = .left then
    match first with
    | some (s, e) => if s = 0 then e else 0
    | none => 0
  else 0

def trimIdxEnd (n : Nat) (k : TrimKind) (idxStart : Nat) (last : Option (Nat × Nat)) : Nat :=
  if k = .both ∨ k = .right then
    match last with
    | some (s, e) => if e = n then max s idxStart else n
    | none => n
  else n

theorem trimRegexLit_idx (line : Bytes) (k : TrimKind) (ms : List (Nat × Nat)) :
    trimRegexLit line k (fun _ => ms) =
      sliceRange line (trimIdxStart k ms.head?)
        (trimIdxEnd line.length k (trimIdxStart k ms.head?) ms.getLast?) :=
  trimRegexLit_first_last line k ms

theorem trimRegex_idx (line : Bytes) (k : TrimKind) (ms : List (Nat × Nat)) :
    trimRegex line k ms =
      slice line (trimIdxStart k ms.head?)
        (trimIdxEnd line.length k (trimIdxStart k ms.head?) ms.getLast?) := rfl

/-- the slice of l.244 is in bounds exactly when `TrimOK'` holds -/
theorem trimIdx_ok_iff (n : Nat) (k : TrimKind) (f l : Option (Nat × Nat)) :
    (trimIdxStart k f ≤ trimIdxEnd n k (trimIdxStart k f) l ∧
      trimIdxEnd n k (trimIdxStart k f) l ≤ n) ↔ TrimOK' n k f l := by
  unfold trimIdxStart trimIdxEnd TrimOK' FirstOK LastOK
  cases k <;> cases f <;> cases l <;> simp <;> grind

/-- **`trim_regex`, exactly**: the normal form when the slice of l.244 is in bounds (`TrimOK`), a
    panic when it is not.  Every line, every kind, EVERY match list. -/
theorem trimRegexLit_eq (line : Bytes) (k : TrimKind) (re : Bytes → List (Nat × Nat)) :
    trimRegexLit line k re =
      if TrimOK line.length k (re line) then .ok (trimRegex line k (re line)) else .panic := by
  show trimRegexLit line k (fun _ => re line) = _
  rw [trimRegexLit_idx, trimRegex_idx, sliceRange_eq]
  have hiff := trimIdx_ok_iff line.length k (re line).head? (re line).getLast?
  by_cases h : TrimOK line.length k (re line)
  · rw [if_pos h, if_pos (hiff.mpr h)]
  · rw [if_neg h, if_neg (fun hc => h (hiff.mp hc))]

/-! ## 4. `compress_delimiter_with_regex`, `maybe_replace_delimiter` -/

theorem compressDelimiterWithRegexLit_deref (line : Bytes) (re : Bytes → List (Nat × Nat))
    (newDelimiter : Bytes) :
    omap Cow.deref (compressDelimiterWithRegexLit line re newDelimiter) =
      if ChainOK line.length 0 (re line) then .ok (replaceMatches line newDelimiter 0 (re line))
      else .panic :=
  replaceAll_deref re line newDelimiter

/-- `maybe_replace_delimiter` with the literal `replace_all` is the transcription of
    `Tuc.Model.CutStrLit` (which calls the normal form), when the matches of the `normal` regex over
    `text` chain -/
theorem maybeReplaceDelimiterLit_deref (text : Bytes) (opt : Opt)
    (h : ∀ bag, opt.regexBag = some bag → ChainOK text.length 0 (bag.normal text)) :
    omap Cow.deref (maybeReplaceDelimiterLit text opt) =
      .ok (CutStrLit.maybeReplaceDelimiterLit text opt) := by
  unfold maybeReplaceDelimiterLit CutStrLit.maybeReplaceDelimiterLit
  by_cases hb : opt.boundsType = .characters
  · simp only [hb, if_true]; rfl
  · simp only [hb, if_false]
    cases hr : opt.replaceDelimiter with
    | none => rfl
    | some nd =>
      cases hg : opt.regexBag with
      | none => rfl
      | some bag =>
        simp only []
        rw [replaceAll_deref, if_pos (h bag hg)]

/-! ## 5. the contract of `find_iter` (`SortedMatches`, `RegexBag.OK`) gives both predicates -/

theorem sorted_mem {n : Nat} : ∀ {ms : List (Nat × Nat)} {lo : Nat},
    SortedMatches n lo ms → ∀ m ∈ ms, m.1 ≤ m.2 ∧ m.2 ≤ n
  | [], _, _, _, hm => by cases hm
  | (s, e) :: t, _, h, m, hm => by
    cases hm with
    | head => exact ⟨h.2.1, h.2.2.1⟩
    | tail _ hm' => exact sorted_mem h.2.2.2 m hm'

/-- sorted + non-overlapping + in range ⇒ the chain of `replace_all` -/
theorem chainOK_of_sorted {n : Nat} : ∀ {ms : List (Nat × Nat)} {lo : Nat},
    SortedMatches n lo ms → lo ≤ n → ChainOK n lo ms
  | [], _, _, hlo => hlo
  | (_, _) :: _, _, h, _ => ⟨h.1, Nat.le_trans h.2.1 h.2.2.1, chainOK_of_sorted h.2.2.2 h.2.2.1⟩

/-- `trim_regex` needs only: every match ends within the line (`in range`) and no match is
    reversed (`start ≤ end`) — in fact only of the first and of the last match -/
theorem trimOK_of_inRange {n : Nat} (k : TrimKind) (ms : List (Nat × Nat))
    (h : ∀ m ∈ ms, m.1 ≤ m.2 ∧ m.2 ≤ n) : TrimOK n k ms := by
  refine ⟨fun _ => ?_, fun _ => ?_⟩
  · cases hh : ms.head? with
    | none => trivial
    | some m => exact fun _ => (h m (List.mem_of_mem_head? hh)).2
  · cases hl : ms.getLast? with
    | none => trivial
    | some m =>
      have := h m (List.mem_of_getLast? hl)
      exact fun _ => Nat.le_trans this.1 this.2

theorem trimOK_of_sorted {n lo : Nat} (k : TrimKind) {ms : List (Nat × Nat)}
    (h : SortedMatches n lo ms) : TrimOK n k ms :=
  trimOK_of_inRange k ms (sorted_mem h)

/-- **under the contract `trim_regex` is the normal form and does not panic** — EMPTY matches
    (`start = end`) included, at the edges and in the middle, and when the two trims cross -/
theorem trimRegexLit_refines (line : Bytes) (k : TrimKind) (re : Bytes → List (Nat × Nat))
    (h : SortedMatches line.length 0 (re line)) :
    trimRegexLit line k re = .ok (trimRegex line k (re line)) := by
  rw [trimRegexLit_eq, if_pos (trimOK_of_sorted k h)]

/-- **under the contract `replace_all(_, NoExpand(_))` is the normal form and does not panic** -/
theorem replaceAll_refines (re : Bytes → List (Nat × Nat)) (haystack rep : Bytes)
    (h : SortedMatches haystack.length 0 (re haystack)) :
    omap Cow.deref (replaceAll re haystack rep) = .ok (replaceMatches haystack rep 0 (re haystack)) := by
  rw [replaceAll_deref, if_pos (chainOK_of_sorted h (Nat.zero_le _))]

theorem compressDelimiterWithRegexLit_refines (line : Bytes) (re : Bytes → List (Nat × Nat))
    (newDelimiter : Bytes) (h : SortedMatches line.length 0 (re line)) :
    omap Cow.deref (compressDelimiterWithRegexLit line re newDelimiter) =
      .ok (replaceMatches line newDelimiter 0 (re line)) :=
  replaceAll_refines re line newDelimiter h

/-- the three call sites of `cut_str` (l.286 `trim_regex(.., greedy)`, l.317-321
    `compress_delimiter_with_regex(.., greedy, ..)`, l.334-342
    `fill_with_fields_locations_using_regex(.., greedy | normal)`) and the one of
    `maybe_replace_delimiter` (l.154-156), for a bag that honours the contract -/
theorem bag_refines (bag : RegexBag) (hok : bag.OK) (line : Bytes) :
    (∀ k, trimRegexLit line k bag.greedy = .ok (trimRegex line k (bag.greedy line))) ∧
    (∀ nd, omap Cow.deref (compressDelimiterWithRegexLit line bag.greedy nd) =
      .ok (replaceMatches line nd 0 (bag.greedy line))) ∧
    (∀ buffer, fillWithFieldsLocationsUsingRegexLit buffer line bag.greedy =
      .ok (fillWithFieldsLocationsUsingRegex buffer line (bag.greedy line))) ∧
    (∀ buffer, fillWithFieldsLocationsUsingRegexLit buffer line bag.normal =
      .ok (fillWithFieldsLocationsUsingRegex buffer line (bag.normal line))) :=
  ⟨fun k => trimRegexLit_refines line k _ (hok line).2,
   fun nd => compressDelimiterWithRegexLit_refines line _ nd (hok line).2,
   fun buffer => fillWithFieldsLocationsUsingRegexLit_refines buffer line _,
   fun buffer => fillWithFieldsLocationsUsingRegexLit_refines buffer line _⟩

theorem maybeReplaceDelimiterLit_refines (text : Bytes) (opt : Opt)
    (hok : ∀ bag, opt.regexBag = some bag → bag.OK) :
    omap Cow.deref (maybeReplaceDelimiterLit text opt) =
      .ok (CutStrLit.maybeReplaceDelimiterLit text opt) :=
  maybeReplaceDelimiterLit_deref text opt fun bag hb =>
    chainOK_of_sorted (hok bag hb text).1 (Nat.zero_le _)

/-! ## 6. `replacen` with a limit (not used by tuc; shows the transcription of l.946-948) -/

theorem checkedSub_succ_one (L : Nat) : checkedSub (L + 1) 1 = .ok L := by
  unfold checkedSub; rw [if_pos (by omega)]; rfl

theorem replacenFor_limit (haystack rep : Bytes) (L : Nat) :
    ∀ (ms : List (Nat × Nat)) (i : Nat) (new : Bytes) (lastMatch : Nat), i ≤ L →
      (replacenFor haystack rep (L + 1) (enumerateFrom i ms) new lastMatch).bind
          (replacenFinish haystack) =
        if ChainOK haystack.length lastMatch (ms.take (L + 1 - i)) then
          .ok (Cow.owned (new ++ replaceMatches haystack rep lastMatch (ms.take (L + 1 - i))))
        else .panic := by
  intro ms
  induction ms with
  | nil =>
    intro i new lastMatch _
    have := replacenFor_zero haystack rep [] i new lastMatch
    simpa only [enumerateFrom, replacenFor, List.take_nil] using this
  | cons m t ih =>
    intro i new lastMatch hi
    obtain ⟨s, e⟩ := m
    have htake : ((s, e) :: t).take (L + 1 - i) = (s, e) :: t.take (L - i) := by
      have : L + 1 - i = (L - i) + 1 := by omega
      rw [this, List.take_succ_cons]
    rw [htake]
    simp only [enumerateFrom, replacenFor, sliceRange_eq, mStart, mEnd, checkedSub_succ_one, bind_ok,
      Nat.zero_lt_succ, if_true]
    by_cases h : lastMatch ≤ s ∧ s ≤ haystack.length
    · rw [if_pos h]
      simp only [bind_ok]
      by_cases hiL : i ≥ L
      · have hLi : L - i = 0 := by omega
        simp only [hiL, decide_true, if_true, bind_ok, hLi, List.take_zero, replacenFinish,
          sliceFrom_eq, replaceMatches, extend]
        by_cases he : e ≤ haystack.length
        · rw [if_pos he, if_pos (show ChainOK haystack.length lastMatch [(s, e)] from ⟨h.1, h.2, he⟩)]
          simp only [bind_ok, List.append_assoc]
        · rw [if_neg he, if_neg (fun hc : ChainOK haystack.length lastMatch [(s, e)] => he hc.2.2)]
          rfl
      · simp only [hiL, decide_false, Bool.false_eq_true, if_false]
        rw [ih (i + 1) _ _ (by omega)]
        have hLi : L + 1 - (i + 1) = L - i := by omega
        rw [hLi]
        by_cases hc : ChainOK haystack.length e (t.take (L - i))
        · rw [if_pos hc, if_pos (show ChainOK haystack.length lastMatch ((s, e) :: t.take (L - i)) from
            ⟨h.1, h.2, hc⟩)]
          simp only [extend, replaceMatches, List.append_assoc]
        · rw [if_neg hc, if_neg (fun hc' : ChainOK haystack.length lastMatch ((s, e) :: t.take (L - i)) =>
            hc hc'.2.2)]
    · rw [if_neg h, bind_panic, bind_panic,
        if_neg (fun hc : ChainOK haystack.length lastMatch ((s, e) :: t.take (L - i)) => h ⟨hc.1, hc.2.1⟩)]

/-- `replacen(haystack, limit, NoExpand(rep))` with `limit > 0` replaces the first `limit` matches
    (and `limit - 1` at l.946 cannot underflow: it is guarded by `limit > 0`) -/
theorem replacen_limit_deref (re : Bytes → List (Nat × Nat)) (haystack rep : Bytes) (L : Nat) :
    omap Cow.deref (replacen re haystack (L + 1) rep) =
      if ChainOK haystack.length 0 ((re haystack).take (L + 1)) then
        .ok (replaceMatches haystack rep 0 ((re haystack).take (L + 1)))
      else .panic := by
  unfold replacen noExpansion enumerate
  cases hms : re haystack with
  | nil =>
    rw [List.take_nil, if_pos (show ChainOK haystack.length 0 [] from Nat.zero_le _)]
    simp [omap, enumerateFrom, Cow.deref, replaceMatches]
  | cons m t =>
    have := replacenFor_limit haystack rep L (m :: t) 0 [] 0 (Nat.zero_le _)
    simp only [enumerateFrom, Nat.sub_zero] at this ⊢
    rw [this]
    by_cases hc : ChainOK haystack.length 0 ((m :: t).take (L + 1))
    · rw [if_pos hc, if_pos hc]; simp [omap, Cow.deref]
    · rw [if_neg hc, if_neg hc]; rfl

/-! ## 7. evaluation: exhaustive comparison, the empty matches, the witnesses

`X` = 88, space = 32, `a b c d` = 97 98 99 100. -/

/-! ### 7.1 every line of `n ≤ 4` distinct bytes × EVERY match list of at most 4 items that
satisfies the contract (empty matches, repeated empty matches, matches at both edges included):
literal = normal form, no panic -/

#guard (List.range 5).all fun n => (contractLists n 4 0).all fun ms => kinds.all fun k =>
  trimRegexLit (lineOf n) k (fun _ => ms) == .ok (trimRegex (lineOf n) k ms)

#guard (List.range 5).all fun n => (contractLists n 4 0).all fun ms =>
  replaceAll (fun _ => ms) (lineOf n) [88] ==
    .ok (if ms.isEmpty then Cow.borrowed (lineOf n) else Cow.owned (replaceMatches (lineOf n) [88] 0 ms))

#guard (List.range 5).all fun n => (contractLists n 4 0).all fun ms =>
  omap Cow.deref (compressDelimiterWithRegexLit (lineOf n) (fun _ => ms) []) ==
    .ok (replaceMatches (lineOf n) [] 0 ms)

#guard (List.range 5).all fun n => (contractLists n 4 0).all fun ms =>
  fillWithFieldsLocationsUsingRegexLit dirtyRanges (lineOf n) (fun _ => ms) ==
    .ok (fillWithFieldsLocationsUsingRegex dirtyRanges (lineOf n) ms)

/-! ### 7.2 every line of `n ≤ 3` distinct bytes × EVERY list of at most 2 pairs with sides in
`0..=n+1`, contract or not: the literal function panics exactly when the predicate fails, and is the
normal form otherwise (`trimRegexLit_eq`, `replaceAll_eq` by evaluation) -/

#guard (List.range 4).all fun n => (anyLists n 2).all fun ms => kinds.all fun k =>
  trimRegexLit (lineOf n) k (fun _ => ms) ==
    if TrimOK n k ms then .ok (trimRegex (lineOf n) k ms) else .panic

#guard (List.range 4).all fun n => (anyLists n 2).all fun ms =>
  omap Cow.deref (replaceAll (fun _ => ms) (lineOf n) [88]) ==
    if ChainOK n 0 ms then .ok (replaceMatches (lineOf n) [88] 0 ms) else .panic

-- the contract implies both predicates, and is strictly stronger than each
#guard (List.range 4).all fun n => (anyLists n 2).all fun ms =>
  !decide (SortedMatches n 0 ms) || (decide (ChainOK n 0 ms) && kinds.all fun k => decide (TrimOK n k ms))
#guard decide (ChainOK 3 0 [(2, 1)]) && !decide (SortedMatches 3 0 [(2, 1)])
#guard decide (TrimOK 3 .both [(0, 2), (1, 3)]) && !decide (SortedMatches 3 0 [(0, 2), (1, 3)])

/-! ### 7.3 the executable matcher of `Tuc.Model.Regex` (the bag of `-e ' '`: ` ` and `( )+`) on
every line of at most 6 bytes over `{a, space}` -/

def spaceBag : RegexBag := Re.bag (.byte 32)
def spaceLines : List Bytes := (List.range 7).flatMap (TextLoops.linesOfLength [97, 32])

#guard spaceLines.length == 127
#guard spaceLines.all fun line => kinds.all fun k =>
  trimRegexLit line k spaceBag.greedy == .ok (trimRegex line k (spaceBag.greedy line))
#guard spaceLines.all fun line =>
  omap Cow.deref (compressDelimiterWithRegexLit line spaceBag.greedy [88]) ==
    .ok (replaceMatches line [88] 0 (spaceBag.greedy line))
#guard spaceLines.all fun line =>
  omap Cow.deref (replaceAll spaceBag.normal line [88]) ==
    .ok (replaceMatches line [88] 0 (spaceBag.normal line))
#guard spaceLines.all fun line =>
  fillWithFieldsLocationsUsingRegexLit dirtyRanges line spaceBag.normal ==
    .ok (fillWithFieldsLocationsUsingRegex dirtyRanges line (spaceBag.normal line))

-- `  a  a ` : the greedy matches are the three runs; `-t` both removes the outer two
#guard spaceBag.greedy [32, 32, 97, 32, 32, 97, 32] == [(0, 2), (3, 5), (6, 7)]
#guard trimRegexLit [32, 32, 97, 32, 32, 97, 32] .both spaceBag.greedy == .ok [97, 32, 32, 97]
#guard omap Cow.deref (compressDelimiterWithRegexLit [32, 32, 97, 32, 32, 97, 32] spaceBag.greedy [88]) ==
  .ok [88, 97, 88, 97, 88]
-- a line that is one run of delimiters: the two trims CROSS (`idx_start = 3`, `m.start() = 0`):
-- `.max(idx_start)` of l.239 makes the slice `&line[3..3]`
#guard spaceBag.greedy [32, 32, 32] == [(0, 3)]
#guard trimRegexLit [32, 32, 32] .both spaceBag.greedy == .ok []
-- without the `.max(idx_start)` the slice would be `&line[3..0]`
#guard (sliceRange ([32, 32, 32] : Bytes) 3 0) == .panic

/-! ### 7.4 EMPTY matches.  An expression that can match the empty string (`-e ' *'`, `-e 'x?'`)
makes `find_iter` report empty matches: for ` *` over `a b` the items are `(0,0) (1,2) (3,3)`, over
`ab` they are `(0,0) (1,1) (2,2)` (an empty match is reported at every position that is not the end of
the previous match, the two edges included).  They satisfy `SortedMatches` — which says `start ≤ end`,
NOT `start < end` — so the theorems of section 5 cover them. -/

/-- ` *` over `a b` -/
def starOverAB : List (Nat × Nat) := [(0, 0), (1, 2), (3, 3)]
def lineAB : Bytes := [97, 32, 98]

example : SortedMatches lineAB.length 0 starOverAB := by decide

-- `-t`: an empty match at an edge trims nothing (`idx_start = m.end() = 0`, `idx_end = m.start() = len`)
#guard kinds.all fun k => trimRegexLit lineAB k (fun _ => starOverAB) == .ok lineAB
#guard kinds.all fun k => trimRegex lineAB k starOverAB == lineAB
-- fields: an empty field before the first and after the last empty match
#guard fillWithFieldsLocationsUsingRegexLit [] lineAB (fun _ => starOverAB) ==
  .ok [⟨0, 0⟩, ⟨0, 1⟩, ⟨2, 3⟩, ⟨3, 3⟩]
-- `replace_all`: the replacement is inserted at the empty matches, `Xa X b X`… literally `XaXbX`
#guard replaceAll (fun _ => starOverAB) lineAB [88] == .ok (Cow.owned [88, 97, 88, 98, 88])
#guard replaceMatches lineAB [88] 0 starOverAB == [88, 97, 88, 98, 88]
-- empty matches only, in the middle too (` *` over `ab`)
#guard replaceAll (fun _ => [(0, 0), (1, 1), (2, 2)]) [97, 98] [88] == .ok (Cow.owned [88, 97, 88, 98, 88])
#guard trimRegexLit [97, 98] .both (fun _ => [(0, 0), (1, 1), (2, 2)]) == .ok [97, 98]
-- the empty line: one empty match `(0,0)`, first and last at once
#guard kinds.all fun k => trimRegexLit [] k (fun _ => [(0, 0)]) == .ok []
#guard replaceAll (fun _ => [(0, 0)]) [] [88] == .ok (Cow.owned [88])
-- leading run then empty match at the end: `  a` under ` *` gives `(0,2) (3,3)`
#guard trimRegexLit [32, 32, 97] .both (fun _ => [(0, 2), (3, 3)]) == .ok [97]
-- a list the contract allows but the crate never reports (empty match glued to the previous one)
#guard trimRegexLit [32, 32, 32] .both (fun _ => [(0, 3), (3, 3)]) == .ok []
#guard replaceAll (fun _ => [(0, 3), (3, 3)]) [32, 32, 32] [88] == .ok (Cow.owned [88, 88])

/-! ### 7.5 the obligation the regex crate carries: WITNESSES.  A list that violates the part of
the contract a function needs makes it panic (never: differ silently — `trimRegexLit_eq` and
`replaceAll_eq` say the outcome is the normal form or a panic, nothing else). -/

/-- `replace_all` needs NON-OVERLAPPING: `(0,2) (1,3)` over `abc` → `&haystack[2..1]` -/
example : replaceAll (fun _ => [(0, 2), (1, 3)]) [97, 98, 99] [88] = .panic := by decide
/-- `replace_all` needs SORTED: `(2,3) (0,1)` over `abc` → `&haystack[3..0]` -/
example : replaceAll (fun _ => [(2, 3), (0, 1)]) [97, 98, 99] [88] = .panic := by decide
/-- `replace_all` needs IN RANGE (a start): `(4,5)` over `abc` → `&haystack[0..4]` -/
example : replaceAll (fun _ => [(4, 5)]) [97, 98, 99] [88] = .panic := by decide
/-- `replace_all` needs IN RANGE (the last end): `(0,5)` over `abc` → `&haystack[5..]` -/
example : replaceAll (fun _ => [(0, 5)]) [97, 98, 99] [88] = .panic := by decide
/-- `replace_all` does NOT need `start ≤ end`: `(2,1)` over `abc` gives `abXbc`, as the normal form -/
example : replaceAll (fun _ => [(2, 1)]) [97, 98, 99] [88] = .ok (Cow.owned [97, 98, 88, 98, 99]) := by
  decide
example : replaceMatches [97, 98, 99] [88] 0 [(2, 1)] = [97, 98, 88, 98, 99] := by decide

/-- `trim_regex` (left) needs IN RANGE of the first match: `(0,5)` over `abc` → `&line[5..3]` -/
example : trimRegexLit [97, 98, 99] .left (fun _ => [(0, 5)]) = .panic := by decide
/-- … where the normal form, whose slice cannot panic, says "empty" -/
example : trimRegex [97, 98, 99] .left [(0, 5)] = [] := by decide
/-- `trim_regex` (right) needs `start ≤ end` of the last match: `(4,3)` over `abc` → `&line[0..4]` -/
example : trimRegexLit [97, 98, 99] .right (fun _ => [(4, 3)]) = .panic := by decide
example : trimRegex [97, 98, 99] .right [(4, 3)] = [97, 98, 99] := by decide
/-- `trim_regex` needs NEITHER sorted NOR non-overlapping: `(0,2) (1,3)` over `abc` -/
example : trimRegexLit [97, 98, 99] .both (fun _ => [(0, 2), (1, 3)]) = .ok [] := by decide
/-- `fill_with_fields_locations_using_regex` needs nothing (it slices nothing; the ranges it builds
    are sliced by `cut_str`, l.420-425, whose checks are those of `Tuc.Model.CutStrLit`) -/
example : fillWithFieldsLocationsUsingRegexLit [] [97, 98, 99] (fun _ => [(7, 9), (2, 1)]) =
    .ok [⟨0, 7⟩, ⟨9, 2⟩, ⟨1, 3⟩] := by decide

/-! ### 7.6 non-vacuity of the hypotheses of section 5 -/

/-- the bag of an expression of the family of `Tuc.Model.Regex` honours the contract
    (`Re.bag_ok`): `bag_refines` applies to it -/
example (line : Bytes) (k : TrimKind) :
    trimRegexLit line k spaceBag.greedy = .ok (trimRegex line k (spaceBag.greedy line)) :=
  (bag_refines spaceBag (Re.bag_ok _) line).1 k

/-- a contract-satisfying list with empty matches at both edges and a non-empty one in the middle -/
example : trimRegexLit lineAB .both (fun _ => starOverAB) = .ok (trimRegex lineAB .both starOverAB) :=
  trimRegexLit_refines lineAB .both _ (by decide)

example : omap Cow.deref (replaceAll (fun _ => starOverAB) lineAB [88]) =
    .ok (replaceMatches lineAB [88] 0 starOverAB) :=
  replaceAll_refines _ lineAB [88] (by decide)

example : omap Cow.deref (maybeReplaceDelimiterLit lineAB
      { delimiter := [], bounds := default, replaceDelimiter := some [88], regexBag := some spaceBag }) =
    .ok [97, 88, 98] := by
  rw [maybeReplaceDelimiterLit_refines _ _ (by intro b hb; cases hb; exact Re.bag_ok _)]
  simp [CutStrLit.maybeReplaceDelimiterLit, spaceBag, Re.bag, Re.findIter, Re.findIterAux, Re.matchLen,
    Re.run, replaceMatches, slice, lineAB]

-- `replacen` with a limit: the first `limit` matches
#guard omap Cow.deref (replacen (fun _ => [(0, 1), (2, 3), (4, 5)]) [97, 98, 99, 100, 101] 2 [88]) ==
  .ok [88, 98, 88, 100, 101]
#guard omap Cow.deref (replacen (fun _ => [(0, 1), (2, 3), (4, 5)]) [97, 98, 99, 100, 101] 0 [88]) ==
  .ok [88, 98, 88, 100, 88]

end RegexLit
end Tuc
