import Tuc.Model.CutStr
import Tuc.Model.Regex
import Tuc.Spec.RegexSpec
import Tuc.Lemmas.RegexSpec
import Tuc.Props.C16
/-!
# C16, the `-g -r R` instance — a regex delimiter with `-g` and a replacement

`cut_str` with `-e RE -g -r R` (no `-p`): the fields are the gaps of `(RE)+`, but every printed
range is matched again with `RE` (not `(RE)+`) and every match is replaced by `R`.  The
specification (`tokenizeRe … true`) says: a separator is a match of `(RE)+`, it counts for the
matches of `RE` inside it and is rendered as that many `R`.

The two agree as soon as the two match lists are related the way `RE` and `(RE)+` are
(`GreedyTiled`): every match of `(RE)+` is tiled exactly by consecutive matches of `RE`, and no
match of `RE` lies outside the matches of `(RE)+`.
-/
namespace Tuc
open Tuc.Spec

/-! ## the hypothesis relating the two match lists -/

/-- the matches `ms` tile `[a, b)` exactly: the first starts at `a`, every next one starts where
    the previous one ended, the last one ends at `b` -/
def Tiles : Nat → Nat → List (Nat × Nat) → Prop
  | a, b, [] => a = b
  | a, b, (s, e) :: t => s = a ∧ Tiles e b t

instance : ∀ (a b : Nat) (ms : List (Nat × Nat)), Decidable (Tiles a b ms)
  | a, b, [] => inferInstanceAs (Decidable (a = b))
  | a, b, (s, e) :: t =>
    have := instDecidableTiles e b t
    inferInstanceAs (Decidable (s = a ∧ Tiles e b t))

/-- the matches of `normal` (`RE`) and `greedy` (`(RE)+`) over one record are related as the
    matches of an expression and of its `+` are:
    * `covered` — no match of `RE` lies in a gap of `(RE)+`: every one is inside a match of `(RE)+`;
    * `tiled` — every match of `(RE)+` is tiled exactly by the matches of `RE` inside it. -/
structure GreedyTiledLists (normal greedy : List (Nat × Nat)) : Prop where
  covered : ∀ m ∈ normal, ∃ g ∈ greedy, g.1 ≤ m.1 ∧ m.2 ≤ g.2
  tiled : ∀ g ∈ greedy, Tiles g.1 g.2 (normal.filter fun m => decide (g.1 ≤ m.1 ∧ m.2 ≤ g.2))

/-- `GreedyTiledLists` for the two match lists of a bag over the record `s` -/
def GreedyTiled (bag : RegexBag) (s : Bytes) : Prop :=
  GreedyTiledLists (bag.normal s) (bag.greedy s)

/-- decides `GreedyTiledLists` -/
def greedyTiledListsB (normal greedy : List (Nat × Nat)) : Bool :=
  (normal.all fun m => greedy.any fun g => decide (g.1 ≤ m.1 ∧ m.2 ≤ g.2)) &&
    greedy.all fun g => decide (Tiles g.1 g.2 (normal.filter fun m => decide (g.1 ≤ m.1 ∧ m.2 ≤ g.2)))

theorem greedyTiledListsB_sound (normal greedy : List (Nat × Nat))
    (h : greedyTiledListsB normal greedy = true) : GreedyTiledLists normal greedy := by
  unfold greedyTiledListsB at h
  rw [Bool.and_eq_true] at h
  constructor
  · intro m hm
    have h1 := List.all_eq_true.mp h.1 m hm
    obtain ⟨g, hg, h2⟩ := List.any_eq_true.mp h1
    exact ⟨g, hg, of_decide_eq_true h2⟩
  · intro g hg
    exact of_decide_eq_true (List.all_eq_true.mp h.2 g hg)

/-- decides `GreedyTiled bag s` -/
def greedyTiledB (bag : RegexBag) (s : Bytes) : Bool :=
  greedyTiledListsB (bag.normal s) (bag.greedy s)

theorem greedyTiledB_sound (bag : RegexBag) (s : Bytes) (h : greedyTiledB bag s = true) :
    GreedyTiled bag s := greedyTiledListsB_sound _ _ h

/-! ## replacing along a tiling -/

/-- a tiled stretch `[s, e)` becomes one `R` per tile, and the replacement goes on at `e` -/
theorem replaceMatches_tiles (text R : Bytes) (rest : List (Nat × Nat)) :
    ∀ (T : List (Nat × Nat)) (s e : Nat), Tiles s e T →
      replaceMatches text R s (T ++ rest) = repeatBytes R T.length ++ replaceMatches text R e rest
  | [], s, e, h => by
    have h : s = e := h
    subst h
    simp [repeatBytes]
  | (s', e') :: T, s, e, h => by
    obtain ⟨h1, h2⟩ := h
    subst h1
    simp only [List.cons_append, replaceMatches, List.length_cons, repeatBytes]
    rw [replaceMatches_tiles text R rest T e' e h2, slice_self]
    simp [List.append_assoc]

/-- the text up to `s` is copied if no match starts before `s` -/
theorem replaceMatches_advance (text R : Bytes) (p s : Nat) (hps : p ≤ s) :
    ∀ (ms : List (Nat × Nat)), (∀ m ∈ ms, s ≤ m.1) →
      replaceMatches text R p ms = slice text p s ++ replaceMatches text R s ms
  | [], _ => by
    simp only [replaceMatches, slice]
    have h : text.drop s = (text.drop p).drop (s - p) := by
      rw [List.drop_drop]; congr 1; omega
    rw [h, List.take_append_drop]
  | (s1, e1) :: t, h => by
    have h1 : s ≤ s1 := h (s1, e1) (List.mem_cons_self ..)
    simp only [replaceMatches]
    rw [← slice_append_slice text hps h1]
    simp [List.append_assoc]

/-- a filter over ordered non-empty matches splits where its two parts are separated -/
theorem filter_split (n e : Nat) (p p1 p2 : Nat × Nat → Bool) :
    ∀ (N : List (Nat × Nat)) (lo : Nat), StrictMatches n lo N →
      (∀ m ∈ N, p m = (p1 m || p2 m)) → (∀ m ∈ N, p1 m = true → m.2 ≤ e) →
      (∀ m ∈ N, p2 m = true → e ≤ m.1) →
      N.filter p = N.filter p1 ++ N.filter p2
  | [], _, _, _, _, _ => rfl
  | (s0, e0) :: t, lo, hN, hp, h1, h2 => by
    obtain ⟨_, hlt, _, ht⟩ := hN
    have ih := filter_split n e p p1 p2 t e0 ht
      (fun m hm => hp m (List.mem_cons_of_mem _ hm))
      (fun m hm => h1 m (List.mem_cons_of_mem _ hm))
      (fun m hm => h2 m (List.mem_cons_of_mem _ hm))
    have hp0 := hp (s0, e0) (List.mem_cons_self ..)
    have h10 := h1 (s0, e0) (List.mem_cons_self ..)
    have h20 := h2 (s0, e0) (List.mem_cons_self ..)
    cases hc1 : p1 (s0, e0) with
    | true =>
      have hc2 : p2 (s0, e0) = false := by
        cases hc2 : p2 (s0, e0) with
        | false => rfl
        | true =>
          have := h10 hc1
          have := h20 hc2
          simp only at *
          omega
      have hc : p (s0, e0) = true := by rw [hp0, hc1]; rfl
      rw [List.filter_cons_of_pos hc, List.filter_cons_of_pos hc1,
        List.filter_cons_of_neg (by rw [hc2]; exact Bool.false_ne_true), ih]
      rfl
    | false =>
      cases hc2 : p2 (s0, e0) with
      | false =>
        have hc : p (s0, e0) = false := by rw [hp0, hc1, hc2]; rfl
        rw [List.filter_cons_of_neg (by rw [hc]; exact Bool.false_ne_true),
          List.filter_cons_of_neg (by rw [hc1]; exact Bool.false_ne_true),
          List.filter_cons_of_neg (by rw [hc2]; exact Bool.false_ne_true), ih]
      | true =>
        have hc : p (s0, e0) = true := by rw [hp0, hc1, hc2]; rfl
        have hes : e ≤ s0 := h20 hc2
        have hnil : t.filter p1 = [] := by
          rw [List.filter_eq_nil_iff]
          intro m hm hpm
          have hm1 := ht.mem m hm
          have := h1 m (List.mem_cons_of_mem _ hm) hpm
          omega
        rw [List.filter_cons_of_pos hc, List.filter_cons_of_neg (by rw [hc1]; exact Bool.false_ne_true),
          List.filter_cons_of_pos hc2, ih, hnil]
        rfl

theorem SortedMatches.mem {n : Nat} : ∀ {ms : List (Nat × Nat)} {lo : Nat},
    SortedMatches n lo ms → ∀ m ∈ ms, lo ≤ m.1 ∧ m.1 ≤ m.2 ∧ m.2 ≤ n
  | [], _, _, m, hm => by cases hm
  | (s, e) :: t, lo, h, m, hm => by
    rcases List.mem_cons.mp hm with rfl | hm
    · exact ⟨h.1, h.2.1, h.2.2.1⟩
    · have := SortedMatches.mem h.2.2.2 m hm
      have h1 := h.1
      have h2 := h.2.1
      exact ⟨by omega, this.2⟩

/-! ## the text of a range after `-g -r R` -/

/-- the text of a range after `-r R`, with `-g`, in the coordinates of the record: the fields are
    the gaps of `G` (the matches of `(RE)+`), what is replaced are the matches `N` (of `RE`)
    between the first and the last gap of the range; if `G` is tiled by `N`, a separator is
    rendered as one `R` per match of `RE` inside it -/
theorem replace_eq_pieceTextRe_greedy (line R : Bytes) (N : List (Nat × Nat)) (lo0 : Nat)
    (hN : StrictMatches line.length lo0 N) :
    ∀ (G : List (Nat × Nat)) (prev : Nat), SortedMatches line.length prev G → prev ≤ line.length →
      (∀ m ∈ N, prev ≤ m.1 → ∃ g ∈ G, g.1 ≤ m.1 ∧ m.2 ≤ g.2) →
      (∀ g ∈ G, Tiles g.1 g.2 (N.filter fun m => decide (g.1 ≤ m.1 ∧ m.2 ≤ g.2))) →
      ∀ (a b : Nat) (_ : a ≤ b) (hb : b < (rangesBetweenMatches line.length prev G).length),
        replaceMatches (line.take ((rangesBetweenMatches line.length prev G)[b]).stop) R
            ((rangesBetweenMatches line.length prev G)[a]'(by omega)).start
            (N.filter fun m => decide
              (((rangesBetweenMatches line.length prev G)[a]'(by omega)).start ≤ m.1 ∧
                m.2 ≤ ((rangesBetweenMatches line.length prev G)[b]).stop)) =
          pieceTextRe (sepRe (Option.some R)) (tokFrom line (countInside N) prev G) (a + 1) (b + 1) := by
  have hNmem := hN.mem
  intro G
  induction G with
  | nil =>
    intro prev _ _ hcov _ a b hab hb
    simp only [rangesBetweenMatches, List.length_singleton] at hb
    have hb0 : b = 0 := by omega
    have ha0 : a = 0 := by omega
    subst hb0; subst ha0
    rw [pieceTextRe_one_one]
    show replaceMatches (line.take line.length) R prev
      (N.filter fun m => decide (prev ≤ m.1 ∧ m.2 ≤ line.length)) = line.drop prev
    have hnil : (N.filter fun m => decide (prev ≤ m.1 ∧ m.2 ≤ line.length)) = [] := by
      rw [List.filter_eq_nil_iff]
      intro m hm hpm
      simp only [decide_eq_true_eq] at hpm
      obtain ⟨g, hg, _⟩ := hcov m hm hpm.1
      cases hg
    rw [hnil]
    simp only [replaceMatches, List.take_length]
  | cons g G' ih =>
    obtain ⟨s, e⟩ := g
    intro prev hG hp hcov htile a b hab hb
    obtain ⟨h1, h2, h3, h4⟩ := hG
    have hGmem := SortedMatches.mem h4
    have hin := rangesBetweenMatches_in line.length G' e h4 h3
    -- the hypotheses for the tail
    have hcov' : ∀ m ∈ N, e ≤ m.1 → ∃ g ∈ G', g.1 ≤ m.1 ∧ m.2 ≤ g.2 := by
      intro m hm hem
      obtain ⟨g, hg, hg1, hg2⟩ := hcov m hm (by omega)
      rcases List.mem_cons.mp hg with rfl | hg
      · have := hNmem m hm
        simp only at hg1 hg2
        omega
      · exact ⟨g, hg, hg1, hg2⟩
    have htile' : ∀ g ∈ G', Tiles g.1 g.2 (N.filter fun m => decide (g.1 ≤ m.1 ∧ m.2 ≤ g.2)) :=
      fun g hg => htile g (List.mem_cons_of_mem _ hg)
    cases b with
    | zero =>
      have ha0 : a = 0 := by omega
      subst ha0
      rw [pieceTextRe_one_one]
      show replaceMatches (line.take s) R prev
        (N.filter fun m => decide (prev ≤ m.1 ∧ m.2 ≤ s)) = slice line prev s
      have hnil : (N.filter fun m => decide (prev ≤ m.1 ∧ m.2 ≤ s)) = [] := by
        rw [List.filter_eq_nil_iff]
        intro m hm hpm
        simp only [decide_eq_true_eq] at hpm
        obtain ⟨g, hg, hg1, hg2⟩ := hcov m hm hpm.1
        have hm' := hNmem m hm
        rcases List.mem_cons.mp hg with rfl | hg
        · simp only at hg1 hg2
          omega
        · have := hGmem g hg
          omega
      rw [hnil]
      simp only [replaceMatches]
      exact take_drop_eq_slice line prev s
    | succ b' =>
      have hb' : b' < (rangesBetweenMatches line.length e G').length := by
        simpa [rangesBetweenMatches] using hb
      cases a with
      | zero =>
        have hge := hin.getElem 0 b' (Nat.zero_le _) hb'
        have hhead := rangesBetweenMatches_head line.length G' e (by omega)
        have ihh := ih e h4 h3 hcov' htile' 0 b' (Nat.zero_le _) hb'
        simp only [hhead] at ihh hge
        show replaceMatches (line.take ((rangesBetweenMatches line.length e G')[b']).stop) R prev
          (N.filter fun m => decide
            (prev ≤ m.1 ∧ m.2 ≤ ((rangesBetweenMatches line.length e G')[b']).stop)) = _
        generalize ((rangesBetweenMatches line.length e G')[b']).stop = B at ihh hge ⊢
        have hsplit : (N.filter fun m => decide (prev ≤ m.1 ∧ m.2 ≤ B)) =
            (N.filter fun m => decide (s ≤ m.1 ∧ m.2 ≤ e)) ++
              (N.filter fun m => decide (e ≤ m.1 ∧ m.2 ≤ B)) := by
          apply filter_split line.length e _ _ _ N lo0 hN
          · intro m hm
            have hm' := hNmem m hm
            rw [Bool.eq_iff_iff]
            simp only [decide_eq_true_eq, Bool.or_eq_true]
            constructor
            · intro hpm
              obtain ⟨g, hg, hg1, hg2⟩ := hcov m hm hpm.1
              rcases List.mem_cons.mp hg with rfl | hg
              · exact Or.inl ⟨hg1, hg2⟩
              · have := hGmem g hg
                exact Or.inr ⟨by omega, hpm.2⟩
            · rintro (hpm | hpm)
              · exact ⟨by omega, by omega⟩
              · exact ⟨by omega, hpm.2⟩
          · intro m _ hpm
            simp only [decide_eq_true_eq] at hpm
            exact hpm.2
          · intro m _ hpm
            simp only [decide_eq_true_eq] at hpm
            exact hpm.1
        have ht := htile (s, e) (List.mem_cons_self ..)
        simp only at ht
        rw [hsplit]
        generalize hT : (N.filter fun m => decide (s ≤ m.1 ∧ m.2 ≤ e)) = T at ht
        have hTs : ∀ m ∈ T ++ (N.filter fun m => decide (e ≤ m.1 ∧ m.2 ≤ B)), s ≤ m.1 := by
          intro m hm
          rcases List.mem_append.mp hm with hm | hm
          · rw [← hT] at hm
            have := (List.mem_filter.mp hm).2
            simp only [decide_eq_true_eq] at this
            exact this.1
          · have := (List.mem_filter.mp hm).2
            simp only [decide_eq_true_eq] at this
            omega
        rw [replaceMatches_advance _ R prev s h1 _ hTs, replaceMatches_tiles _ R _ T s e ht, ihh,
          slice_take _ _ _ _ (by omega)]
        show _ = pieceTextRe _ ⟨slice line prev s,
          (slice line s e, countInside N s e, (tokFrom line (countInside N) e G').first) ::
            (tokFrom line (countInside N) e G').rest⟩ 1 (b' + 2)
        rw [pieceTextRe_one_succ]
        have hcnt : countInside N s e = T.length := by rw [← hT]; rfl
        simp [sepRe, hcnt, List.append_assoc]
      | succ a' =>
        have ihh := ih e h4 h3 hcov' htile' a' b' (by omega) hb'
        show replaceMatches (line.take ((rangesBetweenMatches line.length e G')[b']).stop) R
          ((rangesBetweenMatches line.length e G')[a']).start
          (N.filter fun m => decide
            (((rangesBetweenMatches line.length e G')[a']).start ≤ m.1 ∧
              m.2 ≤ ((rangesBetweenMatches line.length e G')[b']).stop)) = _
        rw [ihh]
        show _ = pieceTextRe _ ⟨slice line prev s,
          (slice line s e, countInside N s e, (tokFrom line (countInside N) e G').first) ::
            (tokFrom line (countInside N) e G').rest⟩ (a' + 2) (b' + 2)
        rw [pieceTextRe_succ_succ]

/-! ## the theorem -/

/-- **C16, `-g -r R` (no `-p`).**  The fields are the gaps of `(RE)+`; every printed range is
    matched again — with `RE`, not `(RE)+` — and every match is replaced by the literal bytes `R`.
    Under the hypotheses of `regexCut_replace_eq_spec` (non-empty matches of `RE`, `SliceStable`)
    and `GreedyTiled` (the matches of `(RE)+` over the record after `-t` are tiled exactly by the
    matches of `RE`, and no match of `RE` lies outside them), this is the specification: a
    separator is rendered as `R` once per match of `RE` it is made of; with `-j` the joiner is `R`
    too; any of `-t -s -m`, fallbacks, fillers. -/
theorem regexCut_replace_greedy_eq_spec (opt : Opt) (bag : RegexBag) (line : Bytes) (R : Bytes)
    (hre : opt.regexBag = Option.some bag) (hok : bag.OK)
    (hr : opt.replaceDelimiter = Option.some R) (hp : opt.compressDelimiter = false)
    (hg : opt.greedyDelimiter = true)
    (hjson : opt.json = false) (hty : opt.boundsType = .fields ∨ opt.boundsType = .lines)
    (hz : AllNonzero opt.bounds.list) (hL : LastMarked opt.bounds.list)
    (hstrict : StrictMatches (trimmedRe opt bag line).length 0 (bag.normal (trimmedRe opt bag line)))
    (hstable : SliceStable bag (trimmedRe opt bag line))
    (htiled : GreedyTiled bag (trimmedRe opt bag line)) :
    (cutStrCore line opt [opt.eol.byte]).1 = specRecordRe (cfgOf opt) bag line := by
  apply cutStr_regex_eq_spec_of_piece opt bag line hre hok hp hjson hty hz hL
  revert hstrict hstable htiled
  suffices key : ∀ line' : Bytes, StrictMatches line'.length 0 (bag.normal line') →
      SliceStable bag line' → GreedyTiled bag line' → line' ≠ [] →
      ∀ (a b : Nat) (_ : a ≤ b) (hb : b < (fieldsRe opt bag line').length),
        maybeReplaceDelimiter
            (slice line' ((fieldsRe opt bag line')[a]'(by omega)).start
              ((fieldsRe opt bag line')[b]).stop) opt false =
          pieceTextRe (sepRe opt.replaceDelimiter)
            (tokenizeRe bag opt.greedyDelimiter line') (a + 1) (b + 1) from
    key (trimmedRe opt bag line)
  intro line' hstrict hstable htiled
  have hf : fieldsRe opt bag line' = rangesBetweenMatches line'.length 0 (bag.greedy line') := by
    unfold fieldsRe; rw [hg]; rfl
  have ht : tokenizeRe bag opt.greedyDelimiter line' =
      tokFrom line' (countInside (bag.normal line')) 0 (bag.greedy line') := by
    rw [hg]; rfl
  rw [ht, hr]
  intro _ a b hab hb
  rw [List.getElem_of_eq hf (by omega : a < _), List.getElem_of_eq hf hb]
  rw [hf] at hb
  have hnc : opt.boundsType ≠ .characters := by
    rcases hty with hty | hty <;> rw [hty] <;> intro h <;> cases h
  have hmrd : ∀ text, maybeReplaceDelimiter text opt false =
      replaceMatches text R 0 (bag.normal text) := by
    intro text
    unfold maybeReplaceDelimiter
    rw [if_neg hnc, hr, hre]
    rfl
  have hsorted := (hok line').2
  have hin := rangesBetweenMatches_in line'.length (bag.greedy line') 0 hsorted (Nat.zero_le _)
  have hA := (rangesBetweenMatches_boundaries line'.length (bag.greedy line') 0 a (by omega)).1
  have hB := (rangesBetweenMatches_boundaries line'.length (bag.greedy line') 0 b hb).2
  have hAB := (hin.getElem a b hab hb).2.1
  rw [hmrd, hstable _ _
    (hA.imp id (fun ⟨m, hm, h⟩ => ⟨m, List.mem_append_right _ hm, h⟩))
    (hB.imp id (fun ⟨m, hm, h⟩ => ⟨m, List.mem_append_right _ hm, h⟩)) hAB]
  unfold insideShift
  rw [replaceMatches_slice _ _ _ _ _ 0
    (by
      intro m hm
      have h1 := (List.mem_filter.mp hm).2
      have h2 := hstrict.mem m (List.mem_filter.mp hm).1
      simp only [decide_eq_true_eq] at h1
      omega),
    Nat.zero_add]
  exact replace_eq_pieceTextRe_greedy line' R _ 0 hstrict _ 0 hsorted (Nat.zero_le _)
    (fun m hm _ => htiled.covered m hm) htiled.tiled a b hab hb

/-! ## non-vacuity: `-e '-' -g -r '::' -f 1:3` on `a--b-c`

All the hypotheses of the theorem hold for the executable matcher of `Tuc.Model.Regex` on a record
with a run of two matches, and the conclusion is the expected text `a::::b::c`. -/

/-- `a--b-c` -/
def gLine : Bytes := [97, 45, 45, 98, 45, 99]

/-- `-e '-' -g -r '::' -f 1:3` -/
def gOpt : Opt :=
  { delimiter := [], bounds := ⟨[.bound { l := .some 1, r := .some 3, isLast := true }], .some 3⟩,
    greedyDelimiter := true, replaceDelimiter := Option.some [58, 58],
    regexBag := Option.some (Re.bag (.byte 45)) }

#guard reprStr (Re.parse "-".toList) == reprStr (Option.some (Re.byte 45))

section
local macro "eval_re" : tactic => `(tactic|
  simp [gLine, Re.bag, Re.findIter, Re.findIterAux, Re.matchLen, Re.run])

theorem gLine_normal : (Re.bag (.byte 45)).normal gLine = [(1, 2), (2, 3), (4, 5)] := by eval_re

theorem gLine_greedy : (Re.bag (.byte 45)).greedy gLine = [(1, 3), (4, 5)] := by eval_re

/-- the run `--` is tiled by two matches of `-`, the run `-` by one; no other match -/
theorem gLine_tiled : GreedyTiled (Re.bag (.byte 45)) gLine := by
  apply greedyTiledB_sound
  unfold greedyTiledB
  rw [gLine_normal, gLine_greedy]
  decide

theorem gLine_stable : SliceStable (Re.bag (.byte 45)) gLine := by
  apply sliceStableB_sound
  unfold sliceStableB
  rw [gLine_normal, gLine_greedy]
  simp [gLine, slice, insideShift, Re.bag, Re.findIter, Re.findIterAux, Re.matchLen, Re.run]

/-- the hypotheses of `regexCut_replace_greedy_eq_spec` are satisfiable: here they all hold -/
theorem gExample_eq_spec :
    (cutStrCore gLine gOpt [10]).1 = specRecordRe (cfgOf gOpt) (Re.bag (.byte 45)) gLine :=
  regexCut_replace_greedy_eq_spec gOpt (Re.bag (.byte 45)) gLine [58, 58] rfl (regexBag_ok _) rfl rfl
    rfl rfl (Or.inl rfl)
    (by
      intro b hb
      simp only [gOpt, List.mem_singleton, BoF.bound.injEq] at hb
      subst hb
      exact ⟨by simp [Side.Nonzero], by simp [Side.Nonzero]⟩)
    (by simp [gOpt, LastMarked, countBounds])
    (regexMatcher_contract _ _) gLine_stable gLine_tiled

/-- … and both sides are `a::::b::c` + eol: the separator `--` counts for two matches -/
example : (cutStrCore gLine gOpt [10]).1 =
    Run.ok [97, 58, 58, 58, 58, 98, 58, 58, 99, 10] := by
  simp [cutStrCore, gOpt, gLine, Re.bag, Re.findIter, Re.findIterAux, Re.matchLen, Re.run,
    fillWithFieldsLocationsUsingRegex, rangesBetweenMatches, emitRecord, outputLoop,
    outputBof, UserBounds.tryIntoRange, rangeStart, rangeEnd, writeMaybeAsJson,
    maybeReplaceDelimiter, replaceMatches, slice, Run.seq, Run.ok, Run.empty]
end

/-! ## an inductive criterion for `GreedyTiledLists` -/

/-- `N` is the concatenation, in order, of non-empty tilings of the matches of `G` -/
def TiledBy : List (Nat × Nat) → List (Nat × Nat) → Prop
  | [], N => N = []
  | (s, e) :: G, N => ∃ T N', N = T ++ N' ∧ T ≠ [] ∧ Tiles s e T ∧ TiledBy G N'

theorem Tiles.le : ∀ {T : List (Nat × Nat)} {a b : Nat}, Tiles a b T → (∀ m ∈ T, m.1 ≤ m.2) → a ≤ b
  | [], a, b, h, _ => by have h : a = b := h; omega
  | (s, e) :: T, a, b, h, hT => by
    obtain ⟨h1, h2⟩ := h
    have := Tiles.le h2 (fun m hm => hT m (List.mem_cons_of_mem _ hm))
    have := hT (s, e) (List.mem_cons_self ..)
    simp only at this
    omega

theorem Tiles.mem : ∀ {T : List (Nat × Nat)} {a b : Nat}, Tiles a b T → (∀ m ∈ T, m.1 ≤ m.2) →
    ∀ m ∈ T, a ≤ m.1 ∧ m.2 ≤ b
  | [], _, _, _, _, m, hm => by cases hm
  | (s, e) :: T, a, b, h, hT, m, hm => by
    obtain ⟨h1, h2⟩ := h
    have hT' : ∀ m ∈ T, m.1 ≤ m.2 := fun m hm => hT m (List.mem_cons_of_mem _ hm)
    have hle := Tiles.le h2 hT'
    have hse := hT (s, e) (List.mem_cons_self ..)
    simp only at hse
    rcases List.mem_cons.mp hm with rfl | hm
    · simp only; omega
    · have := Tiles.mem h2 hT' m hm
      omega

/-- what follows a non-empty tiling of `[s, e)` starts at or after `e` -/
theorem StrictMatches.after_tiles {n : Nat} (N' : List (Nat × Nat)) :
    ∀ (T : List (Nat × Nat)) (lo s e : Nat), T ≠ [] → Tiles s e T → StrictMatches n lo (T ++ N') →
      StrictMatches n e N'
  | [], _, _, _, h, _, _ => absurd rfl h
  | [(s1, e1)], lo, s, e, _, ht, hN => by
    have h2 : e1 = e := ht.2
    subst h2
    exact hN.2.2.2
  | (s1, e1) :: m2 :: T, lo, s, e, _, ht, hN =>
    StrictMatches.after_tiles N' (m2 :: T) e1 e1 e (List.cons_ne_nil _ _) ht.2 hN.2.2.2

/-- **the criterion**: ordered matches related by `TiledBy` are `GreedyTiledLists` -/
theorem TiledBy.greedyTiledLists {n : Nat} : ∀ (G N : List (Nat × Nat)) (lo : Nat),
    TiledBy G N → StrictMatches n lo N → SortedMatches n lo G → GreedyTiledLists N G
  | [], N, _, h, _, _ => by
    have h : N = [] := h
    subst h
    exact ⟨fun m hm => (by cases hm), fun g hg => (by cases hg)⟩
  | (s, e) :: G, N, lo, h, hN, hG => by
    obtain ⟨T, N', rfl, hne, ht, hrest⟩ := h
    have hN' := StrictMatches.after_tiles N' T lo s e hne ht hN
    have ih := TiledBy.greedyTiledLists G N' e hrest hN' hG.2.2.2
    have hmemN := hN.mem
    have hmemN' := hN'.mem
    have hmemG := SortedMatches.mem hG.2.2.2
    have hT : ∀ m ∈ T, m.1 ≤ m.2 := fun m hm =>
      Nat.le_of_lt (hmemN m (List.mem_append_left _ hm)).2.1
    have hTin := Tiles.mem ht hT
    constructor
    · intro m hm
      rcases List.mem_append.mp hm with hm | hm
      · exact ⟨(s, e), List.mem_cons_self .., hTin m hm⟩
      · obtain ⟨g, hg, h⟩ := ih.covered m hm
        exact ⟨g, List.mem_cons_of_mem _ hg, h⟩
    · intro g hg
      rw [List.filter_append]
      rcases List.mem_cons.mp hg with rfl | hg
      · have h1 : (T.filter fun m => decide (s ≤ m.1 ∧ m.2 ≤ e)) = T := by
          rw [List.filter_eq_self]
          intro m hm
          exact decide_eq_true (hTin m hm)
        have h2 : (N'.filter fun m => decide (s ≤ m.1 ∧ m.2 ≤ e)) = [] := by
          rw [List.filter_eq_nil_iff]
          intro m hm hpm
          simp only [decide_eq_true_eq] at hpm
          have := hmemN' m hm
          omega
        simp only [h1, h2, List.append_nil]
        exact ht
      · have h1 : (T.filter fun m => decide (g.1 ≤ m.1 ∧ m.2 ≤ g.2)) = [] := by
          rw [List.filter_eq_nil_iff]
          intro m hm hpm
          simp only [decide_eq_true_eq] at hpm
          have := hTin m hm
          have := hmemN m (List.mem_append_left _ hm)
          have := hmemG g hg
          omega
        rw [h1, List.nil_append]
        exact ih.tiled g hg

/-! ## the executable matcher on one-byte expressions (`-`, `[-,]`, …) is `GreedyTiled`

For an expression that matches exactly one byte out of a set — a literal ASCII character, a class,
an alternation of those (what `Re.parse` returns for `[-,]`) — the matches of `(RE)+` are the
maximal runs of such bytes and the matches of `RE` the bytes themselves: `GreedyTiled` holds on
every record. -/


/-- `r` matches exactly one byte, those satisfying `p` -/
structure OneByte (r : Re) (p : UInt8 → Bool) : Prop where
  cons : ∀ f x t k, Re.run f r (x :: t) k = if p x = true then k t else none
  nil : ∀ f k, Re.run f r [] k = none

theorem OneByte.byte (b : UInt8) : OneByte (.byte b) (fun x => decide (x = b)) := by
  constructor
  · intro f x t k; simp [Re.run]
  · intro f k; simp [Re.run]

theorem OneByte.cls (bs : List UInt8) : OneByte (.cls bs) (fun x => bs.contains x) := by
  constructor
  · intro f x t k; simp [Re.run]
  · intro f k; simp [Re.run]

theorem OneByte.alt {a b : Re} {p q : UInt8 → Bool} (ha : OneByte a p) (hb : OneByte b q) :
    OneByte (.alt a b) (fun x => p x || q x) := by
  constructor
  · intro f x t k
    rw [Re.run, ha.cons, hb.cons]
    cases p x <;> cases q x <;> cases k t <;> simp
  · intro f k
    rw [Re.run, ha.nil, hb.nil]


/-- the matches of a one-byte expression: every byte satisfying `p` -/
def singles (p : UInt8 → Bool) : Nat → Bytes → List (Nat × Nat)
  | _, [] => []
  | pos, x :: t => if p x = true then (pos, pos + 1) :: singles p (pos + 1) t else singles p (pos + 1) t

theorem OneByte.matchLen_cons {r : Re} {p : UInt8 → Bool} (h : OneByte r p) (x : UInt8) (t : Bytes) :
    r.matchLen (x :: t) = if p x = true then Option.some 1 else none := by
  unfold Re.matchLen
  rw [h.cons]
  cases p x <;> simp

theorem OneByte.findIterAux_eq {r : Re} {p : UInt8 → Bool} (h : OneByte r p) :
    ∀ (s : Bytes) (pos : Nat), Re.findIterAux r 0 pos s = singles p pos s
  | [], _ => rfl
  | x :: t, pos => by
    simp only [Re.findIterAux, singles, h.matchLen_cons]
    cases hp : p x
    · simp [h.findIterAux_eq t (pos + 1)]
    · simp [h.findIterAux_eq t (pos + 1)]

/-- `(r)+` for a one-byte `r`: the longest non-empty prefix of bytes satisfying `p` -/
theorem OneByte.run_plus {r : Re} {p : UInt8 → Bool} (h : OneByte r p) :
    ∀ (s : Bytes) (f : Nat), s.length < f →
      Re.run f (.plus r) s Option.some =
        match s with
        | [] => none
        | x :: t => if p x = true then Option.some (t.dropWhile p) else none
  | [], f, hf => by
    obtain ⟨f', rfl⟩ : ∃ f', f = f' + 1 := ⟨f - 1, by omega⟩
    rw [Re.run, h.nil]
  | x :: t, f, hf => by
    obtain ⟨f', rfl⟩ : ∃ f', f = f' + 1 := ⟨f - 1, by simp at hf; omega⟩
    have hf' : t.length < f' := by simp at hf; omega
    rw [Re.run, h.cons]
    have ih := h.run_plus t f' hf'
    cases hp : p x
    · simp [hp]
    · simp only [if_true, List.length_cons, Nat.lt_succ_self]
      rw [ih]
      cases t with
      | nil => simp [hp]
      | cons y t' =>
        cases hy : p y <;> simp [List.dropWhile, hy, hp]

theorem OneByte.matchLen_plus {r : Re} {p : UInt8 → Bool} (h : OneByte r p) (x : UInt8) (t : Bytes) :
    (Re.plus r).matchLen (x :: t) =
      if p x = true then Option.some ((t.takeWhile p).length + 1) else none := by
  unfold Re.matchLen
  rw [h.run_plus (x :: t) _ (Nat.lt_succ_self _)]
  have := congrArg List.length (List.takeWhile_append_dropWhile (p := p) (l := t))
  simp only [List.length_append] at this
  cases hp : p x
  · simp [hp]
  · simp only [hp, if_true, Option.map_some, List.length_cons, Option.some.injEq]
    omega

/-- skipping `k` bytes -/
theorem Re.findIterAux_skip (r : Re) : ∀ (k : Nat) (s : Bytes) (pos : Nat),
    Re.findIterAux r k pos s = Re.findIterAux r 0 (pos + k) (s.drop k)
  | 0, s, pos => rfl
  | k + 1, [], pos => by simp [Re.findIterAux]
  | k + 1, x :: t, pos => by
    simp only [Re.findIterAux, List.drop_succ_cons]
    rw [Re.findIterAux_skip r k t (pos + 1)]
    congr 1
    omega


theorem singles_append (p : UInt8 → Bool) : ∀ (u v : Bytes) (pos : Nat),
    singles p pos (u ++ v) = singles p pos u ++ singles p (pos + u.length) v
  | [], v, pos => by simp [singles]
  | x :: u, v, pos => by
    have e : pos + 1 + u.length = pos + (u.length + 1) := by omega
    cases hp : p x <;> simp [singles, hp, singles_append p u v (pos + 1), e]

theorem singles_tiles (p : UInt8 → Bool) : ∀ (u : Bytes) (pos : Nat), (∀ x ∈ u, p x = true) →
    Tiles pos (pos + u.length) (singles p pos u)
  | [], pos, _ => by simp [singles, Tiles]
  | x :: u, pos, h => by
    have hx := h x (List.mem_cons_self ..)
    have ih := singles_tiles p u (pos + 1) (fun y hy => h y (List.mem_cons_of_mem _ hy))
    have e : pos + 1 + u.length = pos + (u.length + 1) := by omega
    rw [e] at ih
    simp only [singles, hx, if_true, List.length_cons]
    exact ⟨rfl, ih⟩

theorem OneByte.tiledBy {r : Re} {p : UInt8 → Bool} (h : OneByte r p) :
    ∀ (n : Nat) (s : Bytes) (pos : Nat), s.length ≤ n →
      TiledBy (Re.findIterAux (.plus r) 0 pos s) (singles p pos s)
  | _, [], _, _ => rfl
  | 0, x :: t, _, hn => by simp at hn
  | n + 1, x :: t, pos, hn => by
    have hn' : t.length ≤ n := by simpa using hn
    simp only [Re.findIterAux, h.matchLen_plus]
    cases hp : p x
    · simp only [singles, hp, Bool.false_eq_true, if_false]
      exact h.tiledBy n t (pos + 1) hn'
    · simp only [singles, hp, if_true]
      rw [Re.findIterAux_skip]
      have hsplit := List.takeWhile_append_dropWhile (p := p) (l := t)
      have hdrop : t.drop (t.takeWhile p).length = t.dropWhile p := by
        conv => lhs; arg 2; rw [← hsplit]
        exact List.drop_left
      have hlen : (t.dropWhile p).length ≤ n := by
        have := congrArg List.length hsplit
        simp only [List.length_append] at this
        omega
      rw [hdrop]
      refine ⟨(pos, pos + 1) :: singles p (pos + 1) (t.takeWhile p),
        singles p (pos + 1 + (t.takeWhile p).length) (t.dropWhile p), ?_, List.cons_ne_nil _ _, ?_,
        h.tiledBy n _ _ hlen⟩
      · conv => lhs; rw [← hsplit, singles_append]
        rfl
      · refine ⟨rfl, ?_⟩
        have := singles_tiles p (t.takeWhile p) (pos + 1) (fun x hx => List.all_eq_true.mp List.all_takeWhile x hx)
        have e : pos + 1 + (t.takeWhile p).length = pos + (t.takeWhile p).length + 1 := by omega
        rw [e] at this
        exact this

/-- **the bag of a one-byte expression is `GreedyTiled` on every record** -/
theorem OneByte.greedyTiled {r : Re} {p : UInt8 → Bool} (h : OneByte r p) (s : Bytes) :
    GreedyTiled (Re.bag r) s := by
  have hN := Re.findIter_ok r s
  have hG := (Re.findIter_ok (.plus r) s).sorted
  have ht := h.tiledBy s.length s 0 (Nat.le_refl _)
  rw [← h.findIterAux_eq] at ht
  exact TiledBy.greedyTiledLists _ _ 0 ht hN hG

/-! ## … and `SliceStable`, hence `-g -r R` without any hypothesis on the matcher -/

theorem singles_mem (p : UInt8 → Bool) : ∀ (u : Bytes) (pos : Nat), ∀ m ∈ singles p pos u,
    pos ≤ m.1 ∧ m.2 = m.1 + 1 ∧ m.2 ≤ pos + u.length
  | [], _, m, hm => by cases hm
  | x :: u, pos, m, hm => by
    have ih := singles_mem p u (pos + 1) m
    simp only [List.length_cons]
    cases hp : p x
    · simp only [singles, hp, Bool.false_eq_true, if_false] at hm
      have := ih hm
      omega
    · simp only [singles, hp, if_true] at hm
      rcases List.mem_cons.mp hm with rfl | hm
      · exact ⟨Nat.le_refl _, rfl, by show pos + 1 ≤ pos + (u.length + 1); omega⟩
      · have := ih hm
        omega

theorem singles_shift (p : UInt8 → Bool) (a : Nat) : ∀ (u : Bytes) (pos : Nat),
    (singles p (pos + a) u).map (fun m => (m.1 - a, m.2 - a)) = singles p pos u
  | [], _ => rfl
  | x :: u, pos => by
    have ih := singles_shift p a u (pos + 1)
    have e : pos + 1 + a = pos + a + 1 := by omega
    rw [e] at ih
    have e1 : pos + a - a = pos := by omega
    have e2 : pos + a + 1 - a = pos + 1 := by omega
    cases hp : p x <;> simp [singles, hp, ih, e1, e2]

/-- the one-byte matches of the middle of `l1 ++ l2 ++ l3` are those of `l2`, shifted -/
theorem singles_middle (p : UInt8 → Bool) (l1 l2 l3 : Bytes) :
    insideShift (singles p 0 (l1 ++ (l2 ++ l3))) l1.length (l1.length + l2.length) =
      singles p 0 l2 := by
  unfold insideShift
  rw [singles_append, singles_append, List.filter_append, List.filter_append]
  have h1 : ((singles p 0 l1).filter fun m =>
      decide (l1.length ≤ m.1 ∧ m.2 ≤ l1.length + l2.length)) = [] := by
    rw [List.filter_eq_nil_iff]
    intro m hm hpm
    simp only [decide_eq_true_eq] at hpm
    have := singles_mem p l1 0 m hm
    omega
  have h2 : ((singles p (0 + l1.length) l2).filter fun m =>
      decide (l1.length ≤ m.1 ∧ m.2 ≤ l1.length + l2.length)) = singles p (0 + l1.length) l2 := by
    rw [List.filter_eq_self]
    intro m hm
    have := singles_mem p l2 _ m hm
    exact decide_eq_true (by omega)
  have h3 : ((singles p (0 + l1.length + l2.length) l3).filter fun m =>
      decide (l1.length ≤ m.1 ∧ m.2 ≤ l1.length + l2.length)) = [] := by
    rw [List.filter_eq_nil_iff]
    intro m hm hpm
    simp only [decide_eq_true_eq] at hpm
    have := singles_mem p l3 _ m hm
    omega
  rw [h1, h2, h3, List.append_nil, List.nil_append]
  exact singles_shift p l1.length l2 0

theorem singles_slice (p : UInt8 → Bool) (line : Bytes) (a b : Nat) (hab : a ≤ b)
    (hb : b ≤ line.length) :
    singles p 0 (slice line a b) = insideShift (singles p 0 line) a b := by
  have e : line.take a ++ (slice line a b ++ line.drop b) = line := by
    have h1 : slice line a b ++ line.drop b = line.drop a := by
      have : line.drop b = (line.drop a).drop (b - a) := by
        rw [List.drop_drop]; congr 1; omega
      unfold slice
      rw [this, List.take_append_drop]
    rw [h1, List.take_append_drop]
  have la : (line.take a).length = a := by rw [List.length_take]; omega
  have lb : (slice line a b).length = b - a := by rw [slice_length]; omega
  have := singles_middle p (line.take a) (slice line a b) (line.drop b)
  rw [e, la, lb] at this
  have e2 : a + (b - a) = b := by omega
  rw [e2] at this
  exact this.symm

/-- **the bag of a one-byte expression is `SliceStable` on every record** (for the Lean matcher
    this is a theorem; for the real engine it remains the tested hypothesis) -/
theorem OneByte.sliceStable {r : Re} {p : UInt8 → Bool} (h : OneByte r p) (line : Bytes) :
    SliceStable (Re.bag r) line := by
  intro a b _ hb hab
  have hble : b ≤ line.length := by
    rcases hb with rfl | ⟨m, hm, rfl⟩
    · exact Nat.le_refl _
    · rcases List.mem_append.mp hm with hm | hm
      · have := (Re.findIter_ok r line).mem m hm
        omega
      · have := (Re.findIter_ok (.plus r) line).mem m hm
        omega
  show Re.findIterAux r 0 0 (slice line a b) = insideShift (Re.findIterAux r 0 0 line) a b
  rw [h.findIterAux_eq, h.findIterAux_eq]
  exact singles_slice p line a b hab hble

/-- **C16, `-g -r R`, one-byte expressions, no hypothesis left on the matcher**: with the
    executable matcher of `Tuc.Model.Regex` and an expression matching one byte out of a set
    (`-e '-'`, `-e '[-,]'`, `-e ' |\t'` …), `cut_str` with `-g -r R` is the specification — on
    every record, with any of `-t -s -m -j`, fallbacks, fillers. -/
theorem regexCut_replace_greedy_oneByte (opt : Opt) (r : Re) (p : UInt8 → Bool) (h1 : OneByte r p)
    (line : Bytes) (R : Bytes)
    (hre : opt.regexBag = Option.some (Re.bag r))
    (hr : opt.replaceDelimiter = Option.some R) (hp : opt.compressDelimiter = false)
    (hg : opt.greedyDelimiter = true)
    (hjson : opt.json = false) (hty : opt.boundsType = .fields ∨ opt.boundsType = .lines)
    (hz : AllNonzero opt.bounds.list) (hL : LastMarked opt.bounds.list) :
    (cutStrCore line opt [opt.eol.byte]).1 = specRecordRe (cfgOf opt) (Re.bag r) line :=
  regexCut_replace_greedy_eq_spec opt (Re.bag r) line R hre (regexBag_ok r) hr hp hg hjson hty hz hL
    (regexMatcher_contract r _) (h1.sliceStable _) (h1.greedyTiled _)

/-- what `Re.parse` returns for `[-,]` is a one-byte expression -/
theorem reDashComma_oneByte :
    OneByte reDashComma (fun x => decide (x = 45) || decide (x = 44)) :=
  (OneByte.byte 45).alt (OneByte.byte 44)

/-- the example of `Tuc.Props.C16` (`-e '[-,]' -g -r R -f 2:3`) on EVERY record and for every
    replacement `R` -/
theorem exOpt_greedy_replace_eq_spec (line R : Bytes) :
    (cutStrCore line (exOptRe true (Option.some R)) [10]).1 =
      specRecordRe (cfgOf (exOptRe true (Option.some R))) (Re.bag reDashComma) line :=
  regexCut_replace_greedy_oneByte (exOptRe true (Option.some R)) reDashComma _ reDashComma_oneByte
    line R rfl rfl rfl rfl rfl (Or.inl rfl)
    (by
      intro b hb
      simp only [exOptRe, List.mem_singleton, BoF.bound.injEq] at hb
      subst hb
      exact ⟨by simp [Side.Nonzero], by simp [Side.Nonzero]⟩)
    (by simp [exOptRe, LastMarked, countBounds])

/-! ## `GreedyTiled`: tested beyond one-byte expressions, and necessary

`greedyTiledB` decides the hypothesis for one matcher and one record.  The Lean matcher passes on
every record tried also for expressions whose matches have different lengths (alternations whose
branches are prefixes of one another, a `+` inside): with leftmost-first semantics `(RE)+` repeats
the match `RE` alone would find. -/

#guard (allLines [97, 45, 44] 5).all (greedyTiledB (bagOfString "[-,]"))
#guard (allLines [97, 98, 99] 5).all (greedyTiledB (bagOfString "ab|a"))
#guard (allLines [97, 98, 99] 5).all (greedyTiledB (bagOfString "a|ab"))
#guard (allLines [97, 98] 6).all (greedyTiledB (bagOfString "aa|a"))
#guard (allLines [97, 98, 99] 5).all (greedyTiledB (bagOfString "a(b|bc)|c"))
#guard (allLines [97, 98, 99] 6).all (greedyTiledB (bagOfString "a+b|a"))
#guard (allLines [97, 98, 99] 6).all (greedyTiledB (bagOfString "(a|ab)(c|bc)|b"))

/-- a bag that is NOT an `(RE, (RE)+)` pair: `normal` is `--`, `greedy` is `-+`.  Both matchers
    honour the contract of `find_iter` and are slice-stable, but on `a-b` the run `-` is not tiled
    by matches of `--` -/
def oddBag : RegexBag :=
  { normal := (Re.seq (.byte 45) (.byte 45)).findIter, greedy := (Re.plus (.byte 45)).findIter }

/-- `-g -r '::' -f 1:` with that bag -/
def oddOpt : Opt :=
  { gOpt with regexBag := Option.some oddBag,
              bounds := ⟨[.bound { l := .some 1, r := .cont, isLast := true }], .cont⟩ }

/- `GreedyTiled` cannot be dropped from `regexCut_replace_greedy_eq_spec`: here every other
   hypothesis holds (checked: `SliceStable`; the contract holds for every `Re`), the engine prints
   `a-b` (the printed range is matched again with `normal`, which finds nothing) and the
   specification `ab` (a separator made of zero matches). -/
#guard !greedyTiledB oddBag [97, 45, 98]
#guard sliceStableB oddBag [97, 45, 98]
#guard (cutStrCore [97, 45, 98] oddOpt [10]).1 == Run.ok [97, 45, 98, 10]
#guard specRecordRe (cfgOf oddOpt) oddBag [97, 45, 98] == Run.ok [97, 98, 10]

end Tuc
